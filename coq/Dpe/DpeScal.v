(* C12 -- scalar operations, second part (proofs):
     * rdpe_mul / rdpe_div with zero operands (any exponents of long);
     * the *_d variants as repaired (DpeModel2: rdpe_mul_d_fix, rdpe_div_d_fix) and the component operations of
       cdpe_mul_e / cdpe_div_e (hence cdpe_mul_d_fix / cdpe_div_d_fix): one ulp;
     * rdpe_set_esp o rdpe_Norm as ONE saturating operation (norm_set_esp_sat), instantiated for rdpe_inv, rdpe_sqr,
       rdpe_div: exact exponent in range, +-1/2 * 2^LONG_MAX / 2^LONG_MIN outside, never a wrapped value;
     * rdpe_shift_esp (rdpe_mul_2exp / rdpe_div_2exp) for EVERY unsigned long i (up to three rounds of the loop);
     * rdpe_set_2dl for every long l; rdpe_get_d for every exponent of long (infinity above 2^1024, zero below). *)
From Coq Require Import ZArith Reals Bool Lia Lra Psatz ZifyBool.
From Flocq Require Import Core BinarySingleNaN Relative.
Require Import MPSV.Dpe.DpeDefs MPSV.Dpe.DpeModel MPSV.Dpe.DpeModel2 MPSV.Dpe.DpeProps MPSV.Dpe.DpeArith MPSV.Dpe.DpePow MPSV.Dpe.DpeSat.
Open Scope Z_scope.


(* ---- small facts ------------------------------------------------------------------------------------------------ *)
Lemma feq0_of_R0 : forall f : b64, is_finite f = true -> B2R f = 0%R -> feq0 f = true.
Proof. intros f F Z. apply (feq0_spec f F). assumption. Qed.
Lemma feq0_of_Rn0 : forall f : b64, is_finite f = true -> B2R f <> 0%R -> feq0 f = false.
Proof. intros f F Z. destruct (feq0 f) eqn:E; [|reflexivity]. apply (feq0_spec f F) in E. contradiction. Qed.

(* rdpe_Norm of a zero mantissa: the canonical zero, whatever the exponent was *)
Lemma norm_zero : forall (f : b64) (E : Z), is_finite f = true -> B2R f = 0%R ->
  normalised (rdpe_norm (Rdpe f E)) /\ rval (rdpe_norm (Rdpe f E)) = 0%R /\ esp (rdpe_norm (Rdpe f E)) = 0.
Proof.
  intros f E F Z. destruct (is_zero_b64 f F Z) as [s Hs]. subst f.
  unfold rdpe_norm. cbn [mnt esp ffrexp]. unfold rdpe_set_esp. cbn [mnt feq0].
  split; [|split; [|reflexivity]].
  - split; [reflexivity|]. left. split; reflexivity.
  - unfold rval. cbn [mnt esp]. simpl. ring.
Qed.

Lemma normalised_zero_iff : forall x, normalised x -> ~ nonzero x -> B2R (mnt x) = 0%R.
Proof. intros x _ H. unfold nonzero in H. destruct (Req_dec (B2R (mnt x)) 0); [assumption|contradiction]. Qed.

(* ---- rdpe_mul with a zero factor: exact zero, for all exponents of long (saturation tests included) ------------- *)
Lemma fmul_zero : forall a b : b64, is_finite a = true -> is_finite b = true -> (B2R a * B2R b = 0)%R ->
  is_finite (fmul a b) = true /\ B2R (fmul a b) = 0%R.
Proof.
  intros a b Fa Fb Z.
  pose proof (Bmult_correct 53 1024 _ _ mode_NE a b) as HB.
  change (round_mode mode_NE) with ZnearestE in HB. rewrite Z, round_0 in HB by typeclasses eauto.
  rewrite Rabs_R0, Rlt_bool_true in HB by apply bpow_gt_0. destruct HB as [H1 [H2 _]].
  rewrite Fa, Fb in H2. split; assumption.
Qed.

Theorem mul_zero : forall x y, normalised x -> normalised y -> in_long (esp x) -> in_long (esp y) ->
  (~ nonzero x \/ ~ nonzero y) ->
  normalised (rdpe_mul x y) /\ rval (rdpe_mul x y) = 0%R.
Proof.
  intros x y Nx Ny Lx Ly Hz.
  assert (Q : feq0 (mnt x) || feq0 (mnt y) = true).
  { destruct Hz as [H|H].
    - rewrite (feq0_of_R0 _ (proj1 Nx) (normalised_zero_iff x Nx H)). reflexivity.
    - rewrite (feq0_of_R0 _ (proj1 Ny) (normalised_zero_iff y Ny H)). apply orb_true_r. }
  assert (SZ : forall o, rdpe_mul_saturate (mnt x) (mnt y) o = rdpe_zero).
  { intro o. unfold rdpe_mul_saturate. rewrite Q. reflexivity. }
  assert (NZ : normalised rdpe_zero /\ rval rdpe_zero = 0%R).
  { split. split; [reflexivity|left; split; reflexivity]. unfold rval, rdpe_zero; cbn [mnt esp]; simpl; ring. }
  destruct (mul_no_wrap x y Lx Ly) as [E|[E|[R E]]]; rewrite E; try (rewrite SZ; exact NZ).
  assert (P0 : (B2R (mnt x) * B2R (mnt y) = 0)%R).
  { destruct Hz as [H|H]; [rewrite (normalised_zero_iff x Nx H)|rewrite (normalised_zero_iff y Ny H)]; ring. }
  destruct (fmul_zero _ _ (proj1 Nx) (proj1 Ny) P0) as [F Z].
  destruct (norm_zero _ (esp x + esp y) F Z) as [N [V _]]. split; assumption.
Qed.

(* rdpe_mul, zero factors allowed, exponent sum inside the range: normalised, one ulp *)
Theorem mul_rel0 : forall x y, normalised x -> normalised y ->
  LONG_MIN + 1 <= esp x + esp y <= LONG_MAX - 2 -> in_long (esp x) -> in_long (esp y) ->
  normalised (rdpe_mul x y) /\ rel_e u53 (rval (rdpe_mul x y)) (rval x * rval y).
Proof.
  intros x y Nx Ny HE Lx Ly.
  destruct (Req_dec (B2R (mnt x)) 0) as [X0|X1].
  { destruct (mul_zero x y Nx Ny Lx Ly) as [N V]. { left. unfold nonzero. lra. }
    split; [assumption|]. rewrite V. unfold rval at 1. rewrite X0. rewrite !Rmult_0_l. apply rel_e_refl. apply Rlt_le, u53_pos. }
  destruct (Req_dec (B2R (mnt y)) 0) as [Y0|Y1].
  { destruct (mul_zero x y Nx Ny Lx Ly) as [N V]. { right. unfold nonzero. lra. }
    split; [assumption|]. rewrite V. unfold rval at 2. rewrite Y0. rewrite Rmult_0_l, Rmult_0_r. apply rel_e_refl. apply Rlt_le, u53_pos. }
  exact (mul_rel x y Nx Ny X1 Y1 HE).
Qed.

(* ---- rdpe_div with a zero dividend ----------------------------------------------------------------------------------- *)
Lemma fdiv_zero : forall a b : b64, is_finite a = true -> B2R a = 0%R -> B2R b <> 0%R ->
  is_finite (fdiv a b) = true /\ B2R (fdiv a b) = 0%R.
Proof.
  intros a b Fa Z Nb.
  pose proof (Bdiv_correct 53 1024 _ _ mode_NE a b Nb) as HB.
  change (round_mode mode_NE) with ZnearestE in HB. rewrite Z in HB.
  replace (0 / B2R b)%R with 0%R in HB by (unfold Rdiv; ring).
  rewrite round_0 in HB by typeclasses eauto.
  rewrite Rabs_R0, Rlt_bool_true in HB by apply bpow_gt_0. destruct HB as [H1 [H2 _]].
  rewrite Fa in H2. split; assumption.
Qed.

Theorem div_zero : forall x y, normalised x -> ~ nonzero x -> nonzero y ->
  normalised (rdpe_div x y) /\ rval (rdpe_div x y) = 0%R.
Proof.
  intros x y Nx Zx Zy. unfold rdpe_div.
  destruct (fdiv_zero (mnt x) (mnt y) (proj1 Nx) (normalised_zero_iff x Nx Zx) Zy) as [F Z].
  unfold rdpe_set_esp. cbn [mnt]. rewrite (feq0_of_R0 _ F Z).
  destruct (norm_zero _ 0 F Z) as [N [V _]]. split; assumption.
Qed.

Theorem div_rel0 : forall x y, normalised x -> normalised y -> nonzero y ->
  LONG_MIN + 1 <= esp x - esp y <= LONG_MAX - 2 ->
  normalised (rdpe_div x y) /\ rel_e u53 (rval (rdpe_div x y)) (rval x / rval y).
Proof.
  intros x y Nx Ny Zy HE.
  destruct (Req_dec (B2R (mnt x)) 0) as [X0|X1].
  { destruct (div_zero x y Nx) as [N V]; [unfold nonzero; lra|assumption|].
    split; [assumption|]. rewrite V. unfold rval at 1. rewrite X0. unfold Rdiv. rewrite !Rmult_0_l.
    apply rel_e_refl. apply Rlt_le, u53_pos. }
  exact (div_rel x y Nx Ny X1 Zy HE).
Qed.

(* ---- conversion from double: where the exponent lands ----------------------------------------------------------- *)
Lemma set_d_facts : forall d : b64, is_finite d = true ->
  normalised (rdpe_set_d d) /\ rval (rdpe_set_d d) = B2R d /\
  (B2R d <> 0%R -> nonzero (rdpe_set_d d) /\ -1073 <= esp (rdpe_set_d d) <= 1024) /\
  (B2R d = 0%R -> ~ nonzero (rdpe_set_d d) /\ esp (rdpe_set_d d) = 0).
Proof.
  intros d Fd. destruct (conv_double d Fd) as [N V]. split; [assumption|]. split; [assumption|]. split.
  - intro Nd.
    assert (Nz : nonzero (rdpe_set_d d)).
    { unfold nonzero. intro K. apply Nd. rewrite <- V. unfold rval. rewrite K. ring. }
    split; [assumption|].
    pose proof (rval_bounds _ N Nz) as [B1 B2]. rewrite V in B1, B2.
    assert (U : (Rabs (B2R d) < bpow radix2 1024)%R) by apply abs_B2R_lt_emax.
    assert (L : (bpow radix2 (-1074) <= Rabs (B2R d))%R).
    { apply (abs_B2R_ge_emin 53 1024 d). apply is_finite_strict_B2R; assumption. }
    assert (K1 : esp (rdpe_set_d d) - 1 < 1024) by (apply (lt_bpow radix2); lra).
    assert (K2 : -1074 < esp (rdpe_set_d d)) by (apply (lt_bpow radix2); lra).
    lia.
  - intro Zd.
    assert (Nz : ~ nonzero (rdpe_set_d d)).
    { intro K. apply (rval_nonzero _ K). rewrite V. assumption. }
    split; [assumption|]. destruct (feq0_zero _ N Nz) as [_ [_ E]]. assumption.
Qed.

(* ---- the repaired *_d variants ------------------------------------------------------------------------------------ *)
(* rdpe_mul_d / rdpe_mul_eq_d as repaired: one ulp for EVERY finite double d (subnormal, huge, zero) *)
Theorem mul_d_fix_rel : forall x d, normalised x -> is_finite d = true ->
  LONG_MIN + 1074 <= esp x <= LONG_MAX - 1026 ->
  normalised (rdpe_mul_d_fix x d) /\ rel_e u53 (rval (rdpe_mul_d_fix x d)) (rval x * B2R d).
Proof.
  intros x d Nx Fd HE. unfold rdpe_mul_d_fix.
  destruct (set_d_facts d Fd) as [N [V [H1 H0]]]. rewrite <- V.
  assert (Le : -1073 <= esp (rdpe_set_d d) <= 1024).
  { destruct (Req_dec (B2R d) 0) as [Z|Z]; [destruct (H0 Z) as [_ E]; rewrite E; lia|exact (proj2 (H1 Z))]. }
  set (ed := esp (rdpe_set_d d)) in *.
  assert (A1 : LONG_MIN + 1 <= esp x + ed <= LONG_MAX - 2) by (clear - HE Le; clearbody ed; unfold LONG_MIN, LONG_MAX in *; lia).
  assert (A2 : in_long (esp x)) by (clear - HE; unfold in_long, LONG_MIN, LONG_MAX in *; lia).
  assert (A3 : in_long ed) by (clear - Le; clearbody ed; unfold in_long, LONG_MIN, LONG_MAX in *; lia).
  exact (mul_rel0 x (rdpe_set_d d) Nx N A1 A2 A3).
Qed.

(* rdpe_div_d / rdpe_div_eq_d as repaired *)
Theorem div_d_fix_rel : forall x d, normalised x -> is_finite d = true -> B2R d <> 0%R ->
  LONG_MIN + 1025 <= esp x <= LONG_MAX - 1075 ->
  normalised (rdpe_div_d_fix x d) /\ rel_e u53 (rval (rdpe_div_d_fix x d)) (rval x / B2R d).
Proof.
  intros x d Nx Fd Nd HE. unfold rdpe_div_d_fix.
  destruct (set_d_facts d Fd) as [N [V [H1 _]]]. rewrite <- V. destruct (H1 Nd) as [Nz Le].
  set (ed := esp (rdpe_set_d d)) in *.
  assert (A1 : LONG_MIN + 1 <= esp x - ed <= LONG_MAX - 2) by (clear - HE Le; clearbody ed; unfold LONG_MIN, LONG_MAX in *; lia).
  exact (div_rel0 x (rdpe_set_d d) Nx N Nz A1).
Qed.

(* ---- the component operation of cdpe_mul_e / cdpe_div_e ------------------------------------------------------------ *)
(* Re and Im of cdpe_mul_e (c, e) are  rdpe_Norm (rdpe_set_esp (m_c * m_e, e_c, e_e, 0)):  with the exponent sum in range
   this is rdpe_mul; for cdpe_div_e it is rdpe_div by definition. *)
Lemma norm_zero_any : forall (f : b64) (E E' : Z), feq0 f = true -> rdpe_norm (Rdpe f E) = rdpe_norm (Rdpe f E').
Proof.
  intros f E E' Q. destruct f as [s|s| |s m e He]; try discriminate Q.
  unfold rdpe_norm. cbn [mnt esp ffrexp]. unfold rdpe_set_esp. cbn [mnt feq0]. reflexivity.
Qed.

Lemma mul_e_comp_is_mul : forall x y, LONG_MIN + 1 <= esp x + esp y <= LONG_MAX - 2 ->
  rdpe_norm (rdpe_set_esp (Rdpe (fmul (mnt x) (mnt y)) (esp x)) (esp x) (esp y) false) = rdpe_mul x y.
Proof.
  intros x y HE. unfold rdpe_mul, mul_ovf, mul_unf.
  replace ((0 <=? esp x) && (LONG_MAX - esp x <=? esp y)) with false by (unfold LONG_MAX, LONG_MIN in *; lia).
  replace ((esp x <=? 0) && (esp y <=? LONG_MIN - esp x)) with false by (unfold LONG_MAX, LONG_MIN in *; lia).
  rewrite wrap64_id by (unfold in_long, LONG_MAX, LONG_MIN in *; lia).
  destruct (feq0 (fmul (mnt x) (mnt y))) eqn:Q.
  - unfold rdpe_set_esp. cbn [mnt]. rewrite Q. apply norm_zero_any. assumption.
  - rewrite (set_esp_exact _ _ _ _ false Q) by (unfold in_long, LONG_MAX, LONG_MIN in *; lia). reflexivity.
Qed.

Definition cmul_e_re (c : cdpe) (e : rdpe) : rdpe := cre (cdpe_mul_e c e).

Theorem cmul_e_components : forall c e, LONG_MIN + 1 <= esp (cre c) + esp e <= LONG_MAX - 2 ->
  LONG_MIN + 1 <= esp (cim c) + esp e <= LONG_MAX - 2 ->
  cdpe_mul_e c e = Cdpe (rdpe_mul (cre c) e) (rdpe_mul (cim c) e).
Proof.
  intros c e H1 H2. unfold cdpe_mul_e, cdpe_norm. cbn [cre cim].
  rewrite (mul_e_comp_is_mul (cre c) e H1), (mul_e_comp_is_mul (cim c) e H2). reflexivity.
Qed.
Theorem cdiv_e_components : forall c e, cdpe_div_e c e = Cdpe (rdpe_div (cre c) e) (rdpe_div (cim c) e).
Proof. intros c e. reflexivity. Qed.

(* ---- rdpe_set_esp followed by rdpe_Norm is ONE saturating operation ------------------------------------------------ *)
(* two finite doubles with the same sign, mantissa and exponent are equal (the boundedness proof is unique: bool) *)
Lemma b64_finite_irrel : forall s m e (p q : SpecFloat.bounded 53 1024 m e = true),
  (B754_finite s m e p : b64) = B754_finite s m e q.
Proof. intros. replace q with p; [reflexivity|]. apply Eqdep_dec.UIP_dec. apply Bool.bool_dec. Qed.

Lemma norm_half_fixpoint : forall E, (E = LONG_MAX \/ E = LONG_MIN) ->
  rdpe_norm (Rdpe fhalf E) = Rdpe fhalf E /\ rdpe_norm (Rdpe fmhalf E) = Rdpe fmhalf E.
Proof.
  intros E [H|H]; subst E; split; vm_compute; f_equal; apply b64_finite_irrel.
Qed.

Lemma half_sign_facts : forall m : b64,
  is_finite (half_sign m) = true /\ B2R (half_sign m) <> 0%R /\ half_sign (half_sign m) = half_sign m /\
  rdpe_norm (Rdpe (half_sign m) LONG_MAX) = Rdpe (half_sign m) LONG_MAX /\
  rdpe_norm (Rdpe (half_sign m) LONG_MIN) = Rdpe (half_sign m) LONG_MIN /\
  normalised (Rdpe (half_sign m) LONG_MAX) /\ normalised (Rdpe (half_sign m) LONG_MIN).
Proof.
  intro m. unfold half_sign. destruct (flt0 m).
  - split; [reflexivity|]. split; [rewrite B2R_fmhalf; lra|]. split; [reflexivity|].
    split; [apply norm_half_fixpoint; left; reflexivity|]. split; [apply norm_half_fixpoint; right; reflexivity|].
    split; apply normalised_mhalf.
  - split; [reflexivity|]. split; [rewrite B2R_fhalf; lra|]. split; [reflexivity|].
    split; [apply norm_half_fixpoint; left; reflexivity|]. split; [apply norm_half_fixpoint; right; reflexivity|].
    split; apply normalised_half.
Qed.

Lemma set_esp_sat : forall (m : b64) (e0 a b : Z) (sub : bool),
  is_finite m = true -> B2R m <> 0%R -> in_long a -> in_long b ->
  rdpe_set_esp (Rdpe m e0) a b sub = sat_rdpe m (if sub then a - b else a + b).
Proof.
  intros m e0 a b sub Fm Nm La Lb.
  destruct (set_esp_saturates m e0 a b sub Fm Nm La Lb) as [_ [H1 [H2 H3]]]. cbv zeta in *.
  set (s := if sub then a - b else a + b) in *. unfold sat_rdpe, half_sign, in_longb.
  destruct (Z_lt_le_dec LONG_MAX s) as [A|A].
  { rewrite (H2 A). replace ((LONG_MIN <=? s) && (s <=? LONG_MAX)) with false by (unfold LONG_MIN, LONG_MAX in *; lia).
    replace (LONG_MAX <? s) with true by lia. reflexivity. }
  destruct (Z_lt_le_dec s LONG_MIN) as [B|B].
  { rewrite (H3 B). replace ((LONG_MIN <=? s) && (s <=? LONG_MAX)) with false by (unfold LONG_MIN, LONG_MAX in *; lia).
    replace (LONG_MAX <? s) with false by lia. reflexivity. }
  rewrite (H1 (conj B A)). replace ((LONG_MIN <=? s) && (s <=? LONG_MAX)) with true by lia. reflexivity.
Qed.

Lemma flt0_frexp : forall f : b64, is_finite f = true -> flt0 (fst (ffrexp f)) = flt0 f.
Proof.
  intros f Ff. pose proof (ffrexp_spec f Ff) as S. destruct (ffrexp f) as [z i]. cbn [fst].
  destruct S as [Fz [Hv _]]. assert (Hp := bpow_gt_0 radix2 i).
  destruct (flt0 f) eqn:E.
  - apply (flt0_spec f Ff) in E. apply (flt0_spec z Fz). rewrite Hv in E. nra.
  - destruct (flt0 z) eqn:E'; [|reflexivity]. apply (flt0_spec z Fz) in E'.
    assert (B2R f < 0)%R by (rewrite Hv; nra). apply (flt0_spec f Ff) in H. congruence.
Qed.

(* the result of  rdpe_set_esp (E, a, b, sub); rdpe_Norm (E)  on a finite non-zero mantissa f (z, i = frexp f):
     s = a +- b in range           ->  mantissa z, exponent s + i saturated to long (sat_rdpe)
     s above LONG_MAX / below LONG_MIN ->  +-1/2 (sign of f) at LONG_MAX / LONG_MIN                        *)
Theorem norm_set_esp_sat : forall (f : b64) (e0 a b : Z) (sub : bool),
  is_finite f = true -> B2R f <> 0%R -> in_long a -> in_long b ->
  let s := if sub then a - b else a + b in
  let r := rdpe_norm (rdpe_set_esp (Rdpe f e0) a b sub) in
  (in_long s -> r = sat_rdpe (fst (ffrexp f)) (s + snd (ffrexp f))) /\
  (LONG_MAX < s -> r = Rdpe (half_sign f) LONG_MAX) /\
  (s < LONG_MIN -> r = Rdpe (half_sign f) LONG_MIN) /\
  in_long (esp r) /\ half_sign (mnt r) = half_sign f.
Proof.
  intros f e0 a b sub Ff Nf La Lb s r.
  destruct (half_sign_facts f) as [HF [HN [HH [HX [HM _]]]]].
  pose proof (set_esp_sat f e0 a b sub Ff Nf La Lb) as E. fold s in E.
  pose proof (ffrexp_spec f Ff) as S. pose proof (ffrexp_exp_bound f Ff) as Bi. pose proof (flt0_frexp f Ff) as SG.
  assert (C1 : in_long s -> r = sat_rdpe (fst (ffrexp f)) (s + snd (ffrexp f))).
  { intro Ls. unfold r. rewrite E. unfold sat_rdpe at 1. replace (in_longb s) with true by (unfold in_longb, in_long in *; lia).
    unfold rdpe_norm. cbn [mnt esp]. destruct (ffrexp f) as [z i]. cbn [fst snd] in *.
    destruct S as [Fz [Hv [[H0 _]|[_ [Hb _]]]]]; [contradiction|].
    assert (Nz : B2R z <> 0%R) by (intro K; rewrite K, Rabs_R0 in Hb; lra).
    apply set_esp_sat; try assumption. unfold in_long, LONG_MIN, LONG_MAX; lia. }
  assert (C2 : LONG_MAX < s -> r = Rdpe (half_sign f) LONG_MAX).
  { intro H. unfold r. rewrite E. unfold sat_rdpe. replace (in_longb s) with false by (unfold in_longb, LONG_MIN, LONG_MAX in *; lia).
    replace (LONG_MAX <? s) with true by lia. exact HX. }
  assert (C3 : s < LONG_MIN -> r = Rdpe (half_sign f) LONG_MIN).
  { intro H. unfold r. rewrite E. unfold sat_rdpe. replace (in_longb s) with false by (unfold in_longb, LONG_MIN, LONG_MAX in *; lia).
    replace (LONG_MAX <? s) with false by (unfold LONG_MIN, LONG_MAX in *; lia). exact HM. }
  split; [assumption|]. split; [assumption|]. split; [assumption|].
  destruct (Z_lt_le_dec LONG_MAX s) as [A|A].
  { rewrite (C2 A). cbn [esp mnt]. split; [unfold in_long, LONG_MIN, LONG_MAX; lia|assumption]. }
  destruct (Z_lt_le_dec s LONG_MIN) as [B|B].
  { rewrite (C3 B). cbn [esp mnt]. split; [unfold in_long, LONG_MIN, LONG_MAX; lia|assumption]. }
  rewrite (C1 (conj B A)). unfold sat_rdpe.
  destruct (in_longb (s + snd (ffrexp f))) eqn:IL; cbn [esp mnt].
  - split; [unfold in_longb, in_long in *; lia|]. unfold half_sign. rewrite SG. reflexivity.
  - split; [destruct (LONG_MAX <? s + snd (ffrexp f)); unfold in_long, LONG_MIN, LONG_MAX; lia|].
    unfold half_sign at 2. rewrite SG. exact HH.
Qed.

(* the rounded mantissa of a quotient / product of normalised non-zero mantissas: finite, not zero, in [1/4, 2],
   sign of the exact quotient / product *)
Lemma fdiv_mnt : forall a b : b64, is_finite a = true -> (/2 <= Rabs (B2R a) <= 1)%R -> is_finite b = true ->
  (/2 <= Rabs (B2R b) < 1)%R ->
  is_finite (fdiv a b) = true /\ B2R (fdiv a b) = rnd64 (B2R a / B2R b) /\ (/4 <= Rabs (B2R a / B2R b) <= 2)%R /\
  B2R (fdiv a b) <> 0%R /\ flt0 (fdiv a b) = xorb (flt0 a) (flt0 b).
Proof.
  intros a b Fa Ba Fb Bb.
  assert (Nb : B2R b <> 0%R) by (intro K; rewrite K, Rabs_R0 in Bb; lra).
  assert (Na : B2R a <> 0%R) by (intro K; rewrite K, Rabs_R0 in Ba; lra).
  set (r := (B2R a / B2R b)%R).
  assert (Hb : (/4 <= Rabs r <= 2)%R).
  { unfold r, Rdiv. rewrite Rabs_mult, Rabs_inv.
    assert (1 < / Rabs (B2R b) <= 2)%R.
    { split. rewrite <- Rinv_1 at 1. apply Rinv_lt_contravar; lra.
      replace 2%R with (/ / 2)%R by field. apply Rinv_le_contravar; lra. }
    split.
    - apply Rle_trans with (/2 * 1)%R; [lra|]. apply Rmult_le_compat; lra.
    - apply Rle_trans with (1 * 2)%R; [|lra]. apply Rmult_le_compat; try apply Rabs_pos; try lra. }
  destruct (rnd_bounds r Hb) as [_ [Hov _]].
  pose proof (Bdiv_correct 53 1024 _ _ mode_NE a b Nb) as HB.
  change (round_mode mode_NE) with ZnearestE in HB. fold r in HB.
  rewrite Rlt_bool_true in HB by assumption. destruct HB as [H1 [H2 _]]. rewrite Fa in H2.
  destruct (feq0_false_rnd _ r H2 H1 Hb) as [_ Nz].
  split; [assumption|]. split; [assumption|]. split; [assumption|]. split; [assumption|].
  (* sign *)
  assert (SR : (B2R (fdiv a b) < 0)%R <-> (r < 0)%R).
  { unfold fdiv. rewrite H1. split; intro K.
    - destruct (Rlt_or_le r 0) as [L|L]; [assumption|exfalso].
      assert (0 <= rnd64 r)%R by (apply round_ge_generic; try typeclasses eauto; [apply generic_format_0|assumption]). lra.
    - assert (rnd64 r <= 0)%R by (apply round_le_generic; try typeclasses eauto; [apply generic_format_0|lra]).
      unfold fdiv in Nz. rewrite H1 in Nz. lra. }
  destruct (sign_bools a Fa) as [[Sa [_ [La _]]]|[[Sa [_ [La _]]]|[Sa _]]]; try contradiction;
  destruct (sign_bools b Fb) as [[Sb [_ [Lb _]]]|[[Sb [_ [Lb _]]]|[Sb _]]]; try contradiction; rewrite La, Lb; cbn [xorb];
  assert (IB : (0 < / B2R b)%R \/ (/ B2R b < 0)%R) by
    (first [left; apply Rinv_0_lt_compat; assumption | right; apply Rinv_lt_0_compat; assumption]).
  - destruct (flt0 (fdiv a b)) eqn:E; [|reflexivity]. apply (flt0_spec _ H2) in E. apply SR in E. unfold r, Rdiv in E.
    assert (0 < / B2R b)%R by (apply Rinv_0_lt_compat; assumption). nra.
  - apply (flt0_spec _ H2). apply SR. unfold r, Rdiv. assert (/ B2R b < 0)%R by (apply Rinv_lt_0_compat; assumption). nra.
  - apply (flt0_spec _ H2). apply SR. unfold r, Rdiv. assert (0 < / B2R b)%R by (apply Rinv_0_lt_compat; assumption). nra.
  - destruct (flt0 (fdiv a b)) eqn:E; [|reflexivity]. apply (flt0_spec _ H2) in E. apply SR in E. unfold r, Rdiv in E.
    assert (/ B2R b < 0)%R by (apply Rinv_lt_0_compat; assumption). nra.
Qed.

Lemma fmul_mnt : forall a b : b64, is_finite a = true -> (/2 <= Rabs (B2R a) < 1)%R -> is_finite b = true ->
  (/2 <= Rabs (B2R b) < 1)%R ->
  is_finite (fmul a b) = true /\ B2R (fmul a b) = rnd64 (B2R a * B2R b) /\ (/4 <= Rabs (B2R a * B2R b) <= 2)%R /\
  B2R (fmul a b) <> 0%R /\ flt0 (fmul a b) = xorb (flt0 a) (flt0 b).
Proof.
  intros a b Fa Ba Fb Bb.
  assert (Nb : B2R b <> 0%R) by (intro K; rewrite K, Rabs_R0 in Bb; lra).
  assert (Na : B2R a <> 0%R) by (intro K; rewrite K, Rabs_R0 in Ba; lra).
  set (r := (B2R a * B2R b)%R).
  assert (Hb : (/4 <= Rabs r <= 2)%R).
  { unfold r. rewrite Rabs_mult. split.
    - replace (/4)%R with (/2 * /2)%R by field. apply Rmult_le_compat; lra.
    - apply Rle_trans with (1 * 1)%R; [|lra]. apply Rmult_le_compat; try apply Rabs_pos; lra. }
  destruct (rnd_bounds r Hb) as [_ [Hov _]].
  pose proof (Bmult_correct 53 1024 _ _ mode_NE a b) as HB.
  change (round_mode mode_NE) with ZnearestE in HB. fold r in HB.
  rewrite Rlt_bool_true in HB by assumption. destruct HB as [H1 [H2 _]]. rewrite Fa, Fb in H2. simpl in H2.
  destruct (feq0_false_rnd _ r H2 H1 Hb) as [_ Nz].
  split; [assumption|]. split; [assumption|]. split; [assumption|]. split; [assumption|].
  assert (SR : (B2R (fmul a b) < 0)%R <-> (r < 0)%R).
  { unfold fmul. rewrite H1. split; intro K.
    - destruct (Rlt_or_le r 0) as [L|L]; [assumption|exfalso].
      assert (0 <= rnd64 r)%R by (apply round_ge_generic; try typeclasses eauto; [apply generic_format_0|assumption]). lra.
    - assert (rnd64 r <= 0)%R by (apply round_le_generic; try typeclasses eauto; [apply generic_format_0|lra]).
      unfold fmul in Nz. rewrite H1 in Nz. lra. }
  destruct (sign_bools a Fa) as [[Sa [_ [La _]]]|[[Sa [_ [La _]]]|[Sa _]]]; try contradiction;
  destruct (sign_bools b Fb) as [[Sb [_ [Lb _]]]|[[Sb [_ [Lb _]]]|[Sb _]]]; try contradiction; rewrite La, Lb; cbn [xorb].
  - destruct (flt0 (fmul a b)) eqn:E; [|reflexivity]. apply (flt0_spec _ H2) in E. apply SR in E. unfold r in E. nra.
  - apply (flt0_spec _ H2). apply SR. unfold r. nra.
  - apply (flt0_spec _ H2). apply SR. unfold r. nra.
  - destruct (flt0 (fmul a b)) eqn:E; [|reflexivity]. apply (flt0_spec _ H2) in E. apply SR in E. unfold r in E. nra.
Qed.

Lemma fone_bounds : is_finite fone = true /\ (/2 <= Rabs (B2R fone) <= 1)%R /\ flt0 fone = false.
Proof. rewrite B2R_fone, Rabs_R1. split; [reflexivity|]. split; [lra|reflexivity]. Qed.

(* "saturating instead of wrapping" for rdpe_inv, rdpe_sqr, rdpe_div as whole operations, every exponent of long:
   with f the rounded mantissa quotient / product, (z, i) = frexp f and s the exact exponent (-e, 2e, e1 - e2):
     s and s + i in range -> mantissa z, exponent s + i (and then C12_inv_rel / sqr_rel / div_rel give the ulp);
     otherwise             -> +-1/2 with the SIGN OF THE EXACT RESULT at LONG_MAX (above) / LONG_MIN (below). *)
Definition sat_result (r : rdpe) (neg : bool) (f : b64) (s : Z) : Prop :=
  in_long (esp r) /\
  (in_long s -> r = sat_rdpe (fst (ffrexp f)) (s + snd (ffrexp f))) /\
  (LONG_MAX < s -> r = Rdpe (if neg then fmhalf else fhalf) LONG_MAX) /\
  (s < LONG_MIN -> r = Rdpe (if neg then fmhalf else fhalf) LONG_MIN) /\
  half_sign (mnt r) = (if neg then fmhalf else fhalf) /\ -1 <= snd (ffrexp f) <= 2.

Lemma frexp_small_exp : forall (f : b64) (r : R), is_finite f = true -> B2R f = rnd64 r -> (/4 <= Rabs r <= 2)%R ->
  -1 <= snd (ffrexp f) <= 2.
Proof.
  intros f r Hf Hr Hb. destruct (rnd_bounds r Hb) as [[B1 B2] _].
  pose proof (ffrexp_spec f Hf) as S. destruct (ffrexp f) as [z i]. cbn [snd].
  destruct S as [_ [_ [[H0 _]|[Hn [_ [Hi _]]]]]].
  - rewrite Hr in H0. rewrite H0, Rabs_R0 in B1. lra.
  - assert (-2 < i).
    { rewrite Hi. apply mag_gt_bpow. rewrite Hr. change (bpow radix2 (-2)) with (/4)%R. assumption. }
    assert (i <= 2).
    { rewrite Hi. apply mag_le_bpow. assumption. rewrite Hr.
      apply Rle_lt_trans with (1 := B2). change 2%R with (bpow radix2 1). apply bpow_lt. lia. }
    lia.
Qed.

Theorem inv_saturates : forall x, normalised x -> nonzero x -> in_long (esp x) ->
  sat_result (rdpe_inv x) (flt0 (mnt x)) (fdiv fone (mnt x)) (- esp x).
Proof.
  intros x Nx Zx Lx. destruct fone_bounds as [F1 [B1 S1]].
  destruct (fdiv_mnt fone (mnt x) F1 B1 (proj1 Nx) (normalised_bounds x Nx Zx)) as [Ff [Hr [Hb [Nf Sf]]]].
  rewrite S1, xorb_false_l in Sf.
  assert (L0 : in_long 0) by (unfold in_long, LONG_MIN, LONG_MAX; lia).
  destruct (norm_set_esp_sat (fdiv fone (mnt x)) (esp x) 0 (esp x) true Ff Nf L0 Lx) as [C1 [C2 [C3 [C4 C5]]]].
  cbv zeta in *. change (0 - esp x) with (- esp x) in *. unfold half_sign in C2, C3, C5 at 2. rewrite Sf in C2, C3, C5.
  unfold sat_result, rdpe_inv. split; [exact C4|]. split; [exact C1|]. split; [exact C2|]. split; [exact C3|]. split; [exact C5|].
  apply (frexp_small_exp _ _ Ff Hr Hb).
Qed.

Theorem sqr_saturates_full : forall x, normalised x -> nonzero x -> in_long (esp x) ->
  sat_result (rdpe_sqr x) false (fmul (mnt x) (mnt x)) (esp x + esp x).
Proof.
  intros x Nx Zx Lx. pose proof (normalised_bounds x Nx Zx) as Bx.
  destruct (fmul_mnt (mnt x) (mnt x) (proj1 Nx) Bx (proj1 Nx) Bx) as [Ff [Hr [Hb [Nf Sf]]]].
  rewrite xorb_nilpotent in Sf.
  destruct (norm_set_esp_sat (fmul (mnt x) (mnt x)) (esp x) (esp x) (esp x) false Ff Nf Lx Lx) as [C1 [C2 [C3 [C4 C5]]]].
  cbv zeta in *. unfold half_sign in C2, C3, C5 at 2. rewrite Sf in C2, C3, C5.
  unfold sat_result, rdpe_sqr. split; [exact C4|]. split; [exact C1|]. split; [exact C2|]. split; [exact C3|]. split; [exact C5|].
  apply (frexp_small_exp _ _ Ff Hr Hb).
Qed.

Theorem div_saturates : forall x y, normalised x -> normalised y -> nonzero x -> nonzero y ->
  in_long (esp x) -> in_long (esp y) ->
  sat_result (rdpe_div x y) (xorb (flt0 (mnt x)) (flt0 (mnt y))) (fdiv (mnt x) (mnt y)) (esp x - esp y).
Proof.
  intros x y Nx Ny Zx Zy Lx Ly. pose proof (normalised_bounds x Nx Zx) as Bx.
  assert (Bx' : (/2 <= Rabs (B2R (mnt x)) <= 1)%R) by lra.
  destruct (fdiv_mnt (mnt x) (mnt y) (proj1 Nx) Bx' (proj1 Ny) (normalised_bounds y Ny Zy)) as [Ff [Hr [Hb [Nf Sf]]]].
  destruct (norm_set_esp_sat (fdiv (mnt x) (mnt y)) (esp x) (esp x) (esp y) true Ff Nf Lx Ly) as [C1 [C2 [C3 [C4 C5]]]].
  cbv zeta in *. unfold half_sign in C2, C3, C5 at 2. rewrite Sf in C2, C3, C5.
  unfold sat_result, rdpe_div. split; [exact C4|]. split; [exact C1|]. split; [exact C2|]. split; [exact C3|]. split; [exact C5|].
  apply (frexp_small_exp _ _ Ff Hr Hb).
Qed.

(* rdpe_mul for every pair of exponents of long: a saturation test fires (zero on underflow, +-RDPE_MAX with the sign of the
   product on overflow), or rdpe_Norm clamps the exact exponent sum (which is then strictly inside the range) *)
Theorem mul_saturates : forall x y, normalised x -> normalised y -> nonzero x -> nonzero y ->
  in_long (esp x) -> in_long (esp y) ->
  let neg := xorb (flt0 (mnt x)) (flt0 (mnt y)) in
  let f := fmul (mnt x) (mnt y) in
  (LONG_MAX <= esp x + esp y -> rdpe_mul x y = Rdpe (if neg then fneg fhalf else fhalf) LONG_MAX) /\
  (esp x + esp y <= LONG_MIN -> rdpe_mul x y = rdpe_zero) /\
  (LONG_MIN < esp x + esp y < LONG_MAX ->
     rdpe_mul x y = sat_rdpe (fst (ffrexp f)) (esp x + esp y + snd (ffrexp f)) /\ -1 <= snd (ffrexp f) <= 2).
Proof.
  intros x y Nx Ny Zx Zy Lx Ly neg f.
  pose proof (feq0_nonzero x Nx Zx) as Qx. pose proof (feq0_nonzero y Ny Zy) as Qy.
  unfold rdpe_mul, mul_ovf, mul_unf, rdpe_mul_saturate. rewrite Qx, Qy. cbn [orb negb].
  split; [|split].
  - intro H. replace ((0 <=? esp x) && (LONG_MAX - esp x <=? esp y)) with true by (unfold in_long, LONG_MAX, LONG_MIN in *; lia).
    unfold neg. destruct (xorb (flt0 (mnt x)) (flt0 (mnt y))); reflexivity.
  - intro H. replace ((0 <=? esp x) && (LONG_MAX - esp x <=? esp y)) with false by (unfold in_long, LONG_MAX, LONG_MIN in *; lia).
    replace ((esp x <=? 0) && (esp y <=? LONG_MIN - esp x)) with true by (unfold in_long, LONG_MAX, LONG_MIN in *; lia).
    reflexivity.
  - intro H. replace ((0 <=? esp x) && (LONG_MAX - esp x <=? esp y)) with false by (unfold in_long, LONG_MAX, LONG_MIN in *; lia).
    replace ((esp x <=? 0) && (esp y <=? LONG_MIN - esp x)) with false by (unfold in_long, LONG_MAX, LONG_MIN in *; lia).
    rewrite wrap64_id by (unfold in_long, LONG_MAX, LONG_MIN in *; lia).
    destruct (fmul_mnt (mnt x) (mnt y) (proj1 Nx) (normalised_bounds x Nx Zx) (proj1 Ny) (normalised_bounds y Ny Zy))
      as [Ff [Hr [Hb [Nf Sf]]]].
    split; [|apply (frexp_small_exp _ _ Ff Hr Hb)].
    pose proof (ffrexp_spec (fmul (mnt x) (mnt y)) Ff) as S. pose proof (ffrexp_exp_bound _ Ff) as Bi.
    unfold rdpe_norm. cbn [mnt esp]. fold f in S, Bi, Nf |- *. destruct (ffrexp f) as [z i]. cbn [fst snd] in *.
    destruct S as [Fz [Hv [[H0 _]|[_ [Hbz _]]]]]; [contradiction|].
    assert (Nz : B2R z <> 0%R) by (intro K; rewrite K, Rabs_R0 in Hbz; lra).
    apply set_esp_sat; try assumption; unfold in_long, LONG_MIN, LONG_MAX in *; lia.
Qed.

(* ---- rdpe_shift_esp (rdpe_mul_2exp, rdpe_div_2exp and the _eq / cdpe forms) for every unsigned long ---------------- *)
Lemma sat_rdpe_in : forall m s, in_long s -> sat_rdpe m s = Rdpe m s.
Proof. intros m s H. unfold sat_rdpe. replace (in_longb s) with true by (unfold in_longb, in_long in *; lia). reflexivity. Qed.

(* one round of the loop of rdpe_shift_esp on a value that may already be saturated in the direction of the shift *)
Lemma set_esp_sat_step : forall (m : b64) (s b : Z) (sub : bool),
  is_finite m = true -> B2R m <> 0%R -> in_long b -> 0 < b ->
  (sub = false -> LONG_MIN <= s) -> (sub = true -> s <= LONG_MAX) ->
  let y := sat_rdpe m s in
  rdpe_set_esp y (esp y) b sub = sat_rdpe m (if sub then s - b else s + b).
Proof.
  intros m s b sub Fm Nm Lb Pb R0 R1 y.
  destruct (half_sign_facts m) as [HF [HN [HH _]]].
  unfold y. destruct (in_longb s) eqn:IL.
  - assert (Ls : in_long s) by (unfold in_longb, in_long in *; lia).
    rewrite (sat_rdpe_in m s Ls). cbn [esp]. apply set_esp_sat; assumption.
  - destruct sub.
    + assert (S1 : s < LONG_MIN) by (specialize (R1 eq_refl); unfold in_longb, LONG_MIN, LONG_MAX in *; lia).
      assert (Y : sat_rdpe m s = Rdpe (half_sign m) LONG_MIN).
      { unfold sat_rdpe. rewrite IL. replace (LONG_MAX <? s) with false by (unfold LONG_MIN, LONG_MAX in *; lia). reflexivity. }
      rewrite Y. cbn [esp].
      rewrite (set_esp_sat (half_sign m) LONG_MIN LONG_MIN b true HF HN) by (assumption || (unfold in_long, LONG_MIN, LONG_MAX; lia)).
      unfold sat_rdpe. rewrite HH.
      replace (in_longb (LONG_MIN - b)) with false by (unfold in_longb, in_long, LONG_MIN, LONG_MAX in *; lia).
      replace (in_longb (s - b)) with false by (unfold in_longb, in_long, LONG_MIN, LONG_MAX in *; lia).
      replace (LONG_MAX <? LONG_MIN - b) with false by (unfold in_long, LONG_MIN, LONG_MAX in *; lia).
      replace (LONG_MAX <? s - b) with false by (unfold in_long, LONG_MIN, LONG_MAX in *; lia). reflexivity.
    + assert (S1 : LONG_MAX < s) by (specialize (R0 eq_refl); unfold in_longb, LONG_MIN, LONG_MAX in *; lia).
      assert (Y : sat_rdpe m s = Rdpe (half_sign m) LONG_MAX).
      { unfold sat_rdpe. rewrite IL. replace (LONG_MAX <? s) with true by lia. reflexivity. }
      rewrite Y. cbn [esp].
      rewrite (set_esp_sat (half_sign m) LONG_MAX LONG_MAX b false HF HN) by (assumption || (unfold in_long, LONG_MIN, LONG_MAX; lia)).
      unfold sat_rdpe. rewrite HH.
      replace (in_longb (LONG_MAX + b)) with false by (unfold in_longb, in_long, LONG_MIN, LONG_MAX in *; lia).
      replace (in_longb (s + b)) with false by (unfold in_longb, in_long, LONG_MIN, LONG_MAX in *; lia).
      replace (LONG_MAX <? LONG_MAX + b) with true by (unfold in_long, LONG_MIN, LONG_MAX in *; lia).
      replace (LONG_MAX <? s + b) with true by (unfold in_long, LONG_MIN, LONG_MAX in *; lia). reflexivity.
Qed.

(* rdpe_shift_esp (e, i, sub) for EVERY unsigned long i: the exponent e -+ i computed exactly and saturated ONCE -- the
   LONG_MAX-sized rounds of the while loop (at most two before the last call for i <= ULONG_MAX) compose *)
Theorem shift_esp_full : forall x i (sub : bool), normalised x -> nonzero x -> in_long (esp x) -> 0 <= i <= ULONG_MAX ->
  rdpe_shift_esp x i sub = sat_rdpe (mnt x) (if sub then esp x - i else esp x + i).
Proof.
  intros x i sub Nx Zx Lx Hi. destruct x as [m e]. cbn [mnt esp] in *.
  assert (Fm : is_finite m = true) by exact (proj1 Nx). assert (Nm : B2R m <> 0%R) by exact Zx.
  assert (LM : in_long LONG_MAX) by (unfold in_long, LONG_MIN, LONG_MAX; lia).
  assert (X0 : Rdpe m e = sat_rdpe m e) by (symmetry; apply sat_rdpe_in; assumption).
  unfold rdpe_shift_esp. cbv zeta.
  destruct (LONG_MAX <? i) eqn:G1.
  - (* first round *)
    assert (S1 : rdpe_set_esp (Rdpe m e) (esp (Rdpe m e)) LONG_MAX sub = sat_rdpe m (if sub then e - LONG_MAX else e + LONG_MAX)).
    { rewrite X0. apply set_esp_sat_step; try assumption; try (unfold LONG_MAX; lia); intros _; unfold in_long in *; lia. }
    rewrite S1. set (s1 := if sub then e - LONG_MAX else e + LONG_MAX) in *.
    assert (R0 : sub = false -> LONG_MIN <= s1) by (intro K; unfold s1; rewrite K; unfold in_long, LONG_MIN, LONG_MAX in *; lia).
    assert (R1 : sub = true -> s1 <= LONG_MAX) by (intro K; unfold s1; rewrite K; unfold in_long, LONG_MIN, LONG_MAX in *; lia).
    destruct (LONG_MAX <? i - LONG_MAX) eqn:G2.
    + (* second round, then the final call *)
      rewrite (set_esp_sat_step m s1 LONG_MAX sub Fm Nm LM) by (assumption || (unfold LONG_MAX; lia)).
      set (s2 := if sub then s1 - LONG_MAX else s1 + LONG_MAX) in *.
      assert (R0' : sub = false -> LONG_MIN <= s2) by (intro K; specialize (R0 K); unfold s2; rewrite K; unfold LONG_MIN, LONG_MAX in *; lia).
      assert (R1' : sub = true -> s2 <= LONG_MAX) by (intro K; specialize (R1 K); unfold s2; rewrite K; unfold LONG_MIN, LONG_MAX in *; lia).
      rewrite (set_esp_sat_step m s2 (i - LONG_MAX - LONG_MAX) sub Fm Nm)
        by (assumption || (unfold in_long, ULONG_MAX, LONG_MIN, LONG_MAX in *; lia)).
      f_equal. unfold s2, s1. destruct sub; lia.
    + rewrite (set_esp_sat_step m s1 (i - LONG_MAX) sub Fm Nm)
        by (assumption || (unfold in_long, ULONG_MAX, LONG_MIN, LONG_MAX in *; lia)).
      f_equal. unfold s1. destruct sub; lia.
  - cbn [esp]. apply set_esp_sat; try assumption. unfold in_long, LONG_MIN, LONG_MAX in *; lia.
Qed.

(* a zero mantissa keeps the canonical zero whatever i is *)
Theorem shift_esp_zero : forall x i (sub : bool), normalised x -> ~ nonzero x -> rdpe_shift_esp x i sub = x.
Proof.
  intros x i sub Nx Zx. destruct (feq0_zero x Nx Zx) as [Q [_ E]].
  assert (S : forall a b, rdpe_set_esp x a b sub = x).
  { intros a b. unfold rdpe_set_esp. rewrite Q. destruct x as [m e]. cbn [mnt esp] in *. subst e. reflexivity. }
  unfold rdpe_shift_esp. cbv zeta. rewrite !S. destruct (LONG_MAX <? i); [destruct (LONG_MAX <? i - LONG_MAX)|]; rewrite ?S; reflexivity.
Qed.

(* the value of a saturated DPE *)
Lemma sat_rdpe_spec : forall m s, is_finite m = true -> (/2 <= Rabs (B2R m) < 1)%R ->
  normalised (sat_rdpe m s) /\ esp (sat_rdpe m s) = clampl s /\
  (in_long s -> rval (sat_rdpe m s) = (B2R m * bpow radix2 s)%R) /\
  half_sign (mnt (sat_rdpe m s)) = half_sign m.
Proof.
  intros m s Fm Bm. destruct (half_sign_facts m) as [HF [HN [HH [_ [_ [NX NM]]]]]].
  unfold sat_rdpe. destruct (in_longb s) eqn:IL.
  - cbn [esp mnt]. split; [split; [exact Fm|right; exact Bm]|]. split; [unfold clampl, in_longb in *; lia|]. split; [intros _; reflexivity|reflexivity].
  - cbn [esp mnt]. split; [destruct (LONG_MAX <? s); assumption|]. split.
    + destruct (LONG_MAX <? s) eqn:G; unfold clampl, in_longb, LONG_MIN, LONG_MAX in *; lia.
    + split; [intro K; unfold in_longb, in_long in *; lia|exact HH].
Qed.

(* ---- rdpe_set_2dl (d, l) for every finite double d and every long l ------------------------------------------- *)
Theorem set_2dl_full : forall (d : b64) (l : Z), is_finite d = true -> in_long l ->
  let r := rdpe_set_2dl d l in
  normalised r /\
  (B2R d = 0%R -> rval r = 0%R /\ esp r = 0) /\
  (B2R d <> 0%R ->
     r = sat_rdpe (fst (ffrexp d)) (l + snd (ffrexp d)) /\ -1073 <= snd (ffrexp d) <= 1024 /\
     (in_long (l + snd (ffrexp d)) -> rval r = (B2R d * bpow radix2 l)%R) /\
     (LONG_MAX < l + snd (ffrexp d) -> r = Rdpe (half_sign d) LONG_MAX) /\
     (l + snd (ffrexp d) < LONG_MIN -> r = Rdpe (half_sign d) LONG_MIN)).
Proof.
  intros d l Fd Ll r. unfold r, rdpe_set_2dl.
  destruct (Req_dec (B2R d) 0) as [Z|Nz].
  { destruct (norm_zero d l Fd Z) as [N [V E]]. split; [assumption|]. split; [intros _; split; assumption|intro; contradiction]. }
  pose proof (ffrexp_spec d Fd) as S. pose proof (flt0_frexp d Fd) as SG.
  assert (Bi : -1073 <= snd (ffrexp d) <= 1024).
  { destruct (set_d_facts d Fd) as [_ [_ [H1 _]]]. destruct (H1 Nz) as [_ B].
    unfold rdpe_set_d in B. destruct (norm_clamps d 0 Fd) as [_ [C _]]. { unfold in_long, LONG_MIN, LONG_MAX; lia. }
    rewrite (C Nz) in B. pose proof (ffrexp_exp_bound d Fd) as B0. unfold clampl, LONG_MIN, LONG_MAX in B. lia. }
  assert (E : rdpe_norm (Rdpe d l) = sat_rdpe (fst (ffrexp d)) (l + snd (ffrexp d))).
  { unfold rdpe_norm. cbn [mnt esp]. destruct (ffrexp d) as [z i]. cbn [fst snd] in *.
    destruct S as [Fz [Hv [[H0 _]|[_ [Hb _]]]]]; [contradiction|].
    assert (Nzz : B2R z <> 0%R) by (intro K; rewrite K, Rabs_R0 in Hb; lra).
    apply set_esp_sat; try assumption. unfold in_long, LONG_MIN, LONG_MAX; lia. }
  rewrite E. destruct (ffrexp d) as [z i]. cbn [fst snd] in *.
  destruct S as [Fz [Hv [[H0 _]|[_ [Hb _]]]]]; [contradiction|].
  destruct (sat_rdpe_spec z (l + i) Fz Hb) as [N [_ [V _]]].
  split; [assumption|]. split; [intro; contradiction|]. intros _.
  split; [reflexivity|]. split; [assumption|]. split.
  - intro K. rewrite (V K), Hv, bpow_plus. ring.
  - unfold sat_rdpe, half_sign. rewrite SG. split; intro K.
    + replace (in_longb (l + i)) with false by (unfold in_longb, LONG_MIN, LONG_MAX in *; lia).
      replace (LONG_MAX <? l + i) with true by lia. reflexivity.
    + replace (in_longb (l + i)) with false by (unfold in_longb, LONG_MIN, LONG_MAX in *; lia).
      replace (LONG_MAX <? l + i) with false by (unfold LONG_MIN, LONG_MAX in *; lia). reflexivity.
Qed.

(* ---- rdpe_get_d for every exponent of long ------------------------------------------------------------------------ *)
Lemma rnd_tiny : forall r : R, (Rabs r <= bpow radix2 (-1076))%R -> rnd64 r = 0%R.
Proof.
  intros r H. destruct (Req_dec r 0) as [Z|Nz]; [subst r; apply round_0; typeclasses eauto|].
  apply round_N_small with (ex := mag radix2 r).
  - destruct (mag radix2 r) as [ex Hex]. cbn. apply Hex. assumption.
  - assert (K : (mag radix2 r <= -1075)%Z).
    { apply mag_le_bpow; [assumption|]. apply Rle_lt_trans with (1 := H). apply bpow_lt. lia. }
    unfold SpecFloat.fexp, SpecFloat.emin. lia.
Qed.

Theorem get_d_full : forall x, normalised x ->
  (esp x <= 1024 -> is_finite (rdpe_get_d x) = true /\ B2R (rdpe_get_d x) = rnd64 (rval x)) /\
  (1024 < esp x -> nonzero x -> rdpe_get_d x = B754_infinity (Bsign (mnt x))).
Proof.
  intros x Nx. split.
  - intro He. destruct (Z_le_gt_dec (-2200) (esp x)) as [L|L]; [apply get_d_rounded; [assumption|lia]|].
    (* below 2^-2200: the model's ldexp is taken at -2200, both sides round to zero *)
    assert (Bm : (Rabs (B2R (mnt x)) <= 1)%R).
    { destruct Nx as [_ [[Z _]|B]]; [rewrite Z, Rabs_R0; lra|lra]. }
    assert (T : forall e : Z, e <= -2200 -> (Rabs (B2R (mnt x) * bpow radix2 e) <= bpow radix2 (-1076))%R).
    { intros e Le. rewrite Rabs_mult, (Rabs_pos_eq (bpow radix2 e)) by apply bpow_ge_0.
      apply Rle_trans with (1 * bpow radix2 e)%R; [apply Rmult_le_compat_r; [apply bpow_ge_0|assumption]|].
      rewrite Rmult_1_l. apply bpow_le. lia. }
    unfold rdpe_get_d, fldexp.
    assert (E : Z.max (-2200) (Z.min 2200 (wrap32 (clamp_exp (esp x)))) = -2200).
    { unfold clamp_exp. destruct (esp x <? -4096) eqn:G.
      - replace (4096 <? esp x) with false by lia. rewrite wrap32_id by (unfold two31; lia). lia.
      - replace (4096 <? esp x) with false by lia. rewrite wrap32_id by (unfold two31; lia). lia. }
    rewrite E.
    pose proof (Bldexp_correct 53 1024 _ _ mode_NE (mnt x) (-2200)) as HB.
    change (round_mode mode_NE) with ZnearestE in HB.
    rewrite (rnd_tiny _ (T (-2200) ltac:(lia))) in HB.
    rewrite Rabs_R0, Rlt_bool_true in HB by apply bpow_gt_0. destruct HB as [H1 [H2 _]].
    split; [rewrite H2; exact (proj1 Nx)|]. rewrite H1. symmetry. apply rnd_tiny. apply T. lia.
  - intros He Zx. pose proof (normalised_bounds x Nx Zx) as Bx.
    unfold rdpe_get_d, fldexp.
    set (e' := Z.max (-2200) (Z.min 2200 (wrap32 (clamp_exp (esp x))))).
    assert (E : 1024 < e').
    { unfold e', clamp_exp. destruct (4096 <? esp x) eqn:G.
      - rewrite wrap32_id by (unfold two31; lia). lia.
      - replace (esp x <? -4096) with false by lia. rewrite wrap32_id by (unfold two31; lia). lia. }
    pose proof (Bldexp_correct 53 1024 _ _ mode_NE (mnt x) e') as HB.
    change (round_mode mode_NE) with ZnearestE in HB.
    rewrite Rlt_bool_false in HB.
    + unfold binary_overflow in HB. cbn [overflow_to_inf] in HB.
      destruct (Bldexp mode_NE (mnt x) e') as [s|s| |s m e Hb]; cbn [B2SF] in HB; try discriminate HB.
      injection HB as ->. reflexivity.
    + apply abs_round_ge_generic; try typeclasses eauto.
      * apply generic_format_bpow. vm_compute. discriminate.
      * rewrite Rabs_mult, (Rabs_pos_eq (bpow radix2 e')) by apply bpow_ge_0.
        apply Rle_trans with (/2 * bpow radix2 e')%R; [|apply Rmult_le_compat_r; [apply bpow_ge_0|lra]].
        change (/2)%R with (bpow radix2 (-1)). rewrite <- bpow_plus. apply bpow_le. lia.
Qed.

(* ---- cdpe_mul_e / cdpe_div_e and the repaired cdpe_mul_d / cdpe_div_d: one ulp per component ------------------------ *)
Theorem cmul_e_rel : forall c e, cnormalised c -> normalised e ->
  in_long (esp (cre c)) -> in_long (esp (cim c)) -> in_long (esp e) ->
  LONG_MIN + 1 <= esp (cre c) + esp e <= LONG_MAX - 2 -> LONG_MIN + 1 <= esp (cim c) + esp e <= LONG_MAX - 2 ->
  cnormalised (cdpe_mul_e c e) /\
  rel_e u53 (rval (cre (cdpe_mul_e c e))) (rval (cre c) * rval e) /\
  rel_e u53 (rval (cim (cdpe_mul_e c e))) (rval (cim c) * rval e).
Proof.
  intros c e [Nr Ni] Ne Lr Li Le Hr Hi. rewrite (cmul_e_components c e Hr Hi). cbn [cre cim].
  destruct (mul_rel0 _ _ Nr Ne Hr Lr Le) as [N1 R1]. destruct (mul_rel0 _ _ Ni Ne Hi Li Le) as [N2 R2].
  split; [split; assumption|]. split; assumption.
Qed.

Theorem cdiv_e_rel : forall c e, cnormalised c -> normalised e -> nonzero e ->
  LONG_MIN + 1 <= esp (cre c) - esp e <= LONG_MAX - 2 -> LONG_MIN + 1 <= esp (cim c) - esp e <= LONG_MAX - 2 ->
  cnormalised (cdpe_div_e c e) /\
  rel_e u53 (rval (cre (cdpe_div_e c e))) (rval (cre c) / rval e) /\
  rel_e u53 (rval (cim (cdpe_div_e c e))) (rval (cim c) / rval e).
Proof.
  intros c e [Nr Ni] Ne Ze Hr Hi. rewrite (cdiv_e_components c e). cbn [cre cim].
  destruct (div_rel0 _ _ Nr Ne Ze Hr) as [N1 R1]. destruct (div_rel0 _ _ Ni Ne Ze Hi) as [N2 R2].
  split; [split; assumption|]. split; assumption.
Qed.

Theorem cmul_d_fix_rel : forall c d, cnormalised c -> is_finite d = true ->
  LONG_MIN + 1074 <= esp (cre c) <= LONG_MAX - 1026 -> LONG_MIN + 1074 <= esp (cim c) <= LONG_MAX - 1026 ->
  cnormalised (cdpe_mul_d_fix c d) /\
  rel_e u53 (rval (cre (cdpe_mul_d_fix c d))) (rval (cre c) * B2R d) /\
  rel_e u53 (rval (cim (cdpe_mul_d_fix c d))) (rval (cim c) * B2R d).
Proof.
  intros c d Nc Fd Hr Hi. unfold cdpe_mul_d_fix.
  destruct (set_d_facts d Fd) as [N [V [H1 H0]]]. rewrite <- V.
  assert (Le : -1073 <= esp (rdpe_set_d d) <= 1024).
  { destruct (Req_dec (B2R d) 0) as [Z|Z]; [destruct (H0 Z) as [_ E]; rewrite E; lia|exact (proj2 (H1 Z))]. }
  set (t := rdpe_set_d d) in *. set (ed := esp t) in *.
  assert (A1 : in_long (esp (cre c))) by (clear - Hr; unfold in_long, LONG_MIN, LONG_MAX in *; lia).
  assert (A2 : in_long (esp (cim c))) by (clear - Hi; unfold in_long, LONG_MIN, LONG_MAX in *; lia).
  assert (A3 : in_long ed) by (clear - Le; clearbody ed; unfold in_long, LONG_MIN, LONG_MAX in *; lia).
  assert (A4 : LONG_MIN + 1 <= esp (cre c) + ed <= LONG_MAX - 2) by (clear - Hr Le; clearbody ed; unfold LONG_MIN, LONG_MAX in *; lia).
  assert (A5 : LONG_MIN + 1 <= esp (cim c) + ed <= LONG_MAX - 2) by (clear - Hi Le; clearbody ed; unfold LONG_MIN, LONG_MAX in *; lia).
  exact (cmul_e_rel c t Nc N A1 A2 A3 A4 A5).
Qed.

Theorem cdiv_d_fix_rel : forall c d, cnormalised c -> is_finite d = true -> B2R d <> 0%R ->
  LONG_MIN + 1025 <= esp (cre c) <= LONG_MAX - 1075 -> LONG_MIN + 1025 <= esp (cim c) <= LONG_MAX - 1075 ->
  cnormalised (cdpe_div_d_fix c d) /\
  rel_e u53 (rval (cre (cdpe_div_d_fix c d))) (rval (cre c) / B2R d) /\
  rel_e u53 (rval (cim (cdpe_div_d_fix c d))) (rval (cim c) / B2R d).
Proof.
  intros c d Nc Fd Nd Hr Hi. unfold cdpe_div_d_fix.
  destruct (set_d_facts d Fd) as [N [V [H1 _]]]. rewrite <- V. destruct (H1 Nd) as [Nz Le].
  set (t := rdpe_set_d d) in *. set (ed := esp t) in *.
  assert (A4 : LONG_MIN + 1 <= esp (cre c) - ed <= LONG_MAX - 2) by (clear - Hr Le; clearbody ed; unfold LONG_MIN, LONG_MAX in *; lia).
  assert (A5 : LONG_MIN + 1 <= esp (cim c) - ed <= LONG_MAX - 2) by (clear - Hi Le; clearbody ed; unfold LONG_MIN, LONG_MAX in *; lia).
  exact (cdiv_e_rel c t Nc N Nz A4 A5).
Qed.

(* ---- the *_d variants as they are: the mantissa operation on the raw double loses the result ------------------------- *)
(* 0.75 * 2^-1074: the product of the mantissa 0.75 and the smallest subnormal rounds to 2^-1074 (33% off);
   0.75 / 2^-1074: the quotient overflows to infinity.  Repaired: exact. *)
Lemma d_variants_unfixed_refuted :
  let x := Rdpe fthreeq 0 in let tiny : b64 := of_bits 1 in
  (to_bits (mnt (rdpe_mul_d x tiny)) = to_bits fhalf /\ esp (rdpe_mul_d x tiny) = -1073 /\
   to_bits (mnt (rdpe_mul_d_fix x tiny)) = to_bits fthreeq /\ esp (rdpe_mul_d_fix x tiny) = -1074) /\
  (to_bits (mnt (rdpe_div_d x tiny)) = 9218868437227405312 /\
   to_bits (mnt (rdpe_div_d_fix x tiny)) = to_bits fthreeq /\ esp (rdpe_div_d_fix x tiny) = 1074).
Proof. vm_compute. repeat split; reflexivity. Qed.
