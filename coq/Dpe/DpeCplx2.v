(* C12 -- complex operations, second part (proofs): cdpe_add / cdpe_sub / cdpe_add_eq in modulus, cdpe_mul with one
   operand of larger exponent range (cmul_rel_gen), cdpe_inv, cdpe_div (and cdpe_div_eq), cdpe_mul_x as repaired,
   cdpe_mul_e / cdpe_div_e / cdpe_mul_d / cdpe_div_d in modulus.
   Errors in complex modulus, squared:  |computed - exact|^2 <= K * u53^2 * |exact|^2. *)
From Coq Require Import ZArith Reals Bool Lia Lra Psatz ZifyBool.
From Flocq Require Import Core BinarySingleNaN.
Require Import MPSV.Dpe.DpeDefs MPSV.Dpe.DpeModel MPSV.Dpe.DpeModel2 MPSV.Dpe.DpeProps MPSV.Dpe.DpeArith MPSV.Dpe.DpePow.
Require Import MPSV.Dpe.DpeCplx MPSV.Dpe.DpeSat MPSV.Dpe.DpeScal.
Open Scope Z_scope.


(* squared distance / squared modulus in R^2 *)
Definition dist2 (x y a b : R) : R := ((x - a) * (x - a) + (y - b) * (y - b))%R.
Definition mod2 (a b : R) : R := (a * a + b * b)%R.

Lemma mod2_nonneg : forall a b, (0 <= mod2 a b)%R.
Proof. intros a b. unfold mod2. nra. Qed.

Lemma u53_tiny : (u53 <= / 1048576)%R.
Proof. unfold u53. change (/1048576)%R with (bpow radix2 (-20)). apply bpow_le. lia. Qed.

(* component-wise relative errors give the same relative error in modulus *)
Lemma comp_to_mod : forall e x y a b, (0 <= e)%R -> rel_e e x a -> rel_e e y b ->
  (dist2 x y a b <= e * e * mod2 a b)%R.
Proof.
  intros e x y a b He H1 H2. unfold rel_e, dist2, mod2 in *.
  pose proof (sqr_le_of_abs _ _ H1) as K1. pose proof (sqr_le_of_abs _ _ H2) as K2.
  replace (e * Rabs a * (e * Rabs a))%R with (e * e * (Rabs a * Rabs a))%R in K1 by ring.
  replace (e * Rabs b * (e * Rabs b))%R with (e * e * (Rabs b * Rabs b))%R in K2 by ring.
  rewrite abs_sq in K1, K2. lra.
Qed.

(* ---- cdpe_add, cdpe_sub, cdpe_add_eq, cdpe_sub_eq: two ulps per component, two ulps in modulus ----------------------- *)
Definition cmid (c : cdpe) : Prop := esp_mid (esp (cre c)) /\ esp_mid (esp (cim c)).

Theorem cadd_rel : forall z w, cnormalised z -> cnormalised w -> cmid z -> cmid w ->
  cnormalised (cdpe_add z w) /\
  (dist2 (rval (cre (cdpe_add z w))) (rval (cim (cdpe_add z w))) (rval (cre z) + rval (cre w)) (rval (cim z) + rval (cim w))
   <= 4 * (u53 * u53) * mod2 (rval (cre z) + rval (cre w)) (rval (cim z) + rval (cim w)))%R.
Proof.
  intros z w [Nzr Nzi] [Nwr Nwi] [Mzr Mzi] [Mwr Mwi]. unfold cdpe_add. cbn [cre cim].
  destruct (add_rel _ _ Nzr Nwr Mzr Mwr) as [N1 [R1 _]]. destruct (add_rel _ _ Nzi Nwi Mzi Mwi) as [N2 [R2 _]].
  split; [split; assumption|].
  assert (U : (0 <= 2 * u53)%R) by (pose proof u53_pos; lra).
  pose proof (comp_to_mod _ _ _ _ _ U R1 R2) as K.
  replace (2 * u53 * (2 * u53))%R with (4 * (u53 * u53))%R in K by ring. exact K.
Qed.

Theorem csub_rel : forall z w, cnormalised z -> cnormalised w -> cmid z -> cmid w ->
  cnormalised (cdpe_sub z w) /\
  (dist2 (rval (cre (cdpe_sub z w))) (rval (cim (cdpe_sub z w))) (rval (cre z) - rval (cre w)) (rval (cim z) - rval (cim w))
   <= 4 * (u53 * u53) * mod2 (rval (cre z) - rval (cre w)) (rval (cim z) - rval (cim w)))%R.
Proof.
  intros z w [Nzr Nzi] [Nwr Nwi] [Mzr Mzi] [Mwr Mwi]. unfold cdpe_sub. cbn [cre cim].
  destruct (sub_rel _ _ Nzr Nwr Mzr Mwr) as [N1 [R1 _]]. destruct (sub_rel _ _ Nzi Nwi Mzi Mwi) as [N2 [R2 _]].
  split; [split; assumption|].
  assert (U : (0 <= 2 * u53)%R) by (pose proof u53_pos; lra).
  pose proof (comp_to_mod _ _ _ _ _ U R1 R2) as K.
  replace (2 * u53 * (2 * u53))%R with (4 * (u53 * u53))%R in K by ring. exact K.
Qed.

Theorem cadd_eq_rel : forall z w, cnormalised z -> cnormalised w -> cmid z -> cmid w ->
  cnormalised (cdpe_add_eq z w) /\
  (dist2 (rval (cre (cdpe_add_eq z w))) (rval (cim (cdpe_add_eq z w))) (rval (cre z) + rval (cre w)) (rval (cim z) + rval (cim w))
   <= 4 * (u53 * u53) * mod2 (rval (cre z) + rval (cre w)) (rval (cim z) + rval (cim w)))%R.
Proof.
  intros z w [Nzr Nzi] [Nwr Nwi] [Mzr Mzi] [Mwr Mwi]. unfold cdpe_add_eq. cbn [cre cim].
  destruct (add_eq_rel _ _ Nzr Nwr Mzr Mwr) as [N1 [R1 _]]. destruct (add_eq_rel _ _ Nzi Nwi Mzi Mwi) as [N2 [R2 _]].
  split; [split; assumption|].
  assert (U : (0 <= 2 * u53)%R) by (pose proof u53_pos; lra).
  pose proof (comp_to_mod _ _ _ _ _ U R1 R2) as K.
  replace (2 * u53 * (2 * u53))%R with (4 * (u53 * u53))%R in K by ring. exact K.
Qed.

(* ---- cdpe_mul_e / cdpe_div_e / repaired cdpe_mul_d / cdpe_div_d in modulus: one ulp -------------------------------------- *)
Theorem cmul_d_fix_mod : forall c d, cnormalised c -> is_finite d = true ->
  LONG_MIN + 1074 <= esp (cre c) <= LONG_MAX - 1026 -> LONG_MIN + 1074 <= esp (cim c) <= LONG_MAX - 1026 ->
  cnormalised (cdpe_mul_d_fix c d) /\
  (dist2 (rval (cre (cdpe_mul_d_fix c d))) (rval (cim (cdpe_mul_d_fix c d))) (rval (cre c) * B2R d) (rval (cim c) * B2R d)
   <= u53 * u53 * mod2 (rval (cre c) * B2R d) (rval (cim c) * B2R d))%R.
Proof.
  intros c d Nc Fd Hr Hi. destruct (cmul_d_fix_rel c d Nc Fd Hr Hi) as [N [R1 R2]]. split; [assumption|].
  apply comp_to_mod; try assumption. apply Rlt_le, u53_pos.
Qed.
Theorem cdiv_d_fix_mod : forall c d, cnormalised c -> is_finite d = true -> B2R d <> 0%R ->
  LONG_MIN + 1025 <= esp (cre c) <= LONG_MAX - 1075 -> LONG_MIN + 1025 <= esp (cim c) <= LONG_MAX - 1075 ->
  cnormalised (cdpe_div_d_fix c d) /\
  (dist2 (rval (cre (cdpe_div_d_fix c d))) (rval (cim (cdpe_div_d_fix c d))) (rval (cre c) / B2R d) (rval (cim c) / B2R d)
   <= u53 * u53 * mod2 (rval (cre c) / B2R d) (rval (cim c) / B2R d))%R.
Proof.
  intros c d Nc Fd Nd Hr Hi. destruct (cdiv_d_fix_rel c d Nc Fd Nd Hr Hi) as [N [R1 R2]]. split; [assumption|].
  apply comp_to_mod; try assumption. apply Rlt_le, u53_pos.
Qed.

(* ---- rdpe_mul with one operand of larger exponent range ------------------------------------------------------------------- *)
Definition esp_le (x : rdpe) (B : Z) : Prop := Z.abs (esp x) <= B.
Lemma P62 : 2 ^ 62 = 4611686018427387904. Proof. reflexivity. Qed.

Lemma mul_rel_gen : forall x y, normalised x -> normalised y -> esp_le x (2 ^ 60) -> esp_le y (2 ^ 62) ->
  normalised (rdpe_mul x y) /\ rel_e u53 (rval (rdpe_mul x y)) (rval x * rval y) /\
  Z.abs (esp (rdpe_mul x y)) <= Z.abs (esp x) + Z.abs (esp y) + 2.
Proof.
  intros x y Nx Ny Sx Sy. unfold esp_le in *. rewrite P60 in Sx. rewrite P62 in Sy.
  assert (HE : LONG_MIN + 1 <= esp x + esp y <= LONG_MAX - 2) by (unfold LONG_MIN, LONG_MAX; lia).
  assert (Lx : in_long (esp x)) by (unfold in_long, LONG_MIN, LONG_MAX; lia).
  assert (Ly : in_long (esp y)) by (unfold in_long, LONG_MIN, LONG_MAX; lia).
  destruct (mul_rel0 x y Nx Ny HE Lx Ly) as [N R]. split; [assumption|]. split; [assumption|].
  destruct (Req_dec (B2R (mnt x) * B2R (mnt y)) 0) as [Z0|Z1].
  - assert (Hz : ~ nonzero x \/ ~ nonzero y).
    { destruct (Rmult_integral _ _ Z0) as [K|K]; [left|right]; unfold nonzero; lra. }
    destruct (mul_zero x y Nx Ny Lx Ly Hz) as [N' V].
    destruct (feq0_zero _ N' (zero_of_rval _ N' V)) as [_ [_ E0]]. rewrite E0. lia.
  - assert (Zx : nonzero x) by (unfold nonzero; intro K; apply Z1; rewrite K; ring).
    assert (Zy : nonzero y) by (unfold nonzero; intro K; apply Z1; rewrite K; ring).
    destruct (mul_rel_esp x y Nx Ny Zx Zy HE) as [_ [_ [_ E]]]. lia.
Qed.

Lemma big_mid : forall e, Z.abs e <= 2 ^ 62 + 2 ^ 61 -> esp_mid e.
Proof. intros e H. rewrite P62 in H. change (2 ^ 61) with 2305843009213693952 in H. unfold esp_mid, LONG_MIN, LONG_MAX. lia. Qed.

Lemma sub_of_products_mid : forall p1 p2 v1 v2, normalised p1 -> normalised p2 -> esp_mid (esp p1) -> esp_mid (esp p2) ->
  rel_e u53 (rval p1) v1 -> rel_e u53 (rval p2) v2 ->
  normalised (rdpe_sub p1 p2) /\
  (Rabs (rval (rdpe_sub p1 p2) - (v1 - v2)) <= (3 * u53 + 2 * u53 * u53) * (Rabs v1 + Rabs v2))%R.
Proof.
  intros p1 p2 v1 v2 N1 N2 M1 M2 R1 R2.
  destruct (sub_rel p1 p2 N1 N2 M1 M2) as [N [R _]].
  split; [assumption|].
  replace (v1 - v2)%R with (v1 + - v2)%R by ring. rewrite <- (Rabs_Ropp v2).
  apply sum_err with (rval p1) (- rval p2)%R; try assumption. apply rel_e_opp; assumption.
Qed.
Lemma add_of_products_mid : forall p1 p2 v1 v2, normalised p1 -> normalised p2 -> esp_mid (esp p1) -> esp_mid (esp p2) ->
  rel_e u53 (rval p1) v1 -> rel_e u53 (rval p2) v2 ->
  normalised (rdpe_add p1 p2) /\
  (Rabs (rval (rdpe_add p1 p2) - (v1 + v2)) <= (3 * u53 + 2 * u53 * u53) * (Rabs v1 + Rabs v2))%R.
Proof.
  intros p1 p2 v1 v2 N1 N2 M1 M2 R1 R2.
  destruct (add_rel p1 p2 N1 N2 M1 M2) as [N [R _]].
  split; [assumption|]. apply sum_err with (rval p1) (rval p2); assumption.
Qed.

(* pure real part of cmul_rel: from the two component bounds to the squared modulus *)
Lemma cmul_real_part : forall a b c d X Y : R,
  (Rabs X <= (3 * u53 + 2 * u53 * u53) * (Rabs (a * c) + Rabs (b * d)))%R ->
  (Rabs Y <= (3 * u53 + 2 * u53 * u53) * (Rabs (b * c) + Rabs (a * d)))%R ->
  (X * X + Y * Y <= 19 * (u53 * u53) * ((a * a + b * b) * (c * c + d * d)))%R.
Proof.
  intros a b c d X Y Hre Him.
  set (sg2 := (3 * u53 + 2 * u53 * u53)%R) in *.
  assert (S0 : (0 <= sg2)%R) by (unfold sg2; pose proof u53_pos; nra).
  pose proof (sqr_le_of_abs _ _ Hre) as HX. pose proof (sqr_le_of_abs _ _ Him) as HY.
  pose proof (cross_bound a b c d) as CB. pose proof sigma_sq as SS. fold sg2 in SS.
  set (M1 := (Rabs (a * c) + Rabs (b * d))%R) in *. set (M2 := (Rabs (b * c) + Rabs (a * d))%R) in *.
  set (Q := ((a * a + b * b) * (c * c + d * d))%R) in *.
  assert (Q0 : (0 <= Q)%R) by (unfold Q; apply Rmult_le_pos; nra).
  replace (sg2 * M1 * (sg2 * M1))%R with (sg2 * sg2 * (M1 * M1))%R in HX by ring.
  replace (sg2 * M2 * (sg2 * M2))%R with (sg2 * sg2 * (M2 * M2))%R in HY by ring.
  assert (T : (sg2 * sg2 * (M1 * M1 + M2 * M2) <= sg2 * sg2 * (2 * Q))%R).
  { apply Rmult_le_compat_l; [apply Rmult_le_pos; assumption|assumption]. }
  assert (T2 : (2 * (sg2 * sg2) * Q <= 19 * (u53 * u53) * Q)%R) by (apply Rmult_le_compat_r; assumption).
  lra.
Qed.

(* cdpe_mul when the second operand's exponents are only bounded by 2^62 (the conjugate quotient inside cdpe_div) *)
Theorem cmul_rel_gen : forall z w, cnormalised z -> cnormalised w -> csmall z ->
  esp_le (cre w) (2 ^ 62) -> esp_le (cim w) (2 ^ 62) ->
  let a := rval (cre z) in let b := rval (cim z) in let c := rval (cre w) in let d := rval (cim w) in
  cnormalised (cdpe_mul z w) /\
  (dist2 (rval (cre (cdpe_mul z w))) (rval (cim (cdpe_mul z w))) (a * c - b * d) (b * c + a * d)
   <= 19 * (u53 * u53) * (mod2 a b * mod2 c d))%R.
Proof.
  intros z w [Nzr Nzi] [Nwr Nwi] [Szr Szi] Swr Swi a b c d.
  unfold cdpe_mul, cdpe_mul_gen in *. cbn [cre cim] in *.
  destruct (mul_rel_gen _ _ Nzr Nwr Szr Swr) as [N1 [R1 E1]].
  destruct (mul_rel_gen _ _ Nzi Nwi Szi Swi) as [N2 [R2 E2]].
  destruct (mul_rel_gen _ _ Nzi Nwr Szi Swr) as [N3 [R3 E3]].
  destruct (mul_rel_gen _ _ Nzr Nwi Szr Swi) as [N4 [R4 E4]].
  assert (B : forall x y, esp_small x -> esp_le y (2 ^ 62) -> Z.abs (esp x) + Z.abs (esp y) + 2 <= 2 ^ 62 + 2 ^ 61).
  { intros x y Hx Hy. unfold esp_small, esp_le in *. rewrite P60 in Hx. rewrite P62 in *. change (2 ^ 61) with 2305843009213693952. lia. }
  pose proof (B _ _ Szr Swr). pose proof (B _ _ Szi Swi). pose proof (B _ _ Szi Swr). pose proof (B _ _ Szr Swi).
  assert (M1 : esp_mid (esp (rdpe_mul (cre z) (cre w)))) by (apply big_mid; lia).
  assert (M2 : esp_mid (esp (rdpe_mul (cim z) (cim w)))) by (apply big_mid; lia).
  assert (M3 : esp_mid (esp (rdpe_mul (cim z) (cre w)))) by (apply big_mid; lia).
  assert (M4 : esp_mid (esp (rdpe_mul (cre z) (cim w)))) by (apply big_mid; lia).
  destruct (sub_of_products_mid _ _ _ _ N1 N2 M1 M2 R1 R2) as [Nre Hre].
  destruct (add_of_products_mid _ _ _ _ N3 N4 M3 M4 R3 R4) as [Nim Him].
  fold a b c d in Hre, Him.
  split; [split; assumption|].
  unfold dist2, mod2. apply cmul_real_part; assumption.
Qed.

(* ---- cdpe_smod: how far its exponent can be --------------------------------------------------------------------------------- *)
Lemma csmod_esp : forall c, cnormalised c -> csmall c -> Z.abs (esp (cdpe_smod c)) <= 2 ^ 61 + 1100.
Proof.
  intros c [Nr Ni] [Sr Si]. unfold cdpe_smod.
  destruct (sqr_rel_all _ Nr Sr) as [N1 [_ E1]]. destruct (sqr_rel_all _ Ni Si) as [N2 [_ E2]].
  assert (M1 : esp_mid (esp (rdpe_sqr (cre c)))) by (apply esp_small_mid; lia).
  assert (M2 : esp_mid (esp (rdpe_sqr (cim c)))) by (apply esp_small_mid; lia).
  destruct (add_eq_rel _ _ N1 N2 M1 M2) as [_ [_ [_ X]]].
  change (2 ^ 61) with 2305843009213693952 in *. destruct X as [X|X]; lia.
Qed.

(* relative error of an inverse *)
Lemma rel_e_inv : forall e a v, (0 <= e <= /2)%R -> v <> 0%R -> rel_e e a v -> rel_e (e + 2 * e * e) (/ a) (/ v).
Proof.
  intros e a v He Nv H. unfold rel_e in *.
  assert (Pv : (0 < Rabs v)%R) by (apply Rabs_pos_lt; assumption).
  assert (La : (Rabs v * (1 - e) <= Rabs a)%R).
  { replace a with (v + (a - v))%R by ring. pose proof (Rabs_triang_inv v (- (a - v))) as T.
    replace (v - - (a - v))%R with (v + (a - v))%R in T by ring. rewrite Rabs_Ropp in T. nra. }
  assert (Pa : (0 < Rabs a)%R) by nra.
  assert (Na : a <> 0%R) by (intro K; rewrite K, Rabs_R0 in Pa; lra).
  replace (/ a - / v)%R with ((v - a) * (/ a * / v))%R by (field; split; assumption).
  rewrite !Rabs_mult, !Rabs_inv, (Rabs_minus_sym v a).
  assert (Ia : (/ Rabs a <= / (Rabs v * (1 - e)))%R) by (apply Rinv_le_contravar; nra).
  assert (I1 : (/ (Rabs v * (1 - e)) = / Rabs v * / (1 - e))%R) by (field; lra).
  assert (I2 : (/ (1 - e) <= 1 + 2 * e)%R).
  { apply Rmult_le_reg_r with (1 - e)%R; [lra|]. rewrite Rinv_l by lra. nra. }
  assert (Piv : (0 < / Rabs v)%R) by (apply Rinv_0_lt_compat; assumption).
  assert (S1 : (Rabs (a - v) * (/ Rabs a * / Rabs v) <= e * Rabs v * (/ Rabs v * (1 + 2 * e) * / Rabs v))%R).
  { apply Rmult_le_compat; try assumption.
    - apply Rabs_pos.
    - apply Rmult_le_pos; apply Rlt_le; [apply Rinv_0_lt_compat|]; assumption.
    - apply Rmult_le_compat_r; [lra|]. rewrite I1 in Ia. apply Rle_trans with (1 := Ia).
      apply Rmult_le_compat_l; lra. }
  replace (e * Rabs v * (/ Rabs v * (1 + 2 * e) * / Rabs v))%R with ((e + 2 * e * e) * / Rabs v)%R in S1 by (field; lra).
  exact S1.
Qed.

Lemma normalised_neg : forall x, normalised x -> normalised (rdpe_neg x) /\ rval (rdpe_neg x) = (- rval x)%R /\ esp (rdpe_neg x) = esp x.
Proof.
  intros x Nx. change (rdpe_neg x) with (signed true x). split; [apply normalised_signed; assumption|].
  split; [rewrite rval_signed; unfold sg; ring|reflexivity].
Qed.

(* (1 + u)(1 + sigma')(1 + u) - 1 <= 6 u  with sigma' = sigma + 2 sigma^2, sigma = 3u + 2u^2 *)
Lemma inv_const : forall s t q : R, s = (3 * u53 + 2 * u53 * u53)%R -> t = (s + 2 * s * s)%R -> q = (u53 + t + u53 * t)%R ->
  (0 <= s <= /2)%R /\ (0 <= t)%R /\ (0 <= q)%R /\ (q <= 5 * u53)%R /\ (u53 + q + u53 * q <= 6 * u53)%R.
Proof.
  intros s t q Hs Ht Hq. pose proof u53_pos as U. pose proof u53_small as U2.
  assert (S1 : (0 <= s <= 4 * u53)%R) by (subst s; nra).
  assert (T1 : (0 <= t <= s + 8 * u53 * s)%R) by (subst t; nra).
  assert (T2 : (t <= 3 * u53 + 35 * u53 * u53)%R) by (subst s; nra).
  assert (Q1 : (0 <= q)%R) by (subst q; nra).
  assert (Q2 : (q <= 4 * u53 + 40 * u53 * u53)%R) by (subst q; nra).
  repeat split; try lra; try nra.
Qed.

(* ---- cdpe_inv: 1/c = conj(c) / |c|^2, six ulps per component ------------------------------------------------------------- *)
(* common part of cdpe_inv and cdpe_div: the computed |c|^2 is positive, 3u+ accurate, and its exponent is bounded *)
Lemma smod_facts : forall c, cnormalised c -> csmall c -> (mod2 (rval (cre c)) (rval (cim c)) <> 0)%R ->
  let sm := cdpe_smod c in let s := mod2 (rval (cre c)) (rval (cim c)) in
  normalised sm /\ nonzero sm /\ Z.abs (esp sm) <= 2 ^ 61 + 1100 /\ (0 < s)%R /\
  rel_e ((3 * u53 + 2 * u53 * u53) + 2 * (3 * u53 + 2 * u53 * u53) * (3 * u53 + 2 * u53 * u53)) (/ rval sm) (/ s).
Proof.
  intros c Nc Sc Hs sm s. destruct (csmod_rel c Nc Sc) as [Ns [Rs [Ms Ps]]]. cbv zeta in Rs.
  change (rval (cre c) * rval (cre c) + rval (cim c) * rval (cim c))%R with s in Rs. fold sm in Ns, Rs, Ms, Ps.
  pose proof (csmod_esp c Nc Sc) as Es. fold sm in Es.
  destruct (inv_const _ _ _ eq_refl eq_refl eq_refl) as [S1 _].
  assert (P : (0 < s)%R) by (pose proof (mod2_nonneg (rval (cre c)) (rval (cim c))) as K0; unfold s; lra).
  assert (S2 : (3 * u53 + 2 * u53 * u53 < 1)%R) by lra.
  destruct (rel_e_sign _ _ _ S2 Rs) as [Sg _].
  assert (Pv : (0 < rval sm)%R) by (apply Sg; assumption).
  assert (Zs : nonzero sm).
  { unfold nonzero. intro K. unfold rval in Pv. rewrite K in Pv. lra. }
  split; [assumption|]. split; [assumption|]. split; [assumption|]. split; [assumption|].
  apply rel_e_inv; [exact S1|exact Hs|exact Rs].
Qed.

Theorem cinv_rel : forall c, cnormalised c -> csmall c -> (mod2 (rval (cre c)) (rval (cim c)) <> 0)%R ->
  let a := rval (cre c) in let b := rval (cim c) in let s := mod2 a b in
  cnormalised (cdpe_inv c) /\
  rel_e (6 * u53) (rval (cre (cdpe_inv c))) (a / s) /\ rel_e (6 * u53) (rval (cim (cdpe_inv c))) (- b / s) /\
  esp_le (cre (cdpe_inv c)) (2 ^ 62) /\ esp_le (cim (cdpe_inv c)) (2 ^ 62).
Proof.
  intros c Nc Sc Hs a b s. destruct (smod_facts c Nc Sc Hs) as [Ns [Zs [Es [Ps Ri]]]]. cbv zeta in Ri. fold a b s in Ri.
  destruct Nc as [Nr Ni]. destruct Sc as [Sr Si].
  unfold cdpe_inv, cdpe_inv_gen, rdpe_inv_eq. cbn [cre cim].
  set (sm := cdpe_smod c) in *.
  change (2 ^ 61) with 2305843009213693952 in Es.
  assert (HE : LONG_MIN + 1 <= - esp sm <= LONG_MAX - 2) by (unfold LONG_MIN, LONG_MAX; lia).
  destruct (inv_rel_esp sm Ns Zs HE) as [Ne [Ze [Re Ee]]].
  set (e := rdpe_inv sm) in *.
  destruct (inv_const _ _ _ eq_refl eq_refl eq_refl) as [S1 [T0 [Q0 [Q5 Q6]]]].
  set (sg := (3 * u53 + 2 * u53 * u53)%R) in *. set (t := (sg + 2 * sg * sg)%R) in *. set (q := (u53 + t + u53 * t)%R) in *.
  pose proof u53_pos as U.
  (* e approximates 1 / s *)
  pose proof (rel_e_trans _ _ _ _ _ (Rlt_le _ _ U) Re Ri) as Rq. fold q in Rq.
  assert (Le : esp_le e (2 ^ 62)) by (unfold esp_le; rewrite P62; lia).
  assert (COMP : forall x, normalised x -> esp_small x ->
    normalised (rdpe_mul x e) /\ rel_e (6 * u53) (rval (rdpe_mul x e)) (rval x / s) /\ esp_le (rdpe_mul x e) (2 ^ 62)).
  { intros x Nx Sx. destruct (mul_rel_gen x e Nx Ne Sx Le) as [Nm [Rm Em]].
    split; [assumption|]. split.
    - pose proof (rel_e_scale _ _ _ (rval x) Rq) as Rs.
      replace (rval e * rval x)%R with (rval x * rval e)%R in Rs by ring.
      replace (/ s * rval x)%R with (rval x / s)%R in Rs by (unfold Rdiv; ring).
      pose proof (rel_e_trans _ _ _ _ _ (Rlt_le _ _ U) Rm Rs) as K.
      apply rel_e_weaken with (2 := K). exact Q6.
    - unfold esp_le, esp_small in *. rewrite P60 in Sx. rewrite P62. lia. }
  destruct (COMP (cre c) Nr Sr) as [N1 [R1 E1]].
  destruct (normalised_neg (cim c) Ni) as [Nn [Vn En]].
  assert (Sn : esp_small (rdpe_neg (cim c))) by (unfold esp_small in *; rewrite En; assumption).
  destruct (COMP (rdpe_neg (cim c)) Nn Sn) as [N2 [R2 E2]]. rewrite Vn in R2. fold b in R2.
  split; [split; assumption|]. split; [exact R1|]. split; [exact R2|]. split; assumption.
Qed.

(* ... in modulus: |computed - 1/c|^2 <= 36 u^2 |1/c|^2 *)
Theorem cinv_mod : forall c, cnormalised c -> csmall c -> (mod2 (rval (cre c)) (rval (cim c)) <> 0)%R ->
  let a := rval (cre c) in let b := rval (cim c) in let s := mod2 a b in
  cnormalised (cdpe_inv c) /\
  (dist2 (rval (cre (cdpe_inv c))) (rval (cim (cdpe_inv c))) (a / s) (- b / s) <= 36 * (u53 * u53) * mod2 (a / s) (- b / s))%R.
Proof.
  intros c Nc Sc Hs a b s. destruct (cinv_rel c Nc Sc Hs) as [N [R1 [R2 _]]]. split; [assumption|].
  assert (U : (0 <= 6 * u53)%R) by (pose proof u53_pos; lra).
  pose proof (comp_to_mod _ _ _ _ _ U R1 R2) as K. fold a b s in K.
  replace (6 * u53 * (6 * u53))%R with (36 * (u53 * u53))%R in K by ring. exact K.
Qed.

(* ---- cdpe_mul_x / cdpe_mul_eq_x as repaired: cdpe_mul by the converted double pair --------------------------------------- *)
Lemma cmul_x_fix_is_mul : forall c xr xi, cdpe_mul_x_fix c xr xi = cdpe_mul c (Cdpe (rdpe_set_d xr) (rdpe_set_d xi)).
Proof. intros. reflexivity. Qed.

Theorem cmul_x_fix_rel : forall c xr xi, cnormalised c -> csmall c -> is_finite xr = true -> is_finite xi = true ->
  let a := rval (cre c) in let b := rval (cim c) in let p := B2R xr in let q := B2R xi in
  cnormalised (cdpe_mul_x_fix c xr xi) /\
  (dist2 (rval (cre (cdpe_mul_x_fix c xr xi))) (rval (cim (cdpe_mul_x_fix c xr xi))) (a * p - b * q) (b * p + a * q)
   <= 19 * (u53 * u53) * (mod2 a b * mod2 p q))%R.
Proof.
  intros c xr xi Nc Sc Fr Fi a b p q. rewrite cmul_x_fix_is_mul.
  destruct (set_d_facts xr Fr) as [N1 [V1 [H1 H1']]]. destruct (set_d_facts xi Fi) as [N2 [V2 [H2 H2']]].
  assert (L : forall d, is_finite d = true -> esp_le (rdpe_set_d d) (2 ^ 62)).
  { intros d Fd. destruct (set_d_facts d Fd) as [_ [_ [K1 K0]]]. unfold esp_le. rewrite P62.
    destruct (Req_dec (B2R d) 0) as [Z|Z]; [destruct (K0 Z) as [_ E]; rewrite E; lia|destruct (K1 Z) as [_ B]; lia]. }
  pose proof (cmul_rel_gen c (Cdpe (rdpe_set_d xr) (rdpe_set_d xi)) Nc (conj N1 N2) Sc (L xr Fr) (L xi Fi)) as K.
  cbv zeta in K. cbn [cre cim] in K. rewrite V1, V2 in K. exact K.
Qed.

(* ---- cdpe_div (and cdpe_div_eq): z / w = z * (conj (w) / |w|^2) ------------------------------------------------------------- *)
Lemma div_esp : forall x y, normalised x -> normalised y -> nonzero x -> nonzero y -> in_long (esp x) -> in_long (esp y) ->
  LONG_MIN + 1 <= esp x - esp y <= LONG_MAX - 2 ->
  esp x - esp y - 1 <= esp (rdpe_div x y) <= esp x - esp y + 2.
Proof.
  intros x y Nx Ny Zx Zy Lx Ly HE.
  destruct (div_saturates x y Nx Ny Zx Zy Lx Ly) as [_ [C1 [_ [_ [_ Bi]]]]].
  assert (Ls : in_long (esp x - esp y)) by (unfold in_long, LONG_MIN, LONG_MAX in *; lia).
  rewrite (C1 Ls). set (i := snd (ffrexp (fdiv (mnt x) (mnt y)))) in *.
  rewrite sat_rdpe_in by (unfold in_long, LONG_MIN, LONG_MAX in *; lia). cbn [esp]. lia.
Qed.

(* pure real part: computed product with a perturbed second factor *)
Lemma div_real_part : forall a b w1 w2 t1 t2 X Y q : R,
  (0 <= q <= 4 * u53 + 40 * u53 * u53)%R ->
  (Rabs (t1 - w1) <= q * Rabs w1)%R -> (Rabs (t2 - w2) <= q * Rabs w2)%R ->
  (dist2 X Y (a * t1 - b * t2) (b * t1 + a * t2) <= 19 * (u53 * u53) * (mod2 a b * mod2 t1 t2))%R ->
  (dist2 X Y (a * w1 - b * w2) (b * w1 + a * w2) <= 72 * (u53 * u53) * (mod2 a b * mod2 w1 w2))%R.
Proof.
  intros a b w1 w2 t1 t2 X Y q Hq H1 H2 H. unfold dist2, mod2 in *.
  pose proof u53_pos as U. pose proof u53_small as U2.
  set (P := (X - (a * t1 - b * t2))%R) in *. set (Q := (Y - (b * t1 + a * t2))%R) in *.
  set (d1 := (t1 - w1)%R) in *. set (d2 := (t2 - w2)%R) in *.
  set (A := (a * a + b * b)%R) in *. set (W := (w1 * w1 + w2 * w2)%R).
  assert (A0 : (0 <= A)%R) by (unfold A; nra). assert (W0 : (0 <= W)%R) by (unfold W; nra).
  (* the perturbation *)
  pose proof (sqr_le_of_abs _ _ H1) as D1. pose proof (sqr_le_of_abs _ _ H2) as D2.
  replace (q * Rabs w1 * (q * Rabs w1))%R with (q * q * (Rabs w1 * Rabs w1))%R in D1 by ring.
  replace (q * Rabs w2 * (q * Rabs w2))%R with (q * q * (Rabs w2 * Rabs w2))%R in D2 by ring.
  rewrite abs_sq in D1, D2.
  assert (DD : (d1 * d1 + d2 * d2 <= q * q * W)%R) by (unfold W; lra).
  (* |t|^2 <= (1+q)^2 |w|^2 *)
  assert (T1 : (Rabs t1 <= (1 + q) * Rabs w1)%R).
  { replace t1 with (w1 + d1)%R by (unfold d1; ring). apply Rle_trans with (1 := Rabs_triang _ _). lra. }
  assert (T2 : (Rabs t2 <= (1 + q) * Rabs w2)%R).
  { replace t2 with (w2 + d2)%R by (unfold d2; ring). apply Rle_trans with (1 := Rabs_triang _ _). lra. }
  pose proof (sqr_le_of_abs _ _ T1) as S1. pose proof (sqr_le_of_abs _ _ T2) as S2.
  replace ((1 + q) * Rabs w1 * ((1 + q) * Rabs w1))%R with ((1 + q) * (1 + q) * (Rabs w1 * Rabs w1))%R in S1 by ring.
  replace ((1 + q) * Rabs w2 * ((1 + q) * Rabs w2))%R with ((1 + q) * (1 + q) * (Rabs w2 * Rabs w2))%R in S2 by ring.
  rewrite abs_sq in S1, S2.
  assert (TT : (t1 * t1 + t2 * t2 <= (1 + q) * (1 + q) * W)%R) by (unfold W; lra).
  assert (PQ : (P * P + Q * Q <= 19 * (u53 * u53) * (A * ((1 + q) * (1 + q) * W)))%R).
  { apply Rle_trans with (1 := H). apply Rmult_le_compat_l; [nra|]. apply Rmult_le_compat_l; assumption. }
  (* decomposition *)
  set (R := (a * d1 - b * d2)%R). set (S := (b * d1 + a * d2)%R).
  assert (RS : (R * R + S * S = A * (d1 * d1 + d2 * d2))%R) by (unfold R, S, A; ring).
  assert (RS' : (R * R + S * S <= A * (q * q * W))%R) by (rewrite RS; apply Rmult_le_compat_l; assumption).
  replace (X - (a * w1 - b * w2))%R with (P + R)%R by (unfold P, R, d1, d2; ring).
  replace (Y - (b * w1 + a * w2))%R with (Q + S)%R by (unfold Q, S, d1, d2; ring).
  assert (E : ((P + R) * (P + R) + (Q + S) * (Q + S) <= 2 * (P * P + Q * Q) + 2 * (R * R + S * S))%R).
  { pose proof (Rle_0_sqr (P - R)) as K1. pose proof (Rle_0_sqr (Q - S)) as K2. unfold Rsqr in K1, K2. lra. }
  apply Rle_trans with (1 := E).
  assert (AW : (0 <= A * W)%R) by (apply Rmult_le_pos; assumption).
  (* constants *)
  assert (UU0 : (u53 * u53 <= u53 * / 1024)%R) by (apply Rmult_le_compat_l; lra).
  assert (Qs : (q <= / 200)%R) by lra.
  assert (C1 : ((1 + q) * (1 + q) <= 1 + / 64)%R).
  { assert (q * q <= / 200 * / 200)%R by (apply Rmult_le_compat; lra). lra. }
  assert (C2 : (q * q <= 16 * (u53 * u53) * (1 + / 64))%R).
  { assert (q <= 4 * u53 * (1 + 10 * u53))%R by lra.
    assert (q * q <= (4 * u53 * (1 + 10 * u53)) * (4 * u53 * (1 + 10 * u53)))%R by (apply Rmult_le_compat; lra).
    assert ((1 + 10 * u53) * (1 + 10 * u53) <= 1 + / 64)%R.
    { pose proof u53_tiny as U3. assert (10 * u53 <= / 1000)%R by lra.
      assert ((10 * u53) * (10 * u53) <= / 1000 * / 1000)%R by (apply Rmult_le_compat; lra). lra. }
    replace (4 * u53 * (1 + 10 * u53) * (4 * u53 * (1 + 10 * u53)))%R
      with (16 * (u53 * u53) * ((1 + 10 * u53) * (1 + 10 * u53)))%R in H3 by ring.
    assert (16 * (u53 * u53) * ((1 + 10 * u53) * (1 + 10 * u53)) <= 16 * (u53 * u53) * (1 + / 64))%R
      by (apply Rmult_le_compat_l; nra). lra. }
  replace (A * ((1 + q) * (1 + q) * W))%R with ((1 + q) * (1 + q) * (A * W))%R in PQ by ring.
  replace (A * (q * q * W))%R with (q * q * (A * W))%R in RS' by ring.
  set (AWv := (A * W)%R) in *. set (uu := (u53 * u53)%R) in *.
  assert (UU : (0 <= uu)%R) by (unfold uu; nra).
  assert (K1 : ((1 + q) * (1 + q) * AWv <= (1 + / 64) * AWv)%R) by (apply Rmult_le_compat_r; assumption).
  assert (K2 : (q * q * AWv <= 16 * uu * (1 + / 64) * AWv)%R) by (apply Rmult_le_compat_r; assumption).
  assert (K3 : (19 * uu * ((1 + q) * (1 + q) * AWv) <= 19 * uu * ((1 + / 64) * AWv))%R) by (apply Rmult_le_compat_l; nra).
  assert (UA : (0 <= uu * AWv)%R) by (apply Rmult_le_pos; assumption).
  replace (72 * uu * (mod2 a b * W))%R with (72 * (uu * AWv))%R by (unfold mod2, AWv, A; ring).
  nra.
Qed.

Theorem cdiv_rel : forall z w, cnormalised z -> cnormalised w -> csmall z -> csmall w ->
  (mod2 (rval (cre w)) (rval (cim w)) <> 0)%R ->
  let a := rval (cre z) in let b := rval (cim z) in
  let s := mod2 (rval (cre w)) (rval (cim w)) in
  let w1 := (rval (cre w) / s)%R in let w2 := (- rval (cim w) / s)%R in        (* 1 / w = w1 + i w2 *)
  cnormalised (cdpe_div z w) /\
  (dist2 (rval (cre (cdpe_div z w))) (rval (cim (cdpe_div z w))) (a * w1 - b * w2) (b * w1 + a * w2)
   <= 72 * (u53 * u53) * (mod2 a b * mod2 w1 w2))%R.
Proof.
  intros z w Nz Nw Sz Sw Hs a b s w1 w2.
  destruct (smod_facts w Nw Sw Hs) as [Ns [Zs [Es [Ps Ri]]]]. cbv zeta in Ri. fold s in Ri.
  destruct Nw as [Nr Ni]. destruct Sw as [Sr Si].
  unfold cdpe_div, cdpe_div_gen. rewrite cdiv_e_components. cbn [cre cim].
  set (sm := cdpe_smod w) in *.
  change (2 ^ 61) with 2305843009213693952 in Es.
  destruct (inv_const _ _ _ eq_refl eq_refl eq_refl) as [S1 [T0 [Q0 [Q5 Q6]]]].
  set (sg := (3 * u53 + 2 * u53 * u53)%R) in *. set (t := (sg + 2 * sg * sg)%R) in *. set (q := (u53 + t + u53 * t)%R) in *.
  pose proof u53_pos as U. pose proof u53_small as U2.
  assert (Qb : (0 <= q <= 4 * u53 + 40 * u53 * u53)%R).
  { split; [assumption|]. assert (sg <= 4 * u53)%R by (unfold sg; nra).
    assert (t <= sg + 8 * u53 * sg)%R by (unfold t; nra). assert (t <= 3 * u53 + 35 * u53 * u53)%R by (unfold sg in *; nra).
    unfold q. nra. }
  (* one component of conj (w) / |w|^2 *)
  assert (COMP : forall x, normalised x -> esp_small x ->
    normalised (rdpe_div x sm) /\ rel_e q (rval (rdpe_div x sm)) (rval x / s) /\ esp_le (rdpe_div x sm) (2 ^ 62)).
  { intros x Nx Sx. unfold esp_small in Sx. rewrite P60 in Sx.
    assert (HE : LONG_MIN + 1 <= esp x - esp sm <= LONG_MAX - 2) by (unfold LONG_MIN, LONG_MAX; lia).
    destruct (div_rel0 x sm Nx Ns Zs HE) as [Nd Rd]. split; [assumption|]. split.
    - pose proof (rel_e_scale _ _ _ (rval x) Ri) as Rs.
      replace (/ rval sm * rval x)%R with (rval x / rval sm)%R in Rs by (unfold Rdiv; ring).
      replace (/ s * rval x)%R with (rval x / s)%R in Rs by (unfold Rdiv; ring).
      exact (rel_e_trans _ _ _ _ _ (Rlt_le _ _ U) Rd Rs).
    - unfold esp_le. rewrite P62. destruct (Req_dec (B2R (mnt x)) 0) as [X0|X1].
      + destruct (div_zero x sm Nx) as [N0 V0]; [unfold nonzero; lra|assumption|].
        destruct (feq0_zero _ N0 (zero_of_rval _ N0 V0)) as [_ [_ E0]]. rewrite E0. lia.
      + assert (Lx : in_long (esp x)) by (unfold in_long, LONG_MIN, LONG_MAX; lia).
        assert (Lm : in_long (esp sm)) by (unfold in_long, LONG_MIN, LONG_MAX; lia).
        pose proof (div_esp x sm Nx Ns X1 Zs Lx Lm HE). lia. }
  destruct (COMP (cre w) Nr Sr) as [N1 [R1 E1]].
  destruct (COMP (cim w) Ni Si) as [N2 [R2 E2]].
  destruct (normalised_neg _ N2) as [Nn [Vn En]].
  set (t1 := rdpe_div (cre w) sm) in *. set (t2 := rdpe_neg (rdpe_div (cim w) sm)) in *.
  assert (R2' : rel_e q (rval t2) w2).
  { unfold w2. rewrite Vn. replace (- rval (cim w) / s)%R with (- (rval (cim w) / s))%R by (unfold Rdiv; ring).
    apply rel_e_opp. exact R2. }
  assert (E2' : esp_le t2 (2 ^ 62)) by (unfold esp_le in *; rewrite En; assumption).
  pose proof (cmul_rel_gen z (Cdpe t1 t2) Nz (conj N1 Nn) Sz E1 E2') as K. cbv zeta in K. cbn [cre cim] in K.
  destruct K as [Nres K]. fold a b in K.
  split; [exact Nres|].
  unfold rel_e in R1, R2'. fold w1 in R1.
  exact (div_real_part a b w1 w2 (rval t1) (rval t2) _ _ q Qb R1 R2' K).
Qed.

Theorem cdiv_eq_is_div : forall rc c, cdpe_div_eq rc c = cdpe_div rc c.
Proof. reflexivity. Qed.
