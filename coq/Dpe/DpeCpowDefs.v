(* C12 -- vocabulary of the statements about cdpe_pow_si (specification level, not executed). Definitions only. *)
From Coq Require Import ZArith Reals.
From Flocq Require Import Core BinarySingleNaN.
Require Import MPSV.Dpe.DpeDefs MPSV.Dpe.DpeModel.
Open Scope Z_scope.

(* complex numbers as pairs of reals *)
Definition cmulR (p q : R * R) : R * R := (fst p * fst q - snd p * snd q, snd p * fst q + fst p * snd q)%R.
Definition cinvR (z : R * R) : R * R :=
  (fst z / (fst z * fst z + snd z * snd z), - snd z / (fst z * fst z + snd z * snd z))%R.
Fixpoint cpowR (z : R * R) (n : nat) : R * R := match n with O => (1%R, 0%R) | S k => cmulR (cpowR z k) z end.
(* z^i for an integer i (z <> 0 when i < 0) *)
Definition cpowRZ (z : R * R) (i : Z) : R * R := if i <? 0 then cpowR (cinvR z) (Z.to_nat (- i)) else cpowR z (Z.to_nat i).
Definition cval (c : cdpe) : R * R := (rval (cre c), rval (cim c)).
Definition m2 (p : R * R) : R := (fst p * fst p + snd p * snd p)%R.                                   (* |p|^2 *)
Definition d2 (p q : R * R) : R := ((fst p - fst q) * (fst p - fst q) + (snd p - snd q) * (snd p - snd q))%R.   (* |p - q|^2 *)
(* |p - v| <= e |v| *)
Definition crel (e : R) (p v : R * R) : Prop := (0 <= e)%R /\ (d2 p v <= e * e * m2 v)%R.
(* (1 + g)^n - 1 *)
Definition Gp (g : R) (n : nat) : R := ((1 + g) ^ n - 1)%R.
(* rounding constants in modulus: sqrt 19 u < g19 (cdpe_mul, cdpe_sqr_eq), component-wise 6 u (cdpe_inv) *)
Definition g19 : R := (436 / 100 * u53)%R.
Definition g6 : R := (6 * u53)%R.
(* largest exponent (in absolute value) of the two components *)
Definition cesp (c : cdpe) : Z := Z.max (Z.abs (esp (cre c))) (Z.abs (esp (cim c))).
