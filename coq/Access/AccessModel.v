(* C16: what an accessor must hand out.  Executable model on exact rationals (extracted). *)
From Coq Require Import QArith List Bool.
Import ListNotations.

Definition sq (x : Q) : Q := x * x.

(* internal result: disc D(zm, rm); accessor hands out D(za, ra).
   Sufficient (and, when the internal disc is tight, necessary) condition for the accessor's pair to
   still be an inclusion: |za - zm| + rm <= ra, decided on squares. *)
Definition acc_ok (zmr zmi rm zar zai ra : Q) : bool :=
  Qle_bool 0 rm && Qle_bool rm ra &&
  Qle_bool (sq (zar - zmr) + sq (zai - zmi)) (sq (ra - rm)).

(* the disc D(za,ra) certainly misses every point of D(zm,rm): |za - zm| > ra + rm *)
Definition acc_disjoint (zmr zmi rm zar zai ra : Q) : bool :=
  Qle_bool 0 rm && Qle_bool 0 ra &&
  negb (Qle_bool (sq (zar - zmr) + sq (zai - zmi)) (sq (ra + rm))).

(* "multiprecision values are returned with enough precision to represent the approximation to
   within its radius": the value handed out equals the stored one, or differs by at most the radius slack *)
Definition same_value (zmr zmi zar zai : Q) : bool := Qeq_bool zmr zar && Qeq_bool zmi zai.

(* model of the repaired double-precision accessor (context.c, mps_context_get_roots_d):
   radius := (rd + 4 eps |za| + dmin) * (1 + 4 eps), eps = 2^-52, dmin = 2^-1022 *)
Definition eps : Q := 1 # (2 ^ 52).
Definition dmin : Q := 1 # (2 ^ 1022).
Definition fixed_radius (rd absza : Q) : Q := (rd + 4 * eps * absza + dmin) * (1 + 4 * eps).
