From Coq Require Import QArith Qreals Reals Lra Psatz Bool.
Require Import MPSV.Access.AccessModel.
Local Open Scope R_scope.

(* triangle inequality on squares: if |a| <= r and |b| <= d then |a + b| <= r + d *)
Lemma tri_sq (a1 a2 b1 b2 r d : R) :
  0 <= r -> 0 <= d -> a1 * a1 + a2 * a2 <= r * r -> b1 * b1 + b2 * b2 <= d * d ->
  (a1 + b1) * (a1 + b1) + (a2 + b2) * (a2 + b2) <= (r + d) * (r + d).
Proof.
intros Hr Hd Ha Hb.
assert (CS : (a1 * b1 + a2 * b2) * (a1 * b1 + a2 * b2) <= (r * d) * (r * d)).
{ assert (H1 : (a1 * b1 + a2 * b2) * (a1 * b1 + a2 * b2)
               <= (a1 * a1 + a2 * a2) * (b1 * b1 + b2 * b2)).
  { pose proof (Rle_0_sqr (a1 * b2 - a2 * b1)) as Hs; unfold Rsqr in Hs.
    replace ((a1 * a1 + a2 * a2) * (b1 * b1 + b2 * b2)) with
      ((a1 * b1 + a2 * b2) * (a1 * b1 + a2 * b2) + (a1 * b2 - a2 * b1) * (a1 * b2 - a2 * b1)) by ring.
    lra. }
  assert (H2 : (a1 * a1 + a2 * a2) * (b1 * b1 + b2 * b2) <= (r * r) * (d * d)).
  { apply Rmult_le_compat; nra. }
  nra. }
assert (Hrd : 0 <= r * d) by nra.
assert (Hab : a1 * b1 + a2 * b2 <= r * d) by nra.
nra.
Qed.

(* Rounding lemma (round_disc of DESIGN.md): a root in D(zm,rm) is in D(za,ra) as soon as
   |za - zm| <= ra - rm. *)
Lemma round_disc (x y zmr zmi rm zar zai ra : R) :
  0 <= rm -> rm <= ra ->
  (zar - zmr) * (zar - zmr) + (zai - zmi) * (zai - zmi) <= (ra - rm) * (ra - rm) ->
  (x - zmr) * (x - zmr) + (y - zmi) * (y - zmi) <= rm * rm ->
  (x - zar) * (x - zar) + (y - zai) * (y - zai) <= ra * ra.
Proof.
intros Hrm Hle Hd Hin.
pose proof (tri_sq (x - zmr) (y - zmi) (zmr - zar) (zmi - zai) rm (ra - rm) Hrm ltac:(lra) Hin ltac:(nra)) as H.
replace (x - zmr + (zmr - zar)) with (x - zar) in H by ring.
replace (y - zmi + (zmi - zai)) with (y - zai) in H by ring.
replace (rm + (ra - rm)) with ra in H by ring.
exact H.
Qed.

Lemma Qle_bool_R a b : Qle_bool a b = true -> Q2R a <= Q2R b.
Proof. intro H; apply Qle_Rle; apply Qle_bool_iff; exact H. Qed.

(* Soundness of the extracted test: whenever acc_ok accepts, EVERY point (in particular every root)
   of the internal disc lies in the disc the accessor handed out. *)
Theorem acc_ok_sound zmr zmi rm zar zai ra :
  acc_ok zmr zmi rm zar zai ra = true ->
  forall x y : R,
    (x - Q2R zmr) * (x - Q2R zmr) + (y - Q2R zmi) * (y - Q2R zmi) <= Q2R rm * Q2R rm ->
    (x - Q2R zar) * (x - Q2R zar) + (y - Q2R zai) * (y - Q2R zai) <= Q2R ra * Q2R ra.
Proof.
unfold acc_ok, sq; rewrite !andb_true_iff; intros [[H0 H1] H2] x y Hin.
apply Qle_bool_R in H0, H1, H2.
rewrite Q2R_plus, !Q2R_mult, !Q2R_minus in H2.
replace (Q2R 0) with 0 in H0 by (unfold Q2R; simpl; lra).
apply (round_disc x y (Q2R zmr) (Q2R zmi) (Q2R rm)); assumption.
Qed.

(* and when acc_disjoint accepts, NO point of the internal disc lies in the accessor's disc *)
Theorem acc_disjoint_sound zmr zmi rm zar zai ra :
  acc_disjoint zmr zmi rm zar zai ra = true ->
  forall x y : R,
    (x - Q2R zmr) * (x - Q2R zmr) + (y - Q2R zmi) * (y - Q2R zmi) <= Q2R rm * Q2R rm ->
    ~ (x - Q2R zar) * (x - Q2R zar) + (y - Q2R zai) * (y - Q2R zai) <= Q2R ra * Q2R ra.
Proof.
unfold acc_disjoint, sq; rewrite !andb_true_iff, negb_true_iff; intros [[H0 H1] H2] x y Hin Hin2.
apply Qle_bool_R in H0, H1.
replace (Q2R 0) with 0 in H0, H1 by (unfold Q2R; simpl; lra).
assert (Hn : ~ (Q2R ((zar - zmr) * (zar - zmr) + (zai - zmi) * (zai - zmi)) <= Q2R ((ra + rm) * (ra + rm)))).
{ intro Hc; apply Rle_Qle in Hc; apply Qle_bool_iff in Hc; congruence. }
apply Hn; rewrite Q2R_plus, !Q2R_mult, !Q2R_minus, Q2R_plus.
pose proof (tri_sq (Q2R zar - x) (Q2R zai - y) (x - Q2R zmr) (y - Q2R zmi) (Q2R ra) (Q2R rm) H1 H0 ltac:(nra) Hin) as H.
replace (Q2R zar - x + (x - Q2R zmr)) with (Q2R zar - Q2R zmr) in H by ring.
replace (Q2R zai - y + (y - Q2R zmi)) with (Q2R zai - Q2R zmi) in H by ring.
exact H.
Qed.

(* The repaired accessor formula is large enough (real-arithmetic part of the argument).
   e = 2^-52 (DBL_EPSILON), unit round-off e/2.  Hypotheses, each a fact about one C statement:
   - rd = rdpe_get_d(rm) is exact (ldexp) unless it underflows, error below dm1;
   - the value moved by delta <= 3 e a + dm2 when truncated to double (a = |za|);
   - m = cplx_mod(za) carries at most three roundings;
   - the formula's two additions and one multiplication lose at most (1 - e/2)^3 >= 1 - 3e/2
     (4*e*m and 1+4e are exact);  dm = DBL_MIN covers both underflow terms. *)
Theorem fixed_radius_sufficient (rm rd a m delta e dm dm1 dm2 racc : R) :
  e = / 2 ^ 52 -> 0 <= dm1 -> 0 <= dm2 -> dm1 + dm2 <= dm -> 0 <= rm -> 0 <= a -> 0 <= rd ->
  rd + dm1 >= rm -> m >= a * (1 - 3 * e) ->
  delta <= 3 * e * a + dm2 ->
  racc >= (rd + 4 * e * m + dm) * (1 + 4 * e) * (1 - 3 * e / 2) ->
  rm + delta <= racc.
Proof.
intros He Hd1 Hd2 Hdm Hrm Ha Hrd0 Hrd Hm Hdelta Hr.
assert (He0 : 0 < e) by (rewrite He; apply Rinv_0_lt_compat; apply pow_lt; lra).
assert (He1 : e <= / 1024).
{ rewrite He; replace 1024 with (2 ^ 10) by lra.
  apply Rinv_le_contravar; [apply pow_lt; lra|apply Rle_pow; [lra|lia]]. }
assert (K : (1 + 4 * e) * (1 - 3 * e / 2) >= 1) by nra.
assert (M0 : 0 <= 4 * e * m).
{ assert (0 <= m) by nra. nra. }
assert (P : 0 <= rd + 4 * e * m + dm) by lra.
assert (R1 : racc >= rd + 4 * e * m + dm).
{ rewrite Rmult_assoc in Hr.
  assert ((rd + 4 * e * m + dm) * ((1 + 4 * e) * (1 - 3 * e / 2)) >= (rd + 4 * e * m + dm) * 1).
  { apply Rle_ge; apply Rmult_le_compat_l; lra. }
  lra. }
assert (M1 : 4 * e * m >= 3 * e * a).
{ assert (4 * e * m >= 4 * e * (a * (1 - 3 * e))).
  { apply Rle_ge; apply Rmult_le_compat_l; lra. }
  assert (4 * e * (a * (1 - 3 * e)) >= 3 * e * a) by nra.
  lra. }
lra.
Qed.

Example acc_ok_nonvacuous :
  acc_ok (1#3) 0 (1#1000) (333#1000) 0 (2#1000) = true /\
  acc_ok (1#3) 0 (1#1000) (333#1000) 0 (1#1000) = false /\
  acc_disjoint (1#3) 0 (1#1000000) (333#1000) 0 (1#1000000) = true.
Proof. vm_compute; repeat split. Qed.
