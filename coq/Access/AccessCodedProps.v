(* C16 -- theorems about the as-coded accessor model (Access/AccessCoded.v).
   Part A: the multiprecision accessors (mpc_set_prec to the stored precision, then mpc_set) return the stored value exactly,
           whatever the precision of the caller's variable.
   Part B: mps_copy_roots / mps_restore_data keep the value; after mps_copy_roots (mvalue, drad) IS the pair of the last phase.
   Part C: mps_context_get_roots_d and the (fvalue, frad) pair of mps_context_get_approximations, each double operation rounded:
           whenever the radius handed out is finite, the value is finite and  |value - stored| + stored radius <= radius.
   Part D: the (dvalue, drad) pair of mps_context_get_approximations is refuted by a concrete state. *)
From Coq Require Import ZArith Reals Lia Lra Psatz Bool.
From Flocq Require Import Core BinarySingleNaN Relative.
Require Import MPSV.Access.AccessCoded.
Local Open Scope R_scope.

(* ------------------------------------------------------------------ real-valued semantics *)
Definition mpfR (f : mpf) : R := IZR (mp_man f) * bpow radix2 (64 * mp_exp f).
Definition rdpeR (e : rdpe) : R := B2R (fst e) * bpow radix2 (snd e).
Definition mpf_wf (f : mpf) : Prop := (2 <= mp_prec f)%Z /\ (limbs (mp_man f) <= mp_prec f + 1)%Z.
Definition mpc_wf (c : mpc) : Prop := mpf_wf (fst c) /\ mpf_wf (snd c) /\ mp_prec (fst c) = mp_prec (snd c).
(* a normalised DPE number: finite mantissa, 0 or 1/2 <= |mantissa| < 1 *)
Definition rdpe_wf (e : rdpe) : Prop :=
  is_finite (fst e) = true /\ Rabs (B2R (fst e)) < 1 /\ (B2R (fst e) <> 0 -> / 2 <= Rabs (B2R (fst e))).

(* ================================================================== Part A *)
Lemma bits_to_prec_roundtrip (P : Z) : (2 <= P)%Z -> bits_to_prec (fix_prec (prec_to_bits P)) = P.
Proof.
intros HP; unfold bits_to_prec, fix_prec, prec_to_bits.
destruct (Z.leb_spec (64 * P - 64) 2) as [H|H]; [lia|].
rewrite Z.max_r by lia.
symmetry; apply Z.div_unique with (r := 63%Z); lia.
Qed.

Lemma keep_limbs_id (k P : Z) (f : mpf) :
  (limbs (mp_man f) <= k)%Z -> keep_limbs k P f = MkMpf P (mp_man f) (mp_exp f).
Proof.
intros H; unfold keep_limbs.
destruct (Z.gtb_spec (limbs (mp_man f)) k) as [G|G]; [lia|reflexivity].
Qed.

Lemma mpf_get_into_exact (out m : mpf) :
  mpf_wf m ->
  mpf_set (mpf_set_prec out (fix_prec (mpf_get_prec m))) m = m.
Proof.
intros [HP HL].
assert (E : mp_prec (mpf_set_prec out (fix_prec (mpf_get_prec m))) = mp_prec m).
{ unfold mpf_set_prec, mpf_get_prec; rewrite (bits_to_prec_roundtrip _ HP).
  destruct (Z.eqb_spec (mp_prec m) (mp_prec out)) as [e|e]; [now symmetry|].
  unfold keep_limbs; now destruct (_ >? _)%Z. }
unfold mpf_set; rewrite E, keep_limbs_id by exact HL.
now destruct m.
Qed.

(* mps_context_get_roots_m, mps_approximation_get_mvalue, mps_approximation_copy: whatever the caller's variable holds and
   whatever its precision is, the result is the stored multiprecision value, bit for bit, at the stored precision *)
Theorem get_mvalue_into_exact (out m : mpc) : mpc_wf m -> get_mvalue_into out m = m.
Proof.
intros (H1 & H2 & HP); unfold get_mvalue_into, mpc_set, mpc_set_prec, mpc_get_prec; simpl.
rewrite (mpf_get_into_exact (fst out) (fst m) H1).
replace (mpf_get_prec (fst m)) with (mpf_get_prec (snd m)) by (unfold mpf_get_prec; now rewrite HP).
rewrite (mpf_get_into_exact (snd out) (snd m) H2).
now destruct m.
Qed.

(* the hypothesis limbs <= precision + 1 is needed: a precision field lowered by mpc_set_prec_raw below the size in use
   (mps_restore_data with data_prec_max below the precision of the approximation) makes the copy lose the low limbs *)
Example get_mvalue_into_needs_wf :
  let m := (MkMpf 2 (2 ^ 192 + 1) 0, MkMpf 2 0 0) in
  mp_man (fst (get_mvalue_into (mpc_init2 64) m)) = (2 ^ 128)%Z /\ mp_exp (fst (get_mvalue_into (mpc_init2 64) m)) = 1%Z.
Proof. vm_compute; split; reflexivity. Qed.

(* ================================================================== Part B *)
Lemma restore_data_value (dpm : Z) (a : approx) :
  mpfR (fst (a_mvalue (restore_data dpm a))) = mpfR (fst (a_mvalue a)) /\
  mpfR (snd (a_mvalue (restore_data dpm a))) = mpfR (snd (a_mvalue a)) /\
  a_drad (restore_data dpm a) = a_drad a /\ a_fvalue (restore_data dpm a) = a_fvalue a /\
  a_dvalue (restore_data dpm a) = a_dvalue a /\ a_frad (restore_data dpm a) = a_frad a.
Proof. unfold restore_data; destruct (dpm =? 0)%Z; simpl; repeat split; reflexivity. Qed.

Lemma restore_data_wf (dpm : Z) (a : approx) :
  dpm <> 0%Z ->
  (limbs (mp_man (fst (a_mvalue a))) <= bits_to_prec dpm + 1)%Z ->
  (limbs (mp_man (snd (a_mvalue a))) <= bits_to_prec dpm + 1)%Z ->
  mpc_wf (a_mvalue (restore_data dpm a)).
Proof.
intros Hd H1 H2; unfold restore_data.
destruct (Z.eqb_spec dpm 0) as [e|_]; [contradiction|]; simpl.
assert (2 <= bits_to_prec dpm)%Z.
{ unfold bits_to_prec. apply Z.div_le_lower_bound; lia. }
unfold mpc_wf, mpf_wf; simpl; repeat split; assumption.
Qed.

Lemma limbs_le_2 (v : Z) : (Z.abs v < 2 ^ 128)%Z -> (limbs v <= 2)%Z.
Proof.
intros H; unfold limbs; destruct (Z.eqb_spec v 0) as [e|n]; [lia|].
assert (Z.log2 (Z.abs v) < 128)%Z by (apply Z.log2_lt_pow2; lia).
assert (Z.log2 (Z.abs v) / 64 < 2)%Z by (apply Z.div_lt_upper_bound; lia).
lia.
Qed.

Lemma mpf_of_dyadic_spec (P : Z) (s : bool) (m : positive) (e : Z) :
  (1 <= P)%Z -> (Zpos m < 2 ^ 53)%Z ->
  mpfR (mpf_of_dyadic P s m e) = F2R (Float radix2 (cond_Zopp s (Zpos m)) e) /\
  mp_prec (mpf_of_dyadic P s m e) = P /\ (limbs (mp_man (mpf_of_dyadic P s m e)) <= 2)%Z.
Proof.
intros HP Hm; unfold mpf_of_dyadic.
set (r := (e mod 64)%Z).
assert (Hr : (0 <= r < 64)%Z) by (apply Z.mod_pos_bound; lia).
assert (Hl : (limbs (cond_Zopp s (Z.shiftl (Zpos m) r)) <= 2)%Z).
{ apply limbs_le_2. rewrite abs_cond_Zopp, Z.shiftl_mul_pow2 by lia.
  rewrite Z.abs_eq by (apply Z.mul_nonneg_nonneg; [lia|apply Z.pow_nonneg; lia]).
  apply Z.lt_le_trans with (2 ^ 53 * 2 ^ r)%Z.
  - apply Z.mul_lt_mono_pos_r; [apply Z.pow_pos_nonneg; lia|exact Hm].
  - rewrite <- Z.pow_add_r by lia. apply Z.pow_le_mono_r; lia. }
rewrite keep_limbs_id by (simpl; lia).
unfold mpfR; simpl mp_man; simpl mp_exp; simpl mp_prec.
split; [|split; [reflexivity|exact Hl]].
unfold F2R; simpl Fnum; simpl Fexp.
rewrite Z.shiftl_mul_pow2 by lia.
replace (cond_Zopp s (Zpos m * 2 ^ r)) with (cond_Zopp s (Zpos m) * 2 ^ r)%Z by (destruct s; unfold cond_Zopp; [apply Z.mul_opp_l|reflexivity]).
rewrite mult_IZR, (IZR_Zpower radix2) by lia.
rewrite Rmult_assoc, <- bpow_plus.
f_equal; f_equal. unfold r. pose proof (Z.div_mod e 64). lia.
Qed.

Lemma finite_mant_lt (s : bool) (m : positive) (e : Z) (H : SpecFloat.bounded 53 1024 m e = true) : (Zpos m < 2 ^ 53)%Z.
Proof.
unfold SpecFloat.bounded in H. apply andb_prop in H; destruct H as [H _].
unfold SpecFloat.canonical_mantissa in H. apply Zeq_bool_eq in H.
unfold SpecFloat.fexp in H. rewrite Zpos_digits2_pos in H.
assert (Zdigits radix2 (Zpos m) <= 53)%Z by lia.
apply (Zpower_gt_Zdigits radix2 53 (Zpos m)) in H0. now rewrite Z.abs_eq in H0 by lia.
Qed.

Lemma mpf_set_d_2exp_spec (r : mpf) (d : b64) (l : Z) :
  (1 <= mp_prec r)%Z -> is_finite d = true ->
  mpfR (mpf_set_d_2exp r d l) = B2R d * bpow radix2 l /\
  mp_prec (mpf_set_d_2exp r d l) = mp_prec r /\ (limbs (mp_man (mpf_set_d_2exp r d l)) <= 2)%Z.
Proof.
intros HP Fd; destruct d as [s|s| |s m e Hb]; try discriminate; simpl.
- unfold mpfR; simpl; repeat split; try lra; try lia. vm_compute; discriminate.
- destruct (mpf_of_dyadic_spec (mp_prec r) s m (e + l) HP (finite_mant_lt s m e Hb)) as (A & B & C).
  rewrite A; repeat split; try assumption.
  unfold F2R; simpl. rewrite bpow_plus; ring.
Qed.

Lemma set_prec_53_prec (f : mpf) : mp_prec (mpf_set_prec f (fix_prec 53)) = 2%Z.
Proof.
unfold mpf_set_prec. change (bits_to_prec (fix_prec 53)) with 2%Z.
destruct (Z.eqb_spec 2 (mp_prec f)) as [e|e]; [now symmetry|].
unfold keep_limbs; now destruct (_ >? _)%Z.
Qed.

Lemma rdpe_norm_value (d : b64) (l : Z) : is_finite d = true -> rdpeR (rdpe_norm d l) = B2R d * bpow radix2 l.
Proof.
intros Fd; destruct d as [s|s| |s m e Hb]; try discriminate.
- unfold rdpeR; simpl; ring.
- unfold rdpe_norm. pose proof (Bfrexp_correct 53 1024 _ (B754_finite s m e Hb) eq_refl) as H.
  destruct (Bfrexp (B754_finite s m e Hb)) as [z i]. destruct H as [H _].
  unfold rdpeR; simpl fst; simpl snd. rewrite H, bpow_plus. ring.
Qed.

Lemma rdpe_norm_wf (d : b64) (l : Z) : is_finite d = true -> rdpe_wf (rdpe_norm d l).
Proof.
intros Fd; destruct d as [s|s| |s m e Hb]; try discriminate.
- unfold rdpe_wf; simpl. rewrite Rabs_R0. repeat split; try lra.
- unfold rdpe_norm. pose proof (Bfrexp_correct 53 1024 _ (B754_finite s m e Hb) eq_refl) as H.
  pose proof (is_finite_strict_B2R 53 1024) as _.
  destruct (Bfrexp (B754_finite s m e Hb)) as [z i] eqn:Ez. destruct H as [H0 H].
  destruct (H ltac:(lia)) as [[Hl Hu] _].
  unfold rdpe_wf; simpl fst. repeat split; try assumption.
  + destruct z as [sz|sz| |sz mz ez Hz]; try reflexivity; simpl in Hl; rewrite Rabs_R0 in Hl; lra.
  + intros _; exact Hl.
Qed.

(* mps_copy_roots: afterwards the multiprecision pair (mvalue, drad) is exactly the pair of the last phase, at a well-formed
   precision; nothing else is touched *)
Theorem copy_roots_float (a : approx) :
  is_finite (fst (a_fvalue a)) = true -> is_finite (snd (a_fvalue a)) = true -> is_finite (a_frad a) = true ->
  let st := copy_roots PhFloat a in
  mpfR (fst (a_mvalue st)) = B2R (fst (a_fvalue a)) /\ mpfR (snd (a_mvalue st)) = B2R (snd (a_fvalue a)) /\
  rdpeR (a_drad st) = B2R (a_frad a) /\ rdpe_wf (a_drad st) /\ mpc_wf (a_mvalue st) /\
  a_fvalue st = a_fvalue a /\ a_frad st = a_frad a.
Proof.
intros F1 F2 F3; simpl.
pose proof (set_prec_53_prec (fst (a_mvalue a))) as P1. pose proof (set_prec_53_prec (snd (a_mvalue a))) as P2.
destruct (mpf_set_d_2exp_spec (mpf_set_prec (fst (a_mvalue a)) (fix_prec 53)) (fst (a_fvalue a)) 0 ltac:(lia) F1) as (A1 & B1 & C1).
destruct (mpf_set_d_2exp_spec (mpf_set_prec (snd (a_mvalue a)) (fix_prec 53)) (snd (a_fvalue a)) 0 ltac:(lia) F2) as (A2 & B2 & C2).
unfold mpc_set_cplx, mpc_set_prec; simpl fst; simpl snd.
rewrite A1, A2; simpl bpow; rewrite !Rmult_1_r.
repeat split; try reflexivity.
- unfold rdpe_set_d; rewrite rdpe_norm_value by exact F3; simpl; ring.
- exact (proj1 (rdpe_norm_wf _ 0 F3)).
- exact (proj1 (proj2 (rdpe_norm_wf _ 0 F3))).
- exact (proj2 (proj2 (rdpe_norm_wf _ 0 F3))).
- simpl; lia.
- simpl; lia.
- simpl; lia.
- simpl; lia.
- simpl; lia.
Qed.

Theorem copy_roots_dpe (a : approx) :
  is_finite (fst (fst (a_dvalue a))) = true -> is_finite (fst (snd (a_dvalue a))) = true ->
  let st := copy_roots PhDpe a in
  mpfR (fst (a_mvalue st)) = rdpeR (fst (a_dvalue a)) /\ mpfR (snd (a_mvalue st)) = rdpeR (snd (a_dvalue a)) /\
  a_drad st = a_drad a /\ mpc_wf (a_mvalue st) /\ a_dvalue st = a_dvalue a.
Proof.
intros F1 F2; simpl.
pose proof (set_prec_53_prec (fst (a_mvalue a))) as P1. pose proof (set_prec_53_prec (snd (a_mvalue a))) as P2.
destruct (mpf_set_d_2exp_spec (mpf_set_prec (fst (a_mvalue a)) (fix_prec 53)) (fst (fst (a_dvalue a))) (snd (fst (a_dvalue a))) ltac:(lia) F1) as (A1 & B1 & C1).
destruct (mpf_set_d_2exp_spec (mpf_set_prec (snd (a_mvalue a)) (fix_prec 53)) (fst (snd (a_dvalue a))) (snd (snd (a_dvalue a))) ltac:(lia) F2) as (A2 & B2 & C2).
unfold mpc_set_cdpe, mpf_set_rdpe, mpc_set_prec, rdpeR; simpl fst; simpl snd.
rewrite A1, A2.
repeat split; try reflexivity; simpl; lia.
Qed.

(* ================================================================== Part C *)
Notation fexp64 := (FLT_exp (-1074) 53).
Notation rndNE := (round radix2 fexp64 ZnearestE).
Notation rndZR := (round radix2 fexp64 Ztrunc).
Definition etaR : R := bpow radix2 (-1075).

Lemma etaR_pos : 0 < etaR.
Proof. apply bpow_gt_0. Qed.
Lemma bpow_m1022_eta : bpow radix2 (-1022) = 2 ^ 53 * etaR.
Proof.
unfold etaR. change (-1022)%Z with (53 + -1075)%Z. rewrite bpow_plus. f_equal.
change 53%Z with (Z.of_nat 53). rewrite <- (IZR_Zpower_nat radix2). simpl. lra.
Qed.
Lemma bpow_m1074_eta : bpow radix2 (-1074) = 2 * etaR.
Proof. unfold etaR. change (-1074)%Z with (1 + -1075)%Z. rewrite bpow_plus. simpl. lra. Qed.
Lemma bpow_m1073_eta : bpow radix2 (-1073) = 4 * etaR.
Proof. unfold etaR. change (-1073)%Z with (2 + -1075)%Z. rewrite bpow_plus. simpl. lra. Qed.
Lemma bpow_m52 : bpow radix2 (-52) = / 2 ^ 52.
Proof. simpl. lra. Qed.

(* one rounding to nearest of a non-negative real: relative error 2^-53 or absolute error 2^-1075 *)
Lemma rndNE_lb (x : R) : 0 <= x -> 0 <= rndNE x /\ rndNE x >= x * (1 - / 2 ^ 53) - etaR.
Proof.
intros Hx; split.
- apply round_ge_generic; [apply FLT_exp_valid; reflexivity|apply valid_rnd_N|apply generic_format_0|exact Hx].
- destruct (error_N_FLT radix2 (-1074) 53 eq_refl (fun z => negb (Z.even z)) x) as (eps & eta & He & Ht & _ & Hr).
  change (round radix2 (FLT_exp (-1074) 53) (Znearest (fun z => negb (Z.even z))) x) with (rndNE x) in Hr.
  rewrite Hr.
  assert (E1 : / 2 * bpow radix2 (- (53) + 1) = / 2 ^ 53) by (simpl; lra).
  assert (E2 : / 2 * bpow radix2 (-1074) = etaR) by (rewrite bpow_m1074_eta; lra).
  rewrite E1 in He; rewrite E2 in Ht.
  apply Rabs_le_inv in He; apply Rabs_le_inv in Ht.
  assert (x * eps >= x * - / 2 ^ 53) by (apply Rle_ge, Rmult_le_compat_l; lra).
  lra.
Qed.

(* the real-arithmetic core: four roundings of (rd + 2^-50 md + 2^-1022) (1 + 2^-50), one more rounding inside rd *)
Lemma enlarge_chain (rs rd md M t1 t2 t3 t4 eta : R) :
  0 < eta -> 0 <= rs -> 0 <= M -> M <= md ->
  rd >= rs * (1 - / 2 ^ 53) - eta ->
  t1 >= / 2 ^ 50 * md * (1 - / 2 ^ 53) - eta ->
  t2 >= (rd + t1) * (1 - / 2 ^ 53) - eta ->
  t3 >= (t2 + 2 ^ 53 * eta) * (1 - / 2 ^ 53) - eta ->
  t4 >= t3 * (1 + / 2 ^ 50) * (1 - / 2 ^ 53) - eta ->
  rs + / 2 ^ 51 * M + 16 * eta <= t4.
Proof.
intros He Hrs HM HMd Hrd H1 H2 H3 H4.
assert (K : 0 < 1 - / 2 ^ 53) by lra.
assert (K2 : 0 < (1 + / 2 ^ 50) * (1 - / 2 ^ 53)) by nra.
assert (A2 : t2 >= (rs * (1 - / 2 ^ 53) - eta + (/ 2 ^ 50 * M * (1 - / 2 ^ 53) - eta)) * (1 - / 2 ^ 53) - eta).
{ assert (/ 2 ^ 50 * md * (1 - / 2 ^ 53) >= / 2 ^ 50 * M * (1 - / 2 ^ 53)) by nra.
  assert ((rd + t1) * (1 - / 2 ^ 53) >= (rs * (1 - / 2 ^ 53) - eta + (/ 2 ^ 50 * M * (1 - / 2 ^ 53) - eta)) * (1 - / 2 ^ 53)).
  { apply Rle_ge, Rmult_le_compat_r; lra. }
  lra. }
clear H1 H2 Hrd HMd.
assert (A3 : t3 >= ((rs * (1 - / 2 ^ 53) - eta + (/ 2 ^ 50 * M * (1 - / 2 ^ 53) - eta)) * (1 - / 2 ^ 53) - eta + 2 ^ 53 * eta) * (1 - / 2 ^ 53) - eta).
{ assert ((t2 + 2 ^ 53 * eta) * (1 - / 2 ^ 53) >= ((rs * (1 - / 2 ^ 53) - eta + (/ 2 ^ 50 * M * (1 - / 2 ^ 53) - eta)) * (1 - / 2 ^ 53) - eta + 2 ^ 53 * eta) * (1 - / 2 ^ 53)).
  { apply Rle_ge, Rmult_le_compat_r; lra. }
  lra. }
clear H3 A2.
assert (A4 : t4 >= (((rs * (1 - / 2 ^ 53) - eta + (/ 2 ^ 50 * M * (1 - / 2 ^ 53) - eta)) * (1 - / 2 ^ 53) - eta + 2 ^ 53 * eta) * (1 - / 2 ^ 53) - eta) * ((1 + / 2 ^ 50) * (1 - / 2 ^ 53)) - eta).
{ assert (t3 * ((1 + / 2 ^ 50) * (1 - / 2 ^ 53)) >= (((rs * (1 - / 2 ^ 53) - eta + (/ 2 ^ 50 * M * (1 - / 2 ^ 53) - eta)) * (1 - / 2 ^ 53) - eta + 2 ^ 53 * eta) * (1 - / 2 ^ 53) - eta) * ((1 + / 2 ^ 50) * (1 - / 2 ^ 53))).
  { apply Rle_ge, Rmult_le_compat_r; lra. }
  lra. }
clear H4 A3.
(* now linear in rs, M, eta with constant coefficients *)
lra.
Qed.

(* ---- binary64 operations with a finite result *)
Lemma fadd_finite_inv (x y : b64) : is_finite (fadd x y) = true -> is_finite x = true /\ is_finite y = true.
Proof.
destruct x as [sx|sx| |sx mx ex Hx], y as [sy|sy| |sy my ey Hy]; simpl; try discriminate; auto;
  destruct sx, sy; simpl; try discriminate; auto.
Qed.
Lemma fmul_finite_inv (x y : b64) : is_finite (fmul x y) = true -> is_finite x = true /\ is_finite y = true.
Proof.
destruct x as [sx|sx| |sx mx ex Hx], y as [sy|sy| |sy my ey Hy]; simpl; try discriminate; auto.
Qed.

Lemma fadd_correct_fin (x y : b64) :
  is_finite (fadd x y) = true -> B2R (fadd x y) = rndNE (B2R x + B2R y).
Proof.
intros F. destruct (fadd_finite_inv x y F) as [Fx Fy].
generalize (Bplus_correct 53 1024 C16_Hprec53 C16_Hmax1024 mode_NE x y Fx Fy).
destruct (Rlt_bool _ _).
- intros [H _]; exact H.
- intros [H _]. exfalso. unfold fadd in F. rewrite <- is_finite_SF_B2SF, H in F. discriminate.
Qed.
Lemma fmul_correct_fin (x y : b64) :
  is_finite (fmul x y) = true -> B2R (fmul x y) = rndNE (B2R x * B2R y).
Proof.
intros F.
generalize (Bmult_correct 53 1024 C16_Hprec53 C16_Hmax1024 mode_NE x y).
destruct (Rlt_bool _ _).
- intros [H _]; exact H.
- intros H. exfalso. unfold fmul in F. rewrite <- is_finite_SF_B2SF, H in F. discriminate.
Qed.

Lemma B2R_C_4EPS : B2R C_4EPS = / 2 ^ 50.
Proof. unfold B2R, C_4EPS, F2R; simpl. lra. Qed.
Lemma B2R_C_1P4EPS : B2R C_1P4EPS = 1 + / 2 ^ 50.
Proof. unfold B2R, C_1P4EPS, F2R; simpl. lra. Qed.
Lemma B2R_C_DBL_MIN : B2R C_DBL_MIN = 2 ^ 53 * etaR.
Proof.
rewrite <- bpow_m1022_eta. unfold B2R, C_DBL_MIN, F2R, cond_Zopp, Fnum, Fexp.
change 4503599627370496%Z with (2 ^ 52)%Z. rewrite (IZR_Zpower radix2) by lia.
rewrite <- bpow_plus. reflexivity.
Qed.

(* the enlargement: a finite result bounds what went in *)
Lemma enlarge_sound (r md : b64) (rs M : R) :
  is_finite (enlarge r md) = true ->
  0 <= rs -> 0 <= M -> M <= B2R md ->
  (is_finite r = true -> 0 <= B2R r /\ B2R r >= rs * (1 - / 2 ^ 53) - etaR) ->
  is_finite md = true /\ rs + / 2 ^ 51 * M + 16 * etaR <= B2R (enlarge r md).
Proof.
intros F Hrs HM HMd Hr. unfold enlarge in *.
destruct (fmul_finite_inv _ _ F) as [F3 _].
destruct (fadd_finite_inv _ _ F3) as [F2 _].
destruct (fadd_finite_inv _ _ F2) as [Fr F1].
destruct (fmul_finite_inv _ _ F1) as [_ Fmd].
destruct (Hr Fr) as [Hr0 Hr1].
split; [exact Fmd|].
pose proof (fmul_correct_fin _ _ F) as E4. pose proof (fadd_correct_fin _ _ F3) as E3.
pose proof (fadd_correct_fin _ _ F2) as E2. pose proof (fmul_correct_fin _ _ F1) as E1.
rewrite B2R_C_4EPS in E1. rewrite B2R_C_DBL_MIN in E3. rewrite B2R_C_1P4EPS in E4.
set (t1 := B2R (fmul C_4EPS md)) in *.
set (t2 := B2R (fadd r (fmul C_4EPS md))) in *.
set (t3 := B2R (fadd (fadd r (fmul C_4EPS md)) C_DBL_MIN)) in *.
set (t4 := B2R (fmul (fadd (fadd r (fmul C_4EPS md)) C_DBL_MIN) C_1P4EPS)) in *.
assert (Hmd0 : 0 <= B2R md) by lra.
assert (P1 : 0 <= / 2 ^ 50 * B2R md) by (apply Rmult_le_pos; lra).
destruct (rndNE_lb _ P1) as [N1 L1]. rewrite <- E1 in N1, L1.
assert (P2 : 0 <= B2R r + t1) by lra.
destruct (rndNE_lb _ P2) as [N2 L2]. rewrite <- E2 in N2, L2.
pose proof etaR_pos as He.
assert (P3 : 0 <= t2 + 2 ^ 53 * etaR) by nra.
destruct (rndNE_lb _ P3) as [N3 L3]. rewrite <- E3 in N3, L3.
assert (P4 : 0 <= t3 * (1 + / 2 ^ 50)) by (apply Rmult_le_pos; lra).
destruct (rndNE_lb _ P4) as [N4 L4]. rewrite <- E4 in N4, L4.
apply (enlarge_chain rs (B2R r) (B2R md) M t1 t2 t3 t4 etaR); try assumption; lra.
Qed.

(* ---- error of one rounding (any mode) in terms of the RESULT: at most one ulp of the result *)
Lemma ulp_bound (a : R) : ulp radix2 fexp64 a <= Rabs a * / 2 ^ 52 + 2 * etaR.
Proof.
rewrite <- bpow_m52, <- bpow_m1074_eta.
destruct (Rle_or_lt (bpow radix2 (-1074 + 53 - 1)) (Rabs a)) as [H|H].
- pose proof (ulp_FLT_le radix2 (-1074) 53 a H) as U. change (1 - 53)%Z with (-52)%Z in U.
  pose proof (bpow_gt_0 radix2 (-1074)). lra.
- rewrite ulp_FLT_small.
  + pose proof (Rabs_pos a). pose proof (bpow_gt_0 radix2 (-52)). nra.
  + reflexivity.
  + apply Rlt_le_trans with (1 := H). apply bpow_le; lia.
Qed.

Lemma round_err_le (rnd : R -> Z) {Hr : Valid_rnd rnd} (x : R) :
  Rabs (round radix2 fexp64 rnd x - x) <= Rabs (round radix2 fexp64 rnd x) * / 2 ^ 52 + 2 * etaR.
Proof.
destruct (Req_dec x 0) as [Z|NZ].
- rewrite Z, round_0 by exact Hr. rewrite Rminus_0_r, Rabs_R0. pose proof etaR_pos; lra.
- apply Rle_trans with (2 := ulp_bound _). apply Rlt_le.
  apply error_lt_ulp_round; [apply FLT_exp_valid; reflexivity|apply FLT_exp_monotone|exact Hr|exact NZ].
Qed.

(* ---- mpf_get_d *)
Lemma IZR_lt_bpow_bitlen (m : Z) : m <> 0%Z -> IZR (Z.abs m) < bpow radix2 (bitlen m).
Proof.
intros Hm. unfold bitlen. destruct (Z.eqb_spec m 0) as [e|_]; [contradiction|].
assert (H0 : (0 < Z.abs m)%Z) by lia.
destruct (Z.log2_spec _ H0) as [_ H].
assert (0 <= Z.log2 (Z.abs m))%Z by apply Z.log2_nonneg.
rewrite <- (IZR_Zpower radix2) by lia. apply IZR_lt. simpl radix_val. lia.
Qed.

Lemma get_d_spec (m e : Z) :
  is_nan (get_d m e) = false /\
  (is_finite (get_d m e) = true -> B2R (get_d m e) = rndZR (IZR m * bpow radix2 e)).
Proof.
unfold get_d. destruct (Z.eqb_spec m 0) as [Hm|Hm].
- split; [reflexivity|]. intros _. rewrite Hm. simpl. rewrite Rmult_0_l, round_0; [reflexivity|apply valid_rnd_ZR].
- destruct (Z.gtb_spec (bitlen m + e) 1024) as [Ho|Ho].
  + split; [reflexivity|discriminate].
  + pose proof (binary_normalize_correct 53 1024 C16_Hprec53 C16_Hmax1024 mode_ZR m e false) as H.
    simpl round_mode in H. unfold F2R in H; simpl Fnum in H; simpl Fexp in H.
    rewrite Rlt_bool_true in H.
    * destruct H as (H1 & H2 & _).
      destruct (binary_normalize 53 1024 C16_Hprec53 C16_Hmax1024 mode_ZR m e false) as [s|s| |s mm ee Hb];
        try discriminate; (split; [reflexivity|intros _; exact H1]).
    * change (SpecFloat.fexp 53 1024) with fexp64. change (FLT_exp (3 - 1024 - 53) 53) with fexp64.
      rewrite <- round_ZR_abs by (apply FLT_exp_valid; reflexivity).
      rewrite round_ZR_DN by (try (apply FLT_exp_valid; reflexivity); apply Rabs_pos).
      apply Rle_lt_trans with (Rabs (IZR m * bpow radix2 e)).
      { apply (round_DN_pt radix2 fexp64 (Rabs (IZR m * bpow radix2 e))). }
      rewrite Rabs_mult, (Rabs_pos_eq (bpow radix2 e)) by apply bpow_ge_0.
      rewrite <- abs_IZR.
      apply Rlt_le_trans with (bpow radix2 (bitlen m) * bpow radix2 e).
      { apply Rmult_lt_compat_r; [apply bpow_gt_0|apply IZR_lt_bpow_bitlen; exact Hm]. }
      rewrite <- bpow_plus. apply bpow_le. lia.
Qed.

(* ---- rdpe_get_d / cdpe_get_x : ldexp (mantissa, rdpe_esp_as_int (exponent)) *)
Lemma rdpe_get_d_spec (e : rdpe) :
  rdpe_wf e ->
  is_nan (rdpe_get_d e) = false /\
  (is_finite (rdpe_get_d e) = true ->
     Rabs (B2R (rdpe_get_d e) - rdpeR e) <= Rabs (B2R (rdpe_get_d e)) * / 2 ^ 52 + 4 * etaR /\
     (0 <= B2R (fst e) -> 0 <= B2R (rdpe_get_d e) /\ B2R (rdpe_get_d e) >= rdpeR e * (1 - / 2 ^ 53) - etaR)).
Proof.
destruct e as [m l]. intros (Fm & Hlt & Hge). simpl fst in *. unfold rdpe_get_d, rdpeR. simpl fst; simpl snd.
split.
{ rewrite is_nan_Bldexp. destruct m; try discriminate; reflexivity. }
intros F.
pose proof etaR_pos as Heta.
generalize (Bldexp_correct 53 1024 C16_Hprec53 C16_Hmax1024 mode_NE m (esp_as_int l)).
destruct (Rlt_bool_spec (Rabs (round radix2 (SpecFloat.fexp 53 1024) (round_mode mode_NE) (B2R m * bpow radix2 (esp_as_int l)))) (bpow radix2 1024)) as [Hb|Hb].
2:{ intros H. exfalso. rewrite <- is_finite_SF_B2SF, H in F. discriminate. }
intros (E & _ & _). simpl round_mode in *. change (SpecFloat.fexp 53 1024) with fexp64 in *.
set (a := B2R (Bldexp mode_NE m (esp_as_int l))) in *.
unfold esp_as_int in *.
destruct (Z.gtb_spec l 4096) as [Hhi|Hhi].
- (* exponent above the clamp: only a zero mantissa gives a finite result *)
  destruct (Req_dec (B2R m) 0) as [Z|NZ].
  + rewrite Z, Rmult_0_l in E. rewrite round_0 in E by apply valid_rnd_N.
    rewrite E, Z, Rmult_0_l, Rminus_0_r, Rabs_R0. split; [lra|]. intros _; lra.
  + exfalso. specialize (Hge NZ).
    assert (G : bpow radix2 4095 <= Rabs (rndNE (B2R m * bpow radix2 4096))).
    { apply abs_round_ge_generic; [apply FLT_exp_valid; reflexivity|apply valid_rnd_N| |].
      - apply generic_format_bpow. unfold FLT_exp; lia.
      - rewrite Rabs_mult, (Rabs_pos_eq (bpow radix2 4096)) by apply bpow_ge_0.
        change 4096%Z with (1 + 4095)%Z. rewrite bpow_plus. simpl (bpow radix2 1).
        pose proof (bpow_gt_0 radix2 4095). nra. }
    assert (bpow radix2 1024 <= bpow radix2 4095) by (apply bpow_le; lia).
    lra.
- destruct (Z.ltb_spec l (-4096)) as [Hlo|Hlo].
  + (* exponent below the clamp: the result and the stored number are both below 2^-1074 *)
    assert (Hx : Rabs (B2R m * bpow radix2 l) <= etaR).
    { rewrite Rabs_mult, (Rabs_pos_eq (bpow radix2 l)) by apply bpow_ge_0.
      apply Rle_trans with (1 * bpow radix2 l).
      - apply Rmult_le_compat_r; [apply bpow_ge_0|lra].
      - rewrite Rmult_1_l. apply bpow_le; lia. }
    assert (Ha : Rabs a <= 2 * etaR).
    { rewrite E, <- bpow_m1074_eta.
      apply abs_round_le_generic; [apply FLT_exp_valid; reflexivity|apply valid_rnd_N| |].
      - apply generic_format_bpow. unfold FLT_exp; lia.
      - rewrite Rabs_mult, (Rabs_pos_eq (bpow radix2 (-4096))) by apply bpow_ge_0.
        apply Rle_trans with (1 * bpow radix2 (-4096)).
        + apply Rmult_le_compat_r; [apply bpow_ge_0|lra].
        + rewrite Rmult_1_l. apply bpow_le; lia. }
    split.
    * apply Rle_trans with (Rabs a + Rabs (B2R m * bpow radix2 l)).
      { replace (a - B2R m * bpow radix2 l) with (a + - (B2R m * bpow radix2 l)) by ring.
        rewrite <- (Rabs_Ropp (B2R m * bpow radix2 l)). apply Rabs_triang. }
      pose proof (Rabs_pos a). nra.
    * intros Hm0.
      assert (0 <= a).
      { rewrite E. apply round_ge_generic; [apply FLT_exp_valid; reflexivity|apply valid_rnd_N|apply generic_format_0|].
        apply Rmult_le_pos; [exact Hm0|apply bpow_ge_0]. }
      split; [assumption|].
      assert (0 <= B2R m * bpow radix2 l) by (apply Rmult_le_pos; [exact Hm0|apply bpow_ge_0]).
      rewrite Rabs_pos_eq in Hx by assumption. nra.
  + (* no clamp: one rounding of the stored number *)
    split.
    * rewrite E. apply Rle_trans with (1 := round_err_le ZnearestE _). lra.
    * intros Hm0.
      assert (P : 0 <= B2R m * bpow radix2 l) by (apply Rmult_le_pos; [exact Hm0|apply bpow_ge_0]).
      rewrite E. exact (rndNE_lb _ P).
Qed.

(* ---- cplx_mod: a finite result dominates both components (monotonicity of the roundings only) *)
Lemma B2R_fone : B2R fone = 1.
Proof. unfold B2R, fone, F2R; simpl; lra. Qed.

Lemma fsqrt_arg_ge1 (d : b64) :
  is_finite (fsqrt (fadd fone (fmul d d))) = true -> 1 <= B2R (fsqrt (fadd fone (fmul d d))).
Proof.
intros F.
destruct (Bsqrt_correct 53 1024 C16_Hprec53 C16_Hmax1024 mode_NE (fadd fone (fmul d d))) as (E & Ff & _).
assert (Fa : is_finite (fadd fone (fmul d d)) = true).
{ unfold fsqrt in F. rewrite Ff in F. destruct (fadd fone (fmul d d)) as [s|s| |s m e H]; try discriminate; reflexivity. }
destruct (fadd_finite_inv _ _ Fa) as [_ Fdd].
pose proof (fadd_correct_fin _ _ Fa) as Ea. pose proof (fmul_correct_fin _ _ Fdd) as Edd.
assert (V : Valid_exp fexp64) by (apply FLT_exp_valid; reflexivity).
assert (H0 : 0 <= B2R (fmul d d)).
{ rewrite Edd. apply round_ge_generic; [exact V|apply valid_rnd_N|apply generic_format_0|nra]. }
assert (G1 : generic_format radix2 fexp64 1).
{ rewrite <- B2R_fone. apply (generic_format_B2R 53 1024). }
assert (H1 : 1 <= B2R (fadd fone (fmul d d))).
{ rewrite Ea, B2R_fone. apply round_ge_generic; [exact V|apply valid_rnd_N|exact G1|lra]. }
unfold fsqrt. rewrite E. simpl round_mode.
apply round_ge_generic; [exact V|apply valid_rnd_N|exact G1|].
rewrite <- sqrt_1 at 1. apply sqrt_le_1_alt. exact H1.
Qed.

Lemma fmul_abs_ge (y s : b64) :
  is_finite (fmul (fabs y) s) = true -> 1 <= B2R s -> Rabs (B2R y) <= B2R (fmul (fabs y) s).
Proof.
intros F Hs. rewrite (fmul_correct_fin _ _ F). unfold fabs. rewrite B2R_Babs.
apply round_ge_generic; [apply FLT_exp_valid; reflexivity|apply valid_rnd_N| |].
- rewrite <- B2R_Babs. apply (generic_format_B2R 53 1024).
- pose proof (Rabs_pos (B2R y)). nra.
Qed.

Lemma cplx_mod_ge (x y : b64) :
  is_nan x = false -> is_nan y = false -> is_finite (cplx_mod (x, y)) = true ->
  is_finite x = true /\ is_finite y = true /\
  Rabs (B2R x) <= B2R (cplx_mod (x, y)) /\ Rabs (B2R y) <= B2R (cplx_mod (x, y)).
Proof.
intros Nx Ny. unfold cplx_mod.
destruct (fgt (fabs x) (fabs y)) eqn:G.
- (* |re| > |im| *)
  intros F. destruct (fmul_finite_inv _ _ F) as [Fx Fs]. unfold fabs in Fx. rewrite is_finite_Babs in Fx.
  assert (Fy : is_finite y = true).
  { destruct y as [sy|sy| |sy my ey Hy]; try reflexivity; try discriminate.
    exfalso. revert G. unfold fgt, fabs, Bcompare.
    destruct x as [sx|sx| |sx mx ex Hx]; simpl; discriminate. }
  pose proof (fmul_abs_ge x _ F (fsqrt_arg_ge1 _ Fs)) as Hx.
  repeat split; try assumption.
  apply Rle_trans with (2 := Hx).
  unfold fgt in G. rewrite Bcompare_correct in G by (unfold fabs; rewrite is_finite_Babs; assumption).
  unfold fabs in G. rewrite !B2R_Babs in G.
  destruct (Rcompare_spec (Rabs (B2R x)) (Rabs (B2R y))); try discriminate. lra.
- destruct (feq y fzero) eqn:Z.
  + (* im == 0 and not |re| > 0 *)
    intros _.
    assert (Hy : is_finite y = true /\ B2R y = 0).
    { revert Z. unfold feq, fzero, Bcompare. destruct y as [sy|sy| |sy my ey Hy]; simpl; try discriminate.
      - split; reflexivity.
      - destruct sy; discriminate.
      - destruct sy; discriminate. }
    destruct Hy as [Fy Hy].
    assert (Hx : is_finite x = true /\ B2R x = 0).
    { revert G. unfold fgt, fabs, Bcompare.
      destruct y as [sy|sy| |sy my ey Hy']; try discriminate.
      - destruct x as [sx|sx| |sx mx ex Hx]; simpl; try discriminate. split; reflexivity.
      - exfalso. revert Z. unfold feq, fzero, Bcompare. simpl. destruct sy; discriminate. }
    destruct Hx as [Fx Hx].
    rewrite Hx, Hy, Rabs_R0. simpl. repeat split; try assumption; lra.
  + (* |re| <= |im|, im != 0 *)
    intros F. destruct (fmul_finite_inv _ _ F) as [Fy Fs]. unfold fabs in Fy. rewrite is_finite_Babs in Fy.
    assert (Fx : is_finite x = true).
    { destruct x as [sx|sx| |sx mx ex Hx]; try reflexivity; try discriminate.
      exfalso. revert G. unfold fgt, fabs, Bcompare.
      destruct y as [sy|sy| |sy my ey Hy]; try discriminate; simpl; discriminate. }
    pose proof (fmul_abs_ge y _ F (fsqrt_arg_ge1 _ Fs)) as Hy.
    repeat split; try assumption.
    apply Rle_trans with (2 := Hy).
    unfold fgt in G. rewrite Bcompare_correct in G by (unfold fabs; rewrite is_finite_Babs; assumption).
    unfold fabs in G. rewrite !B2R_Babs in G.
    destruct (Rcompare_spec (Rabs (B2R x)) (Rabs (B2R y))); try discriminate; lra.
Qed.

(* ---- the double-precision pair handed out: premise of the rounding lemma (Access/AccessProps.v round_disc) *)
Definition acc_premise (zr zi rs ar ai ra : R) : Prop :=
  rs <= ra /\ (ar - zr) * (ar - zr) + (ai - zi) * (ai - zi) <= (ra - rs) * (ra - rs).

Lemma enlarge_finite_md (r md : b64) : is_finite (enlarge r md) = true -> is_finite md = true.
Proof.
intros F. unfold enlarge in F.
destruct (fmul_finite_inv _ _ F) as [F3 _]. destruct (fadd_finite_inv _ _ F3) as [F2 _].
destruct (fadd_finite_inv _ _ F2) as [_ F1]. exact (proj2 (fmul_finite_inv _ _ F1)).
Qed.

Lemma double_pair_ok (vr vi rd : b64) (xr xi rs : R) :
  is_nan vr = false -> is_nan vi = false ->
  (is_finite vr = true -> Rabs (B2R vr - xr) <= Rabs (B2R vr) * / 2 ^ 52 + 4 * etaR) ->
  (is_finite vi = true -> Rabs (B2R vi - xi) <= Rabs (B2R vi) * / 2 ^ 52 + 4 * etaR) ->
  0 <= rs ->
  (is_finite rd = true -> 0 <= B2R rd /\ B2R rd >= rs * (1 - / 2 ^ 53) - etaR) ->
  is_finite (enlarge rd (cplx_mod (vr, vi))) = true ->
  is_finite vr = true /\ is_finite vi = true /\ 0 < B2R (enlarge rd (cplx_mod (vr, vi))) /\
  acc_premise xr xi rs (B2R vr) (B2R vi) (B2R (enlarge rd (cplx_mod (vr, vi)))).
Proof.
intros Nr Ni Er Ei Hrs Hrd F.
pose proof (enlarge_finite_md _ _ F) as Fmd.
destruct (cplx_mod_ge vr vi Nr Ni Fmd) as (Fr & Fi & Mr & Mi).
specialize (Er Fr). specialize (Ei Fi).
set (md := cplx_mod (vr, vi)) in *.
set (M := Rmax (Rabs (B2R vr)) (Rabs (B2R vi))).
assert (HM0 : 0 <= M) by (apply Rle_trans with (2 := Rmax_l _ _); apply Rabs_pos).
assert (HMd : M <= B2R md) by (apply Rmax_lub; assumption).
destruct (enlarge_sound rd md rs M F Hrs HM0 HMd Hrd) as [_ L].
set (ra := B2R (enlarge rd md)) in *.
pose proof etaR_pos as He.
pose proof (Rmax_l (Rabs (B2R vr)) (Rabs (B2R vi))) as Ml. pose proof (Rmax_r (Rabs (B2R vr)) (Rabs (B2R vi))) as Mr'.
fold M in Ml, Mr'.
repeat split; try assumption; try lra.
set (a := Rabs (B2R vr - xr)) in *. set (b := Rabs (B2R vi - xi)) in *.
assert (Ha : 0 <= a) by apply Rabs_pos. assert (Hb : 0 <= b) by apply Rabs_pos.
assert (Sa : (B2R vr - xr) * (B2R vr - xr) = a * a).
{ unfold a. fold (Rsqr (B2R vr - xr)). rewrite (Rsqr_abs (B2R vr - xr)). reflexivity. }
assert (Sb : (B2R vi - xi) * (B2R vi - xi) = b * b).
{ unfold b. fold (Rsqr (B2R vi - xi)). rewrite (Rsqr_abs (B2R vi - xi)). reflexivity. }
rewrite Sa, Sb.
assert (Hab : a + b <= ra - rs).
{ assert (Rabs (B2R vr) * / 2 ^ 52 <= M * / 2 ^ 52) by (apply Rmult_le_compat_r; lra).
  assert (Rabs (B2R vi) * / 2 ^ 52 <= M * / 2 ^ 52) by (apply Rmult_le_compat_r; lra).
  lra. }
nra.
Qed.

(* the stored pair of each phase *)
Definition stored_re (ph : phase) (a : approx) : R :=
  match ph with PhFloat => B2R (fst (a_fvalue a)) | PhDpe => rdpeR (fst (a_dvalue a)) | PhMp => mpfR (fst (a_mvalue a)) end.
Definition stored_im (ph : phase) (a : approx) : R :=
  match ph with PhFloat => B2R (snd (a_fvalue a)) | PhDpe => rdpeR (snd (a_dvalue a)) | PhMp => mpfR (snd (a_mvalue a)) end.
Definition stored_rad (ph : phase) (a : approx) : R :=
  match ph with PhFloat => B2R (a_frad a) | _ => rdpeR (a_drad a) end.
(* well-formed radius: a normalised non-negative DPE number; well-formed DPE value: normalised components *)
Definition rad_wf (e : rdpe) : Prop := rdpe_wf e /\ 0 <= B2R (fst e).
Definition state_wf (ph : phase) (a : approx) : Prop :=
  match ph with
  | PhFloat => True
  | PhDpe => rdpe_wf (fst (a_dvalue a)) /\ rdpe_wf (snd (a_dvalue a)) /\ rad_wf (a_drad a)
  | PhMp => rad_wf (a_drad a)
  end.

Lemma rad_wf_facts (e : rdpe) :
  rad_wf e -> 0 <= rdpeR e /\
  (is_finite (rdpe_get_d e) = true -> 0 <= B2R (rdpe_get_d e) /\ B2R (rdpe_get_d e) >= rdpeR e * (1 - / 2 ^ 53) - etaR).
Proof.
intros [W P]. split.
- unfold rdpeR. apply Rmult_le_pos; [exact P|apply bpow_ge_0].
- intros F. exact (proj2 (proj2 (rdpe_get_d_spec e W) F) P).
Qed.

Lemma mpf_get_d_err (f : mpf) :
  is_nan (mpf_get_d f) = false /\
  (is_finite (mpf_get_d f) = true -> Rabs (B2R (mpf_get_d f) - mpfR f) <= Rabs (B2R (mpf_get_d f)) * / 2 ^ 52 + 4 * etaR).
Proof.
unfold mpf_get_d, mpfR. destruct (get_d_spec (mp_man f) (64 * mp_exp f)) as [N E].
split; [exact N|]. intros F. rewrite (E F).
apply Rle_trans with (1 := round_err_le Ztrunc _). pose proof etaR_pos. lra.
Qed.

(* the multiprecision pair rounded to double: used by get_roots_d (mp phase) and by get_approximations (fvalue, frad) *)
Lemma mp_pair_ok (m : mpc) (drad : rdpe) :
  rad_wf drad ->
  let v := mpc_get_cplx m in
  let r := enlarge (rdpe_get_d drad) (cplx_mod v) in
  is_finite r = true ->
  is_finite (fst v) = true /\ is_finite (snd v) = true /\ 0 < B2R r /\
  acc_premise (mpfR (fst m)) (mpfR (snd m)) (rdpeR drad) (B2R (fst v)) (B2R (snd v)) (B2R r).
Proof.
intros W v r F. destruct (rad_wf_facts drad W) as [R0 R1].
destruct (mpf_get_d_err (fst m)) as [N1 E1]. destruct (mpf_get_d_err (snd m)) as [N2 E2].
exact (double_pair_ok _ _ _ _ _ _ N1 N2 E1 E2 R0 R1 F).
Qed.

(* THEOREM (mps_context_get_roots_d as coded, every stored state, every phase).
   float phase: the stored pair itself is handed out.  dpe / mp phase: whenever the radius handed out is finite, the value
   handed out is finite, the radius is positive (never 0) and |value - stored value| + stored radius <= radius. *)
Theorem get_roots_d_inclusion (ph : phase) (a : approx) :
  state_wf ph a ->
  let v := get_roots_d_value ph a in
  let r := get_roots_d_radius ph a in
  match ph with
  | PhFloat => v = a_fvalue a /\ r = a_frad a
  | _ => is_finite r = true ->
         is_finite (fst v) = true /\ is_finite (snd v) = true /\ 0 < B2R r /\
         acc_premise (stored_re ph a) (stored_im ph a) (stored_rad ph a) (B2R (fst v)) (B2R (snd v)) (B2R r)
  end.
Proof.
destruct ph; simpl.
- intros _; split; reflexivity.
- intros (W1 & W2 & W3) F. unfold get_roots_d_radius, get_roots_d_value in F.
  destruct (rad_wf_facts _ W3) as [R0 R1].
  destruct (rdpe_get_d_spec _ W1) as [N1 E1]. destruct (rdpe_get_d_spec _ W2) as [N2 E2].
  unfold cdpe_get_x in *.
  exact (double_pair_ok _ _ _ _ _ _ N1 N2 (fun f => proj1 (E1 f)) (fun f => proj1 (E2 f)) R0 R1 F).
- intros W F. exact (mp_pair_ok (a_mvalue a) (a_drad a) W F).
Qed.

(* ================================================================== mps_context_get_approximations / mps_approximation_copy *)
(* which field is copied how: the multiprecision value exactly at the stored precision (whatever s->mpwp is), the radii and
   bookkeeping fields as they are; `again` is not copied (mps_approximation_new sets it) *)
Theorem approximation_copy_fields (mpwp : Z) (a : approx) :
  mpc_wf (a_mvalue a) ->
  let c := approximation_copy mpwp a in
  a_mvalue c = a_mvalue a /\ a_drad c = a_drad a /\ a_frad c = a_frad a /\ a_fvalue c = a_fvalue a /\
  a_dvalue c = a_dvalue a /\ a_wp c = a_wp a /\ a_status c = a_status a /\ a_attrs c = a_attrs a /\ a_incl c = a_incl a /\
  a_again c = true.
Proof.
intros W; simpl. rewrite (get_mvalue_into_exact _ _ W). repeat split; reflexivity.
Qed.

(* THEOREM (mps_context_get_approximations as coded, any phase, state after mps_copy_roots).
   (mvalue, drad) is the stored multiprecision pair, bit for bit; (fvalue, frad) satisfies the premise of the rounding lemma
   with respect to it whenever frad is finite, and frad is never 0. *)
Theorem get_approximation_inclusion (mpwp : Z) (a : approx) :
  mpc_wf (a_mvalue a) -> rad_wf (a_drad a) ->
  let g := get_approximation mpwp a in
  a_mvalue g = a_mvalue a /\ a_drad g = a_drad a /\
  (is_finite (a_frad g) = true ->
     is_finite (fst (a_fvalue g)) = true /\ is_finite (snd (a_fvalue g)) = true /\ 0 < B2R (a_frad g) /\
     acc_premise (mpfR (fst (a_mvalue a))) (mpfR (snd (a_mvalue a))) (rdpeR (a_drad a))
                 (B2R (fst (a_fvalue g))) (B2R (snd (a_fvalue g))) (B2R (a_frad g))).
Proof.
intros W R.
assert (E : a_mvalue (approximation_copy mpwp a) = a_mvalue a) by exact (proj1 (approximation_copy_fields mpwp a W)).
assert (Ed : a_drad (approximation_copy mpwp a) = a_drad a) by reflexivity.
unfold get_approximation. cbv zeta. cbn [a_mvalue a_drad a_fvalue a_frad]. rewrite E, Ed.
split; [reflexivity|split; [reflexivity|]].
intros F. exact (mp_pair_ok (a_mvalue a) (a_drad a) R F).
Qed.

(* ================================================================== Part D: (dvalue, drad) of get_approximations *)
(* dvalue = mpc_get_cdpe (mvalue) keeps 53 bits of each component but is handed out with the multiprecision radius drad:
   a well-formed state whose (dvalue, drad) is not an inclusion of the stored pair.  mvalue = 2^64 + 1 (two limbs, 128 bits
   of precision), drad = 0: dvalue = 2^64. *)
Definition dvalue_witness : approx :=
  MkApprox (fzero, fzero) ((fzero, 0%Z), (fzero, 0%Z)) (MkMpf 3 (2 ^ 64 + 1) 0, MkMpf 3 0 0) fzero (fzero, 0%Z) 128 0 0 0 true.

Lemma dvalue_witness_computed :
  let g := get_approximation 128 dvalue_witness in
  B2SF (fst (fst (a_dvalue g))) = SpecFloat.S754_finite false 4503599627370496 (-53) /\ snd (fst (a_dvalue g)) = 65%Z /\
  a_drad g = (fzero, 0%Z).
Proof. vm_compute. repeat split; reflexivity. Qed.

Theorem get_approximation_dvalue_refuted :
  exists a : approx,
    mpc_wf (a_mvalue a) /\ rad_wf (a_drad a) /\
    let g := get_approximation 128 a in
    ~ acc_premise (mpfR (fst (a_mvalue a))) (mpfR (snd (a_mvalue a))) (rdpeR (a_drad a))
                  (rdpeR (fst (a_dvalue g))) (rdpeR (snd (a_dvalue g))) (rdpeR (a_drad g)).
Proof.
exists dvalue_witness. split; [|split].
- unfold mpc_wf, mpf_wf, dvalue_witness; simpl. repeat split; try lia; vm_compute; discriminate.
- unfold rad_wf, rdpe_wf, dvalue_witness; simpl. rewrite Rabs_R0. repeat split; try lra.
- destruct dvalue_witness_computed as (E1 & E2 & E3).
  cbv zeta in *.
  set (g := get_approximation 128 dvalue_witness) in *.
  assert (Dre : rdpeR (fst (a_dvalue g)) = 2 ^ 64).
  { unfold rdpeR. rewrite E2, <- (SF2R_B2SF 53 1024), E1.
    unfold SF2R, F2R, cond_Zopp, Fnum, Fexp.
    change 65%Z with (1 + 64)%Z. rewrite bpow_plus. simpl (bpow radix2 1). simpl (bpow radix2 (-53)).
    change 64%Z with (Z.of_nat 64). rewrite <- (IZR_Zpower_nat radix2). simpl. lra. }
  assert (Mre : mpfR (fst (a_mvalue dvalue_witness)) = 2 ^ 64 + 1).
  { unfold mpfR, dvalue_witness; simpl. lra. }
  assert (Rg : rdpeR (a_drad g) = 0) by (rewrite E3; unfold rdpeR; simpl; lra).
  assert (Rs : rdpeR (a_drad dvalue_witness) = 0) by (unfold rdpeR, dvalue_witness; simpl; lra).
  unfold acc_premise. rewrite Dre, Mre, Rg, Rs. intros [_ H].
  set (t := rdpeR (snd (a_dvalue g)) - mpfR (snd (a_mvalue dvalue_witness))) in *.
  nra.
Qed.

(* ================================================================== end to end: mps_copy_roots, then the accessors *)
Definition phase_ok (ph : phase) (a : approx) : Prop :=
  match ph with
  | PhFloat => is_finite (fst (a_fvalue a)) = true /\ is_finite (snd (a_fvalue a)) = true /\ is_finite (a_frad a) = true /\ 0 <= B2R (a_frad a)
  | PhDpe => rdpe_wf (fst (a_dvalue a)) /\ rdpe_wf (snd (a_dvalue a)) /\ rad_wf (a_drad a)
  | PhMp => mpc_wf (a_mvalue a) /\ rad_wf (a_drad a)
  end.

Lemma copy_roots_pair (ph : phase) (a : approx) :
  phase_ok ph a ->
  let st := copy_roots ph a in
  mpc_wf (a_mvalue st) /\ rad_wf (a_drad st) /\
  mpfR (fst (a_mvalue st)) = stored_re ph a /\ mpfR (snd (a_mvalue st)) = stored_im ph a /\ rdpeR (a_drad st) = stored_rad ph a /\
  stored_re ph st = stored_re ph a /\ stored_im ph st = stored_im ph a /\ stored_rad ph st = stored_rad ph a /\ state_wf ph st.
Proof.
destruct ph.
- intros (F1 & F2 & F3 & P).
  destruct (copy_roots_float a F1 F2 F3) as (A1 & A2 & A3 & A4 & A5 & A6 & A7).
  cbv zeta in *. unfold stored_re, stored_im, stored_rad, state_wf. rewrite A6, A7.
  assert (P0 : 0 <= B2R (fst (a_drad (copy_roots PhFloat a)))).
  { unfold rdpeR in A3.
    destruct (Rle_or_lt 0 (B2R (fst (a_drad (copy_roots PhFloat a))))) as [H|H]; [exact H|].
    exfalso. pose proof (bpow_gt_0 radix2 (snd (a_drad (copy_roots PhFloat a)))). nra. }
  destruct A4 as (A41 & A42 & A43). destruct A5 as (A51 & A52 & A53).
  unfold rad_wf, rdpe_wf, mpc_wf. repeat split; try assumption; try apply A51; try apply A52.
- intros (W1 & W2 & W3).
  destruct (copy_roots_dpe a (proj1 W1) (proj1 W2)) as (A1 & A2 & A3 & A4 & A5).
  cbv zeta in *. unfold stored_re, stored_im, stored_rad, state_wf. rewrite A3, A5.
  destruct A4 as (A41 & A42 & A43).
  repeat split; try assumption; try (apply W1); try (apply W2); try (apply W3); try apply A41; try apply A42.
- intros (W & R). simpl. repeat split; try assumption; try apply W; try apply R.
Qed.

(* THEOREM: for every phase and every stored pair of that phase, after mps_copy_roots
   - mps_context_get_roots_m (any caller storage) hands out exactly the stored pair;
   - mps_context_get_roots_d hands out the stored pair (float) or a pair satisfying the premise of the rounding lemma;
   - mps_context_get_approximations hands out (mvalue, drad) = the stored pair and (fvalue, frad) satisfying the premise. *)
Theorem accessors_after_copy_roots (ph : phase) (a : approx) (caller : option mpc) (mpwp : Z) :
  phase_ok ph a ->
  let st := copy_roots ph a in
  let m := get_roots_m st caller in
  let g := get_approximation mpwp st in
  (mpfR (fst (fst m)) = stored_re ph a /\ mpfR (snd (fst m)) = stored_im ph a /\ rdpeR (snd m) = stored_rad ph a) /\
  (mpfR (fst (a_mvalue g)) = stored_re ph a /\ mpfR (snd (a_mvalue g)) = stored_im ph a /\ rdpeR (a_drad g) = stored_rad ph a) /\
  (is_finite (a_frad g) = true ->
     is_finite (fst (a_fvalue g)) = true /\ is_finite (snd (a_fvalue g)) = true /\ 0 < B2R (a_frad g) /\
     acc_premise (stored_re ph a) (stored_im ph a) (stored_rad ph a) (B2R (fst (a_fvalue g))) (B2R (snd (a_fvalue g))) (B2R (a_frad g))) /\
  (is_finite (get_roots_d_radius ph st) = true ->
     is_finite (fst (get_roots_d_value ph st)) = true /\ is_finite (snd (get_roots_d_value ph st)) = true /\
     (ph <> PhFloat -> 0 < B2R (get_roots_d_radius ph st)) /\
     acc_premise (stored_re ph a) (stored_im ph a) (stored_rad ph a)
                 (B2R (fst (get_roots_d_value ph st))) (B2R (snd (get_roots_d_value ph st))) (B2R (get_roots_d_radius ph st))).
Proof.
intros OK. destruct (copy_roots_pair ph a OK) as (W & R & E1 & E2 & E3 & S1 & S2 & S3 & SW).
cbv zeta in *. set (st := copy_roots ph a) in *.
destruct (get_approximation_inclusion mpwp st W R) as (G1 & G2 & G3). cbv zeta in *.
split; [|split; [|split]].
- unfold get_roots_m. rewrite (get_mvalue_into_exact _ _ W). simpl. auto.
- rewrite G1, G2. auto.
- intros F. rewrite <- E1, <- E2, <- E3. exact (G3 F).
- intros F. pose proof (get_roots_d_inclusion ph st SW) as H. cbv zeta in H.
  rewrite <- S1, <- S2, <- S3.
  destruct ph.
  + destruct H as [Hv Hr]. rewrite Hv, Hr in *.
    assert (OKf := OK). destruct OKf as (F1 & F2 & F3 & P).
    assert (Ef : a_fvalue st = a_fvalue a) by reflexivity. assert (Er : a_frad st = a_frad a) by reflexivity.
    rewrite Ef, Er. unfold stored_re, stored_im, stored_rad. rewrite Ef, Er.
    repeat split; try assumption; try (intros C; now elim C); try lra; try nra.
  + destruct (H F) as (A & B & C & D). split; [exact A|split; [exact B|split; [intros _; exact C|exact D]]].
  + destruct (H F) as (A & B & C & D). split; [exact A|split; [exact B|split; [intros _; exact C|exact D]]].
Qed.
