(* C16 -- the accessors AS CODED, executable model (Flocq BinarySingleNaN binary64, GMP mpf as limb-aligned integers).
   Definitions only; theorems in Access/AccessCodedProps.v, statements in Props/Properties_C16.v.

   Anchors (/repo):
     src/libmps/common/context.c        mps_context_get_roots_d, mps_context_get_roots_m, mps_context_get_approximations
     src/libmps/common/approximation.c  mps_approximation_new/_copy, mps_approximation_get_{fvalue,dvalue,mvalue,frad,drad,...}
     src/libmps/system/input-output.c   mps_copy_roots
     src/libmps/system/data.c           mps_restore_data -> mps_raise_data_raw (mpc_set_prec_raw to data_prec_max)
     src/libmps/floating-point/mpc.c    mpc_init2, mpc_set_prec, mpc_get_prec, mpc_set_prec_raw, mpc_set
     src/libmps/floating-point/link.c   mpc_get_cplx, mpc_get_cdpe (mpf_get_rdpe), mpc_set_cplx, mpc_set_cdpe (mpf_set_rdpe)
     src/libmps/floating-point/mt.c     rdpe_Norm (frexp), rdpe_set_d, rdpe_get_d and cdpe_get_x (ldexp with rdpe_esp_as_int)

   GMP (not part of /repo; its documented behaviour is modelled and tied on every run):
     an mpf is (_mp_prec = P limbs, _mp_size = +-n, _mp_exp, n limbs); here  mp_man = +-(the n-limb integer),
     mp_exp = _mp_exp - n (exponent of the lowest limb, in limbs), value = mp_man * 2^(64 * mp_exp).
     mpf_set_prec x b : P' = (max 53 b + 127) / 64; nothing if P' = P, else keep the P'+1 most significant limbs.
     mpf_get_prec x   : 64 P - 64.       mpf_set_prec_raw x b : P := (max 53 b + 127) / 64, nothing else.
     mpf_set r u      : the P_r+1 most significant limbs of u (truncation toward zero).
     mpf_get_d x      : truncation toward zero to binary64 (denormals by truncation, +-inf from 2^1024 on).
     mpf_set_d; mpf_mul_2exp / mpf_div_2exp on a 2-limb operand at P >= 2 : exact.
   libm: frexp, ldexp (one rounding to nearest even when the result is subnormal, +-inf on overflow).
   cplx_mod is mt.c's own function (the struct version of cplx_t, the one include/mps/mt.h always selects: `#if 1 == 1`):
   division, multiplication, addition, sqrt, each one correctly rounded binary64 operation (gcc, SSE2, -ffp-contract=off). *)
From Coq Require Import ZArith Bool.
From Flocq Require Import Core BinarySingleNaN.
From Flocq Require Binary Bits.
Open Scope Z_scope.

Definition b64 := binary_float 53 1024.
Global Instance C16_Hprec53 : Prec_gt_0 53 := eq_refl.
Global Instance C16_Hmax1024 : Prec_lt_emax 53 1024 := eq_refl.

Definition fadd : b64 -> b64 -> b64 := Bplus mode_NE.
Definition fmul : b64 -> b64 -> b64 := Bmult mode_NE.
Definition fdiv : b64 -> b64 -> b64 := Bdiv mode_NE.
Definition fsqrt : b64 -> b64 := Bsqrt mode_NE.
Definition fabs : b64 -> b64 := @Babs 53 1024.
Definition fgt (x y : b64) : bool := match Bcompare x y with Some Gt => true | _ => false end.
Definition feq (x y : b64) : bool := match Bcompare x y with Some Eq => true | _ => false end.
Definition fzero : b64 := B754_zero false.
Definition fone : b64 := @B754_finite 53 1024 false 4503599627370496 (-52) eq_refl.
Definition C_4EPS : b64 := @B754_finite 53 1024 false 4503599627370496 (-102) eq_refl.      (* 4 * DBL_EPSILON = 2^-50 *)
Definition C_1P4EPS : b64 := @B754_finite 53 1024 false 4503599627370500 (-52) eq_refl.     (* 1 + 4 * DBL_EPSILON *)
Definition C_DBL_MIN : b64 := @B754_finite 53 1024 false 4503599627370496 (-1074) eq_refl.  (* 2^-1022 *)

(* ---------------- GMP mpf ---------------- *)
Record mpf := MkMpf { mp_prec : Z; mp_man : Z; mp_exp : Z }.

Definition limbs (m : Z) : Z := if m =? 0 then 0 else Z.log2 (Z.abs m) / 64 + 1.
Definition bits_to_prec (n : Z) : Z := (Z.max 53 n + 127) / 64.
Definition prec_to_bits (p : Z) : Z := 64 * p - 64.

(* keep the k most significant limbs (sign and magnitude: truncation toward zero), new precision field P *)
Definition keep_limbs (k P : Z) (f : mpf) : mpf :=
  let n := limbs (mp_man f) in
  if n >? k then MkMpf P (Z.quot (mp_man f) (Z.shiftl 1 (64 * (n - k)))) (mp_exp f + (n - k))
  else MkMpf P (mp_man f) (mp_exp f).

Definition mpf_set_prec (f : mpf) (bits : Z) : mpf :=
  let P := bits_to_prec bits in
  if P =? mp_prec f then f else keep_limbs (P + 1) P f.
Definition mpf_get_prec (f : mpf) : Z := prec_to_bits (mp_prec f).
Definition mpf_set_prec_raw (f : mpf) (bits : Z) : mpf := MkMpf (bits_to_prec bits) (mp_man f) (mp_exp f).
Definition mpf_set (r u : mpf) : mpf := keep_limbs (mp_prec r + 1) (mp_prec r) u.
Definition mpf_init2 (bits : Z) : mpf := MkMpf (bits_to_prec bits) 0 0.

Definition bitlen (m : Z) : Z := if m =? 0 then 0 else Z.log2 (Z.abs m) + 1.
(* truncation of m * 2^e to binary64 as mpn_get_d does it *)
Definition get_d (m e : Z) : b64 :=
  if m =? 0 then fzero
  else if bitlen m + e >? 1024 then B754_infinity (m <? 0)
  else match binary_normalize 53 1024 C16_Hprec53 C16_Hmax1024 mode_ZR m e false with
       | B754_zero _ => fzero                 (* mpn_get_d: `return 0.0` below the denormals, whatever the sign *)
       | x => x
       end.
Definition mpf_get_d (f : mpf) : b64 := get_d (mp_man f) (64 * mp_exp f).

(* exact conversion of the dyadic +-m * 2^e (m < 2^53) : mpf_set_d followed by mpf_mul_2exp / mpf_div_2exp *)
Definition mpf_of_dyadic (P : Z) (s : bool) (m : positive) (e : Z) : mpf :=
  keep_limbs (P + 1) P (MkMpf P (cond_Zopp s (Z.shiftl (Zpos m) (e mod 64))) (e / 64)).
Definition mpf_set_d_2exp (r : mpf) (d : b64) (l : Z) : mpf :=
  match d with
  | B754_finite s m e _ => mpf_of_dyadic (mp_prec r) s m (e + l)
  | _ => MkMpf (mp_prec r) 0 0                       (* +-0; inf / nan abort in GMP: outside the model *)
  end.

(* ---------------- mpc ---------------- *)
Definition mpc := (mpf * mpf)%type.
Definition fix_prec (bits : Z) : Z := if bits <=? 2 then 53 else bits.
Definition mpc_init2 (bits : Z) : mpc := (mpf_init2 (fix_prec bits), mpf_init2 (fix_prec bits)).
Definition mpc_set_prec (c : mpc) (bits : Z) : mpc := (mpf_set_prec (fst c) (fix_prec bits), mpf_set_prec (snd c) (fix_prec bits)).
Definition mpc_get_prec (c : mpc) : Z := mpf_get_prec (fst c).
Definition mpc_set_prec_raw (c : mpc) (bits : Z) : mpc := (mpf_set_prec_raw (fst c) bits, mpf_set_prec_raw (snd c) bits).
Definition mpc_set (r c : mpc) : mpc := (mpf_set (fst r) (fst c), mpf_set (snd r) (snd c)).

(* ---------------- DPE ---------------- *)
Definition rdpe := (b64 * Z)%type.          (* rdpe_Mnt, rdpe_Esp *)
Definition cdpe := (rdpe * rdpe)%type.
Definition cplx := (b64 * b64)%type.

(* rdpe_Norm after Mnt := d, Esp := l  (exponents far from LONG_MIN/LONG_MAX: no saturation) *)
Definition rdpe_norm (d : b64) (l : Z) : rdpe :=
  match d with
  | B754_finite _ _ _ _ => let (m, i) := Bfrexp d in (m, l + i)
  | B754_zero _ => (d, 0)
  | _ => (d, l)
  end.
Definition rdpe_set_d (d : b64) : rdpe := rdpe_norm d 0.
Definition esp_as_int (l : Z) : Z := if l >? 4096 then 4096 else if l <? -4096 then -4096 else l.
Definition rdpe_get_d (e : rdpe) : b64 := Bldexp mode_NE (fst e) (esp_as_int (snd e)).
Definition cdpe_get_x (c : cdpe) : cplx := (rdpe_get_d (fst c), rdpe_get_d (snd c)).

(* link.c *)
Definition mpf_get_rdpe (f : mpf) : rdpe :=
  let n := limbs (mp_man f) in
  rdpe_norm (get_d (mp_man f) (64 * (- n))) ((mp_exp f + n) * 64).
Definition mpf_set_rdpe (r : mpf) (e : rdpe) : mpf := mpf_set_d_2exp r (fst e) (snd e).
Definition mpc_get_cplx (c : mpc) : cplx := (mpf_get_d (fst c), mpf_get_d (snd c)).
Definition mpc_get_cdpe (c : mpc) : cdpe := (mpf_get_rdpe (fst c), mpf_get_rdpe (snd c)).
Definition mpc_set_cplx (r : mpc) (x : cplx) : mpc := (mpf_set_d_2exp (fst r) (fst x) 0, mpf_set_d_2exp (snd r) (snd x) 0).
Definition mpc_set_cdpe (r : mpc) (c : cdpe) : mpc := (mpf_set_rdpe (fst r) (fst c), mpf_set_rdpe (snd r) (snd c)).

(* mt.c  cplx_mod:
     if (fabs (Re x) > fabs (Im x)) { d = Im x / Re x; return fabs (Re x) * sqrt (1.0 + d * d); }
     else if (Im x == 0.0) return 0.0;
     d = Re x / Im x;  return fabs (Im x) * sqrt (1.0 + d * d); *)
Definition cplx_mod (x : cplx) : b64 :=
  let (re, im) := x in
  if fgt (fabs re) (fabs im) then
    let d := fdiv im re in fmul (fabs re) (fsqrt (fadd fone (fmul d d)))
  else if feq im fzero then fzero
  else let d := fdiv re im in fmul (fabs im) (fsqrt (fadd fone (fmul d d))).

(* ---------------- approximations and the context ---------------- *)
Inductive phase := PhFloat | PhDpe | PhMp.

Record approx := MkApprox {
  a_fvalue : cplx; a_dvalue : cdpe; a_mvalue : mpc; a_frad : b64; a_drad : rdpe;
  a_wp : Z; a_status : Z; a_attrs : Z; a_incl : Z; a_again : bool }.

Definition with_mvalue (a : approx) (m : mpc) : approx :=
  MkApprox (a_fvalue a) (a_dvalue a) m (a_frad a) (a_drad a) (a_wp a) (a_status a) (a_attrs a) (a_incl a) (a_again a).

(* data.c  mps_restore_data (monomial polynomial): mpc_set_prec_raw to data_prec_max unless that is 0 *)
Definition restore_data (dpm : Z) (a : approx) : approx :=
  if dpm =? 0 then a else with_mvalue a (mpc_set_prec_raw (a_mvalue a) dpm).

(* input-output.c  mps_copy_roots, one root *)
Definition copy_roots (ph : phase) (a : approx) : approx :=
  match ph with
  | PhFloat => MkApprox (a_fvalue a) (a_dvalue a) (mpc_set_cplx (mpc_set_prec (a_mvalue a) 53) (a_fvalue a))
                        (a_frad a) (rdpe_set_d (a_frad a)) (a_wp a) (a_status a) (a_attrs a) (a_incl a) (a_again a)
  | PhDpe => with_mvalue a (mpc_set_cdpe (mpc_set_prec (a_mvalue a) 53) (a_dvalue a))
  | PhMp => a
  end.

(* (r + 4 * DBL_EPSILON * md + DBL_MIN) * (1 + 4 * DBL_EPSILON), each operation rounded to nearest *)
Definition enlarge (r md : b64) : b64 := fmul (fadd (fadd r (fmul C_4EPS md)) C_DBL_MIN) C_1P4EPS.

(* context.c  mps_context_get_roots_d, one root *)
Definition get_roots_d_value (ph : phase) (a : approx) : cplx :=
  match ph with
  | PhMp => mpc_get_cplx (a_mvalue a)
  | PhFloat => a_fvalue a
  | PhDpe => cdpe_get_x (a_dvalue a)
  end.
Definition get_roots_d_radius (ph : phase) (a : approx) : b64 :=
  match ph with
  | PhFloat => a_frad a
  | _ => enlarge (rdpe_get_d (a_drad a)) (cplx_mod (get_roots_d_value ph a))
  end.

(* context.c  mps_context_get_roots_m, one root; out = the caller's variable (mpc_init2 (.., 0) when the library allocates) *)
Definition get_mvalue_into (out : mpc) (m : mpc) : mpc := mpc_set (mpc_set_prec out (mpc_get_prec m)) m.
Definition get_roots_m (a : approx) (caller : option mpc) : mpc * rdpe :=
  let out := match caller with Some c => c | None => mpc_init2 0 end in
  (get_mvalue_into out (a_mvalue a), a_drad a).

(* approximation.c *)
Definition approximation_copy (mpwp : Z) (a : approx) : approx :=
  MkApprox (a_fvalue a) (a_dvalue a) (get_mvalue_into (mpc_init2 mpwp) (a_mvalue a)) (a_frad a) (a_drad a)
           (a_wp a) (a_status a) (a_attrs a) (a_incl a) true.
(* context.c  mps_context_get_approximations, one root *)
Definition get_approximation (mpwp : Z) (a : approx) : approx :=
  let c := approximation_copy mpwp a in
  let fv := mpc_get_cplx (a_mvalue c) in
  MkApprox fv (mpc_get_cdpe (a_mvalue c)) (a_mvalue c) (enlarge (rdpe_get_d (a_drad c)) (cplx_mod fv)) (a_drad c)
           (a_wp c) (a_status c) (a_attrs c) (a_incl c) (a_again c).
Definition approximation_get_mvalue (a : approx) (out : mpc) : mpc := get_mvalue_into out (a_mvalue a).

(* ---------------- bit patterns (exchange format of the tie) ---------------- *)
Definition of_bits (z : Z) : b64 := Binary.B2BSN 53 1024 (Bits.b64_of_bits z).
Definition to_bits (x : b64) : Z :=
  match x with
  | B754_nan => 9221120237041090560
  | B754_zero s => if s then 9223372036854775808 else 0
  | B754_infinity s => if s then 18442240474082181120 else 9218868437227405312
  | B754_finite s m e _ =>
      Bits.bits_of_b64 (Binary.BSN2B 53 1024 (exist _ (Binary.B754_nan 53 1024 false 1 eq_refl) eq_refl) x)
  end.

(* one case of the tie: everything every accessor hands out for one stored approximation *)
Record outputs := MkOut {
  o_stored : approx;                (* after mps_restore_data (if asked) and mps_copy_roots *)
  o_d : cplx * b64;                 (* mps_context_get_roots_d *)
  o_m0 : mpc * rdpe;                (* mps_context_get_roots_m, library-allocated storage *)
  o_m1 : mpc * rdpe;                (* mps_context_get_roots_m, caller's storage of pc bits *)
  o_a : approx;                     (* mps_context_get_approximations *)
  o_ga : mpc;                       (* mps_approximation_get_mvalue on that object into pc bits *)
  o_gr : mpc;                       (* mps_approximation_get_mvalue on the context's own approximation *)
  o_c : approx }.                   (* mps_approximation_copy of the context's own approximation *)

Definition run_case (ph : phase) (dpm : Z) (restore : bool) (pc mpwp : Z) (a : approx) : outputs :=
  let a1 := if restore then restore_data dpm a else a in
  let st := copy_roots ph a1 in
  let ga := get_approximation mpwp st in
  MkOut st (get_roots_d_value ph st, get_roots_d_radius ph st)
        (get_roots_m st None) (get_roots_m st (Some (mpc_init2 pc)))
        ga (approximation_get_mvalue ga (mpc_init2 pc)) (approximation_get_mvalue st (mpc_init2 pc))
        (approximation_copy mpwp st).
