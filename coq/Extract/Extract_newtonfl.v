(* C04 -- extraction of the executable instances of the coded Newton primitives to ocaml/newtonfl.ml (driver: ocaml/newtonfl_driver.ml) *)
Require Import ExtrOcamlBasic ExtrOcamlNativeString.
Require Import MPSV.Dpe.DpeDefs MPSV.Dpe.DpeModel MPSV.Radius.NewtonCoded MPSV.Radius.NewtonExec.
Extraction "../ocaml/newtonfl.ml" fnewton_bits fnewton_branch dnewton_bits mnewton_tail_bits rdpe_of_dyadic_bits.
