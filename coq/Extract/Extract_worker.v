Require Import ExtrOcamlBasic ExtrOcamlNativeString.
Require Import MPSV.Conc.JobQueue MPSV.Conc.WorkerModel MPSV.Conc.LockOrder.
Extraction "../ocaml/worker.ml" step run w_init q_next q_init q_nth pc_tag pc_root holds_root holders acyclic.
