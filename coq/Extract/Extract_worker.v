Require Import ExtrOcamlBasic ExtrOcamlNativeString.
Require Import MPSV.Conc.JobQueue MPSV.Conc.WorkerModel MPSV.Conc.LockOrder MPSV.Conc.WorkerRefined.
Extraction "../ocaml/worker.ml" step run w_init q_next q_init q_nth pc_tag pc_root holds_root holders acyclic
  rstep rrun r_init mk_params prog_of ann_of check_prog instr_at lock_of stat_tag pc_of owns_root owners effective thr0 val_writes_locked other_reads_locked.
