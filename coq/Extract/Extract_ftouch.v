(* C07 -- extraction of the binary64 model of mps_ftouchnwt to ocaml/ftouch.ml (driver: ocaml/ftouch_driver.ml) *)
Require Import ExtrOcamlBasic ExtrOcamlNativeString.
From MPSV Require Import Cluster.FtouchModel.
Extraction "../ocaml/ftouch.ml" ftouch_line ftouch_b64 cplx_mod_f of_bits to_bits.
