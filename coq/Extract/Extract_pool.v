Require Import ExtrOcamlBasic ExtrOcamlNativeString.
Require Import MPSV.Conc.PoolModel MPSV.Conc.PoolWitness.
Extraction "../ocaml/pool.ml" step step_d init chk_all chk_conservation chk_busy chk_barrier dead_state
  is_exited quiescent witness_limit_running example_round.
