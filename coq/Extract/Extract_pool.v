Require Import ExtrOcamlBasic ExtrOcamlNativeString.
Require Import MPSV.Conc.PoolModel MPSV.Conc.PoolWitness.
Extraction "../ocaml/pool.ml" step step_d init init_r chk_all chk_conservation chk_busy chk_barrier chk_final dead_state
  is_exited quiescent witness_limit_running example_round example_nested example_inline example_worker_inline example_repaired.
