Require Import ExtrOcamlBasic ExtrOcamlNativeString.
Require Import MPSV.Goal.GoalModel MPSV.Goal.StopModel.
Extraction "../ocaml/stopq.ml" check_stop sec_check_stop modify_roots reset_new clusters_wfb improve std_run sec_run set_prec start_prec.
