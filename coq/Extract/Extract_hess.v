(* C20 -- extraction of the exact Hessenberg determinant oracle. *)
Require Import ExtrOcamlBasic ExtrOcamlNativeString.
Require Import ZArith.
Require Import MPSV.Hess.HessModel MPSV.Hess.HessGauss.
Extraction "../ocaml/hess.ml" hess_det_gauss dhess_coded_gauss hess_bound_gauss modup Z.add Z.mul Z.opp Z.compare.
