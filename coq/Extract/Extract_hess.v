(* C20 -- extraction of the exact Hessenberg determinant oracle, of the HEAD error-vector model and of the
   coefficient-store model of the matrix polynomial. *)
Require Import ExtrOcamlBasic ExtrOcamlNativeString.
Require Import ZArith.
Require Import MPSV.Hess.HessModel MPSV.Hess.HessGauss MPSV.Hess.HessDyadic MPSV.Hess.MpolyModel MPSV.Hess.MpolyGauss.
Extraction "../ocaml/hess.ml" hess_det_gauss dhess_coded_gauss hess_bound_gauss modup mhess_head_dy mpoly_run Z.add Z.mul Z.opp Z.compare.
