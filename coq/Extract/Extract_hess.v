(* C20 -- extraction of the exact Hessenberg determinant oracle and of the HEAD error-vector model. *)
Require Import ExtrOcamlBasic ExtrOcamlNativeString.
Require Import ZArith.
Require Import MPSV.Hess.HessModel MPSV.Hess.HessGauss MPSV.Hess.HessDyadic.
Extraction "../ocaml/hess.ml" hess_det_gauss dhess_coded_gauss hess_bound_gauss modup mhess_head_dy Z.add Z.mul Z.opp Z.compare.
