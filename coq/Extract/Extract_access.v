(* C16 -- extraction of the as-coded accessor model (Access/AccessCoded.v) to ocaml/access.ml (driver: ocaml/access_driver.ml) *)
Require Import ExtrOcamlBasic ExtrOcamlNativeString.
From MPSV Require Import Access.AccessCoded.
Extraction "../ocaml/access.ml" run_case cplx_mod of_bits to_bits.
