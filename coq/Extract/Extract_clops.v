(* C07 -- extraction of the list-operation model of cluster.c to ocaml/clops.ml (driver: ocaml/clops_driver.ml) *)
Require Import ExtrOcamlBasic ExtrOcamlNativeString.
From MPSV Require Import Cluster.ClusterOps.
Extraction "../ocaml/clops.ml" init step run.
