(* C09 -- extraction of the parser-totality model to ocaml/ptotal.ml (driver: ocaml/ptotal_driver.ml) *)
Require Import ExtrOcamlBasic ExtrOcamlNativeString.
Require Import MPSV.ParseTotal.Tokenizer MPSV.ParseTotal.OptionLine.
Extraction "../ocaml/ptotal.ml"
  skip_comments skip_comments_fixed tokens_stream tokens_stream_cur
  parse_option_line parse_option_line_fixed
  raise_parsing_error raise_parsing_error_fixed mps_error mps_error_fixed garbage.
