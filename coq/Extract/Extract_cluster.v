Require Import ExtrOcamlBasic ExtrOcamlNativeString.
From MPSV Require Import Cluster.ClusterModel.
Extraction "../ocaml/cluster.ml" cluster_seq cluster_step_seq cluster_par newton_isolated components touch_of_matrix.
