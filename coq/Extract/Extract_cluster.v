Require Import ExtrOcamlBasic ExtrOcamlNativeString.
From MPSV Require Import Cluster.ClusterModel.
Extraction "../ocaml/cluster.ml" cluster_seq cluster_step_seq cluster_par cluster_step_fd cluster_step_m newton_isolated newton_iso_fd newton_iso_m components touch_of_matrix.
