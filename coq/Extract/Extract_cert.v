(* Extraction of the certified root oracle to ocaml/cert.ml (module Cert). *)
Require Import ExtrOcamlBasic ExtrOcamlNativeString.
From Coq Require Import ZArith.
From MPSV Require Import Roots.GaussZ Roots.PolyZ Roots.Cert Roots.Transform.
Extraction "../ocaml/cert.ml"
  cert_check scaling_ok product_ok factor_shape_ok factor_ok newton_ok newton_test newton_ok_trunc
  pairwise_disjoint all_discs disc_disjoint disc_inside disc_wf
  tiny_list count_bounds cover uncovered all_covered sides real_roots disc_of_dyadic mkdisc
  factors_prod peqb pscale
  secular_to_monomial chebyshev_to_monomial all_rcoef_wf secular_wf
  Z.add Z.mul Z.opp Z.quotrem Z.of_nat Z.to_nat Z.eqb Z.ltb Z.pow.
