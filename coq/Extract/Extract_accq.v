Require Import ExtrOcamlBasic ExtrOcamlNativeString.
Require Import MPSV.Access.AccessModel.
Extraction "../ocaml/accq.ml" acc_ok acc_disjoint same_value fixed_radius.
