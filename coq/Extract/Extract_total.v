Require Import ExtrOcamlBasic ExtrOcamlNativeString.
Require Import MPSV.Total.SkelDefs MPSV.Total.Accept.
Extraction "../ocaml/total.ml" check_u check_s.
