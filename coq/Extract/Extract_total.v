Require Import ExtrOcamlBasic ExtrOcamlNativeString.
Require Import MPSV.Total.SkelDefs MPSV.Total.Accept MPSV.Total.SecExtDefs MPSV.Total.SecExtAccept.
Extraction "../ocaml/total.ml" check_u check_s check_x.
