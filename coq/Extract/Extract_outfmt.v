Require Import ExtrOcamlBasic ExtrOcamlNativeString.
Require Import MPSV.OutFmt.OutModel.
Extraction "../ocaml/outfmt.ml" decimal_parse decimal_value parsed_value parsed_unit sig_digits close_b radius_ge_b
  round_sig_checked outfloat_plan zero_exp_fixed printed_digits gmp_digit_cap digits_for out_digit prec_digits prec_of_digits line_fields printed_lines count_roots.
