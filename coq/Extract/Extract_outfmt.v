Require Import ExtrOcamlBasic ExtrOcamlNativeString.
Require Import MPSV.OutFmt.OutModel MPSV.OutFmt.DpeModel.
Extraction "../ocaml/outfmt.ml" decimal_parse decimal_value parsed_value parsed_unit sig_digits close_b radius_ge_b
  round_sig_checked outfloat_plan zero_exp_fixed printed_digits gmp_digit_cap digits_for out_digit prec_digits prec_of_digits line_fields printed_lines count_roots
  rn53 bexp mpf_get_rdpe get_dl out_text out_value rdpe_out_str rdpe_out_str_u gnuplot_component zero_exp_code zero_text max_digits f14_units.
