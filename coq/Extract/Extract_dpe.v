(* C12 -- extraction of the DPE model to ocaml/dpe.ml (driver: ocaml/dpe_driver.ml) *)
Require Import ExtrOcamlBasic ExtrOcamlNativeString.
Require Import MPSV.Dpe.DpeDefs MPSV.Dpe.DpeModel MPSV.Dpe.DpeModel2.
Extraction "../ocaml/dpe.ml"
  of_bits to_bits wrap64 wrap32
  rdpe_norm rdpe_set_d rdpe_set_2dl rdpe_get_d rdpe_get_d_old
  rdpe_neg rdpe_abs rdpe_inv rdpe_sqr rdpe_sqr_eq rdpe_sqrt rdpe_inv_old rdpe_sqr_old rdpe_sqrt_old rdpe_div_old rdpe_mul_2exp_old rdpe_div_2exp_old cdpe_mul_2exp cdpe_div_2exp
  rdpe_mul rdpe_mul_old rdpe_mul_d rdpe_mul_d_old rdpe_mul_2exp rdpe_div_2exp
  rdpe_div rdpe_div_d rdpe_add rdpe_add_old_out_of_model rdpe_add_eq rdpe_sub rdpe_sub_eq rdpe_add_old rdpe_add_eq_old rdpe_sub_old rdpe_cmp_old
  rdpe_pow_si rdpe_pow_si_old
  rdpe_cmp rdpe_sgn rdpe_eq_zero rdpe_eq rdpe_ne
  rdpe_lt rdpe_le rdpe_gt rdpe_ge rdpe_lt_old rdpe_le_old rdpe_gt_old rdpe_ge_old
  cdpe_smod cdpe_mod cdpe_add cdpe_sub cdpe_mul cdpe_inv cdpe_sqr cdpe_sqr_eq cdpe_div cdpe_pow_si
  cdpe_mul_old cdpe_inv_old cdpe_sqr_old cdpe_sqr_eq_old cdpe_div_old cdpe_pow_si_old
  rdpe_add_d rdpe_sub_d rdpe_add_eq_d rdpe_sub_eq_d cdpe_neg cdpe_con cdpe_rot cdpe_flip cdpe_add_eq cdpe_sub_eq cdpe_set_2dl cdpe_mul_x cdpe_div_eq cdpe_div_eq_old cdpe_eq_zero cdpe_eq cdpe_ne
  cdpe_mul_e cdpe_div_e cdpe_mul_d cdpe_div_d cdpe_set_d cdpe_get_d cdpe_get_d_old
  rdpe_mul_d_fix rdpe_mul_eq_d_fix rdpe_div_d_fix cdpe_mul_d_fix cdpe_div_d_fix cdpe_mul_x_fix.
