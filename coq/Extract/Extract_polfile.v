(* C10: extraction of the .pol file model (render / denote / parse / decimal conversion). *)
Require Import ExtrOcamlBasic ExtrOcamlNativeString.
Require Import MPSV.PolFile.Chars MPSV.PolFile.DecRatModel MPSV.PolFile.PolModel.
Extraction "../ocaml/polfile.ml"
  render denote parse parse_string
  equiv_rational_string api_coeff_raw api_coeff_value decimal_value mpq_str_value
  digits_val N_digits trunc_bits.
