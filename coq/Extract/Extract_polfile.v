(* C10: extraction of the .pol file model (render / denote / parse / decimal conversion / 2.x reader /
   floating-point predicate). *)
Require Import ExtrOcamlBasic ExtrOcamlNativeString.
Require Import MPSV.PolFile.Chars MPSV.PolFile.DecRatModel MPSV.PolFile.PolModel MPSV.PolFile.V2Model MPSV.PolFile.StoreModel MPSV.PolFile.SetterModel.
Extraction "../ocaml/polfile.ml"
  render denote parse parse_string
  equiv_rational_string api_coeff_raw api_coeff_value decimal_value mpq_str_value
  digits_val N_digits trunc_bits
  read_v2 parse_outcome parse_string_outcome outcome_forget v2_type_accepted
  build_ers ers_value utils_assemble
  within_precb mpf_store declared_bits raw_Q poly_parts
  run m_new get_q.
