(* C11: extraction of the inline-expression model (tokenizer, reference parser, denotation; and the
   pipeline as generated: token names, bison's table run by the yacc skeleton model, grammar actions). *)
Require Import ExtrOcamlBasic ExtrOcamlNativeString.
Require Import MPSV.Inline.InlineModel MPSV.Inline.InlineYaccModel.
Extraction "../ocaml/inline.ml" run_string run_yacc_string.
