(* C11: extraction of the inline-expression model (tokenizer, reference parser, denotation). *)
Require Import ExtrOcamlBasic ExtrOcamlNativeString.
Require Import MPSV.Inline.InlineModel.
Extraction "../ocaml/inline.ml" run_string.
