(* C11: extraction of the inline-expression model (hand-written tokenizer model, reference parser, denotation; the
   pipeline as generated: token names, bison's table run by the yacc skeleton model, grammar actions; and the
   scanner generated from tokenizer.l: raw tokens, tokens for the parser, the whole pipeline over it). *)
Require Import ExtrOcamlBasic ExtrOcamlNativeString.
Require Import MPSV.Inline.InlineModel MPSV.Inline.InlineLR MPSV.Inline.LexModel MPSV.Inline.LexPipeline MPSV.Inline.InlineYaccModel MPSV.Inline.LexLiteralModel.
Extraction "../ocaml/inline.ml" run_string run_yacc_string run_gen_string raw_tokens_string glex ylex literal_consistent.
