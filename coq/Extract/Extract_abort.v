Require Import ExtrOcamlBasic ExtrOcamlNativeString.
Require Import MPSV.Ctx.AbortModel.
Extraction "../ocaml/abort.ml" AbortModel.step AbortModel.init AbortModel.run AbortModel.rank AbortModel.terminated
  AbortModel.enabled AbortModel.solver AbortModel.is_newton AbortModel.is_packet AbortModel.is_regen.
