Require Import ExtrOcamlBasic ExtrOcamlNativeString.
Require Import MPSV.Goal.GoalModel.
Extraction "../ocaml/goalq.ml" run_ok goal_clause honest_clause disjoint_clause honest approx_ok disjoint all_pairwise_disjoint
  touch is_approximated is_computed table_of_approximated_roots table_of_computed_roots goal_ok modify_status modify_status_fixed
  disc_of reported.
