(* C01 -- extraction of the event-trace acceptor (Skel/TraceDefs.v) to ocaml/trc.ml (driver: ocaml/trc_driver.ml) *)
Require Import ExtrOcamlBasic ExtrOcamlNativeString.
Require Import MPSV.Skel.TraceDefs.
Extraction "../ocaml/trc.ml" walk obligations claims incl improve_step_ok classify.
