(* C13 -- extraction of the link.c / gmptools.c conversion model to ocaml/link.ml (driver: ocaml/link_driver.ml) *)
Require Import ExtrOcamlBasic ExtrOcamlNativeString.
Require Import MPSV.Mpc.LinkModel.
Extraction "../ocaml/link.ml"
  wf_mpf canon_dbl dbl_of_bits bits_of_dbl
  mpf_get_d mpf_get_d_2exp mpf_get_rdpe mpf_get_2dl mpf_size_2 mpf_get_rdpe_fixed mpf_get_2dl_fixed
  rdpe_set_d rdpe_set_2dl mpf_set_d mpf_set_rdpe mpf_set_2dl mpf_set_2dl_fixed mpf_mul_2exp mpf_div_2exp
  mpc_get_cdpe mpc_set_cdpe mpc_get_cplx mpc_set_cplx.
