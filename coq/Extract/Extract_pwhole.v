(* C09 -- extraction of the whole-file parser model to ocaml/pwhole.ml (driver: ocaml/pwhole_driver.ml) *)
Require Import ExtrOcamlBasic ExtrOcamlNativeString.
Require Import MPSV.ParseTotal.Tokenizer MPSV.ParseTotal.OptionLine MPSV.ParseTotal.Gmp621 MPSV.ParseTotal.WholeFile.
Extraction "../ocaml/pwhole.ml"
  parse_string parse_stream budget_of gmpf621 gmpq621 atoi sscanf_d sscanf_ld mul_log2_10 parse_long.
