(* C14: extraction of the exact Gaussian-rational twin of the evaluation model *)
Require Import ExtrOcamlBasic ExtrOcamlNativeString.
Require Import MPSV.Eval.EvalModel.
Extraction "../ocaml/eval.ml" eval_mono_q eval_cheb_q eval_sec_q sparse_q cheb_coded_q horner_q qc_of_q qc_eqb qc_is0 cheb_q sec_est_q cheb_est_q.
