Require Import ExtrOcamlBasic ExtrOcamlNativeString.
Require Import MPSV.Match.MatchCheck MPSV.Roots.Cert MPSV.Roots.Transform MPSV.Match.ConvertModel.
Extraction "../ocaml/matchq.ml" check_matching intersect
  conv_scale conv_rescale conv_reverse conv_secular conv_secular_pre
  secular_back_ok chebyshev_back_ok gq_of_rcoef rcoef_of_gq.
