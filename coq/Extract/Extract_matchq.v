Require Import ExtrOcamlBasic ExtrOcamlNativeString.
Require Import MPSV.Match.MatchCheck.
Extraction "../ocaml/matchq.ml" check_matching intersect.
