(* C08 -- extraction of the touch / classification model to ocaml/incl.ml (driver: ocaml/incl_driver.ml) *)
Require Import ExtrOcamlBasic ExtrOcamlNativeString.
Require Import MPSV.Dpe.DpeDefs MPSV.Dpe.DpeModel MPSV.Incl.InclModel MPSV.Incl.TouchModel MPSV.Incl.TouchExch.
Extraction "../ocaml/incl.ml" touch3 touch_unit_m_fixed touch_unit_fixed root_obs root_obs_gen mk_root obs_bits side_bits run_state listing.
