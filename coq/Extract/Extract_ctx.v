Require Import ExtrOcamlBasic ExtrOcamlNativeString.
Require Import MPSV.Ctx.ResizeModel MPSV.Ctx.ErrorModel MPSV.Ctx.ApiModel.
Extraction "../ocaml/ctx.ml" ResizeModel.step ResizeModel.empty_state ResizeModel.all_arrs ResizeModel.solve_prepare
  ResizeModel.config ApiModel.wstep ApiModel.wempty ErrorModel.mps_error ErrorModel.intended ErrorModel.mpsolve_async.
