Require Import ExtrOcamlBasic ExtrOcamlNativeString.
Require Import MPSV.Ctx.ResizeModel MPSV.Ctx.ErrorModel.
Extraction "../ocaml/ctx.ml" ResizeModel.step ResizeModel.empty_state ResizeModel.all_arrs ResizeModel.solve_prepare
  ResizeModel.config ErrorModel.mps_error ErrorModel.intended ErrorModel.mpsolve_async.
