(* C19: how roots and inclusion discs move between equivalent formulations of one equation. *)
From mathcomp Require Import all_ssreflect all_fingroup all_algebra.
From mathcomp Require Import ring.
Set Implicit Arguments. Unset Strict Implicit. Unset Printing Implicit Defensive.
Import Order.TTheory GRing.Theory Num.Theory.
Local Open Scope ring_scope.

Section Transform.
Variable C : numClosedFieldType.
Implicit Types (p : {poly C}) (z w c alpha r : C).

Lemma scale_coefficients_roots p c z : c != 0 -> root (c *: p) z = root p z.
Proof. by move=> c0; rewrite rootZ. Qed.

Lemma rescale_variable_roots p alpha z : root (p \Po (alpha *: 'X)) z = root p (alpha * z).
Proof. by rewrite /root horner_comp hornerZ hornerX. Qed.

Lemma rescale_disc alpha w z r : alpha != 0 ->
  `|alpha * w - z| <= r -> `|w - z / alpha| <= r / `|alpha|.
Proof.
move=> a0 H.
have an0 : 0 < `|alpha| by rewrite normr_gt0.
rewrite ler_pdivl_mulr // -normrM mulrBl mulrC -mulrA mulVf // mulr1.
by [].
Qed.

(* coefficient reversal *)
Definition revp p : {poly C} := \poly_(i < size p) p`_(size p - 1 - i).

Lemma horner_revp p z : z != 0 -> (revp p).[z] = z ^+ (size p).-1 * p.[z^-1].
Proof.
move=> z0; rewrite /revp horner_poly.
case sp: (size p) => [|n].
  by rewrite big_ord0 (eqP (_ : p == 0)) ?horner0 ?mulr0 // -size_poly_eq0 sp.
rewrite /= horner_coef sp mulr_sumr (reindex_inj rev_ord_inj) /=.
apply: eq_bigr => i _.
rewrite subn1 /= subKn; last by rewrite -ltnS.
rewrite mulrCA; congr (_ * _).
have lei : (i <= n)%N by rewrite -ltnS.
rewrite subSS exprVn; move: (nat_of_ord i) lei => k lek.
by rewrite -{2}(subnK lek) exprD mulfK // expf_neq0.
Qed.

Lemma reverse_roots p z : z != 0 -> root (revp p) z = root p z^-1.
Proof.
by move=> z0; rewrite /root horner_revp // mulf_eq0 expf_eq0 (negbTE z0) andbF.
Qed.

(* The image of D(z,r), r < |z|, under inversion lies in D(z^* / (|z|^2-r^2), r / (|z|^2-r^2)). *)
Lemma inv_disc_sound z w r :
  0 <= r -> r < `|z| -> `|w - z| <= r ->
  `|w^-1 - z^* / (`|z|^+2 - r^+2)| <= r / (`|z|^+2 - r^+2).
Proof.
move=> r0 rz H.
have rR : r \is Num.real by rewrite realE r0.
have nz : `|z| ^+ 2 = z * z^* by rewrite normCK.
have Dpos : 0 < z * z^* - r ^+ 2.
  by rewrite -nz subr_gt0 ltr_pexpn2r // ?nnegrE.
have Dn0 : z * z^* - r ^+ 2 != 0 by rewrite gt_eqF.
have wn0 : w != 0.
  apply: contraTneq rz => w0; rewrite -real_leNgt ?normr_real //.
  by move: H; rewrite w0 sub0r normrN.
rewrite nz.
have wE : w = z + (w - z) by rewrite addrC subrK.
move: (w - z) H wE => u H wE.
have -> : w^-1 - z^* / (z * z^* - r ^+ 2)
          = - ((r ^+ 2 + z^* * u) / (w * (z * z^* - r ^+ 2))).
  move: wn0 Dn0; rewrite wE; move: (z^*) => zc wn0 Dn0.
  by field; rewrite wn0 Dn0.
rewrite normrN normrM normfV normrM (gtr0_norm Dpos) invfM mulrA.
rewrite ler_pmul2r ?invr_gt0 // ler_pdivr_mulr ?normr_gt0 //.
(* |r^2 + z^* u| <= r |z + u| : compare squares *)
rewrite -(@ler_pexpn2r _ 2) ?nnegrE ?mulr_ge0 ?normr_ge0 //.
rewrite exprMn !normCK wE.
rewrite !rmorphD !rmorphM /= conjCK (conj_Creal rR).
have uu : `|u| ^+ 2 = u * u^* by rewrite normCK.
have ur : `|u| ^+ 2 <= r ^+ 2 by rewrite ler_pexpn2r ?nnegrE.
move: ur Dpos; rewrite uu; move: (z^*) (u^*) => zc uc ur Dpos.
rewrite -subr_ge0.
have -> : r ^+ 2 * ((z + u) * (zc + uc)) - (r ^+ 2 + zc * u) * (r * r + z * uc)
          = (r ^+ 2 - u * uc) * (z * zc - r ^+ 2) by ring.
by apply: mulr_ge0; [rewrite subr_ge0 | apply: ltW].
Qed.

End Transform.
