(* C19: the secular equation  sum_i a_i/(x - b_i) = 1  and its numerator polynomial secD - secN
   (definitions secD/secN of Roots/TransformSound.v, the polynomials the extracted conversion
   computes) at full strength: degree and leading coefficient, value at a pole, pole is a root
   iff its a_i vanishes, identity of rational functions in the fraction field, equality of
   multiplicities away from the poles, and the regeneration (Lagrange) identity
   a_i = - p(b_i) / (lc p * prod_(j != i) (b_i - b_j))  ==>  lc p *: (secD - secN) = p.
   MathComp style, any field; no axioms. *)
From mathcomp Require Import all_ssreflect all_algebra.
From mathcomp Require Import polyorder.
From mathcomp Require Import ring.
From MPSV Require Import Roots.TransformSound.
Set Implicit Arguments. Unset Strict Implicit. Unset Printing Implicit Defensive.
Import GRing.Theory.
Local Open Scope ring_scope.

Section SecularTheory.
Variable F : fieldType.
Implicit Types (ab : seq (F * F)) (x a b c : F) (p q : {poly F}).

Definition poles ab : seq F := map snd ab.

Lemma secD_prod ab : secD ab = \prod_(t <- ab) ('X - t.2%:P).
Proof. by elim: ab => [|t r IH] /=; rewrite ?big_nil // big_cons IH mulrC. Qed.

Lemma size_secD ab : size (secD ab) = (size ab).+1.
Proof. by rewrite secD_prod size_prod_XsubC. Qed.

Lemma monic_secD ab : secD ab \is monic.
Proof. by rewrite secD_prod monic_prod_XsubC. Qed.

Lemma secD_neq0 ab : secD ab != 0.
Proof. by rewrite -size_poly_eq0 size_secD. Qed.

Lemma size_secN ab : (size (secN ab) <= size ab)%N.
Proof.
elim: ab => [|t r IH] /=; first by rewrite size_poly0.
apply: leq_trans (size_add _ _) _; rewrite geq_max; apply/andP; split.
  case: (eqVneq (secN r) 0) => [->|N0]; first by rewrite mul0r size_poly0.
  by rewrite size_Mmonic ?monicXsubC // size_XsubC addn2.
by apply: leq_trans (size_scale_leq _ _) _; rewrite size_secD.
Qed.

(* the numerator polynomial of  1 - sum a_i/(x-b_i)  is monic of degree n *)
Lemma size_sec_poly ab : size (secD ab - secN ab) = (size ab).+1.
Proof.
by rewrite size_addl size_secD // size_opp ltnS size_secN.
Qed.

Lemma monic_sec_poly ab : secD ab - secN ab \is monic.
Proof.
rewrite monicE lead_coefDl ?(eqP (monic_secD ab)) //.
by rewrite size_opp size_secD ltnS size_secN.
Qed.

Lemma sec_poly_neq0 ab : secD ab - secN ab != 0.
Proof. by rewrite -size_poly_eq0 size_sec_poly. Qed.

(* value of the numerator N at a pole: only the term of that pole survives *)
Lemma secN_at_pole ab a b : uniq (poles ab) -> (a, b) \in ab ->
  (secN ab).[b] = a * \prod_(t <- ab | t.2 != b) (b - t.2).
Proof.
elim: ab => [|[a' b'] r IH] //= /andP [bnot ur].
rewrite inE hornerD hornerM hornerZ hornerXsubC big_cons /= => /orP [/eqP [-> ->]|inr].
  rewrite subrr mulr0 add0r eqxx /=; congr (_ * _).
  rewrite secD_prod horner_prod big_seq_cond [RHS]big_seq_cond; apply: eq_big => t.
    rewrite andbT; case tin: (t \in r) => //=; apply/esym.
    by apply: contraNneq bnot => <-; apply/mapP; exists t.
  by rewrite hornerXsubC.
have bin : b \in poles r by apply/mapP; exists (a, b).
have D0 : (secD r).[b] = 0 by apply/eqP; rewrite [_ == 0]secD_root.
have neq : b' != b by apply: contraNneq bnot => ->.
by rewrite D0 mulr0 addr0 neq (IH ur inr) mulrAC mulrA.
Qed.

Lemma prod_others_neq0 ab b : \prod_(t <- ab | t.2 != b) (b - t.2) != 0.
Proof.
by rewrite prodf_seq_neq0; apply/allP => t _; apply/implyP; rewrite subr_eq0 eq_sym.
Qed.

Lemma sec_poly_at_pole ab a b : uniq (poles ab) -> (a, b) \in ab ->
  (secD ab - secN ab).[b] = - (a * \prod_(t <- ab | t.2 != b) (b - t.2)).
Proof.
move=> ub ain; rewrite hornerD hornerN (secN_at_pole ub ain).
have -> : (secD ab).[b] = 0; last by rewrite add0r.
by apply/eqP; rewrite [_ == 0]secD_root; apply/mapP; exists (a, b).
Qed.

(* with distinct b_i: the pole b_i is a root of the polynomial iff a_i = 0 *)
Theorem pole_root_iff ab a b : uniq (poles ab) -> (a, b) \in ab ->
  root (secD ab - secN ab) b = (a == 0).
Proof.
move=> ub ain; rewrite /root (sec_poly_at_pole ub ain) oppr_eq0 mulf_eq0.
by rewrite (negbTE (prod_others_neq0 ab b)) orbF.
Qed.

(* the secular function as an element of the field of rational functions *)
Local Notation "x %:F" := (@FracField.tofrac _ x).
Definition sec_frac ab : {fraction {poly F}} :=
  1 - \sum_(t <- ab) (t.1%:P)%:F / ('X - t.2%:P)%:F.

Lemma XsubC_frac_neq0 b : ('X - b%:P : {poly F})%:F != 0.
Proof. by rewrite tofrac_eq0 polyXsubC_eq0. Qed.

Theorem sec_frac_eq ab : sec_frac ab = (secD ab - secN ab)%:F / (secD ab)%:F.
Proof.
rewrite /sec_frac tofracB mulrBl divff ?tofrac_eq0 ?secD_neq0 //; congr (_ - _).
elim: ab => [|t r IH] /=; first by rewrite big_nil tofrac0 mul0r.
have D0 : (secD r)%:F != 0 by rewrite tofrac_eq0 secD_neq0.
rewrite big_cons IH; set y := 'X - _.
have y0 : y%:F != 0 by exact: XsubC_frac_neq0.
move: y y0 => y y0; rewrite -mul_polyC tofracD !tofracM.
move: ((secN r)%:F) ((secD r)%:F) (y%:F) ((t.1%:P)%:F) D0 y0 => n d z a d0 z0.
by rewrite addf_div // addrC [z * d]mulrC.
Qed.

(* multiplicities: away from the poles the order of the secular function at x -- computed
   from ANY representation u/v of it as a quotient of polynomials -- is the multiplicity of x
   as a root of the numerator polynomial secD - secN *)
Lemma mu_secD ab x : x \notin poles ab -> \mu_x (secD ab) = 0%N.
Proof. by move=> xn; apply: muNroot; rewrite secD_root. Qed.

Theorem sec_multiplicity ab x (u v : {poly F}) :
  x \notin poles ab -> v != 0 -> sec_frac ab = u%:F / v%:F ->
  \mu_x u = (\mu_x v + \mu_x (secD ab - secN ab))%N.
Proof.
move=> xn v0; rewrite sec_frac_eq => E.
have D0 := secD_neq0 ab; have P0 := sec_poly_neq0 ab.
have E' : u * secD ab = v * (secD ab - secN ab).
  apply/eqP; rewrite -tofrac_eq !tofracM; apply/eqP.
  have vF : v%:F != 0 by rewrite tofrac_eq0.
  have dF : (secD ab)%:F != 0 by rewrite tofrac_eq0.
  by move/eqP: E; rewrite eqr_div // => /eqP <-; rewrite mulrC.
have u0 : u != 0.
  apply: contraNneq (mulf_neq0 v0 P0) => u0; by rewrite -E' u0 mul0r.
have := mu_mul x (mulf_neq0 u0 D0); rewrite E' (mu_mul x (mulf_neq0 v0 P0)) (mu_secD xn) addn0.
by move->.
Qed.

(* ---------- regeneration: secular coefficients from a polynomial and nodes ---------- *)
Definition regen_coeff p (bs : seq F) b : F :=
  - p.[b] / (lead_coef p * \prod_(b' <- bs | b' != b) (b - b')).

Definition regen p (bs : seq F) : seq (F * F) := [seq (regen_coeff p bs b, b) | b <- bs].

Lemma poles_regen p bs : poles (regen p bs) = bs.
Proof. by rewrite /poles /regen -map_comp map_id_in. Qed.

Lemma regen_prod p bs b :
  \prod_(t <- regen p bs | t.2 != b) (b - t.2) = \prod_(b' <- bs | b' != b) (b - b').
Proof. by rewrite /regen big_map. Qed.

(* Lagrange: a polynomial of degree n and n distinct nodes; the regenerated secular equation
   has numerator polynomial p / lc(p) *)
Theorem regen_sound p bs : uniq bs -> size p = (size bs).+1 ->
  lead_coef p *: (secD (regen p bs) - secN (regen p bs)) = p.
Proof.
move=> ub sp; set ab := regen p bs.
have p0 : p != 0 by rewrite -size_poly_eq0 sp.
have c0 : lead_coef p != 0 by rewrite lead_coef_eq0.
have sab : size ab = size bs by rewrite size_map.
apply/eqP; rewrite -subr_eq0; apply/eqP.
apply: (@roots_geq_poly_eq0 _ _ bs) => //.
- apply/allP => b bin; rewrite /root hornerD hornerN hornerZ.
  have ain : (regen_coeff p bs b, b) \in ab by apply/mapP; exists b.
  have uab : uniq (poles ab) by rewrite poles_regen.
  rewrite (sec_poly_at_pole uab ain) regen_prod /regen_coeff.
  have := prod_others_neq0 ab b; rewrite regen_prod.
  move: (\prod_(b' <- bs | _) _) (p.[b]) (lead_coef p) c0 => P v c c0 P0.
  by apply/eqP; field; rewrite c0 P0.
- (* degree: both sides have degree n and the same leading coefficient *)
  have sq : size (lead_coef p *: (secD ab - secN ab)) = (size bs).+1.
    by rewrite size_scale // size_sec_poly sab.
  have lq : lead_coef (lead_coef p *: (secD ab - secN ab)) = lead_coef p.
    by rewrite lead_coefZ (eqP (monic_sec_poly ab)) mulr1.
  rewrite -ltnS -sq; apply/leq_trans; last exact: leqnn.
  have := size_add (lead_coef p *: (secD ab - secN ab)) (- p).
  rewrite size_opp sq sp maxnn leq_eqVlt => /orP [/eqP E|//].
  have : lead_coef (lead_coef p *: (secD ab - secN ab) - p) = 0.
    by rewrite lead_coefE E coefD coefN -{2}sp -[in X in X - _]sq -!lead_coefE lq subrr.
  move/eqP; rewrite lead_coef_eq0 => /eqP ->; by rewrite size_poly0.
Qed.

(* hence p and the regenerated secular equation have the same roots with the same
   multiplicities; a node is a root iff its regenerated coefficient is 0 *)
Corollary regen_mu p bs x : uniq bs -> size p = (size bs).+1 ->
  \mu_x (secD (regen p bs) - secN (regen p bs)) = \mu_x p.
Proof.
move=> ub sp; have c0 : lead_coef p != 0 by rewrite lead_coef_eq0 -size_poly_eq0 sp.
by rewrite -[in RHS](regen_sound ub sp) mu_mulC.
Qed.

Corollary regen_root p bs x : uniq bs -> size p = (size bs).+1 ->
  root p x <-> (if x \in bs then regen_coeff p bs x == 0
                else \sum_(t <- regen p bs) t.1 / (x - t.2) == 1).
Proof.
move=> ub sp; have c0 : lead_coef p != 0 by rewrite lead_coef_eq0 -size_poly_eq0 sp.
rewrite -{1}(regen_sound ub sp) rootZ //.
case: ifP => xin.
  rewrite (@pole_root_iff _ (regen_coeff p bs x)) ?poles_regen //.
  by apply/mapP; exists x.
have xn : x \notin map snd (regen p bs) by rewrite -/(poles _) poles_regen xin.
by split=> [/(secular_root_equiv xn) ->|/eqP /(secular_root_equiv xn)].
Qed.

End SecularTheory.
