(* C19: executable checker of a proposed one-to-one matching between two disc lists.
   Plain stdlib (QArith, lists); extracted to OCaml (Extract/Extract_matchq.v). *)
From Coq Require Import QArith List Arith Bool Lia Permutation.
Import ListNotations.

Record disc := mkDisc { cre : Q; cim : Q; rad : Q }.

Definition sq (x : Q) : Q := x * x.

(* closed discs D(c1,r1), D(c2,r2) with r1,r2 >= 0 meet iff |c1-c2|^2 <= (r1+r2)^2 *)
Definition intersect (d1 d2 : disc) : bool :=
  Qle_bool 0 (rad d1) && Qle_bool 0 (rad d2) &&
  Qle_bool (sq (cre d1 - cre d2) + sq (cim d1 - cim d2)) (sq (rad d1 + rad d2)).

Fixpoint mem_nat (x : nat) (l : list nat) : bool :=
  match l with [] => false | y :: t => Nat.eqb x y || mem_nat x t end.

Fixpoint nodup_nat (l : list nat) : bool :=
  match l with [] => true | x :: t => negb (mem_nat x t) && nodup_nat t end.

Definition all_below (n : nat) (l : list nat) : bool := forallb (fun x => Nat.ltb x n) l.

Definition is_perm_of_range (n : nat) (s : list nat) : bool :=
  Nat.eqb (length s) n && all_below n s && nodup_nat s.

Definition dflt := mkDisc 0 0 (-1 # 1).    (* never intersects anything: radius < 0 *)

Fixpoint matched (ds1 ds2 : list disc) (s : list nat) : bool :=
  match ds1, s with
  | [], [] => true
  | d :: ds1', j :: s' => intersect d (nth j ds2 dflt) && matched ds1' ds2 s'
  | _, _ => false
  end.

Definition check_matching (ds1 ds2 : list disc) (s : list nat) : bool :=
  Nat.eqb (length ds1) (length ds2) && is_perm_of_range (length ds2) s && matched ds1 ds2 s.
