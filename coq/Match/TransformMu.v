(* C19: multiplicities (not only roots) are transported by coefficient scaling and variable rescaling. *)
From mathcomp Require Import all_ssreflect all_algebra.
From mathcomp Require Import polyorder.
Set Implicit Arguments. Unset Strict Implicit. Unset Printing Implicit Defensive.
Import GRing.Theory.
Local Open Scope ring_scope.

Section TransformMu.
Variable F : fieldType.
Implicit Types (p : {poly F}) (z c alpha : F).

Lemma mu_scale_coefficients p c z : c != 0 -> \mu_z (c *: p) = \mu_z p.
Proof. exact: mu_mulC. Qed.

Lemma mu_rescale_variable p alpha z : alpha != 0 ->
  \mu_z (p \Po (alpha *: 'X)) = \mu_(alpha * z) p.
Proof.
move=> a0; case: (eqVneq p 0) => [->|p0]; first by rewrite comp_poly0 !mu0.
have [q qn0 Ep] := mu_spec (alpha * z) p0.
move: Ep; set m := \mu_(alpha * z) p => Ep.
rewrite [in LHS]Ep comp_polyM rmorphX /= comp_polyB comp_polyX comp_polyC.
have -> : alpha *: 'X - (alpha * z)%:P = alpha *: ('X - z%:P).
  by rewrite scalerBr -[alpha *: z%:P]mul_polyC -polyCM.
rewrite exprZn -scalerAr scalerAl; apply: cofactor_XsubC_mu.
by rewrite rootZ ?expf_neq0 // root_comp hornerZ hornerX.
Qed.
End TransformMu.
