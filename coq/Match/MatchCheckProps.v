From Coq Require Import QArith List Arith Bool Lia Permutation.
Import ListNotations.
Require Import MPSV.Match.MatchCheck.
Local Open Scope nat_scope.

Lemma mem_nat_In x l : mem_nat x l = true <-> In x l.
Proof.
induction l as [|y t IH]; simpl; [split; [discriminate|tauto]|].
rewrite orb_true_iff, Nat.eqb_eq, IH; split; intros [H|H]; auto.
Qed.

Lemma nodup_nat_NoDup l : nodup_nat l = true <-> NoDup l.
Proof.
induction l as [|x t IH]; simpl; [split; [constructor|reflexivity]|].
rewrite andb_true_iff, negb_true_iff, IH; split.
- intros [Hm Hn]; constructor; [|exact Hn].
  intro Hin; apply mem_nat_In in Hin; congruence.
- intro H; inversion H as [|a b Hnin Hnd]; subst; split; [|exact Hnd].
  destruct (mem_nat x t) eqn:E; [apply mem_nat_In in E; contradiction|reflexivity].
Qed.

(* a duplicate-free list of n numbers below n is a permutation of 0..n-1 *)
Lemma perm_of_range n s :
  is_perm_of_range n s = true -> Permutation s (seq 0 n).
Proof.
unfold is_perm_of_range; rewrite !andb_true_iff; intros [[Hl Hb] Hd].
apply Nat.eqb_eq in Hl; apply nodup_nat_NoDup in Hd.
unfold all_below in Hb; rewrite forallb_forall in Hb.
apply NoDup_Permutation_bis; [exact Hd| rewrite seq_length; lia|].
intros x Hx; apply in_seq; specialize (Hb x Hx); apply Nat.ltb_lt in Hb; lia.
Qed.

Lemma matched_nth ds1 ds2 s :
  matched ds1 ds2 s = true ->
  length s = length ds1 /\
  forall i, i < length ds1 -> intersect (nth i ds1 dflt) (nth (nth i s 0) ds2 dflt) = true.
Proof.
revert s; induction ds1 as [|d ds1 IH]; intros [|j s]; simpl; try discriminate.
- intros _; split; [reflexivity|intros i Hi; lia].
- rewrite andb_true_iff; intros [Hd Hm]; destruct (IH s Hm) as [Hl Hn]; split; [congruence|].
  intros [|i] Hi; [exact Hd|apply Hn; lia].
Qed.

(* Soundness: an accepted sigma is a permutation of the indices and every disc of the first
   list meets the disc of the second list it is matched to. *)
Theorem check_matching_sound ds1 ds2 s :
  check_matching ds1 ds2 s = true ->
  length ds1 = length ds2 /\ Permutation s (seq 0 (length ds2)) /\
  forall i, i < length ds1 -> intersect (nth i ds1 dflt) (nth (nth i s 0) ds2 dflt) = true.
Proof.
unfold check_matching; rewrite !andb_true_iff; intros [[Hl Hp] Hm].
apply Nat.eqb_eq in Hl; split; [exact Hl|]; split; [apply perm_of_range; exact Hp|].
apply (matched_nth _ _ _ Hm).
Qed.

Lemma matched_complete ds1 ds2 s :
  length s = length ds1 ->
  (forall i, i < length ds1 -> intersect (nth i ds1 dflt) (nth (nth i s 0) ds2 dflt) = true) ->
  matched ds1 ds2 s = true.
Proof.
revert s; induction ds1 as [|d ds1 IH]; intros [|j s]; simpl; try discriminate; [reflexivity|].
intros Hl Hn; injection Hl as Hl; rewrite andb_true_iff; split; [exact (Hn 0 ltac:(lia))|].
apply IH; [exact Hl|]; intros i Hi; exact (Hn (S i) ltac:(lia)).
Qed.

(* Completeness: every genuine matching is accepted. *)
Theorem check_matching_complete ds1 ds2 s :
  length ds1 = length ds2 -> length s = length ds2 -> NoDup s -> (forall x, In x s -> x < length ds2) ->
  (forall i, i < length ds1 -> intersect (nth i ds1 dflt) (nth (nth i s 0) ds2 dflt) = true) ->
  check_matching ds1 ds2 s = true.
Proof.
intros Hl Hs Hd Hb Hn; unfold check_matching, is_perm_of_range; rewrite !andb_true_iff; repeat split.
- apply Nat.eqb_eq; exact Hl.
- apply Nat.eqb_eq; exact Hs.
- unfold all_below; apply forallb_forall; intros x Hx; apply Nat.ltb_lt; auto.
- apply nodup_nat_NoDup; exact Hd.
- apply matched_complete; [congruence|exact Hn].
Qed.

(* meaning of the boolean test on exact rationals *)
Lemma intersect_spec d1 d2 :
  intersect d1 d2 = true <->
  (0 <= rad d1 /\ 0 <= rad d2 /\
   (cre d1 - cre d2) * (cre d1 - cre d2) + (cim d1 - cim d2) * (cim d1 - cim d2)
     <= (rad d1 + rad d2) * (rad d1 + rad d2))%Q.
Proof.
unfold intersect, sq; rewrite !andb_true_iff, !Qle_bool_iff; tauto.
Qed.

Example check_matching_nontrivial :
  check_matching [mkDisc 0 0 (1#2); mkDisc 3 0 (1#2)]%Q [mkDisc (3#1) (1#4) (1#4); mkDisc (1#4) 0 (1#4)]%Q [1; 0]%nat = true
  /\ check_matching [mkDisc 0 0 (1#2); mkDisc 3 0 (1#2)]%Q [mkDisc (3#1) (1#4) (1#4); mkDisc (1#4) 0 (1#4)]%Q [0; 1]%nat = false
  /\ check_matching [mkDisc 0 0 (1#2); mkDisc 3 0 (1#2)]%Q [mkDisc (3#1) (1#4) (1#4); mkDisc (1#4) 0 (1#4)]%Q [1; 1]%nat = false.
Proof. vm_compute; repeat split. Qed.
