(* C19: the literal coverage form of the inclusion property ("every disc contains a root, every
   root lies in a disc, n discs for n roots") is NOT enough for a one-to-one matching with
   intersecting discs -- even with simple roots.  What is needed is the labelled form of
   Match/MatchMult.v (or exactly one root per disc).  Concrete witness over Q, checked with the
   executable predicates of MatchCheck.v.  Plain stdlib. *)
From Coq Require Import QArith List Arith Bool Lia Permutation.
From MPSV Require Import Match.MatchCheck.
Import ListNotations.

(* the point (x,y) lies in the closed disc d *)
Definition inside (d : disc) (pt : Q * Q) : bool :=
  Qle_bool 0 (rad d) &&
  Qle_bool (sq (cre d - fst pt) + sq (cim d - snd pt)) (sq (rad d)).

Definition wk_roots : list (Q * Q) := [(0, 0); (10, 0); (-10, 0)]%Q.
Definition wk_A : list disc := [mkDisc 0 0 1; mkDisc (1 # 2) 0 1; mkDisc 0 0 11].
Definition wk_B : list disc := [mkDisc 10 0 1; mkDisc (-10) 0 1; mkDisc 0 0 11].

Definition covers (ds : list disc) (rs : list (Q * Q)) : bool :=
  Nat.eqb (length ds) (length rs) &&
  forallb (fun d => existsb (inside d) rs) ds &&
  forallb (fun r => existsb (fun d => inside d r) ds) rs.

Lemma wk_no_matching : forall s, check_matching wk_A wk_B s = false.
Proof.
intros [|a [|b [|c [|d s]]]]; try (vm_compute; reflexivity).
destruct a as [|[|[|a]]], b as [|[|[|b]]], c as [|[|[|c]]]; vm_compute; reflexivity.
Qed.

Theorem coverage_only_no_matching :
  exists (rs : list (Q * Q)) (dsA dsB : list disc),
    covers dsA rs = true /\ covers dsB rs = true /\
    forall s, check_matching dsA dsB s = false.
Proof.
exists wk_roots, wk_A, wk_B; split; [vm_compute; reflexivity|split; [vm_compute; reflexivity|]].
exact wk_no_matching.
Qed.

Lemma covers_spec ds rs : covers ds rs = true <->
  length ds = length rs /\
  (forall d, In d ds -> exists r, In r rs /\ inside d r = true) /\
  (forall r, In r rs -> exists d, In d ds /\ inside d r = true).
Proof.
unfold covers; rewrite !andb_true_iff, Nat.eqb_eq, !forallb_forall.
split.
- intros [[H1 H2] H3]; split; [exact H1|split].
  + intros d Hd; apply H2 in Hd; apply existsb_exists in Hd; exact Hd.
  + intros r Hr; apply H3 in Hr; apply existsb_exists in Hr; exact Hr.
- intros [H1 [H2 H3]]; split; [split; [exact H1|]|].
  + intros d Hd; apply existsb_exists; apply H2; exact Hd.
  + intros r Hr; apply existsb_exists; apply H3; exact Hr.
Qed.
