(* C19: matching of two disc families when roots may be multiple, and the exact form of the
   inclusion guarantee (C01) that the matching theorem needs.  MathComp style; no axioms. *)
From mathcomp Require Import all_ssreflect all_fingroup all_algebra.
From mathcomp Require Import polyorder.
From MPSV Require Import Match.MatchTheory.
Set Implicit Arguments. Unset Strict Implicit. Unset Printing Implicit Defensive.
Import GRing.Theory.
Local Open Scope ring_scope.

Section Labelled.
(* Each family of n discs comes with a labelling by points (disc i contains its label) and the two
   label lists are the same multiset: then the discs can be matched so that matched discs share
   a point.  Nothing is assumed about disjointness: discs of one family may share points. *)
Variables (T : eqType) (n : nat).
Variables A B : 'I_n -> pred T.

Theorem matching_exists_labelled (ra rb : n.-tuple T) :
  perm_eq ra rb -> (forall i, A i (tnth ra i)) -> (forall i, B i (tnth rb i)) ->
  exists s : 'S_n, forall i, exists r, A i r && B (s i) r.
Proof.
move=> /tuple_permP [s Es] HA HB; exists s => i; exists (tnth ra i).
rewrite HA /=.
have -> : tnth ra i = tnth rb (s i).
  by rewrite (tnth_nth (tnth rb (s i))) Es -tnth_nth tnth_mktuple.
exact: HB.
Qed.
End Labelled.

Section Multiplicity.
(* the labels enumerate the roots of p with their multiplicities *)
Variable R : idomainType.

Lemma mu_prod_XsubC (rs : seq R) (c z : R) : c != 0 ->
  \mu_z (c *: \prod_(w <- rs) ('X - w%:P)) = count_mem z rs.
Proof.
move=> c0; rewrite mu_mulC //; elim: rs => [|w rs IH] /=.
  by rewrite big_nil -[1]/(1%:P) mu_polyC.
have P0 : \prod_(w <- rs) ('X - w%:P) != 0 :> {poly R}.
  by rewrite -size_poly_eq0 size_prod_XsubC.
rewrite big_cons mu_mul ?mulf_neq0 ?polyXsubC_eq0 // IH; congr (_ + _)%N.
case: (eqVneq w z) => [->|wz]; first by rewrite mu_XsubC.
by rewrite muNroot // root_XsubC eq_sym.
Qed.

Variable n : nat.
Variables A B : 'I_n -> pred R.

(* What the inclusion property has to deliver for each run (its "multiplicity form"): the n discs can
   be labelled by roots, disc i containing label i, so that every z is used exactly \mu_z p times.
   For a root of multiplicity m this asks for m discs containing it, which is how a cluster of a
   multiple root is reported. *)
Theorem matching_exists_mult (p : {poly R}) (ra rb : n.-tuple R) :
  (forall z, count_mem z ra = \mu_z p) -> (forall z, count_mem z rb = \mu_z p) ->
  (forall i, A i (tnth ra i)) -> (forall i, B i (tnth rb i)) ->
  exists s : 'S_n, forall i, exists r, A i r && B (s i) r.
Proof.
move=> ca cb; apply: matching_exists_labelled.
by rewrite /perm_eq; apply/allP => z _ /=; rewrite ca cb.
Qed.
End Multiplicity.

Section Isolated.
(* C01's own wording for isolated/approximated discs: every disc contains exactly one root, and every
   root lies in some disc (no disjointness between discs is assumed). *)
Variable n : nat.
Variables A B : 'I_n -> pred 'I_n.

Lemma onto_inj (f : 'I_n -> 'I_n) : (forall r, exists i, f i = r) -> injective f.
Proof.
move=> onto; apply/injectiveP; apply/card_uniqP; rewrite size_map -cardE card_ord.
rewrite -[RHS]card_ord; apply: eq_card => r; rewrite !inE.
by apply/codomP; case: (onto r) => i <-; exists i.
Qed.

Lemma exactly_one_disjoint (F : 'I_n -> pred 'I_n) :
  (forall i, exists r, F i r) -> (forall i r r', F i r -> F i r' -> r = r') ->
  (forall r, exists i, F i r) -> forall i j r, F i r -> F j r -> i = j.
Proof.
move=> ne one cov.
have wit i : {r : 'I_n | F i r} by apply: sigW; case: (ne i) => r Hr; exists r.
pose f i := sval (wit i).
have fP i : F i (f i) by exact: (svalP (wit i)).
have finj : injective f.
  apply: onto_inj => r; case: (cov r) => i Fir; exists i; exact: (one i _ _ (fP i) Fir).
move=> i j r Fi Fj; apply: finj.
by rewrite (one i _ _ (fP i) Fi) (one j _ _ (fP j) Fj).
Qed.

Theorem matching_exists_isolated :
  (forall i, exists r, A i r) -> (forall i r r', A i r -> A i r' -> r = r') -> (forall r, exists i, A i r) ->
  (forall i, exists r, B i r) -> (forall i r r', B i r -> B i r' -> r = r') -> (forall r, exists i, B i r) ->
  exists s : {perm 'I_n}, forall i, exists r, A i r && B (s i) r.
Proof.
move=> neA oneA covA neB oneB covB; apply: matching_exists => //.
- exact: exactly_one_disjoint.
- exact: exactly_one_disjoint.
Qed.
End Isolated.
