(* C19: the executable conversions of ConvertModel.v denote the intended operations on polynomials
   over an algebraically closed field C (bridge Q2C / QP2C of Roots/TransformSound.v), hence the
   formulations fed to the solver have the roots (and multiplicities) the disc maps assume.
   Combined-style file (stdlib Z + MathComp), as Roots/Bridge.v. *)
From Coq Require Import ZArith List.
From mathcomp Require Import all_ssreflect all_algebra.
From mathcomp Require Import ssrZ zify ring polyorder.
From MPSV Require Import Roots.GaussZ Roots.PolyZ Roots.Cert Roots.Transform Roots.Bridge Roots.TransformSound.
From MPSV Require Import Match.Transform Match.SecularTheory Match.ConvertModel.
Set Implicit Arguments. Unset Strict Implicit. Unset Printing Implicit Defensive.
Import Order.TTheory GRing.Theory Num.Theory.
Local Open Scope ring_scope.

Section ConvertBridge.
Variable C : numClosedFieldType.
Notation Z2C := (@Z2C C).
Notation G2C := (@G2C C).
Notation Q2C := (@Q2C C).
Notation QP2C := (@QP2C C).

(* ---------- arithmetic on Gaussian rationals ---------- *)
Lemma gq_is0P x : gq_wf x -> gq_is0 x = (Q2C x == 0).
Proof.
move=> /(@gq_wfP C) d0; rewrite /gq_is0 /TransformSound.Q2C mulf_eq0 invr_eq0 (negbTE d0) orbF.
by rewrite G2C_eq0.
Qed.

Lemma gconj_mul g : gmul (g.1, Z.opp g.2) g = (gnorm2 g, Z0).
Proof. by case: g => a b; rewrite /gmul /gnorm2 /=; congr (_, _); lia. Qed.

Lemma Q2C_inv x : gq_wf x -> ~~ gq_is0 x ->
  gq_wf (gq_inv x) /\ Q2C (gq_inv x) = (Q2C x)^-1.
Proof.
move=> wx nz; have d0 := @gq_wfP C _ wx.
have g0 : G2C x.1 != 0 by rewrite G2C_eq0.
split; first by rewrite /gq_wf /gq_inv /= gnorm2_eq0.
rewrite /TransformSound.Q2C /gq_inv /= G2C_scale invf_div.
have N : Z2C (gnorm2 x.1) = G2C (x.1.1, Z.opp x.1.2) * G2C x.1.
  by rewrite -G2C_mul gconj_mul /Bridge.G2C /= Z2C_0 mulr0 addr0.
have N0 : Z2C (gnorm2 x.1) != 0 by rewrite Z2C_eq0 gnorm2_eq0.
rewrite N; move: N0; rewrite N mulf_eq0 negb_or => /andP [c0 _].
by field; rewrite c0 g0.
Qed.

Lemma Q2C_sub x y : gq_wf x -> gq_wf y ->
  gq_wf (gq_sub x y) /\ Q2C (gq_sub x y) = Q2C x - Q2C y.
Proof.
move=> wx wy; rewrite /gq_sub; split; first exact: wf_add.
by rewrite Q2C_add // Q2C_opp.
Qed.

Lemma Q2C_div x y : gq_wf x -> gq_wf y -> ~~ gq_is0 y ->
  gq_wf (gq_div x y) /\ Q2C (gq_div x y) = Q2C x / Q2C y.
Proof.
move=> wx wy ny; have [wi Ei] := Q2C_inv wy ny; rewrite /gq_div; split; first exact: wf_mul.
by rewrite Q2C_mul // Ei.
Qed.

Lemma geqb_refl g : geqb g g.
Proof. by case: g => a b; rewrite /geqb /= !Z.eqb_refl. Qed.

Lemma geqb_sub u v : geqb u v = gis0 (gsub u v).
Proof.
case: u v => a b [c d]; rewrite /geqb /gis0 /gsub /geqb /=.
by apply/idP/idP => /andP [/Z.eqb_eq H1 /Z.eqb_eq H2]; apply/andP; split; apply/Z.eqb_eq; lia.
Qed.

Lemma gq_eqbP x y : gq_wf x -> gq_wf y -> gq_eqb x y = (Q2C x == Q2C y).
Proof.
move=> /(@gq_wfP C) dx /(@gq_wfP C) dy.
rewrite /gq_eqb geqb_sub -(@G2C_eq0 C) G2C_sub !G2C_scale subr_eq0 /TransformSound.Q2C.
by rewrite eqr_div // [Z2C y.2 * _]mulrC [Z2C x.2 * _]mulrC.
Qed.

(* ---------- evaluation, polynomial equality ---------- *)
Lemma QP2C_nil : QP2C nil = 0. Proof. by []. Qed.

Lemma qp_evalP p x : all gq_wf p -> gq_wf x ->
  gq_wf (qp_eval p x) /\ Q2C (qp_eval p x) = (QP2C p).[Q2C x].
Proof.
move=> wp wx; elim: p wp => [|a p IH] /=; first by rewrite QP2C_nil horner0 Q2C_zero.
move=> /andP [wa /IH [we Ee]]; split; first by rewrite wf_add // wf_mul.
rewrite Q2C_add ?wf_mul // Q2C_mul // Ee QP2C_cons hornerD hornerM hornerX hornerC.
by rewrite addrC mulrC.
Qed.

Lemma qp_is0P p : all gq_wf p -> qp_is0 p -> QP2C p = 0.
Proof.
elim: p => [|a p IH] //=; rewrite /qp_is0 /= -/(qp_is0 p) => /andP [wa wp] /andP [a0 p0].
by rewrite QP2C_cons IH // mul0r add0r; move: a0; rewrite gq_is0P // => /eqP ->.
Qed.

Lemma qp_eqbP p q : all gq_wf p -> all gq_wf q -> qp_eqb p q -> QP2C p = QP2C q.
Proof.
elim: p q => [|a p IH] [|b q] //=.
- by move=> _ wq H; rewrite (@qp_is0P (b :: q)).
- by move=> wp _ H; rewrite (@qp_is0P (a :: p)).
move=> /andP [wa wp] /andP [wb wq] /andP []; rewrite gq_eqbP // => /eqP E /(IH _ wp wq).
by rewrite !QP2C_cons E => ->.
Qed.

Lemma last_wf (p : qpoly) : all gq_wf p -> gq_wf (List.last p gq_zero).
Proof.
rewrite List_last_last; elim: p => [|a p IH] //= /andP [wa wp].
by case: p wp IH => [|b p] //= wp IH; apply: IH.
Qed.

Lemma QP2C_seq p : Q2C (List.last p gq_zero) != 0 ->
  QP2C p = map Q2C p :> seq C.
Proof.
rewrite List_last_last => nz; rewrite /TransformSound.QP2C; apply: (@PolyK _ 1).
case: p nz => [|a p]; first by rewrite /= Q2C_zero eqxx.
by rewrite /= !last_map.
Qed.

Lemma QP2C_size p : Q2C (List.last p gq_zero) != 0 -> size (QP2C p) = size p.
Proof. by move=> nz; rewrite QP2C_seq // size_map. Qed.

Lemma QP2C_lead p : Q2C (List.last p gq_zero) != 0 ->
  lead_coef (QP2C p) = Q2C (List.last p gq_zero).
Proof.
move=> nz; rewrite lead_coefE nth_last QP2C_seq // List_last_last.
by case: p {nz} => [|a p] /=; rewrite ?Q2C_zero ?last_map.
Qed.

(* ---------- (1) scaling of all coefficients ---------- *)
Theorem conv_scale_sound c p : gq_wf c -> all gq_wf p ->
  all gq_wf (conv_scale c p) /\ QP2C (conv_scale c p) = Q2C c *: QP2C p.
Proof. exact: qpscaleP. Qed.

(* ---------- (2) rescaling of the variable ---------- *)
Lemma rescale_fromP pw alpha p : gq_wf pw -> gq_wf alpha -> all gq_wf p ->
  all gq_wf (rescale_from pw alpha p) /\
  QP2C (rescale_from pw alpha p) = Q2C pw *: (QP2C p \Po (Q2C alpha *: 'X)).
Proof.
move=> wpw wal; elim: p pw wpw => [|a p IH] pw wpw /=.
  by rewrite QP2C_nil comp_poly0 scaler0.
move=> /andP [wa wp]; have [-> E] := IH _ (wf_mul wal wpw) wp; rewrite wf_mul //; split=> //.
rewrite !QP2C_cons E !Q2C_mul // comp_polyD comp_polyM comp_polyX comp_polyC.
rewrite scalerDr -!mul_polyC !polyCM; ring.
Qed.

Theorem conv_rescale_sound alpha p : gq_wf alpha -> all gq_wf p ->
  all gq_wf (conv_rescale alpha p) /\
  QP2C (conv_rescale alpha p) = QP2C p \Po (Q2C alpha *: 'X).
Proof.
move=> wal wp; have [w E] := @rescale_fromP gq_one alpha p isT wal wp; split=> //.
by rewrite E Q2C_one scale1r.
Qed.

(* ---------- (3) reversal ---------- *)
Theorem conv_reverse_sound p : Q2C (List.last p gq_zero) != 0 ->
  QP2C (conv_reverse p) = revp (QP2C p).
Proof.
move=> nz; rewrite /conv_reverse /revp; apply/polyP => i.
have -> : List.rev p = rev p by elim: p {nz} => [|a p IH] //=; rewrite IH rev_cons -cats1.
rewrite coef_poly QP2C_size // /TransformSound.QP2C coef_Poly map_rev.
case: ltnP => lt; last by rewrite nth_default // size_rev size_map.
rewrite nth_rev ?size_map // -/(QP2C p) QP2C_seq //.
by congr nth; rewrite -subnDA add1n.
Qed.

(* ---------- (4) polynomial -> secular form (regeneration) ---------- *)
Lemma existsb_has (A : Type) (f : A -> bool) l : List.existsb f l = has f l.
Proof. by elim: l => //= a l ->. Qed.

Lemma prod_othersP b bs : gq_wf b -> all gq_wf bs ->
  gq_wf (prod_others b bs) /\
  Q2C (prod_others b bs) = \prod_(b' <- map Q2C bs | b' != Q2C b) (Q2C b - b').
Proof.
move=> wb; elim: bs => [|b' bs IH] /=; first by rewrite big_nil Q2C_one.
move=> /andP [wb' /IH [wI EI]]; rewrite big_cons gq_eqbP //.
case E: (Q2C b' == Q2C b) => //=.
have [ws Es] := Q2C_sub wb wb'; split; first exact: wf_mul.
by rewrite Q2C_mul // Es EI.
Qed.

Lemma prod_neq0 (x : C) (xs : seq C) : \prod_(y <- xs | y != x) (x - y) != 0.
Proof.
by rewrite prodf_seq_neq0; apply/allP => t _; apply/implyP; rewrite subr_eq0 eq_sym.
Qed.

Lemma nodes_distinctP bs : all gq_wf bs -> nodes_distinct bs -> uniq (map Q2C bs).
Proof.
elim: bs => [|b bs IH] //= /andP [wb wbs] /andP [nex nd]; rewrite IH // andbT.
apply/negP => /mapP [y yin E]; move/negP: nex; apply; rewrite existsb_has.
by apply/hasP; exists y => //; rewrite gq_eqbP ?E // (allP wbs).
Qed.

Lemma regen_coeffP p bs b : all gq_wf p -> all gq_wf bs -> gq_wf b ->
  Q2C (List.last p gq_zero) != 0 ->
  gq_wf (ConvertModel.regen_coeff p bs b) /\
  Q2C (ConvertModel.regen_coeff p bs b)
  = SecularTheory.regen_coeff (QP2C p) (map Q2C bs) (Q2C b).
Proof.
move=> wp wbs wb nz; rewrite /ConvertModel.regen_coeff /SecularTheory.regen_coeff.
have [we Ee] := qp_evalP wp wb; have [wpr Epr] := prod_othersP wb wbs.
have wl := last_wf wp.
have wden : gq_wf (gq_mul (List.last p gq_zero) (prod_others b bs)) by exact: wf_mul.
have Eden : Q2C (gq_mul (List.last p gq_zero) (prod_others b bs))
            = lead_coef (QP2C p) * \prod_(b' <- map Q2C bs | b' != Q2C b) (Q2C b - b').
  by rewrite Q2C_mul // Epr QP2C_lead.
have nden : ~~ gq_is0 (gq_mul (List.last p gq_zero) (prod_others b bs)).
  by rewrite gq_is0P // Eden QP2C_lead // mulf_neq0 // prod_neq0.
have [wd Ed] := Q2C_div (wf_opp we) wden nden; split=> //.
by rewrite Ed Q2C_opp Ee Eden.
Qed.

Definition pair_wf (x : gq * gq) : bool := gq_wf x.1 && gq_wf x.2.

Lemma conv_secular_preP p bs : conv_secular_pre p bs ->
  [/\ all gq_wf p, all gq_wf bs, Q2C (List.last p gq_zero) != 0,
      size p = (size bs).+1 & uniq (map Q2C bs)].
Proof.
rewrite /conv_secular_pre !forallb_all => /andP [/andP [/andP [/andP [wp wbs] nz] len] nd].
split=> //; first by rewrite -gq_is0P // last_wf.
  by move/PeanoNat.Nat.eqb_eq: len; rewrite !List_length_size.
exact: nodes_distinctP.
Qed.

Lemma conv_secularP p bs : conv_secular_pre p bs ->
  all pair_wf (conv_secular p bs) /\
  ab2C C (conv_secular p bs) = regen (QP2C p) (map Q2C bs).
Proof.
case/conv_secular_preP => wp wbs nz _ _; rewrite /conv_secular /ab2C /regen List_map_map; split.
  rewrite all_map; apply/allP => b bin /=; rewrite /pair_wf /=.
  by have [-> _] := regen_coeffP wp wbs (allP wbs _ bin) nz; rewrite (allP wbs).
rewrite -!map_comp; apply/eq_in_map => b bin /=.
by have [_ ->] := regen_coeffP wp wbs (allP wbs _ bin) nz.
Qed.

(* the secular form the check generates from a polynomial p of degree n and n nodes has
   numerator polynomial p / lc(p): same roots, same multiplicities; and the extracted back
   conversion (Roots/Transform.v secular_poly) returns p / lc(p) *)
Theorem conv_secular_sound p bs : conv_secular_pre p bs ->
  let ab := ab2C C (conv_secular p bs) in
  [/\ uniq (poles ab),
      Q2C (List.last p gq_zero) *: (secD ab - secN ab) = QP2C p,
      Q2C (List.last p gq_zero) *: QP2C (secular_poly (conv_secular p bs)) = QP2C p
    & forall x, \mu_x (secD ab - secN ab) = \mu_x (QP2C p)].
Proof.
move=> pre; case/conv_secular_preP: (pre) => wp wbs nz sz un.
have [wab Eab] := conv_secularP pre; rewrite /= Eab.
have sp : size (QP2C p) = (size (map Q2C bs)).+1 by rewrite QP2C_size // size_map.
split; first by rewrite poles_regen.
- by rewrite -QP2C_lead // regen_sound.
- by rewrite secular_polyP // Eab -QP2C_lead // regen_sound.
- by move=> x; rewrite regen_mu.
Qed.

(* validated form: ANY secular data (e.g. proposed by untrusted code) that passes the extracted
   back-conversion test denotes a secular equation whose numerator polynomial is p / lc(p) *)
Lemma secular_poly_wf ab : all pair_wf ab -> all gq_wf (secular_poly ab).
Proof.
move=> /(secular_ndP C); rewrite /secular_poly; case: (secular_nd ab) => [N D] /= [wN wD _ _].
by have [] := qpsubP C wD wN.
Qed.

Theorem secular_back_sound p ab : all gq_wf p -> all pair_wf ab -> secular_back_ok p ab ->
  Q2C (List.last p gq_zero) *: (secD (ab2C C ab) - secN (ab2C C ab)) = QP2C p.
Proof.
move=> wp wab; have wl := last_wf wp; have ws := secular_poly_wf wab.
have [wq Eq] := qpscaleP C wl ws.
by move/(qp_eqbP wq wp); rewrite Eq secular_polyP.
Qed.

(* ---------- (5) Chebyshev basis ---------- *)
Lemma cheb_acc_wf cs t0 t1 : all gq_wf cs -> all gq_wf t0 -> all gq_wf t1 ->
  all gq_wf (cheb_acc cs t0 t1).
Proof.
elim: cs t0 t1 => [|c r IH] t0 t1 //= /andP [wc wr] w0 w1.
have wX : all gq_wf (gq_zero :: t1) by [].
have [w2 _] := @qpscaleP C gq_two _ isT wX.
have [w3 _] := qpsubP C w2 w0.
have [w4 _] := qpscaleP C wc w0.
by have [-> _] := qpaddP C w4 (IH _ _ wr w1 w3).
Qed.

Theorem chebyshev_back_sound p cs : all gq_wf p -> all gq_wf cs -> chebyshev_back_ok p cs ->
  QP2C p = \sum_(k < size cs) Q2C (nth gq_zero cs k) *: chebT C k.
Proof.
move=> wp wcs; have wacc := @cheb_acc_wf cs [:: gq_one] [:: gq_zero; gq_one] wcs isT isT.
move/(qp_eqbP wacc wp) => <-.
rewrite (@cheb_accP C cs _ _ 0%N wcs) //.
  by rewrite /TransformSound.QP2C /= !cons_poly_def mul0r add0r Q2C_one.
by rewrite /TransformSound.QP2C /= !cons_poly_def mul0r add0r Q2C_one Q2C_zero addr0 mul1r.
Qed.

(* chebT is the Chebyshev polynomial of the first kind: T_n((z + 1/z)/2) = (z^n + 1/z^n)/2,
   i.e. T_n(cos t) = cos(n t) on z = e^(it) *)
Theorem chebT_joukowski (z : C) n : z != 0 ->
  (chebT C n).[(z + z^-1) / 2%:R] = (z ^+ n + z ^- n) / 2%:R.
Proof.
move=> z0; have two0 : (2%:R : C) != 0 by rewrite pnatr_eq0.
suff: (chebT C n).[(z + z^-1) / 2%:R] = (z ^+ n + z ^- n) / 2%:R /\
      (chebT C n.+1).[(z + z^-1) / 2%:R] = (z ^+ n.+1 + z ^- n.+1) / 2%:R by case.
elim: n => [|n [IH0 IH1]].
  rewrite chebT0 chebT1 hornerC hornerX expr0 invr1 expr1; split=> //.
  by rewrite -mulr2n -[1 *+ 2]/(2%:R) divff.
split=> //; rewrite chebTSS hornerD hornerN hornerZ hornerM hornerX IH0 IH1.
rewrite -!exprVn !exprS; move: (z ^+ n) (z^-1 ^+ n) => a b.
by field.
Qed.

End ConvertBridge.
