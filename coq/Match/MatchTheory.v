(* C19: why two families of inclusion discs for the same simple roots can be matched
   one-to-one with intersecting discs.  MathComp style; no axioms. *)
From mathcomp Require Import all_ssreflect all_fingroup all_algebra.
Set Implicit Arguments. Unset Strict Implicit. Unset Printing Implicit Defensive.
Import Order.TTheory GRing.Theory Num.Theory.
Local Open Scope ring_scope.

Section Pigeonhole.
(* n roots (indexed by 'I_n), two families of n sets ("discs") over them *)
Variable n : nat.
Variables A B : 'I_n -> pred 'I_n.        (* A i r : root r lies in the i-th disc of family A *)

Hypothesis A_nonempty : forall i, exists r, A i r.
Hypothesis B_nonempty : forall i, exists r, B i r.
Hypothesis A_disjoint : forall i j r, A i r -> A j r -> i = j.
Hypothesis B_disjoint : forall i j r, B i r -> B j r -> i = j.

Lemma pick_inj (F : 'I_n -> pred 'I_n) :
  (forall i, exists r, F i r) -> (forall i j r, F i r -> F j r -> i = j) ->
  exists2 f : 'I_n -> 'I_n, injective f & forall i, F i (f i).
Proof.
move=> ne dj.
have wit i : {r : 'I_n | F i r} by apply: sigW; case: (ne i) => r Hr; exists r.
exists (fun i => sval (wit i)); last by move=> i; exact: (svalP (wit i)).
move=> i j eq; apply: (dj i j (sval (wit i))); first exact: (svalP (wit i)).
by rewrite eq; exact: (svalP (wit j)).
Qed.

(* every disc of A shares a root with exactly the disc of B it is matched to,
   and the matching is a permutation *)
Theorem matching_exists :
  exists s : {perm 'I_n}, forall i, exists r, A i r && B (s i) r.
Proof.
have [fa fa_inj fa_in] := pick_inj A_nonempty A_disjoint.
have [fb fb_inj fb_in] := pick_inj B_nonempty B_disjoint.
have fb_bij : bijective fb by apply: injF_bij.
case: fb_bij => gb fbK gbK.
pose s0 := fun i => gb (fa i).
have s0_inj : injective s0.
  move=> i j; rewrite /s0 => /(congr1 fb); rewrite !gbK; exact: fa_inj.
exists (perm s0_inj) => i; exists (fa i).
by rewrite permE /s0 fa_in /= -{2}(gbK (fa i)) fb_in.
Qed.

(* in particular every root lies in exactly one disc of each family *)
Lemma each_root_covered (F : 'I_n -> pred 'I_n) :
  (forall i, exists r, F i r) -> (forall i j r, F i r -> F j r -> i = j) ->
  forall r, exists i, F i r.
Proof.
move=> ne dj r; have [f f_inj f_in] := pick_inj ne dj.
have [g fK gK] : bijective f by apply: injF_bij.
by exists (g r); rewrite -{2}(gK r).
Qed.
End Pigeonhole.

Section Geometry.
Variable C : numClosedFieldType.
(* two closed discs that share a point intersect in the sense tested by the checker:
   the distance of the centres is at most the sum of the radii *)
Lemma shared_point_intersect (a b z : C) (ra rb : C) :
  `|a - z| <= ra -> `|b - z| <= rb -> `|a - b| <= ra + rb.
Proof.
move=> Ha Hb.
have -> : a - b = (a - z) - (b - z) by rewrite opprB addrA subrK.
apply: le_trans (ler_norm_sub _ _) _.
by apply: ler_add.
Qed.

(* conversely the point on the segment shows the predicate is exactly "the discs meet"
   when radii are nonnegative reals: we only need the direction above for soundness of a
   reported matching, and this one for the meaning of a verified matching *)
Lemma intersect_shared_point (a b : C) (ra rb : C) :
  0 <= ra -> 0 <= rb -> `|a - b| <= ra + rb ->
  exists z, `|a - z| <= ra /\ `|b - z| <= rb.
Proof.
move=> ra0 rb0 H.
case: (eqVneq (ra + rb) 0) => [s0|sn0].
  exists a; rewrite subrr normr0; split=> //.
  have: `|a - b| <= 0 by rewrite -s0.
  rewrite normr_le0 subr_eq0 => /eqP <-.
  by rewrite subrr normr0.
have spos : 0 < ra + rb by rewrite lt_def sn0 addr_ge0.
pose t := ra / (ra + rb).
exists (a + t * (b - a)).
have t_ge0 : 0 <= t by rewrite divr_ge0 // ltW.
have t1_ge0 : 0 <= 1 - t.
  by rewrite /t subr_ge0 ler_pdivr_mulr // mul1r ler_addl.
split.
- rewrite opprD addrA subrr add0r normrN normrM (ger0_norm t_ge0) -normrN opprB.
  rewrite /t -mulrA ler_pimulr // ler_pdivr_mull // mulr1; exact: H.
- have -> : b - (a + t * (b - a)) = (1 - t) * (b - a).
    by rewrite mulrBl mul1r opprD addrA.
  rewrite normrM (ger0_norm t1_ge0) -normrN opprB.
  have -> : 1 - t = rb / (ra + rb).
    by rewrite /t -{1}(divff sn0) -mulrBl addrC addKr.
  rewrite -mulrA ler_pimulr // ler_pdivr_mull // mulr1; exact: H.
Qed.
End Geometry.
