(* C19: the exact conversions between equivalent formulations that the check feeds to the solver,
   as executable functions on Gaussian rationals (numerator in Z[i], non-zero integer denominator;
   representation and +,*,- of Roots/Transform.v).  Definitions only (extracted by
   Extract/Extract_matchq.v); theorems in ConvertProps.v.  Plain stdlib. *)
From Coq Require Import ZArith List Bool.
From MPSV Require Import Roots.GaussZ Roots.PolyZ Roots.Cert Roots.Transform.
Import ListNotations.
Open Scope Z_scope.

Definition gq_sub (x y : gq) : gq := gq_add x (gq_opp y).
(* 1/(g/d) = d * conj(g) / |g|^2   (g <> 0) *)
Definition gq_inv (x : gq) : gq :=
  (gscale (snd x) (fst (fst x), - snd (fst x)), gnorm2 (fst x)).
Definition gq_div (x y : gq) : gq := gq_mul x (gq_inv y).
Definition gq_is0 (x : gq) : bool := gis0 (fst x).
(* equality of the denoted numbers: cross multiplication *)
Definition gq_eqb (x y : gq) : bool :=
  geqb (gscale (snd y) (fst x)) (gscale (snd x) (fst y)).

(* Horner evaluation, coefficients low degree first *)
Fixpoint qp_eval (p : qpoly) (x : gq) : gq :=
  match p with
  | [] => gq_zero
  | a :: r => gq_add a (gq_mul x (qp_eval r x))
  end.

(* equality of the denoted polynomials (tolerates trailing zero coefficients) *)
Definition qp_is0 (p : qpoly) : bool := forallb gq_is0 p.
Fixpoint qp_eqb (p q : qpoly) : bool :=
  match p, q with
  | [], _ => qp_is0 q
  | _, [] => qp_is0 p
  | a :: p', b :: q' => gq_eqb a b && qp_eqb p' q'
  end.

(* (1) all coefficients multiplied by a constant *)
Definition conv_scale (c : gq) (p : qpoly) : qpoly := qpscale c p.

(* (2) variable rescaled: coefficients of p(alpha x); pw = alpha^k at position k *)
Fixpoint rescale_from (pw alpha : gq) (p : qpoly) : qpoly :=
  match p with
  | [] => []
  | a :: r => gq_mul pw a :: rescale_from (gq_mul alpha pw) alpha r
  end.
Definition conv_rescale (alpha : gq) (p : qpoly) : qpoly := rescale_from gq_one alpha p.

(* (3) coefficient order reversed *)
Definition conv_reverse (p : qpoly) : qpoly := rev p.

(* (4) polynomial -> secular form on given nodes (the regeneration formula of
   secular-regeneration.c, exact):  a_i = - p(b_i) / (lc(p) * prod_(j<>i) (b_i - b_j)) *)
Definition prod_others (b : gq) (bs : list gq) : gq :=
  fold_right (fun b' acc => if gq_eqb b' b then acc else gq_mul (gq_sub b b') acc) gq_one bs.
Definition regen_coeff (p : qpoly) (bs : list gq) (b : gq) : gq :=
  gq_div (gq_opp (qp_eval p b)) (gq_mul (last p gq_zero) (prod_others b bs)).
Definition conv_secular (p : qpoly) (bs : list gq) : list (gq * gq) :=
  map (fun b => (regen_coeff p bs b, b)) bs.

Fixpoint nodes_distinct (bs : list gq) : bool :=
  match bs with
  | [] => true
  | b :: r => negb (existsb (gq_eqb b) r) && nodes_distinct r
  end.
Definition gq_wfb (x : gq) : bool := negb (snd x =? 0).
(* the preconditions of the regeneration theorem, decidable on the data *)
Definition conv_secular_pre (p : qpoly) (bs : list gq) : bool :=
  forallb gq_wfb p && forallb gq_wfb bs && negb (gq_is0 (last p gq_zero)) &&
  Nat.eqb (length p) (S (length bs)) && nodes_distinct bs.

(* (5) monomial -> Chebyshev basis: the coefficients are PROPOSED by untrusted code and accepted only
   if the verified Chebyshev -> monomial conversion below gives the polynomial back. *)

(* validated back conversions (Roots/Transform.v functions, proved sound in TransformSound.v) *)
Definition secular_back_ok (p : qpoly) (ab : list (gq * gq)) : bool :=
  qp_eqb (qpscale (last p gq_zero) (secular_poly ab)) p.
Definition chebyshev_back_ok (p : qpoly) (cs : list gq) : bool :=
  qp_eqb (cheb_acc cs [gq_one] [gq_zero; gq_one]) p.
