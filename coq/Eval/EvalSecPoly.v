(* C14 -- the PRODUCT FORM of the secular evaluators, mps_secular_poly_{f,d,m}eval_with_error:
   P^ = fl(-1 * fl(... fl(S^ * fl(x-b_1)) ... * fl(x-b_n))), a-priori bound, first-order form,
   and the error estimate AS CODED (rounded real arithmetic included) under an explicit guard-bit
   hypothesis. *)
Require Import Reals List Lra Lia.
From Coquelicot Require Import Complex.
Require Import MPSV.Eval.EvalModel MPSV.Eval.EvalExact MPSV.Eval.EvalRounded.
Import ListNotations.
Local Open Scope R_scope.

(* ------------------------------------------------------------------ value: product loop *)
Lemma prod_step_err : forall A mu v ve x b g V,
  std_model mu A -> 1 <= g -> Cmod ve <= V -> Cmod (v - ve)%C <= (g - 1) * V ->
  Cmod (fmul A v (fsub A x b) - ve * (x - b))%C
    <= (g * ((1 + mu) * (1 + mu)) - 1) * (V * Cmod (x - b)%C)
  /\ Cmod (ve * (x - b))%C <= V * Cmod (x - b)%C.
Proof.
  intros A mu v ve x b g V (Hmu & _ & Hsub & Hmul & _) Hg Hve Herr.
  set (d := (x - b)%C). set (dh := fsub A x b).
  pose proof (Hsub x b) as Hd. fold d dh in Hd.
  pose proof (Hmul v dh) as Hm. rewrite Cmod_mult in Hm.
  pose proof (Cmod_ge_0 d) as Hd0. pose proof (Cmod_ge_0 ve) as Hve0.
  pose proof (Cmod_ge_0 v) as Hv0. pose proof (Cmod_ge_0 dh) as Hdh0.
  set (D := Cmod d) in *.
  assert (HV : 0 <= V) by lra.
  assert (Hv : Cmod v <= g * V).
  { replace v with ((v - ve) + ve)%C by ring. eapply Rle_trans; [apply Cmod_triangle|]. lra. }
  assert (Hdh : Cmod dh <= (1 + mu) * D).
  { replace dh with ((dh - d) + d)%C by ring. eapply Rle_trans; [apply Cmod_triangle|]. fold D. lra. }
  split.
  - replace (fmul A v dh - ve * d)%C
      with ((fmul A v dh - v * dh) + (v * (dh - d) + (v - ve) * d))%C by ring.
    eapply Rle_trans; [apply Cmod_triangle|].
    eapply Rle_trans; [apply Rplus_le_compat_l; apply Cmod_triangle|].
    rewrite !Cmod_mult. fold D.
    set (W := V * D). assert (HW : 0 <= W) by (unfold W; apply Rmult_le_pos; lra).
    assert (P1 : Cmod v * Cmod dh <= g * (1 + mu) * W).
    { unfold W. replace (g * (1 + mu) * (V * D)) with ((g * V) * ((1 + mu) * D)) by ring.
      apply Rmult_le_compat; lra. }
    assert (P1' : mu * (Cmod v * Cmod dh) <= mu * (g * (1 + mu) * W)) by (apply Rmult_le_compat_l; lra).
    assert (P2 : Cmod v * Cmod (dh - d)%C <= g * mu * W).
    { unfold W. replace (g * mu * (V * D)) with ((g * V) * (mu * D)) by ring.
      apply Rmult_le_compat; try lra. apply Cmod_ge_0. }
    assert (P3 : Cmod (v - ve)%C * D <= (g - 1) * W).
    { unfold W. replace ((g - 1) * (V * D)) with (((g - 1) * V) * D) by ring.
      apply Rmult_le_compat_r; lra. }
    replace ((g * ((1 + mu) * (1 + mu)) - 1) * W)
      with (mu * (g * (1 + mu) * W) + (g * mu * W + (g - 1) * W)) by ring.
    lra.
  - rewrite Cmod_mult. fold D. apply Rmult_le_compat_r; lra.
Qed.

Lemma sec_prod_invariant : forall A mu ab x v ve g V,
  std_model mu A -> 1 <= g -> Cmod ve <= V -> Cmod (v - ve)%C <= (g - 1) * V ->
  Cmod (sec_prod_fl A ab x v - ve * sec_prodC ab x)%C
    <= (g * (1 + mu) ^ (2 * length ab) - 1) * (V * Cmod (sec_prodC ab x)).
Proof.
  intros A mu ab x v ve g V HA. revert v ve g V.
  induction ab as [|[a b] r IH]; intros v ve g V Hg Hve Herr.
  - cbn [sec_prod_fl sec_prodC length]. rewrite Nat.mul_0_r, pow_O, Cmod_1, !Rmult_1_r.
    replace (ve * RtoC 1)%C with ve by ring. exact Herr.
  - cbn [sec_prod_fl sec_prodC length].
    destruct (prod_step_err A mu v ve x b g V HA Hg Hve Herr) as [E1 M1].
    assert (Hmu : 0 <= mu) by (destruct HA; assumption).
    assert (Hg' : 1 <= g * ((1 + mu) * (1 + mu))).
    { assert (1 <= (1 + mu) * (1 + mu)) by nra. nra. }
    pose proof (IH (fmul A v (fsub A x b)) (ve * (x - b))%C (g * ((1 + mu) * (1 + mu)))
                  (V * Cmod (x - b)%C) Hg' M1 E1) as R.
    replace (ve * ((x - b) * sec_prodC r x))%C with (ve * (x - b) * sec_prodC r x)%C by ring.
    eapply Rle_trans; [exact R|]. apply Req_le.
    rewrite Cmod_mult.
    replace (2 * S (length r))%nat with (S (S (2 * length r))) by lia. simpl pow. ring.
Qed.

Lemma sec_exact_le : forall ab x, all_ne ab x -> Cmod (sec_exact ab x) <= sec_abs ab x + 1.
Proof.
  intros ab x Hne. unfold sec_exact.
  eapply Rle_trans; [apply Cmod_triangle|]. rewrite Cmod_opp, Cmod_1.
  pose proof (sec_terms_le_abs ab x Hne). lra.
Qed.

(* |P^ - P| <= ((1+nu)(1+mu)^(3n+2) - 1) (sum|a_i|/|x-b_i| + 1) prod|x-b_i| *)
Theorem secular_poly_apriori : forall (A : arith) (mu : R) (ab : list (C * C)) (x : C),
  std_model mu A -> mu < 1 -> all_ne ab x ->
  exists p, sec_poly_fl A ab x = Some p /\
    Cmod (p - sec_poly_exact ab x)%C
      <= ((1 + 2 * mu / (1 - mu)) * (1 + mu) ^ (3 * length ab + 2) - 1)
         * ((sec_abs ab x + 1) * Cmod (sec_prodC ab x)).
Proof.
  intros A mu ab x HA Hmu1 Hne.
  destruct (secular_sum_apriori A mu ab x HA Hmu1 Hne) as [s [Hs He]].
  unfold sec_poly_fl. rewrite Hs. eexists; split; [reflexivity|].
  assert (Hmu : 0 <= mu) by (destruct HA; assumption).
  set (nu := 2 * mu / (1 - mu)) in *.
  assert (Hnu : 0 <= nu).
  { unfold nu, Rdiv. apply Rmult_le_pos; [lra|]. apply Rlt_le, Rinv_0_lt_compat. lra. }
  set (n := length ab) in *.
  set (g0 := (1 + nu) * (1 + mu) ^ (n + 1)) in *.
  assert (Hg0 : 1 <= g0).
  { unfold g0. pose proof (pow1_ge_1 mu (n + 1) Hmu). nra. }
  set (V := sec_abs ab x + 1) in *.
  pose proof (sec_exact_le ab x Hne) as HV. fold V in HV.
  pose proof (sec_prod_invariant A mu ab x s (sec_exact ab x) g0 V HA Hg0 HV He) as R. fold n in R.
  set (w := sec_prod_fl A ab x s) in *. set (pe := (sec_exact ab x * sec_prodC ab x)%C) in *.
  set (g1 := g0 * (1 + mu) ^ (2 * n)) in *.
  set (W := V * Cmod (sec_prodC ab x)) in *.
  assert (HW : 0 <= W).
  { unfold W. apply Rmult_le_pos; [|apply Cmod_ge_0]. pose proof (Cmod_ge_0 (sec_exact ab x)). lra. }
  assert (Hpe : Cmod pe <= W).
  { unfold pe, W. rewrite Cmod_mult. apply Rmult_le_compat_r; [apply Cmod_ge_0|exact HV]. }
  assert (Hw : Cmod w <= g1 * W).
  { replace w with ((w - pe) + pe)%C by ring. eapply Rle_trans; [apply Cmod_triangle|]. lra. }
  destruct HA as (_ & _ & _ & Hmul & _).
  assert (Hm1 : Cmod (RtoC (-1)) = 1) by (rewrite Cmod_R; unfold Rabs; destruct (Rcase_abs (-1)); lra).
  pose proof (Hmul w (RtoC (-1))) as Hm. rewrite Cmod_mult, Hm1, Rmult_1_r in Hm.
  unfold sec_poly_exact. fold pe.
  replace (fmul A w (RtoC (-1)) - - pe)%C
    with ((fmul A w (RtoC (-1)) - w * RtoC (-1)) + - (w - pe))%C.
  2:{ assert (Hneg : RtoC (-1) = (- RtoC 1)%C) by (apply injective_projections; simpl; lra).
      rewrite Hneg. ring. }
  eapply Rle_trans; [apply Cmod_triangle|]. rewrite Cmod_opp.
  assert (mu * Cmod w <= mu * (g1 * W)) by (apply Rmult_le_compat_l; lra).
  replace ((1 + nu) * (1 + mu) ^ (3 * n + 2)) with (g1 * (1 + mu)).
  2:{ unfold g1, g0. replace (3 * n + 2)%nat with ((n + 1) + 2 * n + 1)%nat by lia.
      rewrite !pow_add. simpl pow. ring. }
  lra.
Qed.

(* first-order form, as used by the check:  (1+nu)(1+mu)^(3n+2) - 1 <= (10/9)(3n+4) mu *)
Lemma sec_poly_factor_linear : forall mu n, 0 <= mu -> INR (3 * n + 4) * mu <= 1 / 10 ->
  (1 + 2 * mu / (1 - mu)) * (1 + mu) ^ (3 * n + 2) - 1 <= 10 / 9 * (INR (3 * n + 4) * mu).
Proof.
  intros mu n Hmu Hy.
  pose proof (gamma_bound mu (3 * n + 3) Hmu) as H.
  assert (HI : INR (3 * n + 4) = INR (3 * n + 3) + 1).
  { replace (3 * n + 4)%nat with (S (3 * n + 3)) by lia. apply S_INR. }
  pose proof (pos_INR (3 * n + 3)) as Hk.
  set (k := INR (3 * n + 3)) in *. rewrite HI in *.
  set (y := (k + 1) * mu) in *.
  assert (Hy0 : 0 <= y) by (unfold y; nra).
  assert (Hmuy : mu <= y) by (unfold y; nra).
  assert (Hmu1 : mu <= 1 / 10) by lra.
  replace ((1 + mu) ^ (3 * n + 2)) with ((1 + mu) ^ (3 * n + 3) / (1 + mu)).
  2:{ replace (3 * n + 3)%nat with (S (3 * n + 2)) by lia. simpl pow. field. lra. }
  set (G := (1 + mu) ^ (3 * n + 3)) in *.
  assert (HG0 : 0 <= G) by (apply pow_le; lra).
  replace ((1 + 2 * mu / (1 - mu)) * (G / (1 + mu))) with (G / (1 - mu)) by (field; lra).
  assert (Hkm : k * mu = y - mu) by (unfold y; ring). rewrite Hkm in H.
  (* G (1 - y + mu) <= 1  and  1 <= (1 - y + mu)(1 - mu)(1 + 10/9 y) *)
  assert (E1 : 1 - y <= (1 - y + mu) * (1 - mu)) by nra.
  assert (E2 : 1 <= (1 - y) * (1 + 10 / 9 * y)) by nra.
  assert (E3 : 1 <= (1 - y + mu) * ((1 - mu) * (1 + 10 / 9 * y))).
  { assert (0 <= 1 + 10 / 9 * y) by lra. nra. }
  assert (E4 : G <= (1 - mu) * (1 + 10 / 9 * y)).
  { apply Rmult_le_reg_r with (1 - y + mu); [lra|].
    replace (1 - y + mu) with (1 - (y - mu)) in * by ring.
    eapply Rle_trans; [exact H|]. rewrite Rmult_comm. exact E3. }
  apply Rmult_le_reg_r with (1 - mu); [lra|].
  replace ((G / (1 - mu) - 1) * (1 - mu)) with (G - (1 - mu)) by (field; lra).
  lra.
Qed.

Corollary secular_poly_apriori_linear : forall (A : arith) (mu : R) (ab : list (C * C)) (x : C),
  std_model mu A -> all_ne ab x -> INR (3 * length ab + 4) * mu <= 1 / 10 ->
  exists p, sec_poly_fl A ab x = Some p /\
    Cmod (p - sec_poly_exact ab x)%C
      <= 10 / 9 * (INR (3 * length ab + 4) * mu) * ((sec_abs ab x + 1) * Cmod (sec_prodC ab x)).
Proof.
  intros A mu ab x HA Hne Hy.
  assert (Hmu : 0 <= mu) by (destruct HA; assumption).
  assert (Hmu1 : mu < 1).
  { pose proof (pos_INR (3 * length ab + 3)).
    replace (3 * length ab + 4)%nat with (S (3 * length ab + 3)) in Hy by lia. rewrite S_INR in Hy. nra. }
  destruct (secular_poly_apriori A mu ab x HA Hmu1 Hne) as [p [Hp He]].
  exists p. split; [exact Hp|]. eapply Rle_trans; [exact He|].
  apply Rmult_le_compat_r.
  - apply Rmult_le_pos; [|apply Cmod_ge_0]. pose proof (sec_abs_ge_0 ab x). lra.
  - apply sec_poly_factor_linear; assumption.
Qed.

(* ------------------------------------------------------------------ the estimate as coded *)
Section Estimate.
  Variables (A : arith) (Ra : rarith) (mu eta : R).
  Hypothesis HA : std_model mu A.
  Hypothesis HR : rstd_model eta Ra.
  Hypothesis Hmu3 : mu <= 1 / 3.
  Hypothesis Heta1 : eta <= 1.

  Let Hmu : 0 <= mu. Proof. destruct HA; assumption. Qed.
  Let Heta : 0 <= eta. Proof. destruct HR; assumption. Qed.
  Let rho := 1 - eta.
  Let Hrho : 0 <= rho <= 1. Proof. unfold rho. pose proof Heta. lra. Qed.
  Let nu := 2 * mu / (1 - mu).
  Let Hnu : 0 <= nu <= 1.
  Proof.
    unfold nu. pose proof Hmu. split.
    - unfold Rdiv. apply Rmult_le_pos; [lra|]. apply Rlt_le, Rinv_0_lt_compat. lra.
    - apply Rmult_le_reg_r with (1 - mu); [lra|]. unfold Rdiv. rewrite Rmult_assoc, Rinv_l; lra.
  Qed.
  Let Hradd : forall a b, 0 <= a -> 0 <= b -> rho * (a + b) <= radd Ra a b.
  Proof. destruct HR as (_ & H & _). intros a b Ha Hb. apply (H a b Ha Hb). Qed.
  Let Hrmul : forall a b, 0 <= a -> 0 <= b -> rho * (a * b) <= rmul Ra a b.
  Proof. destruct HR as (_ & _ & H & _). intros a b Ha Hb. apply (H a b Ha Hb). Qed.
  Let Hrmod : forall z, rho * Cmod z <= rmod Ra z.
  Proof. destruct HR as (_ & _ & _ & H). intros z. apply (H z). Qed.

  Lemma rho_pow_le : forall k, 0 <= rho ^ k <= 1.
  Proof.
    intros k. pose proof Hrho. split; [apply pow_le; lra|].
    rewrite <- (pow1 k). apply pow_incr. lra.
  Qed.

  (* the summation loop: same value as sec_sum_fl, estimate bounded from below *)
  Lemma sec_est_sum_spec : forall ab x acc i e, all_ne ab x -> 0 <= e ->
    exists s e', sec_est_sum A Ra ab x acc i e = Some (s, e') /\ sec_sum_fl A ab x acc = Some s /\
      rho ^ (3 * length ab) * (e + (1 - nu) * sec_abs ab x) <= e'.
  Proof.
    induction ab as [|[a b] r IH]; intros x acc i e Hne He.
    - exists acc, e. cbn [sec_est_sum sec_sum_fl sec_abs length]. repeat split. simpl. lra.
    - inversion Hne as [|p q Hxb Hne']; subst. simpl in Hxb.
      assert (Hmu1 : mu < 1) by lra.
      destruct (sec_term_error A mu a b x HA Hmu1 Hxb) as [Hd Ht].
      cbn [sec_est_sum sec_sum_fl]. destruct (Ceq_dec (fsub A x b) (RtoC 0)) as [E|_]; [contradiction|].
      set (t := fdiv A a (fsub A x b)) in *.
      set (tau := Cmod a / Cmod (x - b)%C) in *.
      assert (Htau : 0 <= tau).
      { pose proof (sec_abs_ge_0 [(a, b)] x) as H. simpl in H. fold tau in H. lra. }
      assert (Htm : Cmod (a / (x - b))%C = tau).
      { unfold tau. apply Cmod_div. intro E. apply Hxb.
        replace x with ((x - b) + b)%C by ring. rewrite E. ring. }
      fold nu in Ht.
      assert (Htl : (1 - nu) * tau <= Cmod t).
      { assert (Cmod (a / (x - b))%C <= Cmod t + Cmod (t - a / (x - b))%C).
        { replace (a / (x - b))%C with (t + - (t - a / (x - b)))%C at 1 by ring.
          eapply Rle_trans; [apply Cmod_triangle|]. rewrite Cmod_opp. lra. }
        lra. }
      pose proof (Cmod_ge_0 t) as Ht0.
      pose proof Hrho as Hr. pose proof Hnu as Hn.
      set (w := INR (i + 2)).
      assert (Hw : 1 <= w).
      { unfold w. replace (i + 2)%nat with (S (S i)) by lia. rewrite !S_INR. pose proof (pos_INR i). lra. }
      pose proof (Hrmod t) as Hm.
      assert (Hm0 : 0 <= rmod Ra t).
      { eapply Rle_trans; [|exact Hm]. apply Rmult_le_pos; lra. }
      pose proof (Hrmul (rmod Ra t) w Hm0 ltac:(lra)) as Hp.
      assert (Hp1 : rho * (rho * Cmod t) <= rmul Ra (rmod Ra t) w).
      { eapply Rle_trans; [|exact Hp]. apply Rmult_le_compat_l; [lra|].
        assert (rho * Cmod t * 1 <= rmod Ra t * w); [|lra].
        apply Rmult_le_compat; try lra. apply Rmult_le_pos; lra. }
      assert (Hp0 : 0 <= rmul Ra (rmod Ra t) w).
      { eapply Rle_trans; [|exact Hp1]. apply Rmult_le_pos; [lra|apply Rmult_le_pos; lra]. }
      pose proof (Hradd e _ He Hp0) as Hs.
      set (e1 := radd Ra e (rmul Ra (rmod Ra t) w)) in *.
      assert (He1 : rho * rho * rho * (e + (1 - nu) * tau) <= e1).
      { eapply Rle_trans; [|exact Hs].
        replace (rho * rho * rho * (e + (1 - nu) * tau)) with (rho * (rho * rho * (e + (1 - nu) * tau))) by ring.
        apply Rmult_le_compat_l; [lra|].
        assert (rho * rho * e <= e).
        { assert (rho * rho <= 1) by nra. nra. }
        assert (rho * rho * ((1 - nu) * tau) <= rho * (rho * Cmod t)).
        { rewrite Rmult_assoc. apply Rmult_le_compat_l; [lra|]. apply Rmult_le_compat_l; lra. }
        lra. }
      assert (He10 : 0 <= e1).
      { eapply Rle_trans; [|exact He1]. apply Rmult_le_pos; [|].
        - apply Rmult_le_pos; [apply Rmult_le_pos|]; lra.
        - assert (0 <= (1 - nu) * tau) by (apply Rmult_le_pos; lra). lra. }
      destruct (IH x (fadd A acc t) (S i) e1 Hne' He10) as [s [e' [H1 [H2 H3]]]].
      exists s, e'. split; [exact H1|]. split; [exact H2|].
      eapply Rle_trans; [|exact H3].
      cbn [sec_abs length]. fold tau.
      replace (3 * S (length r))%nat with (3 * length r + 3)%nat by lia.
      rewrite pow_add. pose proof (rho_pow_le (3 * length r)) as [Hq0 Hq1].
      rewrite Rmult_assoc. apply Rmult_le_compat_l; [exact Hq0|].
      pose proof (sec_abs_ge_0 r x) as Hsr.
      assert (Hr3 : rho ^ 3 * ((1 - nu) * sec_abs r x) <= (1 - nu) * sec_abs r x).
      { pose proof (rho_pow_le 3) as [G0 G1].
        assert (0 <= (1 - nu) * sec_abs r x) by (apply Rmult_le_pos; lra). nra. }
      replace (rho ^ 3) with (rho * rho * rho) in * by (simpl; ring).
      replace (rho * rho * rho * (e + (1 - nu) * (tau + sec_abs r x)))
        with (rho * rho * rho * (e + (1 - nu) * tau) + rho * rho * rho * ((1 - nu) * sec_abs r x)) by ring.
      lra.
  Qed.

  (* the product loop: same value as sec_prod_fl, estimate multiplied by at least (rho^2 (1-mu)) |x-b_i| *)
  Lemma sec_poly_est_loop_spec : forall ab x v e, 0 <= e ->
    fst (sec_poly_est_loop A Ra ab x v e) = sec_prod_fl A ab x v /\
    (rho * rho * (1 - mu)) ^ length ab * (e * Cmod (sec_prodC ab x)) <= snd (sec_poly_est_loop A Ra ab x v e).
  Proof.
    induction ab as [|[a b] r IH]; intros x v e He.
    - cbn [sec_poly_est_loop sec_prod_fl sec_prodC length fst snd]. rewrite Cmod_1. simpl. split; [reflexivity|lra].
    - cbn [sec_poly_est_loop sec_prod_fl sec_prodC length].
      set (dh := fsub A x b). set (d := (x - b)%C).
      destruct HA as (_ & _ & Hsub & _).
      pose proof (Hsub x b) as Hd. fold d dh in Hd.
      assert (Hlow : (1 - mu) * Cmod d <= Cmod dh).
      { assert (Cmod d <= Cmod dh + Cmod (dh - d)%C).
        { replace d with (dh + - (dh - d))%C at 1 by ring.
          eapply Rle_trans; [apply Cmod_triangle|]. rewrite Cmod_opp. lra. }
        lra. }
      pose proof (Cmod_ge_0 d) as Hd0. pose proof (Cmod_ge_0 dh) as Hdh0.
      pose proof Hrho as Hr. pose proof Hmu as Hm0.
      pose proof (Hrmod dh) as Hm.
      assert (Hm00 : 0 <= rmod Ra dh).
      { eapply Rle_trans; [|exact Hm]. apply Rmult_le_pos; lra. }
      pose proof (Hrmul e (rmod Ra dh) He Hm00) as Hp.
      set (e1 := rmul Ra e (rmod Ra dh)) in *.
      set (c := rho * rho * (1 - mu)).
      assert (Hc : 0 <= c) by (unfold c; apply Rmult_le_pos; [apply Rmult_le_pos|]; lra).
      assert (He1 : c * (e * Cmod d) <= e1).
      { eapply Rle_trans; [|exact Hp]. unfold c.
        replace (rho * rho * (1 - mu) * (e * Cmod d)) with (rho * (e * (rho * ((1 - mu) * Cmod d)))) by ring.
        apply Rmult_le_compat_l; [lra|]. apply Rmult_le_compat_l; [lra|].
        eapply Rle_trans; [|exact Hm]. apply Rmult_le_compat_l; lra. }
      assert (He10 : 0 <= e1).
      { eapply Rle_trans; [|exact He1]. apply Rmult_le_pos; [exact Hc|apply Rmult_le_pos; lra]. }
      destruct (IH x (fmul A v dh) e1 He10) as [F S]. split; [exact F|].
      eapply Rle_trans; [|exact S]. fold c. simpl pow. rewrite Cmod_mult. fold d.
      pose proof (Cmod_ge_0 (sec_prodC r x)) as Hp0.
      assert (Hcn : 0 <= c ^ length r) by (apply pow_le; exact Hc).
      replace (c * c ^ length r * (e * (Cmod d * Cmod (sec_prodC r x))))
        with (c ^ length r * ((c * (e * Cmod d)) * Cmod (sec_prodC r x))) by ring.
      apply Rmult_le_compat_l; [exact Hcn|]. apply Rmult_le_compat_r; [exact Hp0|exact He1].
  Qed.

  (* The estimate returned by mps_secular_poly_*eval_with_error bounds the actual error of the returned
     value PROVIDED the arithmetic really used (mu for the complex operations, eta for the real ones of
     the estimate) has guard bits with respect to the declared unit u4:
        (1+nu)(1+mu)^(3n+2) - 1  <=  u4 (1-eta)^(5n+2) (1-mu)^n (1-nu).
     The left side grows like (3n+4) mu: the number of guard bits needed grows with log2 n. *)
  Theorem secular_poly_estimate_bounds_error : forall (u4 : R) (ab : list (C * C)) (x : C),
    0 <= u4 -> all_ne ab x ->
    (1 + nu) * (1 + mu) ^ (3 * length ab + 2) - 1
      <= u4 * ((1 - eta) ^ (5 * length ab + 2) * (1 - mu) ^ length ab * (1 - nu)) ->
    exists p e, sec_poly_est_fl A Ra u4 ab x = Some (p, e) /\ sec_poly_fl A ab x = Some p /\
      Cmod (p - sec_poly_exact ab x)%C <= e.
  Proof.
    intros u4 ab x Hu4 Hne Hguard.
    assert (Hmu1 : mu < 1) by lra.
    destruct (secular_poly_apriori A mu ab x HA Hmu1 Hne) as [p [Hp Herr]]. fold nu in Herr.
    destruct (sec_est_sum_spec ab x (RtoC 0) 0%nat 0 Hne (Rle_refl 0)) as [s [e' [H1 [H2 H3]]]].
    unfold sec_poly_est_fl, sec_est_fl. rewrite H1.
    pose proof Hp as Hp0. unfold sec_poly_fl, sec_fl in Hp. rewrite H2 in Hp.
    set (n := length ab) in *.
    pose proof Hrho as Hr. pose proof Hnu as Hn. pose proof Hmu as Hm0.
    pose proof (sec_abs_ge_0 ab x) as HSa. set (Sa := sec_abs ab x) in *.
    rewrite Rplus_0_l in H3.
    pose proof (rho_pow_le (3 * n)) as [Hq0 Hq1].
    assert (He'0 : 0 <= e').
    { eapply Rle_trans; [|exact H3]. apply Rmult_le_pos; [exact Hq0|apply Rmult_le_pos; lra]. }
    pose proof (Hradd e' 1 He'0 ltac:(lra)) as Ha1.
    assert (Ha10 : 0 <= radd Ra e' 1).
    { eapply Rle_trans; [|exact Ha1]. apply Rmult_le_pos; lra. }
    pose proof (Hrmul (radd Ra e' 1) u4 Ha10 Hu4) as He2.
    set (e2 := rmul Ra (radd Ra e' 1) u4) in *.
    (* e2 >= rho^(3n+2) (1-nu) (Sa+1) u4 *)
    assert (L2 : rho ^ (3 * n + 2) * ((1 - nu) * (Sa + 1)) * u4 <= e2).
    { eapply Rle_trans; [|exact He2].
      rewrite pow_add. change (rho ^ 2) with (rho * (rho * 1)).
      replace (rho ^ (3 * n) * (rho * (rho * 1)) * ((1 - nu) * (Sa + 1)) * u4)
        with (rho * ((rho * (rho ^ (3 * n) * ((1 - nu) * (Sa + 1)))) * u4)) by ring.
      apply Rmult_le_compat_l; [lra|]. apply Rmult_le_compat_r; [exact Hu4|].
      eapply Rle_trans; [|exact Ha1]. apply Rmult_le_compat_l; [lra|].
      assert (rho ^ (3 * n) * ((1 - nu) * 1) <= 1).
      { assert (0 <= 1 - nu <= 1) by lra. nra. }
      replace (rho ^ (3 * n) * ((1 - nu) * (Sa + 1)))
        with (rho ^ (3 * n) * ((1 - nu) * Sa) + rho ^ (3 * n) * ((1 - nu) * 1)) by ring.
      lra. }
    assert (He20 : 0 <= e2).
    { eapply Rle_trans; [|exact L2]. apply Rmult_le_pos; [|exact Hu4].
      apply Rmult_le_pos; [apply rho_pow_le|apply Rmult_le_pos; lra]. }
    destruct (sec_poly_est_loop_spec ab x (fsub A s (RtoC 1)) e2 He20) as [F S].
    set (ve := sec_poly_est_loop A Ra ab x (fsub A s (RtoC 1)) e2) in *.
    assert (Hpv : fmul A (fst ve) (RtoC (-1)) = p) by (rewrite F; congruence).
    exists p, (snd ve).
    split; [rewrite <- Hpv; reflexivity|]. split; [exact Hp0|].
    eapply Rle_trans; [exact Herr|]. eapply Rle_trans; [|exact S].
    fold n.
    set (Pm := Cmod (sec_prodC ab x)) in *. pose proof (Cmod_ge_0 (sec_prodC ab x)) as HPm. fold Pm in HPm.
    set (c := rho * rho * (1 - mu)) in *.
    assert (Hc : 0 <= c) by (unfold c; apply Rmult_le_pos; [apply Rmult_le_pos|]; lra).
    assert (Hcn : 0 <= c ^ n) by (apply pow_le; exact Hc).
    (* c^n e2 Pm >= c^n rho^(3n+2) (1-nu)(Sa+1) u4 Pm  and the guard hypothesis *)
    assert (T1 : c ^ n * (rho ^ (3 * n + 2) * ((1 - nu) * (Sa + 1)) * u4 * Pm) <= c ^ n * (e2 * Pm)).
    { apply Rmult_le_compat_l; [exact Hcn|]. apply Rmult_le_compat_r; [exact HPm|exact L2]. }
    eapply Rle_trans; [|exact T1].
    assert (Ec : c ^ n * rho ^ (3 * n + 2) = (1 - eta) ^ (5 * n + 2) * (1 - mu) ^ n).
    { unfold c. fold rho. rewrite !Rpow_mult_distr.
      replace (5 * n + 2)%nat with (n + n + (3 * n + 2))%nat by lia. rewrite !pow_add. ring. }
    replace (c ^ n * (rho ^ (3 * n + 2) * ((1 - nu) * (Sa + 1)) * u4 * Pm))
      with (u4 * ((c ^ n * rho ^ (3 * n + 2)) * (1 - nu)) * ((Sa + 1) * Pm)) by ring.
    rewrite Ec. apply Rmult_le_compat_r; [|exact Hguard].
    apply Rmult_le_pos; lra.
  Qed.
End Estimate.


(* ------------------------------------------------------------------ non-vacuity *)
Lemma ex_rstd_model : rstd_model (1 / 2 ^ 53) exact_rarith.
Proof.
  assert (Hd : 0 < 1 / 2 ^ 53) by (apply Rdiv_lt_0_compat; [lra|apply pow_lt; lra]).
  unfold rstd_model, exact_rarith; simpl. split; [lra|]. split; [|split].
  - intros a b Ha Hb. assert (0 <= a + b) by lra. split; nra.
  - intros a b Ha Hb. assert (0 <= a * b) by (apply Rmult_le_pos; assumption). split; nra.
  - intros z. pose proof (Cmod_ge_0 z). split; nra.
Qed.

Lemma ex_sec_guard :
  (1 + 2 * 0 / (1 - 0)) * (1 + 0) ^ (3 * 2 + 2) - 1
    <= 4 / 2 ^ 50 * ((1 - 1 / 2 ^ 53) ^ (5 * 2 + 2) * (1 - 0) ^ 2 * (1 - 2 * 0 / (1 - 0))).
Proof.
  replace ((1 + 2 * 0 / (1 - 0)) * (1 + 0) ^ (3 * 2 + 2) - 1) with 0 by (simpl; field).
  apply Rmult_le_pos.
  - apply Rlt_le, Rdiv_lt_0_compat; [lra|apply pow_lt; lra].
  - assert (0 < 1 / 2 ^ 53 < 1).
    { split; [apply Rdiv_lt_0_compat; [lra|apply pow_lt; lra]|].
      apply Rmult_lt_reg_r with (2 ^ 53); [apply pow_lt; lra|].
      unfold Rdiv. rewrite Rmult_assoc, Rinv_l by (apply pow_nonzero; lra).
      assert (1 < 2 ^ 53) by (apply Rlt_pow_R1; [lra|lia]). lra. }
    apply Rmult_le_pos; [apply Rmult_le_pos|]; [apply pow_le; lra|apply pow_le; lra|].
    replace (2 * 0 / (1 - 0)) with 0 by field. lra.
Qed.

Lemma RtoC_neq_0 : forall r : R, r <> 0 -> RtoC r <> RtoC 0.
Proof. intros r Hr E. apply Hr. apply (f_equal fst) in E. exact E. Qed.

Lemma ex_sec_estimate :
  sec_poly_est_fl exact_arith exact_rarith 1 [(RtoC 1, RtoC 1); (RtoC 2, RtoC (-1))] (RtoC 3) = Some (RtoC 0, 28).
Proof.
  unfold sec_poly_est_fl, sec_est_fl. cbn [sec_est_sum exact_arith exact_rarith fsub fdiv fadd fmul radd rmul rmod].
  replace (RtoC 3 - RtoC 1)%C with (RtoC 2) by (apply injective_projections; simpl; lra).
  replace (RtoC 3 - RtoC (-1))%C with (RtoC 4) by (apply injective_projections; simpl; lra).
  destruct (Ceq_dec (RtoC 2) (RtoC 0)) as [E|_]; [exfalso; revert E; apply RtoC_neq_0; lra|].
  destruct (Ceq_dec (RtoC 4) (RtoC 0)) as [E|_]; [exfalso; revert E; apply RtoC_neq_0; lra|].
  cbn [sec_poly_est_loop fst snd exact_arith exact_rarith fsub fdiv fadd fmul radd rmul rmod].
  replace (RtoC 3 - RtoC 1)%C with (RtoC 2) by (apply injective_projections; simpl; lra).
  replace (RtoC 3 - RtoC (-1))%C with (RtoC 4) by (apply injective_projections; simpl; lra).
  replace (RtoC 1 / RtoC 2)%C with (RtoC (1 / 2)) by (apply injective_projections; simpl; field).
  replace (RtoC 2 / RtoC 4)%C with (RtoC (1 / 2)) by (apply injective_projections; simpl; field).
  rewrite !Cmod_R. rewrite !Rabs_pos_eq by lra.
  f_equal. f_equal.
  - apply injective_projections; simpl; field.
  - simpl INR. field.
Qed.
