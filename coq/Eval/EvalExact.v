(* C14 -- exact-arithmetic theorems, over any commutative ring:
   the sparse "parallel Horner" scheme and the Chebyshev forward recurrence, as coded,
   compute p(x) resp. sum c_k T_k(x). *)
Require Import List Arith Lia Ring.
Require Import MPSV.Eval.EvalModel.
Import ListNotations.

Section ExactRing.
  Variable K : Type.
  Variables (k0 k1 : K) (kadd kmul ksub : K -> K -> K) (kopp : K -> K).
  Hypothesis Kring : ring_theory k0 k1 kadd kmul ksub kopp (@eq K).
  Add Ring KR : Kring.

  Notation hor := (horner K k0 kadd kmul).
  Notation horc := (horner_coded K k0 kadd kmul).
  Notation lev := (level K kadd kmul).
  Notation dopt := (deopt K k0).
  Notation "a +' b" := (kadd a b) (at level 50, left associativity).
  Notation "a *' b" := (kmul a b) (at level 40, left associativity).

  (* the coded loop order equals the specification value *)
  Lemma horner_coded_eq : forall l x, horc l x = hor l x.
  Proof.
    induction l as [|a l IH]; intros x; [reflexivity|].
    destruct l as [|b r].
    - simpl. ring.
    - change (horc (a :: b :: r) x) with (kadd (kmul (horc (b :: r) x) x) a).
      rewrite IH. change (hor (a :: b :: r) x) with (kadd a (kmul x (hor (b :: r) x))). ring.
  Qed.

  (* two-step list induction *)
  Lemma list_ind2 (A : Type) (P : list A -> Prop) :
    P [] -> (forall a, P [a]) -> (forall a b r, P r -> P (a :: b :: r)) -> forall l, P l.
  Proof.
    intros H0 H1 H2.
    assert (H : forall l, P l /\ forall a, P (a :: l)).
    { induction l as [|b r [IHa IHb]]; split; auto. }
    intros l; apply H.
  Qed.

  Lemma comb_val : forall y a b,
    match comb K kadd kmul y a b with Some v => v | None => k0 end =
    match a with Some v => v | None => k0 end +' y *' match b with Some v => v | None => k0 end.
  Proof. intros y [u|] [v|]; simpl; ring. Qed.

  (* one pass preserves the value: P_level(y^2) = P(y) *)
  Lemma level_value : forall y l, hor (dopt (lev y l)) (y *' y) = hor (dopt l) y.
  Proof.
    intros y l. induction l as [| a | a b r IH] using list_ind2.
    - reflexivity.
    - cbn [level deopt map horner]. rewrite comb_val. ring.
    - cbn [level deopt map horner]. rewrite comb_val.
      fold (deopt K k0 (lev y r)). fold (deopt K k0 r).
      change (hor (map (fun o => match o with Some v => v | None => k0 end) (lev y r)) (y *' y))
        with (hor (dopt (lev y r)) (y *' y)).
      rewrite IH. unfold deopt. ring.
  Qed.

  Lemma level_length : forall y l, length (lev y l) = Nat.div2 (S (length l)).
  Proof.
    intros y l. induction l as [| a | a b r IH] using list_ind2; try reflexivity.
    cbn [level length]. rewrite IH. reflexivity.
  Qed.

  Lemma div2_S_le : forall n q, n <= 2 ^ S q -> Nat.div2 (S n) <= 2 ^ q.
  Proof.
    intros n q H. rewrite Nat.pow_succ_r' in H. rewrite Nat.div2_div.
    pose proof (Nat.div_mod (S n) 2 ltac:(lia)) as E.
    pose proof (Nat.mod_upper_bound (S n) 2 ltac:(lia)) as B. lia.
  Qed.

  Lemma sparse_iter_value : forall q y l,
    exists z, hor (dopt (sparse_iter K kadd kmul q y l)) z = hor (dopt l) y
              /\ (length l <= 2 ^ q -> length (sparse_iter K kadd kmul q y l) <= 1).
  Proof.
    induction q as [|q IH]; intros y l.
    - exists y. split; [reflexivity|]. simpl. auto.
    - destruct (IH (y *' y) (lev y l)) as [z [Hz Hl]].
      exists z. cbn [sparse_iter]. split.
      + rewrite Hz. apply level_value.
      + intros H. apply Hl. rewrite level_length. apply div2_S_le; exact H.
  Qed.

  (* the sparse scheme computes p(x) exactly, for every sparsity pattern and degree, as soon
     as the number of passes q satisfies #coefficients <= 2^q (the code takes
     q = ceil(log2(#coefficients + 1))) *)
  Theorem sparse_eq_dense_exact : forall (l : list (option K)) (x : K) (q : nat),
    length l <= 2 ^ q ->
    sparse_eval K k0 kadd kmul q x l = hor (dopt l) x.
  Proof.
    intros l x q H. unfold sparse_eval.
    destruct (sparse_iter_value q x l) as [z [Hz Hl]]. specialize (Hl H).
    rewrite <- Hz.
    destruct (sparse_iter K kadd kmul q x l) as [|[v|] [|b r]]; simpl in *; try lia; ring.
  Qed.

  Lemma log2_up_passes : forall n, n <= 2 ^ Nat.log2_up (n + 1).
  Proof.
    intros n. destruct n; [simpl; lia|].
    pose proof (Nat.log2_up_spec (S n + 1) ltac:(lia)) as [_ H]. lia.
  Qed.

  (* ---------------------------------------------------------------- Chebyshev *)
  Notation T := (chebT K k1 kadd kmul ksub).
  Notation csum := (cheb_sum K k0 k1 kadd kmul ksub).

  Lemma chebT_rec : forall k x,
    T (S (S k)) x = ksub (kmul (kmul (ktwo K k1 kadd) x) (T (S k) x)) (T k x).
  Proof. reflexivity. Qed.

  Lemma cheb_loop_sum : forall cs x k acc,
    cheb_loop K k1 kadd kmul ksub cs x (T k x) (T (S k) x) acc = acc +' csum cs (S (S k)) x.
  Proof.
    induction cs as [|c r IH]; intros x k acc.
    - simpl. ring.
    - cbn [cheb_loop].
      assert (E : ksub (kmul (kmul x (T (S k) x)) (ktwo K k1 kadd)) (T k x) = T (S (S k)) x).
      { rewrite chebT_rec. ring. }
      rewrite E. rewrite IH. cbn [cheb_sum]. ring.
  Qed.

  Theorem chebrec_exact : forall cs x,
    cheb_eval K k0 k1 kadd kmul ksub cs x = csum cs 0 x.
  Proof.
    intros [|c0 [|c1 r]] x.
    - reflexivity.
    - simpl. ring.
    - unfold cheb_eval.
      pose proof (cheb_loop_sum r x 0 (kadd c0 (kmul c1 x))) as H.
      cbn [chebT] in H. rewrite H. cbn [cheb_sum chebT]. ring.
  Qed.
End ExactRing.
