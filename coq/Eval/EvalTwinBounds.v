(* C14 -- the quantities the extracted twin hands to the check are the specification values and PROVED upper
   bounds of the condition quantities, for the Chebyshev and the secular basis too (monomial: EvalBound.v). *)
Require Import Reals List QArith Qreals ZArith Lra Lia Psatz.
From Coquelicot Require Import Complex.
Require Import MPSV.Eval.EvalModel MPSV.Eval.EvalExact MPSV.Eval.EvalRounded MPSV.Eval.EvalTwin MPSV.Eval.EvalBound.
Import ListNotations.
Local Open Scope R_scope.

Lemma QC2C_sub : forall a b, QC2C (qc_sub a b) = (QC2C a - QC2C b)%C.
Proof.
  intros [[a1 a2] da] [[b1 b2] db]. unfold qc_sub. rewrite strip2_ok.
  unfold QC2C, Cminus, Cplus, Copp, qc_re, qc_im, qc_den; simpl fst; simpl snd.
  rewrite Pos2Z.inj_mul, !minus_IZR, !mult_IZR.
  pose proof (IZR_pos_neq_0 da). pose proof (IZR_pos_neq_0 db).
  f_equal; field; split; assumption.
Qed.

Lemma QC2C_1 : QC2C qc1 = RtoC 1.
Proof. unfold QC2C, qc1, RtoC, qc_re, qc_im, qc_den; simpl. f_equal; lra. Qed.

(* ------------------------------------------------------------------ Chebyshev: value *)
Lemma cheb_loop_morph : forall cs x t0 t1 acc,
  QC2C (cheb_loop QC qc1 qc_add qc_mul qc_sub cs x t0 t1 acc)
  = cheb_loop C (RtoC 1) Cplus Cmult Cminus (map QC2C cs) (QC2C x) (QC2C t0) (QC2C t1) (QC2C acc).
Proof.
  induction cs as [|c cs IH]; intros x t0 t1 acc; cbn [cheb_loop map]; [reflexivity|].
  rewrite IH. unfold ktwo. rewrite QC2C_add, !QC2C_mul, QC2C_sub, !QC2C_mul, QC2C_add, QC2C_1. reflexivity.
Qed.

Theorem twin_cheb_value : forall (cs : list QC) (x : QC),
  QC2C (fst (eval_cheb_q cs x)) = chebC (map QC2C cs) (QC2C x).
Proof.
  intros cs x. unfold eval_cheb_q, chebC. cbn [fst].
  rewrite <- (chebrec_exact C (RtoC 0) (RtoC 1) Cplus Cmult Cminus Copp C_ring_theory).
  unfold cheb_coded_q, cheb_eval. destruct cs as [|c0 [|c1 r]]; cbn [map].
  - apply QC2C_0.
  - reflexivity.
  - rewrite cheb_loop_morph, QC2C_add, QC2C_mul, QC2C_1. reflexivity.
Qed.

(* ------------------------------------------------------------------ Chebyshev: bound *)
Lemma Q2R_0 : Q2R 0 = 0.
Proof. unfold Q2R; simpl; lra. Qed.
Lemma Q2R_1 : Q2R 1 = 1.
Proof. unfold Q2R; simpl; lra. Qed.
Lemma Q2R_2 : Q2R 2 = 2.
Proof. unfold Q2R; simpl; lra. Qed.

Lemma chebabs_loop_ge : forall (cs : list QC) (rq t0q t1q accq : Q) (r t0 t1 acc : R),
  0 <= r <= Q2R rq -> 0 <= t0 <= Q2R t0q -> 0 <= t1 <= Q2R t1q -> 0 <= acc <= Q2R accq ->
  chebabs_loop_R (map QC2C cs) r t0 t1 acc <= Q2R (chebabs_loop cs rq t0q t1q accq).
Proof.
  induction cs as [|c cs IH]; intros rq t0q t1q accq r t0 t1 acc Hr H0 H1 Ha;
    cbn [map chebabs_loop_R chebabs_loop]; [lra|]. cbv zeta.
  set (tq := qup (2 * rq * t1q + t0q)%Q).
  assert (Ht : 0 <= 2 * r * t1 + t0 <= Q2R tq).
  { split; [nra|]. unfold tq. eapply Rle_trans; [|apply qup_ge].
    rewrite Q2R_plus, !Q2R_mult, Q2R_2. nra. }
  apply IH; try assumption.
  pose proof (qc_mod_up_ge c) as Hc. pose proof (Cmod_ge_0 (QC2C c)) as Hc0.
  split; [nra|]. eapply Rle_trans; [|apply qup_ge].
  rewrite Q2R_plus, Q2R_mult. nra.
Qed.

Theorem twin_cheb_bound : forall (cs : list QC) (x : QC),
  chebabs_R (map QC2C cs) (Cmod (QC2C x)) <= Q2R (snd (eval_cheb_q cs x)).
Proof.
  intros cs x. unfold eval_cheb_q. cbn [snd].
  pose proof (qc_mod_up_ge x) as Hx. pose proof (Cmod_ge_0 (QC2C x)) as Hx0.
  set (r := Cmod (QC2C x)) in *. set (rq := qc_mod_up x) in *.
  destruct cs as [|c0 [|c1 rest]]; cbn [map chebabs_R chebabs_q].
  - rewrite Q2R_0. lra.
  - apply qc_mod_up_ge.
  - pose proof (qc_mod_up_ge c0) as H0. pose proof (qc_mod_up_ge c1) as H1.
    pose proof (Cmod_ge_0 (QC2C c0)). pose proof (Cmod_ge_0 (QC2C c1)).
    apply chebabs_loop_ge.
    + lra.
    + rewrite Q2R_1. lra.
    + lra.
    + split; [nra|]. rewrite Q2R_plus, Q2R_mult. nra.
Qed.

(* ------------------------------------------------------------------ secular *)
Definition QC2C2 (p : QC * QC) : C * C := (QC2C (fst p), QC2C (snd p)).

Lemma qc_is0_spec : forall a, qc_is0 a = true <-> QC2C a = RtoC 0.
Proof.
  intros [[re im] d]. unfold qc_is0, QC2C, qc_re, qc_im, qc_den, RtoC; simpl fst; simpl snd.
  pose proof (IZR_pos_neq_0 d) as Hd.
  rewrite andb_true_iff, !Z.eqb_eq. split.
  - intros [-> ->]. f_equal; unfold Rdiv; ring.
  - intros E. injection E as E1 E2.
    assert (A : forall z : Z, IZR z / IZR (Z.pos d) = 0 -> z = 0%Z).
    { intros z Hz. apply eq_IZR. unfold Rdiv in Hz. apply Rmult_integral in Hz. destruct Hz as [Hz|Hz]; [exact Hz|].
      exfalso. revert Hz. apply Rinv_neq_0_compat. exact Hd. }
    split; apply A; assumption.
Qed.

Lemma qc_n2_pos : forall b, QC2C b <> RtoC 0 -> (0 < qc_n2 b)%Z.
Proof.
  intros b Hb. destruct (qc_is0 b) eqn:E; [apply qc_is0_spec in E; contradiction|].
  destruct b as [[re im] d]. unfold qc_is0, qc_n2, qc_re, qc_im in *; simpl fst in *; simpl snd in *.
  apply andb_false_iff in E. destruct E as [E|E]; apply Z.eqb_neq in E; nia.
Qed.

Lemma QC2C_div : forall a b, QC2C b <> RtoC 0 -> QC2C (qc_div a b) = (QC2C a / QC2C b)%C.
Proof.
  intros a b Hb. pose proof (qc_n2_pos b Hb) as Hn.
  destruct a as [[a1 a2] da]. destruct b as [[b1 b2] db].
  unfold qc_div, qc_n2, qc_re, qc_im, qc_den in *; simpl fst in *; simpl snd in *.
  unfold QC2C, qc_re, qc_im, qc_den; simpl fst; simpl snd.
  rewrite Pos2Z.inj_mul, Z2Pos.id by exact Hn.
  rewrite !mult_IZR, !plus_IZR, !minus_IZR, !mult_IZR.
  pose proof (IZR_pos_neq_0 da) as Hda. pose proof (IZR_pos_neq_0 db) as Hdb.
  assert (Hnn : IZR b1 * IZR b1 + IZR b2 * IZR b2 <> 0).
  { apply IZR_lt in Hn. rewrite plus_IZR, !mult_IZR in Hn. lra. }
  unfold Cdiv, Cinv, Cmult; simpl fst; simpl snd.
  f_equal; field; repeat split; try assumption;
    try (replace (IZR b1 / IZR (Z.pos db) * (IZR b1 / IZR (Z.pos db) * 1) + IZR b2 / IZR (Z.pos db) * (IZR b2 / IZR (Z.pos db) * 1))
           with ((IZR b1 * IZR b1 + IZR b2 * IZR b2) / (IZR (Z.pos db) * IZR (Z.pos db))) by (field; assumption));
    try nra.
Qed.

Lemma QC2C_sub_eq0 : forall x b, QC2C (qc_sub x b) = RtoC 0 <-> QC2C x = QC2C b.
Proof. intros x b. rewrite QC2C_sub. apply sub_eq_0. Qed.

Lemma sec_terms_q_some : forall ab x t, sec_terms_q ab x = Some t ->
  all_ne (map QC2C2 ab) (QC2C x) /\ QC2C t = sec_terms (map QC2C2 ab) (QC2C x).
Proof.
  induction ab as [|[a b] r IH]; intros x t H; cbn [sec_terms_q map sec_terms] in *.
  - assert (E : t = qc0) by congruence. subst t. split; [constructor|apply QC2C_0].
  - destruct (qc_is0 (qc_sub x b)) eqn:E; [discriminate|].
    destruct (sec_terms_q r x) as [s|] eqn:Es; [|discriminate].
    assert (E' : t = qc_add (qc_div a (qc_sub x b)) s) by congruence. subst t.
    destruct (IH x s Es) as [Hne Hs].
    assert (Hd : QC2C (qc_sub x b) <> RtoC 0).
    { intro Z. apply qc_is0_spec in Z. congruence. }
    split.
    + constructor; [|exact Hne]. unfold QC2C2; cbn [fst snd]. intro Z. apply Hd. apply QC2C_sub_eq0. exact Z.
    + unfold QC2C2 at 1; cbn [fst snd]. rewrite QC2C_add, QC2C_div by exact Hd. rewrite QC2C_sub, Hs. reflexivity.
Qed.

Lemma sec_terms_q_none : forall ab x, sec_terms_q ab x = None <-> Exists (fun p => QC2C x = snd p) (map QC2C2 ab).
Proof.
  induction ab as [|[a b] r IH]; intros x; cbn [sec_terms_q map].
  - split; [discriminate|]. intro H; inversion H.
  - destruct (qc_is0 (qc_sub x b)) eqn:E.
    + split; [intros _|reflexivity]. apply Exists_cons_hd. unfold QC2C2; cbn [fst snd].
      apply QC2C_sub_eq0. apply qc_is0_spec. exact E.
    + assert (Hd : QC2C x <> QC2C b).
      { intro Z. apply QC2C_sub_eq0 in Z. apply qc_is0_spec in Z. congruence. }
      destruct (sec_terms_q r x) as [s|] eqn:Es.
      * split; [discriminate|]. intro H. apply Exists_cons in H. destruct H as [H|H].
        -- unfold QC2C2 in H; cbn [fst snd] in H. contradiction.
        -- apply IH in H. congruence.
      * split; [intros _|reflexivity]. apply Exists_cons_tl. apply IH. exact Es.
Qed.

Lemma sec_prod_q_morph : forall ab x, QC2C (sec_prod_q ab x) = sec_prodC (map QC2C2 ab) (QC2C x).
Proof.
  induction ab as [|[a b] r IH]; intros x; cbn [sec_prod_q map sec_prodC].
  - apply QC2C_1.
  - unfold QC2C2 at 1; cbn [fst snd]. rewrite QC2C_mul, QC2C_sub, IH. reflexivity.
Qed.

Lemma qc_norm2_pos : forall d, QC2C d <> RtoC 0 -> 0 < Q2R (qc_norm2 d).
Proof.
  intros d Hd. pose proof (qc_n2_pos d Hd) as Hn. unfold qc_norm2, Q2R. cbn [Qnum Qden].
  apply Rmult_lt_0_compat; [apply IZR_lt; exact Hn|].
  apply Rinv_0_lt_compat. apply IZR_lt. lia.
Qed.

Lemma sec_abs_q_ge : forall ab x, all_ne (map QC2C2 ab) (QC2C x) ->
  sec_abs (map QC2C2 ab) (QC2C x) <= Q2R (sec_abs_q ab x).
Proof.
  induction ab as [|[a b] r IH]; intros x Hne; cbn [map sec_abs sec_abs_q].
  - rewrite Q2R_0. lra.
  - inversion Hne as [|p q Hxb Hne']; subst. unfold QC2C2 in Hxb; cbn [fst snd] in Hxb.
    unfold QC2C2 at 1 2; cbn [fst snd].
    eapply Rle_trans; [|apply qup_ge]. rewrite Q2R_plus.
    apply Rplus_le_compat; [|apply IH; exact Hne'].
    eapply Rle_trans; [|apply qup_ge]. eapply Rle_trans; [|apply qsqrt_up_ge].
    rewrite <- QC2C_sub, !Cmod_QC2C.
    assert (Hd : QC2C (qc_sub x b) <> RtoC 0) by (intro Z; apply Hxb; apply QC2C_sub_eq0; exact Z).
    pose proof (qc_norm2_pos _ Hd) as Hp.
    rewrite Q2R_div.
    2:{ intro Z. apply Qeq_eqR in Z. rewrite Q2R_0 in Z. lra. }
    rewrite sqrt_div_alt by exact Hp. lra.
Qed.

(* the secular line of the twin: S(x), P(x) are the specification values and the third component is an upper
   bound of the condition quantity of C14_secular_poly_apriori; "no value" exactly at the poles *)
Theorem twin_sec : forall (ab : list (QC * QC)) (x s p : QC) (bnd : Q),
  eval_sec_q ab x = Some (s, p, bnd) ->
  all_ne (map QC2C2 ab) (QC2C x) /\
  QC2C s = sec_exact (map QC2C2 ab) (QC2C x) /\
  QC2C p = sec_poly_exact (map QC2C2 ab) (QC2C x) /\
  (sec_abs (map QC2C2 ab) (QC2C x) + 1) * Cmod (sec_prodC (map QC2C2 ab) (QC2C x)) <= Q2R bnd.
Proof.
  intros ab x s p bnd H. unfold eval_sec_q in H.
  destruct (sec_terms_q ab x) as [t|] eqn:Et; [|discriminate]. injection H as <- <- <-.
  destruct (sec_terms_q_some ab x t Et) as [Hne Ht].
  assert (Hs : QC2C (qc_sub t qc1) = sec_exact (map QC2C2 ab) (QC2C x)).
  { unfold sec_exact. rewrite QC2C_sub, QC2C_1, Ht. reflexivity. }
  split; [exact Hne|]. split; [exact Hs|]. split.
  - unfold sec_poly_exact. rewrite QC2C_mul, QC2C_sub, QC2C_0, Hs, sec_prod_q_morph. ring.
  - rewrite Q2R_mult, Q2R_plus, Q2R_1.
    pose proof (sec_abs_q_ge ab x Hne) as Ha. pose proof (sec_abs_ge_0 (map QC2C2 ab) (QC2C x)) as Ha0.
    pose proof (qc_mod_up_ge (sec_prod_q ab x)) as Hp. rewrite sec_prod_q_morph in Hp.
    pose proof (Cmod_ge_0 (sec_prodC (map QC2C2 ab) (QC2C x))) as Hp0.
    apply Rmult_le_compat; lra.
Qed.

Theorem twin_sec_pole : forall (ab : list (QC * QC)) (x : QC),
  eval_sec_q ab x = None <-> Exists (fun p => QC2C x = snd p) (map QC2C2 ab).
Proof.
  intros ab x. rewrite <- sec_terms_q_none. unfold eval_sec_q.
  destruct (sec_terms_q ab x); split; congruence.
Qed.
