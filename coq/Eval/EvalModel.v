(* C14 -- polynomial evaluation: the model (definitions only).

   Anchors in /repo/src/libmps:
     monomial/horner.c          mps_fhorner / mps_dhorner / mps_mhorner (dense), mps_mhorner_sparse,
                                mps_{f,d}horner_with_error, mps_mhorner_with_error2
     chebyshev/chebyshev-evaluation.c   mps_chebyshev_poly_meval
     secular/secular-evaluation.c       mps_secular_{f,d,m}eval_with_error
     secular/secular-equation.c         mps_secular_poly_{f,d,m}eval_with_error (product form)

   Three layers:
   (1) generic, over any carrier K with ring operations: the evaluation schemes in exact
       arithmetic, as coded (same order of operations);
   (2) over Coquelicot's C = R*R: the same schemes with an *arithmetic* (record of rounded
       complex operations) satisfying the standard model with constant mu;
   (3) an executable exact twin over Gaussian rationals QC = Q*Q (instances of (1)), with a
       rational upper bound for moduli, extracted to OCaml for the correspondence check. *)

Require Import Reals List QArith ZArith.
From Coquelicot Require Import Complex.
Import ListNotations.

(* ------------------------------------------------------------------ (1) generic *)
Section Generic.
  Variable K : Type.
  Variables (k0 k1 : K) (kadd kmul ksub : K -> K -> K).

  (* p(x) = a0 + x (a1 + x (...)); coefficients listed from degree 0 upwards.  This is the
     specification value.  *)
  Fixpoint horner (l : list K) (x : K) : K :=
    match l with
    | [] => k0
    | a :: l' => kadd a (kmul x (horner l' x))
    end.

  (* mps_{f,d,m}horner as coded: value = a_n; for j = n-1 .. 0: value = value*x + a_j *)
  Fixpoint horner_coded (l : list K) (x : K) : K :=
    match l with
    | [] => k0
    | a :: l' => match l' with
                 | [] => a
                 | _ => kadd (kmul (horner_coded l' x) x) a
                 end
    end.

  (* mps_mhorner_sparse.  The working array mfpc2[]/spar2[] is a list of options
     (None <-> spar2[i] = false).  One pass of the inner loop (i = 0 .. m-1) combines the
     entries 2i and 2i+1 into entry i; the in-place update is harmless because entry i is
     written after entries 2i, 2i+1 >= i have been read and is never read again in this
     pass.  spar2[m] = false is the [a] -> comb a None case. *)
  Definition comb (y : K) (a b : option K) : option K :=
    match a, b with
    | Some u, Some v => Some (kadd u (kmul y v))     (* tmp = y*c[i2]; c[i] = c[i1] + tmp *)
    | Some u, None => Some u                         (* mpc_set (c[i], c[i1]) *)
    | None, Some v => Some (kmul y v)                (* c[i] = y * c[i2] *)
    | None, None => None
    end.

  Fixpoint level (y : K) (l : list (option K)) : list (option K) :=
    match l with
    | a :: l' => match l' with
                 | b :: r => comb y a b :: level y r
                 | [] => [comb y a None]
                 end
    | [] => []
    end.

  (* q passes, y squared after each (mpc_sqr_eq (y)) *)
  Fixpoint sparse_iter (q : nat) (y : K) (l : list (option K)) : list (option K) :=
    match q with
    | O => l
    | S q' => sparse_iter q' (kmul y y) (level y l)
    end.

  (* mpc_set (value, mfpc2[0]); mfpc2[] is initialised to 0 by mpc_vinit2 *)
  Definition sparse_eval (q : nat) (x : K) (l : list (option K)) : K :=
    match sparse_iter q x l with
    | Some v :: _ => v
    | _ => k0
    end.

  Definition deopt (l : list (option K)) : list K :=
    map (fun o => match o with Some v => v | None => k0 end) l.

  (* Chebyshev basis, specification: T_0 = 1, T_1 = x, T_{k+1} = 2 x T_k - T_{k-1} *)
  Definition ktwo : K := kadd k1 k1.
  Fixpoint chebT (k : nat) (x : K) : K :=
    match k with
    | O => k1
    | S k' => match k' with
              | O => x
              | S k'' => ksub (kmul (kmul ktwo x) (chebT k' x)) (chebT k'' x)
              end
    end.
  Fixpoint cheb_sum (cs : list K) (k : nat) (x : K) : K :=
    match cs with
    | [] => k0
    | c :: r => kadd (kmul c (chebT k x)) (cheb_sum r (S k) x)
    end.

  (* mps_chebyshev_poly_meval as coded: forward recurrence.
       value = c0; t0 = 1; (degree 0: return) t1 = x; value += c1*x;
       for i = 2..n: ctmp = x*t1; ctmp *= 2; ctmp -= t0; value += ctmp*c_i; t0 = t1; t1 = ctmp *)
  Fixpoint cheb_loop (cs : list K) (x t0 t1 acc : K) : K :=
    match cs with
    | [] => acc
    | c :: r => let t := ksub (kmul (kmul x t1) ktwo) t0 in
                cheb_loop r x t1 t (kadd acc (kmul t c))
    end.
  Definition cheb_eval (cs : list K) (x : K) : K :=
    match cs with
    | [] => k0
    | c0 :: l' => match l' with
                  | [] => c0
                  | c1 :: r => cheb_loop r x k1 x (kadd c0 (kmul c1 x))
                  end
    end.
End Generic.

(* ------------------------------------------------------------------ (2) rounded, over C *)
Local Open Scope R_scope.

Definition hornerC := horner C (RtoC 0) Cplus Cmult.

Record arith := { fadd : C -> C -> C; fsub : C -> C -> C; fmul : C -> C -> C; fdiv : C -> C -> C }.

(* Standard model with constant mu for the complex operations.
   Addition is only required to be accurate relative to |a|+|b| (this is implied by the usual
   |fl(a+b)-(a+b)| <= mu |a+b| and is what GMP's operand-truncating mpf_add gives);
   subtraction of inputs (x - b_i), multiplication and division relative to the result. *)
Definition std_model (mu : R) (A : arith) : Prop :=
  0 <= mu /\
  (forall a b, Cmod (fadd A a b - (a + b))%C <= mu * (Cmod a + Cmod b)) /\
  (forall a b, Cmod (fsub A a b - (a - b))%C <= mu * Cmod (a - b)%C) /\
  (forall a b, Cmod (fmul A a b - a * b)%C <= mu * Cmod (a * b)%C) /\
  (forall a b, b <> RtoC 0 -> Cmod (fdiv A a b - a / b)%C <= mu * Cmod (a / b)%C).

Definition exact_arith : arith := {| fadd := Cplus; fsub := Cminus; fmul := Cmult; fdiv := Cdiv |}.

(* an arithmetic that really rounds (for non-vacuity): every result scaled by 1 + 2^-10 *)
Definition scl : C := RtoC (1 + 1 / 2 ^ 10).
Definition scaled_arith : arith :=
  {| fadd := fun a b => ((a + b) * scl)%C; fsub := fun a b => ((a - b) * scl)%C;
     fmul := fun a b => ((a * b) * scl)%C; fdiv := fun a b => ((a / b) * scl)%C |}.

(* rounded Horner as coded *)
Definition horner_fl (A : arith) := horner_coded C (RtoC 0) (fadd A) (fmul A).

(* mps_mhorner_sparse in rounded arithmetic: the generic scheme with the rounded operations (the squaring
   mpc_sqr_eq (y) is a rounded product) *)
Definition sparse_fl (A : arith) (q : nat) (x : C) (l : list (option C)) : C :=
  sparse_eval C (RtoC 0) (fadd A) (fmul A) q x l.
(* error exponent of q passes: e_0 = 0; one pass adds 2 (one product, one sum) plus the exponent
   2^j - 1 carried by the j times squared y.  sparse_expo q + 1 = 2^q + q (EvalSparse.sparse_expo_closed) *)
Fixpoint sparse_E (q g h : nat) : nat :=
  match q with O => g | S q' => sparse_E q' (g + h + 2) (2 * h + 1) end.
Definition sparse_expo (q : nat) : nat := sparse_E q 0 0.
Fixpoint Cpow (z : C) (n : nat) : C := match n with O => RtoC 1 | S n' => (z * Cpow z n')%C end.
(* the input x^n alone: 2^k absent coefficients followed by a *)
Definition monomial_input (k : nat) (a : C) : list (option C) := repeat None (2 ^ k) ++ [Some a].

(* Chebyshev: rounded forward recurrence, specification value, and the majorant recurrence on moduli
   t_0 = 1, t_1 = r, t_{k+1} = 2 r t_k + t_{k-1} *)
Definition cheb_fl (A : arith) (cs : list C) (x : C) : C :=
  cheb_eval C (RtoC 0) (RtoC 1) (fadd A) (fmul A) (fsub A) cs x.
Definition chebC (cs : list C) (x : C) : C := cheb_sum C (RtoC 0) (RtoC 1) Cplus Cmult Cminus cs 0 x.
Fixpoint chebabs_loop_R (cs : list C) (r t0 t1 acc : R) : R :=
  match cs with
  | [] => acc
  | c :: rest => let t := 2 * r * t1 + t0 in chebabs_loop_R rest r t1 t (acc + Cmod c * t)
  end.
Definition chebabs_R (cs : list C) (r : R) : R :=
  match cs with
  | [] => 0
  | c0 :: l' => match l' with
                | [] => Cmod c0
                | c1 :: rest => chebabs_loop_R rest r 1 r (Cmod c0 + Cmod c1 * r)
                end
  end.

(* p~(r) = sum |a_j| r^j *)
Fixpoint habs (l : list C) (r : R) : R :=
  match l with
  | [] => 0
  | a :: l' => Cmod a + r * habs l' r
  end.

(* mps_mhorner_with_error2: error = u4 * (apol + |value|), u4 = 4 * 2^-wp; apol is the DPE
   Horner value of dap[] at |x| *)
Definition mp_estimate (u4 apol : R) (value : C) : R := u4 * (apol + Cmod value).

(* secular-evaluation.c, mps_secular_*eval_with_error: S(x) = sum a_i/(x-b_i) - 1 ;
   returns false (None) at the first i with fl(x - b_i) = 0 *)
Fixpoint sec_sum_fl (A : arith) (ab : list (C * C)) (x acc : C) : option C :=
  match ab with
  | [] => Some acc
  | (a, b) :: r =>
      let d := fsub A x b in
      if Ceq_dec d (RtoC 0) then None
      else sec_sum_fl A r x (fadd A acc (fdiv A a d))
  end.
Definition sec_fl (A : arith) (ab : list (C * C)) (x : C) : option C :=
  match sec_sum_fl A ab x (RtoC 0) with
  | Some s => Some (fsub A s (RtoC 1))
  | None => None
  end.
Fixpoint sec_terms (ab : list (C * C)) (x : C) : C :=
  match ab with
  | [] => RtoC 0
  | (a, b) :: r => (a / (x - b) + sec_terms r x)%C
  end.
Definition sec_exact (ab : list (C * C)) (x : C) : C := (sec_terms ab x - RtoC 1)%C.
(* condition-number form  sum |a_i|/|x-b_i| *)
Fixpoint sec_abs (ab : list (C * C)) (x : C) : R :=
  match ab with
  | [] => 0
  | (a, b) :: r => Cmod a / Cmod (x - b)%C + sec_abs r x
  end.
(* mps_secular_poly_*eval_with_error: P(x) = - S(x) * prod (x - b_i) *)
Fixpoint sec_prod_fl (A : arith) (ab : list (C * C)) (x v : C) : C :=
  match ab with
  | [] => v
  | (_, b) :: r => sec_prod_fl A r x (fmul A v (fsub A x b))
  end.
Definition sec_poly_fl (A : arith) (ab : list (C * C)) (x : C) : option C :=
  match sec_fl A ab x with
  | Some s => Some (fmul A (sec_prod_fl A ab x s) (RtoC (-1)))
  | None => None
  end.

(* specification value of the product form:  P(x) = - S(x) prod (x - b_i) *)
Fixpoint sec_prodC (ab : list (C * C)) (x : C) : C :=
  match ab with
  | [] => RtoC 1
  | (_, b) :: r => ((x - b) * sec_prodC r x)%C
  end.
Definition sec_poly_exact (ab : list (C * C)) (x : C) : C := (- (sec_exact ab x * sec_prodC ab x))%C.

(* ------------------------------------------------------------------ (2b) the error ESTIMATES as coded *)
(* The estimates are computed in rounded REAL arithmetic (double for the f variants, DPE otherwise):
   radd/rmul on non-negative reals, rmod = cplx_mod / cdpe_mod / mpc_rmod (modulus of a complex, rounded).
   rstd_model eta: every result within the factor 1 -+ eta of the exact one. *)
Record rarith := { radd : R -> R -> R; rmul : R -> R -> R; rmod : C -> R }.
Definition rstd_model (eta : R) (Ra : rarith) : Prop :=
  0 <= eta /\
  (forall a b, 0 <= a -> 0 <= b -> (1 - eta) * (a + b) <= radd Ra a b <= (1 + eta) * (a + b)) /\
  (forall a b, 0 <= a -> 0 <= b -> (1 - eta) * (a * b) <= rmul Ra a b <= (1 + eta) * (a * b)) /\
  (forall z, (1 - eta) * Cmod z <= rmod Ra z <= (1 + eta) * Cmod z).
Definition exact_rarith : rarith := {| radd := Rplus; rmul := Rmult; rmod := Cmod |}.

(* mps_secular_{f,d,m}eval_with_error: the loop of sec_sum_fl with the running estimate
     error += |fl(a_i / fl(x - b_i))| * (i + 2)          (i = 0 .. n-1)
   then  value -= 1; error += 1; error *= u4    (u4 = 4 DBL_EPSILON, resp. 4 * 2^(1-wp)) *)
Fixpoint sec_est_sum (A : arith) (Ra : rarith) (ab : list (C * C)) (x acc : C) (i : nat) (e : R)
  : option (C * R) :=
  match ab with
  | [] => Some (acc, e)
  | (a, b) :: r =>
      let d := fsub A x b in
      if Ceq_dec d (RtoC 0) then None
      else let t := fdiv A a d in
           sec_est_sum A Ra r x (fadd A acc t) (S i) (radd Ra e (rmul Ra (rmod Ra t) (INR (i + 2))))
  end.
Definition sec_est_fl (A : arith) (Ra : rarith) (u4 : R) (ab : list (C * C)) (x : C) : option (C * R) :=
  match sec_est_sum A Ra ab x (RtoC 0) 0 0 with
  | Some (s, e) => Some (fsub A s (RtoC 1), rmul Ra (radd Ra e 1) u4)
  | None => None
  end.
(* mps_secular_poly_{f,d,m}eval_with_error (after fix fc53bd23): for every i
     ctmp = fl(x - b_i); value *= ctmp; error *= |ctmp|
   and finally value *= -1 *)
Fixpoint sec_poly_est_loop (A : arith) (Ra : rarith) (ab : list (C * C)) (x v : C) (e : R) : C * R :=
  match ab with
  | [] => (v, e)
  | (_, b) :: r => let d := fsub A x b in sec_poly_est_loop A Ra r x (fmul A v d) (rmul Ra e (rmod Ra d))
  end.
Definition sec_poly_est_fl (A : arith) (Ra : rarith) (u4 : R) (ab : list (C * C)) (x : C) : option (C * R) :=
  match sec_est_fl A Ra u4 ab x with
  | Some (s, e) => let ve := sec_poly_est_loop A Ra ab x s e in
                   Some (fmul A (fst ve) (RtoC (-1)), snd ve)
  | None => None
  end.
(* the same estimate without any rounding: u4 (sum (i+2)|a_i|/|x-b_i| + 1) prod |x-b_i| *)
Fixpoint sec_wabs (ab : list (C * C)) (x : C) (i : nat) : R :=
  match ab with
  | [] => 0
  | (a, b) :: r => INR (i + 2) * (Cmod a / Cmod (x - b)%C) + sec_wabs r x (S i)
  end.
Definition sec_poly_est_R (u4 : R) (ab : list (C * C)) (x : C) : R :=
  (sec_wabs ab x 0 + 1) * u4 * Cmod (sec_prodC ab x).
(* mps_chebyshev_poly_meval, the estimate AS CODED (it never looks at c_i for i >= 2):
     error = |fl(c_1 x)|;  for i >= 2:  p = fl(2 fl(x t1)); rtmp = |p| + |t0|; t = fl(p - t0); error += rtmp * |x|
     error *= u2            (u2 = 2 * 2^-wp) *)
Fixpoint cheb_est_loop (A : arith) (Ra : rarith) (cs : list C) (x : C) (ax : R) (t0 t1 : C) (e : R) : R :=
  match cs with
  | [] => e
  | _ :: rest =>
      let p := fmul A (fmul A x t1) (ktwo C (RtoC 1) (fadd A)) in
      let t := fsub A p t0 in
      cheb_est_loop A Ra rest x ax t1 t (radd Ra e (rmul Ra (radd Ra (rmod Ra p) (rmod Ra t0)) ax))
  end.
Definition cheb_est_fl (A : arith) (Ra : rarith) (u2 : R) (cs : list C) (x : C) : R :=
  match cs with
  | [] => 0
  | _ :: l' => match l' with
               | [] => 0
               | c1 :: rest => rmul Ra (cheb_est_loop A Ra rest x (rmod Ra x) (RtoC 1) x (rmod Ra (fmul A c1 x))) u2
               end
  end.
(* the REPAIRED estimate (fixes/C14_chebyshev_meval_estimate.patch): the majorant recurrence
     tm_0 = 1, tm_1 = |x|, tm_{k+1} = 2|x| tm_k + tm_{k-1}  in rounded real arithmetic,
     error = (|c_0| + |c_1| |x| + sum_{k>=2} |c_k| tm_k) * ud        (ud = 4 n 2^-wp) *)
Fixpoint cheb_fix_loop (Ra : rarith) (cs : list C) (r t0 t1 e : R) : R :=
  match cs with
  | [] => e
  | c :: rest => let t := radd Ra (rmul Ra (rmul Ra r t1) 2) t0 in
                 cheb_fix_loop Ra rest r t1 t (radd Ra e (rmul Ra (rmod Ra c) t))
  end.
Definition cheb_fix_est (Ra : rarith) (ud : R) (cs : list C) (x : C) : R :=
  match cs with
  | [] => 0
  | c0 :: l' => match l' with
                | [] => 0
                | c1 :: rest => let r := rmod Ra x in
                    rmul Ra (cheb_fix_loop Ra rest r 1 r (radd Ra (rmod Ra c0) (rmul Ra (rmod Ra c1) r))) ud
                end
  end.

(* ------------------------------------------------------------------ (3) exact twin *)
(* Gaussian rationals with ONE common denominator: (a, b, d) stands for (a + b i)/d.  (With a
   pair of independent rationals and no gcd the denominators square at every complex product;
   with a common denominator they only multiply, and no gcd is ever needed.) *)
Local Open Scope Z_scope.
Definition QC := (Z * Z * positive)%type.
Definition qc_re (a : QC) : Z := fst (fst a).
Definition qc_im (a : QC) : Z := snd (fst a).
Definition qc_den (a : QC) : positive := snd a.
Definition qc0 : QC := (0, 0, 1%positive).
Definition qc1 : QC := (1, 0, 1%positive).
Definition qc_of_q (r i : Q) : QC :=
  (Qnum r * Zpos (Qden i), Qnum i * Zpos (Qden r), (Qden r * Qden i)%positive).
(* cancel common factors 2 (constant time per bit; all evaluation points of the check are dyadic, so
   this keeps the denominators of three-term recurrences from growing like Fibonacci numbers) *)
Fixpoint strip2 (a b : Z) (d : positive) : QC :=
  match d with
  | xO d' => if andb (Z.even a) (Z.even b) then strip2 (Z.div2 a) (Z.div2 b) d' else (a, b, d)
  | _ => (a, b, d)
  end.
Definition qc_add (a b : QC) : QC :=
  strip2 (qc_re a * Zpos (qc_den b) + qc_re b * Zpos (qc_den a))
         (qc_im a * Zpos (qc_den b) + qc_im b * Zpos (qc_den a)) (qc_den a * qc_den b)%positive.
Definition qc_sub (a b : QC) : QC :=
  strip2 (qc_re a * Zpos (qc_den b) - qc_re b * Zpos (qc_den a))
         (qc_im a * Zpos (qc_den b) - qc_im b * Zpos (qc_den a)) (qc_den a * qc_den b)%positive.
Definition qc_mul (a b : QC) : QC :=
  (qc_re a * qc_re b - qc_im a * qc_im b, qc_re a * qc_im b + qc_im a * qc_re b,
   (qc_den a * qc_den b)%positive).
Definition qc_n2 (a : QC) : Z := qc_re a * qc_re a + qc_im a * qc_im a.
(* a / b, meaningful for b <> 0 *)
Definition qc_div (a b : QC) : QC :=
  ((qc_re a * qc_re b + qc_im a * qc_im b) * Zpos (qc_den b),
   (qc_im a * qc_re b - qc_re a * qc_im b) * Zpos (qc_den b),
   (qc_den a * Z.to_pos (qc_n2 b))%positive).
Definition qc_is0 (a : QC) : bool := andb (Z.eqb (qc_re a) 0) (Z.eqb (qc_im a) 0).
Definition qc_norm2 (a : QC) : Q := Qmake (qc_n2 a) (qc_den a * qc_den a).
Local Open Scope Q_scope.

(* injection into C (specification side of the twin) *)
Definition QC2C (a : QC) : C :=
  ((IZR (qc_re a) / IZR (Zpos (qc_den a)))%R, (IZR (qc_im a) / IZR (Zpos (qc_den a)))%R).

Definition horner_q := horner QC qc0 qc_add qc_mul.
Definition sparse_q := sparse_eval QC qc0 qc_add qc_mul.
Definition cheb_q := cheb_sum QC qc0 qc1 qc_add qc_mul qc_sub.
Definition cheb_coded_q := cheb_eval QC qc0 qc1 qc_add qc_mul qc_sub.
(* equality of values (cross-multiplication) *)
Definition qc_eqb (a b : QC) : bool :=
  andb (Z.eqb (qc_re a * Zpos (qc_den b)) (qc_re b * Zpos (qc_den a)))
       (Z.eqb (qc_im a * Zpos (qc_den b)) (qc_im b * Zpos (qc_den a))).

(* rational upper bound of a square root: for q >= 0, (qsqrt_up q)^2 >= q, with relative
   excess about 2^-60:  sqrt(n/d) = sqrt(n d)/d <= (isqrt(n d 4^k) + 1)/(d 2^k) ; k is chosen so
   that n d 4^k has at least 128 bits *)
Definition sqrt_shift (n d : positive) : Z :=
  (Z.max 0 (64 - Z.log2 (Zpos n * Zpos d) / 2))%Z.
Definition qsqrt_up (q : Q) : Q :=
  match Qnum q with
  | Zpos n =>
      let d := Qden q in
      let k := sqrt_shift n d in
      let s := (Z.sqrt (Zpos n * Zpos d * 4 ^ k) + 1)%Z in
      Qmake s (d * Z.to_pos (2 ^ k)%Z)
  | _ => 0
  end.
(* round a rational UP to a dyadic with about 130 significant bits (keeps the bound computations
   cheap: without it the denominators of the running bound grow with every term) *)
Definition qup (q : Q) : Q :=
  match Qnum q with
  | Zpos n =>
      let d := Qden q in
      let e := (130 - (Z.log2 (Zpos n) - Z.log2 (Zpos d)))%Z in
      match e with
      | Zneg p => Qmake ((Zpos n / (Zpos d * 2 ^ (Zpos p)) + 1) * 2 ^ (Zpos p))%Z 1
      | _ => Qmake (Zpos n * 2 ^ e / Zpos d + 1)%Z (Z.to_pos (2 ^ e)%Z)
      end
  | _ => 0
  end.
Definition qc_mod_up (a : QC) : Q := qup (qsqrt_up (qc_norm2 a)).

(* upper bound of p~(|x|): Horner over Q with upper bounds of the moduli *)
Fixpoint habs_q (l : list QC) (r : Q) : Q :=
  match l with
  | [] => 0
  | a :: l' => qup (qc_mod_up a + r * habs_q l' r)
  end.
Definition eval_mono_q (l : list QC) (x : QC) : QC * Q := (horner_q l x, habs_q l (qc_mod_up x)).

(* upper bound of sum |c_k| |T_k|(|x|) where |T_k|(r) is the majorant recurrence
   t_{k+1} = 2 r t_k + t_{k-1} (every rounding error of the forward recurrence is relative
   to these quantities) *)
Fixpoint chebabs_loop (cs : list QC) (r t0 t1 acc : Q) : Q :=
  match cs with
  | [] => acc
  | c :: rest => let t := qup (2 * r * t1 + t0) in chebabs_loop rest r t1 t (qup (acc + qc_mod_up c * t))
  end.
Definition chebabs_q (cs : list QC) (r : Q) : Q :=
  match cs with
  | [] => 0
  | c0 :: l' => match l' with
                | [] => qc_mod_up c0
                | c1 :: rest => chebabs_loop rest r 1 r (qc_mod_up c0 + qc_mod_up c1 * r)
                end
  end.
(* the value is computed with the coded (linear-time) recurrence; C14_chebrec_exact says it is the
   specification value cheb_q (whose naive definition of T_k takes exponential time) *)
Definition eval_cheb_q (cs : list QC) (x : QC) : QC * Q := (cheb_coded_q cs x, chebabs_q cs (qc_mod_up x)).

(* secular: S(x), P(x) = -S(x) prod(x-b_i), and the condition quantity
   (sum |a_i|/|x-b_i| + 1) * prod |x-b_i|  bounded from above.  None when x = b_i. *)
Fixpoint sec_terms_q (ab : list (QC * QC)) (x : QC) : option QC :=
  match ab with
  | [] => Some qc0
  | (a, b) :: r =>
      let d := qc_sub x b in
      if qc_is0 d then None
      else match sec_terms_q r x with
           | Some s => Some (qc_add (qc_div a d) s)
           | None => None
           end
  end.
Fixpoint sec_prod_q (ab : list (QC * QC)) (x : QC) : QC :=
  match ab with
  | [] => qc1
  | (_, b) :: r => qc_mul (qc_sub x b) (sec_prod_q r x)
  end.
(* |a|/|d| <= sqrt_up(|a|^2/|d|^2) *)
Fixpoint sec_abs_q (ab : list (QC * QC)) (x : QC) : Q :=
  match ab with
  | [] => 0
  | (a, b) :: r => qup (qup (qsqrt_up (qc_norm2 a / qc_norm2 (qc_sub x b))) + sec_abs_q r x)
  end.
Definition eval_sec_q (ab : list (QC * QC)) (x : QC) : option (QC * QC * Q) :=
  match sec_terms_q ab x with
  | Some t =>
      let s := qc_sub t qc1 in
      let pr := sec_prod_q ab x in
      Some (s, qc_mul (qc_sub qc0 s) pr, (sec_abs_q ab x + 1) * qc_mod_up pr)
  | None => None
  end.

(* the estimates as coded, without their roundings (the tie compares the exported estimates with these):
   secular    (sum (i+2)|a_i|/|x-b_i| + 1) prod|x-b_i|          (times u4)
   Chebyshev  |c_1 x| + sum_{i>=2} (|2 x T_{i-1}(x)| + |T_{i-2}(x)|) |x|     (times u2),
              together with the same sum over the majorants T~ (scale of the rounding errors of the
              computed T_k, used by the check as the absolute tolerance of the comparison) *)
Definition qc2 : QC := (2%Z, 0%Z, 1%positive).
(* modulus of a value with very long numerator/denominator (the exact T_k(x)), used by the tie only: numerators
   and denominator are first cut to about 140 bits (numerators rounded away from zero, denominator towards
   zero), so the result is still an upper bound, with an absolute excess below 2^-139 *)
Definition qc_mod_up2 (a : QC) : Q :=
  let k := (Z.max 0 (Z.log2 (Zpos (qc_den a)) - 140))%Z in
  let r := (Z.shiftr (Z.abs (qc_re a)) k + 1)%Z in
  let i := (Z.shiftr (Z.abs (qc_im a)) k + 1)%Z in
  let d := Z.to_pos (Z.shiftr (Zpos (qc_den a)) k) in
  match k with
  | Z0 => qc_mod_up a
  | _ => qup (qsqrt_up (Qmake (r * r + i * i) (d * d)))
  end.
Fixpoint sec_wabs_q (ab : list (QC * QC)) (x : QC) (i : Z) : Q :=
  match ab with
  | [] => 0
  | (a, b) :: r => qup (inject_Z i * qup (qsqrt_up (qc_norm2 a / qc_norm2 (qc_sub x b))) + sec_wabs_q r x (i + 1))
  end.
Definition sec_est_q (ab : list (QC * QC)) (x : QC) : Q :=
  (sec_wabs_q ab x 2 + 1) * qc_mod_up (sec_prod_q ab x).
Fixpoint cheb_est_loop_q (cs : list QC) (x : QC) (ax : Q) (t0 t1 : QC) (tm0 tm1 : Q) (e m : Q) : Q * Q :=
  match cs with
  | [] => (e, m)
  | _ :: rest =>
      let p := qc_mul (qc_mul x t1) qc2 in
      let t := qc_sub p t0 in
      let tm := qup (2 * ax * tm1 + tm0) in
      cheb_est_loop_q rest x ax t1 t tm1 tm (qup (e + (qc_mod_up2 p + qc_mod_up2 t0) * ax)) (qup (m + tm * ax))
  end.
Definition cheb_est_q (cs : list QC) (x : QC) : Q * Q :=
  match cs with
  | _ :: c1 :: rest =>
      let ax := qc_mod_up x in
      let e0 := qc_mod_up (qc_mul c1 x) in
      cheb_est_loop_q rest x ax qc1 x 1 ax e0 e0
  | _ => (0, 0)
  end.
