(* C14 -- rounded-arithmetic bound for the forward three-term recurrence of
   mps_chebyshev_poly_meval.  The growth of |T_k(x)| outside [-1,1] is handled by the majorant
   recurrence on moduli t_0 = 1, t_1 = |x|, t_{k+1} = 2|x| t_k + t_{k-1}. *)
Require Import Reals List Lra Lia.
From Coquelicot Require Import Complex.
Require Import MPSV.Eval.EvalModel MPSV.Eval.EvalExact MPSV.Eval.EvalRounded.
Import ListNotations.
Local Open Scope R_scope.

Lemma ge1_mul : forall a b, 1 <= a -> 1 <= b -> 1 <= a * b.
Proof. intros a b Ha Hb. replace 1 with (1 * 1) by ring. apply Rmult_le_compat; lra. Qed.
Lemma le_scale : forall a g, 1 <= a -> 0 <= g -> g <= a * g.
Proof. intros a g Ha Hg. replace g with (1 * g) at 1 by ring. apply Rmult_le_compat_r; lra. Qed.
Ltac ge1 := repeat (apply ge1_mul); lra.

Section Cheb.
  Variables (A : arith) (mu : R).
  Hypothesis HA : std_model mu A.

  Let Hmu : 0 <= mu. Proof. destruct HA; assumption. Qed.
  Let Hadd : forall a b, Cmod (fadd A a b - (a + b))%C <= mu * (Cmod a + Cmod b).
  Proof. destruct HA as (_ & H & _); exact H. Qed.
  Let Hsub : forall a b, Cmod (fsub A a b - (a - b))%C <= mu * (Cmod a + Cmod b).
  Proof.
    destruct HA as (Hm & _ & H & _). intros a b. eapply Rle_trans; [apply H|].
    apply Rmult_le_compat_l; [exact Hm|].
    eapply Rle_trans; [apply Cmod_triangle|]. rewrite Cmod_opp. lra.
  Qed.
  Let Hmul : forall a b, Cmod (fmul A a b - a * b)%C <= mu * (Cmod a * Cmod b).
  Proof. destruct HA as (_ & _ & _ & H & _). intros a b. rewrite <- Cmod_mult. apply H. Qed.

  (* product of two perturbed factors, each known relative to a majorant *)
  Lemma mul_err : forall ah a bh b Ga Gb ma mb,
    1 <= Ga -> 1 <= Gb ->
    Cmod (ah - a)%C <= (Ga - 1) * ma -> Cmod a <= ma ->
    Cmod (bh - b)%C <= (Gb - 1) * mb -> Cmod b <= mb ->
    Cmod (fmul A ah bh - a * b)%C <= ((1 + mu) * (Ga * Gb) - 1) * (ma * mb)
    /\ Cmod (fmul A ah bh) <= (1 + mu) * (Ga * Gb) * (ma * mb).
  Proof.
    intros ah a bh b Ga Gb ma mb HGa HGb Ha Ham Hb Hbm.
    pose proof (Cmod_ge_0 a) as Ha0. pose proof (Cmod_ge_0 b) as Hb0.
    pose proof (Cmod_ge_0 ah) as Hah0. pose proof (Cmod_ge_0 bh) as Hbh0.
    assert (Hma : 0 <= ma) by lra. assert (Hmb : 0 <= mb) by lra.
    assert (Hah : Cmod ah <= Ga * ma).
    { replace ah with ((ah - a) + a)%C by ring. eapply Rle_trans; [apply Cmod_triangle|]. lra. }
    assert (Hbh : Cmod bh <= Gb * mb).
    { replace bh with ((bh - b) + b)%C by ring. eapply Rle_trans; [apply Cmod_triangle|]. lra. }
    set (W := ma * mb). assert (HW : 0 <= W) by (unfold W; apply Rmult_le_pos; lra).
    assert (P1 : Cmod ah * Cmod bh <= Ga * Gb * W).
    { unfold W. replace (Ga * Gb * (ma * mb)) with ((Ga * ma) * (Gb * mb)) by ring.
      apply Rmult_le_compat; lra. }
    assert (P2 : Cmod ah * Cmod (bh - b)%C <= Ga * (Gb - 1) * W).
    { unfold W. replace (Ga * (Gb - 1) * (ma * mb)) with ((Ga * ma) * ((Gb - 1) * mb)) by ring.
      apply Rmult_le_compat; try lra. apply Cmod_ge_0. }
    assert (P3 : Cmod (ah - a)%C * Cmod b <= (Ga - 1) * W).
    { unfold W. replace ((Ga - 1) * (ma * mb)) with (((Ga - 1) * ma) * mb) by ring.
      apply Rmult_le_compat; try lra. apply Cmod_ge_0. }
    pose proof (Hmul ah bh) as Hm1.
    assert (E1 : Cmod (ah * bh - a * b)%C <= (Ga * Gb - 1) * W).
    { replace (ah * bh - a * b)%C with (ah * (bh - b) + (ah - a) * b)%C by ring.
      eapply Rle_trans; [apply Cmod_triangle|]. rewrite !Cmod_mult. lra. }
    assert (M1 : mu * (Cmod ah * Cmod bh) <= mu * (Ga * Gb * W)) by (apply Rmult_le_compat_l; lra).
    split.
    - replace (fmul A ah bh - a * b)%C with ((fmul A ah bh - ah * bh) + (ah * bh - a * b))%C by ring.
      eapply Rle_trans; [apply Cmod_triangle|]. fold W. lra.
    - replace (fmul A ah bh) with ((fmul A ah bh - ah * bh) + ah * bh)%C by ring.
      eapply Rle_trans; [apply Cmod_triangle|]. rewrite Cmod_mult. fold W. lra.
  Qed.

  Lemma exact_err : forall z : C, Cmod (z - z)%C <= (1 - 1) * Cmod z.
  Proof. intros z. replace (z - z)%C with (RtoC 0) by ring. rewrite Cmod_0. lra. Qed.

  Notation twoh := (ktwo C (RtoC 1) (fadd A)).
  Notation twox := (ktwo C (RtoC 1) Cplus).

  Lemma two_err : Cmod (twoh - twox)%C <= ((1 + mu) - 1) * 2 /\ Cmod twox <= 2.
  Proof.
    unfold ktwo. pose proof (Hadd (RtoC 1) (RtoC 1)) as H. rewrite Cmod_1 in H.
    split; [lra|]. rewrite <- RtoC_plus, Cmod_R, Rabs_pos_eq; lra.
  Qed.

  (* one step of the recurrence *)
  Lemma step_err : forall x t0h t1h T0 T1 tau0 tau1 G,
    1 <= G ->
    Cmod (t0h - T0)%C <= (G - 1) * tau0 -> Cmod T0 <= tau0 ->
    Cmod (t1h - T1)%C <= (G - 1) * tau1 -> Cmod T1 <= tau1 ->
    let th := fsub A (fmul A (fmul A x t1h) twoh) t0h in
    let T := (x * T1 * twox - T0)%C in
    let tau := 2 * Cmod x * tau1 + tau0 in
    let G' := (1 + mu) * (1 + mu) * (1 + mu) * (1 + mu) * G in
    Cmod (th - T)%C <= (G' - 1) * tau /\ Cmod T <= tau.
  Proof.
    intros x t0h t1h T0 T1 tau0 tau1 G HG H0 H0m H1 H1m th T tau G'.
    set (r := Cmod x). pose proof (Cmod_ge_0 x) as Hr. fold r in Hr.
    pose proof (Cmod_ge_0 T0). pose proof (Cmod_ge_0 T1).
    assert (Ht0 : 0 <= tau0) by lra. assert (Ht1 : 0 <= tau1) by lra.
    destruct (mul_err x x t1h T1 1 G r tau1 (Rle_refl 1) HG (exact_err x) (Rle_refl _) H1 H1m) as [E1 M1].
    rewrite Rmult_1_l in E1, M1.
    assert (X1 : Cmod (x * T1)%C <= r * tau1).
    { rewrite Cmod_mult. apply Rmult_le_compat_l; lra. }
    assert (HG1 : 1 <= (1 + mu) * G) by (pose proof Hmu; ge1).
    destruct two_err as [Et Mt].
    assert (H1mu : 1 <= 1 + mu) by (pose proof Hmu; lra).
    destruct (mul_err (fmul A x t1h) (x * T1)%C twoh twox ((1 + mu) * G) (1 + mu) (r * tau1) 2
                HG1 H1mu E1 X1 Et Mt) as [E2 M2].
    set (u2 := fmul A (fmul A x t1h) twoh) in *.
    set (W := r * tau1 * 2) in *. assert (HW : 0 <= W) by (unfold W; pose proof (Rmult_le_pos _ _ Hr Ht1); lra).
    set (K := (1 + mu) * ((1 + mu) * G * (1 + mu))) in *.
    assert (Ht0h : Cmod t0h <= G * tau0).
    { replace t0h with ((t0h - T0) + T0)%C by ring. eapply Rle_trans; [apply Cmod_triangle|]. lra. }
    pose proof (Hsub u2 t0h) as Hs.
    pose proof Hmu as Hm0.
    assert (HK : 1 <= K) by (unfold K; ge1).
    split.
    - unfold th, T. fold u2.
      replace (fsub A u2 t0h - (x * T1 * twox - T0))%C
        with ((fsub A u2 t0h - (u2 - t0h)) + ((u2 - x * T1 * twox) - (t0h - T0)))%C by ring.
      eapply Rle_trans; [apply Cmod_triangle|].
      assert (D : Cmod ((u2 - x * T1 * twox) - (t0h - T0))%C <= (K - 1) * W + (G - 1) * tau0).
      { eapply Rle_trans; [apply Cmod_triangle|]. rewrite Cmod_opp. lra. }
      assert (S1 : mu * (Cmod u2 + Cmod t0h) <= mu * (K * W + G * tau0)) by (apply Rmult_le_compat_l; lra).
      (* ((1+mu) K - 1) W + ((1+mu) G - 1) tau0 <= (G' - 1)(W + tau0) *)
      unfold tau. fold r. replace (2 * r * tau1) with W by (unfold W; ring).
      assert (EK : (1 + mu) * K = G') by (unfold K, G'; ring).
      assert (LG : (1 + mu) * G <= G').
      { unfold G'. replace ((1 + mu) * (1 + mu) * (1 + mu) * (1 + mu) * G)
          with (((1 + mu) * (1 + mu) * (1 + mu)) * ((1 + mu) * G)) by ring.
        apply le_scale; [ge1|lra]. }
      assert (Q1 : ((1 + mu) * G - 1) * tau0 <= (G' - 1) * tau0) by (apply Rmult_le_compat_r; lra).
      replace ((G' - 1) * (W + tau0)) with (((1 + mu) * K - 1) * W + (G' - 1) * tau0) by (rewrite EK; ring).
      lra.
    - unfold T, tau. fold r.
      eapply Rle_trans; [apply Cmod_triangle|]. rewrite Cmod_opp, !Cmod_mult. fold r.
      assert (r * Cmod T1 * Cmod twox <= r * tau1 * 2).
      { apply Rmult_le_compat; try lra.
        - apply Rmult_le_pos; lra.
        - apply Cmod_ge_0.
        - apply Rmult_le_compat_l; lra. }
      lra.
  Qed.

  Lemma loop_err : forall cs x t0h t1h acch T0 T1 accx tau0 tau1 Sa G,
    1 <= G ->
    Cmod (t0h - T0)%C <= (G - 1) * tau0 -> Cmod T0 <= tau0 ->
    Cmod (t1h - T1)%C <= (G - 1) * tau1 -> Cmod T1 <= tau1 ->
    Cmod (acch - accx)%C <= ((1 + mu) * (1 + mu) * G - 1) * Sa -> Cmod accx <= Sa ->
    Cmod (cheb_loop C (RtoC 1) (fadd A) (fmul A) (fsub A) cs x t0h t1h acch
          - cheb_loop C (RtoC 1) Cplus Cmult Cminus cs x T0 T1 accx)%C
      <= ((1 + mu) * (1 + mu) * ((1 + mu) ^ (4 * length cs) * G) - 1)
         * chebabs_loop_R cs (Cmod x) tau0 tau1 Sa.
  Proof.
    induction cs as [|c cs IH]; intros x t0h t1h acch T0 T1 accx tau0 tau1 Sa G HG H0 H0m H1 H1m Hacc Haccm.
    - cbn [cheb_loop chebabs_loop_R length]. rewrite Nat.mul_0_r. simpl pow. rewrite Rmult_1_l. exact Hacc.
    - cbn [cheb_loop chebabs_loop_R]. cbv zeta.
      destruct (step_err x t0h t1h T0 T1 tau0 tau1 G HG H0 H0m H1 H1m) as [Et Mt]. cbv zeta in Et, Mt.
      set (th := fsub A (fmul A (fmul A x t1h) twoh) t0h) in *.
      set (T := (x * T1 * twox - T0)%C) in *.
      set (tau := 2 * Cmod x * tau1 + tau0) in *.
      set (G' := (1 + mu) * (1 + mu) * (1 + mu) * (1 + mu) * G) in *.
      pose proof Hmu as Hm0.
      assert (HG' : 1 <= G') by (unfold G'; ge1).
      assert (HGG : G <= G') by (unfold G'; apply le_scale; [ge1|lra]).
      pose proof (Cmod_ge_0 T) as HT0. assert (Htau : 0 <= tau) by lra.
      pose proof (Cmod_ge_0 T1) as HT1. assert (Htau1 : 0 <= tau1) by lra.
      pose proof (Cmod_ge_0 accx) as Hax0. assert (HS : 0 <= Sa) by lra.
      pose proof (Cmod_ge_0 c) as Hc0.
      (* the new accumulator *)
      destruct (mul_err th T c c G' 1 tau (Cmod c) HG' (Rle_refl 1) Et Mt (exact_err c) (Rle_refl _)) as [Ep Mp].
      rewrite Rmult_1_r in Ep, Mp.
      set (p := fmul A th c) in *.
      set (V := tau * Cmod c) in *. assert (HV : 0 <= V) by (unfold V; apply Rmult_le_pos; lra).
      assert (Hacch : Cmod acch <= (1 + mu) * (1 + mu) * G * Sa).
      { replace acch with ((acch - accx) + accx)%C by ring. eapply Rle_trans; [apply Cmod_triangle|]. lra. }
      pose proof (Hadd acch p) as Hs.
      assert (Hnew : Cmod (fadd A acch p - (accx + T * c))%C
                     <= ((1 + mu) * (1 + mu) * G' - 1) * (Sa + Cmod c * tau)).
      { replace (fadd A acch p - (accx + T * c))%C
          with ((fadd A acch p - (acch + p)) + ((acch - accx) + (p - T * c)))%C by ring.
        eapply Rle_trans; [apply Cmod_triangle|].
        eapply Rle_trans; [apply Rplus_le_compat_l; apply Cmod_triangle|].
        replace (Cmod c * tau) with V by (unfold V; ring).
        set (B := (1 + mu) * (1 + mu) * G) in *.
        assert (S1 : mu * (Cmod acch + Cmod p) <= mu * (B * Sa + (1 + mu) * G' * V))
          by (apply Rmult_le_compat_l; lra).
        (* ((1+mu) B - 1) Sa + ((1+mu)^2 G' - 1) V <= ((1+mu)^2 G' - 1)(Sa + V) *)
        assert (LB : (1 + mu) * B <= (1 + mu) * (1 + mu) * G').
        { unfold B, G'.
          replace ((1 + mu) * (1 + mu) * ((1 + mu) * (1 + mu) * (1 + mu) * (1 + mu) * G))
            with (((1 + mu) * (1 + mu) * (1 + mu)) * ((1 + mu) * ((1 + mu) * (1 + mu) * G))) by ring.
          apply le_scale; [ge1|]. assert (1 <= (1 + mu) * ((1 + mu) * (1 + mu) * G)) by ge1. lra. }
        assert (Q1 : ((1 + mu) * B - 1) * Sa <= ((1 + mu) * (1 + mu) * G' - 1) * Sa)
          by (apply Rmult_le_compat_r; lra).
        replace (((1 + mu) * (1 + mu) * G' - 1) * (Sa + V))
          with (((1 + mu) * (1 + mu) * G' - 1) * Sa + ((1 + mu) * ((1 + mu) * G') - 1) * V) by ring.
        lra. }
      assert (Hnewm : Cmod (accx + T * c)%C <= Sa + Cmod c * tau).
      { eapply Rle_trans; [apply Cmod_triangle|]. rewrite Cmod_mult.
        assert (Cmod T * Cmod c <= Cmod c * tau) by (rewrite (Rmult_comm (Cmod c)); apply Rmult_le_compat_r; lra).
        lra. }
      assert (H1' : Cmod (t1h - T1)%C <= (G' - 1) * tau1).
      { eapply Rle_trans; [exact H1|]. apply Rmult_le_compat_r; lra. }
      pose proof (IH x t1h th (fadd A acch p) T1 T (accx + T * c)%C tau1 tau (Sa + Cmod c * tau) G'
                    HG' H1' H1m Et Mt Hnew Hnewm) as R.
      eapply Rle_trans; [exact R|]. apply Req_le. f_equal. f_equal.
      unfold G'. cbn [length]. replace (4 * S (length cs))%nat with (4 + 4 * length cs)%nat by lia.
      rewrite pow_add. simpl pow. ring.
  Qed.

  (* |cheb^ - sum c_k T_k(x)| <= ((1+mu)^(4n) - 1) sum |c_k| T~_k(|x|),  n = degree *)
  Theorem chebrec_apriori : forall (cs : list C) (x : C),
    Cmod (cheb_fl A cs x - chebC cs x)%C
      <= ((1 + mu) ^ (4 * (length cs - 1)) - 1) * chebabs_R cs (Cmod x).
  Proof.
    intros cs x. unfold chebC.
    rewrite <- (chebrec_exact C (RtoC 0) (RtoC 1) Cplus Cmult Cminus Copp C_ring_theory cs x).
    unfold cheb_fl. pose proof Hmu as Hm0.
    destruct cs as [|c0 [|c1 r]].
    - simpl. replace (RtoC 0 - RtoC 0)%C with (RtoC 0) by ring. rewrite Cmod_0. lra.
    - simpl. replace (c0 - c0)%C with (RtoC 0) by ring. rewrite Cmod_0. pose proof (Cmod_ge_0 c0). lra.
    - cbn [cheb_eval chebabs_R].
      set (rx := Cmod x). pose proof (Cmod_ge_0 x) as Hrx. fold rx in Hrx.
      pose proof (Cmod_ge_0 c0) as Hc0. pose proof (Cmod_ge_0 c1) as Hc1.
      (* initial accumulator c0 + c1 x *)
      destruct (mul_err c1 c1 x x 1 1 (Cmod c1) rx (Rle_refl 1) (Rle_refl 1)
                  (exact_err c1) (Rle_refl _) (exact_err x) (Rle_refl _)) as [Ep Mp].
      rewrite Rmult_1_l, Rmult_1_r in Ep, Mp.
      set (p := fmul A c1 x) in *. set (V := Cmod c1 * rx) in *.
      assert (HV : 0 <= V) by (unfold V; apply Rmult_le_pos; lra).
      pose proof (Hadd c0 p) as Hs.
      assert (Hacc : Cmod (fadd A c0 p - (c0 + c1 * x))%C <= ((1 + mu) * (1 + mu) * 1 - 1) * (Cmod c0 + V)).
      { replace (fadd A c0 p - (c0 + c1 * x))%C with ((fadd A c0 p - (c0 + p)) + (p - c1 * x))%C by ring.
        eapply Rle_trans; [apply Cmod_triangle|].
        assert (mu * (Cmod c0 + Cmod p) <= mu * (Cmod c0 + (1 + mu) * V)) by (apply Rmult_le_compat_l; lra).
        assert (0 <= mu * Cmod c0) by (apply Rmult_le_pos; lra).
        assert (0 <= mu * (mu * Cmod c0)) by (apply Rmult_le_pos; lra).
        replace (((1 + mu) * (1 + mu) * 1 - 1) * (Cmod c0 + V))
          with (mu * Cmod c0 + (mu * Cmod c0 + mu * (mu * Cmod c0)) + ((1 + mu) * (1 + mu) - 1) * V) by ring.
        replace (mu * (Cmod c0 + (1 + mu) * V)) with (mu * Cmod c0 + mu * (1 + mu) * V) in * by ring.
        replace (((1 + mu) * (1 + mu) - 1) * V) with (mu * (1 + mu) * V + ((1 + mu) - 1) * V) by ring.
        lra. }
      assert (Haccm : Cmod (c0 + c1 * x)%C <= Cmod c0 + V).
      { eapply Rle_trans; [apply Cmod_triangle|]. rewrite Cmod_mult. unfold V, rx. lra. }
      assert (H1one : Cmod (RtoC 1) <= 1) by (rewrite Cmod_1; lra).
      assert (E0 : Cmod (RtoC 1 - RtoC 1)%C <= (1 - 1) * 1).
      { replace (RtoC 1 - RtoC 1)%C with (RtoC 0) by ring. rewrite Cmod_0. lra. }
      pose proof (loop_err r x (RtoC 1) x (fadd A c0 p) (RtoC 1) x (c0 + c1 * x)%C 1 rx (Cmod c0 + V) 1
                    (Rle_refl 1) E0 H1one (exact_err x) (Rle_refl _) Hacc Haccm) as R.
      eapply Rle_trans; [exact R|]. fold rx.
      assert (Hab : 0 <= chebabs_loop_R r rx 1 rx (Cmod c0 + V)).
      { assert (Gen : forall cs t0 t1 acc, 0 <= t0 -> 0 <= t1 -> 0 <= acc -> 0 <= chebabs_loop_R cs rx t0 t1 acc).
        { induction cs as [|c cs IHc]; intros t0 t1 acc Ht0 Ht1 Hac; cbn [chebabs_loop_R]; [exact Hac|].
          cbv zeta. assert (0 <= 2 * rx * t1 + t0) by (pose proof (Rmult_le_pos _ _ Hrx Ht1); lra).
          apply IHc; try assumption. pose proof (Cmod_ge_0 c).
          pose proof (Rmult_le_pos (Cmod c) (2 * rx * t1 + t0)). lra. }
        apply Gen; lra. }
      apply Rmult_le_compat_r; [exact Hab|].
      (* (1+mu)^2 (1+mu)^(4 len r) <= (1+mu)^(4 (len r + 1)) *)
      cbn [length]. replace (S (S (length r)) - 1)%nat with (S (length r)) by lia.
      replace (4 * S (length r))%nat with (2 + (2 + 4 * length r))%nat by lia.
      rewrite (pow_add (1 + mu) 2). rewrite Rmult_1_r.
      assert (P : 1 <= (1 + mu) ^ (2 + 4 * length r)) by (apply pow1_ge_1; exact Hm0).
      assert (Q : (1 + mu) ^ (4 * length r) <= (1 + mu) ^ (2 + 4 * length r)).
      { apply Rle_pow; [lra|lia]. }
      assert (0 <= (1 + mu) ^ (4 * length r)) by (apply pow_le; lra).
      replace ((1 + mu) ^ 2) with ((1 + mu) * (1 + mu)) by (simpl; ring).
      assert ((1 + mu) * (1 + mu) * (1 + mu) ^ (4 * length r) <= (1 + mu) * (1 + mu) * (1 + mu) ^ (2 + 4 * length r)).
      { apply Rmult_le_compat_l; [|exact Q]. apply Rmult_le_pos; lra. }
      lra.
  Qed.
End Cheb.
