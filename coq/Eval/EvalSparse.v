(* C14 -- rounded-arithmetic bound for the pairing/squaring scheme of mps_mhorner_sparse, and the
   witness showing that the bound (hence any valid error estimate) must grow with the degree. *)
Require Import Reals List Lra Lia Psatz.
From Coquelicot Require Import Complex.
Require Import MPSV.Eval.EvalModel MPSV.Eval.EvalExact MPSV.Eval.EvalRounded.
Import ListNotations.
Local Open Scope R_scope.

Lemma R_ring_theory : ring_theory 0 1 Rplus Rmult Rminus Ropp (@eq R).
Proof. constructor; intros; ring. Qed.

(* entries of the three lists that travel together: computed, exact, majorant *)
Inductive ent (G : R) : option C -> option C -> option R -> Prop :=
| ent_none : ent G None None None
| ent_some : forall ch c m, Cmod (ch - c)%C <= (G - 1) * m -> Cmod c <= m ->
    ent G (Some ch) (Some c) (Some m).
Inductive rel3 (G : R) : list (option C) -> list (option C) -> list (option R) -> Prop :=
| rel3_nil : rel3 G [] [] []
| rel3_cons : forall a b m lh l ms, ent G a b m -> rel3 G lh l ms -> rel3 G (a :: lh) (b :: l) (m :: ms).

Section Sparse.
  Variables (A : arith) (mu : R).
  Hypothesis HA : std_model mu A.

  Let Hmu : 0 <= mu. Proof. destruct HA; assumption. Qed.
  Let Hadd : forall a b, Cmod (fadd A a b - (a + b))%C <= mu * (Cmod a + Cmod b).
  Proof. destruct HA as (_ & H & _); exact H. Qed.
  Let Hmul : forall a b, Cmod (fmul A a b - a * b)%C <= mu * (Cmod a * Cmod b).
  Proof. destruct HA as (_ & _ & _ & H & _). intros a b. rewrite <- Cmod_mult. apply H. Qed.

  (* product of a perturbed y with a perturbed coefficient *)
  Lemma prod_err : forall yh Y ch c H G m,
    1 <= H -> 1 <= G -> Cmod (yh - Y)%C <= (H - 1) * Cmod Y ->
    Cmod (ch - c)%C <= (G - 1) * m -> Cmod c <= m ->
    Cmod (fmul A yh ch - Y * c)%C <= ((1 + mu) * (H * G) - 1) * (Cmod Y * m)
    /\ Cmod (fmul A yh ch) <= (1 + mu) * (H * G) * (Cmod Y * m).
  Proof.
    intros yh Y ch c H G m HH HG Hy Hc Hcm.
    set (Rr := Cmod Y) in *. pose proof (Cmod_ge_0 Y) as HR. fold Rr in HR.
    pose proof (Cmod_ge_0 c) as Hc0. assert (Hm : 0 <= m) by lra.
    assert (Hyh : Cmod yh <= H * Rr).
    { replace yh with ((yh - Y) + Y)%C by ring. eapply Rle_trans; [apply Cmod_triangle|]. fold Rr. lra. }
    assert (Hch : Cmod ch <= G * m).
    { replace ch with ((ch - c) + c)%C by ring. eapply Rle_trans; [apply Cmod_triangle|]. lra. }
    pose proof (Cmod_ge_0 yh) as Hyh0. pose proof (Cmod_ge_0 ch) as Hch0.
    set (W := Rr * m). assert (HW : 0 <= W) by (unfold W; nra).
    assert (P1 : Cmod yh * Cmod ch <= H * G * W).
    { unfold W. replace (H * G * (Rr * m)) with ((H * Rr) * (G * m)) by ring.
      apply Rmult_le_compat; lra. }
    assert (P2 : Cmod yh * Cmod (ch - c)%C <= H * (G - 1) * W).
    { unfold W. replace (H * (G - 1) * (Rr * m)) with ((H * Rr) * ((G - 1) * m)) by ring.
      apply Rmult_le_compat; try lra. apply Cmod_ge_0. }
    assert (P3 : Cmod (yh - Y)%C * Cmod c <= (H - 1) * W).
    { unfold W. replace ((H - 1) * (Rr * m)) with (((H - 1) * Rr) * m) by ring.
      apply Rmult_le_compat; try lra. apply Cmod_ge_0. }
    pose proof (Hmul yh ch) as Hm1.
    assert (E1 : Cmod (yh * ch - Y * c)%C <= (H * G - 1) * W).
    { replace (yh * ch - Y * c)%C with (yh * (ch - c) + (yh - Y) * c)%C by ring.
      eapply Rle_trans; [apply Cmod_triangle|]. rewrite !Cmod_mult. nra. }
    assert (M1 : mu * (Cmod yh * Cmod ch) <= mu * (H * G * W)) by (apply Rmult_le_compat_l; lra).
    split.
    - replace (fmul A yh ch - Y * c)%C with ((fmul A yh ch - yh * ch) + (yh * ch - Y * c))%C by ring.
      eapply Rle_trans; [apply Cmod_triangle|]. fold W. nra.
    - replace (fmul A yh ch) with ((fmul A yh ch - yh * ch) + yh * ch)%C by ring.
      eapply Rle_trans; [apply Cmod_triangle|]. rewrite Cmod_mult. fold W. nra.
  Qed.

  Lemma comb_ent : forall yh Y H G a0 b0 m0 a1 b1 m1,
    1 <= H -> 1 <= G -> Cmod (yh - Y)%C <= (H - 1) * Cmod Y ->
    ent G a0 b0 m0 -> ent G a1 b1 m1 ->
    ent ((1 + mu) * (1 + mu) * (H * G))
        (comb C (fadd A) (fmul A) yh a0 a1) (comb C Cplus Cmult Y b0 b1) (comb R Rplus Rmult (Cmod Y) m0 m1).
  Proof.
    intros yh Y H G a0 b0 m0 a1 b1 m1 HH HG Hy E0 E1.
    assert (HP : 1 <= H * G) by nra.
    assert (HGP : G <= H * G) by nra.
    set (G' := (1 + mu) * (1 + mu) * (H * G)).
    assert (HG' : (1 + mu) * (H * G) <= G') by (unfold G'; nra).
    assert (HGG' : G <= G') by (unfold G'; nra).
    pose proof (Cmod_ge_0 Y) as HR.
    destruct E0 as [|c0h c0 m0 Hc0 Hc0m]; destruct E1 as [|c1h c1 m1 Hc1 Hc1m]; cbn [comb].
    - constructor.
    - (* None, Some: y * c1 *)
      destruct (prod_err yh Y c1h c1 H G m1 HH HG Hy Hc1 Hc1m) as [Pe _].
      pose proof (Cmod_ge_0 c1).
      assert (0 <= Cmod Y * m1) by nra.
      constructor.
      + eapply Rle_trans; [exact Pe|]. apply Rmult_le_compat_r; lra.
      + rewrite Cmod_mult. apply Rmult_le_compat_l; lra.
    - (* Some, None: copied *)
      pose proof (Cmod_ge_0 c0). constructor; [|assumption].
      eapply Rle_trans; [exact Hc0|]. apply Rmult_le_compat_r; lra.
    - (* Some, Some *)
      destruct (prod_err yh Y c1h c1 H G m1 HH HG Hy Hc1 Hc1m) as [Pe Pm].
      pose proof (Cmod_ge_0 c0) as H0. pose proof (Cmod_ge_0 c1) as H1.
      set (W := Cmod Y * m1) in *. assert (HW : 0 <= W) by (unfold W; nra).
      set (t := fmul A yh c1h) in *.
      assert (Hc0h : Cmod c0h <= G * m0).
      { replace c0h with ((c0h - c0) + c0)%C by ring. eapply Rle_trans; [apply Cmod_triangle|]. lra. }
      pose proof (Hadd c0h t) as Hs.
      constructor.
      + replace (fadd A c0h t - (c0 + Y * c1))%C
          with ((fadd A c0h t - (c0h + t)) + ((c0h - c0) + (t - Y * c1)))%C by ring.
        eapply Rle_trans; [apply Cmod_triangle|].
        eapply Rle_trans; [apply Rplus_le_compat_l; apply Cmod_triangle|].
        set (P := H * G) in *.
        assert (S1 : mu * (Cmod c0h + Cmod t) <= mu * (G * m0 + (1 + mu) * P * W))
          by (apply Rmult_le_compat_l; lra).
        (* ((1+mu) G - 1) m0 + ((1+mu)^2 P - 1) W <= (G' - 1)(m0 + W) *)
        assert (S2 : ((1 + mu) * G - 1) * m0 <= (G' - 1) * m0).
        { apply Rmult_le_compat_r; [lra|]. unfold G'. nra. }
        replace ((G' - 1) * (m0 + W)) with ((G' - 1) * m0 + (G' - 1) * W) by ring.
        unfold G' at 2. fold P. nra.
      + eapply Rle_trans; [apply Cmod_triangle|]. rewrite Cmod_mult. fold W.
        assert (Cmod Y * Cmod c1 <= W) by (unfold W; apply Rmult_le_compat_l; lra). lra.
  Qed.

  Lemma level_rel3 : forall yh Y H G, 1 <= H -> 1 <= G -> Cmod (yh - Y)%C <= (H - 1) * Cmod Y ->
    forall lh l ms, rel3 G lh l ms ->
    rel3 ((1 + mu) * (1 + mu) * (H * G))
         (level C (fadd A) (fmul A) yh lh) (level C Cplus Cmult Y l) (level R Rplus Rmult (Cmod Y) ms).
  Proof.
    intros yh Y H G HH HG Hy lh.
    induction lh as [| a | a a' r IH] using list_ind2; intros l ms Hr.
    - inversion Hr; subst. constructor.
    - inversion Hr as [|? b m ? l' ms' Ea Hr']; subst. inversion Hr'; subst.
      cbn [level]. constructor; [|constructor].
      apply comb_ent; try assumption. constructor.
    - inversion Hr as [|? b m ? l' ms' Ea Hr']; subst.
      inversion Hr' as [|? b' m' ? l'' ms'' Ea' Hr'']; subst.
      cbn [level]. constructor.
      + apply comb_ent; assumption.
      + apply IH; assumption.
  Qed.

  (* growth of the two factors over q passes *)
  Fixpoint Gfin (q : nat) (G H : R) : R :=
    match q with
    | O => G
    | S q' => Gfin q' ((1 + mu) * (1 + mu) * (H * G)) ((1 + mu) * (H * H))
    end.

  Lemma sq_err : forall yh Y H, 1 <= H -> Cmod (yh - Y)%C <= (H - 1) * Cmod Y ->
    Cmod (fmul A yh yh - Y * Y)%C <= ((1 + mu) * (H * H) - 1) * Cmod (Y * Y)%C.
  Proof.
    intros yh Y H HH Hy.
    destruct (prod_err yh Y yh Y H H (Cmod Y) HH HH Hy Hy (Rle_refl _)) as [Pe _].
    rewrite Cmod_mult. exact Pe.
  Qed.

  Lemma iter_rel3 : forall q yh Y H G lh l ms,
    1 <= H -> 1 <= G -> Cmod (yh - Y)%C <= (H - 1) * Cmod Y -> rel3 G lh l ms ->
    rel3 (Gfin q G H) (sparse_iter C (fadd A) (fmul A) q yh lh) (sparse_iter C Cplus Cmult q Y l)
         (sparse_iter R Rplus Rmult q (Cmod Y) ms).
  Proof.
    induction q as [|q IH]; intros yh Y H G lh l ms HH HG Hy Hr.
    - exact Hr.
    - cbn [sparse_iter Gfin]. rewrite <- Cmod_mult.
      apply (IH (fmul A yh yh) (Y * Y)%C ((1 + mu) * (H * H)) ((1 + mu) * (1 + mu) * (H * G))).
      + pose proof Hmu as Hm0.
        assert (1 <= H * H) by (replace 1 with (1 * 1) by ring; apply Rmult_le_compat; lra).
        assert (0 <= mu * (H * H)) by (apply Rmult_le_pos; lra). lra.
      + pose proof Hmu as Hm0.
        assert (1 <= H * G) by (replace 1 with (1 * 1) by ring; apply Rmult_le_compat; lra).
        assert (0 <= mu * (H * G)) by (apply Rmult_le_pos; lra).
        assert (0 <= mu * (mu * (H * G))) by (apply Rmult_le_pos; lra). lra.
      + apply sq_err; assumption.
      + apply level_rel3; assumption.
  Qed.

  Lemma rel3_init : forall l : list (option C),
    rel3 1 l l (map (fun o => match o with Some c => Some (Cmod c) | None => None end) l).
  Proof.
    induction l as [|[c|] l IH]; cbn [map]; constructor; try assumption; constructor.
    - replace (c - c)%C with (RtoC 0) by ring. rewrite Cmod_0. lra.
    - lra.
  Qed.

  Lemma habs_deopt : forall (l : list (option C)) r,
    horner R 0 Rplus Rmult
      (deopt R 0 (map (fun o => match o with Some c => Some (Cmod c) | None => None end) l)) r
    = habs (deopt C (RtoC 0) l) r.
  Proof.
    induction l as [|[c|] l IH]; intros r; cbn [map deopt horner habs]; [reflexivity| |].
    - unfold deopt in IH. rewrite IH. reflexivity.
    - unfold deopt in IH. rewrite IH. rewrite Cmod_0. reflexivity.
  Qed.

  Lemma Gfin_pow : forall q g h, Gfin q ((1 + mu) ^ g) ((1 + mu) ^ h) = (1 + mu) ^ sparse_E q g h.
  Proof.
    induction q as [|q IH]; intros g h; cbn [Gfin sparse_E]; [reflexivity|].
    rewrite <- IH. f_equal.
    - rewrite !pow_add. simpl. ring.
    - replace (2 * h + 1)%nat with (S (h + h)) by lia. rewrite <- tech_pow_Rmult, pow_add. ring.
  Qed.

  (* |sparse^ - p(x)| <= ((1+mu)^(2^q + q - 1) - 1) p~(|x|)   (sparse_expo q + 1 = 2^q + q) *)
  Theorem sparse_apriori : forall (l : list (option C)) (x : C) (q : nat),
    (length l <= 2 ^ q)%nat ->
    Cmod (sparse_fl A q x l - hornerC (deopt C (RtoC 0) l) x)%C
      <= ((1 + mu) ^ sparse_expo q - 1) * habs (deopt C (RtoC 0) l) (Cmod x).
  Proof.
    intros l x q Hlen.
    set (ms := map (fun o => match o with Some c => Some (Cmod c) | None => None end) l).
    assert (Hy : Cmod (x - x)%C <= (1 - 1) * Cmod x).
    { replace (x - x)%C with (RtoC 0) by ring. rewrite Cmod_0. lra. }
    pose proof (iter_rel3 q x x 1 1 l l ms (Rle_refl 1) (Rle_refl 1) Hy (rel3_init l)) as Hr.
    pose proof (Gfin_pow q 0 0) as HG. simpl pow in HG. rewrite HG in Hr. fold (sparse_expo q) in Hr.
    (* the exact and the majorant lists evaluate to p(x) and p~(|x|) *)
    pose proof (sparse_eq_dense_exact C (RtoC 0) (RtoC 1) Cplus Cmult Cminus Copp C_ring_theory l x q Hlen) as Ex.
    assert (Hlen' : (length ms <= 2 ^ q)%nat) by (unfold ms; rewrite map_length; exact Hlen).
    pose proof (sparse_eq_dense_exact R 0 1 Rplus Rmult Rminus Ropp R_ring_theory ms (Cmod x) q Hlen') as Em.
    unfold ms in Em. rewrite habs_deopt in Em. fold ms in Em.
    unfold sparse_fl, sparse_eval in *. unfold hornerC. rewrite <- Ex, <- Em.
    set (g := (1 + mu) ^ sparse_expo q) in *.
    assert (Hg : 1 <= g) by (apply pow1_ge_1; exact Hmu).
    destruct Hr as [|a b m lh' l' ms' E _].
    - replace (RtoC 0 - RtoC 0)%C with (RtoC 0) by ring. rewrite Cmod_0. lra.
    - destruct E as [|ch c m Hc Hcm].
      + replace (RtoC 0 - RtoC 0)%C with (RtoC 0) by ring. rewrite Cmod_0. lra.
      + exact Hc.
  Qed.

End Sparse.

Lemma sparse_E_closed : forall q g h,
  (sparse_E q g h + (h + 1) = g + (h + 1) * 2 ^ q + q)%nat.
Proof.
  induction q as [|q IH]; intros g h; cbn [sparse_E].
  - simpl. lia.
  - pose proof (IH (g + h + 2) (2 * h + 1))%nat as H. rewrite Nat.pow_succ_r'. nia.
Qed.

Lemma sparse_expo_closed : forall q, (sparse_expo q + 1 = 2 ^ q + q)%nat.
Proof. intros q. unfold sparse_expo. pose proof (sparse_E_closed q 0 0). lia. Qed.

(* ------------------------------------------------------------------ the degree factor is necessary *)
(* In the arithmetic that scales every result by s = 1 + delta (it satisfies the standard model with
   mu = delta), the sparse scheme applied to a x^n, n = 2^k, returns a x^n s^n exactly: the error
   is ((1+delta)^n - 1) |a| |x|^n = ((1+delta)^n - 1) p~(|x|) >= n delta p~(|x|). *)
Section Witness.
  Variable delta : R.
  Hypothesis Hd : 0 <= delta.
  Definition sarith : arith :=
    {| fadd := fun a b => ((a + b) * RtoC (1 + delta))%C; fsub := fun a b => ((a - b) * RtoC (1 + delta))%C;
       fmul := fun a b => ((a * b) * RtoC (1 + delta))%C; fdiv := fun a b => ((a / b) * RtoC (1 + delta))%C |}.

  Lemma sarith_err : forall z : C, Cmod (z * RtoC (1 + delta) - z)%C = delta * Cmod z.
  Proof.
    intros z. replace (z * RtoC (1 + delta) - z)%C with (z * RtoC delta)%C.
    - rewrite Cmod_mult, Cmod_R, Rabs_pos_eq by exact Hd. ring.
    - rewrite RtoC_plus. ring.
  Qed.

  Lemma sarith_std : std_model delta sarith.
  Proof.
    unfold std_model, sarith; simpl. repeat split; try exact Hd; intros; rewrite sarith_err; try lra.
    apply Rmult_le_compat_l; [exact Hd|apply Cmod_triangle].
  Qed.

  Lemma level_monomial : forall (y a : C) m,
    level C (fadd sarith) (fmul sarith) y (repeat None (2 * S m) ++ [Some a]) = repeat None (S m) ++ [Some a].
  Proof.
    intros y a m. induction m as [|m IH].
    - reflexivity.
    - replace (2 * S (S m))%nat with (S (S (2 * S m))) by lia.
      cbn [repeat app level comb]. rewrite IH. reflexivity.
  Qed.

  (* y after j squarings *)
  Fixpoint ysq (j : nat) (y : C) : C := match j with O => y | S j' => ysq j' (fmul sarith y y) end.

  Lemma iter_monomial : forall k y a,
    sparse_iter C (fadd sarith) (fmul sarith) (S k) y (monomial_input k a) = [Some (fmul sarith (ysq k y) a)].
  Proof.
    induction k as [|k IH]; intros y a.
    - reflexivity.
    - unfold monomial_input. rewrite Nat.pow_succ_r'.
      assert (E : exists m, (2 ^ k = S m)%nat).
      { pose proof (Nat.pow_nonzero 2 k ltac:(lia)). destruct (2 ^ k)%nat; [lia|eauto]. }
      destruct E as [m Em]. rewrite Em.
      change (sparse_iter C (fadd sarith) (fmul sarith) (S (S k)) y (repeat None (2 * S m) ++ [Some a]))
        with (sparse_iter C (fadd sarith) (fmul sarith) (S k) (fmul sarith y y)
                (level C (fadd sarith) (fmul sarith) y (repeat None (2 * S m) ++ [Some a]))).
      rewrite level_monomial, <- Em. apply IH.
  Qed.

  Lemma Cpow_add : forall (z : C) n m, Cpow z (n + m) = (Cpow z n * Cpow z m)%C.
  Proof. intros z n m. induction n as [|n IH]; simpl; [ring|rewrite IH; ring]. Qed.
  Lemma Cpow_mul : forall (z w : C) n, Cpow (z * w)%C n = (Cpow z n * Cpow w n)%C.
  Proof. intros z w n. induction n as [|n IH]; simpl; [ring|rewrite IH; ring]. Qed.
  Lemma Cmod_Cpow : forall (z : C) n, Cmod (Cpow z n) = Cmod z ^ n.
  Proof. induction n as [|n IH]; simpl; [apply Cmod_1|rewrite Cmod_mult, IH; reflexivity]. Qed.
  Lemma Cpow_R : forall (r : R) n, Cpow (RtoC r) n = RtoC (r ^ n).
  Proof. intros r n. induction n as [|n IH]; simpl; [reflexivity|rewrite IH, RtoC_mult; reflexivity]. Qed.

  Let s1 : C := RtoC (1 + delta).

  Lemma ysq_closed : forall j y, ysq j y = (Cpow y (2 ^ j) * Cpow s1 (2 ^ j - 1))%C.
  Proof.
    induction j as [|j IH]; intros y.
    - simpl. ring.
    - cbn [ysq]. rewrite IH. simpl fmul. fold s1.
      assert (E : exists m, (2 ^ j = S m)%nat).
      { pose proof (Nat.pow_nonzero 2 j ltac:(lia)). destruct (2 ^ j)%nat; [lia|eauto]. }
      destruct E as [m Em]. rewrite Nat.pow_succ_r', Em.
      replace (2 * S m - 1)%nat with (S m + m)%nat by lia. replace (S m - 1)%nat with m by lia.
      replace (2 * S m)%nat with (S m + S m)%nat by lia.
      rewrite !Cpow_add, !Cpow_mul. simpl Cpow. ring.
  Qed.

  Theorem sparse_monomial_error : forall (k : nat) (a x : C),
    Cmod (sparse_fl sarith (S k) x (monomial_input k a)
          - hornerC (deopt C (RtoC 0) (monomial_input k a)) x)%C
    = ((1 + delta) ^ (2 ^ k) - 1) * habs (deopt C (RtoC 0) (monomial_input k a)) (Cmod x).
  Proof.
    intros k a x.
    (* exact value and majorant of the single-term input *)
    assert (Hx : forall z, hornerC (deopt C (RtoC 0) (monomial_input k a)) z = (a * Cpow z (2 ^ k))%C).
    { intros z. unfold monomial_input, hornerC. generalize (2 ^ k)%nat as n.
      induction n as [|n IH]; cbn [repeat app deopt map horner].
      - simpl. ring.
      - unfold deopt in IH. rewrite IH. simpl Cpow. ring. }
    assert (Hm : forall r, habs (deopt C (RtoC 0) (monomial_input k a)) r = Cmod a * r ^ (2 ^ k)).
    { intros r. unfold monomial_input. generalize (2 ^ k)%nat as n.
      induction n as [|n IH]; cbn [repeat app deopt map habs].
      - simpl. ring.
      - unfold deopt in IH. rewrite IH, Cmod_0. simpl pow. ring. }
    rewrite Hx, Hm. unfold sparse_fl, sparse_eval. rewrite iter_monomial, ysq_closed. simpl fmul. fold s1.
    assert (E : exists m, (2 ^ k = S m)%nat).
    { pose proof (Nat.pow_nonzero 2 k ltac:(lia)). destruct (2 ^ k)%nat; [lia|eauto]. }
    destruct E as [m Em]. rewrite Em. replace (S m - 1)%nat with m by lia.
    replace (Cpow x (S m) * Cpow s1 m * a * s1 - a * Cpow x (S m))%C
      with ((a * Cpow x (S m)) * (Cpow s1 (S m) - RtoC 1))%C by (simpl Cpow; ring).
    rewrite Cmod_mult, Cmod_mult, Cmod_Cpow.
    unfold s1. rewrite Cpow_R, <- RtoC_minus, Cmod_R, Rabs_pos_eq; [ring|].
    pose proof (pow1_ge_1 delta (S m) Hd). lra.
  Qed.
End Witness.

(* Consequence (the known finding monomial:meval-sparse:mp-estimate explained): an estimate of the form
   u4 * (p~(|x|) + |value|) with u4 independent of the degree cannot bound the error of the sparse
   scheme for every standard-model arithmetic: for n = 2^k with n delta > 2 u4 (1 + delta)^n ... we state
   the clean version: the error is at least n delta p~(|x|). *)
Theorem sparse_estimate_needs_degree_factor : forall (delta : R) (k : nat) (a x : C), 0 <= delta ->
  std_model delta (sarith delta) /\
  INR (2 ^ k) * delta * habs (deopt C (RtoC 0) (monomial_input k a)) (Cmod x)
    <= Cmod (sparse_fl (sarith delta) (S k) x (monomial_input k a)
             - hornerC (deopt C (RtoC 0) (monomial_input k a)) x)%C.
Proof.
  intros delta k a x Hd. split; [apply sarith_std; exact Hd|].
  rewrite (sparse_monomial_error delta Hd).
  apply Rmult_le_compat_r.
  - apply habs_ge_0. apply Cmod_ge_0.
  - (* Bernoulli: 1 + n delta <= (1+delta)^n *)
    generalize (2 ^ k)%nat as n. induction n as [|n IH].
    + simpl. lra.
    + rewrite S_INR. simpl pow. pose proof (pos_INR n).
      assert (0 <= INR n * delta) by (apply Rmult_le_pos; lra). nra.
Qed.
