(* C14 -- the rational bounds computed by the extracted twin are upper bounds:
   qsqrt_up q >= sqrt q, qup q >= q, qc_mod_up a >= |a|, habs_q l r >= p~(|x|). *)
Require Import Reals List QArith Qreals ZArith Lra Lia Psatz.
From Coquelicot Require Import Complex.
Require Import MPSV.Eval.EvalModel MPSV.Eval.EvalExact MPSV.Eval.EvalRounded MPSV.Eval.EvalTwin.
Import ListNotations.

Lemma pow2_pos : forall k : Z, (0 <= k)%Z -> (0 < 2 ^ k)%Z.
Proof. intros. apply Z.pow_pos_nonneg; lia. Qed.

(* ---------------------------------------------------------------- qup *)
Lemma qup_ge_Q : forall q : Q, (q <= qup q)%Q.
Proof.
  intros [n d]. unfold qup. simpl Qnum. simpl Qden.
  destruct n as [|n|n].
  - unfold Qle; simpl; lia.
  - set (e := (130 - (Z.log2 (Z.pos n) - Z.log2 (Z.pos d)))%Z).
    clearbody e. destruct e as [|e|e].
    + (* e = 0 *)
      unfold Qle. cbn [Qnum Qden]. change (2 ^ 0)%Z with 1%Z. change (Z.to_pos 1) with 1%positive.
      rewrite Z.mul_1_r.
      pose proof (Z.mul_succ_div_gt (Z.pos n) (Z.pos d) ltac:(lia)). lia.
    + unfold Qle. cbn [Qnum Qden].
      pose proof (pow2_pos (Z.pos e) ltac:(lia)) as Hp.
      rewrite Z2Pos.id by exact Hp.
      pose proof (Z.mul_succ_div_gt (Z.pos n * 2 ^ Z.pos e) (Z.pos d) ltac:(lia)). lia.
    + unfold Qle. cbn [Qnum Qden].
      pose proof (pow2_pos (Z.pos e) ltac:(lia)) as Hp.
      set (m := (Z.pos d * 2 ^ Z.pos e)%Z).
      assert (Hm : (0 < m)%Z) by (unfold m; lia).
      pose proof (Z.mul_succ_div_gt (Z.pos n) m Hm) as H.
      unfold m in *. nia.
  - unfold Qle; simpl; lia.
Qed.

Lemma qup_ge : forall q : Q, (Q2R q <= Q2R (qup q))%R.
Proof. intros. apply Qle_Rle, qup_ge_Q. Qed.

(* ---------------------------------------------------------------- qsqrt_up *)
Lemma qsqrt_up_nonneg : forall q, (0 <= qsqrt_up q)%Q.
Proof.
  intros [n d]. unfold qsqrt_up. simpl Qnum. destruct n; try (unfold Qle; simpl; lia).
  unfold Qle. cbn [Qnum Qden]. pose proof (Z.sqrt_nonneg (Z.pos p * Z.pos d * 4 ^ sqrt_shift p d)). lia.
Qed.

Lemma qsqrt_up_sq_Q : forall q, (q <= qsqrt_up q * qsqrt_up q)%Q.
Proof.
  intros [n d]. unfold qsqrt_up. simpl Qnum. simpl Qden.
  destruct n as [|n|n]; try (unfold Qle; simpl; lia).
  set (k := sqrt_shift n d).
  assert (Hk : (0 <= k)%Z) by (unfold k, sqrt_shift; lia).
  pose proof (pow2_pos k Hk) as Hp.
  set (N := (Z.pos n * Z.pos d * 4 ^ k)%Z).
  assert (HN : (0 <= N)%Z) by (unfold N; pose proof (Z.pow_nonneg 4 k ltac:(lia)); nia).
  pose proof (Z.sqrt_spec N HN) as [_ Hs]. cbv zeta in Hs.
  set (s := (Z.sqrt N + 1)%Z) in *.
  replace (Z.succ (Z.sqrt N)) with s in Hs by (unfold s; lia).
  assert (H4 : (4 ^ k = 2 ^ k * 2 ^ k)%Z).
  { change 4%Z with (2 * 2)%Z. apply Z.pow_mul_l. }
  unfold Qle, Qmult. cbn [Qnum Qden].
  rewrite !Pos2Z.inj_mul, Z2Pos.id by exact Hp.
  unfold N in Hs. rewrite H4 in Hs.
  set (T := (2 ^ k)%Z) in *.
  (* n * (d T)(d T) <= s s d   from   n d T T < s s *)
  nia.
Qed.

Lemma qsqrt_up_ge : forall q, (sqrt (Q2R q) <= Q2R (qsqrt_up q))%R.
Proof.
  intros q.
  pose proof (Qle_Rle _ _ (qsqrt_up_sq_Q q)) as H. rewrite Q2R_mult in H.
  pose proof (Qle_Rle _ _ (qsqrt_up_nonneg q)) as H0.
  replace (Q2R 0) with 0%R in H0 by (unfold Q2R; simpl; lra).
  set (r := Q2R (qsqrt_up q)) in *.
  destruct (Rle_dec 0 (Q2R q)) as [Hq|Hq].
  - rewrite <- (sqrt_square r H0). apply sqrt_le_1_alt. exact H.
  - rewrite sqrt_neg_0 by lra. exact H0.
Qed.

(* ---------------------------------------------------------------- moduli *)
Local Open Scope R_scope.

Lemma Cmod_QC2C : forall a : QC, Cmod (QC2C a) = sqrt (Q2R (qc_norm2 a)).
Proof.
  intros [[re im] d]. unfold Cmod, QC2C, qc_norm2, qc_n2, qc_re, qc_im, qc_den. simpl fst; simpl snd.
  f_equal. unfold Q2R. cbn [Qnum Qden].
  rewrite Pos2Z.inj_mul, plus_IZR, !mult_IZR.
  pose proof (IZR_pos_neq_0 d). field. assumption.
Qed.

Lemma qc_mod_up_ge : forall a : QC, Cmod (QC2C a) <= Q2R (qc_mod_up a).
Proof.
  intros a. rewrite Cmod_QC2C. unfold qc_mod_up.
  eapply Rle_trans; [apply qsqrt_up_ge|apply qup_ge].
Qed.

Lemma habs_mono : forall l r r', 0 <= r <= r' -> habs l r <= habs l r'.
Proof.
  induction l as [|a l IH]; intros r r' Hr; simpl; [lra|].
  pose proof (IH r r' Hr). pose proof (habs_ge_0 l r ltac:(lra)). nra.
Qed.

Lemma habs_q_ge : forall (l : list QC) (rq : Q), 0 <= Q2R rq ->
  habs (map QC2C l) (Q2R rq) <= Q2R (habs_q l rq).
Proof.
  induction l as [|a l IH]; intros rq Hr.
  - simpl. unfold Q2R; simpl; lra.
  - cbn [map habs habs_q].
    eapply Rle_trans; [|apply qup_ge].
    rewrite Q2R_plus, Q2R_mult.
    pose proof (qc_mod_up_ge a). pose proof (IH rq Hr).
    pose proof (habs_ge_0 (map QC2C l) (Q2R rq) Hr). nra.
Qed.

Theorem twin_bound : forall (l : list QC) (x : QC),
  habs (map QC2C l) (Cmod (QC2C x)) <= Q2R (snd (eval_mono_q l x)).
Proof.
  intros l x. unfold eval_mono_q. simpl snd.
  pose proof (qc_mod_up_ge x) as Hx. pose proof (Cmod_ge_0 (QC2C x)) as H0.
  eapply Rle_trans; [apply habs_mono; split; [exact H0|exact Hx]|].
  apply habs_q_ge. lra.
Qed.
