(* C14 -- the double (f) variants: the complex operations of src/libmps/floating-point/mt.c AS CODED
   (MPS_USE_BUILTIN_COMPLEX: a struct of two doubles), every real operation rounded to nearest even in
   binary64 precision (Flocq, FLX format: 53 bits, unbounded exponent range -- i.e. IEEE binary64 as long as
   nothing overflows or underflows).  Definitions only. *)
Require Import Reals ZArith.
From Flocq Require Import Core IEEE754.BinarySingleNaN.
From Coquelicot Require Import Complex.
Require Import MPSV.Eval.EvalModel.
Local Open Scope R_scope.

Definition rn (x : R) : R := round radix2 (FLX_exp 53) ZnearestE x.
Definition u64 : R := / 2 ^ 53.

(* cplx_add / cplx_add_eq, cplx_sub / cplx_sub_eq *)
Definition b_add (a b : C) : C := (rn (fst a + fst b), rn (snd a + snd b)).
Definition b_sub (a b : C) : C := (rn (fst a - fst b), rn (snd a - snd b)).
(* cplx_mul / cplx_mul_eq:  d = Re*Re - Im*Im;  Im = Im(x1)*Re(x2) + Re(x1)*Im(x2);  Re = d *)
Definition b_mul (a b : C) : C :=
  (rn (rn (fst a * fst b) - rn (snd a * snd b)), rn (rn (snd a * fst b) + rn (fst a * snd b))).
(* cplx_inv:  if (fabs(Re) > fabs(Im)) { d1 = Im/Re; d2 = 1.0/(Re*(1.0 + d1*d1)); Re' = d2; Im' = -d2*d1; }
              else                     { d1 = Re/Im; d2 = 1.0/(Im*(1.0 + d1*d1)); Im' = -d2; Re' = d2*d1; } *)
Definition b_inv_d2 (p d1 : R) : R := rn (1 / rn (p * rn (1 + rn (d1 * d1)))).
Definition b_inv (x : C) : C :=
  if Rlt_dec (Rabs (snd x)) (Rabs (fst x))
  then let d1 := rn (snd x / fst x) in let d2 := b_inv_d2 (fst x) d1 in (d2, rn (- d2 * d1))
  else let d1 := rn (fst x / snd x) in let d2 := b_inv_d2 (snd x) d1 in (rn (d2 * d1), - d2).
(* cplx_div: cplx_inv (ctmp, x2); cplx_mul (rx, x1, ctmp) *)
Definition b_div (a b : C) : C := b_mul a (b_inv b).

Definition b64_arith : arith := {| fadd := b_add; fsub := b_sub; fmul := b_mul; fdiv := b_div |}.
(* the same additions and products with an exact quotient: Horner never divides *)
Definition b64_arith_nodiv : arith := {| fadd := b_add; fsub := b_sub; fmul := b_mul; fdiv := Cdiv |}.

(* the IEEE-754 binary64 operations of Flocq (round to nearest even), to which rn is linked in EvalB64Link.v *)
Definition b64 := binary_float 53 1024.
Definition P53 : Prec_gt_0 53 := eq_refl.
Definition P1024 : Prec_lt_emax 53 1024 := eq_refl.
Definition b64_plus : b64 -> b64 -> b64 := Bplus (prec_gt_0_ := P53) (prec_lt_emax_ := P1024) mode_NE.
Definition b64_minus : b64 -> b64 -> b64 := Bminus (prec_gt_0_ := P53) (prec_lt_emax_ := P1024) mode_NE.
Definition b64_mult : b64 -> b64 -> b64 := Bmult (prec_gt_0_ := P53) (prec_lt_emax_ := P1024) mode_NE.
Definition b64_div : b64 -> b64 -> b64 := Bdiv (prec_gt_0_ := P53) (prec_lt_emax_ := P1024) mode_NE.
