(* C14 -- the double (f) variants need no rounding hypothesis: the complex operations of mt.c as coded
   (EvalB64Model) satisfy the standard model in binary64 round-to-nearest-even (Flocq):
     cplx_add, cplx_sub : u        cplx_mul : 3u        cplx_inv : 7u        cplx_div : 11u     (u = 2^-53)
   for ALL real operands (in particular all doubles), overflow and underflow excluded by the format (FLX). *)
Require Import Reals ZArith List Lra Lia Psatz.
From Flocq Require Import Core Relative.
From Coquelicot Require Import Complex.
Require Import MPSV.Eval.EvalModel MPSV.Eval.EvalExact MPSV.Eval.EvalRounded MPSV.Eval.EvalSecPoly.
Require Import MPSV.Eval.EvalB64Model.
Import ListNotations.
Local Open Scope R_scope.

Lemma u64_pos : 0 < u64.
Proof. unfold u64. apply Rinv_0_lt_compat, pow_lt. lra. Qed.

Lemma u64_small : u64 <= 1 / 1000.
Proof.
  unfold u64. replace (1 / 1000) with (/ 1000) by lra.
  apply Rinv_le_contravar; [lra|].
  replace (2 ^ 53) with (2 ^ 10 * 2 ^ 43) by (rewrite <- pow_add; reflexivity).
  assert (1 <= 2 ^ 43) by (apply pow_R1_Rle; lra).
  assert (2 ^ 10 = 1024) by (simpl; lra). nra.
Qed.

Lemma u64_bpow : / 2 * bpow radix2 (- 53 + 1) = u64.
Proof.
  unfold u64. change (- 53 + 1)%Z with (- (52))%Z. rewrite bpow_opp.
  assert (E : bpow radix2 52 = 2 ^ 52).
  { rewrite <- (IZR_Zpower radix2 52) by lia. rewrite pow_IZR. f_equal. }
  rewrite E. replace (2 ^ 53) with (2 * 2 ^ 52) by (simpl; ring).
  assert (0 < 2 ^ 52) by (apply pow_lt; lra). field; lra.
Qed.

Lemma rn_err : forall x, Rabs (rn x - x) <= u64 * Rabs x.
Proof.
  intros x. rewrite <- u64_bpow. unfold rn.
  apply (relative_error_N_FLX radix2 53 ltac:(reflexivity) (fun t => negb (Z.even t)) x).
Qed.

Lemma rn_opp : forall x, rn (- x) = - rn x.
Proof. intros x. unfold rn. apply round_NE_opp. Qed.

(* ------------------------------------------------------------------ relative-error calculus on reals *)
Definition rel (c a A : R) : Prop := Rabs (a - A) <= c * u64 * Rabs A.

Lemma rel_refl : forall a, rel 0 a a.
Proof. intros a. unfold rel. replace (a - a) with 0 by ring. rewrite Rabs_R0. lra. Qed.

Lemma rel_weaken : forall c c' a A, rel c a A -> c <= c' -> rel c' a A.
Proof.
  intros c c' a A H Hc. unfold rel in *. eapply Rle_trans; [exact H|].
  pose proof (Rabs_pos A). pose proof u64_pos. apply Rmult_le_compat_r; [assumption|]. nra.
Qed.

Lemma rel_abs : forall c a A, rel c a A -> Rabs a <= (1 + c * u64) * Rabs A.
Proof.
  intros c a A H. unfold rel in H.
  replace a with ((a - A) + A) at 1 by ring. eapply Rle_trans; [apply Rabs_triang|]. lra.
Qed.

Lemma rel_rn : forall c c' a A, rel c a A -> 0 <= c -> c + 1 + c * u64 <= c' -> rel c' (rn a) A.
Proof.
  intros c c' a A H Hc Hc'. pose proof (rel_abs c a A H) as Ha. unfold rel in *.
  pose proof (rn_err a) as He. pose proof u64_pos as Hu. pose proof (Rabs_pos A) as HA.
  replace (rn a - A) with ((rn a - a) + (a - A)) by ring.
  eapply Rle_trans; [apply Rabs_triang|].
  assert (u64 * Rabs a <= u64 * ((1 + c * u64) * Rabs A)) by (apply Rmult_le_compat_l; lra).
  assert ((c + 1 + c * u64) * u64 * Rabs A <= c' * u64 * Rabs A).
  { apply Rmult_le_compat_r; [exact HA|]. apply Rmult_le_compat_r; lra. }
  lra.
Qed.

Lemma rel_mul : forall c1 c2 c' a A b B, rel c1 a A -> rel c2 b B -> 0 <= c1 -> 0 <= c2 ->
  c1 + c2 + c1 * c2 * u64 <= c' -> rel c' (a * b) (A * B).
Proof.
  intros c1 c2 c' a A b B H1 H2 Hc1 Hc2 Hc'. pose proof (rel_abs c1 a A H1) as Ha. unfold rel in *.
  pose proof u64_pos as Hu. pose proof (Rabs_pos A) as HA. pose proof (Rabs_pos B) as HB.
  replace (a * b - A * B) with ((a - A) * B + a * (b - B)) by ring.
  eapply Rle_trans; [apply Rabs_triang|]. rewrite !Rabs_mult.
  assert (P1 : Rabs (a - A) * Rabs B <= c1 * u64 * Rabs A * Rabs B) by (apply Rmult_le_compat_r; lra).
  assert (P2 : Rabs a * Rabs (b - B) <= (1 + c1 * u64) * Rabs A * (c2 * u64 * Rabs B)).
  { apply Rmult_le_compat; try lra; apply Rabs_pos. }
  assert (HAB : 0 <= Rabs A * Rabs B) by (apply Rmult_le_pos; assumption).
  assert ((c1 + c2 + c1 * c2 * u64) * u64 * (Rabs A * Rabs B) <= c' * u64 * (Rabs A * Rabs B)).
  { apply Rmult_le_compat_r; [exact HAB|]. apply Rmult_le_compat_r; lra. }
  lra.
Qed.

Lemma rel_inv : forall c c' a A, rel c a A -> A <> 0 -> 0 <= c -> c * u64 < 1 -> c <= c' * (1 - c * u64) ->
  a <> 0 /\ rel c' (/ a) (/ A).
Proof.
  intros c c' a A H HA0 Hc Hcu Hc'. unfold rel in *.
  pose proof u64_pos as Hu. assert (HA : 0 < Rabs A) by (apply Rabs_pos_lt; exact HA0).
  assert (Hlow : (1 - c * u64) * Rabs A <= Rabs a).
  { assert (Rabs A <= Rabs a + Rabs (a - A)).
    { replace A with (a + - (a - A)) at 1 by ring. eapply Rle_trans; [apply Rabs_triang|]. rewrite Rabs_Ropp. lra. }
    lra. }
  assert (Ha : 0 < Rabs a) by nra.
  assert (Ha0 : a <> 0). { intro E. rewrite E, Rabs_R0 in Ha. lra. }
  split; [exact Ha0|].
  replace (/ a - / A) with (- (a - A) * (/ a * / A)) by (field; split; assumption).
  rewrite Rabs_mult, Rabs_Ropp, Rabs_mult, !Rabs_inv.
  assert (Hia : / Rabs a <= / ((1 - c * u64) * Rabs A)) by (apply Rinv_le_contravar; [nra|exact Hlow]).
  rewrite Rinv_mult in Hia.
  assert (HiA : 0 < / Rabs A) by (apply Rinv_0_lt_compat; exact HA).
  assert (Hi1 : 0 < / (1 - c * u64)) by (apply Rinv_0_lt_compat; lra).
  (* |a-A| /|a| /|A| <= c u |A| * (1/((1-cu)|A|)) /|A| = c u/(1-cu) /|A| <= c' u /|A| *)
  assert (Q1 : Rabs (a - A) * (/ Rabs a * / Rabs A) <= (c * u64 * Rabs A) * (/ (1 - c * u64) * / Rabs A * / Rabs A)).
  { apply Rmult_le_compat; try lra; [apply Rabs_pos| |].
    - apply Rmult_le_pos; [apply Rlt_le, Rinv_0_lt_compat; exact Ha|lra].
    - apply Rmult_le_compat_r; lra. }
  eapply Rle_trans; [exact Q1|].
  replace (c * u64 * Rabs A * (/ (1 - c * u64) * / Rabs A * / Rabs A))
    with ((c * / (1 - c * u64)) * u64 * / Rabs A) by (field; lra).
  apply Rmult_le_compat_r; [lra|]. apply Rmult_le_compat_r; [lra|].
  apply Rmult_le_reg_r with (1 - c * u64); [lra|].
  rewrite Rmult_assoc, Rinv_l by lra. lra.
Qed.

Lemma rel_1p : forall c q D, rel c q D -> 0 <= D <= 1 -> 0 <= c -> rel (c / 2) (1 + q) (1 + D).
Proof.
  intros c q D H HD Hc. unfold rel in *. pose proof u64_pos.
  replace (1 + q - (1 + D)) with (q - D) by ring.
  rewrite (Rabs_pos_eq D) in H by lra. rewrite (Rabs_pos_eq (1 + D)) by lra.
  assert (0 <= c * u64) by (apply Rmult_le_pos; lra).
  assert (c * u64 * D <= c * u64 * ((1 + D) / 2)) by (apply Rmult_le_compat_l; lra). lra.
Qed.

(* the common core of both branches of cplx_inv: p the larger component, o the other one *)
Lemma inv_core : forall p o : R, p <> 0 -> Rabs o <= Rabs p ->
  let d := o / p in let d1 := rn d in let d2 := b_inv_d2 p d1 in
  rel 5 d2 (/ (p * (1 + d * d))) /\ rel 7 (rn (d2 * d1)) (/ (p * (1 + d * d)) * d).
Proof.
  intros p o Hp Hop d d1 d2. pose proof u64_pos as Hu. pose proof u64_small as Hs.
  assert (Hd : Rabs d <= 1).
  { unfold d, Rdiv. rewrite Rabs_mult, Rabs_inv.
    assert (0 < Rabs p) by (apply Rabs_pos_lt; exact Hp).
    apply Rmult_le_reg_r with (Rabs p); [assumption|]. rewrite Rmult_assoc, Rinv_l; lra. }
  assert (HD : 0 <= d * d <= 1).
  { assert (d * d = Rabs d * Rabs d) by (rewrite <- Rabs_mult; symmetry; apply Rabs_pos_eq; nra).
    pose proof (Rabs_pos d). nra. }
  assert (H1 : rel 1 d1 d) by (apply (rel_rn 0 1 d d (rel_refl d)); lra).
  assert (H2 : rel (2001 / 1000) (d1 * d1) (d * d)) by (apply (rel_mul 1 1 _ d1 d d1 d H1 H1); lra).
  assert (H3 : rel (301 / 100) (rn (d1 * d1)) (d * d)) by (apply (rel_rn _ _ _ _ H2); lra).
  pose proof (rel_1p _ _ _ H3 HD ltac:(lra)) as H4.
  assert (H5 : rel (251 / 100) (rn (1 + rn (d1 * d1))) (1 + d * d)) by (apply (rel_rn _ _ _ _ H4); lra).
  assert (H6 : rel (251 / 100) (p * rn (1 + rn (d1 * d1))) (p * (1 + d * d))).
  { apply (rel_mul 0 (251 / 100) _ p p _ _ (rel_refl p) H5); lra. }
  assert (H7 : rel (352 / 100) (rn (p * rn (1 + rn (d1 * d1)))) (p * (1 + d * d))) by (apply (rel_rn _ _ _ _ H6); lra).
  assert (Hne : p * (1 + d * d) <> 0) by (apply Rmult_integral_contrapositive_currified; lra).
  destruct (rel_inv _ (354 / 100) _ _ H7 Hne ltac:(lra) ltac:(lra) ltac:(lra)) as [_ H8].
  assert (H9 : rel (455 / 100) d2 (/ (p * (1 + d * d)))).
  { unfold d2, b_inv_d2.
    match goal with |- rel _ (rn (1 / ?m)) _ => replace (1 / m) with (/ m) by (unfold Rdiv; ring) end.
    apply (rel_rn _ _ _ _ H8); lra. }
  split; [apply (rel_weaken _ _ _ _ H9); lra|].
  assert (H10 : rel (556 / 100) (d2 * d1) (/ (p * (1 + d * d)) * d)) by (apply (rel_mul _ _ _ _ _ _ _ H9 H1); lra).
  assert (H11 : rel (657 / 100) (rn (d2 * d1)) (/ (p * (1 + d * d)) * d)) by (apply (rel_rn _ _ _ _ H10); lra).
  apply (rel_weaken _ _ _ _ H11); lra.
Qed.

(* ------------------------------------------------------------------ moduli *)
Lemma Cmod_sq : forall z : C, Cmod z * Cmod z = fst z * fst z + snd z * snd z.
Proof.
  intros z. unfold Cmod. rewrite sqrt_sqrt; [simpl; ring|].
  simpl. nra.
Qed.

Lemma Cmod_le_of_sq : forall (e : C) (m : R), 0 <= m ->
  fst e * fst e + snd e * snd e <= m * m -> Cmod e <= m.
Proof.
  intros e m Hm H. pose proof (Cmod_ge_0 e) as H0. pose proof (Cmod_sq e) as Hs.
  destruct (Rle_dec (Cmod e) m) as [L|L]; [exact L|]. exfalso. nra.
Qed.

Lemma Cmod_le_scale : forall (e z : C) (k : R), 0 <= k ->
  Rabs (fst e) <= k * Rabs (fst z) -> Rabs (snd e) <= k * Rabs (snd z) -> Cmod e <= k * Cmod z.
Proof.
  intros e z k Hk H1 H2. pose proof (Cmod_ge_0 z) as Hz.
  apply Cmod_le_of_sq; [apply Rmult_le_pos; assumption|].
  replace (k * Cmod z * (k * Cmod z)) with (k * k * (Cmod z * Cmod z)) by ring. rewrite Cmod_sq.
  assert (A1 : fst e * fst e <= (k * Rabs (fst z)) * (k * Rabs (fst z))).
  { replace (fst e * fst e) with (Rabs (fst e) * Rabs (fst e)) by (rewrite <- Rabs_mult; apply Rabs_pos_eq; nra).
    apply Rmult_le_compat; try apply Rabs_pos; assumption. }
  assert (A2 : snd e * snd e <= (k * Rabs (snd z)) * (k * Rabs (snd z))).
  { replace (snd e * snd e) with (Rabs (snd e) * Rabs (snd e)) by (rewrite <- Rabs_mult; apply Rabs_pos_eq; nra).
    apply Rmult_le_compat; try apply Rabs_pos; assumption. }
  assert (B1 : Rabs (fst z) * Rabs (fst z) = fst z * fst z) by (rewrite <- Rabs_mult; apply Rabs_pos_eq; nra).
  assert (B2 : Rabs (snd z) * Rabs (snd z) = snd z * snd z) by (rewrite <- Rabs_mult; apply Rabs_pos_eq; nra).
  nra.
Qed.

(* ------------------------------------------------------------------ the operations *)
Lemma b_add_err : forall a b, Cmod (b_add a b - (a + b))%C <= u64 * Cmod (a + b)%C.
Proof.
  intros a b. apply Cmod_le_scale; [apply Rlt_le, u64_pos| |]; simpl.
  - replace (rn (fst a + fst b) + - (fst a + fst b)) with (rn (fst a + fst b) - (fst a + fst b)) by ring. apply rn_err.
  - replace (rn (snd a + snd b) + - (snd a + snd b)) with (rn (snd a + snd b) - (snd a + snd b)) by ring. apply rn_err.
Qed.

Lemma b_sub_err : forall a b, Cmod (b_sub a b - (a - b))%C <= u64 * Cmod (a - b)%C.
Proof.
  intros a b. apply Cmod_le_scale; [apply Rlt_le, u64_pos| |]; simpl.
  - replace (rn (fst a - fst b) + - (fst a + - fst b)) with (rn (fst a - fst b) - (fst a - fst b)) by ring.
    replace (fst a + - fst b) with (fst a - fst b) by ring. apply rn_err.
  - replace (rn (snd a - snd b) + - (snd a + - snd b)) with (rn (snd a - snd b) - (snd a - snd b)) by ring.
    replace (snd a + - snd b) with (snd a - snd b) by ring. apply rn_err.
Qed.

(* one component of the product: fl(fl(p1) -+ fl(p2)) *)
Lemma comp_err : forall p1 p2 : R,
  Rabs (rn (rn p1 + rn p2) - (p1 + p2)) <= (2 * u64 + u64 * u64) * (Rabs p1 + Rabs p2).
Proof.
  intros p1 p2. pose proof u64_pos as Hu.
  pose proof (rn_err p1) as E1. pose proof (rn_err p2) as E2.
  set (s := rn p1 + rn p2). pose proof (rn_err s) as E3.
  pose proof (Rabs_pos p1) as A1. pose proof (Rabs_pos p2) as A2.
  assert (Hs1 : Rabs (s - (p1 + p2)) <= u64 * (Rabs p1 + Rabs p2)).
  { unfold s. replace (rn p1 + rn p2 - (p1 + p2)) with ((rn p1 - p1) + (rn p2 - p2)) by ring.
    eapply Rle_trans; [apply Rabs_triang|]. lra. }
  assert (Hs2 : Rabs s <= (1 + u64) * (Rabs p1 + Rabs p2)).
  { replace s with ((s - (p1 + p2)) + (p1 + p2)) by ring.
    eapply Rle_trans; [apply Rabs_triang|]. pose proof (Rabs_triang p1 p2). lra. }
  replace (rn s - (p1 + p2)) with ((rn s - s) + (s - (p1 + p2))) by ring.
  eapply Rle_trans; [apply Rabs_triang|].
  assert (u64 * Rabs s <= u64 * ((1 + u64) * (Rabs p1 + Rabs p2))) by (apply Rmult_le_compat_l; lra).
  lra.
Qed.

Lemma two_ab_le : forall s t : R, 2 * (s * t) <= s * s + t * t.
Proof. intros s t. pose proof (Rle_0_sqr (s - t)) as H. unfold Rsqr in H. nra. Qed.

Lemma b_mul_err : forall a b, Cmod (b_mul a b - a * b)%C <= 3 * u64 * Cmod (a * b)%C.
Proof.
  intros [a1 a2] [b1 b2]. pose proof u64_pos as Hu. pose proof u64_small as Hs.
  rewrite Cmod_mult.
  set (g := 2 * u64 + u64 * u64).
  pose proof (comp_err (a1 * b1) (- (a2 * b2))) as E1. rewrite rn_opp in E1.
  pose proof (comp_err (a2 * b1) (a1 * b2)) as E2.
  rewrite Rabs_Ropp in E1. rewrite !Rabs_mult in E1, E2. fold g in E1, E2.
  change (rn (a1 * b1) + - rn (a2 * b2)) with (rn (a1 * b1) - rn (a2 * b2)) in E1.
  set (x := Rabs a1) in *. set (y := Rabs a2) in *. set (z := Rabs b1) in *. set (w := Rabs b2) in *.
  assert (Hx : 0 <= x) by apply Rabs_pos. assert (Hy : 0 <= y) by apply Rabs_pos.
  assert (Hz : 0 <= z) by apply Rabs_pos. assert (Hw : 0 <= w) by apply Rabs_pos.
  set (e1 := rn (rn (a1 * b1) - rn (a2 * b2)) - (a1 * b1 + - (a2 * b2))) in *.
  set (e2 := rn (rn (a2 * b1) + rn (a1 * b2)) - (a2 * b1 + a1 * b2)) in *.
  pose proof (Cmod_ge_0 (a1, a2)) as Ma. pose proof (Cmod_ge_0 (b1, b2)) as Mb.
  pose proof (Cmod_sq (a1, a2)) as Sa. pose proof (Cmod_sq (b1, b2)) as Sb. simpl in Sa, Sb.
  assert (Sa' : Cmod (a1, a2) * Cmod (a1, a2) = x * x + y * y).
  { rewrite Sa. unfold x, y. rewrite <- !Rabs_mult. rewrite !Rabs_pos_eq; nra. }
  assert (Sb' : Cmod (b1, b2) * Cmod (b1, b2) = z * z + w * w).
  { rewrite Sb. unfold z, w. rewrite <- !Rabs_mult. rewrite !Rabs_pos_eq; nra. }
  set (Na := Cmod (a1, a2)) in *. set (Nb := Cmod (b1, b2)) in *.
  apply Cmod_le_of_sq; [apply Rmult_le_pos; [lra|apply Rmult_le_pos; assumption]|].
  assert (F1 : fst (b_mul (a1, a2) (b1, b2) - (a1, a2) * (b1, b2))%C = e1).
  { unfold e1, b_mul. cbn [fst snd Cminus Cplus Copp Cmult]. ring. }
  assert (F2 : snd (b_mul (a1, a2) (b1, b2) - (a1, a2) * (b1, b2))%C = e2).
  { unfold e2, b_mul. cbn [fst snd Cminus Cplus Copp Cmult]. ring. }
  rewrite F1, F2. clear F1 F2.
  assert (Q1 : e1 * e1 <= (g * (x * z + y * w)) * (g * (x * z + y * w))).
  { replace (e1 * e1) with (Rabs e1 * Rabs e1) by (rewrite <- Rabs_mult; apply Rabs_pos_eq; nra).
    apply Rmult_le_compat; try apply Rabs_pos; exact E1. }
  assert (Q2 : e2 * e2 <= (g * (y * z + x * w)) * (g * (y * z + x * w))).
  { replace (e2 * e2) with (Rabs e2 * Rabs e2) by (rewrite <- Rabs_mult; apply Rabs_pos_eq; nra).
    apply Rmult_le_compat; try apply Rabs_pos; exact E2. }
  (* (xz+yw)^2 + (yz+xw)^2 = (x^2+y^2)(z^2+w^2) + 4xyzw <= 2 (x^2+y^2)(z^2+w^2) *)
  pose proof (two_ab_le x y) as P1. pose proof (two_ab_le z w) as P2.
  assert (P3 : (2 * (x * y)) * (2 * (z * w)) <= (x * x + y * y) * (z * z + w * w)).
  { apply Rmult_le_compat; try assumption; apply Rmult_le_pos; try lra; apply Rmult_le_pos; assumption. }
  set (NN := (x * x + y * y) * (z * z + w * w)) in *.
  assert (P4 : (x * z + y * w) * (x * z + y * w) + (y * z + x * w) * (y * z + x * w) <= 2 * NN).
  { unfold NN. unfold NN in P3. nra. }
  assert (Hg : 2 * (g * g) <= 9 * (u64 * u64)).
  { unfold g. replace (2 * ((2 * u64 + u64 * u64) * (2 * u64 + u64 * u64)))
      with ((u64 * u64) * (2 * ((2 + u64) * (2 + u64)))) by ring.
    assert (2 * ((2 + u64) * (2 + u64)) <= 9) by nra.
    assert (0 <= u64 * u64) by nra. nra. }
  assert (HNN : 0 <= NN) by (unfold NN; apply Rmult_le_pos; nra).
  replace (3 * u64 * (Na * Nb) * (3 * u64 * (Na * Nb))) with (9 * (u64 * u64) * ((Na * Na) * (Nb * Nb))) by ring.
  rewrite Sa', Sb'. fold NN.
  assert (R1 : e1 * e1 + e2 * e2 <= g * g * (2 * NN)).
  { assert (0 <= g * g) by nra.
    replace (g * (x * z + y * w) * (g * (x * z + y * w))) with (g * g * ((x * z + y * w) * (x * z + y * w))) in Q1 by ring.
    replace (g * (y * z + x * w) * (g * (y * z + x * w))) with (g * g * ((y * z + x * w) * (y * z + x * w))) in Q2 by ring.
    assert (g * g * ((x * z + y * w) * (x * z + y * w) + (y * z + x * w) * (y * z + x * w)) <= g * g * (2 * NN))
      by (apply Rmult_le_compat_l; assumption).
    lra. }
  eapply Rle_trans; [exact R1|].
  replace (g * g * (2 * NN)) with (2 * (g * g) * NN) by ring.
  apply Rmult_le_compat_r; assumption.
Qed.

Lemma Cinv_fst : forall x : C, fst (/ x)%C = fst x / (fst x ^ 2 + snd x ^ 2).
Proof. intros x. reflexivity. Qed.
Lemma Cinv_snd : forall x : C, snd (/ x)%C = - snd x / (fst x ^ 2 + snd x ^ 2).
Proof. intros x. reflexivity. Qed.

Lemma b_inv_err : forall x : C, x <> RtoC 0 -> Cmod (b_inv x - / x)%C <= 7 * u64 * Cmod (/ x)%C.
Proof.
  intros [r i] Hx. pose proof u64_pos as Hu.
  assert (Hri : r <> 0 \/ i <> 0).
  { destruct (Req_dec r 0) as [Er|Er]; [|left; exact Er]. right. intro Ei. apply Hx. subst. reflexivity. }
  assert (Hn : r ^ 2 + i ^ 2 <> 0).
  { destruct Hri as [H|H]; [assert (0 < r * r) by nra|assert (0 < i * i) by nra]; nra. }
  unfold b_inv. cbn [fst snd].
  destruct (Rlt_dec (Rabs i) (Rabs r)) as [L|L].
  - assert (Hr : r <> 0). { intro E. rewrite E, Rabs_R0 in L. pose proof (Rabs_pos i). lra. }
    destruct (inv_core r i Hr (Rlt_le _ _ L)) as [C1 C2]. cbv zeta in C1, C2.
    set (d := i / r) in *. set (d1 := rn d) in *. set (d2 := b_inv_d2 r d1) in *.
    assert (E1 : fst (/ (r, i))%C = / (r * (1 + d * d))).
    { rewrite Cinv_fst. cbn [fst snd]. unfold d. field. repeat split; try assumption. nra. }
    assert (E2 : snd (/ (r, i))%C = - (/ (r * (1 + d * d)) * d)).
    { rewrite Cinv_snd. cbn [fst snd]. unfold d. field. repeat split; try assumption. nra. }
    apply Cmod_le_scale; [lra| |].
    + rewrite E1. cbn [fst Cminus Cplus Copp]. unfold rel in C1.
      replace (d2 + - fst (/ (r, i))%C) with (d2 - / (r * (1 + d * d))) by (rewrite E1; ring).
      eapply Rle_trans; [exact C1|]. apply Rmult_le_compat_r; [apply Rabs_pos|lra].
    + rewrite E2. cbn [snd Cminus Cplus Copp]. unfold rel in C2.
      replace (- d2 * d1) with (- (d2 * d1)) by ring. rewrite rn_opp.
      replace (- rn (d2 * d1) + - snd (/ (r, i))%C) with (- (rn (d2 * d1) - / (r * (1 + d * d)) * d)) by (rewrite E2; ring).
      rewrite !Rabs_Ropp. exact C2.
  - assert (Hir : Rabs r <= Rabs i) by lra.
    assert (Hi : i <> 0).
    { intro E. rewrite E, Rabs_R0 in Hir. pose proof (Rabs_pos r). assert (Rabs r = 0) by lra.
      destruct Hri as [H'|H']; [|congruence]. apply Rabs_no_R0 in H'. contradiction. }
    destruct (inv_core i r Hi Hir) as [C1 C2]. cbv zeta in C1, C2.
    set (d := r / i) in *. set (d1 := rn d) in *. set (d2 := b_inv_d2 i d1) in *.
    assert (E1 : fst (/ (r, i))%C = / (i * (1 + d * d)) * d).
    { rewrite Cinv_fst. cbn [fst snd]. unfold d. field. repeat split; try assumption. nra. }
    assert (E2 : snd (/ (r, i))%C = - / (i * (1 + d * d))).
    { rewrite Cinv_snd. cbn [fst snd]. unfold d. field. repeat split; try assumption. nra. }
    apply Cmod_le_scale; [lra| |].
    + rewrite E1. cbn [fst Cminus Cplus Copp]. unfold rel in C2.
      replace (rn (d2 * d1) + - fst (/ (r, i))%C) with (rn (d2 * d1) - / (i * (1 + d * d)) * d) by (rewrite E1; ring).
      exact C2.
    + rewrite E2. cbn [snd Cminus Cplus Copp]. unfold rel in C1.
      replace (- d2 + - snd (/ (r, i))%C) with (- (d2 - / (i * (1 + d * d)))) by (rewrite E2; ring).
      rewrite !Rabs_Ropp. eapply Rle_trans; [exact C1|]. apply Rmult_le_compat_r; [apply Rabs_pos|lra].
Qed.

Lemma b_div_err : forall a b : C, b <> RtoC 0 -> Cmod (b_div a b - a / b)%C <= 11 * u64 * Cmod (a / b)%C.
Proof.
  intros a b Hb. pose proof u64_pos as Hu. pose proof u64_small as Hs.
  unfold b_div, Cdiv. set (w := (/ b)%C). set (wh := b_inv b).
  pose proof (b_inv_err b Hb) as Ew. fold w wh in Ew.
  pose proof (b_mul_err a wh) as Em. rewrite Cmod_mult in Em.
  pose proof (Cmod_ge_0 a) as Ha. pose proof (Cmod_ge_0 w) as Hw. pose proof (Cmod_ge_0 wh) as Hwh.
  assert (Hwh' : Cmod wh <= (1 + 7 * u64) * Cmod w).
  { replace wh with ((wh - w) + w)%C by ring. eapply Rle_trans; [apply Cmod_triangle|]. lra. }
  replace (b_mul a wh - a * w)%C with ((b_mul a wh - a * wh) + a * (wh - w))%C by ring.
  eapply Rle_trans; [apply Cmod_triangle|]. rewrite !Cmod_mult.
  assert (P1 : Cmod a * Cmod wh <= Cmod a * ((1 + 7 * u64) * Cmod w)) by (apply Rmult_le_compat_l; lra).
  assert (P2 : Cmod a * Cmod (wh - w)%C <= Cmod a * (7 * u64 * Cmod w)) by (apply Rmult_le_compat_l; lra).
  assert (HW : 0 <= Cmod a * Cmod w) by (apply Rmult_le_pos; assumption).
  set (W := Cmod a * Cmod w) in *.
  replace (Cmod a * ((1 + 7 * u64) * Cmod w)) with ((1 + 7 * u64) * W) in P1 by (unfold W; ring).
  replace (Cmod a * (7 * u64 * Cmod w)) with (7 * (u64 * W)) in P2 by (unfold W; ring).
  assert (P3 : 3 * u64 * (Cmod a * Cmod wh) <= 3 * u64 * ((1 + 7 * u64) * W)) by (apply Rmult_le_compat_l; lra).
  set (T := u64 * W) in *. assert (HT : 0 <= T) by (unfold T; apply Rmult_le_pos; lra).
  replace (3 * u64 * ((1 + 7 * u64) * W)) with (3 * T + 21 * (u64 * T)) in P3 by (unfold T; ring).
  assert (u64 * T <= 1 / 1000 * T) by (apply Rmult_le_compat_r; lra).
  replace (11 * u64 * W) with (11 * T) by (unfold T; ring).
  lra.
Qed.

(* ------------------------------------------------------------------ the standard model holds *)
Theorem b64_nodiv_std_model : std_model (3 * u64) b64_arith_nodiv.
Proof.
  pose proof u64_pos as Hu. unfold std_model, b64_arith_nodiv; cbn [fadd fsub fmul fdiv].
  split; [lra|]. split; [|split; [|split]].
  - intros a b. eapply Rle_trans; [apply b_add_err|].
    pose proof (Cmod_triangle a b). pose proof (Cmod_ge_0 (a + b)%C). nra.
  - intros a b. eapply Rle_trans; [apply b_sub_err|]. pose proof (Cmod_ge_0 (a - b)%C). nra.
  - intros a b. apply b_mul_err.
  - intros a b _. replace (a / b - a / b)%C with (RtoC 0) by ring. rewrite Cmod_0.
    pose proof (Cmod_ge_0 (a / b)%C). nra.
Qed.

Theorem b64_std_model : std_model (11 * u64) b64_arith.
Proof.
  pose proof u64_pos as Hu. unfold std_model, b64_arith; cbn [fadd fsub fmul fdiv].
  split; [lra|]. split; [|split; [|split]].
  - intros a b. eapply Rle_trans; [apply b_add_err|].
    pose proof (Cmod_triangle a b). pose proof (Cmod_ge_0 (a + b)%C). nra.
  - intros a b. eapply Rle_trans; [apply b_sub_err|]. pose proof (Cmod_ge_0 (a - b)%C). nra.
  - intros a b. eapply Rle_trans; [apply b_mul_err|]. pose proof (Cmod_ge_0 (a * b)%C). nra.
  - intros a b Hb. apply b_div_err. exact Hb.
Qed.

(* ------------------------------------------------------------------ unconditional bounds, double variants *)
(* mps_fhorner: no hypothesis on the arithmetic left *)
Theorem b64_horner_apriori : forall (l : list C) (x : C), l <> [] ->
  Cmod (horner_fl b64_arith l x - hornerC l x)%C
    <= ((1 + 3 * u64) ^ (2 * (length l - 1)) - 1) * habs l (Cmod x).
Proof.
  intros l x Hne.
  change (horner_fl b64_arith l x) with (horner_fl b64_arith_nodiv l x).
  apply horner_apriori; [exact b64_nodiv_std_model|exact Hne].
Qed.

Theorem b64_horner_apriori_linear : forall (l : list C) (x : C), l <> [] ->
  INR (2 * (length l - 1)) * (3 * u64) <= 1 / 10 ->
  Cmod (horner_fl b64_arith l x - hornerC l x)%C
    <= 20 / 9 * INR (length l - 1) * (3 * u64) * habs l (Cmod x).
Proof.
  intros l x Hne Hk.
  change (horner_fl b64_arith l x) with (horner_fl b64_arith_nodiv l x).
  apply horner_apriori_linear; [exact b64_nodiv_std_model|exact Hne|exact Hk].
Qed.

(* mps_secular_poly_feval_with_error *)
Theorem b64_secular_poly_apriori_linear : forall (ab : list (C * C)) (x : C), all_ne ab x ->
  INR (3 * length ab + 4) * (11 * u64) <= 1 / 10 ->
  exists p, sec_poly_fl b64_arith ab x = Some p /\
    Cmod (p - sec_poly_exact ab x)%C
      <= 10 / 9 * (INR (3 * length ab + 4) * (11 * u64)) * ((sec_abs ab x + 1) * Cmod (sec_prodC ab x)).
Proof. intros ab x Hne Hk. apply secular_poly_apriori_linear; [exact b64_std_model|exact Hne|exact Hk]. Qed.

(* the degree restriction of the linear forms is harmless: it holds whenever the count is below 10^12 *)
Lemma b64_linear_range : forall k : nat, INR k <= 10 ^ 12 -> INR k * (11 * u64) <= 1 / 10.
Proof.
  intros k Hk. pose proof (pos_INR k) as H0.
  assert (Hu : u64 <= / (9 * 10 ^ 15)).
  { unfold u64. apply Rinv_le_contravar; [apply Rmult_lt_0_compat; [lra|apply pow_lt; lra]|].
    replace (2 ^ 53) with (2 ^ 10 * 2 ^ 10 * 2 ^ 10 * 2 ^ 10 * 2 ^ 10 * 2 ^ 3) by (rewrite <- !pow_add; reflexivity).
    assert (E : 2 ^ 10 = 1024) by (simpl; lra). rewrite E. simpl. lra. }
  pose proof u64_pos.
  assert (INR k * (11 * u64) <= 10 ^ 12 * (11 * / (9 * 10 ^ 15))).
  { apply Rmult_le_compat; try lra. }
  eapply Rle_trans; [eassumption|]. simpl. lra.
Qed.

Lemma ex_b64_inv_branches :
  (exists d, b_inv (2, 1) = (d, rn (- d * rn (1 / 2)))) /\ (exists d, b_inv (1, 2) = (rn (d * rn (1 / 2)), - d)).
Proof.
  split; unfold b_inv; cbn [fst snd].
  - destruct (Rlt_dec (Rabs 1) (Rabs 2)) as [_|N].
    + eexists. reflexivity.
    + exfalso. apply N. rewrite !Rabs_pos_eq by lra. lra.
  - destruct (Rlt_dec (Rabs 2) (Rabs 1)) as [L|_].
    + exfalso. rewrite !Rabs_pos_eq in L by lra. lra.
    + eexists. reflexivity.
Qed.
