(* C14 -- the exact Gaussian-rational twin computes the specification value; pole reporting of the
   secular evaluator; non-vacuity witnesses. *)
Require Import Reals List QArith Qreals Lra Lia.
From Coquelicot Require Import Complex.
Require Import MPSV.Eval.EvalModel MPSV.Eval.EvalExact MPSV.Eval.EvalRounded.
Import ListNotations.
Local Open Scope R_scope.

Lemma IZR_pos_neq_0 : forall p : positive, IZR (Zpos p) <> 0.
Proof. intros p. apply not_0_IZR. discriminate. Qed.

Lemma strip2_ok : forall d a b, QC2C (strip2 a b d) = QC2C (a, b, d).
Proof.
  induction d as [d IH|d IH|]; intros a b; try reflexivity.
  cbn [strip2]. destruct (Z.even a && Z.even b)%bool eqn:E; [|reflexivity].
  apply andb_prop in E. destruct E as [Ea Eb].
  rewrite IH. unfold QC2C, qc_re, qc_im, qc_den; simpl fst; simpl snd.
  apply Z.even_spec in Ea. apply Z.even_spec in Eb.
  destruct Ea as [a' Ha]. destruct Eb as [b' Hb]. subst a b.
  rewrite !Z.div2_div, !(Z.mul_comm 2), !Z.div_mul by discriminate.
  rewrite (Pos2Z.inj_xO d), !mult_IZR.
  pose proof (IZR_pos_neq_0 d).
  f_equal; field; assumption.
Qed.

Lemma QC2C_add : forall a b, QC2C (qc_add a b) = (QC2C a + QC2C b)%C.
Proof.
  intros [[a1 a2] da] [[b1 b2] db]. unfold qc_add. rewrite strip2_ok.
  unfold QC2C, Cplus, qc_re, qc_im, qc_den; simpl fst; simpl snd.
  rewrite Pos2Z.inj_mul, !plus_IZR, !mult_IZR.
  pose proof (IZR_pos_neq_0 da). pose proof (IZR_pos_neq_0 db).
  f_equal; field; split; assumption.
Qed.

Lemma QC2C_mul : forall a b, QC2C (qc_mul a b) = (QC2C a * QC2C b)%C.
Proof.
  intros [[a1 a2] da] [[b1 b2] db]. unfold QC2C, qc_mul, Cmult, qc_re, qc_im, qc_den; simpl fst; simpl snd.
  rewrite Pos2Z.inj_mul, minus_IZR, plus_IZR, !mult_IZR.
  pose proof (IZR_pos_neq_0 da). pose proof (IZR_pos_neq_0 db).
  f_equal; field; split; assumption.
Qed.

Lemma QC2C_0 : QC2C qc0 = RtoC 0.
Proof. unfold QC2C, qc0, RtoC, qc_re, qc_im, qc_den; simpl. f_equal; lra. Qed.

Theorem twin_value : forall (l : list QC) (x : QC),
  QC2C (fst (eval_mono_q l x)) = hornerC (map QC2C l) (QC2C x).
Proof.
  intros l x. unfold eval_mono_q; simpl fst. unfold horner_q, hornerC.
  induction l as [|a l IH]; simpl.
  - apply QC2C_0.
  - rewrite QC2C_add, QC2C_mul, IH. reflexivity.
Qed.

(* ------------------------------------------------------------------ secular pole reporting *)
Lemma sub_eq_0 : forall x b : C, (x - b)%C = RtoC 0 <-> x = b.
Proof.
  intros x b; split; intro H.
  - replace x with ((x - b) + b)%C by ring. rewrite H. ring.
  - subst. ring.
Qed.

Lemma sec_sum_exact_none : forall ab x acc,
  sec_sum_fl exact_arith ab x acc = None <-> Exists (fun p => x = snd p) ab.
Proof.
  induction ab as [|[a b] r IH]; intros x acc.
  - simpl. split; [discriminate|]. intro H; inversion H.
  - cbn [sec_sum_fl]. simpl fsub.
    destruct (Ceq_dec (x - b)%C (RtoC 0)) as [E|E].
    + split; [intros _|reflexivity]. apply Exists_cons_hd. simpl. apply sub_eq_0; exact E.
    + rewrite IH. split; intro H.
      * apply Exists_cons_tl; exact H.
      * apply Exists_cons in H. destruct H as [Hp|Hq]; [|exact Hq].
        simpl in Hp. exfalso. apply E. apply sub_eq_0; exact Hp.
Qed.

Theorem secular_pole_reported : forall (ab : list (C * C)) (x : C),
  sec_fl exact_arith ab x = None <-> Exists (fun p => x = snd p) ab.
Proof.
  intros ab x. unfold sec_fl.
  rewrite <- (sec_sum_exact_none ab x (RtoC 0)).
  destruct (sec_sum_fl exact_arith ab x (RtoC 0)); split; congruence.
Qed.

(* ------------------------------------------------------------------ witnesses *)
Lemma exact_std_model : forall mu, 0 <= mu -> std_model mu exact_arith.
Proof.
  intros mu Hmu. unfold std_model, exact_arith; simpl.
  repeat split; try exact Hmu; intros;
    match goal with |- Cmod ?e <= _ => replace e with (RtoC 0) by ring end;
    rewrite Cmod_0.
  - pose proof (Cmod_ge_0 a); pose proof (Cmod_ge_0 b); nra.
  - pose proof (Cmod_ge_0 (a - b)%C); nra.
  - pose proof (Cmod_ge_0 (a * b)%C); nra.
  - pose proof (Cmod_ge_0 (a / b)%C); nra.
Qed.

Lemma ex_std_model : std_model (1 / 2 ^ 53) exact_arith.
Proof. apply exact_std_model. apply Rlt_le, Rdiv_lt_0_compat; [lra|apply pow_lt; lra]. Qed.

Lemma scaled_err : forall z : C, Cmod (z * scl - z)%C = 1 / 2 ^ 10 * Cmod z.
Proof.
  intros z. replace (z * scl - z)%C with (z * RtoC (1 / 2 ^ 10))%C.
  - rewrite Cmod_mult, Cmod_R, Rabs_pos_eq; [ring|].
    apply Rlt_le, Rdiv_lt_0_compat; [lra|apply pow_lt; lra].
  - unfold scl. rewrite RtoC_plus. ring.
Qed.

Lemma ex_rounding_model : std_model (1 / 2 ^ 10) scaled_arith /\
  horner_fl scaled_arith [RtoC 1; RtoC 1; RtoC 1] (RtoC 1) <> hornerC [RtoC 1; RtoC 1; RtoC 1] (RtoC 1).
Proof.
  split.
  - unfold std_model, scaled_arith; simpl.
    assert (Hd : 0 <= 1 / 2 ^ 10) by (apply Rlt_le, Rdiv_lt_0_compat; [lra|apply pow_lt; lra]).
    repeat split; try exact Hd; intros; rewrite scaled_err; try lra.
    apply Rmult_le_compat_l; [exact Hd|apply Cmod_triangle].
  - unfold horner_fl, hornerC, scaled_arith, scl; simpl.
    intro H. apply (f_equal fst) in H. simpl in H. lra.
Qed.

Lemma ex_guard : ((1 + 0) ^ (2 * (length [RtoC 1; RtoC 2] - 1)) - 1) * (1 + 0) <= 4 / 2 ^ 64.
Proof.
  simpl. assert (0 < 4 / 2 ^ 64) by (apply Rdiv_lt_0_compat; [lra|apply pow_lt; lra]).
  lra.
Qed.

Lemma ex_all_ne : all_ne [(RtoC 1, RtoC 1); (RtoC 2, RtoC (-1))] (RtoC 3).
Proof.
  unfold all_ne. repeat constructor; simpl; intro H; apply (f_equal fst) in H; simpl in H; lra.
Qed.
