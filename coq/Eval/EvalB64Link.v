(* C14 -- the rounding operator rn of EvalB64Model is what the IEEE-754 binary64 operations of Flocq compute:
   for finite binary64 operands, as long as the exact result does not underflow (|.| >= 2^-1022) and the rounded
   result does not overflow, B2R (Bop x y) = rn (B2R x op B2R y) and the result is finite.  So every real
   operation of the modelled cplx_* functions is the IEEE operation on the same data. *)
Require Import Reals ZArith Lra Lia.
From Flocq Require Import Core IEEE754.BinarySingleNaN.
From Coquelicot Require Import Complex.
Require Import MPSV.Eval.EvalB64Model.
Local Open Scope R_scope.

Lemma flt_is_rn : forall s : R, bpow radix2 (-1022) <= Rabs s ->
  round radix2 (SpecFloat.fexp 53 1024) (round_mode mode_NE) s = rn s.
Proof.
  intros s Hs. unfold rn. change (SpecFloat.fexp 53 1024) with (FLT_exp (-1074) 53).
  change (round_mode mode_NE) with ZnearestE. apply round_FLT_FLX. exact Hs.
Qed.

Lemma link_plus : forall x y : b64, is_finite x = true -> is_finite y = true ->
  bpow radix2 (-1022) <= Rabs (B2R x + B2R y) -> Rabs (rn (B2R x + B2R y)) < bpow radix2 1024 ->
  B2R (b64_plus x y) = rn (B2R x + B2R y) /\ is_finite (b64_plus x y) = true.
Proof.
  intros x y Fx Fy Hu Ho.
  pose proof (Bplus_correct 53 1024 P53 P1024 mode_NE x y Fx Fy) as H.
  rewrite (flt_is_rn _ Hu) in H. rewrite Rlt_bool_true in H by exact Ho.
  destruct H as (H1 & H2 & _). split; assumption.
Qed.

Lemma link_minus : forall x y : b64, is_finite x = true -> is_finite y = true ->
  bpow radix2 (-1022) <= Rabs (B2R x - B2R y) -> Rabs (rn (B2R x - B2R y)) < bpow radix2 1024 ->
  B2R (b64_minus x y) = rn (B2R x - B2R y) /\ is_finite (b64_minus x y) = true.
Proof.
  intros x y Fx Fy Hu Ho.
  pose proof (Bminus_correct 53 1024 P53 P1024 mode_NE x y Fx Fy) as H.
  rewrite (flt_is_rn _ Hu) in H. rewrite Rlt_bool_true in H by exact Ho.
  destruct H as (H1 & H2 & _). split; assumption.
Qed.

Lemma link_mult : forall x y : b64, is_finite x = true -> is_finite y = true ->
  bpow radix2 (-1022) <= Rabs (B2R x * B2R y) -> Rabs (rn (B2R x * B2R y)) < bpow radix2 1024 ->
  B2R (b64_mult x y) = rn (B2R x * B2R y) /\ is_finite (b64_mult x y) = true.
Proof.
  intros x y Fx Fy Hu Ho.
  pose proof (Bmult_correct 53 1024 P53 P1024 mode_NE x y) as H.
  rewrite (flt_is_rn _ Hu) in H. rewrite Rlt_bool_true in H by exact Ho.
  destruct H as (H1 & H2 & _). rewrite Fx, Fy in H2. split; assumption.
Qed.

Lemma link_div : forall x y : b64, is_finite x = true -> B2R y <> 0 ->
  bpow radix2 (-1022) <= Rabs (B2R x / B2R y) -> Rabs (rn (B2R x / B2R y)) < bpow radix2 1024 ->
  B2R (b64_div x y) = rn (B2R x / B2R y) /\ is_finite (b64_div x y) = true.
Proof.
  intros x y Fx Hy Hu Ho.
  pose proof (Bdiv_correct 53 1024 P53 P1024 mode_NE x y Hy) as H.
  rewrite (flt_is_rn _ Hu) in H. rewrite Rlt_bool_true in H by exact Ho.
  destruct H as (H1 & H2 & _). rewrite Fx in H2. split; assumption.
Qed.

(* an exact zero result (the only result below 2^-1022 that is not an underflow) is also reproduced *)
Lemma rn_0 : rn 0 = 0.
Proof. unfold rn. apply round_0. apply valid_rnd_N. Qed.

Theorem b64_ops_are_ieee : forall x y : b64, is_finite x = true -> is_finite y = true ->
  (bpow radix2 (-1022) <= Rabs (B2R x + B2R y) -> Rabs (rn (B2R x + B2R y)) < bpow radix2 1024 ->
     B2R (b64_plus x y) = rn (B2R x + B2R y) /\ is_finite (b64_plus x y) = true) /\
  (bpow radix2 (-1022) <= Rabs (B2R x - B2R y) -> Rabs (rn (B2R x - B2R y)) < bpow radix2 1024 ->
     B2R (b64_minus x y) = rn (B2R x - B2R y) /\ is_finite (b64_minus x y) = true) /\
  (bpow radix2 (-1022) <= Rabs (B2R x * B2R y) -> Rabs (rn (B2R x * B2R y)) < bpow radix2 1024 ->
     B2R (b64_mult x y) = rn (B2R x * B2R y) /\ is_finite (b64_mult x y) = true) /\
  (B2R y <> 0 -> bpow radix2 (-1022) <= Rabs (B2R x / B2R y) -> Rabs (rn (B2R x / B2R y)) < bpow radix2 1024 ->
     B2R (b64_div x y) = rn (B2R x / B2R y) /\ is_finite (b64_div x y) = true).
Proof.
  intros x y Fx Fy. split; [|split; [|split]]; intros.
  - apply link_plus; assumption.
  - apply link_minus; assumption.
  - apply link_mult; assumption.
  - apply link_div; assumption.
Qed.
