(* C14 -- the guard-bit hypothesis of C14_secular_poly_estimate_bounds_error cannot be made independent of n:
   exact witness family (input definitions zeros/guard_input are witnesses, not part of the model). *)
Require Import Reals List Lra Lia.
From Coquelicot Require Import Complex.
Require Import MPSV.Eval.EvalModel MPSV.Eval.EvalExact MPSV.Eval.EvalRounded MPSV.Eval.EvalSparse MPSV.Eval.EvalSecPoly.
Import ListNotations.
Local Open Scope R_scope.

Section Guard.
  Variable delta : R.
  Hypothesis Hd : 0 < delta.
  Let s := 1 + delta.
  Let Sc := RtoC s.
  Let A := sarith delta.
  Let Hs : 1 < s. Proof. unfold s; lra. Qed.

  Definition zeros (m : nat) : list (C * C) := repeat (RtoC 0, RtoC 0) m.
  Definition guard_input (m : nat) : list (C * C) := (RtoC 2, RtoC 0) :: zeros m.

  Lemma d_eq : fsub A (RtoC 1) (RtoC 0) = Sc.
  Proof. unfold A, sarith, Sc, s; cbn [fsub]. apply injective_projections; simpl; ring. Qed.
  Lemma Sc_ne : Sc <> RtoC 0.
  Proof. unfold Sc. intro E. apply (f_equal fst) in E. simpl in E. pose proof Hs. lra. Qed.
  Lemma Cmod_Sc : Cmod Sc = s.
  Proof. unfold Sc. rewrite Cmod_R. apply Rabs_pos_eq. pose proof Hs. lra. Qed.

  Lemma sum_zeros : forall m acc i e,
    sec_est_sum A exact_rarith (zeros m) (RtoC 1) acc i e = Some ((acc * RtoC (s ^ m))%C, e).
  Proof.
    induction m as [|m IH]; intros acc i e; cbn [zeros repeat sec_est_sum].
    - f_equal. f_equal. simpl. ring.
    - rewrite d_eq. destruct (Ceq_dec Sc (RtoC 0)) as [E|_]; [exfalso; exact (Sc_ne E)|].
      fold (zeros m).
      assert (Et : fdiv A (RtoC 0) Sc = RtoC 0).
      { unfold A, sarith; cbn [fdiv]. unfold Cdiv. ring. }
      rewrite Et. cbn [exact_rarith radd rmul rmod]. rewrite Cmod_0, Rmult_0_l, Rplus_0_r.
      rewrite IH. f_equal. f_equal.
      unfold A, sarith; cbn [fadd]. fold s. fold Sc. unfold Sc. simpl pow. rewrite !RtoC_mult. ring.
  Qed.

  Lemma prod_loop_zero_poles : forall ab v e, Forall (fun p => snd p = RtoC 0) ab ->
    sec_poly_est_loop A exact_rarith ab (RtoC 1) v e
    = ((v * RtoC (s ^ (2 * length ab)))%C, e * s ^ length ab).
  Proof.
    induction ab as [|[a b] r IH]; intros v e Hall; cbn [sec_poly_est_loop length].
    - simpl. f_equal; [ring|ring].
    - inversion Hall as [|p q Hb Hr]; subst. simpl in Hb. subst b.
      rewrite d_eq. rewrite IH by exact Hr. cbn [exact_rarith rmul rmod]. rewrite Cmod_Sc.
      f_equal.
      + unfold A, sarith; cbn [fmul]. fold s. fold Sc. unfold Sc.
        replace (2 * S (length r))%nat with (S (S (2 * length r))) by lia. simpl pow. rewrite !RtoC_mult. ring.
      + simpl pow. ring.
  Qed.

  Lemma zeros_poles : forall m, Forall (fun p : C * C => snd p = RtoC 0) (zeros m).
  Proof. intros m. unfold zeros. apply Forall_forall. intros p Hp. apply repeat_spec in Hp. subst. reflexivity. Qed.

  Lemma terms_zeros : forall m, sec_terms (zeros m) (RtoC 1) = RtoC 0.
  Proof. induction m as [|m IH]; cbn [zeros repeat sec_terms]; [reflexivity|]. fold (zeros m). rewrite IH. apply injective_projections; simpl; field. Qed.
  Lemma prodC_zeros : forall m, sec_prodC (zeros m) (RtoC 1) = RtoC 1.
  Proof. induction m as [|m IH]; cbn [zeros repeat sec_prodC]; [reflexivity|]. fold (zeros m). rewrite IH. apply injective_projections; simpl; ring. Qed.

  Lemma guard_exact : forall m, sec_poly_exact (guard_input m) (RtoC 1) = RtoC (-1).
  Proof.
    intros m. unfold sec_poly_exact, sec_exact, guard_input. cbn [sec_terms sec_prodC].
    rewrite terms_zeros, prodC_zeros.
    apply injective_projections; simpl; field.
  Qed.

  Lemma guard_run : forall (u4 : R) (m : nat),
    sec_poly_est_fl A exact_rarith u4 (guard_input m) (RtoC 1)
    = Some (RtoC (- ((2 * s ^ (S m) - 1) * s ^ (2 * S m + 2))), 5 * u4 * s ^ S m).
  Proof.
    intros u4 m. unfold sec_poly_est_fl, sec_est_fl, guard_input. cbn [sec_est_sum].
    rewrite d_eq. destruct (Ceq_dec Sc (RtoC 0)) as [E|_]; [exfalso; exact (Sc_ne E)|].
    rewrite sum_zeros.
    assert (Et : fdiv A (RtoC 2) Sc = RtoC 2).
    { unfold A, sarith; cbn [fdiv]. fold s. fold Sc. field. exact Sc_ne. }
    rewrite Et. cbn [exact_rarith radd rmul rmod].
    rewrite prod_loop_zero_poles by (constructor; [reflexivity|apply zeros_poles]).
    cbn [fst snd length]. unfold zeros. rewrite repeat_length. fold (zeros m).
    f_equal. f_equal.
    - unfold A, sarith; cbn [fadd fsub fmul]. fold s. fold Sc. unfold Sc.
      rewrite <- (tech_pow_Rmult s m), (pow_add s (2 * S m) 2).
      repeat (rewrite <- RtoC_plus || rewrite <- RtoC_mult || rewrite <- RtoC_minus).
      f_equal. simpl (s ^ 2). ring.
    - rewrite Cmod_R, Rabs_pos_eq by lra. simpl INR. simpl pow. ring.
  Qed.
End Guard.

(* The guard factor has to grow with the number of terms: in the arithmetic that scales every result by
   1 + delta (standard model with mu = delta) and with an EXACTLY computed estimate, the input
   2/(x-0) + 0/(x-0) + ... + 0/(x-0) - 1 (n = m+1 terms) at x = 1 has an error above the coded estimate with
   declared unit u4 = c * delta as soon as 5c < 2n (and n delta <= 1/2): c, the accuracy the arithmetic has in
   excess of the declared unit, must be at least 2n/5, i.e. log2 n - 2 guard bits. *)
Theorem secular_estimate_needs_growing_guard : forall (delta c : R) (m : nat),
  0 < delta -> 0 <= c -> INR (S m) * delta <= 1 / 2 -> 5 * c < 2 * INR (S m) ->
  std_model delta (sarith delta) /\
  exists p e, sec_poly_est_fl (sarith delta) exact_rarith (c * delta) (guard_input m) (RtoC 1) = Some (p, e) /\
    e < Cmod (p - sec_poly_exact (guard_input m) (RtoC 1))%C.
Proof.
  intros delta c m Hd Hc Hn Hcn. split; [apply sarith_std; lra|].
  rewrite (guard_run delta Hd). eexists; eexists; split; [reflexivity|].
  rewrite guard_exact, <- RtoC_minus, Cmod_R.
  set (s := 1 + delta). set (n := S m) in *.
  pose proof (pos_INR n) as Hn0.
  assert (Hq1 : 1 + INR n * delta <= s ^ n) by (apply poly; exact Hd).
  assert (Hq2 : s ^ n <= 2).
  { pose proof (gamma_bound delta n ltac:(lra)) as G. fold s in G.
    assert (0 <= s ^ n) by (apply pow_le; unfold s; lra). nra. }
  assert (Hr1 : 1 + INR (2 * n + 2) * delta <= s ^ (2 * n + 2)) by (apply poly; exact Hd).
  rewrite plus_INR, mult_INR in Hr1. replace (INR 2) with 2 in Hr1 by (simpl; lra).
  set (q := s ^ n) in *. set (r := s ^ (2 * n + 2)) in *. set (y := INR n * delta) in *.
  assert (Hy : 0 <= y) by (unfold y; apply Rmult_le_pos; lra).
  assert (Hr : 1 + 2 * y <= r).
  { replace ((2 * INR n + 2) * delta) with (2 * y + 2 * delta) in Hr1 by (unfold y; ring). lra. }
  assert (Hq : 1 + 2 * y <= 2 * q - 1) by lra.
  assert (Hprod : (1 + 2 * y) * (1 + 2 * y) <= (2 * q - 1) * r) by (apply Rmult_le_compat; lra).
  replace (- ((2 * q - 1) * r) - -1) with (- ((2 * q - 1) * r - 1)) by ring.
  rewrite Rabs_Ropp, Rabs_pos_eq by nra.
  assert (He : 5 * (c * delta) * q <= 10 * (c * delta)).
  { assert (0 <= c * delta) by (apply Rmult_le_pos; lra). nra. }
  assert (Hcd : 10 * (c * delta) < 4 * y).
  { unfold y. replace (10 * (c * delta)) with ((2 * (5 * c)) * delta) by ring.
    replace (4 * (INR n * delta)) with ((2 * (2 * INR n)) * delta) by ring.
    apply Rmult_lt_compat_r; lra. }
  nra.
Qed.
