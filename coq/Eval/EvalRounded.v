(* C14 -- rounding-error theorems over C with a standard-model arithmetic. *)
Require Import Reals List Lra Lia.
From Coquelicot Require Import Complex.
Require Import MPSV.Eval.EvalModel MPSV.Eval.EvalExact.
Import ListNotations.
Local Open Scope R_scope.

Lemma C_ring_theory : ring_theory (RtoC 0) (RtoC 1) Cplus Cmult Cminus Copp (@eq C).
Proof. constructor; intros; ring. Qed.

Lemma horner_flC_exact : forall l x, horner_fl exact_arith l x = hornerC l x.
Proof.
  intros. unfold horner_fl, hornerC. simpl.
  apply (horner_coded_eq C (RtoC 0) (RtoC 1) Cplus Cmult Cminus Copp C_ring_theory).
Qed.

Lemma habs_ge_0 : forall l r, 0 <= r -> 0 <= habs l r.
Proof.
  induction l as [|a l IH]; intros r Hr; simpl; [lra|].
  pose proof (Cmod_ge_0 a). pose proof (IH r Hr). nra.
Qed.

Lemma hornerC_le_habs : forall l x, Cmod (hornerC l x) <= habs l (Cmod x).
Proof.
  induction l as [|a l IH]; intros x.
  - unfold hornerC; simpl. rewrite Cmod_0. lra.
  - change (hornerC (a :: l) x) with (a + x * hornerC l x)%C. simpl habs.
    eapply Rle_trans; [apply Cmod_triangle|]. rewrite Cmod_mult.
    pose proof (Cmod_ge_0 x). pose proof (IH x). nra.
Qed.

Lemma pow1_ge_1 : forall mu k, 0 <= mu -> 1 <= (1 + mu) ^ k.
Proof. intros. apply pow_R1_Rle. lra. Qed.

(* |s^ - p(x)| <= ((1+mu)^(2n) - 1) p~(|x|), n = degree *)
Theorem horner_apriori : forall (A : arith) (mu : R) (l : list C) (x : C),
  std_model mu A -> l <> [] ->
  Cmod (horner_fl A l x - hornerC l x)%C <= ((1 + mu) ^ (2 * (length l - 1)) - 1) * habs l (Cmod x).
Proof.
  intros A mu l x (Hmu & Hadd & _ & Hmul & _).
  induction l as [|a l IH]; intros Hne; [congruence|].
  destruct l as [|b r].
  - (* degree 0: value = a, exact *)
    unfold horner_fl, hornerC. simpl.
    replace (a - (a + x * 0))%C with (RtoC 0) by ring. rewrite Cmod_0.
    pose proof (Cmod_ge_0 a). lra.
  - set (l' := b :: r) in *.
    assert (Hne' : l' <> []) by (unfold l'; congruence).
    specialize (IH Hne').
    set (k := (length l' - 1)%nat) in *.
    replace (length (a :: l') - 1)%nat with (S k) by (unfold k, l'; simpl; lia).
    set (sh := horner_fl A l' x) in *. set (s := hornerC l' x) in *.
    change (horner_fl A (a :: l') x) with (fadd A (fmul A sh x) a).
    change (hornerC (a :: l') x) with (a + x * s)%C.
    change (habs (a :: l') (Cmod x)) with (Cmod a + Cmod x * habs l' (Cmod x)).
    set (P := habs l' (Cmod x)) in *.
    set (G := (1 + mu) ^ (2 * k)) in *.
    replace ((1 + mu) ^ (2 * S k)) with (G * ((1 + mu) * (1 + mu))).
    2:{ unfold G. replace (2 * S k)%nat with (S (S (2 * k))) by lia. simpl. ring. }
    assert (HG : 1 <= G) by (apply pow1_ge_1; lra).
    pose proof (Cmod_ge_0 x) as Hx. set (rx := Cmod x) in *.
    assert (HP : 0 <= P) by (apply habs_ge_0; exact Hx).
    pose proof (hornerC_le_habs l' x) as Hs. fold s in Hs. fold rx in Hs. fold P in Hs.
    set (t := fmul A sh x).
    pose proof (Hmul sh x) as Ht. fold t in Ht. rewrite Cmod_mult in Ht. fold rx in Ht.
    pose proof (Hadd t a) as Hv.
    (* |sh| <= G P *)
    assert (Hsh : Cmod sh <= G * P).
    { replace sh with ((sh - s) + s)%C by ring.
      eapply Rle_trans; [apply Cmod_triangle|]. lra. }
    (* |t| <= (1+mu) |sh| rx *)
    assert (Htm : Cmod t <= (1 + mu) * (Cmod sh * rx)).
    { replace t with ((t - sh * x) + sh * x)%C by ring.
      eapply Rle_trans; [apply Cmod_triangle|]. rewrite Cmod_mult. fold rx. lra. }
    pose proof (Cmod_ge_0 a) as Ha. pose proof (Cmod_ge_0 sh) as Hsh0. pose proof (Cmod_ge_0 t) as Ht0.
    (* decomposition of the error *)
    replace (fadd A t a - (a + x * s))%C
      with ((fadd A t a - (t + a)) + ((t - sh * x) + (sh - s) * x))%C by ring.
    eapply Rle_trans; [apply Cmod_triangle|].
    eapply Rle_trans; [apply Rplus_le_compat_l; apply Cmod_triangle|].
    rewrite Cmod_mult. fold rx.
    set (E := Cmod (sh - s)%C) in *.
    assert (HE0 : 0 <= E) by apply Cmod_ge_0.
    (* collect:  mu(|t|+|a|) + mu |sh| rx + E rx <= (G (1+mu)^2 - 1)(|a| + rx P) *)
    assert (B1 : Cmod sh * rx <= G * P * rx) by (apply Rmult_le_compat_r; lra).
    assert (B2 : E * rx <= (G - 1) * P * rx) by (apply Rmult_le_compat_r; lra).
    assert (B3 : 0 <= G * P * rx) by (apply Rmult_le_pos; [apply Rmult_le_pos|]; lra).
    assert (B4 : mu * Cmod t <= mu * ((1 + mu) * (G * P * rx))).
    { apply Rmult_le_compat_l; [lra|]. eapply Rle_trans; [exact Htm|].
      apply Rmult_le_compat_l; lra. }
    assert (B5 : mu * (Cmod sh * rx) <= mu * (G * P * rx)) by (apply Rmult_le_compat_l; lra).
    assert (B6 : mu * Cmod a <= (G * ((1 + mu) * (1 + mu)) - 1) * Cmod a).
    { apply Rmult_le_compat_r; [lra|]. nra. }
    set (W := G * P * rx) in *.
    replace ((G * ((1 + mu) * (1 + mu)) - 1) * (Cmod a + rx * P))
      with ((G * ((1 + mu) * (1 + mu)) - 1) * Cmod a
            + (mu * ((1 + mu) * W) + mu * W + (W - P * rx))) by (unfold W; ring).
    assert (B2' : E * rx <= W - P * rx) by (unfold W; lra).
    lra.
Qed.

(* (1+mu)^k (1 - k mu) <= 1 : the usual gamma_k = k mu/(1 - k mu) bound *)
Lemma gamma_bound : forall mu k, 0 <= mu -> (1 + mu) ^ k * (1 - INR k * mu) <= 1.
Proof.
  intros mu k Hmu. induction k as [|k IH].
  - simpl. lra.
  - rewrite S_INR. simpl pow.
    assert (H1 : 0 <= (1 + mu) ^ k) by (apply pow_le; lra).
    assert (H2 : (1 + mu) * (1 - (INR k + 1) * mu) <= 1 - INR k * mu).
    { pose proof (pos_INR k). nra. }
    replace ((1 + mu) * (1 + mu) ^ k * (1 - (INR k + 1) * mu))
      with ((1 + mu) ^ k * ((1 + mu) * (1 - (INR k + 1) * mu))) by ring.
    eapply Rle_trans; [apply Rmult_le_compat_l; [exact H1|exact H2]|exact IH].
Qed.

Lemma gamma_linear : forall mu k, 0 <= mu -> INR k * mu <= 1 / 10 ->
  (1 + mu) ^ k - 1 <= 10 / 9 * (INR k * mu).
Proof.
  intros mu k Hmu Hk. pose proof (gamma_bound mu k Hmu) as H.
  set (y := INR k * mu) in *. assert (0 <= y) by (unfold y; pose proof (pos_INR k); nra).
  set (g := (1 + mu) ^ k) in *.
  assert (Hg : 0 <= g) by (apply pow_le; lra).
  (* g (1-y) <= 1  and 1 <= (1-y)(1 + 10/9 y) *)
  assert (1 <= (1 - y) * (1 + 10 / 9 * y)) by nra.
  assert (g * (1 - y) <= (1 + 10 / 9 * y) * (1 - y)) by lra.
  assert (g <= 1 + 10 / 9 * y).
  { apply Rmult_le_reg_r with (1 - y); lra. }
  lra.
Qed.

(* classical first-order form: |s^ - p(x)| <= (20/9) n mu p~(|x|) when 2 n mu <= 1/10 *)
Corollary horner_apriori_linear : forall (A : arith) (mu : R) (l : list C) (x : C),
  std_model mu A -> l <> [] -> INR (2 * (length l - 1)) * mu <= 1 / 10 ->
  Cmod (horner_fl A l x - hornerC l x)%C <= 20 / 9 * INR (length l - 1) * mu * habs l (Cmod x).
Proof.
  intros A mu l x HA Hne Hk.
  eapply Rle_trans; [apply horner_apriori; eassumption|].
  destruct HA as (Hmu & _).
  pose proof (gamma_linear mu _ Hmu Hk) as Hg.
  pose proof (habs_ge_0 l (Cmod x) (Cmod_ge_0 x)) as HP.
  rewrite mult_INR in Hg. simpl INR in Hg.
  eapply Rle_trans; [apply Rmult_le_compat_r; [exact HP|exact Hg]|].
  apply Req_le. field.
Qed.

(* The multiprecision estimate of mps_mhorner_with_error2, u4 (apol + |value|), bounds the
   actual error PROVIDED the arithmetic really used is accurate enough for the declared
   u4 = 4 * 2^-wp:  ((1+mu)^(2n) - 1)(1 + eta) <= u4, where eta covers the DPE rounding of
   apol (p~(|x|) <= (1+eta) apol).  This guard-bit hypothesis is a fact about GMP's mpf_t
   (and about MPSolve's 3-multiplication mpc_mul); it is NOT proved here, the correspondence
   check tests its consequence on every multiprecision run. *)
Theorem mp_estimate_bounds_error : forall (A : arith) (mu u4 eta apol : R) (l : list C) (x : C),
  std_model mu A -> l <> [] -> 0 <= eta ->
  habs l (Cmod x) <= (1 + eta) * apol ->
  ((1 + mu) ^ (2 * (length l - 1)) - 1) * (1 + eta) <= u4 ->
  Cmod (horner_fl A l x - hornerC l x)%C <= mp_estimate u4 apol (horner_fl A l x).
Proof.
  intros A mu u4 eta apol l x HA Hne Heta Hap Hg.
  eapply Rle_trans; [apply horner_apriori; eassumption|].
  unfold mp_estimate. destruct HA as (Hmu & _).
  set (g := (1 + mu) ^ (2 * (length l - 1)) - 1) in *.
  assert (Hg0 : 0 <= g) by (unfold g; pose proof (pow1_ge_1 mu (2 * (length l - 1)) Hmu); lra).
  pose proof (habs_ge_0 l (Cmod x) (Cmod_ge_0 x)) as HP.
  pose proof (Cmod_ge_0 (horner_fl A l x)) as Hv.
  assert (Hap0 : 0 <= apol) by nra.
  assert (g * habs l (Cmod x) <= g * ((1 + eta) * apol)) by (apply Rmult_le_compat_l; lra).
  assert (g * (1 + eta) * apol <= u4 * apol) by (apply Rmult_le_compat_r; lra).
  assert (0 <= u4) by nra.
  nra.
Qed.

(* ------------------------------------------------------------------ secular sum *)

(* majorant of the accumulator: M <- (1+mu)(M + (1+nu) tau) *)
Fixpoint sec_major (mu nu : R) (ab : list (C * C)) (x : C) (M : R) : R :=
  match ab with
  | [] => M
  | (a, b) :: r => sec_major mu nu r x ((1 + mu) * (M + (1 + nu) * (Cmod a / Cmod (x - b)%C)))
  end.

Lemma sec_abs_ge_0 : forall ab x, 0 <= sec_abs ab x.
Proof.
  induction ab as [|[a b] r IH]; intros x; simpl; [lra|].
  pose proof (IH x). pose proof (Cmod_ge_0 a). pose proof (Cmod_ge_0 (x - b)%C).
  assert (0 <= Cmod a / Cmod (x - b)%C).
  { unfold Rdiv. destruct (Req_dec (Cmod (x - b)%C) 0) as [E|E].
    - rewrite E, Rinv_0. lra.
    - apply Rmult_le_pos; [lra|]. apply Rlt_le, Rinv_0_lt_compat. lra. }
  lra.
Qed.

Lemma sec_major_bound : forall mu nu ab x M, 0 <= mu -> 0 <= nu -> 0 <= M ->
  sec_major mu nu ab x M <= (1 + mu) ^ length ab * (M + (1 + nu) * sec_abs ab x).
Proof.
  intros mu nu ab x M Hmu Hnu. revert M.
  induction ab as [|[a b] r IH]; intros M HM.
  - simpl. nra.
  - cbn [sec_major sec_abs length]. set (tau := Cmod a / Cmod (x - b)%C).
    assert (Ht : 0 <= tau).
    { pose proof (sec_abs_ge_0 [(a, b)] x) as H. simpl in H. fold tau in H. lra. }
    pose proof (sec_abs_ge_0 r x) as Hr.
    assert (Hnt : 0 <= (1 + nu) * tau) by (apply Rmult_le_pos; lra).
    assert (HM' : 0 <= (1 + mu) * (M + (1 + nu) * tau)) by (apply Rmult_le_pos; lra).
    eapply Rle_trans; [apply IH; exact HM'|].
    assert (Hp : 0 <= (1 + mu) ^ length r) by (apply pow_le; lra).
    simpl pow.
    replace ((1 + mu) * (1 + mu) ^ length r * (M + (1 + nu) * (tau + sec_abs r x)))
      with ((1 + mu) ^ length r * ((1 + mu) * (M + (1 + nu) * (tau + sec_abs r x)))) by ring.
    apply Rmult_le_compat_l; [exact Hp|].
    assert (Hns : 0 <= (1 + nu) * sec_abs r x) by (apply Rmult_le_pos; lra).
    assert (0 <= mu * ((1 + nu) * sec_abs r x)) by (apply Rmult_le_pos; lra).
    lra.
Qed.

(* one rounded term a/(x-b):  |fl(a / fl(x-b)) - a/(x-b)| <= (2mu/(1-mu)) |a|/|x-b| *)
Lemma sec_term_error : forall A mu a b x, std_model mu A -> mu < 1 -> x <> b ->
  fsub A x b <> RtoC 0 /\
  Cmod (fdiv A a (fsub A x b) - a / (x - b))%C <= 2 * mu / (1 - mu) * (Cmod a / Cmod (x - b)%C).
Proof.
  intros A mu a b x (Hmu & _ & Hsub & _ & Hdiv) Hmu1 Hxb.
  set (d := (x - b)%C). set (dh := fsub A x b).
  assert (Hd : d <> RtoC 0).
  { unfold d. intro E. apply Hxb. replace x with ((x - b) + b)%C by ring. rewrite E. ring. }
  assert (Hdm : 0 < Cmod d) by (apply Cmod_gt_0; exact Hd).
  pose proof (Hsub x b) as Hs. fold d dh in Hs.
  (* |dh| >= (1-mu)|d| *)
  assert (Hlow : (1 - mu) * Cmod d <= Cmod dh).
  { assert (Cmod d <= Cmod dh + Cmod (dh - d)%C).
    { replace d with (dh + - (dh - d))%C at 1 by ring.
      eapply Rle_trans; [apply Cmod_triangle|]. rewrite Cmod_opp. lra. }
    lra. }
  assert (Hdhm : 0 < Cmod dh) by nra.
  assert (Hdh : dh <> RtoC 0).
  { intro E. rewrite E, Cmod_0 in Hdhm. lra. }
  split; [exact Hdh|].
  pose proof (Hdiv a dh Hdh) as Hq.
  rewrite (Cmod_div a dh Hdh) in Hq.
  pose proof (Cmod_ge_0 a) as Ha.
  (* a/dh - a/d = a (d - dh)/(dh d) *)
  assert (Hdiff : Cmod (a / dh - a / d)%C = Cmod a * Cmod (dh - d)%C / (Cmod dh * Cmod d)).
  { replace (a / dh - a / d)%C with (a * (- (dh - d)) / (dh * d))%C by (field; split; assumption).
    rewrite Cmod_div.
    - rewrite !Cmod_mult, Cmod_opp. reflexivity.
    - apply Cmult_neq_0; assumption. }
  replace (fdiv A a dh - a / d)%C with ((fdiv A a dh - a / dh) + (a / dh - a / d))%C by ring.
  eapply Rle_trans; [apply Cmod_triangle|]. rewrite Hdiff.
  assert (H1m : 0 < 1 - mu) by lra.
  (* both pieces are <= mu/(1-mu) * |a|/|d| *)
  assert (Hinv : / Cmod dh <= / ((1 - mu) * Cmod d)).
  { apply Rinv_le_contravar; [nra|exact Hlow]. }
  assert (P1 : mu * (Cmod a / Cmod dh) <= mu / (1 - mu) * (Cmod a / Cmod d)).
  { unfold Rdiv. rewrite Rinv_mult in Hinv.
    replace (mu * / (1 - mu) * (Cmod a * / Cmod d)) with (mu * (Cmod a * (/ (1 - mu) * / Cmod d))) by ring.
    apply Rmult_le_compat_l; [lra|]. apply Rmult_le_compat_l; lra. }
  assert (P2 : Cmod a * Cmod (dh - d)%C / (Cmod dh * Cmod d) <= mu / (1 - mu) * (Cmod a / Cmod d)).
  { unfold Rdiv. rewrite Rinv_mult. rewrite Rinv_mult in Hinv.
    assert (Hid : 0 < / Cmod d) by (apply Rinv_0_lt_compat; lra).
    assert (Hidh : 0 < / Cmod dh) by (apply Rinv_0_lt_compat; lra).
    assert (Q : Cmod (dh - d)%C * / Cmod d <= mu).
    { apply Rmult_le_reg_r with (Cmod d); [lra|]. rewrite Rmult_assoc, Rinv_l; lra. }
    replace (Cmod a * Cmod (dh - d)%C * (/ Cmod dh * / Cmod d))
      with (Cmod a * / Cmod dh * (Cmod (dh - d)%C * / Cmod d)) by ring.
    replace (mu * / (1 - mu) * (Cmod a * / Cmod d)) with (Cmod a * (/ (1 - mu) * / Cmod d) * mu) by ring.
    assert (0 <= Cmod (dh - d)%C * / Cmod d).
    { apply Rmult_le_pos; [apply Cmod_ge_0|lra]. }
    apply Rmult_le_compat; try lra.
    - apply Rmult_le_pos; lra.
    - apply Rmult_le_compat_l; lra. }
  replace (2 * mu / (1 - mu) * (Cmod a / Cmod d)) with
    (mu / (1 - mu) * (Cmod a / Cmod d) + mu / (1 - mu) * (Cmod a / Cmod d)) by (unfold Rdiv; ring).
  lra.
Qed.

Definition all_ne (ab : list (C * C)) (x : C) : Prop := Forall (fun p => x <> snd p) ab.

Lemma sec_terms_le_abs : forall ab x, all_ne ab x -> Cmod (sec_terms ab x) <= sec_abs ab x.
Proof.
  induction ab as [|[a b] r IH]; intros x Hne; simpl.
  - rewrite Cmod_0. lra.
  - inversion Hne as [|p q Hxb Hne']; subst. simpl in Hxb.
    eapply Rle_trans; [apply Cmod_triangle|].
    rewrite Cmod_div.
    + pose proof (IH x Hne'). lra.
    + intro E. apply Hxb. replace x with ((x - b) + b)%C by ring. rewrite E. ring.
Qed.

Lemma sec_sum_invariant : forall A mu ab x acc accx M Ab,
  std_model mu A -> mu < 1 -> all_ne ab x ->
  Cmod accx <= Ab -> Cmod (acc - accx)%C <= M - Ab ->
  exists s, sec_sum_fl A ab x acc = Some s /\
    Cmod (s - (accx + sec_terms ab x))%C
      <= sec_major mu (2 * mu / (1 - mu)) ab x M - (Ab + sec_abs ab x).
Proof.
  intros A mu ab x acc accx M Ab HA Hmu1. revert acc accx M Ab.
  induction ab as [|[a b] r IH]; intros acc accx M Ab Hne Hax Herr.
  - exists acc. split; [reflexivity|]. simpl.
    replace (acc - (accx + 0))%C with (acc - accx)%C by ring. lra.
  - inversion Hne as [|p q Hxb Hne']; subst. simpl in Hxb.
    destruct (sec_term_error A mu a b x HA Hmu1 Hxb) as [Hd Ht].
    cbn [sec_sum_fl]. destruct (Ceq_dec (fsub A x b) (RtoC 0)) as [E|_]; [contradiction|].
    set (nu := 2 * mu / (1 - mu)) in *.
    set (tau := Cmod a / Cmod (x - b)%C) in *.
    set (th := fdiv A a (fsub A x b)) in *. set (t := (a / (x - b))%C) in *.
    destruct HA as (Hmu & Hadd & HA').
    assert (Htau : 0 <= tau).
    { pose proof (sec_abs_ge_0 [(a, b)] x) as H. simpl in H. fold tau in H. lra. }
    assert (Hnu : 0 <= nu).
    { unfold nu. unfold Rdiv. apply Rmult_le_pos; [lra|]. apply Rlt_le, Rinv_0_lt_compat. lra. }
    assert (Ht_mod : Cmod t = tau).
    { unfold t, tau. apply Cmod_div. intro E. apply Hxb.
      replace x with ((x - b) + b)%C by ring. rewrite E. ring. }
    (* |acc| <= M, |th| <= (1+nu) tau *)
    assert (Hacc : Cmod acc <= M).
    { replace acc with ((acc - accx) + accx)%C by ring.
      eapply Rle_trans; [apply Cmod_triangle|]. lra. }
    assert (Hth : Cmod th <= (1 + nu) * tau).
    { replace th with ((th - t) + t)%C by ring.
      eapply Rle_trans; [apply Cmod_triangle|]. rewrite Ht_mod. lra. }
    pose proof (Hadd acc th) as Hs.
    destruct (IH (fadd A acc th) (accx + t)%C ((1 + mu) * (M + (1 + nu) * tau)) (Ab + tau))
      as [s [Hs1 Hs2]].
    + exact Hne'.
    + eapply Rle_trans; [apply Cmod_triangle|]. rewrite Ht_mod. lra.
    + replace (fadd A acc th - (accx + t))%C
        with ((fadd A acc th - (acc + th)) + ((acc - accx) + (th - t)))%C by ring.
      eapply Rle_trans; [apply Cmod_triangle|].
      eapply Rle_trans; [apply Rplus_le_compat_l; apply Cmod_triangle|].
      assert (mu * (Cmod acc + Cmod th) <= mu * (M + (1 + nu) * tau))
        by (apply Rmult_le_compat_l; lra).
      lra.
    + exists s. split; [exact Hs1|].
      cbn [sec_terms sec_major sec_abs]. fold tau. fold t.
      replace (accx + (t + sec_terms r x))%C with (accx + t + sec_terms r x)%C by ring.
      eapply Rle_trans; [exact Hs2|]. fold nu. lra.
Qed.

(* |S^ - S| <= ((1+nu)(1+mu)^(n+1) - 1)(sum |a_i|/|x-b_i| + 1),  nu = 2mu/(1-mu),
   and the evaluation succeeds, whenever x is none of the b_i *)
Theorem secular_sum_apriori : forall (A : arith) (mu : R) (ab : list (C * C)) (x : C),
  std_model mu A -> mu < 1 -> all_ne ab x ->
  exists s, sec_fl A ab x = Some s /\
    Cmod (s - sec_exact ab x)%C
      <= ((1 + 2 * mu / (1 - mu)) * (1 + mu) ^ (length ab + 1) - 1) * (sec_abs ab x + 1).
Proof.
  intros A mu ab x HA Hmu1 Hne.
  destruct (sec_sum_invariant A mu ab x (RtoC 0) (RtoC 0) 0 0 HA Hmu1 Hne) as [s [Hs He]].
  - rewrite Cmod_0. lra.
  - replace (RtoC 0 - RtoC 0)%C with (RtoC 0) by ring. rewrite Cmod_0. lra.
  - unfold sec_fl. rewrite Hs. eexists; split; [reflexivity|].
    destruct HA as (Hmu & _ & Hsub & _).
    set (nu := 2 * mu / (1 - mu)) in *.
    assert (Hnu : 0 <= nu).
    { unfold nu, Rdiv. apply Rmult_le_pos; [lra|]. apply Rlt_le, Rinv_0_lt_compat. lra. }
    pose proof (sec_major_bound mu nu ab x 0 Hmu Hnu (Rle_refl 0)) as HM. rewrite Rplus_0_l in HM.
    set (Mf := sec_major mu nu ab x 0) in *. set (Sa := sec_abs ab x) in *.
    pose proof (sec_abs_ge_0 ab x) as HSa. fold Sa in HSa.
    replace (RtoC 0 + sec_terms ab x)%C with (sec_terms ab x) in He by ring.
    rewrite Rplus_0_l in He.
    set (S := sec_terms ab x) in *.
    assert (HSm : Cmod S <= Sa) by (apply sec_terms_le_abs; exact Hne).
    unfold sec_exact. fold S.
    pose proof (Hsub s (RtoC 1)) as H1.
    assert (Hs_le : Cmod s <= Mf).
    { replace s with ((s - S) + S)%C by ring. eapply Rle_trans; [apply Cmod_triangle|]. lra. }
    assert (Hs1 : Cmod (s - RtoC 1)%C <= Mf + 1).
    { eapply Rle_trans; [apply Cmod_triangle|]. rewrite Cmod_opp, Cmod_1. lra. }
    replace (fsub A s (RtoC 1) - (S - RtoC 1))%C
      with ((fsub A s (RtoC 1) - (s - RtoC 1)) + (s - S))%C by ring.
    eapply Rle_trans; [apply Cmod_triangle|].
    assert (mu * Cmod (s - RtoC 1)%C <= mu * (Mf + 1)) by (apply Rmult_le_compat_l; lra).
    (* mu (Mf+1) + Mf - Sa <= (1+mu)(Mf+1) - (Sa+1) <= ((1+nu)(1+mu)^(n+1) - 1)(Sa+1) *)
    assert (Hp : 1 <= (1 + mu) ^ length ab) by (apply pow1_ge_1; lra).
    replace ((1 + mu) ^ (length ab + 1)) with ((1 + mu) ^ length ab * (1 + mu))
      by (rewrite pow_add; simpl; ring).
    set (g := (1 + nu) * (1 + mu) ^ length ab) in *.
    assert (Hg : 1 <= g) by (unfold g; nra).
    assert (HMg : Mf <= g * Sa) by (unfold g; lra).
    assert ((1 + mu) * (Mf + 1) <= (1 + mu) * (g * (Sa + 1))).
    { apply Rmult_le_compat_l; [lra|]. nra. }
    replace ((1 + nu) * ((1 + mu) ^ length ab * (1 + mu))) with (g * (1 + mu)) by (unfold g; ring).
    nra.
Qed.
