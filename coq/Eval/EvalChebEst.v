(* C14 -- the error estimate of mps_chebyshev_poly_meval.
   (1) AS CODED it is refuted: it never looks at the coefficients c_i, i >= 2, so for EVERY real arithmetic
       computing it, every declared unit and every accuracy delta > 0 of the complex arithmetic there is an
       input whose actual error exceeds it (scale c_2);
   (2) the REPAIRED estimate (majorant recurrence times |c_k|, fixes/C14_chebyshev_meval_estimate.patch)
       bounds the actual error under an explicit guard-bit hypothesis. *)
Require Import Reals List Lra Lia.
From Coquelicot Require Import Complex.
Require Import MPSV.Eval.EvalModel MPSV.Eval.EvalExact MPSV.Eval.EvalRounded MPSV.Eval.EvalSparse MPSV.Eval.EvalCheb.
Import ListNotations.
Local Open Scope R_scope.

(* ------------------------------------------------------------------ (2) repaired estimate *)
Lemma chebabs_loop_R_ge_0 : forall cs r t0 t1 acc, 0 <= r -> 0 <= t0 -> 0 <= t1 -> 0 <= acc ->
  0 <= chebabs_loop_R cs r t0 t1 acc.
Proof.
  induction cs as [|c cs IH]; intros r t0 t1 acc Hr Ht0 Ht1 Hac; cbn [chebabs_loop_R]; [exact Hac|].
  cbv zeta. assert (0 <= 2 * r * t1 + t0) by (pose proof (Rmult_le_pos _ _ Hr Ht1); lra).
  apply IH; try assumption. pose proof (Cmod_ge_0 c).
  pose proof (Rmult_le_pos (Cmod c) (2 * r * t1 + t0)). lra.
Qed.

Section Fixed.
  Variables (Ra : rarith) (eta : R).
  Hypothesis HR : rstd_model eta Ra.
  Hypothesis Heta1 : eta <= 1.

  Let Heta : 0 <= eta. Proof. destruct HR; assumption. Qed.
  Let rho := 1 - eta.
  Let Hrho : 0 <= rho <= 1. Proof. unfold rho. pose proof Heta. lra. Qed.
  Let Hradd : forall a b, 0 <= a -> 0 <= b -> rho * (a + b) <= radd Ra a b.
  Proof. destruct HR as (_ & H & _). intros a b Ha Hb. apply (H a b Ha Hb). Qed.
  Let Hrmul : forall a b, 0 <= a -> 0 <= b -> rho * (a * b) <= rmul Ra a b.
  Proof. destruct HR as (_ & _ & H & _). intros a b Ha Hb. apply (H a b Ha Hb). Qed.
  Let Hrmod : forall z, rho * Cmod z <= rmod Ra z.
  Proof. destruct HR as (_ & _ & _ & H). intros z. apply (H z). Qed.

  Lemma rho_le : forall k, 0 <= rho ^ k <= 1.
  Proof.
    intros k. pose proof Hrho. split; [apply pow_le; lra|].
    rewrite <- (pow1 k). apply pow_incr. lra.
  Qed.

  (* g a <= b with 0 <= g <= 1 and 0 <= a gives 0 <= b *)
  Lemma scaled_ge_0 : forall g a b, 0 <= g -> 0 <= a -> g * a <= b -> 0 <= b.
  Proof. intros g a b Hg Ha H. eapply Rle_trans; [|exact H]. apply Rmult_le_pos; assumption. Qed.

  (* one pass of the loop costs the factor rho^7 *)
  Lemma cheb_fix_loop_lower : forall cs r rh t0h t1h eh tau0 tau1 Sa g,
    0 <= g -> 0 <= r -> 0 <= tau0 -> 0 <= tau1 -> 0 <= Sa -> rho * r <= rh ->
    g * tau0 <= t0h -> g * tau1 <= t1h -> g * Sa <= eh ->
    g * rho ^ (7 * length cs) * chebabs_loop_R cs r tau0 tau1 Sa <= cheb_fix_loop Ra cs rh t0h t1h eh.
  Proof.
    induction cs as [|c cs IH]; intros r rh t0h t1h eh tau0 tau1 Sa g Hg Hr Ht0 Ht1 HSa Hrh H0 H1 He.
    - cbn [cheb_fix_loop chebabs_loop_R length]. rewrite Nat.mul_0_r, pow_O, Rmult_1_r. exact He.
    - cbn [cheb_fix_loop chebabs_loop_R]. cbv zeta.
      pose proof Hrho as Hq.
      assert (Hrh0 : 0 <= rh) by (apply (scaled_ge_0 rho r); lra).
      assert (Ht0h : 0 <= t0h) by (apply (scaled_ge_0 g tau0); assumption).
      assert (Ht1h : 0 <= t1h) by (apply (scaled_ge_0 g tau1); assumption).
      assert (Heh : 0 <= eh) by (apply (scaled_ge_0 g Sa); assumption).
      set (tau := 2 * r * tau1 + tau0).
      assert (Htau : 0 <= tau) by (unfold tau; pose proof (Rmult_le_pos _ _ Hr Ht1); lra).
      (* m1 = rmul rh t1h >= rho (rho r)(g tau1) *)
      pose proof (Hrmul rh t1h Hrh0 Ht1h) as M1. set (m1 := rmul Ra rh t1h) in *.
      assert (P1 : rho * rho * g * (r * tau1) <= m1).
      { eapply Rle_trans; [|exact M1].
        replace (rho * rho * g * (r * tau1)) with (rho * ((rho * r) * (g * tau1))) by ring.
        apply Rmult_le_compat_l; [lra|]. apply Rmult_le_compat; try lra;
          apply Rmult_le_pos; lra. }
      assert (Hrt : 0 <= r * tau1) by (apply Rmult_le_pos; assumption).
      assert (Hm1 : 0 <= m1).
      { eapply Rle_trans; [|exact P1]. apply Rmult_le_pos; [|exact Hrt].
        apply Rmult_le_pos; [apply Rmult_le_pos|]; lra. }
      pose proof (Hrmul m1 2 Hm1 ltac:(lra)) as M2. set (m2 := rmul Ra m1 2) in *.
      assert (P2 : rho * rho * rho * g * (2 * r * tau1) <= m2).
      { eapply Rle_trans; [|exact M2].
        replace (rho * rho * rho * g * (2 * r * tau1)) with (rho * ((rho * rho * g * (r * tau1)) * 2)) by ring.
        apply Rmult_le_compat_l; [lra|]. apply Rmult_le_compat_r; lra. }
      assert (Hm2 : 0 <= m2).
      { eapply Rle_trans; [|exact P2]. apply Rmult_le_pos; [|lra].
        apply Rmult_le_pos; [apply Rmult_le_pos; [apply Rmult_le_pos|]|]; lra. }
      pose proof (Hradd m2 t0h Hm2 Ht0h) as M3. set (th := radd Ra m2 t0h) in *.
      set (g4 := rho * rho * rho * rho * g).
      assert (Hg4 : 0 <= g4) by (unfold g4; repeat apply Rmult_le_pos; lra).
      assert (Hg4g : g4 <= g).
      { unfold g4. assert (rho * rho * rho * rho <= 1).
        { assert (rho * rho <= 1) by nra. assert (0 <= rho * rho) by nra. nra. }
        nra. }
      assert (P3 : g4 * tau <= th).
      { eapply Rle_trans; [|exact M3]. unfold g4, tau.
        replace (rho * rho * rho * rho * g * (2 * r * tau1 + tau0))
          with (rho * (rho * rho * rho * g * (2 * r * tau1) + rho * rho * rho * g * tau0)) by ring.
        apply Rmult_le_compat_l; [lra|].
        assert (rho * rho * rho * g * tau0 <= g * tau0).
        { assert (rho * rho * rho <= 1).
          { assert (rho * rho <= 1) by nra. assert (0 <= rho * rho) by nra. nra. }
          assert (0 <= g * tau0) by (apply Rmult_le_pos; assumption). nra. }
        lra. }
      assert (Hth : 0 <= th) by (apply (scaled_ge_0 g4 tau); assumption).
      (* the new estimate term *)
      pose proof (Hrmod c) as Mc. pose proof (Cmod_ge_0 c) as Hc0.
      assert (Hmc : 0 <= rmod Ra c) by (apply (scaled_ge_0 rho (Cmod c)); lra).
      pose proof (Hrmul (rmod Ra c) th Hmc Hth) as M4. set (m4 := rmul Ra (rmod Ra c) th) in *.
      assert (P4 : rho * rho * g4 * (Cmod c * tau) <= m4).
      { eapply Rle_trans; [|exact M4].
        replace (rho * rho * g4 * (Cmod c * tau)) with (rho * ((rho * Cmod c) * (g4 * tau))) by ring.
        apply Rmult_le_compat_l; [lra|]. apply Rmult_le_compat; try lra; apply Rmult_le_pos; lra. }
      assert (Hct : 0 <= Cmod c * tau) by (apply Rmult_le_pos; assumption).
      assert (Hm4 : 0 <= m4).
      { eapply Rle_trans; [|exact P4]. apply Rmult_le_pos; [|exact Hct].
        apply Rmult_le_pos; [apply Rmult_le_pos|]; lra. }
      pose proof (Hradd eh m4 Heh Hm4) as M5. set (e1 := radd Ra eh m4) in *.
      set (g7 := rho * rho * rho * g4).
      assert (Hg7 : 0 <= g7) by (unfold g7; repeat apply Rmult_le_pos; lra).
      assert (Hr3 : rho * rho * rho <= 1).
      { assert (rho * rho <= 1) by nra. assert (0 <= rho * rho) by nra. nra. }
      assert (Hr30 : 0 <= rho * rho * rho) by (repeat apply Rmult_le_pos; lra).
      assert (Hg7g4 : g7 <= g4) by (unfold g7; nra).
      assert (P5 : g7 * (Sa + Cmod c * tau) <= e1).
      { eapply Rle_trans; [|exact M5]. unfold g7.
        replace (rho * rho * rho * g4 * (Sa + Cmod c * tau))
          with (rho * (rho * rho * g4 * Sa + rho * rho * g4 * (Cmod c * tau))) by ring.
        apply Rmult_le_compat_l; [lra|].
        assert (rho * rho * g4 * Sa <= g * Sa).
        { assert (rho * rho <= 1) by nra. assert (0 <= rho * rho) by nra.
          assert (rho * rho * g4 <= g) by nra. apply Rmult_le_compat_r; assumption. }
        lra. }
      assert (HSa' : 0 <= Sa + Cmod c * tau) by lra.
      assert (Q0 : g7 * tau1 <= t1h).
      { eapply Rle_trans; [|exact H1]. apply Rmult_le_compat_r; lra. }
      assert (Q1 : g7 * tau <= th).
      { eapply Rle_trans; [|exact P3]. apply Rmult_le_compat_r; lra. }
      pose proof (IH r rh t1h th e1 tau1 tau (Sa + Cmod c * tau) g7 Hg7 Hr Ht1 Htau HSa' Hrh Q0 Q1 P5) as R.
      eapply Rle_trans; [|exact R]. apply Req_le. fold tau.
      cbn [length]. replace (7 * S (length cs))%nat with (7 + 7 * length cs)%nat by lia.
      rewrite pow_add. unfold g7, g4. simpl pow. ring.
  Qed.

  Theorem cheb_fix_est_lower : forall (ud : R) (cs : list C) (x : C), 0 <= ud ->
    rho ^ (7 * (length cs - 1)) * (ud * chebabs_R cs (Cmod x)) <= cheb_fix_est Ra ud cs x
    \/ (length cs <= 1)%nat.
  Proof.
    intros ud cs x Hud. destruct cs as [|c0 [|c1 rest]]; [right; simpl; lia|right; simpl; lia|left].
    cbn [cheb_fix_est chebabs_R]. cbv zeta.
    pose proof Hrho as Hq. set (r := Cmod x). pose proof (Cmod_ge_0 x) as Hr. fold r in Hr.
    pose proof (Hrmod x) as Mx. fold r in Mx. set (rh := rmod Ra x) in *.
    assert (Hrh0 : 0 <= rh) by (apply (scaled_ge_0 rho r); lra).
    pose proof (Cmod_ge_0 c0) as Hc0. pose proof (Cmod_ge_0 c1) as Hc1.
    pose proof (Hrmod c0) as M0. pose proof (Hrmod c1) as M1.
    assert (Hm0 : 0 <= rmod Ra c0) by (apply (scaled_ge_0 rho (Cmod c0)); lra).
    assert (Hm1 : 0 <= rmod Ra c1) by (apply (scaled_ge_0 rho (Cmod c1)); lra).
    pose proof (Hrmul (rmod Ra c1) rh Hm1 Hrh0) as M2. set (m2 := rmul Ra (rmod Ra c1) rh) in *.
    assert (P2 : rho * rho * rho * (Cmod c1 * r) <= m2).
    { eapply Rle_trans; [|exact M2].
      replace (rho * rho * rho * (Cmod c1 * r)) with (rho * ((rho * Cmod c1) * (rho * r))) by ring.
      apply Rmult_le_compat_l; [lra|]. apply Rmult_le_compat; try lra; apply Rmult_le_pos; lra. }
    assert (Hcr : 0 <= Cmod c1 * r) by (apply Rmult_le_pos; assumption).
    assert (Hm2 : 0 <= m2).
    { eapply Rle_trans; [|exact P2]. apply Rmult_le_pos; [|exact Hcr]. repeat apply Rmult_le_pos; lra. }
    pose proof (Hradd (rmod Ra c0) m2 Hm0 Hm2) as M3. set (e0 := radd Ra (rmod Ra c0) m2) in *.
    set (g := rho * rho * rho * rho).
    assert (Hr2 : 0 <= rho * rho <= 1) by nra.
    assert (Hg : 0 <= g <= 1) by (unfold g; nra).
    assert (P3 : g * (Cmod c0 + Cmod c1 * r) <= e0).
    { eapply Rle_trans; [|exact M3]. unfold g.
      replace (rho * rho * rho * rho * (Cmod c0 + Cmod c1 * r))
        with (rho * (rho * rho * (rho * Cmod c0) + rho * rho * rho * (Cmod c1 * r))) by ring.
      apply Rmult_le_compat_l; [lra|].
      assert (rho * rho * (rho * Cmod c0) <= rmod Ra c0).
      { assert (0 <= rho * Cmod c0) by (apply Rmult_le_pos; lra). nra. }
      lra. }
    assert (G0 : g * 1 <= 1) by lra.
    assert (G1 : g * r <= rh).
    { eapply Rle_trans; [|exact Mx]. unfold g.
      assert (rho * rho * rho <= 1) by nra. assert (0 <= rho * r) by (apply Rmult_le_pos; lra).
      replace (rho * rho * rho * rho * r) with (rho * rho * rho * (rho * r)) by ring. nra. }
    assert (HS0 : 0 <= Cmod c0 + Cmod c1 * r) by lra.
    pose proof (cheb_fix_loop_lower rest r rh 1 rh e0 1 r (Cmod c0 + Cmod c1 * r) g
                  (proj1 Hg) Hr ltac:(lra) Hr HS0 Mx G0 G1 P3) as L.
    set (F := cheb_fix_loop Ra rest rh 1 rh e0) in *.
    set (Cb := chebabs_loop_R rest r 1 r (Cmod c0 + Cmod c1 * r)) in *.
    assert (HCb : 0 <= Cb) by (unfold Cb; apply chebabs_loop_R_ge_0; lra).
    pose proof (rho_le (7 * length rest)) as [Hp0 Hp1].
    assert (HF : 0 <= F).
    { eapply Rle_trans; [|exact L]. apply Rmult_le_pos; [apply Rmult_le_pos; lra|exact HCb]. }
    pose proof (Hrmul F ud HF Hud) as M5.
    eapply Rle_trans; [|exact M5].
    cbn [length]. replace (S (S (length rest)) - 1)%nat with (S (length rest)) by lia.
    replace (7 * S (length rest))%nat with (7 * length rest + 7)%nat by lia. rewrite pow_add.
    replace (rho ^ 7) with (rho * (rho * rho * g)) by (unfold g; simpl; ring).
    replace (rho ^ (7 * length rest) * (rho * (rho * rho * g)) * (ud * Cb))
      with (rho * ((rho * rho) * (g * rho ^ (7 * length rest) * Cb) * ud)) by ring.
    apply Rmult_le_compat_l; [lra|]. apply Rmult_le_compat_r; [exact Hud|].
    assert (0 <= g * rho ^ (7 * length rest) * Cb).
    { apply Rmult_le_pos; [apply Rmult_le_pos; lra|exact HCb]. }
    nra.
  Qed.
End Fixed.

(* The repaired estimate bounds the actual error of mps_chebyshev_poly_meval PROVIDED the arithmetic
   really used has guard bits with respect to the declared unit ud = 4 n 2^-wp:
      (1+mu)^(4n) - 1 <= ud (1-eta)^(7n),   n = degree. *)
Theorem chebyshev_fixed_estimate_bounds_error :
  forall (A : arith) (Ra : rarith) (mu eta ud : R) (cs : list C) (x : C),
  std_model mu A -> rstd_model eta Ra -> eta <= 1 -> 0 <= ud ->
  (1 + mu) ^ (4 * (length cs - 1)) - 1 <= ud * (1 - eta) ^ (7 * (length cs - 1)) ->
  Cmod (cheb_fl A cs x - chebC cs x)%C <= cheb_fix_est Ra ud cs x.
Proof.
  intros A Ra mu eta ud cs x HA HR Heta1 Hud Hguard.
  pose proof (chebrec_apriori A mu HA cs x) as Herr.
  destruct (cheb_fix_est_lower Ra eta HR Heta1 ud cs x Hud) as [L|Hshort].
  - eapply Rle_trans; [exact Herr|]. eapply Rle_trans; [|exact L].
    assert (HC : 0 <= chebabs_R cs (Cmod x)).
    { destruct cs as [|c0 [|c1 rest]]; cbn [chebabs_R]; [lra|apply Cmod_ge_0|].
      pose proof (Cmod_ge_0 x). pose proof (Cmod_ge_0 c0). pose proof (Cmod_ge_0 c1).
      apply chebabs_loop_R_ge_0; try lra.
      pose proof (Rmult_le_pos (Cmod c1) (Cmod x)). lra. }
    replace ((1 - eta) ^ (7 * (length cs - 1)) * (ud * chebabs_R cs (Cmod x)))
      with (ud * (1 - eta) ^ (7 * (length cs - 1)) * chebabs_R cs (Cmod x)) by ring.
    apply Rmult_le_compat_r; assumption.
  - (* degree 0 (or no coefficient): the value is a copy, the error is 0 and so is the estimate *)
    destruct cs as [|c0 [|c1 rest]]; [| |simpl in Hshort; lia].
    + unfold cheb_fl, chebC. simpl. replace (RtoC 0 - RtoC 0)%C with (RtoC 0) by ring. rewrite Cmod_0. lra.
    + unfold cheb_fl, chebC. simpl.
      replace (c0 - (c0 * RtoC 1 + RtoC 0))%C with (RtoC 0) by ring. rewrite Cmod_0. lra.
Qed.

(* ------------------------------------------------------------------ (1) the coded estimate is refuted *)
Lemma Cmod_RtoC_minus : forall a b : R, Cmod (RtoC a - RtoC b)%C = Rabs (a - b).
Proof. intros a b. rewrite <- RtoC_minus. apply Cmod_R. Qed.

Lemma cheb_witness_value : forall delta K : R,
  cheb_fl (sarith delta) [RtoC 0; RtoC 0; RtoC K] (RtoC 1)
  = RtoC (K * ((2 * (1 + delta) ^ 3 - 1) * (1 + delta) ^ 3)).
Proof.
  intros delta K. unfold cheb_fl, cheb_eval, cheb_loop, ktwo, sarith. cbn [fadd fsub fmul].
  apply injective_projections; simpl; ring.
Qed.

Lemma cheb_witness_exact : forall K : R, chebC [RtoC 0; RtoC 0; RtoC K] (RtoC 1) = RtoC K.
Proof.
  intros K. unfold chebC, cheb_sum, chebT, ktwo. apply injective_projections; simpl; ring.
Qed.

(* the coded estimate does not depend on c_2 *)
Lemma cheb_est_indep : forall A Ra u2 K K' x,
  cheb_est_fl A Ra u2 [RtoC 0; RtoC 0; RtoC K] x = cheb_est_fl A Ra u2 [RtoC 0; RtoC 0; RtoC K'] x.
Proof. intros. reflexivity. Qed.

Theorem chebyshev_estimate_refuted : forall (delta u2 : R) (Ra : rarith), 0 < delta ->
  exists (cs : list C) (x : C), length cs = 3%nat /\
    cheb_est_fl (sarith delta) Ra u2 cs x < Cmod (cheb_fl (sarith delta) cs x - chebC cs x)%C.
Proof.
  intros delta u2 Ra Hd.
  set (E := cheb_est_fl (sarith delta) Ra u2 [RtoC 0; RtoC 0; RtoC 0] (RtoC 1)).
  set (K := Rabs E / delta + 1).
  exists [RtoC 0; RtoC 0; RtoC K], (RtoC 1). split; [reflexivity|].
  rewrite (cheb_est_indep _ _ _ K 0). fold E.
  rewrite cheb_witness_value, cheb_witness_exact, Cmod_RtoC_minus.
  set (s := 1 + delta). assert (Hs : 1 < s) by (unfold s; lra).
  assert (HK : 0 < K).
  { unfold K. pose proof (Rabs_pos E). assert (0 <= Rabs E / delta) by (unfold Rdiv; apply Rmult_le_pos; [lra|apply Rlt_le, Rinv_0_lt_compat; lra]). lra. }
  (* (2 s^3 - 1) s^3 - 1 = (s^3 - 1)(2 s^3 + 1) >= delta *)
  assert (Hs3 : 1 + 3 * delta <= s ^ 3).
  { unfold s. simpl. nra. }
  assert (Hf : delta <= (2 * s ^ 3 - 1) * s ^ 3 - 1).
  { set (c := s ^ 3) in *. nra. }
  replace (K * ((2 * s ^ 3 - 1) * s ^ 3) - K) with (K * ((2 * s ^ 3 - 1) * s ^ 3 - 1)) by ring.
  rewrite Rabs_pos_eq by (apply Rmult_le_pos; lra).
  assert (HKd : K * delta <= K * ((2 * s ^ 3 - 1) * s ^ 3 - 1)) by (apply Rmult_le_compat_l; lra).
  assert (HE : Rabs E + delta = K * delta).
  { unfold K. field. lra. }
  pose proof (Rle_abs E). lra.
Qed.
