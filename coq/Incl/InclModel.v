(* C08 - model of the search-set / attribute classification of MPSolve.
   Definitions only.  Anchors: src/libmps/common/inclusion.c (mps_{f,d,m}update_inclusions),
   common/modify.c (mps_cluster_detect_properties), system/input-output.c (mps_countroots, mps_output).

   The three update_inclusions functions have the same decision structure; they differ in the arithmetic of
   the touch tests and of the side tests (double / DPE / multiprecision), which is abstracted here into the
   boolean outcomes [obs] (one record per root and call).  The model is the code AFTER fixes/C08_imag_branch.patch
   (the IMAG branch braced like the REAL branch); [classify_imag_as_shipped] keeps the shipped bracing. *)
From Coq Require Import List Bool Arith.
Import ListNotations.

Inductive inclusion := UNKNOWN | IN | OUT.
Inductive attrs := A_NONE | A_REAL | A_NOT_REAL | A_IMAG.
Inductive search_set :=
  S_PLANE | S_UNIT | S_UNIT_COMPL | S_NEG_RE | S_POS_RE | S_NEG_IM | S_POS_IM | S_REAL | S_IMAG | S_CUSTOM.

Definition inclusion_eqb (a b : inclusion) : bool :=
  match a, b with UNKNOWN, UNKNOWN | IN, IN | OUT, OUT => true | _, _ => false end.

(* outcomes of the tests the code performs on one approximation (value, radius) *)
Record obs := mkObs {
  t_unit  : bool;   (* mps_*touchunit (s, 2n, i) *)
  t_imag  : bool;   (* mps_*touchimag (s, 2n, i) : the disc meets the imaginary axis *)
  t_real  : bool;   (* mps_*touchreal (s, 2n, i) *)
  t_real1 : bool;   (* mps_*touchreal (s, 1, i) *)
  t_imag1 : bool;   (* mps_*touchimag (s, 1, i) *)
  t_realn : bool;   (* mps_*touchreal (s, n, i)   (mps_cluster_detect_properties) *)
  t_imagn : bool;   (* mps_*touchimag (s, n, i) *)
  in_unit : bool;   (* side test of the centre: |z| < 1 (float), rdpe_le (|z|, 1) (dpe, mp) *)
  in_compl: bool;   (* |z| > 1, resp. rdpe_ge (|z|, 1) *)
  re_neg  : bool;   (* Re z < 0, resp. rdpe_le (Re z, 0) *)
  re_pos  : bool;
  im_neg  : bool;
  im_pos  : bool;
  small   : bool    (* log r < sep - n * lmax_coeff *)
}.

Definition side (touch inside : bool) : inclusion :=
  if touch then UNKNOWN else if inside then IN else OUT.

(* body of the switch for a root whose inclusion is still UNKNOWN; returns the new (inclusion, attrs).
   real_struct = MPS_STRUCTURE_IS_REAL (active_poly->structure), cn = cluster->n *)
Definition classify (st : search_set) (real_struct : bool) (cn : nat) (o : obs) (a : attrs)
  : inclusion * attrs :=
  match st with
  | S_PLANE => (IN, a)
  | S_UNIT => (side (t_unit o) (in_unit o), a)
  | S_UNIT_COMPL => (side (t_unit o) (in_compl o), a)
  | S_NEG_RE => (side (t_imag o) (re_neg o), a)
  | S_POS_RE => (side (t_imag o) (re_pos o), a)
  | S_NEG_IM => (side (t_real o) (im_neg o), a)
  | S_POS_IM => (side (t_real o) (im_pos o), a)
  | S_REAL =>
      if Nat.eqb cn 1 then
        if t_real1 o then (if real_struct || small o then (IN, A_REAL) else (UNKNOWN, a))
        else (OUT, A_NONE)
      else (UNKNOWN, a)
  | S_IMAG =>
      if Nat.eqb cn 1 then
        if t_imag1 o then (if small o then (IN, A_IMAG) else (UNKNOWN, a))
        else (OUT, A_NONE)
      else (UNKNOWN, a)
  | S_CUSTOM => (UNKNOWN, a)
  end.

(* the IMAG branch as shipped (before fixes/C08_imag_branch.patch) *)
Definition classify_imag_as_shipped (cn : nat) (o : obs) (a : attrs) : inclusion * attrs :=
  if Nat.eqb cn 1 then
    if t_imag1 o then (if small o then (IN, A_IMAG) else (OUT, A_NONE)) else (UNKNOWN, a)
  else (UNKNOWN, a).

(* state of a root: current inclusion and attrs; the first loop only touches UNKNOWN roots *)
Definition step (st : search_set) (real_struct : bool) (cn : nat) (o : obs) (s : inclusion * attrs)
  : inclusion * attrs :=
  match fst s with
  | UNKNOWN => classify st real_struct cn o (snd s)
  | _ => s
  end.

(* one cluster: first loop, then "if a cluster with an uncertain root is found reset all the roots in it" *)
Definition has_unknown (l : list (inclusion * attrs)) : bool :=
  existsb (fun s => inclusion_eqb (fst s) UNKNOWN) l.

Definition update_cluster (st : search_set) (real_struct : bool) (c : list (obs * (inclusion * attrs)))
  : list (inclusion * attrs) :=
  let cn := length c in
  let r := map (fun os => step st real_struct cn (fst os) (snd os)) c in
  if has_unknown r then map (fun s => (UNKNOWN, snd s)) r else r.

Definition update_inclusions (st : search_set) (real_struct : bool)
  (cl : list (list (obs * (inclusion * attrs)))) : list (list (inclusion * attrs)) :=
  map (update_cluster st real_struct) cl.

(* mps_cluster_detect_properties: detect_real / detect_imag = bits of output_config->root_properties *)
Definition detect_properties (detect_real detect_imag real_struct : bool) (cn : nat) (o : obs) (a : attrs) : attrs :=
  let a1 :=
    if detect_real then
      if Nat.eqb cn 1 then
        let a' := if real_struct then (if t_realn o then A_REAL else A_NOT_REAL) else a in
        if t_realn o && small o then A_REAL else a'
      else a
    else a in
  if detect_imag then (if t_imagn o && small o then A_IMAG else a1) else a1.

(* mps_countroots *)
Fixpoint count_incl (x : inclusion) (l : list inclusion) : nat :=
  match l with
  | [] => 0
  | y :: t => (if inclusion_eqb x y then 1 else 0) + count_incl x t
  end.

Definition is_compl (st : search_set) : bool := match st with S_UNIT_COMPL => true | _ => false end.

Definition countroots (st : search_set) (zero_roots : nat) (l : list inclusion) : nat * nat * nat :=
  let c0 := count_incl IN l in
  let c1 := count_incl OUT l in
  let c2 := count_incl UNKNOWN l in
  if is_compl st then (c0, c1 + zero_roots, c2) else (c0 + zero_roots, c1, c2).

(* mps_output (goal isolate / approximate): which roots are listed, in which order.
   None = a root at zero (ISZERO), Some i = root i; [order] = s->order. *)
Definition listing (st : search_set) (zero_roots : nat) (incl : nat -> inclusion) (order : list nat)
  : list (option nat) :=
  (if is_compl st then [] else repeat None zero_roots) ++
  map Some (filter (fun i => negb (inclusion_eqb (incl i) OUT)) order).
