(* C08 - the decision of the unit-circle touch tests (mps_ftouchunit, mps_dtouchunit) in exact real arithmetic, given the
   error bounds of the quantities the code computes.  u = unit roundoff (2^-53), N = n * r exactly, R = the computed n * r,
   Z = |z| exactly, A = the computed modulus, T1 = the computed R + 1, T2 = the computed R + A.  The code answers `no touch'
   when T1 < A or T2 < 1.  Pure real arithmetic (used by TouchUnitD.v for the DPE test and TouchUnitF.v for binary64). *)
From Coq Require Import Reals Lra.
From Flocq Require Import Core.
Local Open Scope R_scope.

(* radius not below 16 u (= 2^-49): the disc scaled by n - 1 is clear of the circle and the side read off the computed
   modulus is the side of the centre *)
Lemma unit_dec_real : forall u N r Z R A T1 T2,
  0 < u <= / 1048576 -> 16 * u <= r -> 2 * r <= N -> N * u <= r / 1048576 ->
  Rabs (R - N) <= u * N -> 0 <= Z -> 0 <= A -> Rabs (A - Z) <= 6 * u * Z + u ->
  Rabs (T1 - (R + 1)) <= 2 * u * (R + 1) -> Rabs (T2 - (R + A)) <= 2 * u * (R + A) ->
  T1 < A \/ T2 < 1 ->
  (N - r + 1 < Z /\ 1 < A) \/ (Z + (N - r) < 1 /\ A < 1).
Proof.
  intros u N r Z R A T1 T2 [U0 U1] Hr HN HW HR HZ A0 HA HT1 HT2 H.
  apply Rabs_le_inv in HR. apply Rabs_le_inv in HA. apply Rabs_le_inv in HT1. apply Rabs_le_inv in HT2.
  assert (r0 : 0 < r) by lra. assert (N0 : 0 < N) by lra.
  assert (W0 : 0 <= u * N) by (apply Rmult_le_pos; lra).
  assert (K4 : 0 <= u * (u * N)) by (apply Rmult_le_pos; lra).
  assert (K5 : 0 <= u * r <= r / 1048576).
  { split. apply Rmult_le_pos; lra. assert (u * r <= / 1048576 * r) by (apply Rmult_le_compat_r; lra). lra. }
  assert (UU : 0 <= u * u <= u / 1048576).
  { split. apply Rmult_le_pos; lra. assert (u * u <= / 1048576 * u) by (apply Rmult_le_compat_r; lra). lra. }
  assert (R0 : 0 <= R) by lra.
  assert (RL : 31 * u <= R) by lra.
  assert (uR : 0 <= u * R) by (apply Rmult_le_pos; lra).
  assert (K3 : (N - u * N) * (1 - 2 * u) <= R * (1 - 2 * u)) by (apply Rmult_le_compat_r; lra).
  destruct H as [H|H].
  - left. assert (A1 : 1 < A).
    { assert (u * R <= R / 1048576). { assert (u * R <= / 1048576 * R) by (apply Rmult_le_compat_r; lra). lra. } lra. }
    split; [|exact A1].
    destruct (Rlt_le_dec (N - r + 1) Z) as [|C]; [assumption|exfalso].
    assert (K1 : Z * (1 + 6 * u) <= (N - r + 1) * (1 + 6 * u)) by (apply Rmult_le_compat_r; lra).
    lra.
  - right.
    assert (uA : 0 <= u * A) by (apply Rmult_le_pos; lra).
    assert (A1 : A < 1).
    { assert (u * R <= R / 1048576). { assert (u * R <= / 1048576 * R) by (apply Rmult_le_compat_r; lra). lra. }
      destruct (Rlt_le_dec A 1) as [|C]; [assumption|exfalso].
      assert (1 * (1 - 2 * u) <= A * (1 - 2 * u)) by (apply Rmult_le_compat_r; lra).
      lra. }
    split; [|exact A1].
    destruct (Rlt_le_dec (Z + (N - r)) 1) as [|C]; [assumption|exfalso].
    assert (uZ : 0 <= u * Z) by (apply Rmult_le_pos; lra).
    assert (K6 : (Z - 6 * u * Z - u) * (1 - 2 * u) <= A * (1 - 2 * u)) by (apply Rmult_le_compat_r; lra).
    destruct (Rle_lt_dec 1 (N - r)) as [D|D].
    + assert (0 <= u * (u * Z)) by (apply Rmult_le_pos; lra).
      assert (u * Z <= Z / 1048576). { assert (u * Z <= / 1048576 * Z) by (apply Rmult_le_compat_r; lra). lra. }
      assert (u * (u * Z) <= u * Z / 1048576). { assert (u * (u * Z) <= / 1048576 * (u * Z)) by (apply Rmult_le_compat_r; lra). lra. }
      lra.
    + assert (K7 : (1 - N + r) * ((1 - 6 * u) * (1 - 2 * u)) <= Z * ((1 - 6 * u) * (1 - 2 * u))).
      { apply Rmult_le_compat_r; [|lra]. apply Rmult_le_pos; lra. }
      assert (0 <= u * (u * r)) by (apply Rmult_le_pos; lra).
      assert (u * (u * r) <= u * r / 1048576). { assert (u * (u * r) <= / 1048576 * (u * r)) by (apply Rmult_le_compat_r; lra). lra. }
      assert (u * (u * N) <= u * N / 1048576). { assert (u * (u * N) <= / 1048576 * (u * N)) by (apply Rmult_le_compat_r; lra). lra. }
      lra.
Qed.

(* radius below 16 u but the centre at least 32 u (= 2^-48) away from the circle: the disc itself is clear, side right *)
Lemma unit_dec_real_far : forall u r Z R A T1 T2,
  0 < u <= / 1048576 -> 0 <= r < 16 * u -> 32 * u <= Rabs (Z - 1) ->
  0 <= R -> 0 <= Z -> 0 <= A -> Rabs (A - Z) <= 6 * u * Z + u ->
  Rabs (T1 - (R + 1)) <= 2 * u * (R + 1) -> Rabs (T2 - (R + A)) <= 2 * u * (R + A) ->
  T1 < A \/ T2 < 1 ->
  (r + 1 < Z /\ 1 < A) \/ (Z + r < 1 /\ A < 1).
Proof.
  intros u r Z R A T1 T2 [U0 U1] [r0 r1] HZ1 R0 HZ A0 HA HT1 HT2 H.
  apply Rabs_le_inv in HA. apply Rabs_le_inv in HT1. apply Rabs_le_inv in HT2.
  assert (UU : 0 <= u * u <= u / 1048576).
  { split. apply Rmult_le_pos; lra. assert (u * u <= / 1048576 * u) by (apply Rmult_le_compat_r; lra). lra. }
  assert (uR : 0 <= u * R) by (apply Rmult_le_pos; lra).
  assert (uZ : 0 <= u * Z) by (apply Rmult_le_pos; lra).
  assert (uA : 0 <= u * A) by (apply Rmult_le_pos; lra).
  assert (uR1 : u * R <= R / 1048576). { assert (u * R <= / 1048576 * R) by (apply Rmult_le_compat_r; lra). lra. }
  assert (uZ1 : u * Z <= Z / 1048576). { assert (u * Z <= / 1048576 * Z) by (apply Rmult_le_compat_r; lra). lra. }
  assert (uA1 : u * A <= A / 1048576). { assert (u * A <= / 1048576 * A) by (apply Rmult_le_compat_r; lra). lra. }
  destruct H as [H|H].
  - left.
    (* Z > 1 - 10 u, hence Z >= 1 + 32 u *)
    assert (Zl : 1 - 10 * u < Z).
    { destruct (Rlt_le_dec (1 - 10 * u) Z) as [|C]; [assumption|exfalso].
      assert (Z * (1 + 6 * u) <= (1 - 10 * u) * (1 + 6 * u)) by (apply Rmult_le_compat_r; lra). lra. }
    assert (Zb : 1 + 32 * u <= Z).
    { unfold Rabs in HZ1. destruct (Rcase_abs (Z - 1)); lra. }
    split; [lra|].
    assert ((1 + 32 * u) * (1 - 6 * u) <= Z * (1 - 6 * u)) by (apply Rmult_le_compat_r; lra). lra.
  - right.
    assert (Al : A < 1 + 3 * u).
    { destruct (Rlt_le_dec A (1 + 3 * u)) as [|C]; [assumption|exfalso].
      assert ((1 + 3 * u) * (1 - 2 * u) <= A * (1 - 2 * u)) by (apply Rmult_le_compat_r; lra). lra. }
    assert (Zl : Z < 1 + 12 * u).
    { destruct (Rlt_le_dec Z (1 + 12 * u)) as [|C]; [assumption|exfalso].
      assert ((1 + 12 * u) * (1 - 6 * u) <= Z * (1 - 6 * u)) by (apply Rmult_le_compat_r; lra). lra. }
    assert (Zb : Z <= 1 - 32 * u).
    { unfold Rabs in HZ1. destruct (Rcase_abs (Z - 1)); lra. }
    split; [lra|].
    assert (Z * (1 + 6 * u) <= (1 - 32 * u) * (1 + 6 * u)) by (apply Rmult_le_compat_r; lra). lra.
Qed.

(* both regimes: for n >= 2 the answer `no touch' is right for the disc D(z, r) itself, and the side is right, unless
   BOTH r < 2^-49 and | |z| - 1 | < 2^-48 (where C08_ftouchunit_refuted / C08_dtouchunit_refuted live) *)
Lemma unit_dec_real_all : forall u N r Z R A T1 T2,
  0 < u <= / 1048576 -> 0 <= r -> 2 * r <= N -> N * u <= r / 1048576 ->
  Rabs (R - N) <= u * N -> 0 <= Z -> 0 <= A -> Rabs (A - Z) <= 6 * u * Z + u ->
  Rabs (T1 - (R + 1)) <= 2 * u * (R + 1) -> Rabs (T2 - (R + A)) <= 2 * u * (R + A) ->
  16 * u <= r \/ 32 * u <= Rabs (Z - 1) ->
  T1 < A \/ T2 < 1 ->
  (r + 1 < Z /\ 1 < A) \/ (Z + r < 1 /\ A < 1).
Proof.
  intros u N r Z R A T1 T2 U Hr HN HW HR HZ A0 HA HT1 HT2 Hreg H.
  destruct (Rle_lt_dec (16 * u) r) as [Hb|Hs].
  - destruct (unit_dec_real u N r Z R A T1 T2 U Hb HN HW HR HZ A0 HA HT1 HT2 H) as [[K1 K2]|[K1 K2]]; [left|right]; split; lra.
  - destruct Hreg as [Hreg|Hreg]; [lra|].
    assert (R0 : 0 <= R).
    { apply Rabs_le_inv in HR. assert (0 <= u * N) by (apply Rmult_le_pos; lra).
      assert (u * N <= / 1048576 * N) by (apply Rmult_le_compat_r; lra). lra. }
    apply (unit_dec_real_far u r Z R A T1 T2 U (conj Hr Hs) Hreg R0 HZ A0 HA HT1 HT2 H).
Qed.

(* ---------------------------------------------------------------- cplx_mod (floating-point/mt.c, builtin complex):
   |a| * sqrt (1 + (b/a)^2) with five roundings; u = unit roundoff, eta = the absolute error of a rounding that underflows;
   d = fl (b/a), e = fl (d*d), s = fl (1 + e), q = fl (sqrt s), ab = fl (|a| * q) *)
Lemma abs_sq_r : forall x : R, Rabs x * Rabs x = x * x.
Proof. intro x. unfold Rabs. destruct (Rcase_abs x); ring. Qed.

Lemma sqrt_close : forall s w, 1 <= s -> 1 <= w -> Rabs (sqrt s - sqrt w) <= Rabs (s - w) / 2.
Proof.
  intros s w Hs Hw. set (x := sqrt s). set (y := sqrt w).
  assert (Ex : x * x = s) by (apply sqrt_sqrt; lra). assert (Ey : y * y = w) by (apply sqrt_sqrt; lra).
  assert (X1 : 1 <= x). { unfold x. rewrite <- sqrt_1. apply sqrt_le_1_alt. exact Hs. }
  assert (Y1 : 1 <= y). { unfold y. rewrite <- sqrt_1. apply sqrt_le_1_alt. exact Hw. }
  rewrite <- Ex, <- Ey. replace (x * x - y * y) with ((x - y) * (x + y)) by ring.
  rewrite Rabs_mult, (Rabs_pos_eq (x + y)) by lra.
  pose proof (Rabs_pos (x - y)). clearbody x y. 
  assert (Rabs (x - y) * 2 <= Rabs (x - y) * (x + y)) by (apply Rmult_le_compat_l; lra). lra.
Qed.

Lemma cmod_real_err : forall u eta a t d e s q ab,
  0 < u <= / 1048576 -> 0 <= eta <= u * u -> 0 <= a -> Rabs t <= 1 ->
  Rabs (d - t) <= u * Rabs t + eta -> Rabs d <= 1 ->
  0 <= e -> Rabs (e - d * d) <= u * (d * d) + eta ->
  1 <= s -> Rabs (s - (1 + e)) <= u * (1 + e) ->
  Rabs (q - sqrt s) <= u * sqrt s ->
  Rabs (ab - a * q) <= u * (a * q) + eta ->
  Rabs (ab - a * sqrt (1 + t * t)) <= 6 * u * (a * sqrt (1 + t * t)) + eta.
Proof.
  intros u eta a t d e s q ab [U0 U1] [E0 E1] Ha Ht Hd Hd1 He0 He Hs1 Hs Hq Hab.
  assert (UU : 0 <= u * u <= u / 1048576).
  { split. apply Rmult_le_pos; lra. assert (u * u <= / 1048576 * u) by (apply Rmult_le_compat_r; lra). lra. }
  set (w := 1 + t * t). set (y := sqrt w).
  assert (T2 : 0 <= t * t <= 1).
  { rewrite <- (abs_sq_r t) at 1. rewrite <- (abs_sq_r t). pose proof (Rabs_pos t). split. apply Rmult_le_pos; lra.
    assert (Rabs t * Rabs t <= 1 * 1) by (apply Rmult_le_compat; lra). lra. }
  assert (W : 1 <= w <= 2) by (unfold w; lra).
  assert (D2 : 0 <= d * d <= 1).
  { rewrite <- (abs_sq_r d). pose proof (Rabs_pos d). split. apply Rmult_le_pos; lra.
    assert (Rabs d * Rabs d <= 1 * 1) by (apply Rmult_le_compat; lra). lra. }
  (* 1. d^2 vs t^2 *)
  assert (S1 : Rabs (d * d - t * t) <= 2 * (u + eta)).
  { replace (d * d - t * t) with ((d - t) * (d + t)) by ring. rewrite Rabs_mult.
    assert (Rabs (d - t) <= u + eta). { assert (u * Rabs t <= u * 1) by (apply Rmult_le_compat_l; lra). lra. }
    assert (Rabs (d + t) <= 2). { apply Rle_trans with (1 := Rabs_triang _ _). lra. }
    pose proof (Rabs_pos (d - t)). pose proof (Rabs_pos (d + t)).
    assert (Rabs (d - t) * Rabs (d + t) <= (u + eta) * 2) by (apply Rmult_le_compat; lra). lra. }
  (* 2. e vs t^2 *)
  assert (S2 : Rabs (e - t * t) <= 3 * u + 3 * eta).
  { replace (e - t * t) with ((e - d * d) + (d * d - t * t)) by ring. apply Rle_trans with (1 := Rabs_triang _ _).
    assert (u * (d * d) <= u * 1) by (apply Rmult_le_compat_l; lra). lra. }
  (* 3. s vs w *)
  assert (S3 : Rabs (s - w) <= 6 * u).
  { unfold w. replace (s - (1 + t * t)) with ((s - (1 + e)) + (e - t * t)) by ring. apply Rle_trans with (1 := Rabs_triang _ _).
    pose proof (Rabs_le_inv _ _ S2) as S2'.
    assert (u * (1 + e) <= u * (2 + 3 * u + 3 * eta)) by (apply Rmult_le_compat_l; lra).
    assert (0 <= u * eta <= u * (u * u)). { split. apply Rmult_le_pos; lra. apply Rmult_le_compat_l; lra. }
    assert (u * (u * u) <= u * (u / 1048576)) by (apply Rmult_le_compat_l; lra).
    lra. }
  (* 4. sqrt *)
  assert (S4 : Rabs (sqrt s - y) <= 3 * u).
  { unfold y. apply Rle_trans with (1 := sqrt_close s w Hs1 (proj1 W)). lra. }
  assert (Y : 1 <= y <= 3 / 2).
  { assert (Ey : y * y = w) by (apply sqrt_sqrt; lra). assert (0 <= y) by apply sqrt_pos. split.
    - unfold y. rewrite <- sqrt_1. apply sqrt_le_1_alt. lra.
    - destruct (Rle_lt_dec y (3 / 2)); [assumption|exfalso]. assert (3 / 2 * (3 / 2) <= y * y) by (apply Rmult_le_compat; lra). lra. }
  assert (S5 : Rabs (q - y) <= 46 / 10 * u).
  { replace (q - y) with ((q - sqrt s) + (sqrt s - y)) by ring. apply Rle_trans with (1 := Rabs_triang _ _).
    pose proof (Rabs_le_inv _ _ S4) as S4'. assert (u * sqrt s <= u * (3 / 2 + 3 * u)) by (apply Rmult_le_compat_l; lra). lra. }
  (* 5. the product *)
  apply Rabs_le_inv in S5.
  assert (Q : 0 <= q <= y * (1 + 46 / 10 * u)).
  { split; [lra|]. assert (46 / 10 * u * 1 <= 46 / 10 * u * y) by (apply Rmult_le_compat_l; lra). lra. }
  assert (AY : 0 <= a * y) by (apply Rmult_le_pos; lra).
  assert (AQ : a * q <= a * (y * (1 + 46 / 10 * u))) by (apply Rmult_le_compat_l; lra).
  assert (AQ0 : 0 <= a * q) by (apply Rmult_le_pos; lra).
  replace (ab - a * y) with ((ab - a * q) + a * (q - y)) by ring. apply Rle_trans with (1 := Rabs_triang _ _).
  rewrite Rabs_mult, (Rabs_pos_eq a) by assumption.
  assert (K1 : a * Rabs (q - y) <= a * (46 / 10 * u)) by (apply Rmult_le_compat_l; [assumption|apply Rabs_le; lra]).
  assert (K2 : a * (46 / 10 * u) <= a * y * (46 / 10 * u)).
  { assert (a * 1 <= a * y) by (apply Rmult_le_compat_l; lra). assert (0 <= 46 / 10 * u) by lra.
    assert (a * 1 * (46 / 10 * u) <= a * y * (46 / 10 * u)) by (apply Rmult_le_compat_r; lra). lra. }
  assert (K3 : u * (a * q) <= u * (a * (y * (1 + 46 / 10 * u)))) by (apply Rmult_le_compat_l; lra).
  assert (K4 : 0 <= a * y * (u * u) <= a * y * (u / 1048576)).
  { split. apply Rmult_le_pos; lra. apply Rmult_le_compat_l; lra. }
  lra.
Qed.

(* ---------------------------------------------------------------- the repaired tests (fixes/C08_funit_allowance.patch,
   fixes/C08_dunit_allowance.patch): the scaled radius is inflated by 8 DBL_EPSILON (ab + 1) = 16 u (ab + 1) before the two
   comparisons.  S = the computed A + 1, E = the computed 16 u S, R' = the computed R + E.  Only lower bounds of the computed
   quantities matter.  Conclusion: the FULL factor, N = n * r < | |z| - 1 |, for every n >= 1 and every radius. *)
Lemma umul : forall u X, 0 < u <= / 1048576 -> 0 <= X -> 0 <= u * X <= X / 1048576.
Proof.
  intros u X [U0 U1] HX. split. apply Rmult_le_pos; lra.
  assert (u * X <= / 1048576 * X) by (apply Rmult_le_compat_r; lra). lra.
Qed.

(* the repaired tests: rad' = fl (rad + 8 DBL_EPSILON (ab + 1)), i.e. E = 16 u S with S = fl (A + 1) *)
Lemma unit_dec_real_fixed : forall u eta N Z R A S E R' T1 T2,
  0 < u <= / 1048576 -> 0 <= eta <= u * u -> 0 <= N -> 0 <= Z -> 0 <= A -> 0 <= R ->
  N * (1 - u) - eta <= R ->
  Rabs (A - Z) <= 6 * u * Z + eta ->
  (A + 1) * (1 - 2 * u) <= S -> 16 * u * S * (1 - 2 * u) <= E ->
  (R + E) * (1 - 2 * u) <= R' -> (R' + 1) * (1 - 2 * u) <= T1 -> (R' + A) * (1 - 2 * u) <= T2 ->
  T1 < A \/ T2 < 1 ->
  (N + 1 < Z /\ 1 < A) \/ (Z + N < 1 /\ A < 1).
Proof.
  intros u eta N Z R A S E R' T1 T2 U [E0 E1] HN HZ A0 R0 HR HA HS HE HR' HT1 HT2 H.
  pose proof U as [U0 U1].
  apply Rabs_le_inv in HA.
  pose proof (umul u u U (Rlt_le _ _ U0)) as UU.
  pose proof (umul u N U HN) as uN. pose proof (umul u A U A0) as uA. pose proof (umul u Z U HZ) as uZ.
  pose proof (umul u eta U E0) as uE.
  pose proof (umul u (u * N) U (proj1 uN)) as uuN.
  (* S, E *)
  assert (S1 : (A + 1) * (1 - / 524288) <= S).
  { assert ((A + 1) * (1 - / 524288) <= (A + 1) * (1 - 2 * u)) by (apply Rmult_le_compat_l; lra). lra. }
  assert (S0 : 0 <= S) by lra.
  pose proof (umul u S U S0) as uS.
  assert (E2 : 1599 / 100 * (u + u * A) <= E).
  { assert (16 * u * ((A + 1) * (1 - / 524288)) <= 16 * u * S) by (apply Rmult_le_compat_l; lra).
    assert (0 <= 16 * u * S) by (apply Rmult_le_pos; lra).
    assert (16 * u * S * (1 - / 524288) <= 16 * u * S * (1 - 2 * u)) by (apply Rmult_le_compat_l; lra). lra. }
  assert (Ep : 0 <= E) by lra.
  pose proof (umul u E U Ep) as uEE.
  (* R' *)
  assert (K1 : (N * (1 - u) - eta) * (1 - 2 * u) <= R * (1 - 2 * u)) by (apply Rmult_le_compat_r; lra).
  assert (R'1 : N - 3 * (u * N) - eta + 99999 / 100000 * E <= R') by lra.
  assert (R'0 : 0 <= R').
  { assert (0 <= (R + E) * (1 - 2 * u)) by (apply Rmult_le_pos; lra). lra. }
  assert (R'15 : 15 * u <= R') by lra.
  pose proof (umul u R' U R'0) as uR'.
  destruct H as [H|H].
  - left.
    assert (A1 : 1 < A) by lra.
    split; [|exact A1].
    destruct (Rlt_le_dec (N + 1) Z) as [|C]; [assumption|exfalso].
    assert (K2 : (N - 3 * (u * N) - eta + 99999 / 100000 * E) * (1 - 2 * u) <= R' * (1 - 2 * u)) by (apply Rmult_le_compat_r; lra).
    assert (T1l : N + 1 - 5 * (u * N) - eta - 2 * u + 9999 / 10000 * E <= T1) by lra.
    assert (K3 : Z * (1 + 6 * u) <= (N + 1) * (1 + 6 * u)) by (apply Rmult_le_compat_r; lra).
    assert (K4 : u * (N + 1 - 5 * (u * N) - eta - 2 * u) <= u * A) by (apply Rmult_le_compat_l; lra).
    lra.
  - right.
    assert (A1 : A < 1) by lra.
    split; [|exact A1].
    destruct (Rlt_le_dec (Z + N) 1) as [|C]; [assumption|exfalso].
    assert (K3 : (1 - N) * (1 - 6 * u) <= Z * (1 - 6 * u)) by (apply Rmult_le_compat_r; lra).
    assert (K5 : (N - 3 * (u * N) - eta + 99999 / 100000 * E + A) * (1 - 2 * u) <= (R' + A) * (1 - 2 * u)) by (apply Rmult_le_compat_r; lra).
    lra.
Qed.
