(* C08 - the decision of the unit-circle touch tests (mps_ftouchunit, mps_dtouchunit) in exact real arithmetic, given the
   error bounds of the quantities the code computes.  u = unit roundoff (2^-53), N = n * r exactly, R = the computed n * r,
   Z = |z| exactly, A = the computed modulus, T1 = the computed R + 1, T2 = the computed R + A.  The code answers `no touch'
   when T1 < A or T2 < 1.  Pure real arithmetic (used by TouchUnitD.v for the DPE test and TouchUnitF.v for binary64). *)
From Coq Require Import Reals Lra.
From Flocq Require Import Core.
Local Open Scope R_scope.

(* radius not below 16 u (= 2^-49): the disc scaled by n - 1 is clear of the circle and the side read off the computed
   modulus is the side of the centre *)
Lemma unit_dec_real : forall u N r Z R A T1 T2,
  0 < u <= / 1048576 -> 16 * u <= r -> 2 * r <= N -> N * u <= r / 1048576 ->
  Rabs (R - N) <= u * N -> 0 <= Z -> 0 <= A -> Rabs (A - Z) <= 6 * u * Z + u ->
  Rabs (T1 - (R + 1)) <= 2 * u * (R + 1) -> Rabs (T2 - (R + A)) <= 2 * u * (R + A) ->
  T1 < A \/ T2 < 1 ->
  (N - r + 1 < Z /\ 1 < A) \/ (Z + (N - r) < 1 /\ A < 1).
Proof.
  intros u N r Z R A T1 T2 [U0 U1] Hr HN HW HR HZ A0 HA HT1 HT2 H.
  apply Rabs_le_inv in HR. apply Rabs_le_inv in HA. apply Rabs_le_inv in HT1. apply Rabs_le_inv in HT2.
  assert (r0 : 0 < r) by lra. assert (N0 : 0 < N) by lra.
  assert (W0 : 0 <= u * N) by (apply Rmult_le_pos; lra).
  assert (K4 : 0 <= u * (u * N)) by (apply Rmult_le_pos; lra).
  assert (K5 : 0 <= u * r <= r / 1048576).
  { split. apply Rmult_le_pos; lra. assert (u * r <= / 1048576 * r) by (apply Rmult_le_compat_r; lra). lra. }
  assert (UU : 0 <= u * u <= u / 1048576).
  { split. apply Rmult_le_pos; lra. assert (u * u <= / 1048576 * u) by (apply Rmult_le_compat_r; lra). lra. }
  assert (R0 : 0 <= R) by lra.
  assert (RL : 31 * u <= R) by lra.
  assert (uR : 0 <= u * R) by (apply Rmult_le_pos; lra).
  assert (K3 : (N - u * N) * (1 - 2 * u) <= R * (1 - 2 * u)) by (apply Rmult_le_compat_r; lra).
  destruct H as [H|H].
  - left. assert (A1 : 1 < A).
    { assert (u * R <= R / 1048576). { assert (u * R <= / 1048576 * R) by (apply Rmult_le_compat_r; lra). lra. } lra. }
    split; [|exact A1].
    destruct (Rlt_le_dec (N - r + 1) Z) as [|C]; [assumption|exfalso].
    assert (K1 : Z * (1 + 6 * u) <= (N - r + 1) * (1 + 6 * u)) by (apply Rmult_le_compat_r; lra).
    lra.
  - right.
    assert (uA : 0 <= u * A) by (apply Rmult_le_pos; lra).
    assert (A1 : A < 1).
    { assert (u * R <= R / 1048576). { assert (u * R <= / 1048576 * R) by (apply Rmult_le_compat_r; lra). lra. }
      destruct (Rlt_le_dec A 1) as [|C]; [assumption|exfalso].
      assert (1 * (1 - 2 * u) <= A * (1 - 2 * u)) by (apply Rmult_le_compat_r; lra).
      lra. }
    split; [|exact A1].
    destruct (Rlt_le_dec (Z + (N - r)) 1) as [|C]; [assumption|exfalso].
    assert (uZ : 0 <= u * Z) by (apply Rmult_le_pos; lra).
    assert (K6 : (Z - 6 * u * Z - u) * (1 - 2 * u) <= A * (1 - 2 * u)) by (apply Rmult_le_compat_r; lra).
    destruct (Rle_lt_dec 1 (N - r)) as [D|D].
    + assert (0 <= u * (u * Z)) by (apply Rmult_le_pos; lra).
      assert (u * Z <= Z / 1048576). { assert (u * Z <= / 1048576 * Z) by (apply Rmult_le_compat_r; lra). lra. }
      assert (u * (u * Z) <= u * Z / 1048576). { assert (u * (u * Z) <= / 1048576 * (u * Z)) by (apply Rmult_le_compat_r; lra). lra. }
      lra.
    + assert (K7 : (1 - N + r) * ((1 - 6 * u) * (1 - 2 * u)) <= Z * ((1 - 6 * u) * (1 - 2 * u))).
      { apply Rmult_le_compat_r; [|lra]. apply Rmult_le_pos; lra. }
      assert (0 <= u * (u * r)) by (apply Rmult_le_pos; lra).
      assert (u * (u * r) <= u * r / 1048576). { assert (u * (u * r) <= / 1048576 * (u * r)) by (apply Rmult_le_compat_r; lra). lra. }
      assert (u * (u * N) <= u * N / 1048576). { assert (u * (u * N) <= / 1048576 * (u * N)) by (apply Rmult_le_compat_r; lra). lra. }
      lra.
Qed.

(* radius below 16 u but the centre at least 32 u (= 2^-48) away from the circle: the disc itself is clear, side right *)
Lemma unit_dec_real_far : forall u r Z R A T1 T2,
  0 < u <= / 1048576 -> 0 <= r < 16 * u -> 32 * u <= Rabs (Z - 1) ->
  0 <= R -> 0 <= Z -> 0 <= A -> Rabs (A - Z) <= 6 * u * Z + u ->
  Rabs (T1 - (R + 1)) <= 2 * u * (R + 1) -> Rabs (T2 - (R + A)) <= 2 * u * (R + A) ->
  T1 < A \/ T2 < 1 ->
  (r + 1 < Z /\ 1 < A) \/ (Z + r < 1 /\ A < 1).
Proof.
  intros u r Z R A T1 T2 [U0 U1] [r0 r1] HZ1 R0 HZ A0 HA HT1 HT2 H.
  apply Rabs_le_inv in HA. apply Rabs_le_inv in HT1. apply Rabs_le_inv in HT2.
  assert (UU : 0 <= u * u <= u / 1048576).
  { split. apply Rmult_le_pos; lra. assert (u * u <= / 1048576 * u) by (apply Rmult_le_compat_r; lra). lra. }
  assert (uR : 0 <= u * R) by (apply Rmult_le_pos; lra).
  assert (uZ : 0 <= u * Z) by (apply Rmult_le_pos; lra).
  assert (uA : 0 <= u * A) by (apply Rmult_le_pos; lra).
  assert (uR1 : u * R <= R / 1048576). { assert (u * R <= / 1048576 * R) by (apply Rmult_le_compat_r; lra). lra. }
  assert (uZ1 : u * Z <= Z / 1048576). { assert (u * Z <= / 1048576 * Z) by (apply Rmult_le_compat_r; lra). lra. }
  assert (uA1 : u * A <= A / 1048576). { assert (u * A <= / 1048576 * A) by (apply Rmult_le_compat_r; lra). lra. }
  destruct H as [H|H].
  - left.
    (* Z > 1 - 10 u, hence Z >= 1 + 32 u *)
    assert (Zl : 1 - 10 * u < Z).
    { destruct (Rlt_le_dec (1 - 10 * u) Z) as [|C]; [assumption|exfalso].
      assert (Z * (1 + 6 * u) <= (1 - 10 * u) * (1 + 6 * u)) by (apply Rmult_le_compat_r; lra). lra. }
    assert (Zb : 1 + 32 * u <= Z).
    { unfold Rabs in HZ1. destruct (Rcase_abs (Z - 1)); lra. }
    split; [lra|].
    assert ((1 + 32 * u) * (1 - 6 * u) <= Z * (1 - 6 * u)) by (apply Rmult_le_compat_r; lra). lra.
  - right.
    assert (Al : A < 1 + 3 * u).
    { destruct (Rlt_le_dec A (1 + 3 * u)) as [|C]; [assumption|exfalso].
      assert ((1 + 3 * u) * (1 - 2 * u) <= A * (1 - 2 * u)) by (apply Rmult_le_compat_r; lra). lra. }
    assert (Zl : Z < 1 + 12 * u).
    { destruct (Rlt_le_dec Z (1 + 12 * u)) as [|C]; [assumption|exfalso].
      assert ((1 + 12 * u) * (1 - 6 * u) <= Z * (1 - 6 * u)) by (apply Rmult_le_compat_r; lra). lra. }
    assert (Zb : Z <= 1 - 32 * u).
    { unfold Rabs in HZ1. destruct (Rcase_abs (Z - 1)); lra. }
    split; [lra|].
    assert (Z * (1 + 6 * u) <= (1 - 32 * u) * (1 + 6 * u)) by (apply Rmult_le_compat_r; lra). lra.
Qed.

(* both regimes: for n >= 2 the answer `no touch' is right for the disc D(z, r) itself, and the side is right, unless
   BOTH r < 2^-49 and | |z| - 1 | < 2^-48 (where C08_ftouchunit_refuted / C08_dtouchunit_refuted live) *)
Lemma unit_dec_real_all : forall u N r Z R A T1 T2,
  0 < u <= / 1048576 -> 0 <= r -> 2 * r <= N -> N * u <= r / 1048576 ->
  Rabs (R - N) <= u * N -> 0 <= Z -> 0 <= A -> Rabs (A - Z) <= 6 * u * Z + u ->
  Rabs (T1 - (R + 1)) <= 2 * u * (R + 1) -> Rabs (T2 - (R + A)) <= 2 * u * (R + A) ->
  16 * u <= r \/ 32 * u <= Rabs (Z - 1) ->
  T1 < A \/ T2 < 1 ->
  (r + 1 < Z /\ 1 < A) \/ (Z + r < 1 /\ A < 1).
Proof.
  intros u N r Z R A T1 T2 U Hr HN HW HR HZ A0 HA HT1 HT2 Hreg H.
  destruct (Rle_lt_dec (16 * u) r) as [Hb|Hs].
  - destruct (unit_dec_real u N r Z R A T1 T2 U Hb HN HW HR HZ A0 HA HT1 HT2 H) as [[K1 K2]|[K1 K2]]; [left|right]; split; lra.
  - destruct Hreg as [Hreg|Hreg]; [lra|].
    assert (R0 : 0 <= R).
    { apply Rabs_le_inv in HR. assert (0 <= u * N) by (apply Rmult_le_pos; lra).
      assert (u * N <= / 1048576 * N) by (apply Rmult_le_compat_r; lra). lra. }
    apply (unit_dec_real_far u r Z R A T1 T2 U (conj Hr Hs) Hreg R0 HZ A0 HA HT1 HT2 H).
Qed.
