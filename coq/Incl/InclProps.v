(* C08 - soundness of the classification model with respect to exact geometry (stdlib Reals). *)
From Coq Require Import Reals Lra Lia List Bool Arith.
Require Import MPSV.Incl.InclModel MPSV.Incl.InclGeom.
Import ListNotations.
Local Open Scope R_scope.

(* strictly inside / strictly outside the search set *)
Definition in_set (st : search_set) (x y : R) : Prop :=
  match st with
  | S_PLANE => True
  | S_UNIT => x * x + y * y < 1
  | S_UNIT_COMPL => 1 < x * x + y * y
  | S_NEG_RE => x < 0
  | S_POS_RE => 0 < x
  | S_NEG_IM => y < 0
  | S_POS_IM => 0 < y
  | S_REAL => y = 0
  | S_IMAG => x = 0
  | S_CUSTOM => False
  end.

Definition out_set (st : search_set) (x y : R) : Prop :=
  match st with
  | S_PLANE => False
  | S_UNIT => 1 < x * x + y * y
  | S_UNIT_COMPL => x * x + y * y < 1
  | S_NEG_RE => 0 < x
  | S_POS_RE => x < 0
  | S_NEG_IM => 0 < y
  | S_POS_IM => y < 0
  | S_REAL => y <> 0
  | S_IMAG => x <> 0
  | S_CUSTOM => False
  end.

(* what the boolean outcomes must mean for the approximation (zr + i zi, r) and the factor nf = 2n.
   The side tests may be strict (double) or not (DPE): only the weak reading is needed, the strictness
   comes from the touch test. *)
Record obs_sound (nf zr zi r : R) (o : obs) : Prop := {
  os_unit : t_unit o = false ->
            (nf * r + 1) * (nf * r + 1) < zr * zr + zi * zi \/
            (nf * r < 1 /\ zr * zr + zi * zi < (1 - nf * r) * (1 - nf * r));
  os_in_unit_t : in_unit o = true -> zr * zr + zi * zi <= 1;
  os_in_unit_f : in_unit o = false -> 1 <= zr * zr + zi * zi;
  os_in_compl_t : in_compl o = true -> 1 <= zr * zr + zi * zi;
  os_in_compl_f : in_compl o = false -> zr * zr + zi * zi <= 1;
  os_imag : t_imag o = false -> nf * r < Rabs zr;
  os_real : t_real o = false -> nf * r < Rabs zi;
  os_imag1 : t_imag1 o = false -> r < Rabs zr;
  os_real1 : t_real1 o = false -> r < Rabs zi;
  os_re_neg_t : re_neg o = true -> zr <= 0;  os_re_neg_f : re_neg o = false -> 0 <= zr;
  os_re_pos_t : re_pos o = true -> 0 <= zr;  os_re_pos_f : re_pos o = false -> zr <= 0;
  os_im_neg_t : im_neg o = true -> zi <= 0;  os_im_neg_f : im_neg o = false -> 0 <= zi;
  os_im_pos_t : im_pos o = true -> 0 <= zi;  os_im_pos_f : im_pos o = false -> zi <= 0
}.

Definition claim_ok (st : search_set) (s : inclusion * attrs) (x y : R) : Prop :=
  (fst s = IN -> in_set st x y) /\ (fst s = OUT -> out_set st x y).

Ltac side_tac := unfold side; repeat match goal with |- context [if ?b then _ else _] => destruct b eqn:? end;
                 simpl; split; intro; try discriminate.

Lemma unit_cases : forall nf zr zi r o x y, 1 <= nf -> 0 <= r -> obs_sound nf zr zi r o -> in_disc zr zi r x y ->
  t_unit o = false ->
  (zr * zr + zi * zi <= 1 -> x * x + y * y < 1) /\ (1 <= zr * zr + zi * zi -> 1 < x * x + y * y).
Proof.
  intros nf zr zi r o x y Hnf Hr Hs Hd Ht.
  assert (Hnr : 0 <= nf * r) by nra.
  destruct (os_unit _ _ _ _ _ Hs Ht) as [Hout | [Hlt Hin]].
  - pose proof (touch_unit_out_sound _ _ _ _ _ _ Hnf Hr Hout Hd). split; intro; [exfalso; nra | assumption].
  - pose proof (touch_unit_in_sound _ _ _ _ _ _ Hnf Hr Hlt Hin Hd). split; intro; [assumption | exfalso; nra].
Qed.

Lemma axis_cases : forall c r nf v, 1 <= nf -> 0 <= r -> nf * r < Rabs c -> Rabs (v - c) <= r ->
  (c <= 0 -> v < 0) /\ (0 <= c -> 0 < v).
Proof.
  intros c r nf v Hnf Hr Ht Hv. destruct (touch_axis_sound c r nf v Hnf Hr Ht Hv) as (Hp & Hn & Hz).
  split; intro; [apply Hn | apply Hp]; lra.
Qed.

(* one root, one call of the switch *)
Lemma classify_sound : forall st rs cn o a nf zr zi r x y,
  1 <= nf -> 0 <= r -> obs_sound nf zr zi r o -> in_disc zr zi r x y ->
  (t_real1 o = true -> (rs || small o) = true -> cn = 1%nat -> y = 0) ->
  (t_imag1 o = true -> small o = true -> cn = 1%nat -> x = 0) ->
  claim_ok st (classify st rs cn o a) x y.
Proof.
  intros st rs cn o a nf zr zi r x y Hnf Hr Hs Hd Wr Wi.
  destruct (in_disc_coord _ _ _ _ _ Hr Hd) as [Hx Hy].
  unfold claim_ok. destruct st; simpl.
  - split; intro; [exact I | discriminate].
  - destruct (t_unit o) eqn:Ht; simpl; [split; intro; discriminate|].
    destruct (unit_cases _ _ _ _ _ _ _ Hnf Hr Hs Hd Ht) as [Hi Ho].
    destruct (in_unit o) eqn:Hb; simpl; split; intro; try discriminate.
    + apply Hi. apply (os_in_unit_t _ _ _ _ _ Hs Hb).
    + apply Ho. apply (os_in_unit_f _ _ _ _ _ Hs Hb).
  - destruct (t_unit o) eqn:Ht; simpl; [split; intro; discriminate|].
    destruct (unit_cases _ _ _ _ _ _ _ Hnf Hr Hs Hd Ht) as [Hi Ho].
    destruct (in_compl o) eqn:Hb; simpl; split; intro; try discriminate.
    + apply Ho. apply (os_in_compl_t _ _ _ _ _ Hs Hb).
    + apply Hi. apply (os_in_compl_f _ _ _ _ _ Hs Hb).
  - destruct (t_imag o) eqn:Ht; simpl; [split; intro; discriminate|].
    destruct (axis_cases zr r nf x Hnf Hr (os_imag _ _ _ _ _ Hs Ht) Hx) as [Hn Hp].
    destruct (re_neg o) eqn:Hb; simpl; split; intro; try discriminate.
    + apply Hn. apply (os_re_neg_t _ _ _ _ _ Hs Hb).
    + apply Hp. apply (os_re_neg_f _ _ _ _ _ Hs Hb).
  - destruct (t_imag o) eqn:Ht; simpl; [split; intro; discriminate|].
    destruct (axis_cases zr r nf x Hnf Hr (os_imag _ _ _ _ _ Hs Ht) Hx) as [Hn Hp].
    destruct (re_pos o) eqn:Hb; simpl; split; intro; try discriminate.
    + apply Hp. apply (os_re_pos_t _ _ _ _ _ Hs Hb).
    + apply Hn. apply (os_re_pos_f _ _ _ _ _ Hs Hb).
  - destruct (t_real o) eqn:Ht; simpl; [split; intro; discriminate|].
    destruct (axis_cases zi r nf y Hnf Hr (os_real _ _ _ _ _ Hs Ht) Hy) as [Hn Hp].
    destruct (im_neg o) eqn:Hb; simpl; split; intro; try discriminate.
    + apply Hn. apply (os_im_neg_t _ _ _ _ _ Hs Hb).
    + apply Hp. apply (os_im_neg_f _ _ _ _ _ Hs Hb).
  - destruct (t_real o) eqn:Ht; simpl; [split; intro; discriminate|].
    destruct (axis_cases zi r nf y Hnf Hr (os_real _ _ _ _ _ Hs Ht) Hy) as [Hn Hp].
    destruct (im_pos o) eqn:Hb; simpl; split; intro; try discriminate.
    + apply Hp. apply (os_im_pos_t _ _ _ _ _ Hs Hb).
    + apply Hn. apply (os_im_pos_f _ _ _ _ _ Hs Hb).
  - destruct (Nat.eqb cn 1) eqn:Hc; simpl; [|split; intro; discriminate].
    apply Nat.eqb_eq in Hc.
    destruct (t_real1 o) eqn:Ht.
    + destruct (rs || small o) eqn:Hb; simpl; split; intro; try discriminate. apply Wr; auto.
    + simpl. split; intro; try discriminate.
      assert (H1 : 1 * r < Rabs zi) by (pose proof (os_real1 _ _ _ _ _ Hs Ht); lra).
      destruct (touch_axis_sound zi r 1 y (Rle_refl 1) Hr H1 Hy) as (Hp & Hn & Hz).
      destruct (Rtotal_order zi 0) as [Hl | [He | Hg]]; [specialize (Hn Hl) | contradiction | specialize (Hp Hg)]; lra.
  - destruct (Nat.eqb cn 1) eqn:Hc; simpl; [|split; intro; discriminate].
    apply Nat.eqb_eq in Hc.
    destruct (t_imag1 o) eqn:Ht.
    + destruct (small o) eqn:Hb; simpl; split; intro; try discriminate. apply Wi; auto.
    + simpl. split; intro; try discriminate.
      assert (H1 : 1 * r < Rabs zr) by (pose proof (os_imag1 _ _ _ _ _ Hs Ht); lra).
      destruct (touch_axis_sound zr r 1 x (Rle_refl 1) Hr H1 Hx) as (Hp & Hn & Hz).
      destruct (Rtotal_order zr 0) as [Hl | [He | Hg]]; [specialize (Hn Hl) | contradiction | specialize (Hp Hg)]; lra.
  - split; intro; discriminate.
Qed.

(* a member of a cluster: approximation (zr, zi, r), outcomes of its tests, current state *)
Record member := mkMember { m_zr : R; m_zi : R; m_r : R; m_obs : obs; m_state : inclusion * attrs }.

Definition proj (m : member) : obs * (inclusion * attrs) := (m_obs m, m_state m).

(* what is assumed of each member: tests justified by geometry, previous classification sound, and the
   reality / imaginarity witnesses for the two "line" sets (discharged by real_root_of_unique, resp. assumed
   for the separation-bound branch) *)
Definition member_ok (st : search_set) (rs : bool) (nf : R) (cn : nat) (m : member) : Prop :=
  0 <= m_r m /\ obs_sound nf (m_zr m) (m_zi m) (m_r m) (m_obs m) /\
  forall x y, in_disc (m_zr m) (m_zi m) (m_r m) x y ->
    claim_ok st (m_state m) x y /\
    (t_real1 (m_obs m) = true -> (rs || small (m_obs m)) = true -> cn = 1%nat -> y = 0) /\
    (t_imag1 (m_obs m) = true -> small (m_obs m) = true -> cn = 1%nat -> x = 0).

Definition member_claim (st : search_set) (m : member) (s : inclusion * attrs) : Prop :=
  forall x y, in_disc (m_zr m) (m_zi m) (m_r m) x y -> claim_ok st s x y.

Lemma step_sound : forall st rs nf cn m, 1 <= nf -> member_ok st rs nf cn m ->
  member_claim st m (step st rs cn (m_obs m) (m_state m)).
Proof.
  intros st rs nf cn m Hnf (Hr & Hs & Hall) x y Hd. destruct (Hall x y Hd) as (Hprev & Wr & Wi).
  unfold step. destruct (fst (m_state m)) eqn:Hf.
  - eapply classify_sound; eauto.
  - exact Hprev.
  - exact Hprev.
Qed.

Lemma Forall2_map_step : forall st rs nf cn (c : list member), 1 <= nf ->
  Forall (member_ok st rs nf cn) c ->
  Forall2 (member_claim st) c (map (fun os => step st rs cn (fst os) (snd os)) (map proj c)).
Proof.
  intros st rs nf cn c Hnf H. induction H as [|m t Hm Ht IH]; simpl; constructor; auto.
  apply (step_sound st rs nf cn m Hnf Hm).
Qed.

Lemma Forall2_reset : forall st (c : list member) (l : list (inclusion * attrs)),
  length c = length l -> Forall2 (member_claim st) c (map (fun s => (UNKNOWN, snd s)) l).
Proof.
  intros st c. induction c as [|m t IH]; intros [|s l] Hlen; simpl in *; try discriminate; constructor.
  - intros x y _. split; simpl; intro; discriminate.
  - apply IH. lia.
Qed.

Theorem update_cluster_sound : forall st rs nf (c : list member), 1 <= nf ->
  Forall (member_ok st rs nf (length c)) c ->
  Forall2 (member_claim st) c (update_cluster st rs (map proj c)).
Proof.
  intros st rs nf c Hnf H. unfold update_cluster. rewrite map_length.
  destruct (has_unknown _) eqn:Hu.
  - apply Forall2_reset. rewrite !map_length. reflexivity.
  - apply (Forall2_map_step st rs nf (length c) c Hnf H).
Qed.

(* clusters with an UNKNOWN member are reset as a whole *)
Theorem update_cluster_all_or_nothing : forall st rs c,
  (forall s, In s (update_cluster st rs c) -> fst s = UNKNOWN) \/
  (forall s, In s (update_cluster st rs c) -> fst s <> UNKNOWN).
Proof.
  intros st rs c. unfold update_cluster.
  destruct (has_unknown _) eqn:Hu.
  - left. intros s Hin. apply in_map_iff in Hin. destruct Hin as (s0 & <- & _). reflexivity.
  - right. intros s Hin Heq. unfold has_unknown in Hu.
    assert (existsb (fun s0 => inclusion_eqb (fst s0) UNKNOWN) (map (fun os => step st rs (length c) (fst os) (snd os)) c) = true).
    { apply existsb_exists. exists s. split; auto. rewrite Heq. reflexivity. }
    congruence.
Qed.

(* --------------------------------------------------------------------------- counting and listing *)
Lemma count_partition : forall l, (count_incl IN l + count_incl OUT l + count_incl UNKNOWN l = length l)%nat.
Proof. induction l as [|x t IH]; simpl; [reflexivity|]. destruct x; simpl; lia. Qed.

Theorem countroots_sum : forall st zr l,
  (let '(c0, c1, c2) := countroots st zr l in c0 + c1 + c2 = length l + zr)%nat.
Proof.
  intros st zr l. unfold countroots. pose proof (count_partition l). destruct (is_compl st); lia.
Qed.

Theorem countroots_zero_roots : forall st zr l,
  (let '(c0, c1, c2) := countroots st zr l in
   c2 = count_incl UNKNOWN l /\
   (is_compl st = true -> c0 = count_incl IN l /\ c1 = count_incl OUT l + zr) /\
   (is_compl st = false -> c0 = count_incl IN l + zr /\ c1 = count_incl OUT l))%nat.
Proof. intros st zr l. unfold countroots. destruct (is_compl st); repeat split; intros; try discriminate; reflexivity. Qed.

Theorem listing_omits_exactly_out : forall st zr incl order i,
  In (Some i) (listing st zr incl order) <-> In i order /\ incl i <> OUT.
Proof.
  intros st zr incl order i. unfold listing. rewrite in_app_iff. split.
  - intros [H | H].
    + destruct (is_compl st); [destruct H|]. apply repeat_spec in H. discriminate.
    + apply in_map_iff in H. destruct H as (j & Hj & Hin). inversion Hj; subst. apply filter_In in Hin.
      destruct Hin as [Hin Hb]. split; auto. intro He. rewrite He in Hb. discriminate.
  - intros [Hin Hne]. right. apply in_map. apply filter_In. split; auto. destruct (incl i); simpl; congruence.
Qed.

Lemma filter_count : forall (incl : nat -> inclusion) order,
  (length (filter (fun i => negb (inclusion_eqb (incl i) OUT)) order) + count_incl OUT (map incl order) = length order)%nat.
Proof.
  induction order as [|i t IH]; simpl; [reflexivity|]. destruct (incl i); simpl; lia.
Qed.

Theorem listing_length : forall st zr incl order,
  (length (listing st zr incl order) + count_incl OUT (map incl order)
   = (if is_compl st then 0 else zr) + length order)%nat.
Proof.
  intros. unfold listing. rewrite app_length, map_length. pose proof (filter_count incl order).
  destruct (is_compl st); simpl; [lia|]. rewrite repeat_length. lia.
Qed.

(* --------------------------------------------------------------------------- attributes *)
Definition attrs_sound (a : attrs) (x y : R) : Prop :=
  match a with A_NONE => True | A_REAL => y = 0 | A_NOT_REAL => y <> 0 | A_IMAG => x = 0 end.

Theorem detect_properties_sound : forall dr di rs cn o a n zr zi r x y,
  1 <= n -> 0 <= r -> in_disc zr zi r x y ->
  (t_realn o = false -> n * r < Rabs zi) ->
  attrs_sound a x y ->
  (t_realn o = true -> (rs || small o) = true -> cn = 1%nat -> y = 0) ->
  (t_imagn o = true -> small o = true -> x = 0) ->
  attrs_sound (detect_properties dr di rs cn o a) x y.
Proof.
  intros dr di rs cn o a n zr zi r x y Hn Hr Hd Ht Ha Wr Wi.
  destruct (in_disc_coord _ _ _ _ _ Hr Hd) as [Hx Hy].
  unfold detect_properties.
  assert (H1 : attrs_sound
    (if dr then if Nat.eqb cn 1 then
       if t_realn o && small o then A_REAL else (if rs then if t_realn o then A_REAL else A_NOT_REAL else a)
     else a else a) x y).
  { destruct dr; auto. destruct (Nat.eqb cn 1) eqn:Hc; auto. apply Nat.eqb_eq in Hc.
    destruct (t_realn o) eqn:Htr; simpl.
    - destruct (small o) eqn:Hsm; simpl.
      + apply Wr; auto. apply orb_true_r.
      + destruct rs; simpl; auto.
    - destruct rs; simpl; auto.
      destruct (touch_axis_sound zi r n y Hn Hr (Ht eq_refl) Hy) as (Hp & Hnn & Hz).
      destruct (Rtotal_order zi 0) as [Hl | [He | Hg]]; [specialize (Hnn Hl) | contradiction | specialize (Hp Hg)]; lra. }
  destruct di; auto.
  destruct (t_imagn o && small o) eqn:Hb; auto.
  apply andb_true_iff in Hb. destruct Hb. simpl. apply Wi; auto.
Qed.

(* --------------------------------------------------------------------------- reality of an isolated root *)
(* touching with factor f: |Im z| <= f r; the root is the only one in D(z, (1 + 2 f) r) *)
Theorem real_flag_sound : forall p zr zi r f x y,
  0 <= r -> 0 <= f -> Rabs zi <= f * r ->
  is_root p x y -> in_disc zr zi r x y ->
  (forall x' y', is_root p x' y' -> in_disc zr zi ((1 + 2 * f) * r) x' y' -> x' = x /\ y' = y) ->
  y = 0.
Proof.
  intros p zr zi r f x y Hr Hf Ht Hroot Hd Huniq.
  apply (real_root_of_unique p zr zi r x y Hr Hroot Hd).
  intros x' y' Hr' Hd'. apply Huniq; auto.
  apply (in_disc_mono zr zi (r + 2 * Rabs zi)); auto.
  - pose proof (Rabs_pos zi). lra.
  - nra.
Qed.

(* the separation-bound branch, with the bound as an explicit hypothesis: every non-real root of the
   polynomial has |Im| > B, and the radius test guarantees (f + 1) r <= B *)
Theorem sep_branch_real : forall zr zi r f B x y,
  0 <= r -> in_disc zr zi r x y -> Rabs zi <= f * r -> (f + 1) * r <= B ->
  (y <> 0 -> B < Rabs y) -> y = 0.
Proof.
  intros zr zi r f B x y Hr Hd Ht Hb Hsep.
  destruct (in_disc_coord _ _ _ _ _ Hr Hd) as [_ Hy].
  destruct (Req_dec y 0) as [|Hne]; auto. specialize (Hsep Hne). exfalso.
  unfold Rabs in *. destruct (Rcase_abs zi); destruct (Rcase_abs (y - zi)); destruct (Rcase_abs y); lra.
Qed.
