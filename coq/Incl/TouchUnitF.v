(* C08 - mps_ftouchunit (common/touch.c) and cplx_mod (floating-point/mt.c, MPS_USE_BUILTIN_COMPLEX) as coded in IEEE binary64
   (TouchModel.ftouch_unit / cplx_mod_f over Flocq's binary_float 53 1024, round to nearest even):
     if (frad >= DBL_MAX / n) return true;  rad = n * frad;  ab = cplx_mod (z);  return (rad + 1 >= ab) && (rad + ab >= 1);
   Proved: (1) cplx_mod of finite inputs, when it does not overflow, is within 6 u |z| + 2^-1075 of |z| (five roundings, underflow
   of the quotient and its square included); (2) for every factor n >= 2 `no touch' puts the closed disc D(z, r) strictly on one
   side of the unit circle and the side tests of mps_fupdate_inclusions (cplx_mod (z) < 1, > 1) name that side - unless BOTH
   r < 2^-49 and | |z| - 1 | < 2^-48 (C08_ftouchunit_refuted lives in that corner); (3) for r >= 2^-49 the disc scaled by
   n - 1 is clear.  Overflow of n * frad and of the two sums is covered (they compare as +infinity: touch). *)
From Coq Require Import ZArith Bool Reals Lra Lia.
From Flocq Require Import Core BinarySingleNaN Relative Plus_error.
Require Import MPSV.Dpe.DpeDefs MPSV.Dpe.DpeModel MPSV.Dpe.DpeProps MPSV.Dpe.DpeArith.
Require Import MPSV.Incl.InclModel MPSV.Incl.TouchModel MPSV.Incl.TouchExch MPSV.Incl.TouchProps MPSV.Incl.TouchUnitReal.
Local Open Scope R_scope.

Definition eta64 : R := bpow radix2 (-1075).

Lemma u53_half_ulp_f : / 2 * bpow radix2 (- (53) + 1) = u53.
Proof. unfold u53. change (- (53) + 1)%Z with (-53 + 1)%Z. rewrite bpow_plus. simpl. lra. Qed.

Lemma u53_eq_f : u53 = / 9007199254740992.
Proof. unfold u53, bpow. unfold Z.pow_pos; simpl. reflexivity. Qed.

(* ---- one rounding to nearest in binary64: relative error u, plus eta when the result may be subnormal *)
Lemma rnd_err : forall x : R, Rabs (rnd64 x - x) <= u53 * Rabs x + eta64.
Proof.
  intro x. destruct (error_N_FLT radix2 (-1074) 53 ltac:(lia) (fun z => negb (Z.even z)) x) as (eps & eta & He & Hh & _ & E).
  change (FLT_exp (-1074) 53) with fexp64 in E. change (Znearest (fun z => negb (Z.even z))) with ZnearestE in E.
  rewrite E. replace (x * (1 + eps) + eta - x) with (x * eps + eta) by ring.
  apply Rle_trans with (1 := Rabs_triang _ _). rewrite Rabs_mult. rewrite u53_half_ulp_f in He.
  assert (Hh' : Rabs eta <= eta64).
  { unfold eta64. replace (bpow radix2 (-1075)) with (/ 2 * bpow radix2 (-1074)); [exact Hh|].
    change (-1074)%Z with (1 + -1075)%Z. rewrite bpow_plus. change (bpow radix2 1) with 2. field. }
  assert (Rabs x * Rabs eps <= Rabs x * u53) by (apply Rmult_le_compat_l; [apply Rabs_pos|exact He]). lra.
Qed.

Lemma rnd_rel : forall x : R, bpow radix2 (-1022) <= Rabs x -> Rabs (rnd64 x - x) <= u53 * Rabs x.
Proof.
  intros x Hx. pose proof (relative_error_N_FLT radix2 (-1074) 53 ltac:(lia) (fun z => negb (Z.even z)) x Hx) as RE.
  rewrite u53_half_ulp_f in RE. exact RE.
Qed.

(* the sum of two doubles: exact when it falls into the subnormal range *)
Lemma rnd_plus_rel : forall a b : R, generic_format radix2 fexp64 a -> generic_format radix2 fexp64 b ->
  Rabs (rnd64 (a + b) - (a + b)) <= u53 * Rabs (a + b).
Proof.
  intros a b Fa Fb. destruct (Rle_lt_dec (bpow radix2 (-1022)) (Rabs (a + b))) as [H|H].
  - apply rnd_rel. exact H.
  - rewrite round_generic; [|typeclasses eauto|].
    + rewrite Rminus_diag_eq by reflexivity. rewrite Rabs_R0. apply Rmult_le_pos; [apply Rlt_le, u53_pos|apply Rabs_pos].
    + apply (FLT_format_plus_small radix2 (-1074) 53); try assumption.
      apply Rlt_le. apply Rlt_le_trans with (1 := H). apply bpow_le. lia.
Qed.

Lemma fmt_one : generic_format radix2 fexp64 1.
Proof. change 1 with (bpow radix2 0). apply generic_format_bpow. vm_compute. discriminate. Qed.
Lemma fmt_two_f : generic_format radix2 fexp64 2.
Proof. change 2 with (bpow radix2 1). apply generic_format_bpow. vm_compute. discriminate. Qed.

(* ---- comparisons of finite doubles *)
Lemma fcmp_finite : forall a b : b64, is_finite a = true -> is_finite b = true ->
  (fge a b = true <-> B2R b <= B2R a) /\ (fgt a b = true <-> B2R b < B2R a) /\
  (flt a b = true <-> B2R a < B2R b) /\ (feq a b = true <-> B2R a = B2R b).
Proof.
  intros a b Fa Fb. unfold fge, fgt, flt, feq. rewrite (Bcompare_correct 53 1024 a b Fa Fb).
  destruct (Rcompare_spec (B2R a) (B2R b)); repeat split; intro; try discriminate; try reflexivity; lra.
Qed.

Lemma fge_inf_l : forall b : b64, is_finite b = true -> fge (B754_infinity false) b = true.
Proof. intros [s|s| |s m e H] F; try discriminate; reflexivity. Qed.

Lemma overflow_is_inf : forall (f : b64) (s : bool),
  B2SF f = binary_overflow 53 1024 mode_NE s -> f = B754_infinity s.
Proof. intros [s'|s'| |s' m e H] s E; simpl in E; try discriminate. injection E as ->. reflexivity. Qed.

(* the sum of two finite non-negative doubles: the correctly rounded sum, or +infinity *)
Lemma fadd_nonneg : forall a b : b64, is_finite a = true -> is_finite b = true -> 0 <= B2R a -> 0 <= B2R b ->
  (is_finite (fadd a b) = true /\ B2R (fadd a b) = rnd64 (B2R a + B2R b)) \/ fadd a b = B754_infinity false.
Proof.
  intros a b Fa Fb Pa Pb. pose proof (Bplus_correct 53 1024 Hprec53 Hmax1024 mode_NE a b Fa Fb) as H.
  change (round_mode mode_NE) with ZnearestE in H.
  destruct (Rlt_bool (Rabs (rnd64 (B2R a + B2R b))) (bpow radix2 1024)) eqn:O.
  - left. destruct H as (V & F & _). split; assumption.
  - right. destruct H as (V & S). apply overflow_is_inf. unfold fadd. rewrite V. f_equal.
    destruct (Bsign a) eqn:Sa; [exfalso|reflexivity].
    pose proof (Bsign_true_le0 a Fa Sa). symmetry in S. pose proof (Bsign_true_le0 b Fb S).
    assert (E : B2R a + B2R b = 0) by lra. rewrite E, round_0, Rabs_R0 in O by typeclasses eauto.
    rewrite Rlt_bool_true in O by apply bpow_gt_0. discriminate.
Qed.

Lemma pos_finite_shape : forall s : b64, is_finite s = true -> 0 < B2R s ->
  exists m e H, s = B754_finite false m e H.
Proof.
  intros [sg|sg| |sg m e H] F P; try discriminate; try (simpl in P; lra).
  destruct sg; [exfalso|eauto].
  pose proof (Bsign_true_le0 (B754_finite true m e H) eq_refl eq_refl). lra.
Qed.

(* ---- cplx_mod: the branch computing |a| * sqrt (1 + (b/a)^2) for |b| <= |a|, a <> 0 *)
Definition hyp_core (a b : b64) : b64 :=
  let d := fdiv b a in fmul (fabs a) (fsqrt (fadd fone (fmul d d))).

Lemma cplx_mod_f_unfold : forall re im : b64,
  cplx_mod_f re im = if fgt (fabs re) (fabs im) then hyp_core re im else if feq im fzero then fzero else hyp_core im re.
Proof. reflexivity. Qed.

Lemma abs_le_1_sq : forall d : R, Rabs d <= 1 -> 0 <= d * d <= 1.
Proof.
  intros d H. rewrite <- (abs_sq_r d). pose proof (Rabs_pos d). split. apply Rmult_le_pos; lra.
  assert (Rabs d * Rabs d <= 1 * 1) by (apply Rmult_le_compat; lra). lra.
Qed.

Lemma hyp_core_spec : forall a b : b64,
  is_finite a = true -> is_finite b = true -> B2R a <> 0 -> Rabs (B2R b) <= Rabs (B2R a) ->
  is_finite (hyp_core a b) = true ->
  let Z := sqrt (B2R a * B2R a + B2R b * B2R b) in
  0 <= B2R (hyp_core a b) /\ Rabs (B2R (hyp_core a b) - Z) <= 6 * u53 * Z + eta64.
Proof.
  intros a b Fa Fb Na Hab Fin Z.
  set (ra := B2R a) in *. set (rb := B2R b) in *.
  assert (Pa : 0 < Rabs ra) by (apply Rabs_pos_lt; exact Na).
  set (t := rb / ra).
  assert (Ht : Rabs t <= 1).
  { unfold t, Rdiv. rewrite Rabs_mult, Rabs_inv. apply Rmult_le_reg_r with (Rabs ra); [exact Pa|].
    rewrite Rmult_assoc, Rinv_l by lra. lra. }
  (* d = fl (b / a) *)
  unfold hyp_core in *. set (d := fdiv b a) in *.
  pose proof (Bdiv_correct 53 1024 Hprec53 Hmax1024 mode_NE b a Na) as HD.
  change (round_mode mode_NE) with ZnearestE in HD. fold ra rb in HD. fold t in HD.
  assert (Hd1 : Rabs (rnd64 t) <= 1) by (apply abs_round_le_generic; try typeclasses eauto; [apply fmt_one|exact Ht]).
  rewrite Rlt_bool_true in HD by (apply Rle_lt_trans with (1 := Hd1); change 1 with (bpow radix2 0); apply bpow_lt; lia).
  destruct HD as (Vd & Fd & _). change (Bdiv mode_NE b a) with d in Vd, Fd. rewrite Fb in Fd.
  (* e = fl (d * d) *)
  set (e := fmul d d) in *.
  pose proof (Bmult_correct 53 1024 Hprec53 Hmax1024 mode_NE d d) as HE.
  change (round_mode mode_NE) with ZnearestE in HE. rewrite Vd in HE.
  pose proof (abs_le_1_sq _ Hd1) as D2.
  assert (He1 : 0 <= rnd64 (rnd64 t * rnd64 t) <= 1).
  { split. apply round_ge_generic; try typeclasses eauto. apply generic_format_0. lra.
    apply round_le_generic; try typeclasses eauto. apply fmt_one. lra. }
  rewrite Rlt_bool_true in HE by (rewrite Rabs_pos_eq by lra; apply Rle_lt_trans with 1; [lra|]; change 1 with (bpow radix2 0); apply bpow_lt; lia).
  destruct HE as (Ve & Fe & _). change (Bmult mode_NE d d) with e in Ve, Fe. rewrite Fd in Fe. simpl in Fe.
  (* s = fl (1 + e) *)
  set (s := fadd fone e) in *.
  pose proof (Bplus_correct 53 1024 Hprec53 Hmax1024 mode_NE fone e eq_refl Fe) as HS.
  change (round_mode mode_NE) with ZnearestE in HS. rewrite B2R_fone, Ve in HS.
  set (re := rnd64 (rnd64 t * rnd64 t)) in *.
  assert (Hs1 : 1 <= rnd64 (1 + re) <= 2).
  { split. apply round_ge_generic; try typeclasses eauto. apply fmt_one. lra.
    apply round_le_generic; try typeclasses eauto. apply fmt_two_f. lra. }
  rewrite Rlt_bool_true in HS by (rewrite Rabs_pos_eq by lra; apply Rle_lt_trans with 2; [lra|]; change 2 with (bpow radix2 1); apply bpow_lt; lia).
  destruct HS as (Vs & Fs & _). change (Bplus mode_NE fone e) with s in Vs, Fs.
  (* q = fl (sqrt s) *)
  set (q := fsqrt s) in *.
  destruct (Bsqrt_correct 53 1024 Hprec53 Hmax1024 mode_NE s) as (Vq & Fq & _).
  change (round_mode mode_NE) with ZnearestE in Vq. change (Bsqrt mode_NE s) with q in Vq, Fq. rewrite Vs in Vq.
  set (rs := rnd64 (1 + re)) in *.
  destruct (pos_finite_shape s Fs ltac:(rewrite Vs; lra)) as (ms & es & Hs & Es). rewrite Es in Fq.
  assert (Sq1 : 1 <= sqrt rs). { rewrite <- sqrt_1. apply sqrt_le_1_alt. lra. }
  assert (Hq1 : 1 <= rnd64 (sqrt rs)).
  { apply round_ge_generic; try typeclasses eauto. apply fmt_one. exact Sq1. }
  (* ab = fl (|a| * q) *)
  set (ab := fmul (fabs a) q) in *.
  pose proof (Bmult_correct 53 1024 Hprec53 Hmax1024 mode_NE (fabs a) q) as HA.
  change (round_mode mode_NE) with ZnearestE in HA. unfold fabs in HA. rewrite B2R_Babs, Vq in HA. fold ra in HA.
  destruct (Rlt_bool (Rabs (rnd64 (Rabs ra * rnd64 (sqrt rs)))) (bpow radix2 1024)).
  2:{ exfalso. apply overflow_is_inf in HA. change (Bmult mode_NE (Babs a) q) with ab in HA. rewrite HA in Fin. discriminate. }
  destruct HA as (Va & _ & _). change (Bmult mode_NE (Babs a) q) with ab in Va.
  assert (P0 : 0 <= Rabs ra * rnd64 (sqrt rs)) by (apply Rmult_le_pos; lra).
  split.
  { rewrite Va. apply round_ge_generic; try typeclasses eauto. apply generic_format_0. exact P0. }
  (* the real-number error analysis *)
  assert (U : 0 < u53 <= / 1048576) by (rewrite u53_eq_f; lra).
  assert (Eta : 0 <= eta64 <= u53 * u53).
  { split. apply bpow_ge_0. unfold eta64, u53. rewrite <- bpow_plus. apply bpow_le. lia. }
  assert (ZE : Z = Rabs ra * sqrt (1 + t * t)).
  { unfold Z. rewrite <- (sqrt_square (Rabs ra)) at 1 by lra. rewrite <- sqrt_mult_alt by (apply Rmult_le_pos; lra).
    f_equal. rewrite abs_sq_r. unfold t. field. exact Na. }
  rewrite ZE, Va.
  apply (cmod_real_err u53 eta64 (Rabs ra) t (rnd64 t) re rs (rnd64 (sqrt rs)) _ U Eta (Rlt_le _ _ Pa) Ht).
  - apply rnd_err.
  - exact Hd1.
  - lra.
  - pose proof (rnd_err (rnd64 t * rnd64 t)) as K. rewrite (Rabs_pos_eq (rnd64 t * rnd64 t)) in K by lra. exact K.
  - lra.
  - pose proof (rnd_rel (1 + re)) as K. rewrite (Rabs_pos_eq (1 + re)) in K by lra. apply K.
    apply Rle_trans with 1; [|lra]. change 1 with (bpow radix2 0). apply bpow_le. lia.
  - pose proof (rnd_rel (sqrt rs)) as K. rewrite (Rabs_pos_eq (sqrt rs)) in K by lra. apply K.
    apply Rle_trans with 1; [|lra]. change 1 with (bpow radix2 0). apply bpow_le. lia.
  - pose proof (rnd_err (Rabs ra * rnd64 (sqrt rs))) as K. rewrite (Rabs_pos_eq _ P0) in K. exact K.
Qed.

Definition fmod2 (x y : b64) : R := sqrt (B2R x * B2R x + B2R y * B2R y).

Theorem cplx_mod_f_spec : forall x y : b64, is_finite x = true -> is_finite y = true ->
  is_finite (cplx_mod_f x y) = true ->
  0 <= B2R (cplx_mod_f x y) /\ Rabs (B2R (cplx_mod_f x y) - fmod2 x y) <= 6 * u53 * fmod2 x y + eta64.
Proof.
  intros x y Fx Fy Fin. rewrite cplx_mod_f_unfold in *.
  assert (Fax : is_finite (fabs x) = true) by (unfold fabs; rewrite is_finite_Babs; exact Fx).
  assert (Fay : is_finite (fabs y) = true) by (unfold fabs; rewrite is_finite_Babs; exact Fy).
  destruct (fcmp_finite (fabs x) (fabs y) Fax Fay) as (_ & G & _). unfold fabs in G. rewrite !B2R_Babs in G. fold fabs in G.
  destruct (fgt (fabs x) (fabs y)) eqn:C.
  - assert (K : Rabs (B2R y) < Rabs (B2R x)) by (apply G; reflexivity).
    assert (Nx : B2R x <> 0) by (intro E; rewrite E, Rabs_R0 in K; pose proof (Rabs_pos (B2R y)); lra).
    apply (hyp_core_spec x y Fx Fy Nx (Rlt_le _ _ K) Fin).
  - assert (K : Rabs (B2R x) <= Rabs (B2R y)).
    { destruct (Rle_lt_dec (Rabs (B2R x)) (Rabs (B2R y))); [assumption|]. apply G in r. discriminate. }
    destruct (fcmp_finite y fzero Fy eq_refl) as (_ & _ & _ & Q). rewrite B2R_fzero in Q.
    destruct (feq y fzero) eqn:Cz.
    + assert (Y0 : B2R y = 0) by (apply Q; reflexivity).
      assert (X0 : B2R x = 0). { rewrite Y0, Rabs_R0 in K. pose proof (Rabs_pos (B2R x)). destruct (Req_dec (B2R x) 0); [assumption|]. exfalso. apply (Rabs_no_R0 (B2R x)); [assumption|lra]. }
      unfold fmod2. rewrite X0, Y0, B2R_fzero. rewrite Rmult_0_l, Rplus_0_l, sqrt_0, Rminus_0_r, Rabs_R0, Rmult_0_r.
      split; [lra|]. pose proof (bpow_ge_0 radix2 (-1075)). unfold eta64. lra.
    + assert (Ny : B2R y <> 0) by (intro E; apply Q in E; rewrite E in Cz; discriminate).
      unfold fmod2. rewrite Rplus_comm. apply (hyp_core_spec y x Fy Fx Ny K Fin).
Qed.

(* ---- mps_ftouchunit: what `no touch' means for the numbers it computed.  Rd = the computed n * frad (finite: an overflowing
        product, and overflowing sums, compare as +infinity and answer `touch') *)
Lemma ftouch_unit_facts : forall (n : Z) (r ab : b64),
  (1 <= n < 2 ^ 31)%Z -> is_finite r = true -> 0 <= B2R r -> is_finite ab = true -> 0 <= B2R ab ->
  ftouch_unit_ab n r ab = false ->
  exists Rd : R, 0 <= Rd /\ generic_format radix2 fexp64 Rd /\
    (bpow radix2 (-1022) <= IZR n * B2R r -> Rabs (Rd - IZR n * B2R r) <= u53 * (IZR n * B2R r)) /\
    (rnd64 (Rd + 1) < B2R ab \/ rnd64 (Rd + B2R ab) < 1).
Proof.
  intros n r ab Hn Fr Pr Fab Pab H.
  destruct (f_of_Z_correct n) as (Vn & Fn & Sn). { lia. }
  unfold ftouch_unit_ab in H. destruct (fge r (fdiv DBL_MAX (f_of_Z n))); [discriminate|].
  set (nd := f_of_Z n) in *.
  assert (Pn : 0 <= IZR n) by (apply IZR_le; lia).
  pose proof (Bmult_correct 53 1024 Hprec53 Hmax1024 mode_NE nd r) as HB.
  change (round_mode mode_NE) with ZnearestE in HB. rewrite Vn in HB.
  destruct (Rlt_bool (Rabs (rnd64 (IZR n * B2R r))) (bpow radix2 1024)) eqn:Hov.
  - destruct HB as (V & F & _). rewrite Fn, Fr in F. simpl in F.
    change (Bmult mode_NE nd r) with (fmul nd r) in V, F. set (rad := fmul nd r) in *.
    assert (P0 : 0 <= IZR n * B2R r) by (apply Rmult_le_pos; assumption).
    assert (PR : 0 <= B2R rad).
    { rewrite V. apply round_ge_generic; try typeclasses eauto. apply generic_format_0. exact P0. }
    exists (B2R rad). split; [exact PR|]. split; [apply generic_format_B2R|]. split.
    { intro Hbig. rewrite V. pose proof (rnd_rel (IZR n * B2R r)) as K. rewrite (Rabs_pos_eq _ P0) in K. apply K. exact Hbig. }
    apply andb_false_iff in H. destruct H as [H|H].
    + left. destruct (fadd_nonneg rad fone F eq_refl PR ltac:(rewrite B2R_fone; lra)) as [[FT VT]|E].
      * destruct (fcmp_finite (fadd rad fone) ab FT Fab) as (G & _).
        rewrite VT, B2R_fone in G. destruct (Rlt_le_dec (rnd64 (B2R rad + 1)) (B2R ab)) as [|C]; [assumption|].
        apply G in C. rewrite C in H. discriminate.
      * rewrite E, (fge_inf_l ab Fab) in H. discriminate.
    + right. destruct (fadd_nonneg rad ab F Fab PR Pab) as [[FT VT]|E].
      * destruct (fcmp_finite (fadd rad ab) fone FT eq_refl) as (G & _).
        rewrite VT, B2R_fone in G. destruct (Rlt_le_dec (rnd64 (B2R rad + B2R ab)) 1) as [|C]; [assumption|].
        apply G in C. rewrite C in H. discriminate.
      * rewrite E in H. discriminate.
  - (* n * frad overflows: the product is +infinity, both comparisons hold *)
    exfalso.
    assert (Hs : Bsign r = false).
    { destruct (Bsign r) eqn:E; [|reflexivity]. pose proof (Bsign_true_le0 r Fr E).
      assert (B2R r = 0) by lra. rewrite H1, Rmult_0_r, round_0, Rabs_R0 in Hov; [|typeclasses eauto].
      rewrite Rlt_bool_true in Hov by (apply bpow_gt_0). discriminate. }
    assert (Hsn : Bsign nd = false).
    { rewrite Sn. apply Rlt_bool_false. exact Pn. }
    rewrite Hs, Hsn in HB. simpl in HB. apply overflow_is_inf in HB.
    change (Bmult mode_NE nd r) with (fmul nd r) in HB. rewrite HB in H.
    assert (E1 : fadd (B754_infinity false) fone = B754_infinity false) by reflexivity.
    assert (E2 : fadd (B754_infinity false) ab = B754_infinity false).
    { destruct ab as [s|s| |s m e He]; try discriminate; reflexivity. }
    rewrite E1, E2, (fge_inf_l ab Fab) in H. discriminate.
Qed.

Lemma p49 : bpow radix2 (-49) = 16 * u53.
Proof. unfold u53. change (-49)%Z with (4 + -53)%Z. rewrite bpow_plus. change (bpow radix2 4) with 16. reflexivity. Qed.
Lemma p48 : bpow radix2 (-48) = 32 * u53.
Proof. unfold u53. change (-48)%Z with (5 + -53)%Z. rewrite bpow_plus. change (bpow radix2 5) with 32. reflexivity. Qed.

Lemma nu_small_f : forall n : Z, (1 <= n < 2 ^ 31)%Z -> forall r : R, 0 <= r -> IZR n * r * u53 <= r / 1048576.
Proof.
  intros n Hn r Hr. rewrite u53_eq_f.
  assert (IZR n <= 2147483648). { change 2147483648 with (IZR (2 ^ 31)). apply IZR_le. lia. }
  assert (IZR n * r <= 2147483648 * r) by (apply Rmult_le_compat_r; lra). lra.
Qed.

Lemma bool_false_of_iff : forall (b : bool) (P : Prop), (b = true <-> P) -> ~ P -> b = false.
Proof. intros [|] P H NP; [exfalso; apply NP, H; reflexivity | reflexivity]. Qed.

Lemma eta_le_u : eta64 <= u53.
Proof. unfold eta64, u53. apply bpow_le. lia. Qed.

(* ---- the theorem for the shipped mps_ftouchunit *)
Theorem ftouch_unit_sound : forall (n : Z) (r x y : b64),
  (2 <= n < 2 ^ 31)%Z -> is_finite r = true -> is_finite x = true -> is_finite y = true -> 0 <= B2R r ->
  is_finite (cplx_mod_f x y) = true ->
  bpow radix2 (-49) <= B2R r \/ bpow radix2 (-48) <= Rabs (fmod2 x y - 1) ->
  ftouch_unit n r x y = false ->
  (B2R r + 1 < fmod2 x y /\ flt (cplx_mod_f x y) fone = false /\ fgt (cplx_mod_f x y) fone = true) \/
  (fmod2 x y + B2R r < 1 /\ flt (cplx_mod_f x y) fone = true /\ fgt (cplx_mod_f x y) fone = false).
Proof.
  intros n r x y Hn Fr Fx Fy Pr Fin Hreg H.
  destruct (cplx_mod_f_spec x y Fx Fy Fin) as (A0 & EA).
  unfold ftouch_unit in H. set (ab := cplx_mod_f x y) in *.
  destruct (ftouch_unit_facts n r ab ltac:(lia) Fr Pr Fin A0 H) as (Rd & R0 & FR & ER & HD).
  destruct (fcmp_finite ab fone Fin eq_refl) as (_ & SG & SL & _). rewrite B2R_fone in SG, SL.
  assert (U : 0 < u53 <= / 1048576) by (rewrite u53_eq_f; lra).
  assert (Z0 : 0 <= fmod2 x y) by apply sqrt_pos.
  assert (EA' : Rabs (B2R ab - fmod2 x y) <= 6 * u53 * fmod2 x y + u53) by (pose proof eta_le_u; lra).
  assert (ET1 : Rabs (rnd64 (Rd + 1) - (Rd + 1)) <= 2 * u53 * (Rd + 1)).
  { pose proof (rnd_rel (Rd + 1)) as K. rewrite (Rabs_pos_eq (Rd + 1)) in K by lra.
    assert (u53 * (Rd + 1) <= 2 * u53 * (Rd + 1)) by (assert (0 <= u53 * (Rd + 1)) by (apply Rmult_le_pos; lra); lra).
    apply Rle_trans with (2 := H0). apply K. apply Rle_trans with 1; [|lra]. change 1 with (bpow radix2 0). apply bpow_le. lia. }
  assert (ET2 : Rabs (rnd64 (Rd + B2R ab) - (Rd + B2R ab)) <= 2 * u53 * (Rd + B2R ab)).
  { pose proof (rnd_plus_rel Rd (B2R ab) FR (generic_format_B2R 53 1024 ab)) as K.
    rewrite (Rabs_pos_eq (Rd + B2R ab)) in K by lra.
    assert (0 <= u53 * (Rd + B2R ab)) by (apply Rmult_le_pos; lra). lra. }
  rewrite p49, p48 in Hreg.
  assert (Hn2 : 2 * B2R r <= IZR n * B2R r).
  { apply Rmult_le_compat_r; [assumption|]. apply IZR_le. lia. }
  assert (Fin1 : (B2R r + 1 < fmod2 x y /\ 1 < B2R ab) \/ (fmod2 x y + B2R r < 1 /\ B2R ab < 1)).
  { destruct (Rle_lt_dec (16 * u53) (B2R r)) as [Hb|Hs].
    - assert (ER' : Rabs (Rd - IZR n * B2R r) <= u53 * (IZR n * B2R r)).
      { apply ER. apply Rle_trans with (bpow radix2 (-49)); [apply bpow_le; lia|]. rewrite p49. lra. }
      destruct (unit_dec_real u53 (IZR n * B2R r) (B2R r) (fmod2 x y) Rd (B2R ab) _ _ U Hb Hn2
                  (nu_small_f n ltac:(lia) _ Pr) ER' Z0 A0 EA' ET1 ET2 HD) as [[K1 K2]|[K1 K2]]; [left|right]; split; lra.
    - destruct Hreg as [Hreg|Hreg]; [lra|].
      apply (unit_dec_real_far u53 (B2R r) (fmod2 x y) Rd (B2R ab) _ _ U (conj Pr Hs) Hreg R0 Z0 A0 EA' ET1 ET2 HD). }
  destruct Fin1 as [[K1 K2]|[K1 K2]].
  - left. split; [exact K1|]. split; [apply (bool_false_of_iff _ _ SL); lra | apply SG; lra].
  - right. split; [exact K1|]. split; [apply SL; lra | apply (bool_false_of_iff _ _ SG); lra].
Qed.

(* for radii not below 2^-49 the margin survives: the disc scaled by n - 1 is clear *)
Theorem ftouch_unit_sound_scaled : forall (n : Z) (r x y : b64),
  (2 <= n < 2 ^ 31)%Z -> is_finite r = true -> is_finite x = true -> is_finite y = true ->
  is_finite (cplx_mod_f x y) = true ->
  bpow radix2 (-49) <= B2R r ->
  ftouch_unit n r x y = false ->
  (IZR (n - 1) * B2R r + 1 < fmod2 x y /\ flt (cplx_mod_f x y) fone = false /\ fgt (cplx_mod_f x y) fone = true) \/
  (fmod2 x y + IZR (n - 1) * B2R r < 1 /\ flt (cplx_mod_f x y) fone = true /\ fgt (cplx_mod_f x y) fone = false).
Proof.
  intros n r x y Hn Fr Fx Fy Fin Hreg H.
  assert (Pr : 0 <= B2R r) by (pose proof (bpow_gt_0 radix2 (-49)); lra).
  destruct (cplx_mod_f_spec x y Fx Fy Fin) as (A0 & EA).
  unfold ftouch_unit in H. set (ab := cplx_mod_f x y) in *.
  destruct (ftouch_unit_facts n r ab ltac:(lia) Fr Pr Fin A0 H) as (Rd & R0 & FR & ER & HD).
  destruct (fcmp_finite ab fone Fin eq_refl) as (_ & SG & SL & _). rewrite B2R_fone in SG, SL.
  assert (U : 0 < u53 <= / 1048576) by (rewrite u53_eq_f; lra).
  assert (Z0 : 0 <= fmod2 x y) by apply sqrt_pos.
  assert (EA' : Rabs (B2R ab - fmod2 x y) <= 6 * u53 * fmod2 x y + u53) by (pose proof eta_le_u; lra).
  assert (ET1 : Rabs (rnd64 (Rd + 1) - (Rd + 1)) <= 2 * u53 * (Rd + 1)).
  { pose proof (rnd_rel (Rd + 1)) as K. rewrite (Rabs_pos_eq (Rd + 1)) in K by lra.
    assert (u53 * (Rd + 1) <= 2 * u53 * (Rd + 1)) by (assert (0 <= u53 * (Rd + 1)) by (apply Rmult_le_pos; lra); lra).
    apply Rle_trans with (2 := H0). apply K. apply Rle_trans with 1; [|lra]. change 1 with (bpow radix2 0). apply bpow_le. lia. }
  assert (ET2 : Rabs (rnd64 (Rd + B2R ab) - (Rd + B2R ab)) <= 2 * u53 * (Rd + B2R ab)).
  { pose proof (rnd_plus_rel Rd (B2R ab) FR (generic_format_B2R 53 1024 ab)) as K.
    rewrite (Rabs_pos_eq (Rd + B2R ab)) in K by lra.
    assert (0 <= u53 * (Rd + B2R ab)) by (apply Rmult_le_pos; lra). lra. }
  rewrite p49 in Hreg.
  assert (Hn2 : 2 * B2R r <= IZR n * B2R r).
  { apply Rmult_le_compat_r; [assumption|]. apply IZR_le. lia. }
  assert (ER' : Rabs (Rd - IZR n * B2R r) <= u53 * (IZR n * B2R r)).
  { apply ER. apply Rle_trans with (bpow radix2 (-49)); [apply bpow_le; lia|]. rewrite p49. lra. }
  rewrite minus_IZR.
  destruct (unit_dec_real u53 (IZR n * B2R r) (B2R r) (fmod2 x y) Rd (B2R ab) _ _ U Hreg Hn2
              (nu_small_f n ltac:(lia) _ Pr) ER' Z0 A0 EA' ET1 ET2 HD) as [[K1 K2]|[K1 K2]].
  - left. split; [lra|]. split; [apply (bool_false_of_iff _ _ SL); lra | apply SG; lra].
  - right. split; [lra|]. split; [apply SL; lra | apply (bool_false_of_iff _ _ SG); lra].
Qed.

(* ================================================================ the repaired test (fixes/C08_funit_allowance.patch)
     rad = n * frad;  ab = cplx_mod (z);  rad += 8 * DBL_EPSILON * (ab + 1);  return (rad + 1 >= ab) && (rad + ab >= 1);
   `no touch' now implies n * r < | |z| - 1 | EXACTLY, for every factor n >= 1, every finite radius >= 0 and centre whose
   modulus does not overflow; the side tests name the side. *)

(* a double that is finite and non-negative, or +infinity (what the intermediate results of the test are) *)
Definition NN (x : b64) : Prop := (is_finite x = true /\ 0 <= B2R x) \/ x = B754_infinity false.

Lemma fadd_NN : forall a b : b64, NN a -> NN b ->
  NN (fadd a b) /\
  (is_finite (fadd a b) = true -> is_finite a = true /\ is_finite b = true /\ B2R (fadd a b) = rnd64 (B2R a + B2R b)).
Proof.
  intros a b [[Fa Pa]|Ia] [[Fb Pb]|Ib].
  - destruct (fadd_nonneg a b Fa Fb Pa Pb) as [[F V]|I].
    + split; [left; split; [exact F|]|intros _; repeat split; assumption].
      rewrite V. apply round_ge_generic; try typeclasses eauto. apply generic_format_0. lra.
    + split; [right; exact I|]. rewrite I. intro K; discriminate.
  - subst b. assert (E : fadd a (B754_infinity false) = B754_infinity false).
    { destruct a as [s|s| |s m e He]; try discriminate; reflexivity. }
    rewrite E. split; [right; reflexivity|intro K; discriminate].
  - subst a. assert (E : fadd (B754_infinity false) b = B754_infinity false).
    { destruct b as [s|s| |s m e He]; try discriminate; reflexivity. }
    rewrite E. split; [right; reflexivity|intro K; discriminate].
  - subst a b. split; [right; reflexivity|intro K; discriminate].
Qed.

Lemma f_allow_facts_f : is_finite f_allow = true /\ B2R f_allow = 16 * u53 /\ Bsign f_allow = false.
Proof.
  assert (V : B2R f_allow = bpow radix2 (-49)).
  { unfold f_allow, B2R, F2R. cbn [Fnum Fexp cond_Zopp]. change (IZR 4503599627370496) with (bpow radix2 52).
    rewrite <- bpow_plus. reflexivity. }
  split; [reflexivity|]. split; [|reflexivity].
  rewrite V. apply p49.
Qed.

(* a positive finite double times a double that is finite and non-negative or +infinity *)
Lemma fmul_NN : forall c x : b64, is_finite c = true -> 0 < B2R c -> NN x ->
  NN (fmul c x) /\ (is_finite (fmul c x) = true -> is_finite x = true /\ B2R (fmul c x) = rnd64 (B2R c * B2R x)).
Proof.
  intros c x Fc Pc Hx.
  destruct (pos_finite_shape c Fc Pc) as (mc & ec & Hc & Ec).
  assert (Sc : Bsign c = false) by (rewrite Ec; reflexivity).
  destruct Hx as [[Fx Px]|Ix].
  - pose proof (Bmult_correct 53 1024 Hprec53 Hmax1024 mode_NE c x) as HB.
    change (round_mode mode_NE) with ZnearestE in HB.
    destruct (Rlt_bool (Rabs (rnd64 (B2R c * B2R x))) (bpow radix2 1024)) eqn:Hov.
    + destruct HB as (V & F & _). rewrite Fc, Fx in F. simpl in F. split.
      * left. split; [exact F|]. unfold fmul. rewrite V. apply round_ge_generic; try typeclasses eauto. apply generic_format_0.
        apply Rmult_le_pos; lra.
      * intros _. split; [exact Fx|exact V].
    + assert (Hs : Bsign x = false).
      { destruct (Bsign x) eqn:E; [|reflexivity]. pose proof (Bsign_true_le0 x Fx E).
        assert (B2R x = 0) by lra. rewrite H0, Rmult_0_r, round_0, Rabs_R0 in Hov; [|typeclasses eauto].
        rewrite Rlt_bool_true in Hov by (apply bpow_gt_0). discriminate. }
      rewrite Sc, Hs in HB. simpl in HB. apply overflow_is_inf in HB. unfold fmul. rewrite HB.
      split; [right; reflexivity|intro K; discriminate].
  - subst x. rewrite Ec. split; [right; reflexivity|intro K; discriminate].
Qed.

Lemma bpow_1022_le_1 : bpow radix2 (-1022) <= 1.
Proof. change 1 with (bpow radix2 0). apply bpow_le. lia. Qed.

Lemma bpow_1022_le_49 : bpow radix2 (-1022) <= bpow radix2 (-49).
Proof. apply bpow_le. lia. Qed.

Lemma lower_of_rel : forall x X : R, 0 <= X -> Rabs (x - X) <= u53 * X -> X * (1 - 2 * u53) <= x.
Proof.
  intros x X HX H. apply Rabs_le_inv in H. pose proof u53_pos. assert (0 <= u53 * X) by (apply Rmult_le_pos; lra). lra.
Qed.

Lemma ftouch_unit_fixed_facts : forall (n : Z) (r ab : b64),
  (1 <= n < 2 ^ 31)%Z -> is_finite r = true -> 0 <= B2R r -> is_finite ab = true -> 0 <= B2R ab ->
  ftouch_unit_ab_fixed n r ab = false ->
  exists Rd S E R' T1 T2 : R,
    0 <= Rd /\ IZR n * B2R r * (1 - u53) - eta64 <= Rd /\
    (B2R ab + 1) * (1 - 2 * u53) <= S /\ 16 * u53 * S * (1 - 2 * u53) <= E /\
    (Rd + E) * (1 - 2 * u53) <= R' /\ (R' + 1) * (1 - 2 * u53) <= T1 /\ (R' + B2R ab) * (1 - 2 * u53) <= T2 /\
    (T1 < B2R ab \/ T2 < 1).
Proof.
  intros n r ab Hn Fr Pr Fab Pab H.
  assert (Pn0 : 0 <= IZR n) by (apply IZR_le; lia).
  assert (P0 : 0 <= IZR n * B2R r) by (apply Rmult_le_pos; [exact Pn0|exact Pr]).
  destruct (f_of_Z_correct n) as (Vn & Fn & Sn). { lia. }
  unfold ftouch_unit_ab_fixed in H. destruct (fge r (fdiv DBL_MAX (f_of_Z n))); [discriminate|].
  set (nd := f_of_Z n) in *.
  assert (Pn : 0 < B2R nd) by (rewrite Vn; apply IZR_lt; lia).
  destruct f_allow_facts_f as (Fa & Va & _).
  assert (Pa : 0 < B2R f_allow) by (rewrite Va; pose proof u53_pos; lra).
  assert (NNr : NN r) by (left; split; assumption).
  assert (NNab : NN ab) by (left; split; assumption).
  assert (NN1 : NN fone) by (left; split; [reflexivity|rewrite B2R_fone; lra]).
  destruct (fmul_NN nd r Fn Pn NNr) as (NNrad0 & Irad0).
  destruct (fadd_NN ab fone NNab NN1) as (NNS & IS).
  destruct (fmul_NN f_allow _ Fa Pa NNS) as (NNE & IE).
  destruct (fadd_NN _ _ NNrad0 NNE) as (NNrad & Irad).
  set (rad0 := fmul nd r) in *. set (Sd := fadd ab fone) in *. set (Ed := fmul f_allow Sd) in *.
  set (rad := fadd rad0 Ed) in *.
  destruct NNrad as [[Frad Prad]|Irad'].
  2:{ exfalso. rewrite Irad' in H.
      assert (E1 : fadd (B754_infinity false) fone = B754_infinity false) by reflexivity.
      assert (E2 : fadd (B754_infinity false) ab = B754_infinity false).
      { destruct ab as [s|s| |s m e He]; try discriminate; reflexivity. }
      rewrite E1, E2, (fge_inf_l ab Fab) in H. discriminate. }
  destruct (Irad Frad) as (Frad0 & FE & Vrad).
  destruct (Irad0 Frad0) as (_ & Vrad0). rewrite Vn in Vrad0.
  destruct (IE FE) as (FS & VE). rewrite Va in VE.
  destruct (IS FS) as (_ & _ & VS). rewrite B2R_fone in VS.
  pose proof u53_pos as U. pose proof (bpow_ge_0 radix2 (-1075)) as Eta0. fold eta64 in Eta0.
  assert (PR0 : 0 <= B2R rad0).
  { rewrite Vrad0. apply round_ge_generic; try typeclasses eauto. apply generic_format_0. exact P0. }
  assert (LS : (B2R ab + 1) * (1 - 2 * u53) <= B2R Sd).
  { apply lower_of_rel; [lra|]. rewrite VS. pose proof (rnd_rel (B2R ab + 1)) as K. rewrite (Rabs_pos_eq (B2R ab + 1)) in K by lra.
    apply K. apply Rle_trans with 1; [exact bpow_1022_le_1|lra]. }
  assert (PS : 1 <= B2R Sd).
  { rewrite VS. apply round_ge_generic; try typeclasses eauto. apply fmt_one. lra. }
  assert (LE : 16 * u53 * B2R Sd * (1 - 2 * u53) <= B2R Ed).
  { apply lower_of_rel; [apply Rmult_le_pos; lra|]. rewrite VE.
    pose proof (rnd_rel (16 * u53 * B2R Sd)) as K. rewrite (Rabs_pos_eq (16 * u53 * B2R Sd)) in K by (apply Rmult_le_pos; lra).
    apply K. apply Rle_trans with (16 * u53 * 1); [|apply Rmult_le_compat_l; lra].
    rewrite Rmult_1_r, <- p49. exact bpow_1022_le_49. }
  assert (PE : 0 <= B2R Ed).
  { rewrite VE. apply round_ge_generic; try typeclasses eauto. apply generic_format_0. apply Rmult_le_pos; lra. }
  assert (LR : (B2R rad0 + B2R Ed) * (1 - 2 * u53) <= B2R rad).
  { apply lower_of_rel; [lra|]. rewrite Vrad.
    pose proof (rnd_plus_rel (B2R rad0) (B2R Ed) (generic_format_B2R 53 1024 rad0) (generic_format_B2R 53 1024 Ed)) as K.
    rewrite (Rabs_pos_eq (B2R rad0 + B2R Ed)) in K by lra. exact K. }
  exists (B2R rad0), (B2R Sd), (B2R Ed), (B2R rad), (rnd64 (B2R rad + 1)), (rnd64 (B2R rad + B2R ab)).
  split; [exact PR0|]. split.
  { rewrite Vrad0. pose proof (rnd_err (IZR n * B2R r)) as K. rewrite (Rabs_pos_eq _ P0) in K. apply Rabs_le_inv in K. lra. }
  split; [exact LS|]. split; [exact LE|]. split; [exact LR|]. split.
  { apply lower_of_rel; [lra|]. pose proof (rnd_rel (B2R rad + 1)) as K. rewrite (Rabs_pos_eq (B2R rad + 1)) in K by lra.
    apply K. apply Rle_trans with 1; [exact bpow_1022_le_1|lra]. }
  split.
  { apply lower_of_rel; [lra|].
    pose proof (rnd_plus_rel (B2R rad) (B2R ab) (generic_format_B2R 53 1024 rad) (generic_format_B2R 53 1024 ab)) as K.
    rewrite (Rabs_pos_eq (B2R rad + B2R ab)) in K by lra. exact K. }
  apply andb_false_iff in H. destruct H as [H|H].
  - left. destruct (fadd_nonneg rad fone Frad eq_refl Prad ltac:(rewrite B2R_fone; lra)) as [[FT VT]|E].
    + destruct (fcmp_finite (fadd rad fone) ab FT Fab) as (G & _).
      rewrite VT, B2R_fone in G. destruct (Rlt_le_dec (rnd64 (B2R rad + 1)) (B2R ab)) as [|C]; [assumption|].
      apply G in C. rewrite C in H. discriminate.
    + rewrite E, (fge_inf_l ab Fab) in H. discriminate.
  - right. destruct (fadd_nonneg rad ab Frad Fab Prad Pab) as [[FT VT]|E].
    + destruct (fcmp_finite (fadd rad ab) fone FT eq_refl) as (G & _).
      rewrite VT, B2R_fone in G. destruct (Rlt_le_dec (rnd64 (B2R rad + B2R ab)) 1) as [|C]; [assumption|].
      apply G in C. rewrite C in H. discriminate.
    + rewrite E in H. discriminate.
Qed.

Theorem ftouch_unit_fixed_sound : forall (n : Z) (r x y : b64),
  (1 <= n < 2 ^ 31)%Z -> is_finite r = true -> is_finite x = true -> is_finite y = true -> 0 <= B2R r ->
  is_finite (cplx_mod_f x y) = true ->
  ftouch_unit_fixed n r x y = false ->
  (IZR n * B2R r + 1 < fmod2 x y /\ flt (cplx_mod_f x y) fone = false /\ fgt (cplx_mod_f x y) fone = true) \/
  (fmod2 x y + IZR n * B2R r < 1 /\ flt (cplx_mod_f x y) fone = true /\ fgt (cplx_mod_f x y) fone = false).
Proof.
  intros n r x y Hn Fr Fx Fy Pr Fin H.
  destruct (cplx_mod_f_spec x y Fx Fy Fin) as (A0 & EA).
  unfold ftouch_unit_fixed in H. set (ab := cplx_mod_f x y) in *.
  destruct (ftouch_unit_fixed_facts n r ab Hn Fr Pr Fin A0 H) as (Rd & S & E & R' & T1 & T2 & R0 & ER & ES & EE & ER' & ET1 & ET2 & HD).
  destruct (fcmp_finite ab fone Fin eq_refl) as (_ & SG & SL & _). rewrite B2R_fone in SG, SL.
  assert (U : 0 < u53 <= / 1048576) by (rewrite u53_eq_f; lra).
  assert (Eta : 0 <= eta64 <= u53 * u53).
  { split. apply bpow_ge_0. unfold eta64, u53. rewrite <- bpow_plus. apply bpow_le. lia. }
  assert (N0 : 0 <= IZR n * B2R r) by (apply Rmult_le_pos; [apply IZR_le; lia|assumption]).
  destruct (unit_dec_real_fixed u53 eta64 (IZR n * B2R r) (fmod2 x y) Rd (B2R ab) S E R' T1 T2 U Eta N0 (sqrt_pos _) A0 R0 ER EA ES EE ER' ET1 ET2 HD)
    as [[K1 K2]|[K1 K2]].
  - left. split; [exact K1|]. split; [apply (bool_false_of_iff _ _ SL); lra | apply SG; lra].
  - right. split; [exact K1|]. split; [apply SL; lra | apply (bool_false_of_iff _ _ SG); lra].
Qed.

(* ---- cplx_mod does not overflow for parts up to 2^1022 in magnitude *)
Lemma hyp_core_finite : forall a b : b64,
  is_finite a = true -> is_finite b = true -> B2R a <> 0 -> Rabs (B2R b) <= Rabs (B2R a) ->
  Rabs (B2R a) <= bpow radix2 1022 ->
  is_finite (hyp_core a b) = true.
Proof.
  intros a b Fa Fb Na Hab Hbig.
  set (ra := B2R a) in *. set (rb := B2R b) in *.
  assert (Pa : 0 < Rabs ra) by (apply Rabs_pos_lt; exact Na).
  set (t := rb / ra).
  assert (Ht : Rabs t <= 1).
  { unfold t, Rdiv. rewrite Rabs_mult, Rabs_inv. apply Rmult_le_reg_r with (Rabs ra); [exact Pa|].
    rewrite Rmult_assoc, Rinv_l by lra. lra. }
  (* d = fl (b / a) *)
  unfold hyp_core in *. set (d := fdiv b a) in *.
  pose proof (Bdiv_correct 53 1024 Hprec53 Hmax1024 mode_NE b a Na) as HD.
  change (round_mode mode_NE) with ZnearestE in HD. fold ra rb in HD. fold t in HD.
  assert (Hd1 : Rabs (rnd64 t) <= 1) by (apply abs_round_le_generic; try typeclasses eauto; [apply fmt_one|exact Ht]).
  rewrite Rlt_bool_true in HD by (apply Rle_lt_trans with (1 := Hd1); change 1 with (bpow radix2 0); apply bpow_lt; lia).
  destruct HD as (Vd & Fd & _). change (Bdiv mode_NE b a) with d in Vd, Fd. rewrite Fb in Fd.
  (* e = fl (d * d) *)
  set (e := fmul d d) in *.
  pose proof (Bmult_correct 53 1024 Hprec53 Hmax1024 mode_NE d d) as HE.
  change (round_mode mode_NE) with ZnearestE in HE. rewrite Vd in HE.
  pose proof (abs_le_1_sq _ Hd1) as D2.
  assert (He1 : 0 <= rnd64 (rnd64 t * rnd64 t) <= 1).
  { split. apply round_ge_generic; try typeclasses eauto. apply generic_format_0. lra.
    apply round_le_generic; try typeclasses eauto. apply fmt_one. lra. }
  rewrite Rlt_bool_true in HE by (rewrite Rabs_pos_eq by lra; apply Rle_lt_trans with 1; [lra|]; change 1 with (bpow radix2 0); apply bpow_lt; lia).
  destruct HE as (Ve & Fe & _). change (Bmult mode_NE d d) with e in Ve, Fe. rewrite Fd in Fe. simpl in Fe.
  (* s = fl (1 + e) *)
  set (s := fadd fone e) in *.
  pose proof (Bplus_correct 53 1024 Hprec53 Hmax1024 mode_NE fone e eq_refl Fe) as HS.
  change (round_mode mode_NE) with ZnearestE in HS. rewrite B2R_fone, Ve in HS.
  set (re := rnd64 (rnd64 t * rnd64 t)) in *.
  assert (Hs1 : 1 <= rnd64 (1 + re) <= 2).
  { split. apply round_ge_generic; try typeclasses eauto. apply fmt_one. lra.
    apply round_le_generic; try typeclasses eauto. apply fmt_two_f. lra. }
  rewrite Rlt_bool_true in HS by (rewrite Rabs_pos_eq by lra; apply Rle_lt_trans with 2; [lra|]; change 2 with (bpow radix2 1); apply bpow_lt; lia).
  destruct HS as (Vs & Fs & _). change (Bplus mode_NE fone e) with s in Vs, Fs.
  (* q = fl (sqrt s) *)
  set (q := fsqrt s) in *.
  destruct (Bsqrt_correct 53 1024 Hprec53 Hmax1024 mode_NE s) as (Vq & Fq & _).
  change (round_mode mode_NE) with ZnearestE in Vq. change (Bsqrt mode_NE s) with q in Vq, Fq. rewrite Vs in Vq.
  set (rs := rnd64 (1 + re)) in *.
  destruct (pos_finite_shape s Fs ltac:(rewrite Vs; lra)) as (ms & es & Hs & Es). rewrite Es in Fq.
  assert (Sq1 : 1 <= sqrt rs). { rewrite <- sqrt_1. apply sqrt_le_1_alt. lra. }
  assert (Hq1 : 1 <= rnd64 (sqrt rs)).
  { apply round_ge_generic; try typeclasses eauto. apply fmt_one. exact Sq1. }
  assert (Sq2 : sqrt rs <= 2).
  { rewrite <- (sqrt_square 2) by lra. apply sqrt_le_1_alt. lra. }
  assert (Hq2 : rnd64 (sqrt rs) <= 2).
  { apply round_le_generic; try typeclasses eauto. apply fmt_two_f. exact Sq2. }
  pose proof (Bmult_correct 53 1024 Hprec53 Hmax1024 mode_NE (fabs a) q) as HA.
  change (round_mode mode_NE) with ZnearestE in HA. unfold fabs in HA. rewrite B2R_Babs, Vq in HA. fold ra in HA.
  assert (HL : Rabs (rnd64 (Rabs ra * rnd64 (sqrt rs))) < bpow radix2 1024).
  { apply Rle_lt_trans with (bpow radix2 1023); [|apply bpow_lt; lia].
    apply abs_round_le_generic; try typeclasses eauto. { apply generic_format_bpow. vm_compute. discriminate. }
    rewrite Rabs_mult, Rabs_Rabsolu, (Rabs_pos_eq (rnd64 (sqrt rs))) by lra.
    replace (bpow radix2 1023) with (bpow radix2 1022 * 2) by (change 1023%Z with (1022 + 1)%Z; rewrite bpow_plus; reflexivity).
    apply Rmult_le_compat; lra. }
  rewrite (Rlt_bool_true _ _ HL) in HA. destruct HA as (_ & FA & _).
  rewrite is_finite_Babs, Fa, Fq in FA. exact FA.
Qed.

Theorem cplx_mod_f_finite : forall x y : b64, is_finite x = true -> is_finite y = true ->
  Rabs (B2R x) <= bpow radix2 1022 -> Rabs (B2R y) <= bpow radix2 1022 ->
  is_finite (cplx_mod_f x y) = true.
Proof.
  intros x y Fx Fy Bx By. rewrite cplx_mod_f_unfold.
  assert (Fax : is_finite (fabs x) = true) by (unfold fabs; rewrite is_finite_Babs; exact Fx).
  assert (Fay : is_finite (fabs y) = true) by (unfold fabs; rewrite is_finite_Babs; exact Fy).
  destruct (fcmp_finite (fabs x) (fabs y) Fax Fay) as (_ & G & _). unfold fabs in G. rewrite !B2R_Babs in G. fold fabs in G.
  destruct (fgt (fabs x) (fabs y)) eqn:C.
  - assert (K : Rabs (B2R y) < Rabs (B2R x)) by (apply G; reflexivity).
    assert (Nx : B2R x <> 0) by (intro E; rewrite E, Rabs_R0 in K; pose proof (Rabs_pos (B2R y)); lra).
    apply (hyp_core_finite x y Fx Fy Nx (Rlt_le _ _ K) Bx).
  - assert (K : Rabs (B2R x) <= Rabs (B2R y)).
    { destruct (Rle_lt_dec (Rabs (B2R x)) (Rabs (B2R y))); [assumption|]. apply G in r. discriminate. }
    destruct (fcmp_finite y fzero Fy eq_refl) as (_ & _ & _ & Q). rewrite B2R_fzero in Q.
    destruct (feq y fzero) eqn:Cz; [reflexivity|].
    assert (Ny : B2R y <> 0) by (intro E; apply Q in E; rewrite E in Cz; discriminate).
    apply (hyp_core_finite y x Fy Fx Ny K By).
Qed.
