(* C08 - exchange-level entry points of the executable model (what ocaml/incl_driver.ml calls): numbers come as
   exact dyadics M * 2^E, exactly as harness/c08_incl.c reads them.  Definitions only. *)
From Coq Require Import ZArith Bool List.
From Flocq Require Import Core BinarySingleNaN.
Require Import MPSV.Dpe.DpeDefs MPSV.Dpe.DpeModel MPSV.Incl.InclModel MPSV.Incl.TouchModel.
Import ListNotations.
Open Scope Z_scope.

Inductive variant := VF | VD | VM.

Definition dpe_of_dyadic (m e : Z) : rdpe := rdpe_set_2dl (f_of_Z m) e.

(* |m 2^e| - 1 as a dyadic *)
Definition dy_abs_sub1 (m e : Z) : Z * Z :=
  let a := Z.abs m in if 0 <=? e then (a * 2 ^ e - 1, 0) else (a - 2 ^ (- e), e).

(* the DPE of |z| - 1 that mps_mtouchunit computes, when z lies on an axis and the precision holds z^2 and |z| - 1
   exactly (mpf_mul, mpf_sqrt of a perfect square, mpf_sub_ui are then exact; the caller checks the sizes) *)
Definition m_unit_ab_exact (xm xe ym ye : Z) : option rdpe :=
  if ym =? 0 then Some (let (m, e) := dy_abs_sub1 xm xe in mpf_get_rdpe m e)
  else if xm =? 0 then Some (let (m, e) := dy_abs_sub1 ym ye in mpf_get_rdpe m e)
  else None.

(* mps_?touchreal / imag / unit (s, fac, i) *)
Definition touch3 (v : variant) (fac xm xe ym ye rm re : Z) : bool * bool * option bool :=
  match v with
  | VF => let x := f_of_dyadic xm xe in let y := f_of_dyadic ym ye in let r := f_of_dyadic rm re in
          (ftouch_axis fac r y, ftouch_axis fac r x, Some (ftouch_unit fac r x y))
  | VD => let x := dpe_of_dyadic xm xe in let y := dpe_of_dyadic ym ye in let r := dpe_of_dyadic rm re in
          (dtouch_axis fac r y, dtouch_axis fac r x, Some (dtouch_unit fac r (Cdpe x y)))
  | VM => let r := dpe_of_dyadic rm re in
          (mtouch_axis fac r ym ye, mtouch_axis fac r xm xe,
           match m_unit_ab_exact xm xe ym ye with Some ab => Some (mtouch_unit_ab fac r ab) | None => None end)
  end.

(* the unit-circle outcome of the multiprecision test after fixes/C08_munit_tangent.patch (rdpe_ge in the last line) *)
Definition touch_unit_m_fixed (fac xm xe ym ye rm re : Z) : option bool :=
  match m_unit_ab_exact xm xe ym ye with
  | Some ab => Some (mtouch_unit_ab_ge fac (dpe_of_dyadic rm re) ab)
  | None => None
  end.

(* mps_?touchunit (s, fac, i) of a tree with the repairs applied (f, d: the allowance patches; m: C08_munit_tangent.patch) *)
Definition touch_unit_fixed (v : variant) (fac xm xe ym ye rm re : Z) : option bool :=
  match v with
  | VF => Some (ftouch_unit_fixed fac (f_of_dyadic rm re) (f_of_dyadic xm xe) (f_of_dyadic ym ye))
  | VD => Some (dtouch_unit_fixed fac (dpe_of_dyadic rm re) (Cdpe (dpe_of_dyadic xm xe) (dpe_of_dyadic ym ye)))
  | VM => touch_unit_m_fixed fac xm xe ym ye rm re
  end.

(* the outcomes for one root of a state with n roots; tu iu ic: unit-circle outcomes of the multiprecision code *)
Definition root_obs (v : variant) (n xm xe ym ye rm re : Z) (tu iu ic small : bool) : obs :=
  match v with
  | VF => f_obs n (f_of_dyadic xm xe) (f_of_dyadic ym ye) (f_of_dyadic rm re) small
  | VD => d_obs n (Cdpe (dpe_of_dyadic xm xe) (dpe_of_dyadic ym ye)) (dpe_of_dyadic rm re) small
  | VM => m_obs n xm xe ym ye (dpe_of_dyadic rm re) tu iu ic small
  end.

(* fx: the tree has the allowance patch of that variant applied *)
Definition root_obs_gen (fx : bool) (v : variant) (n xm xe ym ye rm re : Z) (tu iu ic small : bool) : obs :=
  match v, fx with
  | VF, true => f_obs_fixed n (f_of_dyadic xm xe) (f_of_dyadic ym ye) (f_of_dyadic rm re) small
  | VD, true => d_obs_fixed n (Cdpe (dpe_of_dyadic xm xe) (dpe_of_dyadic ym ye)) (dpe_of_dyadic rm re) small
  | _, _ => root_obs v n xm xe ym ye rm re tu iu ic small
  end.

Definition mk_root (o : obs) (small_incl small_det : bool) (i : inclusion) (a : attrs) : root_in :=
  (with_small o small_incl, with_small o small_det, (i, a)).

Definition obs_bits (o : obs) : list bool :=
  [t_unit o; t_imag o; t_real o; t_real1 o; t_imag1 o; t_realn o; t_imagn o].
Definition side_bits (o : obs) : list bool :=
  [in_unit o; in_compl o; re_neg o; re_pos o; im_neg o; im_pos o].
