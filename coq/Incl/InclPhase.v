(* C08 - the classification of ONE root by mps_fupdate_inclusions / mps_dupdate_inclusions, from the numbers the code holds to
   exact geometry: the record of outcomes is the one TouchModel.f_obs / d_obs computes from the centre and radius in the
   arithmetic of the phase (touch tests of common/touch.c, side expressions of common/inclusion.c), the decision is
   InclModel.classify; the conclusion is about every point of the closed disc D(z, r).  This discharges, for the seven
   geometric search sets and the float and DPE phases, the hypothesis `the outcomes are justified by exact geometry'
   (InclProps.obs_sound) of the classification theorem - outside the rounding corner of the unit-circle test
   (r < 2^-49 and | |z| - 1 | < 2^-48), and everywhere for the repaired unit-circle tests. *)
From Coq Require Import ZArith Bool Reals Lra Lia.
From Flocq Require Import Core BinarySingleNaN.
Require Import MPSV.Dpe.DpeDefs MPSV.Dpe.DpeModel MPSV.Dpe.DpeProps MPSV.Dpe.DpeArith.
Require Import MPSV.Incl.InclModel MPSV.Incl.InclGeom MPSV.Incl.InclProps MPSV.Incl.TouchModel MPSV.Incl.TouchExch MPSV.Incl.TouchProps.
Require Import MPSV.Incl.TouchUnitReal MPSV.Incl.TouchUnitD MPSV.Incl.TouchUnitF MPSV.Incl.TouchMp.
Local Open Scope R_scope.

Definition geometric_set (st : search_set) : Prop :=
  match st with S_REAL | S_IMAG | S_CUSTOM => False | _ => True end.

(* ---- pure geometry: the centre's distance to the boundary exceeds r *)
Lemma unit_out_of_sqrt : forall zr zi r x y, 0 <= r -> r + 1 < sqrt (zr * zr + zi * zi) -> in_disc zr zi r x y -> 1 < x * x + y * y.
Proof.
  intros zr zi r x y Hr H Hd. apply (touch_unit_out_sound zr zi r 1 x y); try lra; [|exact Hd].
  set (S := zr * zr + zi * zi) in *.
  assert (S0 : 0 <= S) by (unfold S; pose proof (Rle_0_sqr zr); pose proof (Rle_0_sqr zi); unfold Rsqr in *; lra).
  rewrite <- (sqrt_sqrt S S0). rewrite Rmult_1_l. apply Rmult_le_0_lt_compat; lra.
Qed.

Lemma unit_in_of_sqrt : forall zr zi r x y, 0 <= r -> sqrt (zr * zr + zi * zi) + r < 1 -> in_disc zr zi r x y -> x * x + y * y < 1.
Proof.
  intros zr zi r x y Hr H Hd.
  set (S := zr * zr + zi * zi) in *.
  assert (S0 : 0 <= S) by (unfold S; pose proof (Rle_0_sqr zr); pose proof (Rle_0_sqr zi); unfold Rsqr in *; lra).
  pose proof (sqrt_pos S) as Q0.
  apply (touch_unit_in_sound zr zi r 1 x y); try lra; [|exact Hd]. fold S.
  rewrite <- (sqrt_sqrt S S0). rewrite Rmult_1_l. apply Rmult_le_0_lt_compat; lra.
Qed.

Lemma axis_side : forall c r nf v : R, 1 <= nf -> 0 <= r -> nf * r < Rabs c -> Rabs (v - c) <= r ->
  (c < 0 -> v < 0) /\ (~ c < 0 -> 0 < v) /\ (0 < c -> 0 < v) /\ (~ 0 < c -> v < 0) /\
  (c <= 0 -> v < 0) /\ (~ c <= 0 -> 0 < v) /\ (0 <= c -> 0 < v) /\ (~ 0 <= c -> v < 0).
Proof.
  intros c r nf v Hnf Hr Ht Hv. destruct (touch_axis_sound c r nf v Hnf Hr Ht Hv) as (Hp & Hn & Hz).
  repeat split; intro K; try (apply Hp; lra); try (apply Hn; lra).
Qed.

(* ================================================================ floating point phase *)
Section Float.
Variables (n : Z) (x y r : b64).
Hypothesis Hn : (1 <= n)%Z.
Hypothesis Hn2 : (2 * n < 2 ^ 31)%Z.
Hypothesis Fx : is_finite x = true.
Hypothesis Fy : is_finite y = true.
Hypothesis Fr : is_finite r = true.
Hypothesis Pr : 0 <= B2R r.

Lemma f_axis_case : forall (c : b64) (v : R), is_finite c = true -> ftouch_axis (2 * n) r c = false -> Rabs (v - B2R c) <= B2R r ->
  (flt c fzero = true -> v < 0) /\ (flt c fzero = false -> 0 < v) /\ (fgt c fzero = true -> 0 < v) /\ (fgt c fzero = false -> v < 0).
Proof.
  intros c v Fc H Hv.
  pose proof (ftouch_axis_sound (2 * n) r c ltac:(lia) Fr Fc Pr H) as K.
  assert (N1 : 1 <= IZR (2 * n)) by (apply IZR_le; lia).
  destruct (axis_side (B2R c) (B2R r) (IZR (2 * n)) v N1 Pr K Hv) as (A1 & A2 & A3 & A4 & _).
  destruct (fcmp_finite c fzero Fc eq_refl) as (_ & G & L & _). rewrite B2R_fzero in G, L.
  repeat split; intro E.
  - apply A1, L, E.
  - apply A2. intro C. apply L in C. rewrite C in E. discriminate.
  - apply A3, G, E.
  - apply A4. intro C. apply G in C. rewrite C in E. discriminate.
Qed.

Theorem f_classify_sound : forall (small rs : bool) (cn : nat) (a : attrs) (st : search_set),
  is_finite (cplx_mod_f x y) = true ->
  bpow radix2 (-49) <= B2R r \/ bpow radix2 (-48) <= Rabs (fmod2 x y - 1) ->
  geometric_set st ->
  forall px py : R, in_disc (B2R x) (B2R y) (B2R r) px py ->
  claim_ok st (classify st rs cn (f_obs n x y r small) a) px py.
Proof.
  intros small rs cn a st Fin Hreg Hst px py Hd.
  destruct (in_disc_coord _ _ _ _ _ Pr Hd) as [Cx Cy].
  unfold claim_ok. destruct st; simpl in Hst; try contradiction; unfold classify, f_obs; cbn [t_unit t_imag t_real in_unit in_compl re_neg re_pos im_neg im_pos fst].
  - split; [intros _; exact I|intro K; discriminate].
  - unfold side. destruct (ftouch_unit (2 * n) r x y) eqn:T; [split; intro K; discriminate|].
    destruct (ftouch_unit_sound (2 * n) r x y ltac:(lia) Fr Fx Fy Pr Fin Hreg T) as [(K1 & K2 & K3)|(K1 & K2 & K3)]; rewrite K2; simpl;
      (split; intro K; [try discriminate|try discriminate]).
    + apply (unit_out_of_sqrt _ _ _ _ _ Pr K1 Hd).
    + apply (unit_in_of_sqrt _ _ _ _ _ Pr K1 Hd).
  - unfold side. destruct (ftouch_unit (2 * n) r x y) eqn:T; [split; intro K; discriminate|].
    destruct (ftouch_unit_sound (2 * n) r x y ltac:(lia) Fr Fx Fy Pr Fin Hreg T) as [(K1 & K2 & K3)|(K1 & K2 & K3)]; rewrite K3; simpl;
      (split; intro K; [try discriminate|try discriminate]).
    + apply (unit_out_of_sqrt _ _ _ _ _ Pr K1 Hd).
    + apply (unit_in_of_sqrt _ _ _ _ _ Pr K1 Hd).
  - unfold side. destruct (ftouch_axis (2 * n) r x) eqn:T; [split; intro K; discriminate|].
    destruct (f_axis_case x px Fx T Cx) as (A1 & A2 & A3 & A4).
    destruct (flt x fzero) eqn:E; simpl; split; intro K; try discriminate; [apply A1|apply A2]; reflexivity.
  - unfold side. destruct (ftouch_axis (2 * n) r x) eqn:T; [split; intro K; discriminate|].
    destruct (f_axis_case x px Fx T Cx) as (A1 & A2 & A3 & A4).
    destruct (fgt x fzero) eqn:E; simpl; split; intro K; try discriminate; [apply A3|apply A4]; reflexivity.
  - unfold side. destruct (ftouch_axis (2 * n) r y) eqn:T; [split; intro K; discriminate|].
    destruct (f_axis_case y py Fy T Cy) as (A1 & A2 & A3 & A4).
    destruct (flt y fzero) eqn:E; simpl; split; intro K; try discriminate; [apply A1|apply A2]; reflexivity.
  - unfold side. destruct (ftouch_axis (2 * n) r y) eqn:T; [split; intro K; discriminate|].
    destruct (f_axis_case y py Fy T Cy) as (A1 & A2 & A3 & A4).
    destruct (fgt y fzero) eqn:E; simpl; split; intro K; try discriminate; [apply A3|apply A4]; reflexivity.
Qed.

(* with the repaired unit-circle test (fixes/C08_funit_allowance.patch) there is no corner *)
Theorem f_classify_fixed_sound : forall (small rs : bool) (cn : nat) (a : attrs) (st : search_set),
  is_finite (cplx_mod_f x y) = true ->
  geometric_set st ->
  forall px py : R, in_disc (B2R x) (B2R y) (B2R r) px py ->
  claim_ok st (classify st rs cn (f_obs_fixed n x y r small) a) px py.
Proof.
  intros small rs cn a st Fin Hst px py Hd.
  destruct (in_disc_coord _ _ _ _ _ Pr Hd) as [Cx Cy].
  assert (N1 : 1 <= IZR (2 * n)) by (apply IZR_le; lia).
  assert (Nr : B2R r <= IZR (2 * n) * B2R r) by (rewrite <- (Rmult_1_l (B2R r)) at 1; apply Rmult_le_compat_r; lra).
  unfold claim_ok. destruct st; simpl in Hst; try contradiction; unfold classify, f_obs_fixed, with_unit, f_obs;
    cbn [t_unit t_imag t_real in_unit in_compl re_neg re_pos im_neg im_pos fst].
  - split; [intros _; exact I|intro K; discriminate].
  - unfold side. destruct (ftouch_unit_fixed (2 * n) r x y) eqn:T; [split; intro K; discriminate|].
    destruct (ftouch_unit_fixed_sound (2 * n) r x y ltac:(lia) Fr Fx Fy Pr Fin T) as [(K1 & K2 & K3)|(K1 & K2 & K3)]; rewrite K2; simpl;
      (split; intro K; [try discriminate|try discriminate]).
    + assert (K1' : B2R r + 1 < sqrt (B2R x * B2R x + B2R y * B2R y)) by (unfold fmod2 in K1; lra).
      apply (unit_out_of_sqrt _ _ _ _ _ Pr K1' Hd).
    + assert (K1' : sqrt (B2R x * B2R x + B2R y * B2R y) + B2R r < 1) by (unfold fmod2 in K1; lra).
      apply (unit_in_of_sqrt _ _ _ _ _ Pr K1' Hd).
  - unfold side. destruct (ftouch_unit_fixed (2 * n) r x y) eqn:T; [split; intro K; discriminate|].
    destruct (ftouch_unit_fixed_sound (2 * n) r x y ltac:(lia) Fr Fx Fy Pr Fin T) as [(K1 & K2 & K3)|(K1 & K2 & K3)]; rewrite K3; simpl;
      (split; intro K; [try discriminate|try discriminate]).
    + assert (K1' : B2R r + 1 < sqrt (B2R x * B2R x + B2R y * B2R y)) by (unfold fmod2 in K1; lra).
      apply (unit_out_of_sqrt _ _ _ _ _ Pr K1' Hd).
    + assert (K1' : sqrt (B2R x * B2R x + B2R y * B2R y) + B2R r < 1) by (unfold fmod2 in K1; lra).
      apply (unit_in_of_sqrt _ _ _ _ _ Pr K1' Hd).
  - unfold side. destruct (ftouch_axis (2 * n) r x) eqn:T; [split; intro K; discriminate|].
    destruct (f_axis_case x px Fx T Cx) as (A1 & A2 & A3 & A4).
    destruct (flt x fzero) eqn:E; simpl; split; intro K; try discriminate; [apply A1|apply A2]; reflexivity.
  - unfold side. destruct (ftouch_axis (2 * n) r x) eqn:T; [split; intro K; discriminate|].
    destruct (f_axis_case x px Fx T Cx) as (A1 & A2 & A3 & A4).
    destruct (fgt x fzero) eqn:E; simpl; split; intro K; try discriminate; [apply A3|apply A4]; reflexivity.
  - unfold side. destruct (ftouch_axis (2 * n) r y) eqn:T; [split; intro K; discriminate|].
    destruct (f_axis_case y py Fy T Cy) as (A1 & A2 & A3 & A4).
    destruct (flt y fzero) eqn:E; simpl; split; intro K; try discriminate; [apply A1|apply A2]; reflexivity.
  - unfold side. destruct (ftouch_axis (2 * n) r y) eqn:T; [split; intro K; discriminate|].
    destruct (f_axis_case y py Fy T Cy) as (A1 & A2 & A3 & A4).
    destruct (fgt y fzero) eqn:E; simpl; split; intro K; try discriminate; [apply A3|apply A4]; reflexivity.
Qed.
End Float.

(* ================================================================ DPE phase *)
Section Dpe.
Variables (n : Z) (z : cdpe) (r : rdpe).
Hypothesis Hn : (1 <= n)%Z.
Hypothesis Hn2 : (2 * n < 2 ^ 31)%Z.
Hypothesis Nz : cnormalised z.
Hypothesis Sz : csmall z.
Hypothesis Nr : normalised r.
Hypothesis Pr : 0 <= rval r.
Hypothesis Er : (Z.abs (esp r) <= 2 ^ 60)%Z.

Lemma zero_facts : normalised rdpe_zero /\ rval rdpe_zero = 0 /\ in_long (esp rdpe_zero).
Proof.
  split; [split; [reflexivity | left; split; reflexivity]|]. split; [unfold rval; simpl; ring|].
  unfold in_long, LONG_MIN, LONG_MAX; simpl; lia.
Qed.

Lemma small_long : forall c : rdpe, esp_small c -> in_long (esp c) /\ (LONG_MIN + 2000 <= esp c <= LONG_MAX - 2000)%Z.
Proof.
  intros c H. unfold esp_small in H. change (2 ^ 60)%Z with 1152921504606846976%Z in H.
  unfold in_long, LONG_MIN, LONG_MAX. lia.
Qed.

Lemma d_axis_case : forall (c : rdpe) (v : R), normalised c -> esp_small c -> dtouch_axis (2 * n) r c = false ->
  Rabs (v - rval c) <= rval r ->
  (rdpe_le c rdpe_zero = true -> v < 0) /\ (rdpe_le c rdpe_zero = false -> 0 < v) /\
  (rdpe_ge c rdpe_zero = true -> 0 < v) /\ (rdpe_ge c rdpe_zero = false -> v < 0).
Proof.
  intros c v Nc Sc H Hv.
  destruct (small_long c Sc) as (Lc & _). destruct (small_long r Er) as (_ & Lr).
  pose proof (dtouch_axis_sound (2 * n) r c ltac:(lia) Nr Nc Pr Lr Lc H) as K.
  assert (N1 : 1 <= IZR (2 * n)) by (apply IZR_le; lia).
  destruct (axis_side (rval c) (rval r) (IZR (2 * n)) v N1 Pr K Hv) as (_ & _ & _ & _ & A1 & A2 & A3 & A4).
  destruct zero_facts as (N0 & V0 & L0).
  pose proof (dpe_le_iff c rdpe_zero Nc N0 Lc L0) as LE. pose proof (dpe_ge_iff c rdpe_zero Nc N0 Lc L0) as GE.
  rewrite V0 in LE, GE.
  repeat split; intro E.
  - apply A1, LE, E.
  - apply A2. intro C. apply LE in C. rewrite C in E. discriminate.
  - apply A3, GE, E.
  - apply A4. intro C. apply GE in C. rewrite C in E. discriminate.
Qed.

Theorem d_classify_sound : forall (small rs : bool) (cn : nat) (a : attrs) (st : search_set),
  bpow radix2 (-49) <= rval r \/ bpow radix2 (-48) <= Rabs (zmod z - 1) ->
  geometric_set st ->
  forall px py : R, in_disc (rval (cre z)) (rval (cim z)) (rval r) px py ->
  claim_ok st (classify st rs cn (d_obs n z r small) a) px py.
Proof.
  intros small rs cn a st Hreg Hst px py Hd.
  destruct (in_disc_coord _ _ _ _ _ Pr Hd) as [Cx Cy].
  destruct Nz as [Nre Nim]. destruct Sz as [Sre Sim].
  unfold claim_ok. destruct st; simpl in Hst; try contradiction; unfold classify, d_obs; cbn [t_unit t_imag t_real in_unit in_compl re_neg re_pos im_neg im_pos fst].
  - split; [intros _; exact I|intro K; discriminate].
  - unfold side. destruct (dtouch_unit (2 * n) r z) eqn:T; [split; intro K; discriminate|].
    destruct (dtouch_unit_sound (2 * n) r z ltac:(lia) Nr Pr Er (conj Nre Nim) (conj Sre Sim) Hreg T) as [(K1 & K2 & K3)|(K1 & K2 & K3)]; rewrite K2; simpl;
      (split; intro K; [try discriminate|try discriminate]).
    + apply (unit_out_of_sqrt _ _ _ _ _ Pr K1 Hd).
    + apply (unit_in_of_sqrt _ _ _ _ _ Pr K1 Hd).
  - unfold side. destruct (dtouch_unit (2 * n) r z) eqn:T; [split; intro K; discriminate|].
    destruct (dtouch_unit_sound (2 * n) r z ltac:(lia) Nr Pr Er (conj Nre Nim) (conj Sre Sim) Hreg T) as [(K1 & K2 & K3)|(K1 & K2 & K3)]; rewrite K3; simpl;
      (split; intro K; [try discriminate|try discriminate]).
    + apply (unit_out_of_sqrt _ _ _ _ _ Pr K1 Hd).
    + apply (unit_in_of_sqrt _ _ _ _ _ Pr K1 Hd).
  - unfold side. destruct (dtouch_axis (2 * n) r (cre z)) eqn:T; [split; intro K; discriminate|].
    destruct (d_axis_case (cre z) px Nre Sre T Cx) as (A1 & A2 & A3 & A4).
    destruct (rdpe_le (cre z) rdpe_zero) eqn:E; simpl; split; intro K; try discriminate; [apply A1|apply A2]; reflexivity.
  - unfold side. destruct (dtouch_axis (2 * n) r (cre z)) eqn:T; [split; intro K; discriminate|].
    destruct (d_axis_case (cre z) px Nre Sre T Cx) as (A1 & A2 & A3 & A4).
    destruct (rdpe_ge (cre z) rdpe_zero) eqn:E; simpl; split; intro K; try discriminate; [apply A3|apply A4]; reflexivity.
  - unfold side. destruct (dtouch_axis (2 * n) r (cim z)) eqn:T; [split; intro K; discriminate|].
    destruct (d_axis_case (cim z) py Nim Sim T Cy) as (A1 & A2 & A3 & A4).
    destruct (rdpe_le (cim z) rdpe_zero) eqn:E; simpl; split; intro K; try discriminate; [apply A1|apply A2]; reflexivity.
  - unfold side. destruct (dtouch_axis (2 * n) r (cim z)) eqn:T; [split; intro K; discriminate|].
    destruct (d_axis_case (cim z) py Nim Sim T Cy) as (A1 & A2 & A3 & A4).
    destruct (rdpe_ge (cim z) rdpe_zero) eqn:E; simpl; split; intro K; try discriminate; [apply A3|apply A4]; reflexivity.
Qed.

(* with the repaired unit-circle test (fixes/C08_dunit_allowance.patch) there is no corner *)
Theorem d_classify_fixed_sound : forall (small rs : bool) (cn : nat) (a : attrs) (st : search_set),
  geometric_set st ->
  forall px py : R, in_disc (rval (cre z)) (rval (cim z)) (rval r) px py ->
  claim_ok st (classify st rs cn (d_obs_fixed n z r small) a) px py.
Proof.
  intros small rs cn a st Hst px py Hd.
  destruct (in_disc_coord _ _ _ _ _ Pr Hd) as [Cx Cy].
  destruct Nz as [Nre Nim]. destruct Sz as [Sre Sim].
  assert (N1 : 1 <= IZR (2 * n)) by (apply IZR_le; lia).
  assert (Nrr : rval r <= IZR (2 * n) * rval r) by (rewrite <- (Rmult_1_l (rval r)) at 1; apply Rmult_le_compat_r; lra).
  unfold claim_ok. destruct st; simpl in Hst; try contradiction; unfold classify, d_obs_fixed, with_unit, d_obs;
    cbn [t_unit t_imag t_real in_unit in_compl re_neg re_pos im_neg im_pos fst].
  - split; [intros _; exact I|intro K; discriminate].
  - unfold side. destruct (dtouch_unit_fixed (2 * n) r z) eqn:T; [split; intro K; discriminate|].
    destruct (dtouch_unit_fixed_sound (2 * n) r z ltac:(lia) Nr Pr Er (conj Nre Nim) (conj Sre Sim) T) as [(K1 & K2 & K3)|(K1 & K2 & K3)]; rewrite K2; simpl;
      (split; intro K; [try discriminate|try discriminate]).
    + assert (K1' : rval r + 1 < sqrt (rval (cre z) * rval (cre z) + rval (cim z) * rval (cim z))) by (unfold zmod in K1; lra).
      apply (unit_out_of_sqrt _ _ _ _ _ Pr K1' Hd).
    + assert (K1' : sqrt (rval (cre z) * rval (cre z) + rval (cim z) * rval (cim z)) + rval r < 1) by (unfold zmod in K1; lra).
      apply (unit_in_of_sqrt _ _ _ _ _ Pr K1' Hd).
  - unfold side. destruct (dtouch_unit_fixed (2 * n) r z) eqn:T; [split; intro K; discriminate|].
    destruct (dtouch_unit_fixed_sound (2 * n) r z ltac:(lia) Nr Pr Er (conj Nre Nim) (conj Sre Sim) T) as [(K1 & K2 & K3)|(K1 & K2 & K3)]; rewrite K3; simpl;
      (split; intro K; [try discriminate|try discriminate]).
    + assert (K1' : rval r + 1 < sqrt (rval (cre z) * rval (cre z) + rval (cim z) * rval (cim z))) by (unfold zmod in K1; lra).
      apply (unit_out_of_sqrt _ _ _ _ _ Pr K1' Hd).
    + assert (K1' : sqrt (rval (cre z) * rval (cre z) + rval (cim z) * rval (cim z)) + rval r < 1) by (unfold zmod in K1; lra).
      apply (unit_in_of_sqrt _ _ _ _ _ Pr K1' Hd).
  - unfold side. destruct (dtouch_axis (2 * n) r (cre z)) eqn:T; [split; intro K; discriminate|].
    destruct (d_axis_case (cre z) px Nre Sre T Cx) as (A1 & A2 & A3 & A4).
    destruct (rdpe_le (cre z) rdpe_zero) eqn:E; simpl; split; intro K; try discriminate; [apply A1|apply A2]; reflexivity.
  - unfold side. destruct (dtouch_axis (2 * n) r (cre z)) eqn:T; [split; intro K; discriminate|].
    destruct (d_axis_case (cre z) px Nre Sre T Cx) as (A1 & A2 & A3 & A4).
    destruct (rdpe_ge (cre z) rdpe_zero) eqn:E; simpl; split; intro K; try discriminate; [apply A3|apply A4]; reflexivity.
  - unfold side. destruct (dtouch_axis (2 * n) r (cim z)) eqn:T; [split; intro K; discriminate|].
    destruct (d_axis_case (cim z) py Nim Sim T Cy) as (A1 & A2 & A3 & A4).
    destruct (rdpe_le (cim z) rdpe_zero) eqn:E; simpl; split; intro K; try discriminate; [apply A1|apply A2]; reflexivity.
  - unfold side. destruct (dtouch_axis (2 * n) r (cim z)) eqn:T; [split; intro K; discriminate|].
    destruct (d_axis_case (cim z) py Nim Sim T Cy) as (A1 & A2 & A3 & A4).
    destruct (rdpe_ge (cim z) rdpe_zero) eqn:E; simpl; split; intro K; try discriminate; [apply A3|apply A4]; reflexivity.
Qed.
End Dpe.

(* ================================================================ multiprecision phase, the four half planes
   (the unit-circle outcomes of m_obs come from mpc_mod, which is not modelled bit for bit: C08_mtouch_unit_sound_partial) *)
Section Mp.
Variables (n xm xe ym ye : Z) (r : rdpe).
Hypothesis Hn : (1 <= n)%Z.
Hypothesis Hn2 : (2 * n < 2 ^ 31)%Z.
Hypothesis Nr : normalised r.
Hypothesis Pr : 0 <= rval r.
Hypothesis Er : (LONG_MIN + 2000 <= esp r <= LONG_MAX - 2000)%Z.
Hypothesis Xlo : (LONG_MIN + 2000 <= xe)%Z.
Hypothesis Xhi : (xe + Z.log2 (Z.abs xm) <= LONG_MAX - 2000)%Z.
Hypothesis Ylo : (LONG_MIN + 2000 <= ye)%Z.
Hypothesis Yhi : (ye + Z.log2 (Z.abs ym) <= LONG_MAX - 2000)%Z.

Definition half_plane (st : search_set) : Prop :=
  match st with S_NEG_RE | S_POS_RE | S_NEG_IM | S_POS_IM => True | _ => False end.

Lemma m_axis_case : forall (cm ce : Z) (v : R),
  (LONG_MIN + 2000 <= ce)%Z -> (ce + Z.log2 (Z.abs cm) <= LONG_MAX - 2000)%Z ->
  mtouch_axis (2 * n) r cm ce = false -> Rabs (v - dy cm ce) <= rval r ->
  (rdpe_le (mpf_get_rdpe cm ce) rdpe_zero = true -> v < 0) /\ (rdpe_le (mpf_get_rdpe cm ce) rdpe_zero = false -> 0 < v) /\
  (rdpe_ge (mpf_get_rdpe cm ce) rdpe_zero = true -> 0 < v) /\ (rdpe_ge (mpf_get_rdpe cm ce) rdpe_zero = false -> v < 0).
Proof.
  intros cm ce v Lo Hi H Hv.
  pose proof (mtouch_axis_sound (2 * n) r cm ce ltac:(lia) Nr Pr Er Lo Hi H) as K.
  assert (N1 : 1 <= IZR (2 * n)) by (apply IZR_le; lia).
  destruct (axis_side (dy cm ce) (rval r) (IZR (2 * n)) v N1 Pr K Hv) as (_ & _ & _ & _ & A1 & A2 & A3 & A4).
  destruct (mside_axis_sound cm ce Lo Hi) as (LE & GE).
  repeat split; intro E.
  - apply A1, LE, E.
  - apply A2. intro C. apply LE in C. rewrite C in E. discriminate.
  - apply A3, GE, E.
  - apply A4. intro C. apply GE in C. rewrite C in E. discriminate.
Qed.

Theorem m_classify_halfplane_sound : forall (tu iu ic small rs : bool) (cn : nat) (a : attrs) (st : search_set),
  half_plane st ->
  forall px py : R, in_disc (dy xm xe) (dy ym ye) (rval r) px py ->
  claim_ok st (classify st rs cn (m_obs n xm xe ym ye r tu iu ic small) a) px py.
Proof.
  intros tu iu ic small rs cn a st Hst px py Hd.
  destruct (in_disc_coord _ _ _ _ _ Pr Hd) as [Cx Cy].
  unfold claim_ok. destruct st; simpl in Hst; try contradiction; unfold classify, m_obs; cbn [t_unit t_imag t_real in_unit in_compl re_neg re_pos im_neg im_pos fst].
  - unfold side. destruct (mtouch_axis (2 * n) r xm xe) eqn:T; [split; intro K; discriminate|].
    destruct (m_axis_case xm xe px Xlo Xhi T Cx) as (A1 & A2 & A3 & A4).
    destruct (rdpe_le (mpf_get_rdpe xm xe) rdpe_zero) eqn:E; simpl; split; intro K; try discriminate; [apply A1|apply A2]; reflexivity.
  - unfold side. destruct (mtouch_axis (2 * n) r xm xe) eqn:T; [split; intro K; discriminate|].
    destruct (m_axis_case xm xe px Xlo Xhi T Cx) as (A1 & A2 & A3 & A4).
    destruct (rdpe_ge (mpf_get_rdpe xm xe) rdpe_zero) eqn:E; simpl; split; intro K; try discriminate; [apply A3|apply A4]; reflexivity.
  - unfold side. destruct (mtouch_axis (2 * n) r ym ye) eqn:T; [split; intro K; discriminate|].
    destruct (m_axis_case ym ye py Ylo Yhi T Cy) as (A1 & A2 & A3 & A4).
    destruct (rdpe_le (mpf_get_rdpe ym ye) rdpe_zero) eqn:E; simpl; split; intro K; try discriminate; [apply A1|apply A2]; reflexivity.
  - unfold side. destruct (mtouch_axis (2 * n) r ym ye) eqn:T; [split; intro K; discriminate|].
    destruct (m_axis_case ym ye py Ylo Yhi T Cy) as (A1 & A2 & A3 & A4).
    destruct (rdpe_ge (mpf_get_rdpe ym ye) rdpe_zero) eqn:E; simpl; split; intro K; try discriminate; [apply A3|apply A4]; reflexivity.
Qed.
End Mp.
