(* C08 - soundness of the coded touch tests (TouchModel.v) with respect to exact geometry. *)
From Coq Require Import ZArith Bool Reals Lra Lia.
From Flocq Require Import Core BinarySingleNaN.
Require Import MPSV.Dpe.DpeDefs MPSV.Dpe.DpeModel MPSV.Dpe.DpeProps MPSV.Incl.InclModel MPSV.Incl.TouchModel MPSV.Incl.TouchExch.
Local Open Scope R_scope.

Notation fexp64 := (SpecFloat.fexp 53 1024).
Notation rnd64 := (round radix2 fexp64 ZnearestE).

(* ---- (double) n is exact for |n| < 2^53 *)
Lemma format_IZR : forall n : Z, (Z.abs n < 2 ^ 53)%Z -> generic_format radix2 fexp64 (IZR n).
Proof.
  intros n Hn. change fexp64 with (FLT_exp (-1074) 53).
  apply generic_format_FLT. apply (FLT_spec radix2 (-1074) 53 (IZR n) (Float radix2 n 0)).
  - unfold F2R; simpl. ring.
  - simpl. exact Hn.
  - simpl. lia.
Qed.

Lemma f_of_Z_correct : forall n : Z, (Z.abs n < 2 ^ 53)%Z ->
  B2R (f_of_Z n) = IZR n /\ is_finite (f_of_Z n) = true /\ Bsign (f_of_Z n) = Rlt_bool (IZR n) 0.
Proof.
  intros n Hn. unfold f_of_Z.
  pose proof (binary_normalize_correct 53 1024 Hprec53 Hmax1024 mode_NE n 0 false) as H.
  cbv zeta in H. change (round_mode mode_NE) with ZnearestE in H.
  assert (E : F2R (Float radix2 n 0) = IZR n) by (unfold F2R; simpl; ring).
  rewrite E in H. rewrite (round_generic radix2 fexp64 ZnearestE (IZR n) (format_IZR n Hn)) in H.
  assert (Hlt : Rabs (IZR n) < bpow radix2 1024).
  { rewrite <- abs_IZR. apply Rlt_trans with (IZR (2 ^ 53)). apply IZR_lt; exact Hn.
    change (IZR (2 ^ 53)) with (bpow radix2 53). apply bpow_lt. lia. }
  rewrite Rlt_bool_true in H by exact Hlt. destruct H as (H1 & H2 & H3). repeat split; auto.
Qed.

Lemma fge_false_finite : forall a b : b64, is_finite a = true -> is_finite b = true ->
  fge a b = false -> B2R a < B2R b.
Proof.
  intros a b Fa Fb H. unfold fge in H. rewrite (Bcompare_correct 53 1024 a b Fa Fb) in H.
  destruct (Rcompare_spec (B2R a) (B2R b)); try discriminate. assumption.
Qed.

Lemma Bsign_true_le0 : forall a : b64, is_finite a = true -> Bsign a = true -> B2R a <= 0.
Proof.
  intros [s|s| |s m e He] Fa Hs; simpl in *; try discriminate; try lra.
  subst s. apply Rlt_le. apply F2R_lt_0. simpl. lia.
Qed.

(* ---------------------------------------------------------------- mps_ftouchreal / mps_ftouchimag
   If the test says `no touch' then n * r < |c| in exact arithmetic: the product n * frad is rounded to nearest,
   rounding is monotone and |c| is a double.  The DBL_MAX / n guard only ever answers `touch'. *)
Theorem ftouch_axis_sound : forall (n : Z) (r c : b64),
  (1 <= n < 2 ^ 31)%Z -> is_finite r = true -> is_finite c = true -> 0 <= B2R r ->
  ftouch_axis n r c = false -> IZR n * B2R r < Rabs (B2R c).
Proof.
  intros n r c Hn Fr Fc Hr H.
  destruct (f_of_Z_correct n) as (Vn & Fn & Sn). { lia. }
  unfold ftouch_axis in H. destruct (fge r (fdiv DBL_MAX (f_of_Z n))); [discriminate|].
  set (nd := f_of_Z n) in *.
  assert (Fabs : is_finite (fabs c) = true) by (destruct c; auto).
  pose proof (Bmult_correct 53 1024 Hprec53 Hmax1024 mode_NE nd r) as HB.
  change (round_mode mode_NE) with ZnearestE in HB. rewrite Vn in HB.
  destruct (Rlt_bool (Rabs (rnd64 (IZR n * B2R r))) (bpow radix2 1024)) eqn:Hov.
  - destruct HB as (V & F & _). rewrite Fn, Fr in F. simpl in F.
    pose proof (fge_false_finite _ _ F Fabs H) as Hlt. unfold fmul in Hlt. rewrite V in Hlt.
    unfold fabs in Hlt. rewrite B2R_Babs in Hlt.
    destruct (Rlt_le_dec (IZR n * B2R r) (Rabs (B2R c))) as [|Hge]; [assumption|exfalso].
    assert (G : generic_format radix2 fexp64 (Rabs (B2R c))).
    { apply generic_format_abs. apply generic_format_B2R. }
    pose proof (round_le radix2 fexp64 ZnearestE _ _ Hge) as Hm.
    rewrite (round_generic radix2 fexp64 ZnearestE _ G) in Hm. lra.
  - (* overflow of n * frad: the product is +infinity, the test says touch *)
    exfalso. unfold fge, fmul in H.
    assert (Hs : Bsign r = false).
    { destruct (Bsign r) eqn:E; [|reflexivity]. pose proof (Bsign_true_le0 r Fr E).
      assert (B2R r = 0) by lra. rewrite H1, Rmult_0_r, round_0, Rabs_R0 in Hov; [|typeclasses eauto].
      rewrite Rlt_bool_true in Hov by (apply bpow_gt_0). discriminate. }
    assert (Hsn : Bsign nd = false).
    { rewrite Sn. apply Rlt_bool_false. apply IZR_le. lia. }
    rewrite Hs, Hsn in HB. simpl in HB.
    destruct (Bmult mode_NE nd r) as [s|s| |s m e He]; simpl in HB; try discriminate.
    injection HB as ->. destruct (fabs c); simpl in *; discriminate.
Qed.

(* the side read off the centre, together with `no touch', puts the whole scaled disc on that side: corollary used
   by the classification theorems (InclProps.obs_sound's os_real / os_imag with nf = n) *)
Corollary ftouch_axis_clear : forall (n : Z) (r c : b64) (v : R),
  (1 <= n < 2 ^ 31)%Z -> is_finite r = true -> is_finite c = true -> 0 <= B2R r ->
  ftouch_axis n r c = false -> Rabs (v - B2R c) <= IZR n * B2R r -> v <> 0.
Proof.
  intros n r c v Hn Fr Fc Hr H Hv. pose proof (ftouch_axis_sound n r c Hn Fr Fc Hr H) as K.
  intro E. subst v. unfold Rminus in Hv. rewrite Rplus_0_l, Rabs_Ropp in Hv. lra.
Qed.

(* ---------------------------------------------------------------- mps_dtouchreal / mps_dtouchimag (DPE model of C12)
   rdpe_mul_d rounds the mantissa product to nearest and renormalises exactly (norm_exact), rdpe_abs is exact, rdpe_ge
   decides the exact order (order_correct): `no touch' implies n * r < |c| exactly, by monotonicity of the rounding. *)
Lemma format_scale : forall (x : R) (k : Z), (0 <= k)%Z ->
  generic_format radix2 fexp64 x -> generic_format radix2 fexp64 (x * bpow radix2 k).
Proof.
  intros x k Hk G. change fexp64 with (FLT_exp (-1074) 53) in *.
  apply FLT_format_generic in G; [|typeclasses eauto]. destruct G as [f Hx Hm He].
  apply generic_format_FLT. apply (FLT_spec radix2 (-1074) 53 _ (Float radix2 (Fnum f) (Fexp f + k))).
  - rewrite Hx. unfold F2R; simpl. rewrite bpow_plus. ring.
  - simpl. exact Hm.
  - simpl. lia.
Qed.

Lemma norm_esp_in_long : forall (m : b64) (e : Z),
  is_finite m = true -> in_long (e + snd (ffrexp m)) -> in_long (esp (rdpe_norm (Rdpe m e))).
Proof.
  intros m e Hm Hl. unfold rdpe_norm. cbn [mnt esp].
  pose proof (ffrexp_spec m Hm) as H. destruct (ffrexp m) as [z i]. simpl in Hl.
  destruct H as [Hz [Hv [[H0 [Hz0 [Hi Hq]]]|[Hn [Hb [Hi Hq]]]]]].
  - unfold rdpe_set_esp. cbn [mnt]. rewrite Hq. simpl. unfold in_long, LONG_MIN, LONG_MAX. lia.
  - rewrite (set_esp_exact z e e i false Hq Hl). simpl. exact Hl.
Qed.

Lemma rdpe_abs_spec : forall c, normalised c ->
  normalised (rdpe_abs c) /\ rval (rdpe_abs c) = Rabs (rval c) /\ esp (rdpe_abs c) = esp c.
Proof.
  intros c [Fc Nc]. unfold rdpe_abs.
  assert (Hp := bpow_gt_0 radix2 (esp c)).
  destruct (sign_bools _ Fc) as [[S [A1 _]]|[[S [A1 _]]|[S [A1 _]]]]; rewrite A1.
  - split; [|split]; [split; assumption| |reflexivity]. destruct c as [m e]; simpl in *.
    unfold rval; simpl. rewrite Rabs_pos_eq; [reflexivity|]. apply Rmult_le_pos; lra.
  - assert (V : B2R (fneg (mnt c)) = - B2R (mnt c)) by (unfold fneg; apply B2R_Bopp).
    assert (F : is_finite (fneg (mnt c)) = true) by (unfold fneg; rewrite is_finite_Bopp; assumption).
    split; [|split]; [| |reflexivity].
    + split; [exact F|]. cbn [mnt esp]. rewrite V, Rabs_Ropp. destruct Nc as [[Z0 E0]|B]; [lra|right; exact B].
    + unfold rval; cbn [mnt esp]. rewrite V. rewrite Rabs_left; [ring|]. nra.
  - assert (V : B2R (fneg (mnt c)) = - B2R (mnt c)) by (unfold fneg; apply B2R_Bopp).
    assert (F : is_finite (fneg (mnt c)) = true) by (unfold fneg; rewrite is_finite_Bopp; assumption).
    split; [|split]; [| |reflexivity].
    + split; [exact F|]. cbn [mnt esp]. rewrite V, Rabs_Ropp. destruct Nc as [[Z0 E0]|B]; [left; split; [lra|exact E0]|right; exact B].
    + unfold rval; cbn [mnt esp]. rewrite V, S. rewrite Ropp_0, !Rmult_0_l, Rabs_R0. reflexivity.
Qed.

Lemma fmt_half : generic_format radix2 fexp64 (/2).
Proof. change (/2) with (bpow radix2 (-1)). apply generic_format_bpow. vm_compute. discriminate. Qed.

Theorem dtouch_axis_sound : forall (n : Z) (r c : rdpe),
  (1 <= n < 2 ^ 31)%Z -> normalised r -> normalised c -> 0 <= rval r ->
  (LONG_MIN + 2000 <= esp r <= LONG_MAX - 2000)%Z -> in_long (esp c) ->
  dtouch_axis n r c = false -> IZR n * rval r < Rabs (rval c).
Proof.
  intros n r c Hn Nr Nc Hr0 Her Hec H.
  destruct (f_of_Z_correct n) as (Vn & Fn & _). { lia. }
  unfold dtouch_axis, rdpe_mul_d in H. set (nd := f_of_Z n) in *.
  pose proof (ffrexp_exp_bound nd Fn) as Bi.
  unfold mul_ovf, mul_unf in H.
  replace ((0 <=? esp r)%Z && (LONG_MAX - esp r <=? snd (ffrexp nd))%Z) with false in H
    by (unfold LONG_MAX, LONG_MIN in *; lia).
  replace ((esp r <=? 0)%Z && (snd (ffrexp nd) <=? LONG_MIN - esp r)%Z) with false in H
    by (unfold LONG_MAX, LONG_MIN in *; lia).
  set (m := B2R (mnt r)). set (e := esp r) in H, Her |- *.
  assert (Fm := proj1 Nr).
  assert (Bm : 0 <= m < 1).
  { destruct Nr as [_ [[Z0 _]|B]]; fold m in Z0 || fold m in B. lra.
    assert (0 <= m). { unfold rval in Hr0. fold m e in Hr0. pose proof (bpow_gt_0 radix2 e). 
      destruct (Rle_lt_dec 0 m); [assumption|]. exfalso. nra. }
    rewrite Rabs_pos_eq in B by assumption. lra. }
  assert (Bn : 1 <= IZR n < bpow radix2 31).
  { split. apply IZR_le; lia. change (bpow radix2 31) with (IZR (2 ^ 31)). apply IZR_lt; lia. }
  set (f := fmul (mnt r) nd) in *.
  assert (Bmn : 0 <= m * IZR n <= bpow radix2 31) by (split; nra).
  assert (G31 : generic_format radix2 fexp64 (bpow radix2 31)) by (apply generic_format_bpow; vm_compute; discriminate).
  assert (Hrnd : 0 <= rnd64 (m * IZR n) <= bpow radix2 31).
  { split. apply round_ge_generic; try typeclasses eauto. apply generic_format_0. lra.
    apply round_le_generic; try typeclasses eauto. assumption. lra. }
  pose proof (Bmult_correct 53 1024 Hprec53 Hmax1024 mode_NE (mnt r) nd) as HB.
  change (round_mode mode_NE) with ZnearestE in HB. rewrite Vn in HB. fold m in HB.
  rewrite Rlt_bool_true in HB.
  2:{ rewrite Rabs_pos_eq by lra. apply Rle_lt_trans with (bpow radix2 31). lra. apply bpow_lt. lia. }
  destruct HB as (Vf & Ff & _). rewrite Fm, Fn in Ff. simpl in Ff.
  change (B2R f = rnd64 (m * IZR n)) in Vf. change (is_finite f = true) in Ff.
  pose proof (ffrexp_exp_bound f Ff) as Bf.
  assert (Hl : in_long (e + snd (ffrexp f))) by (unfold in_long, LONG_MAX, LONG_MIN in *; lia).
  destruct (norm_exact f e Ff Hl) as [NP VP]. pose proof (norm_esp_in_long f e Ff Hl) as LP.
  destruct (rdpe_abs_spec c Nc) as (NA & VA & EA).
  set (P := rdpe_norm (Rdpe f e)) in *.
  assert (LA : in_long (esp (rdpe_abs c))) by (rewrite EA; assumption).
  pose proof (order_correct OGe P (rdpe_abs c) NP NA LP LA) as OC.
  change (rdpe_ord OGe P (rdpe_abs c)) with (rdpe_ge P (rdpe_abs c)) in OC. rewrite H in OC.
  assert (Hlt : rval P < Rabs (rval c)).
  { destruct (Rlt_le_dec (rval P) (Rabs (rval c))) as [|Hge]; [assumption|exfalso].
    assert (K : ord_R OGe (rval P) (rval (rdpe_abs c))) by (simpl; rewrite VA; lra).
    apply OC in K. discriminate. }
  rewrite VP in Hlt. unfold rval in Hlt at 1. cbn [mnt esp] in Hlt. rewrite Vf in Hlt.
  (* monotonicity of the rounding *)
  assert (Hp := bpow_gt_0 radix2 e).
  unfold rval at 1. fold m e.
  destruct (Rlt_le_dec (IZR n * (m * bpow radix2 e)) (Rabs (rval c))) as [|Hge]; [assumption|exfalso].
  set (C := Rabs (rval c)) in *.
  set (t := C * bpow radix2 (- e)).
  assert (Ht : t <= m * IZR n).
  { unfold t. apply Rmult_le_reg_r with (bpow radix2 e); [assumption|].
    rewrite Rmult_assoc, <- bpow_plus. replace (- e + e)%Z with 0%Z by lia. simpl. lra. }
  assert (Hrt : t <= rnd64 (m * IZR n)).
  { destruct Nc as [Fc [[Z0 E0]|B]].
    - assert (C = 0). { unfold C, rval. rewrite Z0, Rmult_0_l, Rabs_R0. reflexivity. }
      unfold t. rewrite H0, Rmult_0_l. lra.
    - set (mc := Rabs (B2R (mnt c))) in *.
      assert (Ct : t = mc * bpow radix2 (esp c - e)).
      { unfold t, C, rval. rewrite Rabs_mult, (Rabs_pos_eq (bpow radix2 (esp c))) by apply bpow_ge_0.
        fold mc. unfold Zminus. rewrite bpow_plus. ring. }
      destruct (Rlt_le_dec t (/2)) as [Hs|Hb].
      + assert (/2 <= m * IZR n).
        { destruct (Req_dec m 0) as [M0|M0].
          - exfalso. rewrite M0, Rmult_0_l in Ht. rewrite Ct in Ht. pose proof (bpow_gt_0 radix2 (esp c - e)). nra.
          - destruct Nr as [_ [[Z0 _]|B']]; [fold m in Z0; contradiction|]. fold m in B'. rewrite Rabs_pos_eq in B' by lra. nra. }
        assert (/2 <= rnd64 (m * IZR n)).
        { apply round_ge_generic; try typeclasses eauto. apply fmt_half. assumption. }
        lra.
      + assert (Hk : (0 <= esp c - e)%Z).
        { destruct (Z_lt_le_dec (esp c - e) 0) as [Hneg|]; [exfalso|assumption].
          assert (bpow radix2 (esp c - e) <= bpow radix2 (-1)) by (apply bpow_le; lia).
          change (bpow radix2 (-1)) with (/2) in H0. pose proof (bpow_gt_0 radix2 (esp c - e)). rewrite Ct in Hb. nra. }
        apply round_ge_generic; try typeclasses eauto; [|assumption].
        rewrite Ct. apply format_scale; [assumption|]. unfold mc. apply generic_format_abs. apply generic_format_B2R. }
  assert (C <= rnd64 (m * IZR n) * bpow radix2 e).
  { replace C with (t * bpow radix2 e).
    - apply Rmult_le_compat_r; lra.
    - unfold t. rewrite Rmult_assoc, <- bpow_plus. replace (- e + e)%Z with 0%Z by lia. simpl. ring. }
  lra.
Qed.

(* mps_mtouchreal / mps_mtouchimag are the same test on c = mpf_get_rdpe (centre coordinate), the coordinate truncated to
   53 bits (definitional) *)
Corollary mtouch_axis_sound_trunc : forall (n : Z) (r : rdpe) (cm ce : Z),
  (1 <= n < 2 ^ 31)%Z -> normalised r -> normalised (mpf_get_rdpe cm ce) -> 0 <= rval r ->
  (LONG_MIN + 2000 <= esp r <= LONG_MAX - 2000)%Z -> in_long (esp (mpf_get_rdpe cm ce)) ->
  mtouch_axis n r cm ce = false -> IZR n * rval r < Rabs (rval (mpf_get_rdpe cm ce)).
Proof. intros. apply dtouch_axis_sound; assumption. Qed.

(* ---------------------------------------------------------------- DPE and multiprecision axis tests, abstractly
   mps_dtouchreal/imag: rdpe_ge (rd (n * r), |c|); mps_mtouchreal/imag: rdpe_ge (rd (n * r), tc) with tc = |c| truncated to
   53 bits (mpf_get_rdpe).  Whatever the rounding rd of the product, as long as it is monotone and leaves the compared
   number unchanged, and tc does not exceed |c|: `no touch' implies n * r < |c| exactly. *)
Theorem axis_test_abstract_sound : forall (rd : R -> R) (n r c tc : R),
  (forall x y, x <= y -> rd x <= rd y) -> rd tc = tc -> tc <= Rabs c ->
  rd (n * r) < tc -> n * r < Rabs c.
Proof.
  intros rd n r c tc Hmono Hfix Htc H.
  destruct (Rlt_le_dec (n * r) (Rabs c)) as [|Hge]; [assumption|exfalso].
  assert (H0 : tc <= n * r) by lra. pose proof (Hmono _ _ H0). lra.
Qed.

(* ---------------------------------------------------------------- refutations at the boundary (witnesses by computation;
   each is replayed on the real function by checks/C08.py through harness/c08_incl.c) *)

(* mps_mtouchunit ends with rdpe_gt (rad, -ab): with the centre ON the circle (ab = |z| - 1 = 0) and radius 0, and for a
   disc tangent from inside (z = 1/2, r = 1/4, factor 2: rad = 1/2 = -ab), it answers `no touch'; with rdpe_ge
   (fixes/C08_munit_tangent.patch) it answers `touch', as mps_ftouchunit / mps_dtouchunit do (rad + ab >= 1) *)
Theorem mtouchunit_tangent_refuted :
  exists r ab r' ab' : rdpe,
    rval r = 0 /\ rval ab = 0 /\ mtouch_unit_ab 2 r ab = false /\ mtouch_unit_ab_ge 2 r ab = true /\
    rval r' = / 4 /\ rval ab' = - / 2 /\ mtouch_unit_ab 2 r' ab' = false /\ mtouch_unit_ab_ge 2 r' ab' = true.
Proof.
  exists rdpe_zero, rdpe_zero, (Rdpe fhalf (-1)), (Rdpe fmhalf 0).
  repeat split; try (vm_compute; reflexivity).
  - unfold rval; simpl. lra.
  - unfold rval; simpl. lra.
  - unfold rval. cbn [mnt esp]. rewrite B2R_fhalf. change (bpow radix2 (-1)) with (/ 2). lra.
  - unfold rval. cbn [mnt esp]. rewrite B2R_fmhalf. change (bpow radix2 0) with 1. lra.
Qed.

(* mps_ftouchunit / mps_fupdate_inclusions read the distance to the circle and the side off the ROUNDED modulus
   cplx_mod (z) without slack.  z = (0x1.202bb20418f6dp-1, 0x1.a7343bb7bba41p-1) lies strictly OUTSIDE the unit circle
   (|z|^2 - 1 ~ 1.9e-17), r = 2^-56, n = 1 (factor 2): the disc meets the circle, cplx_mod gives 1 - 2^-53, the test says
   `no touch' and the side test `inside'. *)
Definition wit_fx : b64 := @B754_finite 53 1024 false 0x1202bb20418f6d (-53) eq_refl.
Definition wit_fy : b64 := @B754_finite 53 1024 false 0x1a7343bb7bba41 (-53) eq_refl.
Definition wit_fr : b64 := @B754_finite 53 1024 false 4503599627370496 (-108) eq_refl.   (* 2^-56 *)

Theorem ftouchunit_refuted :
  exists x y r : b64, is_finite x = true /\ is_finite y = true /\ is_finite r = true /\ 0 <= B2R r /\
    ftouch_unit 2 r x y = false /\ flt (cplx_mod_f x y) fone = true /\
    1 < B2R x * B2R x + B2R y * B2R y <= (1 + B2R r) * (1 + B2R r).
Proof.
  exists wit_fx, wit_fy, wit_fr.
  assert (Vx : B2R wit_fx = 5069552304099181 / 9007199254740992).
  { unfold wit_fx, B2R, F2R; simpl. lra. }
  assert (Vy : B2R wit_fy = 7445084139928129 / 9007199254740992).
  { unfold wit_fy, B2R, F2R; simpl. lra. }
  assert (Vr : B2R wit_fr = 1 / 72057594037927936).
  { unfold wit_fr, B2R, F2R; simpl. lra. }
  repeat split; try (vm_compute; reflexivity); rewrite ?Vx, ?Vy, ?Vr; lra.
Qed.

(* the same for mps_dtouchunit (cdpe_mod: four roundings).  x = X / 2^56, y = Y / 2^56, r = 1 / 2^56 as exact dyadics
   (dpe_of_dyadic m e denotes m * 2^e, C12_norm_exact): (1 - r)^2 <= |z|^2 < 1, the disc reaches the circle from inside,
   the test with factor 2 says `no touch' *)
Definition wit_dz : cdpe := Cdpe (dpe_of_dyadic 8783257514563430 (-53)) (dpe_of_dyadic (-7984009867200034) (-55)).
Definition wit_geom (X Y S : Z) : Prop := ((S - 1) * (S - 1) <= X * X + Y * Y /\ X * X + Y * Y < S * S)%Z.
Theorem dtouchunit_refuted :
  exists X Y S : Z, (X = 8783257514563430 * 8)%Z /\ (Y = -7984009867200034 * 2)%Z /\ (S = 2 ^ 56)%Z /\
    (dtouch_unit 2 (dpe_of_dyadic 1 (-56)) wit_dz = false) /\ wit_geom X Y S.
Proof.
  eexists _, _, _. split; [reflexivity|]. split; [reflexivity|]. split; [reflexivity|].
  split; [vm_compute; reflexivity|]. unfold wit_geom. split; vm_compute; [discriminate | reflexivity].
Qed.
