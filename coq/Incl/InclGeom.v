(* C08 - elementary geometry behind the touch tests, and conjugate symmetry of real polynomials (stdlib Reals). *)
From Coq Require Import Reals Rgeom Lra Lia List.
Import ListNotations.
Local Open Scope R_scope.

Definition in_disc (zr zi r x y : R) : Prop := (x - zr) * (x - zr) + (y - zi) * (y - zi) <= r * r.

Lemma sq_le_abs : forall a r : R, 0 <= r -> a * a <= r * r -> Rabs a <= r.
Proof.
  intros a r Hr H. unfold Rabs. destruct (Rcase_abs a).
  - destruct (Rle_lt_dec (- a) r); auto. exfalso. nra.
  - destruct (Rle_lt_dec a r); auto. exfalso. nra.
Qed.

Lemma in_disc_coord : forall zr zi r x y, 0 <= r -> in_disc zr zi r x y -> Rabs (x - zr) <= r /\ Rabs (y - zi) <= r.
Proof.
  intros zr zi r x y Hr H. unfold in_disc in H. split; apply sq_le_abs; auto.
  - assert (0 <= (y - zi) * (y - zi)) by (apply Rle_0_sqr). lra.
  - assert (0 <= (x - zr) * (x - zr)) by (apply Rle_0_sqr). lra.
Qed.

(* axis: nf * r < |c| with nf >= 1 puts every coordinate within r of c on the side of c *)
Lemma touch_axis_sound : forall c r nf y : R,
  1 <= nf -> 0 <= r -> nf * r < Rabs c -> Rabs (y - c) <= r ->
  (0 < c -> 0 < y) /\ (c < 0 -> y < 0) /\ c <> 0.
Proof.
  intros c r nf y Hnf Hr Ht Hy.
  assert (Hrr : r <= nf * r) by nra.
  unfold Rabs in *. destruct (Rcase_abs c); destruct (Rcase_abs (y - c)); repeat split; intros; lra.
Qed.

Lemma dist_euc_sq : forall x0 y0 x1 y1, dist_euc x0 y0 x1 y1 * dist_euc x0 y0 x1 y1 = (x0 - x1) * (x0 - x1) + (y0 - y1) * (y0 - y1).
Proof.
  intros. unfold dist_euc. rewrite sqrt_sqrt; [unfold Rsqr; ring|].
  apply Rplus_le_le_0_compat; apply Rle_0_sqr.
Qed.

Lemma dist_euc_nonneg : forall x0 y0 x1 y1, 0 <= dist_euc x0 y0 x1 y1.
Proof. intros. unfold dist_euc. apply sqrt_pos. Qed.

Lemma sq_le_le : forall a b, 0 <= a -> 0 <= b -> a * a <= b * b -> a <= b.
Proof. intros a b Ha Hb H. destruct (Rle_lt_dec a b); auto. exfalso. nra. Qed.

Lemma sq_lt_lt : forall a b, 0 <= a -> 0 <= b -> a * a < b * b -> a < b.
Proof. intros a b Ha Hb H. destruct (Rlt_le_dec a b); auto. exfalso. nra. Qed.

Lemma dist_le_of_sq : forall a b c d r, 0 <= r -> (a - c) * (a - c) + (b - d) * (b - d) <= r * r -> dist_euc a b c d <= r.
Proof.
  intros. apply sq_le_le; auto using dist_euc_nonneg. rewrite dist_euc_sq. exact H0.
Qed.

(* unit circle, outside: (nf r + 1)^2 < |z|^2 *)
Lemma touch_unit_out_sound : forall zr zi r nf x y : R,
  1 <= nf -> 0 <= r -> (nf * r + 1) * (nf * r + 1) < zr * zr + zi * zi ->
  in_disc zr zi r x y -> 1 < x * x + y * y.
Proof.
  intros zr zi r nf x y Hnf Hr Ht Hd.
  assert (Hdist : dist_euc zr zi x y <= r).
  { apply dist_le_of_sq; auto. unfold in_disc in Hd. nra. }
  pose proof (triangle zr zi 0 0 x y) as Htri.            (* |z| <= |z - w| + |w| *)
  pose proof (dist_euc_sq zr zi 0 0) as Hm. pose proof (dist_euc_sq x y 0 0) as Hn.
  pose proof (dist_euc_nonneg zr zi 0 0) as Hm0. pose proof (dist_euc_nonneg x y 0 0) as Hn0.
  set (m := dist_euc zr zi 0 0) in *. set (n := dist_euc x y 0 0) in *.
  assert (Hm1 : nf * r + 1 < m).
  { apply sq_lt_lt; try nra. }
  assert (Hn1 : 1 < n) by nra.
  nra.
Qed.

(* unit circle, inside: nf r < 1 and |z|^2 < (1 - nf r)^2 *)
Lemma touch_unit_in_sound : forall zr zi r nf x y : R,
  1 <= nf -> 0 <= r -> nf * r < 1 -> zr * zr + zi * zi < (1 - nf * r) * (1 - nf * r) ->
  in_disc zr zi r x y -> x * x + y * y < 1.
Proof.
  intros zr zi r nf x y Hnf Hr Hlt Ht Hd.
  assert (Hdist : dist_euc x y zr zi <= r).
  { apply dist_le_of_sq; auto. }
  pose proof (triangle x y 0 0 zr zi) as Htri.            (* |w| <= |w - z| + |z| *)
  pose proof (dist_euc_sq zr zi 0 0) as Hm. pose proof (dist_euc_sq x y 0 0) as Hn.
  pose proof (dist_euc_nonneg zr zi 0 0) as Hm0. pose proof (dist_euc_nonneg x y 0 0) as Hn0.
  set (m := dist_euc zr zi 0 0) in *. set (n := dist_euc x y 0 0) in *.
  assert (Hm1 : m < 1 - nf * r).
  { apply sq_lt_lt; try nra. }
  assert (Hn1 : n < 1) by nra.
  nra.
Qed.

(* ---------------------------------------------------------------- real polynomials at complex points *)
(* Horner evaluation of a real-coefficient polynomial (coefficients low -> high) at x + iy *)
Fixpoint ceval (p : list R) (x y : R) : R * R :=
  match p with
  | [] => (0, 0)
  | c :: t => let (a, b) := ceval t x y in (a * x - b * y + c, a * y + b * x)
  end.

Definition is_root (p : list R) (x y : R) : Prop := ceval p x y = (0, 0).

Lemma ceval_conj : forall p x y, ceval p x (- y) = (fst (ceval p x y), - snd (ceval p x y)).
Proof.
  induction p as [|c t IH]; intros x y; simpl.
  - f_equal; ring.
  - rewrite IH. destruct (ceval t x y) as [a b]. simpl. f_equal; ring.
Qed.

Lemma conj_root : forall p x y, is_root p x y -> is_root p x (- y).
Proof.
  unfold is_root. intros p x y H. rewrite ceval_conj, H. simpl. f_equal; ring.
Qed.

(* the conjugate of a point of D(z, r) lies in D(z, r + 2 |Im z|) *)
Lemma conj_in_wider_disc : forall zr zi r x y, 0 <= r -> in_disc zr zi r x y -> in_disc zr zi (r + 2 * Rabs zi) x (- y).
Proof.
  intros zr zi r x y Hr Hd.
  assert (H1 : dist_euc x (- y) zr (- zi) <= r).
  { apply dist_le_of_sq; auto. unfold in_disc in Hd. nra. }
  assert (H2 : dist_euc zr (- zi) zr zi <= 2 * Rabs zi).
  { apply dist_le_of_sq. { pose proof (Rabs_pos zi); lra. }
    replace ((zr - zr) * (zr - zr) + (- zi - zi) * (- zi - zi)) with (4 * (zi * zi)) by ring.
    replace (2 * Rabs zi * (2 * Rabs zi)) with (4 * (Rabs zi * Rabs zi)) by ring.
    assert (Rabs zi * Rabs zi = zi * zi). { unfold Rabs. destruct (Rcase_abs zi); ring. } lra. }
  pose proof (triangle x (- y) zr zi zr (- zi)) as Htri.
  pose proof (dist_euc_sq x (- y) zr zi) as Hs. pose proof (dist_euc_nonneg x (- y) zr zi) as H0.
  pose proof (Rabs_pos zi).
  unfold in_disc. rewrite <- Hs. nra.
Qed.

(* a real polynomial's root that is the ONLY root in the widened disc is real *)
Lemma real_root_of_unique : forall p zr zi r x y,
  0 <= r -> is_root p x y -> in_disc zr zi r x y ->
  (forall x' y', is_root p x' y' -> in_disc zr zi (r + 2 * Rabs zi) x' y' -> x' = x /\ y' = y) ->
  y = 0.
Proof.
  intros p zr zi r x y Hr Hroot Hd Huniq.
  destruct (Huniq x (- y) (conj_root _ _ _ Hroot) (conj_in_wider_disc _ _ _ _ _ Hr Hd)) as [_ H]. lra.
Qed.

Lemma in_disc_mono : forall zr zi r r' x y, 0 <= r -> r <= r' -> in_disc zr zi r x y -> in_disc zr zi r' x y.
Proof. unfold in_disc. intros. nra. Qed.
