(* C08 - the multiprecision axis tests mps_mtouchreal / mps_mtouchimag, completely: mpf_get_rdpe (floating-point/link.c:
   zero the limb exponent, mpf_get_d, rdpe_set_2dl) is, on the exact dyadic cm * 2^ce held by the mpf, truncation of the
   significand towards zero to 53 bits followed by normalisation (TouchModel.trunc53 / mpf_get_rdpe).  Proved here, concretely:
   the result is a normalised DPE, its exponent stays in the range of long, its value is q * 2^(ce + s) for the truncated
   significand, and |value| <= |cm * 2^ce|.  With TouchProps.dtouch_axis_sound this gives the soundness of the multiprecision
   axis test with respect to the EXACT centre coordinate (no `_partial'). *)
From Coq Require Import ZArith Bool Reals Lra Lia.
From Flocq Require Import Core BinarySingleNaN.
Require Import MPSV.Dpe.DpeDefs MPSV.Dpe.DpeModel MPSV.Dpe.DpeProps MPSV.Incl.InclModel MPSV.Incl.TouchModel MPSV.Incl.TouchExch
               MPSV.Incl.TouchProps MPSV.Incl.TouchUnitReal MPSV.Incl.TouchUnitD.
Local Open Scope R_scope.

(* ---- truncation of an integer significand to 53 bits (as TouchModel.trunc53 computes it) *)
Lemma trunc53_spec : forall m : Z,
  let '(q, s) := trunc53 m in
  (0 <= s /\ Z.abs q < 2 ^ 53 /\ Z.abs (q * 2 ^ s) <= Z.abs m /\ 2 ^ 52 * Z.abs (m - q * 2 ^ s) <= Z.abs m /\
   Z.sgn q = Z.sgn m /\ s <= Z.max 0 (Z.log2 (Z.abs m) - 52))%Z.
Proof.
  intro m. unfold trunc53.
  destruct (Z.eq_dec m 0) as [->|Hm0].
  { simpl. lia. }
  assert (Hm : (0 < Z.abs m)%Z) by lia.
  pose proof (Z.log2_spec _ Hm) as [L1 L2]. set (l := Z.log2 (Z.abs m)) in *.
  assert (L0 : (0 <= l)%Z) by apply Z.log2_nonneg.
  destruct (l + 1 <=? 53)%Z eqn:E.
  - apply Z.leb_le in E.
    assert ((2 ^ Z.succ l <= 2 ^ 53)%Z) by (apply Z.pow_le_mono_r; lia).
    rewrite Z.pow_0_r, Z.mul_1_r, Z.sub_diag. simpl Z.abs at 3. lia.
  - apply Z.leb_gt in E.
    replace (l + 1 - 53)%Z with (l - 52)%Z by lia.
    set (s := (l - 52)%Z). assert (Hs : (0 < s)%Z) by (unfold s; lia).
    assert (P : (0 < 2 ^ s)%Z) by (apply Z.pow_pos_nonneg; lia).
    pose proof (Z.quot_rem' m (2 ^ s)) as QR.
    pose proof (Z.rem_bound_abs m (2 ^ s) ltac:(lia)) as RB. rewrite (Z.abs_eq (2 ^ s)) in RB by lia.
    pose proof (Z.rem_sign_nz m (2 ^ s)) as RS.
    set (q := Z.quot m (2 ^ s)) in *. set (r := Z.rem m (2 ^ s)) in *.
    assert (E52 : (2 ^ l = 2 ^ 52 * 2 ^ s)%Z) by (unfold s; rewrite <- Z.pow_add_r by lia; f_equal; lia).
    assert (E53 : (2 ^ Z.succ l = 2 ^ 53 * 2 ^ s)%Z) by (unfold s; rewrite <- Z.pow_add_r by lia; f_equal; lia).
    assert (Hr : (m - q * 2 ^ s = r)%Z) by lia.
    assert (Sr : (r = 0 \/ Z.sgn r = Z.sgn m)%Z).
    { destruct (Z.eq_dec r 0) as [C|C]; [left; exact C | right; apply RS; [lia | exact C]]. }
    assert (P52 : (0 < 2 ^ 52)%Z) by (apply Z.pow_pos_nonneg; lia).
    assert (P53 : (0 < 2 ^ 53)%Z) by (apply Z.pow_pos_nonneg; lia).
    rewrite Hr.
    assert (Aq : (Z.abs m = Z.abs q * 2 ^ s + Z.abs r)%Z) by nia.
    set (A := (2 ^ 52)%Z) in *. set (B := (2 ^ 53)%Z) in *. set (S := (2 ^ s)%Z) in *.
    repeat split; try nia.
Qed.

(* ---- mpf_get_rdpe on the exact dyadic cm * 2^ce *)
Definition dy (m e : Z) : R := IZR m * bpow radix2 e.

Theorem mpf_get_rdpe_spec : forall cm ce : Z,
  (LONG_MIN + 2000 <= ce)%Z -> (ce + Z.log2 (Z.abs cm) <= LONG_MAX - 2000)%Z ->
  let d := mpf_get_rdpe cm ce in
  normalised d /\ in_long (esp d) /\
  rval d = dy (fst (trunc53 cm)) (ce + snd (trunc53 cm)) /\
  Rabs (rval d) <= Rabs (dy cm ce) /\
  Rabs (dy cm ce - rval d) <= bpow radix2 (-52) * Rabs (dy cm ce) /\
  (0 < rval d <-> 0 < dy cm ce) /\ (rval d < 0 <-> dy cm ce < 0).
Proof.
  intros cm ce Hlo Hhi d. unfold d, mpf_get_rdpe.
  pose proof (trunc53_spec cm) as T. destruct (trunc53 cm) as [q s]. cbn [fst snd].
  destruct T as (S0 & Q53 & Qle & Qerr & Qsg & Sle).
  assert (L0 : (0 <= Z.log2 (Z.abs cm))%Z) by apply Z.log2_nonneg.
  destruct (f_of_Z_correct q) as (Vq & Fq & _). { exact Q53. }
  pose proof (ffrexp_exp_bound (f_of_Z q) Fq) as Bq.
  assert (Hl : in_long (ce + s + snd (ffrexp (f_of_Z q)))) by (unfold in_long, LONG_MAX, LONG_MIN in *; lia).
  unfold rdpe_set_2dl.
  destruct (norm_exact (f_of_Z q) (ce + s) Fq Hl) as [NP VP].
  pose proof (norm_esp_in_long (f_of_Z q) (ce + s) Fq Hl) as LP.
  assert (V : rval (rdpe_norm (Rdpe (f_of_Z q) (ce + s))) = dy q (ce + s)).
  { rewrite VP. unfold rval, dy. cbn [mnt esp]. rewrite Vq. reflexivity. }
  assert (Pe := bpow_gt_0 radix2 ce).
  assert (Es : dy q (ce + s) = IZR (q * 2 ^ s) * bpow radix2 ce).
  { assert (P2 : IZR (2 ^ s) = bpow radix2 s) by (exact (IZR_Zpower radix2 s S0)).
    unfold dy. rewrite bpow_plus, mult_IZR, P2. ring. }
  assert (Habs : Rabs (dy q (ce + s)) <= Rabs (dy cm ce)).
  { rewrite Es. unfold dy. rewrite !Rabs_mult, (Rabs_pos_eq (bpow radix2 ce)) by lra.
    apply Rmult_le_compat_r; [lra|]. rewrite <- !abs_IZR. apply IZR_le. exact Qle. }
  assert (Herr : Rabs (dy cm ce - dy q (ce + s)) <= bpow radix2 (-52) * Rabs (dy cm ce)).
  { rewrite Es. unfold dy. rewrite <- Rmult_minus_distr_r, <- minus_IZR.
    rewrite !Rabs_mult, (Rabs_pos_eq (bpow radix2 ce)) by lra. rewrite <- !abs_IZR.
    rewrite <- Rmult_assoc. apply Rmult_le_compat_r; [lra|].
    apply Rmult_le_reg_l with (bpow radix2 52); [apply bpow_gt_0|].
    rewrite <- Rmult_assoc, <- bpow_plus. change (52 + -52)%Z with 0%Z. rewrite Rmult_1_l.
    change (bpow radix2 52) with (IZR (2 ^ 52)). rewrite <- mult_IZR. apply IZR_le. exact Qerr. }
  assert (Sgn : forall z e', (0 < dy z e' <-> (0 < z)%Z) /\ (dy z e' < 0 <-> (z < 0)%Z)).
  { intros z e'. unfold dy. assert (Pz := bpow_gt_0 radix2 e'). split; split; intro K.
    - apply lt_IZR. nra.
    - apply IZR_lt in K. nra.
    - apply lt_IZR. nra.
    - apply IZR_lt in K. nra. }
  rewrite V.
  split; [exact NP|]. split; [exact LP|]. split; [reflexivity|]. split; [exact Habs|]. split; [exact Herr|].
  split; split; intro K.
  - apply (Sgn q (ce + s)%Z) in K. apply (Sgn cm ce). lia.
  - apply (Sgn cm ce) in K. apply (Sgn q (ce + s)%Z). lia.
  - apply (Sgn q (ce + s)%Z) in K. apply (Sgn cm ce). lia.
  - apply (Sgn cm ce) in K. apply (Sgn q (ce + s)%Z). lia.
Qed.

(* ---- mps_mtouchreal / mps_mtouchimag: `no touch' implies n * r < |c| for the EXACT multiprecision coordinate c = cm * 2^ce *)
Theorem mtouch_axis_sound : forall (n : Z) (r : rdpe) (cm ce : Z),
  (1 <= n < 2 ^ 31)%Z -> normalised r -> 0 <= rval r ->
  (LONG_MIN + 2000 <= esp r <= LONG_MAX - 2000)%Z ->
  (LONG_MIN + 2000 <= ce)%Z -> (ce + Z.log2 (Z.abs cm) <= LONG_MAX - 2000)%Z ->
  mtouch_axis n r cm ce = false -> IZR n * rval r < Rabs (dy cm ce).
Proof.
  intros n r cm ce Hn Nr Hr Her Hlo Hhi H.
  destruct (mpf_get_rdpe_spec cm ce Hlo Hhi) as (N & L & _ & A & _).
  pose proof (mtouch_axis_sound_trunc n r cm ce Hn Nr N Hr Her L H). lra.
Qed.

(* the side tests of mps_mupdate_inclusions on the truncated coordinate (rdpe_le / rdpe_ge against zero after
   mpc_get_cdpe) read the sign of the exact coordinate *)
Theorem mside_axis_sound : forall cm ce : Z,
  (LONG_MIN + 2000 <= ce)%Z -> (ce + Z.log2 (Z.abs cm) <= LONG_MAX - 2000)%Z ->
  let d := mpf_get_rdpe cm ce in
  (rdpe_le d rdpe_zero = true <-> dy cm ce <= 0) /\ (rdpe_ge d rdpe_zero = true <-> 0 <= dy cm ce).
Proof.
  intros cm ce Hlo Hhi d. destruct (mpf_get_rdpe_spec cm ce Hlo Hhi) as (N & L & _ & _ & _ & Sp & Sn). fold d in N, L, Sp, Sn.
  assert (N0 : normalised rdpe_zero) by (split; [reflexivity | left; split; reflexivity]).
  assert (L0 : in_long (esp rdpe_zero)) by (unfold in_long, LONG_MIN, LONG_MAX; simpl; lia).
  assert (V0 : rval rdpe_zero = 0) by (unfold rval; simpl; ring).
  pose proof (order_correct OLe d rdpe_zero N N0 L L0) as OL.
  pose proof (order_correct OGe d rdpe_zero N N0 L L0) as OG.
  change (rdpe_ord OLe d rdpe_zero) with (rdpe_le d rdpe_zero) in OL.
  change (rdpe_ord OGe d rdpe_zero) with (rdpe_ge d rdpe_zero) in OG.
  simpl in OL, OG. rewrite V0 in OL, OG.
  split.
  - rewrite OL. split; intro K.
    + destruct (Rle_or_lt (dy cm ce) 0); [assumption|]. apply Sp in H. lra.
    + destruct (Rle_or_lt (rval d) 0); [assumption|]. apply Sp in H. lra.
  - rewrite OG. split; intro K.
    + destruct (Rle_or_lt 0 (dy cm ce)); [assumption|]. apply Sn in H. lra.
    + destruct (Rle_or_lt 0 (rval d)); [lra|]. apply Sn in H. lra.
Qed.

(* ---------------------------------------------------------------- mps_mtouchunit, the decision
   mpc_mod (mab, z) at the precision of the approximation; mpf_sub_eq_ui (mab, 1); mpf_get_rdpe (ab, mab);
   rdpe_mul_d (rad, drad, n); if (rdpe_lt (rad, ab)) return false; rdpe_neg_eq (ab); return rdpe_ge (rad, ab);
   [mtouch_unit_ab_ge] is this decision on the DPE ab (the code of /repo after fixes/C08_munit_tangent.patch).  Whatever the
   error delta of ab as an approximation of |z| - 1 (mpc_mod: two products, a sum and a square root truncated at the
   precision of the number, then the 53-bit truncation of mpf_get_rdpe), as long as it stays below (n (1 - u) - 1) r the
   answer `no touch' is right for the disc D(z, r) itself and the sign of ab names the side. *)
Lemma rdpe_neg_spec : forall c, normalised c -> normalised (rdpe_neg c) /\ rval (rdpe_neg c) = - rval c /\ esp (rdpe_neg c) = esp c.
Proof.
  intros c [Fc Nc]. unfold rdpe_neg.
  assert (V : B2R (fneg (mnt c)) = - B2R (mnt c)) by (unfold fneg; apply B2R_Bopp).
  assert (F : is_finite (fneg (mnt c)) = true) by (unfold fneg; rewrite is_finite_Bopp; assumption).
  split; [|split]; [| |reflexivity].
  - split; [exact F|]. cbn [mnt esp]. rewrite V, Rabs_Ropp. destruct Nc as [[Z0 E0]|B]; [left; split; [lra|exact E0]|right; exact B].
  - unfold rval; cbn [mnt esp]. rewrite V. ring.
Qed.

Theorem mtouch_unit_decision_sound : forall (n : Z) (r ab : rdpe) (Zm delta : R),
  (2 <= n < 2 ^ 31)%Z -> normalised r -> 0 <= rval r -> (LONG_MIN + 3000 <= esp r <= LONG_MAX - 3000)%Z ->
  normalised ab -> in_long (esp ab) ->
  Rabs (rval ab - (Zm - 1)) <= delta -> delta <= (IZR n * (1 - u53) - 1) * rval r ->
  mtouch_unit_ab_ge n r ab = false ->
  (rval r + 1 < Zm /\ 0 < rval ab) \/ (Zm + rval r < 1 /\ rval ab < 0).
Proof.
  intros n r ab Zm delta Hn Nr Hr0 Her Nab Lab Hd Hdl H.
  destruct (mul_d_spec n r ltac:(lia) Nr Hr0 Her) as (Nrad & Mrad & Prad & Erad).
  unfold mtouch_unit_ab_ge in H. set (rad := rdpe_mul_d r (f_of_Z n)) in *.
  assert (Lrad : in_long (esp rad)) by (apply MPSV.Dpe.DpeArith.esp_mid_long; exact Mrad).
  apply Rabs_le_inv in Erad. apply Rabs_le_inv in Hd.
  pose proof MPSV.Dpe.DpeArith.u53_pos as U.
  assert (HR : IZR n * (1 - u53) * rval r <= rval rad) by lra.
  destruct (rdpe_lt rad ab) eqn:C1.
  - left. apply (order_correct OLt _ _ Nrad Nab Lrad Lab) in C1. simpl in C1. split; lra.
  - right. destruct (rdpe_neg_spec ab Nab) as (Nn & Vn & En).
    assert (Ln : in_long (esp (rdpe_neg ab))) by (rewrite En; exact Lab).
    assert (K : rval rad < - rval ab).
    { destruct (Rlt_le_dec (rval rad) (- rval ab)) as [|C]; [assumption|exfalso].
      assert (K : ord_R OGe (rval rad) (rval (rdpe_neg ab))) by (simpl; rewrite Vn; lra).
      apply (order_correct OGe _ _ Nrad Nn Lrad Ln) in K. change (rdpe_ord OGe) with rdpe_ge in K. rewrite K in H. discriminate. }
    split; lra.
Qed.
