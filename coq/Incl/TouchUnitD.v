(* C08 - mps_dtouchunit (common/touch.c) as coded in DPE arithmetic (TouchModel.dtouch_unit over the C12 model):
     cdpe_mod (ab, z); rdpe_mul_d (rad, drad, n); rdpe_add_d (tmp, rad, 1.0); if (rdpe_lt (tmp, ab)) return false;
     rdpe_add (tmp, rad, ab); return rdpe_ge (tmp, rdpe_one);
   Proved: for every factor n >= 2 (the code passes 2 * degree) `no touch' puts the closed disc D(z, r) strictly on one side
   of the unit circle, and the side tests of mps_dupdate_inclusions (rdpe_le / rdpe_ge of the same computed modulus against 1)
   name that side - unless BOTH r < 2^-49 and | |z| - 1 | < 2^-48, the corner where the rounding of cdpe_mod decides
   (C08_dtouchunit_refuted lives there).  For r >= 2^-49 the disc scaled by n - 1 is clear. *)
From Coq Require Import ZArith Bool Reals Lra Lia.
From Flocq Require Import Core BinarySingleNaN Relative.
Require Import MPSV.Dpe.DpeDefs MPSV.Dpe.DpeModel MPSV.Dpe.DpeProps MPSV.Dpe.DpeArith MPSV.Dpe.DpeCplx.
Require Import MPSV.Incl.InclModel MPSV.Incl.TouchModel MPSV.Incl.TouchExch MPSV.Incl.TouchProps MPSV.Incl.TouchUnitReal.
Local Open Scope R_scope.

Lemma u53_half_ulp : / 2 * bpow radix2 (- (53) + 1) = u53.
Proof. unfold u53. change (- (53) + 1)%Z with (-53 + 1)%Z. rewrite bpow_plus. simpl. lra. Qed.

Lemma u53_eq : u53 = / 9007199254740992.
Proof. unfold u53, bpow. unfold Z.pow_pos; simpl. reflexivity. Qed.

(* ---- rdpe_mul_d (rad, drad, d) for a positive double d of moderate size: one rounding of the mantissa product, exact
        renormalisation *)
Lemma mul_d_gen : forall (d : b64) (r : rdpe),
  is_finite d = true -> bpow radix2 (-64) <= B2R d <= bpow radix2 31 -> normalised r -> 0 <= rval r ->
  (LONG_MIN + 3000 <= esp r <= LONG_MAX - 3000)%Z ->
  let rad := rdpe_mul_d r d in
  normalised rad /\ esp_mid (esp rad) /\ 0 <= rval rad /\
  Rabs (rval rad - B2R d * rval r) <= u53 * (B2R d * rval r) /\
  (esp rad = 0 \/ esp r - 1074 <= esp rad <= esp r + 1024)%Z.
Proof.
  intros nd r Fn Bn Nr Hr0 Her rad.
  unfold rad, rdpe_mul_d.
  pose proof (ffrexp_exp_bound nd Fn) as Bi.
  unfold mul_ovf, mul_unf.
  replace ((0 <=? esp r)%Z && (LONG_MAX - esp r <=? snd (ffrexp nd))%Z) with false
    by (unfold LONG_MAX, LONG_MIN in *; lia).
  replace ((esp r <=? 0)%Z && (snd (ffrexp nd) <=? LONG_MIN - esp r)%Z) with false
    by (unfold LONG_MAX, LONG_MIN in *; lia).
  set (m := B2R (mnt r)). set (e := esp r) in *. set (dn := B2R nd) in *.
  assert (Fm := proj1 Nr).
  assert (Pe := bpow_gt_0 radix2 e).
  assert (P64 := bpow_gt_0 radix2 (-64)).
  assert (Bm : m = 0 \/ / 2 <= m < 1).
  { destruct Nr as [_ [[Z0 _]|B]]; fold m in Z0 || fold m in B. left; exact Z0.
    assert (0 <= m). { unfold rval in Hr0. fold m e in Hr0. destruct (Rle_lt_dec 0 m); [assumption|]. exfalso. nra. }
    rewrite Rabs_pos_eq in B by assumption. right; lra. }
  set (f := fmul (mnt r) nd).
  assert (Bmn : 0 <= m * dn <= bpow radix2 31) by (destruct Bm as [->|Bm]; split; nra).
  assert (G31 : generic_format radix2 fexp64 (bpow radix2 31)) by (apply generic_format_bpow; vm_compute; discriminate).
  assert (Hrnd : 0 <= rnd64 (m * dn) <= bpow radix2 31).
  { split. apply round_ge_generic; try typeclasses eauto. apply generic_format_0. lra.
    apply round_le_generic; try typeclasses eauto. assumption. lra. }
  pose proof (Bmult_correct 53 1024 Hprec53 Hmax1024 mode_NE (mnt r) nd) as HB.
  change (round_mode mode_NE) with ZnearestE in HB. fold m dn in HB.
  rewrite Rlt_bool_true in HB.
  2:{ rewrite Rabs_pos_eq by lra. apply Rle_lt_trans with (bpow radix2 31). lra. apply bpow_lt. lia. }
  destruct HB as (Vf & Ff & _). rewrite Fm, Fn in Ff. simpl in Ff.
  change (B2R f = rnd64 (m * dn)) in Vf. change (is_finite f = true) in Ff.
  assert (Me : esp_mid e) by (unfold esp_mid, LONG_MIN, LONG_MAX in *; lia).
  destruct (norm_of_mnt f e Ff Me) as (NP & VP & EP).
  split; [exact NP|]. split.
  { destruct EP as [->|EP]; [apply esp_mid_0|]. unfold esp_mid, LONG_MIN, LONG_MAX in *. lia. }
  rewrite VP, Vf. split.
  { apply Rmult_le_pos; lra. }
  split; [|exact EP].
  unfold rval. fold m e.
  replace (rnd64 (m * dn) * bpow radix2 e - dn * (m * bpow radix2 e))
    with ((rnd64 (m * dn) - m * dn) * bpow radix2 e) by ring.
  rewrite Rabs_mult, (Rabs_pos_eq (bpow radix2 e)) by lra.
  replace (u53 * (dn * (m * bpow radix2 e))) with (u53 * (m * dn) * bpow radix2 e) by ring.
  apply Rmult_le_compat_r; [lra|].
  destruct Bm as [M0|Bm].
  - rewrite M0, Rmult_0_l, round_0 by typeclasses eauto. rewrite Rminus_0_r, Rabs_R0. lra.
  - pose proof (relative_error_N_FLT radix2 (-1074) 53 ltac:(lia) (fun x => negb (Z.even x)) (m * dn)) as RE.
    change (FLT_exp (-1074) 53) with fexp64 in RE. rewrite u53_half_ulp in RE.
    rewrite (Rabs_pos_eq (m * dn)) in RE by lra. apply RE.
    apply Rle_trans with (/ 2 * bpow radix2 (-64)); [|nra].
    change (/ 2) with (bpow radix2 (-1)). rewrite <- bpow_plus. apply bpow_le. lia.
Qed.

Lemma mul_d_spec : forall (n : Z) (r : rdpe),
  (1 <= n < 2 ^ 31)%Z -> normalised r -> 0 <= rval r ->
  (LONG_MIN + 3000 <= esp r <= LONG_MAX - 3000)%Z ->
  let rad := rdpe_mul_d r (f_of_Z n) in
  normalised rad /\ esp_mid (esp rad) /\ 0 <= rval rad /\
  Rabs (rval rad - IZR n * rval r) <= u53 * (IZR n * rval r).
Proof.
  intros n r Hn Nr Hr0 Her rad.
  destruct (f_of_Z_correct n) as (Vn & Fn & _). { lia. }
  assert (Bn : bpow radix2 (-64) <= B2R (f_of_Z n) <= bpow radix2 31).
  { rewrite Vn. split.
    - apply Rle_trans with 1; [change 1 with (bpow radix2 0); apply bpow_le; lia|apply IZR_le; lia].
    - change (bpow radix2 31) with (IZR (2 ^ 31)). apply IZR_le; lia. }
  destruct (mul_d_gen (f_of_Z n) r Fn Bn Nr Hr0 Her) as (A & B & C & D & _). rewrite Vn in D.
  split; [exact A|split; [exact B|split; [exact C|exact D]]].
Qed.

(* ---- exponent of a normalised DPE from the size of its value *)
Lemma esp_of_value : forall (x : rdpe) (lo hi : Z), normalised x -> (lo <= 0 <= hi)%Z ->
  (rval x <> 0 -> bpow radix2 lo <= Rabs (rval x) <= bpow radix2 hi) -> (lo < esp x <= hi + 1)%Z \/ esp x = 0%Z.
Proof.
  intros x lo hi Nx Hlh Hv.
  destruct (Req_dec (B2R (mnt x)) 0) as [Z0|Z1].
  - right. destruct Nx as [_ [[_ E]|B]]; [exact E|]. rewrite Z0, Rabs_R0 in B. lra.
  - left. pose proof (rval_bounds x Nx Z1) as [B1 B2].
    assert (V1 : rval x <> 0).
    { unfold rval. apply Rmult_integral_contrapositive_currified; [exact Z1|]. apply Rgt_not_eq, bpow_gt_0. }
    destruct (Hv V1) as [L U]. split.
    + apply (lt_bpow radix2). lra.
    + assert (esp x - 1 <= hi)%Z; [|lia]. apply (le_bpow radix2). lra.
Qed.

Definition zmod (z : cdpe) : R := sqrt (rval (cre z) * rval (cre z) + rval (cim z) * rval (cim z)).

Lemma rval_small : forall x, normalised x -> esp_small x ->
  Rabs (rval x) <= bpow radix2 (2 ^ 60) /\ (rval x <> 0 -> bpow radix2 (- 2 ^ 60 - 1) <= Rabs (rval x)).
Proof.
  intros x Nx Sx. unfold esp_small in Sx.
  destruct (Req_dec (B2R (mnt x)) 0) as [Z0|Z1].
  - rewrite (rval_sign_zero x Z0), Rabs_R0. split; [apply bpow_ge_0|]. intro K; contradiction K; reflexivity.
  - pose proof (rval_bounds x Nx Z1) as [B1 B2]. split.
    + apply Rle_trans with (bpow radix2 (esp x)); [lra|]. apply bpow_le. lia.
    + intros _. apply Rle_trans with (bpow radix2 (esp x - 1)); [|lra]. apply bpow_le. lia.
Qed.

Lemma cmod_spec : forall z, cnormalised z -> csmall z ->
  let ab := cdpe_mod z in
  normalised ab /\ esp_mid (esp ab) /\ 0 <= zmod z /\ 0 <= rval ab /\ Rabs (rval ab - zmod z) <= 4 * u53 * zmod z /\
  (Z.abs (esp ab) <= 2 ^ 60 + 3)%Z.
Proof.
  intros z Nz Sz ab. destruct (cmod_rel z Nz Sz) as [N Rl]. cbv zeta in Rl. fold ab in N, Rl. fold (zmod z) in Rl.
  set (a := rval (cre z)) in *. set (b := rval (cim z)) in *.
  assert (Z0 : 0 <= zmod z) by apply sqrt_pos.
  unfold rel_e in Rl. rewrite (Rabs_pos_eq (zmod z)) in Rl by assumption.
  pose proof u53_pos as U. pose proof u53_small as U2.
  assert (A0 : 0 <= rval ab).
  { apply Rabs_le_inv in Rl. assert (4 * u53 * zmod z <= / 2 * zmod z) by (apply Rmult_le_compat_r; lra). lra. }
  assert (Goal2 : esp_mid (esp ab) /\ (Z.abs (esp ab) <= 2 ^ 60 + 3)%Z);
    [|destruct Goal2 as [G1 G2]; split; [exact N|split; [exact G1|split; [exact Z0|split; [exact A0|split; [exact Rl|exact G2]]]]]].
  destruct Nz as [Na Nb]. destruct Sz as [Sa Sb].
  destruct (rval_small _ Na Sa) as [Ua La]. destruct (rval_small _ Nb Sb) as [Ub Lb]. fold a in Ua, La. fold b in Ub, Lb.
  (* |a|, |b| <= Z <= |a| + |b| *)
  assert (Zub : zmod z <= Rabs a + Rabs b).
  { unfold zmod. fold a b. rewrite <- (sqrt_square (Rabs a + Rabs b)) by (pose proof (Rabs_pos a); pose proof (Rabs_pos b); lra).
    apply sqrt_le_1_alt. pose proof (Rabs_pos a); pose proof (Rabs_pos b).
    replace (a * a) with (Rabs a * Rabs a) by apply abs_sq. replace (b * b) with (Rabs b * Rabs b) by apply abs_sq. nra. }
  assert (Zla : Rabs a <= zmod z).
  { unfold zmod. fold a b. rewrite <- (sqrt_square (Rabs a)) by apply Rabs_pos. apply sqrt_le_1_alt.
    rewrite abs_sq. pose proof (Rle_0_sqr b) as K; unfold Rsqr in K. lra. }
  assert (Zlb : Rabs b <= zmod z).
  { unfold zmod. fold a b. rewrite <- (sqrt_square (Rabs b)) by apply Rabs_pos. apply sqrt_le_1_alt.
    rewrite abs_sq. pose proof (Rle_0_sqr a) as K; unfold Rsqr in K. lra. }
  assert (E : (- 2 ^ 60 - 3 < esp ab <= 2 ^ 60 + 2 + 1)%Z \/ esp ab = 0%Z).
  { apply esp_of_value; [exact N|lia|]. intro V1. rewrite (Rabs_pos_eq (rval ab)) by assumption. split.
    - (* lower: Z <> 0, so one of a, b is not 0 *)
      assert (Zn : zmod z <> 0).
      { intro K. rewrite K in Rl. rewrite Rmult_0_r in Rl. rewrite Rminus_0_r in Rl.
        pose proof (Rabs_pos (rval ab)). assert (Rabs (rval ab) = 0) by lra. apply V1. destruct (Req_dec (rval ab) 0); [assumption|].
        exfalso. apply (Rabs_no_R0 (rval ab)); assumption. }
      assert (Zl : bpow radix2 (- 2 ^ 60 - 1) <= zmod z).
      { destruct (Req_dec a 0) as [a0|a1]; [destruct (Req_dec b 0) as [b0|b1]|].
        - exfalso. apply Zn. unfold zmod. fold a b. rewrite a0, b0. rewrite Rmult_0_l, Rplus_0_l. apply sqrt_0.
        - specialize (Lb b1). lra.
        - specialize (La a1). lra. }
      apply Rabs_le_inv in Rl.
      assert (4 * u53 * zmod z <= / 2 * zmod z) by (apply Rmult_le_compat_r; lra).
      replace (- 2 ^ 60 - 3)%Z with (-2 + (- 2 ^ 60 - 1))%Z by lia. rewrite bpow_plus.
      change (bpow radix2 (-2)) with (/ 4). lra.
    - apply Rabs_le_inv in Rl.
      assert (4 * u53 * zmod z <= 1 * zmod z) by (apply Rmult_le_compat_r; lra).
      replace (2 ^ 60 + 2)%Z with (2 + 2 ^ 60)%Z by lia. rewrite bpow_plus. change (bpow radix2 2) with 4. lra. }
  change (2 ^ 60)%Z with 1152921504606846976%Z in *. unfold esp_mid, LONG_MIN, LONG_MAX.
  destruct E as [E|E]; lia.
Qed.

Lemma rdpe_one_facts : normalised rdpe_one /\ rval rdpe_one = 1 /\ esp_mid (esp rdpe_one).
Proof.
  split; [apply normalised_half|]. split.
  - unfold rval, rdpe_one. cbn [mnt esp]. rewrite B2R_fhalf. change (bpow radix2 1) with 2. lra.
  - unfold esp_mid, LONG_MIN, LONG_MAX. simpl. lia.
Qed.

(* the DPE of the double 1.0 built by rdpe_add_d *)
Lemma set_d_one_facts : normalised (rdpe_set_d fone) /\ rval (rdpe_set_d fone) = 1 /\ esp_mid (esp (rdpe_set_d fone)).
Proof.
  destruct (conv_double fone eq_refl) as [N V]. split; [exact N|]. split; [rewrite V; apply B2R_fone|].
  assert (E : esp (rdpe_set_d fone) = 1%Z) by (vm_compute; reflexivity).
  rewrite E. unfold esp_mid, LONG_MIN, LONG_MAX. lia.
Qed.

Lemma esp_mid_sum : forall x y s, esp_mid x -> esp_mid y ->
  (s = 0 \/ Z.min x y - 1074 <= s <= Z.max x y + 1024)%Z -> in_long s.
Proof. intros x y s Hx Hy H. unfold esp_mid, in_long, LONG_MIN, LONG_MAX in *. lia. Qed.

(* ---- the DPE comparisons on normalised operands, in the form used below (variables only: cheap to apply) *)
Lemma dpe_lt_true : forall x y, normalised x -> normalised y -> in_long (esp x) -> in_long (esp y) ->
  rdpe_lt x y = true -> rval x < rval y.
Proof. intros x y Nx Ny Lx Ly H. apply (order_correct OLt x y Nx Ny Lx Ly). exact H. Qed.
Lemma dpe_ge_false : forall x y, normalised x -> normalised y -> in_long (esp x) -> in_long (esp y) ->
  rdpe_ge x y = false -> rval x < rval y.
Proof.
  intros x y Nx Ny Lx Ly H. destruct (Rlt_le_dec (rval x) (rval y)) as [|C]; [assumption|exfalso].
  assert (K : ord_R OGe (rval x) (rval y)) by (simpl; lra).
  apply (order_correct OGe x y Nx Ny Lx Ly) in K. change (rdpe_ord OGe x y) with (rdpe_ge x y) in K. rewrite K in H. discriminate.
Qed.
Lemma dpe_le_iff : forall x y, normalised x -> normalised y -> in_long (esp x) -> in_long (esp y) ->
  (rdpe_le x y = true <-> rval x <= rval y).
Proof. intros x y Nx Ny Lx Ly. exact (order_correct OLe x y Nx Ny Lx Ly). Qed.
Lemma dpe_ge_iff : forall x y, normalised x -> normalised y -> in_long (esp x) -> in_long (esp y) ->
  (rdpe_ge x y = true <-> rval y <= rval x).
Proof.
  intros x y Nx Ny Lx Ly. pose proof (order_correct OGe x y Nx Ny Lx Ly) as K. simpl in K.
  change (rdpe_ord OGe x y) with (rdpe_ge x y) in K. rewrite K. split; lra.
Qed.

(* ---- everything the code computes, with its error, and the meaning of its comparisons *)
Lemma dtouch_unit_facts : forall (n : Z) (r : rdpe) (z : cdpe),
  (1 <= n < 2 ^ 31)%Z -> normalised r -> 0 <= rval r -> (Z.abs (esp r) <= 2 ^ 60)%Z ->
  cnormalised z -> csmall z ->
  exists Rd A T1 T2 : R,
    Rabs (Rd - IZR n * rval r) <= u53 * (IZR n * rval r) /\ 0 <= A /\
    Rabs (A - zmod z) <= 6 * u53 * zmod z + u53 /\
    Rabs (T1 - (Rd + 1)) <= 2 * u53 * (Rd + 1) /\ Rabs (T2 - (Rd + A)) <= 2 * u53 * (Rd + A) /\
    (dtouch_unit n r z = false -> T1 < A \/ T2 < 1) /\
    (rdpe_le (cdpe_mod z) rdpe_one = true <-> A <= 1) /\ (rdpe_ge (cdpe_mod z) rdpe_one = true <-> 1 <= A).
Proof.
  intros n r z Hn Nr Hr0 Her Nz Sz.
  assert (Her' : (LONG_MIN + 3000 <= esp r <= LONG_MAX - 3000)%Z).
  { change (2 ^ 60)%Z with 1152921504606846976%Z in Her. unfold LONG_MIN, LONG_MAX. lia. }
  destruct (mul_d_spec n r Hn Nr Hr0 Her') as (Nrad & Mrad & Prad & Erad).
  destruct (cmod_spec z Nz Sz) as (Nab & Mab & Pz & Pab & Eab & _).
  destruct rdpe_one_facts as (N1 & V1 & M1). destruct set_d_one_facts as (N1' & V1' & M1').
  set (one' := rdpe_set_d fone) in *.
  set (rad := rdpe_mul_d r (f_of_Z n)) in *. set (ab := cdpe_mod z) in *.
  destruct (add_rel rad one' Nrad N1' Mrad M1') as (NT1 & RT1 & _ & ET1).
  destruct (add_rel rad ab Nrad Nab Mrad Mab) as (NT2 & RT2 & _ & ET2).
  pose proof (esp_mid_sum _ _ _ Mrad M1' ET1) as LT1. pose proof (esp_mid_sum _ _ _ Mrad Mab ET2) as LT2.
  pose proof u53_pos as U.
  exists (rval rad), (rval ab), (rval (rdpe_add rad one')), (rval (rdpe_add rad ab)).
  split; [exact Erad|]. split; [exact Pab|]. split.
  { assert (0 <= u53 * zmod z) by (apply Rmult_le_pos; lra). lra. }
  split.
  { unfold rel_e in RT1. rewrite V1' in RT1. rewrite (Rabs_pos_eq (rval rad + 1)) in RT1 by lra. exact RT1. }
  split.
  { unfold rel_e in RT2. rewrite (Rabs_pos_eq (rval rad + rval ab)) in RT2 by lra. exact RT2. }
  assert (Lab : in_long (esp ab)) by (apply esp_mid_long; exact Mab).
  assert (L1 : in_long (esp rdpe_one)) by (apply esp_mid_long; exact M1).
  split; [|split].
  - intro H. unfold dtouch_unit in H. fold ab rad in H. unfold rdpe_add_d in H. fold one' in H.
    destruct (rdpe_lt (rdpe_add rad one') ab) eqn:C1.
    + left. exact (dpe_lt_true _ _ NT1 Nab LT1 Lab C1).
    + right. pose proof (dpe_ge_false _ _ NT2 N1 LT2 L1 H) as K. rewrite V1 in K. exact K.
  - pose proof (dpe_le_iff ab rdpe_one Nab N1 Lab L1) as K. rewrite V1 in K. exact K.
  - pose proof (dpe_ge_iff ab rdpe_one Nab N1 Lab L1) as K. rewrite V1 in K. exact K.
Qed.

Lemma nu_small : forall n : Z, (1 <= n < 2 ^ 31)%Z -> forall r : R, 0 <= r -> IZR n * r * u53 <= r / 1048576.
Proof.
  intros n Hn r Hr. rewrite u53_eq.
  assert (IZR n <= 2147483648). { change 2147483648 with (IZR (2 ^ 31)). apply IZR_le. lia. }
  assert (IZR n * r <= 2147483648 * r) by (apply Rmult_le_compat_r; lra). lra.
Qed.

Lemma bool_of_iff_false : forall (b : bool) (P : Prop), (b = true <-> P) -> ~ P -> b = false.
Proof. intros [|] P H NP; [exfalso; apply NP, H; reflexivity | reflexivity]. Qed.

(* ---- the theorem: `no touch' is right for the disc itself and the side is right, outside the rounding corner *)
Theorem dtouch_unit_sound : forall (n : Z) (r : rdpe) (z : cdpe),
  (2 <= n < 2 ^ 31)%Z -> normalised r -> 0 <= rval r -> (Z.abs (esp r) <= 2 ^ 60)%Z ->
  cnormalised z -> csmall z ->
  bpow radix2 (-49) <= rval r \/ bpow radix2 (-48) <= Rabs (zmod z - 1) ->
  dtouch_unit n r z = false ->
  (rval r + 1 < zmod z /\ rdpe_le (cdpe_mod z) rdpe_one = false /\ rdpe_ge (cdpe_mod z) rdpe_one = true) \/
  (zmod z + rval r < 1 /\ rdpe_le (cdpe_mod z) rdpe_one = true /\ rdpe_ge (cdpe_mod z) rdpe_one = false).
Proof.
  intros n r z Hn Nr Hr0 Her Nz Sz Hreg H.
  destruct (dtouch_unit_facts n r z ltac:(lia) Nr Hr0 Her Nz Sz) as (R & A & T1 & T2 & ER & A0 & EA & ET1 & ET2 & HD & SL & SG).
  assert (U : 0 < u53 <= / 1048576) by (rewrite u53_eq; lra).
  assert (Hn2 : 2 * rval r <= IZR n * rval r).
  { apply Rmult_le_compat_r; [assumption|]. apply IZR_le. lia. }
  assert (Hreg' : 16 * u53 <= rval r \/ 32 * u53 <= Rabs (zmod z - 1)).
  { replace (16 * u53) with (bpow radix2 (-49)). replace (32 * u53) with (bpow radix2 (-48)). exact Hreg.
    - unfold u53. change (-48)%Z with (5 + -53)%Z. rewrite bpow_plus. change (bpow radix2 5) with 32. reflexivity.
    - unfold u53. change (-49)%Z with (4 + -53)%Z. rewrite bpow_plus. change (bpow radix2 4) with 16. reflexivity. }
  destruct (unit_dec_real_all u53 (IZR n * rval r) (rval r) (zmod z) R A T1 T2 U Hr0 Hn2
              (nu_small n ltac:(lia) _ Hr0) ER (sqrt_pos _) A0 EA ET1 ET2 Hreg' (HD H)) as [[K1 K2]|[K1 K2]].
  - left. split; [exact K1|]. split.
    + apply (bool_of_iff_false _ _ SL). lra.
    + apply SG. lra.
  - right. split; [exact K1|]. split.
    + apply SL. lra.
    + apply (bool_of_iff_false _ _ SG). lra.
Qed.

(* for radii that are not below 2^-49 the margin is kept: the disc scaled by n - 1 is clear *)
Theorem dtouch_unit_sound_scaled : forall (n : Z) (r : rdpe) (z : cdpe),
  (2 <= n < 2 ^ 31)%Z -> normalised r -> (Z.abs (esp r) <= 2 ^ 60)%Z ->
  cnormalised z -> csmall z ->
  bpow radix2 (-49) <= rval r ->
  dtouch_unit n r z = false ->
  (IZR (n - 1) * rval r + 1 < zmod z /\ rdpe_le (cdpe_mod z) rdpe_one = false /\ rdpe_ge (cdpe_mod z) rdpe_one = true) \/
  (zmod z + IZR (n - 1) * rval r < 1 /\ rdpe_le (cdpe_mod z) rdpe_one = true /\ rdpe_ge (cdpe_mod z) rdpe_one = false).
Proof.
  intros n r z Hn Nr Her Nz Sz Hreg H.
  assert (Hr0 : 0 <= rval r) by (pose proof (bpow_gt_0 radix2 (-49)); lra).
  destruct (dtouch_unit_facts n r z ltac:(lia) Nr Hr0 Her Nz Sz) as (R & A & T1 & T2 & ER & A0 & EA & ET1 & ET2 & HD & SL & SG).
  assert (U : 0 < u53 <= / 1048576) by (rewrite u53_eq; lra).
  assert (Hn2 : 2 * rval r <= IZR n * rval r).
  { apply Rmult_le_compat_r; [assumption|]. apply IZR_le. lia. }
  assert (Hreg' : 16 * u53 <= rval r).
  { replace (16 * u53) with (bpow radix2 (-49)). exact Hreg.
    unfold u53. change (-49)%Z with (4 + -53)%Z. rewrite bpow_plus. change (bpow radix2 4) with 16. reflexivity. }
  rewrite minus_IZR.
  destruct (unit_dec_real u53 (IZR n * rval r) (rval r) (zmod z) R A T1 T2 U Hreg' Hn2
              (nu_small n ltac:(lia) _ Hr0) ER (sqrt_pos _) A0 EA ET1 ET2 (HD H)) as [[K1 K2]|[K1 K2]].
  - left. split; [lra|]. split.
    + apply (bool_of_iff_false _ _ SL). lra.
    + apply SG. lra.
  - right. split; [lra|]. split.
    + apply SL. lra.
    + apply (bool_of_iff_false _ _ SG). lra.
Qed.

(* ================================================================ the repaired test (fixes/C08_dunit_allowance.patch)
   rdpe_add_d (eps, ab, 1.0); rdpe_mul_eq_d (eps, 8 * DBL_EPSILON); rdpe_add_eq (rad, eps);  before the two comparisons.
   `no touch' now implies n * r < | |z| - 1 | EXACTLY, for every factor n >= 1, every normalised radius and centre, and the
   side tests name the side. *)
Lemma f_allow_facts : is_finite f_allow = true /\ B2R f_allow = 16 * u53 /\ bpow radix2 (-64) <= B2R f_allow <= bpow radix2 31.
Proof.
  assert (V : B2R f_allow = bpow radix2 (-49)).
  { unfold f_allow, B2R, F2R. cbn [Fnum Fexp cond_Zopp]. change (IZR 4503599627370496) with (bpow radix2 52).
    rewrite <- bpow_plus. reflexivity. }
  split; [reflexivity|]. split.
  - rewrite V. unfold u53. change (-49)%Z with (4 + -53)%Z. rewrite bpow_plus. change (bpow radix2 4) with 16. reflexivity.
  - rewrite V. split; apply bpow_le; lia.
Qed.

Lemma abs_sum_bound : forall x y s B : Z, (Z.abs x <= B)%Z -> (Z.abs y <= B)%Z ->
  (s = 0 \/ Z.min x y - 1074 <= s <= Z.max x y + 1024)%Z -> (Z.abs s <= B + 1074)%Z.
Proof. intros. lia. Qed.

Lemma esp_mid_of_abs : forall e : Z, (Z.abs e <= 2 ^ 60 + 10000)%Z -> esp_mid e /\ (LONG_MIN + 3000 <= e <= LONG_MAX - 3000)%Z.
Proof. intros e H. change (2 ^ 60)%Z with 1152921504606846976%Z in H. unfold esp_mid, LONG_MIN, LONG_MAX. lia. Qed.

Lemma dtouch_unit_fixed_facts : forall (n : Z) (r : rdpe) (z : cdpe),
  (1 <= n < 2 ^ 31)%Z -> normalised r -> 0 <= rval r -> (Z.abs (esp r) <= 2 ^ 60)%Z ->
  cnormalised z -> csmall z ->
  exists Rd A S E R' T1 T2 : R,
    0 <= Rd /\ IZR n * rval r * (1 - u53) - 0 <= Rd /\ 0 <= A /\
    Rabs (A - zmod z) <= 6 * u53 * zmod z + 0 /\
    (A + 1) * (1 - 2 * u53) <= S /\ 16 * u53 * S * (1 - 2 * u53) <= E /\
    (Rd + E) * (1 - 2 * u53) <= R' /\ (R' + 1) * (1 - 2 * u53) <= T1 /\ (R' + A) * (1 - 2 * u53) <= T2 /\
    (dtouch_unit_fixed n r z = false -> T1 < A \/ T2 < 1) /\
    (rdpe_le (cdpe_mod z) rdpe_one = true <-> A <= 1) /\ (rdpe_ge (cdpe_mod z) rdpe_one = true <-> 1 <= A).
Proof.
  intros n r z Hn Nr Hr0 Her Nz Sz.
  assert (HDec : dtouch_unit_fixed n r z = false ->
     rdpe_lt (rdpe_add (rdpe_add_eq (rdpe_mul_d r (f_of_Z n)) (rdpe_mul_d (rdpe_add (cdpe_mod z) (rdpe_set_d fone)) f_allow))
                       (rdpe_set_d fone)) (cdpe_mod z) = true \/
     rdpe_ge (rdpe_add (rdpe_add_eq (rdpe_mul_d r (f_of_Z n)) (rdpe_mul_d (rdpe_add (cdpe_mod z) (rdpe_set_d fone)) f_allow))
                       (cdpe_mod z)) rdpe_one = false).
  { unfold dtouch_unit_fixed, rdpe_add_d. cbv zeta. destruct (rdpe_lt _ _); intro H; [left; reflexivity|right; exact H]. }
  assert (Her' : (LONG_MIN + 3000 <= esp r <= LONG_MAX - 3000)%Z).
  { change (2 ^ 60)%Z with 1152921504606846976%Z in Her. unfold LONG_MIN, LONG_MAX. lia. }
  destruct (f_of_Z_correct n) as (Vn & Fn & _). { lia. }
  assert (Bn : bpow radix2 (-64) <= B2R (f_of_Z n) <= bpow radix2 31).
  { rewrite Vn. split.
    - apply Rle_trans with 1; [change 1 with (bpow radix2 0); apply bpow_le; lia|apply IZR_le; lia].
    - change (bpow radix2 31) with (IZR (2 ^ 31)). apply IZR_le; lia. }
  destruct (mul_d_gen (f_of_Z n) r Fn Bn Nr Hr0 Her') as (Nrad & _ & Prad & Erad & Xrad). rewrite Vn in Erad.
  destruct (cmod_spec z Nz Sz) as (Nab & Mab & Pz & Pab & Eab & Xab).
  destruct rdpe_one_facts as (N1 & V1 & M1). destruct set_d_one_facts as (N1' & V1' & M1').
  set (one' := rdpe_set_d fone) in *.
  set (rad0 := rdpe_mul_d r (f_of_Z n)) in *. set (ab := cdpe_mod z) in *.
  assert (X1' : (Z.abs (esp one') <= 2 ^ 60 + 3)%Z).
  { assert (E : esp one' = 1%Z) by (vm_compute; reflexivity). rewrite E. change (2 ^ 60)%Z with 1152921504606846976%Z. lia. }
  pose proof u53_pos as U. pose proof u53_small as U2.
  (* S = ab + 1 *)
  destruct (add_rel ab one' Nab N1' Mab M1') as (NS & RS & _ & ES).
  pose proof (abs_sum_bound _ _ _ _ Xab X1' ES) as XS.
  set (Sd := rdpe_add ab one') in *.
  assert (PS : 0 <= rval Sd).
  { unfold rel_e in RS. rewrite V1' in RS. rewrite (Rabs_pos_eq (rval ab + 1)) in RS by lra. apply Rabs_le_inv in RS.
    assert (2 * u53 * (rval ab + 1) <= / 2 * (rval ab + 1)) by (apply Rmult_le_compat_r; lra). lra. }
  destruct (esp_mid_of_abs (esp Sd) ltac:(lia)) as (MS & HS).
  (* E = S * 2^-49 *)
  destruct f_allow_facts as (Fa & Va & Ba).
  destruct (mul_d_gen f_allow Sd Fa Ba NS PS HS) as (NE & _ & PE & EE & XE). rewrite Va in EE.
  set (Ed := rdpe_mul_d Sd f_allow) in *.
  assert (XE' : (Z.abs (esp Ed) <= 2 ^ 60 + 3 + 1074 + 1074)%Z) by lia.
  assert (Xrad' : (Z.abs (esp rad0) <= 2 ^ 60 + 3 + 1074 + 1074)%Z) by lia.
  destruct (esp_mid_of_abs (esp Ed) ltac:(lia)) as (ME & _).
  destruct (esp_mid_of_abs (esp rad0) ltac:(lia)) as (Mrad & _).
  (* rad = rad0 + E *)
  destruct (add_eq_rel rad0 Ed Nrad NE Mrad ME) as (NR & RR & _ & ER).
  pose proof (abs_sum_bound _ _ _ _ Xrad' XE' ER) as XR.
  set (rad := rdpe_add_eq rad0 Ed) in *.
  destruct (esp_mid_of_abs (esp rad) ltac:(lia)) as (MR & _).
  assert (PR : 0 <= rval rad).
  { unfold rel_e in RR. rewrite (Rabs_pos_eq (rval rad0 + rval Ed)) in RR by lra. apply Rabs_le_inv in RR.
    assert (2 * u53 * (rval rad0 + rval Ed) <= / 2 * (rval rad0 + rval Ed)) by (apply Rmult_le_compat_r; lra). lra. }
  (* the two sums *)
  destruct (add_rel rad one' NR N1' MR M1') as (NT1 & RT1 & _ & ET1).
  destruct (add_rel rad ab NR Nab MR Mab) as (NT2 & RT2 & _ & ET2).
  pose proof (esp_mid_sum _ _ _ MR M1' ET1) as LT1. pose proof (esp_mid_sum _ _ _ MR Mab ET2) as LT2.
  exists (rval rad0), (rval ab), (rval Sd), (rval Ed), (rval rad), (rval (rdpe_add rad one')), (rval (rdpe_add rad ab)).
  split; [exact Prad|]. split.
  { apply Rabs_le_inv in Erad. lra. }
  split; [exact Pab|]. split.
  { assert (0 <= u53 * zmod z) by (apply Rmult_le_pos; lra). lra. }
  split.
  { unfold rel_e in RS. rewrite V1' in RS. rewrite (Rabs_pos_eq (rval ab + 1)) in RS by lra. apply Rabs_le_inv in RS. lra. }
  split.
  { apply Rabs_le_inv in EE. assert (0 <= u53 * (16 * u53 * rval Sd)) by (apply Rmult_le_pos; [lra|apply Rmult_le_pos; lra]). lra. }
  split.
  { unfold rel_e in RR. rewrite (Rabs_pos_eq (rval rad0 + rval Ed)) in RR by lra. apply Rabs_le_inv in RR. lra. }
  split.
  { unfold rel_e in RT1. rewrite V1' in RT1. rewrite (Rabs_pos_eq (rval rad + 1)) in RT1 by lra. apply Rabs_le_inv in RT1. lra. }
  split.
  { unfold rel_e in RT2. rewrite (Rabs_pos_eq (rval rad + rval ab)) in RT2 by lra. apply Rabs_le_inv in RT2. lra. }
  assert (Lab : in_long (esp ab)) by (apply esp_mid_long; exact Mab).
  assert (L1 : in_long (esp rdpe_one)) by (apply esp_mid_long; exact M1).
  split; [|split].
  - intro H. destruct (HDec H) as [C1|C2].
    + left. exact (dpe_lt_true _ _ NT1 Nab LT1 Lab C1).
    + right. pose proof (dpe_ge_false _ _ NT2 N1 LT2 L1 C2) as K. rewrite V1 in K. exact K.
  - pose proof (dpe_le_iff ab rdpe_one Nab N1 Lab L1) as K. rewrite V1 in K. exact K.
  - pose proof (dpe_ge_iff ab rdpe_one Nab N1 Lab L1) as K. rewrite V1 in K. exact K.
Qed.

Theorem dtouch_unit_fixed_sound : forall (n : Z) (r : rdpe) (z : cdpe),
  (1 <= n < 2 ^ 31)%Z -> normalised r -> 0 <= rval r -> (Z.abs (esp r) <= 2 ^ 60)%Z ->
  cnormalised z -> csmall z ->
  dtouch_unit_fixed n r z = false ->
  (IZR n * rval r + 1 < zmod z /\ rdpe_le (cdpe_mod z) rdpe_one = false /\ rdpe_ge (cdpe_mod z) rdpe_one = true) \/
  (zmod z + IZR n * rval r < 1 /\ rdpe_le (cdpe_mod z) rdpe_one = true /\ rdpe_ge (cdpe_mod z) rdpe_one = false).
Proof.
  intros n r z Hn Nr Hr0 Her Nz Sz H.
  destruct (dtouch_unit_fixed_facts n r z Hn Nr Hr0 Her Nz Sz)
    as (Rd & A & S & E & R' & T1 & T2 & R0 & ER & A0 & EA & ES & EE & ER' & ET1 & ET2 & HD & SL & SG).
  assert (U : 0 < u53 <= / 1048576) by (rewrite u53_eq; lra).
  assert (N0 : 0 <= IZR n * rval r) by (apply Rmult_le_pos; [apply IZR_le; lia|assumption]).
  assert (Eta : 0 <= 0 <= u53 * u53) by (split; [lra|apply Rmult_le_pos; lra]).
  destruct (unit_dec_real_fixed u53 0 (IZR n * rval r) (zmod z) Rd A S E R' T1 T2 U Eta N0 (sqrt_pos _) A0 R0 ER EA ES EE ER' ET1 ET2 (HD H))
    as [[K1 K2]|[K1 K2]].
  - left. split; [exact K1|]. split.
    + apply (bool_of_iff_false _ _ SL). lra.
    + apply SG. lra.
  - right. split; [exact K1|]. split.
    + apply SL. lra.
    + apply (bool_of_iff_false _ _ SG). lra.
Qed.
