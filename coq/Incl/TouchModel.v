(* C08 - executable model of the touch tests of src/libmps/common/touch.c and of the side expressions of
   common/inclusion.c, in the three arithmetics of MPSolve.  Definitions only.

     f : IEEE binary64 (Flocq, the b64 of the C12 model), round to nearest even, no FMA (-ffp-contract=off);
         cplx_mod is the MPS_USE_BUILTIN_COMPLEX version of floating-point/mt.c (always selected by mt.h).
     d : the DPE model of C12 (Dpe/DpeModel.v: rdpe_mul_d, rdpe_add, rdpe_add_d, cdpe_mod, rdpe_lt/le/gt/ge).
     m : the value is an exact dyadic M * 2^E (an mpf_t), the radius the DPE field drad;
         mpf_get_rdpe (floating-point/link.c) = truncation of the significand to 53 bits (mpf_get_d truncates);
         mps_mtouchunit and the unit-circle side test go through mpc_mod at the precision of the number: they are
         not modelled bit for bit, only their decision on a DPE  ab ~ |z| - 1  handed in from outside.

   [f_obs] / [d_obs] / [m_obs] assemble the record of outcomes InclModel.classify consumes, exactly the calls
   mps_?update_inclusions and mps_cluster_detect_properties make:  touch*(2n), touchreal/imag(1), touchreal/imag(n). *)
From Coq Require Import ZArith Bool List.
From Flocq Require Import Core BinarySingleNaN.
Require Import MPSV.Dpe.DpeDefs MPSV.Dpe.DpeModel MPSV.Incl.InclModel.
Import ListNotations.
Open Scope Z_scope.

(* ---- C comparisons of doubles (false on NaN) *)
Definition fge (x y : b64) : bool := match Bcompare x y with Some Gt | Some Eq => true | _ => false end.
Definition fgt (x y : b64) : bool := match Bcompare x y with Some Gt => true | _ => false end.
Definition flt (x y : b64) : bool := match Bcompare x y with Some Lt => true | _ => false end.
Definition fabs : b64 -> b64 := @Babs 53 1024.

Definition DBL_MAX : b64 := @B754_finite 53 1024 false 9007199254740991 971 eq_refl.
(* (double) n for an int n, and the double M * 2^E of the exchange format (exact on the inputs used) *)
Definition f_of_Z (n : Z) : b64 := binary_normalize 53 1024 Hprec53 Hmax1024 mode_NE n 0 false.
Definition f_of_dyadic (m e : Z) : b64 := binary_normalize 53 1024 Hprec53 Hmax1024 mode_NE m e false.

(* ---------------------------------------------------------------- floating point
   mps_ftouchreal / mps_ftouchimag:  if (frad >= DBL_MAX / n) return true;  return n * frad >= fabs (c); *)
Definition ftouch_axis (n : Z) (r c : b64) : bool :=
  let nd := f_of_Z n in
  if fge r (fdiv DBL_MAX nd) then true else fge (fmul nd r) (fabs c).

(* cplx_mod (mt.c, builtin complex) *)
Definition cplx_mod_f (re im : b64) : b64 :=
  if fgt (fabs re) (fabs im) then
    let d := fdiv im re in fmul (fabs re) (fsqrt (fadd fone (fmul d d)))
  else if feq im fzero then fzero
  else let d := fdiv re im in fmul (fabs im) (fsqrt (fadd fone (fmul d d))).

(* mps_ftouchunit: rad = n * frad; ab = cplx_mod (z); return (rad + 1 >= ab) && (rad + ab >= 1); *)
Definition ftouch_unit_ab (n : Z) (r ab : b64) : bool :=
  let nd := f_of_Z n in
  if fge r (fdiv DBL_MAX nd) then true
  else let rad := fmul nd r in fge (fadd rad fone) ab && fge (fadd rad ab) fone.
Definition ftouch_unit (n : Z) (r re im : b64) : bool := ftouch_unit_ab n r (cplx_mod_f re im).

(* mps_ftouchunit after fixes/C08_funit_allowance.patch:  rad = n * frad; ab = cplx_mod (z);
   rad += 8 * DBL_EPSILON * (ab + 1);  return (rad + 1 >= ab) && (rad + ab >= 1);   (8 * DBL_EPSILON = 2^-49 = 16 u) *)
Definition f_allow : b64 := @B754_finite 53 1024 false 4503599627370496 (-101) eq_refl.
Definition ftouch_unit_ab_fixed (n : Z) (r ab : b64) : bool :=
  let nd := f_of_Z n in
  if fge r (fdiv DBL_MAX nd) then true
  else let rad := fadd (fmul nd r) (fmul f_allow (fadd ab fone)) in fge (fadd rad fone) ab && fge (fadd rad ab) fone.
Definition ftouch_unit_fixed (n : Z) (r re im : b64) : bool := ftouch_unit_ab_fixed n r (cplx_mod_f re im).

Definition f_obs (n : Z) (re im r : b64) (small : bool) : obs :=
  let ab := cplx_mod_f re im in
  mkObs (ftouch_unit (2 * n) r re im) (ftouch_axis (2 * n) r re) (ftouch_axis (2 * n) r im)
        (ftouch_axis 1 r im) (ftouch_axis 1 r re) (ftouch_axis n r im) (ftouch_axis n r re)
        (flt ab fone) (fgt ab fone) (flt re fzero) (fgt re fzero) (flt im fzero) (fgt im fzero) small.

(* ---------------------------------------------------------------- DPE
   mps_dtouchreal / imag: rdpe_mul_d (tmp1, drad, (double) n); rdpe_abs (tmp2, c); return rdpe_ge (tmp1, tmp2); *)
Definition dtouch_axis (n : Z) (r c : rdpe) : bool := rdpe_ge (rdpe_mul_d r (f_of_Z n)) (rdpe_abs c).

(* mps_dtouchunit *)
Definition dtouch_unit (n : Z) (r : rdpe) (z : cdpe) : bool :=
  let ab := cdpe_mod z in
  let rad := rdpe_mul_d r (f_of_Z n) in
  if rdpe_lt (rdpe_add_d rad fone) ab then false else rdpe_ge (rdpe_add rad ab) rdpe_one.

(* mps_dtouchunit after fixes/C08_dunit_allowance.patch:  cdpe_mod (ab, z); rdpe_mul_d (rad, drad, n);
   rdpe_add_d (eps, ab, 1.0); rdpe_mul_eq_d (eps, 8 * DBL_EPSILON); rdpe_add_eq (rad, eps);  then as before *)
Definition dtouch_unit_fixed (n : Z) (r : rdpe) (z : cdpe) : bool :=
  let ab := cdpe_mod z in
  let eps := rdpe_mul_d (rdpe_add_d ab fone) f_allow in
  let rad := rdpe_add_eq (rdpe_mul_d r (f_of_Z n)) eps in
  if rdpe_lt (rdpe_add_d rad fone) ab then false else rdpe_ge (rdpe_add rad ab) rdpe_one.

Definition d_obs (n : Z) (z : cdpe) (r : rdpe) (small : bool) : obs :=
  let ab := cdpe_mod z in
  mkObs (dtouch_unit (2 * n) r z) (dtouch_axis (2 * n) r (cre z)) (dtouch_axis (2 * n) r (cim z))
        (dtouch_axis 1 r (cim z)) (dtouch_axis 1 r (cre z)) (dtouch_axis n r (cim z)) (dtouch_axis n r (cre z))
        (rdpe_le ab rdpe_one) (rdpe_ge ab rdpe_one)
        (rdpe_le (cre z) rdpe_zero) (rdpe_ge (cre z) rdpe_zero) (rdpe_le (cim z) rdpe_zero) (rdpe_ge (cim z) rdpe_zero) small.

(* ---------------------------------------------------------------- multiprecision
   mpf_get_rdpe of the exact dyadic m * 2^e: significand truncated (towards zero) to 53 bits, then rdpe_set_2dl *)
Definition trunc53 (m : Z) : Z * Z :=
  let k := Z.log2 (Z.abs m) + 1 in
  if k <=? 53 then (m, 0) else (Z.quot m (2 ^ (k - 53)), k - 53).
Definition mpf_get_rdpe (m e : Z) : rdpe :=
  let (m', s) := trunc53 m in rdpe_set_2dl (f_of_Z m') (e + s).

(* mps_mtouchreal / imag: rdpe_mul_d (tmp1, drad, n); mpf_get_rdpe (tmp2, c); rdpe_abs_eq (tmp2); return rdpe_ge (tmp1, tmp2); *)
Definition mtouch_axis (n : Z) (r : rdpe) (cm ce : Z) : bool :=
  rdpe_ge (rdpe_mul_d r (f_of_Z n)) (rdpe_abs (mpf_get_rdpe cm ce)).

(* the decision of mps_mtouchunit on ab = the DPE of (|z| - 1):
   if (rdpe_lt (rad, ab)) return false;  rdpe_neg_eq (ab);  return rdpe_gt (rad, ab);
   [mtouch_unit_ge] is the same with rdpe_ge in the last line (fixes/C08_munit_tangent.patch) *)
Definition mtouch_unit_ab (n : Z) (r ab : rdpe) : bool :=
  let rad := rdpe_mul_d r (f_of_Z n) in
  if rdpe_lt rad ab then false else rdpe_gt rad (rdpe_neg ab).
Definition mtouch_unit_ab_ge (n : Z) (r ab : rdpe) : bool :=
  let rad := rdpe_mul_d r (f_of_Z n) in
  if rdpe_lt rad ab then false else rdpe_ge rad (rdpe_neg ab).

(* outcomes for one root in the multiprecision phase; the three unit-circle outcomes come from outside *)
Definition m_obs (n : Z) (xm xe ym ye : Z) (r : rdpe) (t_unit_in in_unit_in in_compl_in small : bool) : obs :=
  let re := mpf_get_rdpe xm xe in
  let im := mpf_get_rdpe ym ye in
  mkObs t_unit_in (mtouch_axis (2 * n) r xm xe) (mtouch_axis (2 * n) r ym ye)
        (mtouch_axis 1 r ym ye) (mtouch_axis 1 r xm xe) (mtouch_axis n r ym ye) (mtouch_axis n r xm xe)
        in_unit_in in_compl_in
        (rdpe_le re rdpe_zero) (rdpe_ge re rdpe_zero) (rdpe_le im rdpe_zero) (rdpe_ge im rdpe_zero) small.

(* the same records with the unit-circle outcome of the repaired tests (trees with the allowance patches applied) *)
Definition with_unit (o : obs) (t : bool) : obs :=
  mkObs t (t_imag o) (t_real o) (t_real1 o) (t_imag1 o) (t_realn o) (t_imagn o)
        (in_unit o) (in_compl o) (re_neg o) (re_pos o) (im_neg o) (im_pos o) (small o).
Definition f_obs_fixed (n : Z) (re im r : b64) (small : bool) : obs :=
  with_unit (f_obs n re im r small) (ftouch_unit_fixed (2 * n) r re im).
Definition d_obs_fixed (n : Z) (z : cdpe) (r : rdpe) (small : bool) : obs :=
  with_unit (d_obs n z r small) (dtouch_unit_fixed (2 * n) r z).

(* ---------------------------------------------------------------- the whole pass over a state
   one root of the exchange format: outcomes for update_inclusions, outcomes for detect_properties (they differ in
   the way the radius test is evaluated), state before *)
Definition root_in := (obs * obs * (inclusion * attrs))%type.

Definition with_small (o : obs) (s : bool) : obs :=
  mkObs (t_unit o) (t_imag o) (t_real o) (t_real1 o) (t_imag1 o) (t_realn o) (t_imagn o)
        (in_unit o) (in_compl o) (re_neg o) (re_pos o) (im_neg o) (im_pos o) s.

(* mps_cluster_detect_properties on every cluster, then mps_?update_inclusions, then mps_countroots *)
Definition detect_cluster (dr di rs : bool) (c : list root_in) : list (obs * (inclusion * attrs)) :=
  let cn := length c in
  map (fun x : root_in => let '(oi, od, s) := x in (oi, (fst s, detect_properties dr di rs cn od (snd s)))) c.

Definition run_state (st : search_set) (rs dr di : bool) (zero_roots : nat) (cl : list (list root_in))
  : list (list attrs) * list (list (inclusion * attrs)) * (nat * nat * nat) :=
  let after_detect := map (detect_cluster dr di rs) cl in
  let res := update_inclusions st rs after_detect in
  (map (map (fun x => snd (snd x))) after_detect, res, countroots st zero_roots (map fst (concat res))).
