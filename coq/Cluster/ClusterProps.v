(* C07 -- proofs about the cluster analysis model (ClusterModel.v). *)
From Coq Require Import List Arith Bool Lia Permutation Relations.
From MPSV Require Import Cluster.ClusterModel.
Import ListNotations.

Set Implicit Arguments.

(* ---------------------------------------------------------------- generic list facts *)
Lemma filter_split_perm : forall (A : Type) (p : A -> bool) (l : list A),
  Permutation l (filter p l ++ filter (fun x => negb (p x)) l).
Proof.
  induction l as [|a l IH]; simpl; [constructor|].
  destruct (p a) eqn:E; simpl.
  - constructor. exact IH.
  - apply Permutation_cons_app. exact IH.
Qed.

Lemma filter_split_length : forall (A : Type) (p : A -> bool) (l : list A),
  length (filter p l) + length (filter (fun x => negb (p x)) l) = length l.
Proof.
  intros. rewrite <- app_length. symmetry. apply Permutation_length. apply filter_split_perm.
Qed.

Lemma drop_nth_perm : forall k (q : list nat), k < length q ->
  Permutation q (nth k q 0 :: drop_nth k q).
Proof.
  induction k; intros [|a q] H; simpl in *; try lia.
  - unfold drop_nth. simpl. reflexivity.
  - unfold drop_nth in *. simpl.
    rewrite perm_swap. constructor. apply IHk. lia.
Qed.

Lemma drop_nth_length : forall k (q : list nat), k < length q ->
  S (length (drop_nth k q)) = length q.
Proof.
  intros. pose proof (Permutation_length (drop_nth_perm q H)) as P. simpl in P. lia.
Qed.

Lemma mem_In : forall x l, mem x l = true <-> In x l.
Proof.
  intros. unfold mem. rewrite existsb_exists. split.
  - intros [y [Hy E]]. apply Nat.eqb_eq in E. subst. exact Hy.
  - intros H. exists x. split; [exact H|apply Nat.eqb_refl].
Qed.

Lemma NoDup_app_inv : forall (a b : list nat),
  NoDup (a ++ b) -> NoDup b /\ forall y, In y a -> ~ In y b.
Proof.
  induction a as [|h a IH]; simpl; intros b ND.
  - split; [exact ND|]. intros y [].
  - inversion ND; subst. destruct (IH _ H2) as [N S]. split; [exact N|].
    intros y [->|Hy]; [|apply S; exact Hy].
    intro Hb. apply H1. apply in_or_app. right. exact Hb.
Qed.

Lemma NoDup_concat_unique : forall (l : list (list nat)) a b x,
  NoDup (concat l) -> In a l -> In b l -> In x a -> In x b -> a = b.
Proof.
  induction l as [|c l IH]; simpl; intros a b x ND Ha Hb Hxa Hxb; [contradiction|].
  destruct (NoDup_app_inv _ _ ND) as [NDl Hsep].
  destruct Ha as [<-|Ha], Hb as [<-|Hb]; auto.
  - exfalso. apply (Hsep x Hxa). apply in_concat. exists b. auto.
  - exfalso. apply (Hsep x Hxb). apply in_concat. exists a. auto.
  - eapply IH; eauto.
Qed.

(* ---------------------------------------------------------------- chains of overlaps *)
Section Chains.
Variable T : nat -> nat -> bool.

(* one overlap between two members of the vertex set S *)
Definition tstep (S : list nat) (a b : nat) : Prop := In a S /\ In b S /\ T a b = true.

(* i and j are linked by a chain of overlaps all of whose members belong to S *)
Definition conn (S : list nat) : nat -> nat -> Prop := clos_refl_trans nat (tstep S).

Lemma conn_refl : forall S i, conn S i i.
Proof. intros. apply rt_refl. Qed.

Lemma conn_trans : forall S i j k, conn S i j -> conn S j k -> conn S i k.
Proof. intros. eapply rt_trans; eauto. Qed.

Lemma conn_step : forall S a b, In a S -> In b S -> T a b = true -> conn S a b.
Proof. intros. apply rt_step. repeat split; assumption. Qed.

Lemma conn_mono : forall S S' i j, incl S S' -> conn S i j -> conn S' i j.
Proof.
  intros S S' i j Hin H. induction H.
  - destruct H as (Hx & Hy & Ht). apply conn_step; auto.
  - apply rt_refl.
  - eapply rt_trans; eauto.
Qed.

Hypothesis Tsym : forall a b, T a b = T b a.

Lemma conn_sym : forall S i j, conn S i j -> conn S j i.
Proof.
  intros S i j H. induction H.
  - destruct H as (Hx & Hy & Ht). apply conn_step; auto. rewrite Tsym. exact Ht.
  - apply rt_refl.
  - eapply rt_trans; eauto.
Qed.

(* a set closed under overlaps within S contains every chain that starts in it *)
Lemma conn_closed : forall S c i j,
  (forall a b, In a c -> In b S -> T a b = true -> In b c) ->
  In i c -> conn S i j -> In j c.
Proof.
  intros S c i j Hcl Hi H. apply clos_rt_rt1n in H. induction H as [|x y z Hxy Hyz IH].
  - exact Hi.
  - apply IH. destruct Hxy as (Hx & Hy & Ht). eapply Hcl; eauto.
Qed.

Lemma conn_singleton : forall k i j, In i [k] -> conn [k] i j -> j = k.
Proof.
  intros k i j Hi H. apply clos_rt_rt1n in H. induction H as [|x y z Hxy Hyz IH].
  - destruct Hi as [<-|[]]. reflexivity.
  - apply IH. destruct Hxy as (_ & Hy & _). exact Hy.
Qed.

(* ---------------------------------------------------------------- the closure loop *)
Lemma closure_perm : forall pick fuel d q r c r',
  closure T pick fuel d q r = Some (c, r') -> Permutation (d ++ q ++ r) (c ++ r').
Proof.
  induction fuel as [|f IH]; intros d q r c r' H; simpl in H; [discriminate|].
  destruct q as [|a q0] eqn:Eq.
  - inversion H; subst. reflexivity.
  - rewrite <- Eq in *. assert (Hlen : length q <> 0) by (subst q; simpl; lia).
    set (k := pick q mod length q) in *.
    assert (Hk : k < length q) by (apply Nat.mod_upper_bound; exact Hlen).
    apply IH in H. rewrite <- H. clear H IH.
    set (b := nth k q 0).
    change ((b :: d) ++ (drop_nth k q ++ filter (T b) r) ++ filter (fun x => negb (T b x)) r)
      with (b :: d ++ (drop_nth k q ++ filter (T b) r) ++ filter (fun x => negb (T b x)) r).
    rewrite <- app_assoc.
    rewrite <- (filter_split_perm (T b) r).
    rewrite (drop_nth_perm q Hk) at 1. fold b.
    symmetry. apply Permutation_middle.
Qed.

Lemma closure_fuel : forall pick fuel d q r,
  length q + length r < fuel -> closure T pick fuel d q r <> None.
Proof.
  induction fuel as [|f IH]; intros d q r H; simpl; [lia|].
  destruct q as [|a q0] eqn:Eq; [discriminate|].
  rewrite <- Eq in *. assert (Hlen : length q <> 0) by (subst q; simpl; lia).
  set (k := pick q mod length q).
  assert (Hk : k < length q) by (apply Nat.mod_upper_bound; exact Hlen).
  apply IH. rewrite app_length.
  pose proof (drop_nth_length q Hk). pose proof (filter_split_length (T (nth k q 0)) r). lia.
Qed.

(* nothing already used as base touches what is left of the old cluster *)
Lemma closure_sep : forall pick fuel d q r c r',
  closure T pick fuel d q r = Some (c, r') ->
  (forall a b, In a d -> In b r -> T a b = false) ->
  (forall a b, In a c -> In b r' -> T a b = false).
Proof.
  induction fuel as [|f IH]; intros d q r c r' H Hsep; simpl in H; [discriminate|].
  destruct q as [|a0 q0] eqn:Eq.
  - inversion H; subst. exact Hsep.
  - rewrite <- Eq in *. eapply IH; [exact H|]. clear H IH.
    intros a b Ha Hb. apply filter_In in Hb. destruct Hb as [Hb Hnt].
    destruct Ha as [<-|Ha].
    + apply negb_true_iff in Hnt. exact Hnt.
    + apply Hsep; assumption.
Qed.

(* everything put in the new cluster is linked to x by a chain inside S *)
Lemma closure_conn : forall S x pick fuel d q r c r',
  closure T pick fuel d q r = Some (c, r') ->
  incl (d ++ q ++ r) S ->
  (forall y, In y (d ++ q) -> conn S x y) ->
  (forall y, In y c -> conn S x y).
Proof.
  induction fuel as [|f IH]; intros d q r c r' H Hincl Hc; simpl in H; [discriminate|].
  destruct q as [|a0 q0] eqn:Eq.
  - inversion H; subst. intros y Hy. apply Hc. rewrite app_nil_r. exact Hy.
  - rewrite <- Eq in *. assert (Hlen : length q <> 0) by (subst q; simpl; lia).
    set (k := pick q mod length q) in *.
    assert (Hk : k < length q) by (apply Nat.mod_upper_bound; exact Hlen).
    set (b := nth k q 0) in *.
    assert (Hbq : In b q) by (apply nth_In; exact Hk).
    assert (Hqsub : forall y, In y (drop_nth k q) -> In y q).
    { intros y Hy. eapply Permutation_in; [symmetry; apply (drop_nth_perm q Hk)|]. right. exact Hy. }
    eapply IH; [exact H| |]; clear H IH.
    + intros y Hy. apply Hincl. simpl in Hy. destruct Hy as [<-|Hy].
      * apply in_or_app. right. apply in_or_app. left. exact Hbq.
      * apply in_app_or in Hy. destruct Hy as [Hy|Hy]; [apply in_or_app; left; exact Hy|].
        apply in_or_app. right. apply in_app_or in Hy. destruct Hy as [Hy|Hy].
        -- apply in_app_or in Hy. destruct Hy as [Hy|Hy].
           ++ apply in_or_app. left. apply Hqsub. exact Hy.
           ++ apply in_or_app. right. apply filter_In in Hy. tauto.
        -- apply in_or_app. right. apply filter_In in Hy. tauto.
    + intros y Hy. simpl in Hy. destruct Hy as [<-|Hy].
      * apply Hc. apply in_or_app. right. exact Hbq.
      * apply in_app_or in Hy. destruct Hy as [Hy|Hy]; [apply Hc; apply in_or_app; left; exact Hy|].
        apply in_app_or in Hy. destruct Hy as [Hy|Hy].
        -- apply Hc. apply in_or_app. right. apply Hqsub. exact Hy.
        -- apply filter_In in Hy. destruct Hy as [Hyr Ht].
           eapply conn_trans; [apply Hc; apply in_or_app; right; exact Hbq|].
           apply conn_step; [| |exact Ht]; apply Hincl; apply in_or_app; right; apply in_or_app;
             [left; exact Hbq|right; exact Hyr].
Qed.

(* ---------------------------------------------------------------- splitting one old cluster *)
Lemma closure_start_nonempty : forall pick fuel x rest c r',
  closure T pick fuel [] [x] rest = Some (c, r') -> In x c.
Proof.
  intros pick fuel x rest c r' H. destruct fuel as [|f]; simpl in H; [discriminate|].
  replace (pick [x] mod 1) with 0 in H by (symmetry; apply Nat.mod_1_r). simpl in H.
  unfold drop_nth in H. simpl in H.
  clear -H.
  assert (G : forall fuel d q r c r', closure T pick fuel d q r = Some (c, r') ->
               forall y, In y d -> In y c).
  { induction fuel as [|g IH]; intros d q r c0 r0 H0 y Hy; simpl in H0; [discriminate|].
    destruct q as [|a0 q0].
    - inversion H0; subst. exact Hy.
    - eapply IH; [exact H0|]. right. exact Hy. }
  eapply G; [exact H|]. left. reflexivity.
Qed.

Local Opaque closure.

Lemma split_fuel : forall pick fuel R, length R < fuel -> split T pick fuel R <> None.
Proof.
  induction fuel as [|f IH]; intros R H; simpl; [lia|].
  destruct R as [|x rest]; [discriminate|].
  destruct (closure T pick (S (S (length rest))) [] [x] rest) as [[c r']|] eqn:E.
  - pose proof (closure_perm _ _ _ _ _ E) as P. apply Permutation_length in P.
    simpl in P. rewrite app_length in P.
    assert (Hc : c <> []).
    { intro; subst c. eapply in_nil. eapply closure_start_nonempty. exact E. }
    assert (length r' < f).
    { destruct c; [congruence|]. simpl in *. lia. }
    specialize (IH r' H0). destruct (split T pick f r') eqn:E3; [intro Hd; discriminate Hd|exfalso; apply IH; reflexivity].
  - exfalso. eapply closure_fuel; [|exact E]. simpl. lia.
Qed.

Theorem split_spec : forall pick fuel R cs,
  split T pick fuel R = Some cs ->
  Permutation R (concat cs)
  /\ (forall c, In c cs -> c <> [] /\ forall i j, In i c -> In j c -> conn R i j)
  /\ (forall c a b, In c cs -> In a c -> In b R -> T a b = true -> In b c).
Proof.
  induction fuel as [|f IH]; intros R cs H; simpl in H; [discriminate|].
  destruct R as [|x rest].
  { inversion H; subst. simpl. split; [constructor|]. split; intros; contradiction. }
  destruct (closure T pick (S (S (length rest))) [] [x] rest) as [[c0 r']|] eqn:E; [|discriminate].
  destruct (split T pick f r') as [cs'|] eqn:E2; [|discriminate].
  inversion H; subst cs; clear H.
  destruct (IH _ _ E2) as (P' & Hconn' & Hclosed'). clear IH.
  pose proof (closure_perm _ _ _ _ _ E) as P. simpl in P.
  assert (Hsep : forall a b, In a c0 -> In b r' -> T a b = false).
  { eapply closure_sep; [exact E|]. intros a b []. }
  assert (Hc0 : forall y, In y c0 -> conn (x :: rest) x y).
  { eapply closure_conn; [exact E| |].
    - simpl. apply incl_refl.
    - simpl. intros y [<-|[]]. apply conn_refl. }
  assert (Hr'sub : incl r' (x :: rest)).
  { intros y Hy. eapply Permutation_in; [symmetry; exact P|]. apply in_or_app. right. exact Hy. }
  split; [|split].
  - simpl. rewrite P. apply Permutation_app_head. exact P'.
  - intros c [<-|Hc].
    + split.
      * intro; subst c0. eapply in_nil. eapply closure_start_nonempty. exact E.
      * intros i j Hi Hj. eapply conn_trans; [apply conn_sym; apply Hc0; exact Hi|apply Hc0; exact Hj].
    + destruct (Hconn' c Hc) as [Hne Hij]. split; [exact Hne|].
      intros i j Hi Hj. eapply conn_mono; [exact Hr'sub|]. apply Hij; assumption.
  - intros c a b [<-|Hc] Ha Hb Ht.
    + assert (Hb' : In b (c0 ++ r')) by (eapply Permutation_in; [exact P|exact Hb]).
      apply in_app_or in Hb'. destruct Hb' as [Hb'|Hb']; [exact Hb'|].
      rewrite (Hsep a b Ha Hb') in Ht. discriminate.
    + assert (Har : In a r').
      { eapply Permutation_in; [symmetry; exact P'|]. apply in_concat. exists c. auto. }
      assert (Hb' : In b (c0 ++ r')) by (eapply Permutation_in; [exact P|exact Hb]).
      apply in_app_or in Hb'. destruct Hb' as [Hb'|Hb'].
      * rewrite Tsym in Ht. rewrite (Hsep b a Hb' Har) in Ht. discriminate.
      * eapply Hclosed'; eauto.
Qed.

(* classes of the split = chain-connected components *)
Theorem split_classes : forall pick fuel R cs i j,
  split T pick fuel R = Some cs -> In i R ->
  ((exists c, In c cs /\ In i c /\ In j c) <-> conn R i j).
Proof.
  intros pick fuel R cs i j H Hi. destruct (split_spec _ _ _ H) as (P & Hconn & Hclosed).
  split.
  - intros (c & Hc & Hic & Hjc). apply (proj2 (Hconn c Hc)); assumption.
  - intros Hij.
    assert (Hi' : In i (concat cs)) by (eapply Permutation_in; [exact P|exact Hi]).
    apply in_concat in Hi'. destruct Hi' as (c & Hc & Hic).
    exists c. split; [exact Hc|]. split; [exact Hic|].
    eapply conn_closed; [|exact Hic|exact Hij].
    intros a b Ha Hb Ht. eapply Hclosed; eauto.
Qed.

End Chains.

(* ---------------------------------------------------------------- sequential = pick_first *)
Local Transparent closure.

Lemma bfs_closure : forall T fuel d q r, bfs T fuel d q r = closure T pick_first fuel d q r.
Proof.
  induction fuel as [|f IH]; intros; simpl; [reflexivity|].
  destruct q as [|b q]; [reflexivity|].
  unfold pick_first. rewrite Nat.mod_0_l by (simpl; lia). simpl. unfold drop_nth. simpl. apply IH.
Qed.

Local Opaque closure bfs.

Lemma split_seq_split : forall T fuel cl, split_seq T fuel cl = split T pick_first fuel cl.
Proof.
  induction fuel as [|f IH]; intros; simpl; [reflexivity|].
  destruct cl as [|x rest]; [reflexivity|].
  rewrite bfs_closure.
  destruct (closure T pick_first (S (S (length rest))) [] [x] rest) as [[c r']|]; [|reflexivity].
  rewrite IH. reflexivity.
Qed.

(* no symmetry needed for the partition part *)
Lemma split_perm : forall T pick fuel R cs,
  split T pick fuel R = Some cs ->
  Permutation R (concat cs) /\ (forall c, In c cs -> c <> []).
Proof.
  induction fuel as [|f IH]; intros R cs H; simpl in H; [discriminate|].
  destruct R as [|x rest].
  { inversion H; subst. simpl. split; [constructor|]. intros c []. }
  destruct (closure T pick (S (S (length rest))) [] [x] rest) as [[c0 r']|] eqn:E; [|discriminate].
  destruct (split T pick f r') as [cs'|] eqn:E2; [|discriminate].
  inversion H; subst cs; clear H.
  destruct (IH _ _ E2) as (P' & Hne). clear IH.
  pose proof (closure_perm _ _ _ _ _ _ E) as P. simpl in P.
  split.
  - simpl. rewrite P. apply Permutation_app_head. exact P'.
  - intros c [<-|Hc]; [|apply Hne; exact Hc].
    intro; subst c0. eapply in_nil. eapply closure_start_nonempty. exact E.
Qed.

(* ---------------------------------------------------------------- split_all *)
Lemma split_all_fuel : forall T others, split_all T others <> None.
Proof.
  induction others as [|cl t IH]; cbn [split_all]; [discriminate|].
  rewrite split_seq_split.
  pose proof (@split_fuel T pick_first (S (length cl)) cl (Nat.lt_succ_diag_r _)) as F.
  destruct (split T pick_first (S (length cl)) cl); [|congruence].
  destruct (split_all T t); [discriminate|congruence].
Qed.

(* every produced cluster comes from the split of one of the given old clusters *)
Lemma split_all_inv : forall T others cs,
  split_all T others = Some cs ->
  Permutation (concat others) (concat cs)
  /\ (forall c, In c cs -> exists cl cs', In cl others /\
         split T pick_first (S (length cl)) cl = Some cs' /\ In c cs')
  /\ (forall cl, In cl others -> exists cs',
         split T pick_first (S (length cl)) cl = Some cs' /\ incl cs' cs).
Proof.
  intros T. induction others as [|cl t IH]; intros cs H; cbn [split_all] in H.
  - inversion H; subst. simpl. split; [constructor|]. split; intros; contradiction.
  - rewrite split_seq_split in H.
    destruct (split T pick_first (S (length cl)) cl) as [a|] eqn:Ea; [|discriminate].
    destruct (split_all T t) as [b|] eqn:Eb; [|discriminate].
    inversion H; subst cs; clear H.
    destruct (IH _ eq_refl) as (P & Hinv & Hfw). clear IH.
    split; [|split].
    + simpl. rewrite concat_app. apply Permutation_app; [|exact P].
      exact (proj1 (@split_perm T _ _ _ _ Ea)).
    + intros c Hc. apply in_app_or in Hc. destruct Hc as [Hc|Hc].
      * exists cl, a. simpl. auto.
      * destruct (Hinv c Hc) as (cl' & cs' & H1 & H2 & H3). exists cl', cs'. simpl. auto.
    + intros cl' [<-|Hcl'].
      * exists a. split; [exact Ea|]. apply incl_appl. apply incl_refl.
      * destruct (Hfw cl' Hcl') as (cs' & H1 & H2). exists cs'. split; [exact H1|].
        apply incl_appr. exact H2.
Qed.

(* ================================================================ main theorems *)
Definition same_class (new : clustering) (i j : nat) : Prop :=
  exists c, In c new /\ In i c /\ In j c.

Lemma Permutation_concat : forall (l l' : list (list nat)),
  Permutation l l' -> Permutation (concat l) (concat l').
Proof.
  intros l l' P. induction P; simpl.
  - constructor.
  - apply Permutation_app_head. exact IHP.
  - rewrite !app_assoc. apply Permutation_app_tail. apply Permutation_app_comm.
  - eapply Permutation_trans; eauto.
Qed.

Lemma singletons_concat : forall n, concat (singletons n) = rev (seq 0 n).
Proof.
  intro n. unfold singletons. induction (rev (seq 0 n)) as [|a l IH]; simpl; [reflexivity|].
  rewrite IH. reflexivity.
Qed.

Lemma singletons_in : forall n c, In c (singletons n) -> exists i, c = [i] /\ i < n.
Proof.
  intros n c H. unfold singletons in H. apply in_map_iff in H. destruct H as (i & <- & Hi).
  exists i. split; [reflexivity|]. apply in_rev in Hi. apply in_seq in Hi. lia.
Qed.

Lemma is_single_inv : forall c, is_single c = true -> exists k, c = [k].
Proof.
  intros [|k [|? ?]] H; unfold is_single in H; simpl in H; try discriminate. exists k. reflexivity.
Qed.

Lemma cluster_seq_inv : forall T old new,
  cluster_seq T false old = Some new ->
  exists cs, split_all T (filter (fun c => negb (is_single c)) old) = Some cs
             /\ new = rev (filter is_single old ++ cs).
Proof.
  intros T old new H. unfold cluster_seq in H.
  destruct (split_all T (filter (fun c => negb (is_single c)) old)) as [cs|]; [|discriminate].
  inversion H. exists cs. auto.
Qed.

Theorem cluster_seq_fuel_enough : forall T iso old, cluster_seq T iso old <> None.
Proof.
  intros T iso old. unfold cluster_seq. destruct iso; [discriminate|].
  pose proof (split_all_fuel T (filter (fun c => negb (is_single c)) old)) as F.
  destruct (split_all T (filter (fun c => negb (is_single c)) old)); [discriminate|congruence].
Qed.

(* partition part without precondition when the override is off *)
Lemma cluster_seq_perm_noiso : forall T old new,
  cluster_seq T false old = Some new ->
  Permutation (concat new) (concat old) /\ (forall c, In c new -> c <> []).
Proof.
  intros T old new H. destruct (cluster_seq_inv _ _ H) as (cs & Hs & ->).
  destruct (split_all_inv _ _ Hs) as (P & Hinv & _).
  split.
  - rewrite <- (Permutation_concat (Permutation_rev (filter is_single old ++ cs))).
    rewrite concat_app. rewrite <- P. rewrite <- concat_app.
    apply Permutation_concat. symmetry. apply filter_split_perm.
  - intros c Hc. apply in_rev in Hc. apply in_app_or in Hc. destruct Hc as [Hc|Hc].
    + apply filter_In in Hc. destruct Hc as [_ Hc]. destruct (is_single_inv _ Hc) as [k ->]. discriminate.
    + destruct (Hinv c Hc) as (cl & cs' & _ & Hsp & Hin).
      exact (proj2 (split_perm _ _ _ _ Hsp) c Hin).
Qed.

Theorem cluster_partition : forall T iso old new,
  Permutation (concat old) (seq 0 (length (concat old))) ->
  cluster_seq T iso old = Some new ->
  Permutation (concat new) (concat old) /\ NoDup (concat new) /\ (forall c, In c new -> c <> []).
Proof.
  intros T iso old new Hold H.
  assert (G : Permutation (concat new) (concat old) /\ (forall c, In c new -> c <> [])).
  { destruct iso.
    - unfold cluster_seq in H. inversion H; subst new. split.
      + rewrite singletons_concat. rewrite <- Permutation_rev. symmetry. exact Hold.
      + intros c Hc. destruct (singletons_in _ _ Hc) as (i & -> & _). discriminate.
    - apply cluster_seq_perm_noiso with (T := T). exact H. }
  destruct G as [P Hne]. split; [exact P|]. split; [|exact Hne].
  eapply Permutation_NoDup; [symmetry; eapply Permutation_trans; [exact P|exact Hold]|].
  apply seq_NoDup.
Qed.

Theorem cluster_refines : forall T iso old new,
  Permutation (concat old) (seq 0 (length (concat old))) ->
  cluster_seq T iso old = Some new ->
  forall c, In c new -> exists cl, In cl old /\ incl c cl.
Proof.
  intros T iso old new Hold H c Hc. destruct iso.
  - unfold cluster_seq in H. inversion H; subst new.
    destruct (singletons_in _ _ Hc) as (i & -> & Hi).
    assert (Hin : In i (concat old)).
    { eapply Permutation_in; [symmetry; exact Hold|]. apply in_seq. lia. }
    apply in_concat in Hin. destruct Hin as (cl & Hcl & Hicl). exists cl. split; [exact Hcl|].
    intros y [<-|[]]. exact Hicl.
  - destruct (cluster_seq_inv _ _ H) as (cs & Hs & ->).
    destruct (split_all_inv _ _ Hs) as (_ & Hinv & _).
    apply in_rev in Hc. apply in_app_or in Hc. destruct Hc as [Hc|Hc].
    + apply filter_In in Hc. exists c. split; [tauto|apply incl_refl].
    + destruct (Hinv c Hc) as (cl & cs' & Hcl & Hsp & Hin).
      apply filter_In in Hcl. exists cl. split; [tauto|].
      intros y Hy. eapply Permutation_in; [symmetry; exact (proj1 (split_perm _ _ _ _ Hsp))|].
      apply in_concat. exists c. auto.
Qed.

Theorem cluster_components : forall T old new,
  (forall a b, T a b = T b a) ->
  NoDup (concat old) ->
  cluster_seq T false old = Some new ->
  forall cl i j, In cl old -> In i cl -> In j cl ->
    (same_class new i j <-> conn T cl i j).
Proof.
  intros T old new Tsym ND H cl i j Hcl Hi Hj.
  destruct (cluster_seq_inv _ _ H) as (cs & Hs & ->).
  destruct (split_all_inv _ _ Hs) as (_ & Hinv & Hfw).
  split.
  - intros (c & Hc & Hic & Hjc). apply in_rev in Hc. apply in_app_or in Hc. destruct Hc as [Hc|Hc].
    + apply filter_In in Hc. destruct Hc as [_ Hc]. destruct (is_single_inv _ Hc) as [k ->].
      destruct Hic as [<-|[]]. destruct Hjc as [<-|[]]. apply conn_refl.
    + destruct (Hinv c Hc) as (cl' & cs' & Hcl' & Hsp & Hin).
      apply filter_In in Hcl'. destruct Hcl' as [Hcl' _].
      assert (Hicl' : In i cl').
      { eapply Permutation_in; [symmetry; exact (proj1 (split_perm _ _ _ _ Hsp))|].
        apply in_concat. exists c. auto. }
      assert (cl' = cl) by (eapply NoDup_concat_unique; eauto). subst cl'.
      apply (proj1 (@split_classes T Tsym _ _ _ _ i j Hsp Hi)). exists c. auto.
  - intros Hconn. destruct (is_single cl) eqn:Es.
    + destruct (is_single_inv _ Es) as [k ->].
      assert (j = k) by (eapply conn_singleton; eauto). destruct Hi as [<-|[]]. subst j.
      exists [k]. split; [|simpl; auto]. apply -> in_rev. apply in_or_app. left.
      apply filter_In. split; assumption.
    + assert (Hcl' : In cl (filter (fun c => negb (is_single c)) old)).
      { apply filter_In. split; [exact Hcl|]. rewrite Es. reflexivity. }
      destruct (Hfw cl Hcl') as (cs' & Hsp & Hincl).
      destruct (proj2 (@split_classes T Tsym _ _ _ _ i j Hsp Hi) Hconn) as (c & Hc & Hic & Hjc).
      exists c. split; [|auto]. apply -> in_rev. apply in_or_app. right. apply Hincl. exact Hc.
Qed.

Theorem cluster_iso_singletons : forall T old new,
  cluster_seq T true old = Some new ->
  forall c, In c new -> exists i, c = [i] /\ i < length (concat old).
Proof.
  intros T old new H c Hc. unfold cluster_seq in H. inversion H; subst new.
  apply singletons_in. exact Hc.
Qed.

Lemma newton_isolated_spec : forall touchN n,
  newton_isolated touchN n = true <->
  (forall i j, i < n -> j < n -> i <> j -> touchN i j = false).
Proof.
  intros touchN n. unfold newton_isolated. rewrite forallb_forall. split.
  - intros H i j Hi Hj Hne. specialize (H i). rewrite forallb_forall in H.
    assert (Hi' : In i (seq 0 n)) by (apply in_seq; lia).
    assert (Hj' : In j (seq 0 n)) by (apply in_seq; lia).
    specialize (H Hi' j Hj'). apply orb_true_iff in H. destruct H as [H|H].
    + apply Nat.eqb_eq in H. contradiction.
    + apply negb_true_iff in H. exact H.
  - intros H i Hi. apply forallb_forall. intros j Hj. apply in_seq in Hi. apply in_seq in Hj.
    destruct (Nat.eqb i j) eqn:E; [reflexivity|]. apply Nat.eqb_neq in E. simpl.
    rewrite H by lia. reflexivity.
Qed.

(* ================================================================ the parallel variant *)
Lemma same_old_sym : forall (old : clustering) a b, same_old old a b = same_old old b a.
Proof.
  intros old a b. unfold same_old. induction old as [|cl t IH]; simpl; [reflexivity|].
  rewrite IH. rewrite (andb_comm (mem a cl)). reflexivity.
Qed.

Section Par.
Variable T : nat -> nat -> bool.
Variable old : clustering.
Hypothesis Tsym : forall a b, T a b = T b a.
Let n := length (concat old).
Hypothesis Hold : Permutation (concat old) (seq 0 n).

Definition Tpar (a b : nat) : bool := same_old old a b && T a b.


Lemma Tpar_sym : forall a b, Tpar a b = Tpar b a.
Proof. intros. unfold Tpar. rewrite same_old_sym, Tsym. reflexivity. Qed.

Lemma old_nodup : NoDup (concat old).
Proof. eapply Permutation_NoDup; [symmetry; exact Hold|apply seq_NoDup]. Qed.

Lemma old_incl : forall cl, In cl old -> incl cl (seq 0 n).
Proof.
  intros cl Hcl y Hy. eapply Permutation_in; [exact Hold|]. apply in_concat. exists cl. auto.
Qed.

Lemma bridge_fw : forall cl i j, In cl old -> In i cl -> conn Tpar (seq 0 n) i j ->
  In j cl /\ conn T cl i j.
Proof.
  intros cl i j Hcl Hi H. apply clos_rt_rt1n in H. induction H as [|x y z Hxy Hyz IH].
  - split; [exact Hi|apply conn_refl].
  - destruct Hxy as (_ & _ & Ht). unfold Tpar in Ht. apply andb_true_iff in Ht.
    destruct Ht as [Hso Ht]. unfold same_old in Hso. apply existsb_exists in Hso.
    destruct Hso as (cl' & Hcl' & Hm). apply andb_true_iff in Hm. destruct Hm as [Hx Hy].
    apply mem_In in Hx. apply mem_In in Hy.
    assert (cl' = cl) by (exact (@NoDup_concat_unique old cl' cl x old_nodup Hcl' Hcl Hx Hi)). subst cl'.
    destruct (IH Hy) as [Hz Hc]. split; [exact Hz|].
    apply conn_trans with (j := y); [apply conn_step; assumption|exact Hc].
Qed.

Lemma bridge_bw : forall cl i j, In cl old -> conn T cl i j -> conn Tpar (seq 0 n) i j.
Proof.
  intros cl i j Hcl H. induction H as [x y Hxy| |].
  - destruct Hxy as (Hx & Hy & Ht). apply conn_step; try (eapply old_incl; eauto).
    unfold Tpar. rewrite Ht, andb_true_r. unfold same_old. apply existsb_exists.
    exists cl. split; [exact Hcl|]. apply andb_true_iff. split; apply mem_In; assumption.
  - apply conn_refl.
  - eapply conn_trans; eauto.
Qed.

Lemma cluster_par_inv : forall pick new,
  cluster_par pick T false old = Some new ->
  exists cs, split Tpar pick (S n) (seq 0 n) = Some cs /\ new = rev cs.
Proof.
  intros pick new H. unfold cluster_par in H. fold n in H. fold Tpar in H.
  change (fun a b : nat => same_old old a b && T a b) with Tpar in H.
  destruct (split Tpar pick (S n) (seq 0 n)) as [cs|]; [|discriminate].
  inversion H. exists cs. auto.
Qed.

Theorem cluster_par_partition : forall pick iso new,
  cluster_par pick T iso old = Some new ->
  Permutation (concat new) (concat old) /\ NoDup (concat new) /\ (forall c, In c new -> c <> []).
Proof.
  intros pick iso new H.
  assert (G : Permutation (concat new) (concat old) /\ (forall c, In c new -> c <> [])).
  { destruct iso.
    - unfold cluster_par in H. inversion H; subst new. split.
      + rewrite singletons_concat. rewrite <- Permutation_rev. symmetry. exact Hold.
      + intros c Hc. destruct (singletons_in _ _ Hc) as (i & -> & _). discriminate.
    - destruct (cluster_par_inv _ H) as (cs & Hs & ->).
      destruct (split_perm _ _ _ _ Hs) as [P Hne]. split.
      + rewrite <- (Permutation_concat (Permutation_rev cs)). rewrite <- P. symmetry. exact Hold.
      + intros c Hc. apply Hne. apply in_rev. exact Hc. }
  destruct G as [P Hne]. split; [exact P|]. split; [|exact Hne].
  eapply Permutation_NoDup; [symmetry; eapply Permutation_trans; [exact P|exact Hold]|].
  apply seq_NoDup.
Qed.

Theorem cluster_par_components : forall pick new,
  cluster_par pick T false old = Some new ->
  forall cl i j, In cl old -> In i cl -> In j cl ->
    (same_class new i j <-> conn T cl i j).
Proof.
  intros pick new H cl i j Hcl Hi Hj.
  destruct (cluster_par_inv _ H) as (cs & Hs & ->).
  assert (HiN : In i (seq 0 n)) by (eapply old_incl; eauto).
  pose proof (@split_classes Tpar Tpar_sym _ _ _ _ i j Hs HiN) as SC.
  split.
  - intros (c & Hc & Hic & Hjc). apply in_rev in Hc.
    apply (@bridge_fw cl i j Hcl Hi). apply SC. exists c. auto.
  - intros Hconn. destruct (proj2 SC (@bridge_bw cl i j Hcl Hconn)) as (c & Hc & Hic & Hjc).
    exists c. split; [apply -> in_rev; exact Hc|auto].
Qed.

Theorem cluster_par_refines : forall pick iso new,
  cluster_par pick T iso old = Some new ->
  forall c, In c new -> exists cl, In cl old /\ incl c cl.
Proof.
  intros pick iso new H c Hc.
  destruct (cluster_par_partition _ _ H) as (P & _ & Hne).
  destruct c as [|i c'] eqn:Ec; [exfalso; eapply Hne; eauto|]. rewrite <- Ec in *.
  assert (Hic : In i c) by (subst c; left; reflexivity).
  assert (Hin : In i (concat old)).
  { eapply Permutation_in; [exact P|]. apply in_concat. exists c. auto. }
  apply in_concat in Hin. destruct Hin as (cl & Hcl & Hicl). exists cl. split; [exact Hcl|].
  destruct iso.
  - unfold cluster_par in H. inversion H; subst new.
    destruct (singletons_in _ _ Hc) as (k & Hk & _). rewrite Hk in *.
    destruct Hic as [<-|[]]. intros y [<-|[]]. exact Hicl.
  - destruct (cluster_par_inv _ H) as (cs & Hs & ->). apply in_rev in Hc.
    intros y Hy.
    assert (Hc' : conn Tpar (seq 0 n) i y).
    { exact (proj2 (proj1 (proj2 (@split_spec Tpar Tpar_sym _ _ _ _ Hs)) c Hc) i y Hic Hy). }
    exact (proj1 (@bridge_fw cl i y Hcl Hicl Hc')).
Qed.

Theorem cluster_par_fuel_enough : forall pick iso, cluster_par pick T iso old <> None.
Proof.
  intros pick iso. unfold cluster_par. destruct iso; [discriminate|]. fold n.
  pose proof (@split_fuel (fun a b => same_old old a b && T a b) pick (S n) (seq 0 n)) as F.
  rewrite seq_length in F. specialize (F (Nat.lt_succ_diag_r _)).
  destruct (split (fun a b => same_old old a b && T a b) pick (S n) (seq 0 n));
    [discriminate|congruence].
Qed.

(* whatever the order in which the block workers' hits are spliced into the cluster list,
   the parallel variant computes the same partition as the sequential one *)
Theorem cluster_par_eq_seq : forall pick iso news newp,
  cluster_seq T iso old = Some news ->
  cluster_par pick T iso old = Some newp ->
  forall i j, same_class news i j <-> same_class newp i j.
Proof.
  intros pick iso news newp Hs Hp i j. destruct iso.
  - unfold cluster_seq in Hs. unfold cluster_par in Hp. inversion Hs. inversion Hp. tauto.
  - split; intros (c & Hc & Hic & Hjc).
    + destruct (@cluster_refines T false old news Hold Hs c Hc) as (cl & Hcl & Hsub).
      apply (proj2 (@cluster_par_components pick newp Hp cl i j Hcl (Hsub _ Hic) (Hsub _ Hjc))).
      apply (proj1 (@cluster_components T old news Tsym old_nodup Hs cl i j Hcl (Hsub _ Hic) (Hsub _ Hjc))).
      exists c. auto.
    + destruct (@cluster_par_refines pick false newp Hp c Hc) as (cl & Hcl & Hsub).
      apply (proj2 (@cluster_components T old news Tsym old_nodup Hs cl i j Hcl (Hsub _ Hic) (Hsub _ Hjc))).
      apply (proj1 (@cluster_par_components pick newp Hp cl i j Hcl (Hsub _ Hic) (Hsub _ Hjc))).
      exists c. auto.
Qed.

End Par.
