(* C07 -- mps_ftouchnwt: the comparison  n * (frad[i] + frad[j]) >= cplx_mod (z_i - z_j)  with the
   roundings taken from Flocq's binary64 format (round to nearest even, FLT_exp (-1074) 53) instead of
   being assumed.  What is still assumed: results in the normal range or zero (no gradual underflow),
   cabs (libm hypot) within one unit roundoff of the exact modulus of the rounded difference, and
   no overflow (the frad >= DBL_MAX/(2n) guard of the C code is not modelled here). *)
From Coq Require Import ZArith Reals Lra Lia.
From Flocq Require Import Core Relative.
From MPSV Require Import Cluster.Touch.
Open Scope R_scope.

Definition fexp64 := FLT_exp (-1074) 53.
Definition rnd64 := round radix2 fexp64 ZnearestE.
Definition u64 : R := / 2 * bpow radix2 (-53 + 1).

Global Instance prec53_gt_0 : Prec_gt_0 53.
Proof. reflexivity. Qed.

Definition normal_or_zero (x : R) : Prop := x = 0 \/ bpow radix2 (-1022) <= Rabs x.

Lemma u64_bounds : 0 <= u64 <= 1 / 16.
Proof.
  unfold u64. split.
  - apply Rmult_le_pos; [lra|apply bpow_ge_0].
  - assert (H : bpow radix2 (-53 + 1) <= bpow radix2 (-3)) by (apply bpow_le; lia).
    replace (bpow radix2 (-3)) with (/ 8) in H by (simpl; lra). lra.
Qed.

Lemma rnd64_rel : forall x, normal_or_zero x ->
  exists e, Rabs e <= u64 /\ rnd64 x = x * (1 + e).
Proof.
  intros x [->|H].
  - exists 0. split; [rewrite Rabs_R0; exact (proj1 u64_bounds)|]. unfold rnd64. rewrite round_0 by (apply valid_rnd_N). ring.
  - unfold rnd64, fexp64, u64.
    apply (relative_error_N_FLT_ex radix2 (-1074) 53 prec53_gt_0 (fun x => negb (Z.even x)) x). exact H.
Qed.

(* componentwise relative error u on (dx, dy) gives relative error u on the modulus *)
Lemma modulus_rel : forall u dx dy a b,
  0 <= u < 1 -> Rabs a <= u -> Rabs b <= u ->
  exists t, Rabs t <= u /\
    sqrt ((dx * (1 + a)) * (dx * (1 + a)) + (dy * (1 + b)) * (dy * (1 + b)))
    = sqrt (dx * dx + dy * dy) * (1 + t).
Proof.
  intros u dx dy a b Hu Ha Hb.
  pose proof (one_plus_bounds u a Ha) as Ba. pose proof (one_plus_bounds u b Hb) as Bb.
  set (D2 := dx * dx + dy * dy).
  set (N2 := (dx * (1 + a)) * (dx * (1 + a)) + (dy * (1 + b)) * (dy * (1 + b))).
  assert (HD2 : 0 <= D2) by (unfold D2; nra).
  assert (Hsq : forall c, 1 - u <= 1 + c <= 1 + u ->
            (1 - u) * (1 - u) <= (1 + c) * (1 + c) <= (1 + u) * (1 + u)) by (intros c Hc; nra).
  pose proof (Hsq a Ba) as Sa. pose proof (Hsq b Bb) as Sb.
  assert (Hdx : 0 <= dx * dx) by nra. assert (Hdy : 0 <= dy * dy) by nra.
  assert (Hlo : ((1 - u) * (1 - u)) * D2 <= N2).
  { unfold N2, D2.
    replace (dx * (1 + a) * (dx * (1 + a))) with (dx * dx * ((1 + a) * (1 + a))) by ring.
    replace (dy * (1 + b) * (dy * (1 + b))) with (dy * dy * ((1 + b) * (1 + b))) by ring.
    assert (dx * dx * ((1 - u) * (1 - u)) <= dx * dx * ((1 + a) * (1 + a))) by (apply Rmult_le_compat_l; lra).
    assert (dy * dy * ((1 - u) * (1 - u)) <= dy * dy * ((1 + b) * (1 + b))) by (apply Rmult_le_compat_l; lra).
    lra. }
  assert (Hhi : N2 <= ((1 + u) * (1 + u)) * D2).
  { unfold N2, D2.
    replace (dx * (1 + a) * (dx * (1 + a))) with (dx * dx * ((1 + a) * (1 + a))) by ring.
    replace (dy * (1 + b) * (dy * (1 + b))) with (dy * dy * ((1 + b) * (1 + b))) by ring.
    assert (dx * dx * ((1 + a) * (1 + a)) <= dx * dx * ((1 + u) * (1 + u))) by (apply Rmult_le_compat_l; lra).
    assert (dy * dy * ((1 + b) * (1 + b)) <= dy * dy * ((1 + u) * (1 + u))) by (apply Rmult_le_compat_l; lra).
    lra. }
  assert (Slo : (1 - u) * sqrt D2 <= sqrt N2).
  { rewrite <- (sqrt_square (1 - u)) at 1 by lra. rewrite <- sqrt_mult_alt by nra.
    apply sqrt_le_1_alt. exact Hlo. }
  assert (Shi : sqrt N2 <= (1 + u) * sqrt D2).
  { rewrite <- (sqrt_square (1 + u)) at 1 by lra. rewrite <- sqrt_mult_alt by nra.
    apply sqrt_le_1_alt. exact Hhi. }
  destruct (Req_dec (sqrt D2) 0) as [Z|NZ].
  - exists 0. split; [rewrite Rabs_R0; lra|]. rewrite Z in *. 
    assert (0 <= sqrt N2) by apply sqrt_pos. lra.
  - assert (Hpos : 0 < sqrt D2) by (pose proof (sqrt_pos D2); lra).
    exists (sqrt N2 / sqrt D2 - 1). split.
    + apply Rabs_le. split.
      * apply Rle_trans with ((1 - u) - 1); [lra|]. apply Rplus_le_compat_r.
        apply Rmult_le_reg_r with (sqrt D2); [exact Hpos|]. unfold Rdiv. rewrite Rmult_assoc, Rinv_l by exact NZ. lra.
      * apply Rle_trans with ((1 + u) - 1); [|lra]. apply Rplus_le_compat_r.
        apply Rmult_le_reg_r with (sqrt D2); [exact Hpos|]. unfold Rdiv. rewrite Rmult_assoc, Rinv_l by exact NZ. lra.
    + field. exact NZ.
Qed.

Theorem ftouch_flocq : forall nf ri rj xi yi xj yj m : R,
  0 <= nf -> 0 <= ri -> 0 <= rj ->
  normal_or_zero (xi - xj) -> normal_or_zero (yi - yj) ->
  normal_or_zero (ri + rj) -> normal_or_zero (nf * rnd64 (ri + rj)) ->
  let dx' := rnd64 (xi - xj) in
  let dy' := rnd64 (yi - yj) in
  (exists e4, Rabs e4 <= u64 /\ m = sqrt (dx' * dx' + dy' * dy') * (1 + e4)) ->
  let D := sqrt ((xi - xj) * (xi - xj) + (yi - yj) * (yi - yj)) in
  let L := nf * (ri + rj) in
  let coded := rnd64 (nf * rnd64 (ri + rj)) in
  (D * (1 + 8 * u64) <= L -> m <= coded) /\ (L * (1 + 8 * u64) < D -> coded < m).
Proof.
  intros nf ri rj xi yi xj yj m Hnf Hri Hrj Nx Ny Ns Np dx' dy' (e4 & He4 & Hm) D L coded.
  destruct (rnd64_rel _ Nx) as (a & Ha & Ea). destruct (rnd64_rel _ Ny) as (b & Hb & Eb).
  destruct (rnd64_rel _ Ns) as (e1 & He1 & E1). destruct (rnd64_rel _ Np) as (e2 & He2 & E2).
  pose proof u64_bounds as Hu.
  destruct (modulus_rel u64 (xi - xj) (yi - yj) a b) as (e3 & He3 & E3); [lra|exact Ha|exact Hb|].
  assert (HD : 0 <= D) by apply sqrt_pos.
  pose proof (touch_float_sound u64 nf ri rj D e1 e2 e3 e4 Hu Hnf Hri Hrj HD He1 He2 He3 He4) as TS.
  cbv zeta in TS.
  assert (Ecoded : coded = nf * ((ri + rj) * (1 + e1)) * (1 + e2)).
  { unfold coded. rewrite E2. rewrite E1. ring. }
  assert (Em : m = D * (1 + e3) * (1 + e4)).
  { rewrite Hm. unfold dx', dy'. rewrite Ea, Eb. rewrite E3. reflexivity. }
  rewrite Ecoded, Em. exact TS.
Qed.

(* ---------------------------------------------------------------- general margin lemma *)
Lemma touch_margin : forall A d p q plo phi qlo qhi M,
  0 <= A -> 0 <= d -> 0 < plo -> 0 < qlo -> 0 <= M ->
  plo <= p <= phi -> qlo <= q <= qhi ->
  qhi <= (1 + M) * plo -> phi <= (1 + M) * qlo ->
  (d * (1 + M) <= A -> d * q <= A * p) /\ (A * (1 + M) < d -> A * p < d * q).
Proof.
  intros A d p q plo phi qlo qhi M HA Hd Hplo Hqlo HM Hp Hq H1 H2. split; intro H.
  - apply Rle_trans with (d * qhi); [apply Rmult_le_compat_l; lra|].
    apply Rle_trans with (d * ((1 + M) * plo)); [apply Rmult_le_compat_l; lra|].
    apply Rle_trans with (A * plo).
    + rewrite <- Rmult_assoc. apply Rmult_le_compat_r; lra.
    + apply Rmult_le_compat_l; lra.
  - apply Rle_lt_trans with (A * phi); [apply Rmult_le_compat_l; lra|].
    apply Rle_lt_trans with (A * ((1 + M) * qlo)); [apply Rmult_le_compat_l; lra|].
    apply Rlt_le_trans with (d * qlo).
    + rewrite <- Rmult_assoc. apply Rmult_lt_compat_r; lra.
    + apply Rmult_le_compat_l; lra.
Qed.

(* DPE / MP variants (mps_dtouchnwt, mps_mtouchnwt): rdpe_add, rdpe_mul_eq_d and the two component
   subtractions each with relative error <= u (double mantissa, no exponent range), cdpe_mod
   (rdpe_sqr, rdpe_add, rdpe_sqrt) with relative error <= 3u; the final rdpe_ge on non-negative
   operands is exact (C12).  Same 8u margin. *)
Theorem dtouch_sound : forall u nf ri rj dx dy a b e1 e2 e4 m : R,
  0 <= u <= 1 / 16 -> 0 <= nf -> 0 <= ri -> 0 <= rj ->
  Rabs a <= u -> Rabs b <= u -> Rabs e1 <= u -> Rabs e2 <= u -> Rabs e4 <= 3 * u ->
  m = sqrt ((dx * (1 + a)) * (dx * (1 + a)) + (dy * (1 + b)) * (dy * (1 + b))) * (1 + e4) ->
  let D := sqrt (dx * dx + dy * dy) in
  let L := nf * (ri + rj) in
  let coded := nf * ((ri + rj) * (1 + e1)) * (1 + e2) in
  (D * (1 + 8 * u) <= L -> m <= coded) /\ (L * (1 + 8 * u) < D -> coded < m).
Proof.
  intros u nf ri rj dx dy a b e1 e2 e4 m Hu Hnf Hri Hrj Ha Hb H1 H2 H4 Hm D L coded.
  destruct (modulus_rel u dx dy a b) as (e3 & He3 & E3); [lra|exact Ha|exact Hb|].
  pose proof (one_plus_bounds u e1 H1) as B1. pose proof (one_plus_bounds u e2 H2) as B2.
  pose proof (one_plus_bounds u e3 He3) as B3. pose proof (one_plus_bounds (3 * u) e4 H4) as B4.
  assert (HD : 0 <= D) by apply sqrt_pos.
  assert (HL : 0 <= L) by (unfold L; apply Rmult_le_pos; lra).
  assert (Ec : coded = L * ((1 + e1) * (1 + e2))) by (unfold coded, L; ring).
  assert (Em : m = D * ((1 + e3) * (1 + e4))) by (rewrite Hm, E3; unfold D; ring).
  rewrite Ec, Em.
  assert (Huu : 0 <= u * u) by nra.
  assert (Huuu : 0 <= u * u * u) by (apply Rmult_le_pos; lra).
  apply (touch_margin L D ((1 + e1) * (1 + e2)) ((1 + e3) * (1 + e4))
           ((1 - u) * (1 - u)) ((1 + u) * (1 + u)) ((1 - u) * (1 - 3 * u)) ((1 + u) * (1 + 3 * u)) (8 * u));
    try lra; try nra.
Qed.
