(* C07 -- executable model of MPSolve's cluster analysis.
   Anchors: src/libmps/common/cluster-analysis.c (mps_fcluster, mps_dcluster, mps_mcluster,
   _mps_mcluster_worker), src/libmps/common/cluster.c (list operations).
   Definitions only; the lemmas are in ClusterProps.v.

   Data.  A clusterization is the list of clusters in the order of the C linked list
   (clusterization->first first); a cluster is the list of root indices in the order of its
   linked list (cluster->first first).  mps_cluster_insert_root and
   mps_clusterization_insert_cluster both PREPEND.

   The touch predicate is a parameter (the harness exports the matrix of the implementation's own
   mps_ftouchnwt / mps_dtouchnwt / mps_mtouchnwt on the data of the call): [touch] is the predicate
   on the radii passed as argument (Gerschgorin radii), [touchN] the same predicate on the radii
   stored in the roots (root[i]->frad / drad), used only by the newton-isolation test. *)
From Coq Require Import List Arith Bool.
Import ListNotations.

Definition clustering := list (list nat).

(* ------------------------------------------------------------------------------------------ *)
(* The newton-isolation test (identical in the three variants):
     for i < n, for j < n:  if (i != j && touchnwt(newton_radii, nf, i, j)) newton_isolation = false *)
Definition newton_isolated (touchN : nat -> nat -> bool) (n : nat) : bool :=
  forallb (fun i => forallb (fun j => (i =? j) || negb (touchN i j)) (seq 0 n)) (seq 0 n).

(* ------------------------------------------------------------------------------------------ *)
(* Inner loops of mps_fcluster / mps_dcluster ("while (base_root)").
   The new cluster is a list to which roots are prepended; base_root starts at the first inserted
   root and moves with ->prev, i.e. through the roots in their order of insertion: a FIFO queue.
     done  : roots already used as base, most recent first (a suffix-reversed part of the C list)
     queue : inserted roots not yet used as base, oldest first
     rest  : what is left of the OLD cluster, in list order
   One step = one pass of "iter_root = iter_cluster->first; while (iter_root) ..." : every root of
   [rest] touching the base is moved (in scan order) to the new cluster.
   At the end [done] is exactly the C list of the new cluster (latest insertion first). *)
Fixpoint bfs (touch : nat -> nat -> bool) (fuel : nat) (done queue rest : list nat)
  : option (list nat * list nat) :=
  match fuel with
  | 0 => None
  | S f =>
    match queue with
    | [] => Some (done, rest)
    | b :: q =>
      bfs touch f (b :: done) (q ++ filter (touch b) rest) (filter (fun x => negb (touch b x)) rest)
    end
  end.

(* The same closure with the next base chosen anywhere in the queue (index [pick queue mod length]).
   This is the block-merge granularity abstraction of mps_mcluster: the hits of the block workers
   are spliced in front of the cluster list in an order that depends on the schedule, hence the
   order in which the main thread meets them walking ->prev is arbitrary. [bfs] is the instance
   that always picks the head. *)
Definition drop_nth (k : nat) (q : list nat) : list nat := firstn k q ++ skipn (S k) q.

Fixpoint closure (touch : nat -> nat -> bool) (pick : list nat -> nat) (fuel : nat)
         (done queue rest : list nat) : option (list nat * list nat) :=
  match fuel with
  | 0 => None
  | S f =>
    match queue with
    | [] => Some (done, rest)
    | _ :: _ =>
      let k := pick queue mod length queue in
      let b := nth k queue 0 in
      closure touch pick f (b :: done) (drop_nth k queue ++ filter (touch b) rest)
              (filter (fun x => negb (touch b x)) rest)
    end
  end.

Definition pick_first (q : list nat) : nat := 0.

(* Outer loop "while (analyzed_roots < s->n)" restricted to one old cluster: as long as the old
   cluster is not empty its first root starts a new cluster.  New clusters in order of creation. *)
Fixpoint split (touch : nat -> nat -> bool) (pick : list nat -> nat) (fuel : nat) (cl : list nat)
  : option clustering :=
  match fuel with
  | 0 => None
  | S f =>
    match cl with
    | [] => Some []
    | x :: rest =>
      match closure touch pick (S (S (length rest))) [] [x] rest with
      | None => None
      | Some (c, rest') =>
        match split touch pick f rest' with
        | None => None
        | Some cs => Some (c :: cs)
        end
      end
    end
  end.

Fixpoint split_seq (touch : nat -> nat -> bool) (fuel : nat) (cl : list nat) : option clustering :=
  match fuel with
  | 0 => None
  | S f =>
    match cl with
    | [] => Some []
    | x :: rest =>
      match bfs touch (S (S (length rest))) [] [x] rest with
      | None => None
      | Some (c, rest') =>
        match split_seq touch f rest' with
        | None => None
        | Some cs => Some (c :: cs)
        end
      end
    end
  end.

Fixpoint split_all (touch : nat -> nat -> bool) (others : clustering) : option clustering :=
  match others with
  | [] => Some []
  | cl :: t =>
    match split_seq touch (S (length cl)) cl, split_all touch t with
    | Some a, Some b => Some (a ++ b)
    | _, _ => None
    end
  end.

Definition is_single (c : list nat) : bool := length c =? 1.

Definition singletons (n : nat) : clustering := map (fun i => [i]) (rev (seq 0 n)).

(* mps_fcluster / mps_dcluster.  n = s->n is the number of roots of the old clusterization.
   1. clusters with cluster->n == 1 are moved first (in list order) to the new clusterization;
   2. the remaining clusters are split one after the other (empty ones skipped);
   3. with newton isolation the result is replaced by [n-1],...,[0].
   (mps_fcluster skips 2 under newton isolation, mps_dcluster performs it and discards the result:
   same returned clusterization.)  [None] = out of fuel, excluded by cluster_seq_fuel_enough. *)
Definition cluster_seq (touch : nat -> nat -> bool) (newton_iso : bool) (old : clustering)
  : option clustering :=
  let n := length (concat old) in
  if newton_iso then Some (singletons n)
  else
    match split_all touch (filter (fun c => negb (is_single c)) old) with
    | None => None
    | Some cs => Some (rev (filter is_single old ++ cs))
    end.

Definition cluster_step_seq (touchN touch : nat -> nat -> bool) (old : clustering) :=
  cluster_seq touch (newton_isolated touchN (length (concat old))) old.

(* ------------------------------------------------------------------------------------------ *)
(* mps_mcluster.  original_clusters[i] == original_clusters[base] : same old cluster. *)
Definition mem (x : nat) (l : list nat) : bool := existsb (Nat.eqb x) l.

Definition same_old (old : clustering) (a b : nat) : bool :=
  existsb (fun cl => mem a cl && mem b cl) old.

(* The base of a new cluster is the lowest not yet analysed index over ALL roots; a worker moves
   root i of its block when !analyzed[i], original_clusters[i] == original_clusters[base] and
   mtouchnwt(base, i): one [split] over 0..n-1 with the touch predicate restricted to the old
   clusters; the schedule only enters through [pick]. *)
Definition cluster_par (pick : list nat -> nat) (touch : nat -> nat -> bool) (newton_iso : bool)
           (old : clustering) : option clustering :=
  let n := length (concat old) in
  if newton_iso then Some (singletons n)
  else
    match split (fun a b => same_old old a b && touch a b) pick (S n) (seq 0 n) with
    | None => None
    | Some cs => Some (rev cs)
    end.

(* ------------------------------------------------------------------------------------------ *)
(* Plain executable specification: connected components of the (symmetrised) touch graph
   restricted to each old cluster, computed by saturation, no traversal order involved. *)
Definition expand (touch : nat -> nat -> bool) (cl s : list nat) : list nat :=
  filter (fun y => mem y s || existsb (fun x => touch x y || touch y x) s) cl.

Fixpoint iter {A} (n : nat) (f : A -> A) (x : A) : A :=
  match n with 0 => x | S k => iter k f (f x) end.

Definition comp_of (touch : nat -> nat -> bool) (cl : list nat) (x : nat) : list nat :=
  iter (length cl) (expand touch cl) [x].

Fixpoint components_cl (touch : nat -> nat -> bool) (fuel : nat) (cl : list nat) : clustering :=
  match fuel with
  | 0 => []
  | S f =>
    match cl with
    | [] => []
    | x :: _ =>
      let c := comp_of touch cl x in
      c :: components_cl touch f (filter (fun y => negb (mem y c)) cl)
    end
  end.

Definition components (touch : nat -> nat -> bool) (old : clustering) : clustering :=
  flat_map (fun cl => components_cl touch (length cl) cl) old.

(* Matrix as list of rows -> predicate (used by the driver and by the Examples). *)
Definition touch_of_matrix (m : list (list bool)) (i j : nat) : bool :=
  nth j (nth i m []) false.

(* ------------------------------------------------------------------------------------------ *)
(* The newton-isolation test AS CODED, with its loops and breaks.  The radii are the ones STORED in the roots
   (newton_radii[i] = s->root[i]->frad / drad, copied before the loops), the factor is the same nf, and the loops run
   over ALL pairs of roots (not per previous cluster):

     for (i = 0; i < s->n; i++)
       {
         for (j = 0; j < s->n; j++)
           if ((i != j) && mps_?touchnwt (s, newton_radii, nf, i, j))
             { newton_isolation = false;  break; }            <- leaves the inner loop only
         if (!newton_isolation)  break;                          <- mps_mcluster only
       }

   [iso_inner] = the inner loop (true: left by break), [iso_outer_fd] = outer loop of mps_fcluster / mps_dcluster (goes on
   after an inner break), [iso_outer_m] = outer loop of mps_mcluster (second break). *)
Fixpoint iso_inner (touchN : nat -> nat -> bool) (i : nat) (js : list nat) : bool :=
  match js with
  | [] => false
  | j :: t => if negb (i =? j) && touchN i j then true else iso_inner touchN i t
  end.

Fixpoint iso_outer_fd (touchN : nat -> nat -> bool) (n : nat) (is : list nat) (iso : bool) : bool :=
  match is with
  | [] => iso
  | i :: t => iso_outer_fd touchN n t (if iso_inner touchN i (seq 0 n) then false else iso)
  end.

Fixpoint iso_outer_m (touchN : nat -> nat -> bool) (n : nat) (is : list nat) (iso : bool) : bool :=
  match is with
  | [] => iso
  | i :: t =>
    let iso' := if iso_inner touchN i (seq 0 n) then false else iso in
    if iso' then iso_outer_m touchN n t iso' else iso'
  end.

Definition newton_iso_fd (touchN : nat -> nat -> bool) (n : nat) : bool := iso_outer_fd touchN n (seq 0 n) true.
Definition newton_iso_m (touchN : nat -> nat -> bool) (n : nat) : bool := iso_outer_m touchN n (seq 0 n) true.

(* one whole call of mps_fcluster / mps_dcluster, resp. mps_mcluster: override test as coded, then the traversal *)
Definition cluster_step_fd (touchN touch : nat -> nat -> bool) (old : clustering) : option clustering :=
  cluster_seq touch (newton_iso_fd touchN (length (concat old))) old.
Definition cluster_step_m (pick : list nat -> nat) (touchN touch : nat -> nat -> bool) (old : clustering)
  : option clustering :=
  cluster_par pick touch (newton_iso_m touchN (length (concat old))) old.
