(* C07 -- mps_ftouchnwt on IEEE binary64, executable model (Flocq BinarySingleNaN).  Definitions only.

   Anchors:  src/libmps/common/touch.c        mps_ftouchnwt
             src/libmps/floating-point/mt.c   cplx_sub, cplx_mod  (MPS_USE_BUILTIN_COMPLEX branch, the one
                                              include/mps/mt.h always selects: `#if 1 == 1`)

     mps_boolean mps_ftouchnwt (mps_context * s, double * frad, int n, int i, int j) {
       cplx_t ctmp;  double t;
       t = DBL_MAX / (2 * n);
       if (frad[i] >= t || frad[j] >= t)  return true;
       cplx_sub (ctmp, s->root[i]->fvalue, s->root[j]->fvalue);
       return n * (frad[i] + frad[j]) >= cplx_mod (ctmp);
     }
     void cplx_sub (rx, x1, x2) { Re (rx) = Re (x1) - Re (x2);  Im (rx) = Im (x1) - Im (x2); }
     double cplx_mod (x) {
       double d;
       if (fabs (Re (x)) > fabs (Im (x)))  { d = Im (x) / Re (x);  return fabs (Re (x)) * sqrt (1.0 + d * d); }
       else if (Im (x) == 0.0)  return 0.0;
       d = Re (x) / Im (x);  return fabs (Im (x)) * sqrt (1.0 + d * d);
     }

   Every C operation on double is one correctly rounded binary64 operation, round to nearest even (gcc, SSE2,
   -ffp-contract=off: checked bit for bit on every run of the check, not proved); `2 * n` and `n` are ints converted
   exactly (|n| < 2^30 in every statement); comparisons are false on NaN. *)
From Coq Require Import ZArith Bool.
From Flocq Require Import Core BinarySingleNaN.
From Flocq Require Binary Bits.
Open Scope Z_scope.

Definition b64 := binary_float 53 1024.
Global Instance C07_Hprec53 : Prec_gt_0 53 := eq_refl.
Global Instance C07_Hmax1024 : Prec_lt_emax 53 1024 := eq_refl.

Definition fadd : b64 -> b64 -> b64 := Bplus mode_NE.
Definition fsub : b64 -> b64 -> b64 := Bminus mode_NE.
Definition fmul : b64 -> b64 -> b64 := Bmult mode_NE.
Definition fdiv : b64 -> b64 -> b64 := Bdiv mode_NE.
Definition fsqrt : b64 -> b64 := Bsqrt mode_NE.
Definition fabs : b64 -> b64 := @Babs 53 1024.

(* C comparisons (false as soon as one operand is NaN) *)
Definition fge (x y : b64) : bool := match Bcompare x y with Some Gt | Some Eq => true | _ => false end.
Definition fgt (x y : b64) : bool := match Bcompare x y with Some Gt => true | _ => false end.
Definition feq (x y : b64) : bool := match Bcompare x y with Some Eq => true | _ => false end.

Definition fzero : b64 := B754_zero false.
Definition fone : b64 := @B754_finite 53 1024 false 4503599627370496 (-52) eq_refl.          (* 1.0 *)
Definition DBL_MAX : b64 := @B754_finite 53 1024 false 9007199254740991 971 eq_refl.
(* (double) k for an int k *)
Definition f_of_Z (k : Z) : b64 := binary_normalize 53 1024 C07_Hprec53 C07_Hmax1024 mode_NE k 0 false.

(* cplx_mod, builtin-complex version *)
Definition cplx_mod_f (re im : b64) : b64 :=
  if fgt (fabs re) (fabs im) then
    let d := fdiv im re in fmul (fabs re) (fsqrt (fadd fone (fmul d d)))
  else if feq im fzero then fzero
  else let d := fdiv re im in fmul (fabs im) (fsqrt (fadd fone (fmul d d))).

(* t = DBL_MAX / (2 * n) *)
Definition ftouch_guard (n : Z) : b64 := fdiv DBL_MAX (f_of_Z (2 * n)).
(* n * (frad[i] + frad[j]) *)
Definition ftouch_lhs (n : Z) (ri rj : b64) : b64 := fmul (f_of_Z n) (fadd ri rj).
(* cplx_mod (z_i - z_j) after cplx_sub *)
Definition ftouch_rhs (xi yi xj yj : b64) : b64 := cplx_mod_f (fsub xi xj) (fsub yi yj).

Definition ftouch_b64 (n : Z) (ri rj xi yi xj yj : b64) : bool :=
  let t := ftouch_guard n in
  if fge ri t || fge rj t then true
  else fge (ftouch_lhs n ri rj) (ftouch_rhs xi yi xj yj).

(* ---- bit patterns: the exchange format of the correspondence check ---- *)
Definition of_bits (z : Z) : b64 := Binary.B2BSN 53 1024 (Bits.b64_of_bits z).
Definition to_bits (x : b64) : Z :=
  match x with
  | B754_nan => 9221120237041090560   (* 0x7ff8000000000000: any NaN is printed as this one *)
  | B754_zero s => if s then 9223372036854775808 else 0
  | B754_infinity s => if s then 18442240474082181120 else 9218868437227405312
  | B754_finite s m e _ =>
      Bits.bits_of_b64 (Binary.BSN2B 53 1024 (exist _ (Binary.B754_nan 53 1024 false 1 eq_refl) eq_refl) x)
  end.

(* what the driver prints for one line: touch (i,j), touch (j,i), modulus bits, left side bits, guard bits *)
Definition ftouch_line (n ri rj xi yi xj yj : Z) : (bool * bool) * (Z * (Z * Z)) :=
  let r0 := of_bits ri in let r1 := of_bits rj in
  let a := of_bits xi in let b := of_bits yi in let c := of_bits xj in let d := of_bits yj in
  ((ftouch_b64 n r0 r1 a b c d, ftouch_b64 n r1 r0 c d a b),
   (to_bits (ftouch_rhs a b c d), (to_bits (ftouch_lhs n r0 r1), to_bits (ftouch_guard n)))).
