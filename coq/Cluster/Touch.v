(* C07 -- the touch predicate  nf (r + r') >= |z - z'|  (common/touch.c, mps_{f,d,m}touchnwt):
   exact version on dyadic discs, and the double version under the standard model of rounding. *)
From Coq Require Import ZArith Reals Lra Lia.
Open Scope Z_scope.

(* dyadic number m * 2^e *)
Record dy := mkD { dm : Z; de : Z }.
Definition cdy := (dy * dy)%type.          (* re, im *)
Definition disc := (cdy * dy)%type.        (* centre, radius *)

Definition d2R (d : dy) : R := (IZR (dm d) * powerRZ 2 (de d))%R.
Definition dnonneg (d : dy) : Prop := 0 <= dm d.

(* mantissa of d on the common exponent e0 <= de d *)
Definition al (e0 : Z) (d : dy) : Z := dm d * 2 ^ (de d - e0).

Definition min6 (a b c d e f : Z) : Z := Z.min a (Z.min b (Z.min c (Z.min d (Z.min e f)))).

(* decided on squares (both sides are >= 0 for nf, r, r' >= 0), in integers *)
Definition touch_exact (nf : Z) (a b : disc) : bool :=
  let '((x, y), r) := a in
  let '((x', y'), r') := b in
  let e0 := min6 (de x) (de y) (de r) (de x') (de y') (de r') in
  let q := al e0 in
  ((q x - q x') ^ 2 + (q y - q y') ^ 2 <=? (nf * (q r + q r')) ^ 2).

Definition dist2R (z z' : cdy) : R :=
  ((d2R (fst z) - d2R (fst z'))² + (d2R (snd z) - d2R (snd z'))²)%R.

Lemma al_d2R : forall e0 d, e0 <= de d -> d2R d = (IZR (al e0 d) * powerRZ 2 e0)%R.
Proof.
  intros e0 d H. unfold d2R, al. rewrite mult_IZR.
  assert (E : IZR (2 ^ (de d - e0)) = powerRZ 2 (de d - e0)).
  { rewrite <- (Z2Nat.id (de d - e0)) by lia.
    rewrite <- pow_IZR. rewrite pow_powerRZ. reflexivity. }
  rewrite E. rewrite Rmult_assoc. rewrite <- powerRZ_add by lra.
  replace (de d - e0 + e0) with (de d) by ring. reflexivity.
Qed.

Lemma touch_exact_sq : forall nf z r z' r',
  touch_exact nf (z, r) (z', r') = true <->
  (dist2R z z' <= (IZR nf * (d2R r + d2R r'))²)%R.
Proof.
  intros nf [x y] r [x' y'] r'. unfold touch_exact, dist2R. simpl fst. simpl snd.
  set (e0 := min6 (de x) (de y) (de r) (de x') (de y') (de r')).
  assert (Hx : e0 <= de x) by (unfold e0, min6; lia).
  assert (Hy : e0 <= de y) by (unfold e0, min6; lia).
  assert (Hr : e0 <= de r) by (unfold e0, min6; lia).
  assert (Hx' : e0 <= de x') by (unfold e0, min6; lia).
  assert (Hy' : e0 <= de y') by (unfold e0, min6; lia).
  assert (Hr' : e0 <= de r') by (unfold e0, min6; lia).
  rewrite (al_d2R e0 x Hx), (al_d2R e0 y Hy), (al_d2R e0 r Hr),
          (al_d2R e0 x' Hx'), (al_d2R e0 y' Hy'), (al_d2R e0 r' Hr').
  set (p := powerRZ 2 e0).
  assert (Hp : (0 < p)%R) by (apply powerRZ_lt; lra).
  rewrite Z.leb_le.
  set (A := (al e0 x - al e0 x') ^ 2 + (al e0 y - al e0 y') ^ 2).
  set (B := (nf * (al e0 r + al e0 r')) ^ 2).
  replace ((IZR (al e0 x) * p - IZR (al e0 x') * p)² + (IZR (al e0 y) * p - IZR (al e0 y') * p)²)%R
    with (IZR A * (p * p))%R.
  2:{ unfold A, Rsqr. rewrite plus_IZR. rewrite !Z.pow_2_r. rewrite !mult_IZR, !minus_IZR. ring. }
  replace ((IZR nf * (IZR (al e0 r) * p + IZR (al e0 r') * p))²)%R with (IZR B * (p * p))%R.
  2:{ unfold B, Rsqr. rewrite !Z.pow_2_r. rewrite !mult_IZR, !plus_IZR. ring. }
  assert (Hpp : (0 < p * p)%R) by (apply Rmult_lt_0_compat; assumption).
  split.
  - intro H. apply Rmult_le_compat_r; [lra|]. apply IZR_le. exact H.
  - intro H. apply le_IZR. eapply Rmult_le_reg_r; [exact Hpp|exact H].
Qed.

Lemma d2R_nonneg : forall d, dnonneg d -> (0 <= d2R d)%R.
Proof.
  intros d H. unfold d2R. apply Rmult_le_pos; [apply IZR_le; exact H|].
  apply Rlt_le. apply powerRZ_lt. lra.
Qed.

Theorem touch_exact_spec : forall nf z r z' r',
  0 <= nf -> dnonneg r -> dnonneg r' ->
  touch_exact nf (z, r) (z', r') = true <->
  (sqrt (dist2R z z') <= IZR nf * (d2R r + d2R r'))%R.
Proof.
  intros nf z r z' r' Hnf Hr Hr'. rewrite touch_exact_sq.
  set (a := dist2R z z'). set (b := (IZR nf * (d2R r + d2R r'))%R).
  assert (Ha : (0 <= a)%R).
  { unfold a, dist2R. apply Rplus_le_le_0_compat; apply Rle_0_sqr. }
  assert (Hb : (0 <= b)%R).
  { unfold b. apply Rmult_le_pos; [apply IZR_le; exact Hnf|].
    apply Rplus_le_le_0_compat; apply d2R_nonneg; assumption. }
  split.
  - intro H. rewrite <- (sqrt_Rsqr b Hb). apply sqrt_le_1_alt. exact H.
  - intro H. rewrite <- (Rsqr_sqrt a Ha). apply Rsqr_incr_1; [exact H|apply sqrt_pos|exact Hb].
Qed.

Theorem touch_exact_sym : forall nf a b, touch_exact nf a b = touch_exact nf b a.
Proof.
  intros nf [[x y] r] [[x' y'] r']. unfold touch_exact.
  replace (min6 (de x') (de y') (de r') (de x) (de y) (de r))
    with (min6 (de x) (de y) (de r) (de x') (de y') (de r')) by (unfold min6; lia).
  set (e0 := min6 (de x) (de y) (de r) (de x') (de y') (de r')).
  f_equal; ring.
Qed.

(* ---------------------------------------------------------------- double variant, standard model *)
Open Scope R_scope.

Lemma one_plus_bounds : forall u e, Rabs e <= u -> 1 - u <= 1 + e <= 1 + u.
Proof. intros u e H. unfold Rabs in H. destruct (Rcase_abs e); lra. Qed.

Theorem touch_float_sound : forall u nf ri rj d e1 e2 e3 e4 : R,
  0 <= u <= 1/16 -> 0 <= nf -> 0 <= ri -> 0 <= rj -> 0 <= d ->
  Rabs e1 <= u -> Rabs e2 <= u -> Rabs e3 <= u -> Rabs e4 <= u ->
  let lhs := nf * ((ri + rj) * (1 + e1)) * (1 + e2) in
  let rhs := d * (1 + e3) * (1 + e4) in
  (d * (1 + 8 * u) <= nf * (ri + rj) -> rhs <= lhs) /\
  (nf * (ri + rj) * (1 + 8 * u) < d -> lhs < rhs).
Proof.
  intros u nf ri rj d e1 e2 e3 e4 Hu Hnf Hri Hrj Hd H1 H2 H3 H4 lhs rhs.
  pose proof (one_plus_bounds u e1 H1) as B1. pose proof (one_plus_bounds u e2 H2) as B2.
  pose proof (one_plus_bounds u e3 H3) as B3. pose proof (one_plus_bounds u e4 H4) as B4.
  set (A := nf * (ri + rj)).
  assert (HA : 0 <= A) by (unfold A; apply Rmult_le_pos; lra).
  assert (Hlo : 0 < 1 - u) by lra.
  assert (Elhs : lhs = A * ((1 + e1) * (1 + e2))) by (unfold lhs, A; ring).
  assert (Erhs : rhs = d * ((1 + e3) * (1 + e4))) by (unfold rhs; ring).
  assert (P12lo : (1 - u) * (1 - u) <= (1 + e1) * (1 + e2)) by (apply Rmult_le_compat; lra).
  assert (P12hi : (1 + e1) * (1 + e2) <= (1 + u) * (1 + u)) by (apply Rmult_le_compat; lra).
  assert (P34lo : (1 - u) * (1 - u) <= (1 + e3) * (1 + e4)) by (apply Rmult_le_compat; lra).
  assert (P34hi : (1 + e3) * (1 + e4) <= (1 + u) * (1 + u)) by (apply Rmult_le_compat; lra).
  (* (1+u)^2 <= (1+8u)(1-u)^2 on [0,1/16] *)
  assert (Hpoly : (1 + u) * (1 + u) <= (1 + 8 * u) * ((1 - u) * (1 - u))).
  { assert (0 <= u * (1 - 4 * u + 2 * (u * u))).
    { apply Rmult_le_pos; [lra|]. assert (0 <= u * u) by (apply Rmult_le_pos; lra). lra. }
    lra. }
  assert (Hsq : 0 < (1 - u) * (1 - u)) by (apply Rmult_lt_0_compat; lra).
  rewrite Elhs, Erhs. split; intro H.
  - apply Rle_trans with (d * ((1 + u) * (1 + u))); [apply Rmult_le_compat_l; lra|].
    apply Rle_trans with (d * ((1 + 8 * u) * ((1 - u) * (1 - u)))); [apply Rmult_le_compat_l; lra|].
    apply Rle_trans with (A * ((1 - u) * (1 - u))).
    + rewrite <- Rmult_assoc. apply Rmult_le_compat_r; lra.
    + apply Rmult_le_compat_l; lra.
  - apply Rle_lt_trans with (A * ((1 + u) * (1 + u))); [apply Rmult_le_compat_l; lra|].
    apply Rle_lt_trans with (A * ((1 + 8 * u) * ((1 - u) * (1 - u)))); [apply Rmult_le_compat_l; lra|].
    apply Rlt_le_trans with (d * ((1 - u) * (1 - u))).
    + rewrite <- Rmult_assoc. apply Rmult_lt_compat_r; lra.
    + apply Rmult_le_compat_l; lra.
Qed.
