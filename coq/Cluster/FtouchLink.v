(* C07 -- mps_ftouchnwt end to end: the binary64 model FtouchModel.ftouch_b64 (Flocq IEEE operations, with overflow
   to infinity and NaN) against the exact predicate.  Links each IEEE operation to the rounding rnd64 of FtouchReal.v,
   shows that below the guard DBL_MAX / (2n) the left side cannot overflow, that inside cplx_mod only the last product
   can overflow (to +inf), and what an overflowed difference does (+inf or NaN: the comparison is false).  *)
From Coq Require Import ZArith Reals Bool Lra Lia.
From Flocq Require Import Core BinarySingleNaN.
From MPSV Require Import Cluster.Touch Cluster.TouchFlocq Cluster.FtouchModel Cluster.FtouchSpec Cluster.FtouchReal.
Open Scope R_scope.

Definition big : R := bpow radix2 1024.
Definition MAXR : R := B2R DBL_MAX.

Lemma rnd64_is_round : forall x, round radix2 (SpecFloat.fexp 53 1024) (round_mode mode_NE) x = rnd64 x.
Proof. reflexivity. Qed.

Lemma inf_of_SF : forall (z : b64) s, B2SF z = binary_overflow 53 1024 mode_NE s -> z = B754_infinity s.
Proof. intros z s H. destruct z; try discriminate; simpl in H; inversion H; reflexivity. Qed.

Lemma fmt_B2R : forall x : b64, fmt (B2R x).
Proof. intros x. apply (generic_format_B2R 53 1024 x). Qed.

Lemma B2R_lt_big : forall x : b64, Rabs (B2R x) < big.
Proof. intros x. apply (abs_B2R_lt_emax 53 1024 x). Qed.

Lemma MAXR_lt_big : MAXR < big.
Proof. pose proof (B2R_lt_big DBL_MAX) as H. apply Rabs_lt_inv in H. exact (proj2 H). Qed.

Lemma MAXR_pos : 0 < MAXR.
Proof. unfold MAXR, DBL_MAX, B2R, F2R. simpl Fnum. simpl Fexp. apply Rmult_lt_0_compat; [apply IZR_lt; reflexivity|apply bpow_gt_0]. Qed.

Lemma fmt_MAXR : fmt MAXR. Proof. apply fmt_B2R. Qed.

(* ---- one IEEE operation = one rounding, as long as the rounded result is below 2^1024 ---- *)
Lemma fadd_ok : forall x y, is_finite x = true -> is_finite y = true ->
  Rabs (rnd64 (B2R x + B2R y)) < big ->
  is_finite (fadd x y) = true /\ B2R (fadd x y) = rnd64 (B2R x + B2R y).
Proof.
  intros x y Fx Fy Hb. pose proof (Bplus_correct 53 1024 _ _ mode_NE x y Fx Fy) as H.
  rewrite rnd64_is_round in H. rewrite Rlt_bool_true in H by exact Hb. destruct H as (E & F & _). split; assumption.
Qed.

Lemma fsub_cases : forall x y, is_finite x = true -> is_finite y = true ->
  (is_finite (fsub x y) = true /\ B2R (fsub x y) = rnd64 (B2R x - B2R y)) \/
  (exists s, fsub x y = B754_infinity s).
Proof.
  intros x y Fx Fy. pose proof (Bminus_correct 53 1024 _ _ mode_NE x y Fx Fy) as H.
  rewrite rnd64_is_round in H. destruct (Rlt_bool _ _).
  - left. destruct H as (E & F & _). split; assumption.
  - right. destruct H as (E & _). exists (Bsign x). apply inf_of_SF. exact E.
Qed.

Lemma fsub_ok : forall x y, is_finite x = true -> is_finite y = true ->
  Rabs (rnd64 (B2R x - B2R y)) < big ->
  is_finite (fsub x y) = true /\ B2R (fsub x y) = rnd64 (B2R x - B2R y).
Proof.
  intros x y Fx Fy Hb. pose proof (Bminus_correct 53 1024 _ _ mode_NE x y Fx Fy) as H.
  rewrite rnd64_is_round in H. rewrite Rlt_bool_true in H by exact Hb. destruct H as (E & F & _). split; assumption.
Qed.

Lemma fmul_ok : forall x y, is_finite x = true -> is_finite y = true ->
  Rabs (rnd64 (B2R x * B2R y)) < big ->
  is_finite (fmul x y) = true /\ B2R (fmul x y) = rnd64 (B2R x * B2R y).
Proof.
  intros x y Fx Fy Hb. pose proof (Bmult_correct 53 1024 _ _ mode_NE x y) as H.
  rewrite rnd64_is_round in H. rewrite Rlt_bool_true in H by exact Hb. destruct H as (E & F & _).
  rewrite Fx, Fy in F. split; assumption.
Qed.

Lemma fmul_overflow : forall x y,
  big <= Rabs (rnd64 (B2R x * B2R y)) -> fmul x y = B754_infinity (xorb (Bsign x) (Bsign y)).
Proof.
  intros x y Hb. pose proof (Bmult_correct 53 1024 _ _ mode_NE x y) as H.
  rewrite rnd64_is_round in H. rewrite Rlt_bool_false in H by exact Hb. apply inf_of_SF. exact H.
Qed.

Lemma fdiv_ok : forall x y, is_finite x = true -> B2R y <> 0 ->
  Rabs (rnd64 (B2R x / B2R y)) < big ->
  is_finite (fdiv x y) = true /\ B2R (fdiv x y) = rnd64 (B2R x / B2R y).
Proof.
  intros x y Fx Hy Hb. pose proof (Bdiv_correct 53 1024 _ _ mode_NE x y Hy) as H.
  rewrite rnd64_is_round in H. rewrite Rlt_bool_true in H by exact Hb. destruct H as (E & F & _).
  rewrite Fx in F. split; assumption.
Qed.

Lemma Bsign_pos : forall x : b64, is_finite x = true -> 0 < B2R x -> Bsign x = false.
Proof.
  intros [s|s| |s m e B] F H; try discriminate; simpl in H; try lra.
  destruct s; [|reflexivity]. exfalso.
  assert (F2R (Float radix2 (cond_Zopp true (Z.pos m)) e) < 0).
  { apply F2R_lt_0. simpl. lia. }
  lra.
Qed.

Lemma fsqrt_ok : forall x, is_finite x = true -> 0 < B2R x ->
  is_finite (fsqrt x) = true /\ B2R (fsqrt x) = rnd64 (sqrt (B2R x)).
Proof.
  intros x Fx Hx. pose proof (Bsqrt_correct 53 1024 _ _ mode_NE x) as H. rewrite rnd64_is_round in H.
  destruct H as (E & F & _). split; [|exact E]. unfold fsqrt. rewrite F.
  pose proof (Bsign_pos x Fx Hx) as S. destruct x as [s|s| |s m e B]; try discriminate; try reflexivity.
  simpl in S. rewrite S. reflexivity.
Qed.

(* ---- comparisons on finite numbers ---- *)
Lemma fge_finite : forall x y, is_finite x = true -> is_finite y = true ->
  fge x y = Rle_bool (B2R y) (B2R x).
Proof.
  intros x y Fx Fy. unfold fge. rewrite (Bcompare_correct 53 1024 x y Fx Fy).
  destruct (Rcompare_spec (B2R x) (B2R y)) as [H|H|H].
  - symmetry. apply Rle_bool_false. exact H.
  - symmetry. apply Rle_bool_true. lra.
  - symmetry. apply Rle_bool_true. lra.
Qed.

Lemma fgt_finite : forall x y, is_finite x = true -> is_finite y = true ->
  fgt x y = Rlt_bool (B2R y) (B2R x).
Proof.
  intros x y Fx Fy. unfold fgt. rewrite (Bcompare_correct 53 1024 x y Fx Fy).
  destruct (Rcompare_spec (B2R x) (B2R y)) as [H|H|H].
  - symmetry. apply Rlt_bool_false. lra.
  - symmetry. apply Rlt_bool_false. lra.
  - symmetry. apply Rlt_bool_true. exact H.
Qed.

Lemma feq0_finite : forall x, is_finite x = true -> feq x fzero = Req_bool (B2R x) 0.
Proof.
  intros x Fx. unfold feq. rewrite (Bcompare_correct 53 1024 x fzero Fx eq_refl). simpl (B2R fzero).
  destruct (Rcompare_spec (B2R x) 0) as [H|H|H].
  - symmetry. apply Req_bool_false. lra.
  - symmetry. apply Req_bool_true. exact H.
  - symmetry. apply Req_bool_false. lra.
Qed.

Lemma fge_fin_inf : forall x : b64, is_finite x = true -> fge x (B754_infinity false) = false.
Proof. intros [s|s| |s m e B] F; try discriminate; reflexivity. Qed.

Lemma fge_nan : forall x : b64, fge x B754_nan = false.
Proof. intros [s|s| |s m e B]; reflexivity. Qed.

(* ---- constants and (double) n ---- *)
Lemma B2R_fone : B2R fone = 1.
Proof. unfold fone, B2R, F2R. simpl. lra. Qed.

Lemma f_of_Z_ok : forall k, (Z.abs k < 2 ^ 53)%Z -> is_finite (f_of_Z k) = true /\ B2R (f_of_Z k) = IZR k.
Proof.
  intros k Hk. pose proof (binary_normalize_correct 53 1024 _ _ mode_NE k 0 false) as H. cbv zeta in H.
  rewrite rnd64_is_round in H.
  assert (E : F2R (Float radix2 k 0) = IZR k) by (unfold F2R; simpl; ring).
  assert (Fk : fmt (IZR k)).
  { rewrite <- E. apply generic_format_FLT. exists (Float radix2 k 0); [reflexivity|exact Hk|simpl; lia]. }
  rewrite E in H. rewrite (rnd64_id _ Fk) in H.
  rewrite Rlt_bool_true in H.
  - destruct H as (A & B & _). split; assumption.
  - rewrite <- abs_IZR. apply Rlt_le_trans with (bpow radix2 53); [|apply bpow_le; lia].
    change (bpow radix2 53) with (IZR (2 ^ 53)). apply IZR_lt. exact Hk.
Qed.

(* ---- the guard and the left side ---- *)
Lemma fmt_double : forall x, fmt x -> fmt (2 * x).
Proof.
  intros x Fx. apply FLT_format_generic in Fx; [|exact prec53_gt_0]. destruct Fx as [f Hf Hm He].
  apply generic_format_FLT. exists (Float radix2 (Fnum f) (Fexp f + 1)); simpl; [|exact Hm|lia].
  rewrite Hf. unfold F2R. simpl Fnum. simpl Fexp. rewrite bpow_plus. change (bpow radix2 1) with 2. ring.
Qed.

Lemma lt_rnd_le : forall x q, fmt x -> x < rnd64 q -> x <= q.
Proof.
  intros x q Fx H. destruct (Rle_or_lt x q) as [K|K]; [exact K|exfalso].
  assert (rnd64 q <= x) by (apply rnd64_le_fmt; [exact Fx|lra]). lra.
Qed.

Lemma n_ok_IZR : forall n, n_ok n -> 1 <= IZR n /\ IZR (2 * n) = 2 * IZR n /\ (Z.abs n < 2 ^ 53)%Z /\ (Z.abs (2 * n) < 2 ^ 53)%Z.
Proof.
  intros n [H1 H2]. split; [apply IZR_le; exact H1|]. split; [rewrite mult_IZR; reflexivity|].
  assert ((2 ^ 30 < 2 ^ 52)%Z) by reflexivity. assert ((2 ^ 53 = 2 * 2 ^ 52)%Z) by reflexivity. split; lia.
Qed.

Lemma guard_ok : forall n, n_ok n ->
  is_finite (ftouch_guard n) = true /\ B2R (ftouch_guard n) = rnd64 (MAXR / IZR (2 * n)).
Proof.
  intros n Hn. destruct (n_ok_IZR n Hn) as (N1 & N2 & N3 & N4).
  destruct (f_of_Z_ok (2 * n) N4) as (F2 & E2). unfold ftouch_guard.
  pose proof MAXR_pos as Mp. pose proof MAXR_lt_big as Mb.
  assert (Hq : 0 <= MAXR / IZR (2 * n) <= MAXR).
  { rewrite N2. split.
    - apply Rmult_le_pos; [lra|]. apply Rlt_le, Rinv_0_lt_compat. lra.
    - apply Rmult_le_reg_r with (2 * IZR n); [lra|]. unfold Rdiv. rewrite Rmult_assoc, Rinv_l by lra. nra. }
  destruct (fdiv_ok DBL_MAX (f_of_Z (2 * n))) as (F & E).
  - reflexivity.
  - rewrite E2, N2. lra.
  - rewrite E2. fold MAXR. apply Rle_lt_trans with MAXR; [|exact Mb].
    apply rnd64_abs_le_fmt; [exact fmt_MAXR|]. rewrite Rabs_pos_eq; lra.
  - split; [exact F|]. rewrite E, E2. reflexivity.
Qed.

Lemma below_guard_bound : forall n r, n_ok n -> is_finite r = true ->
  fge r (ftouch_guard n) = false -> B2R r <= MAXR / IZR (2 * n).
Proof.
  intros n r Hn Fr H. destruct (guard_ok n Hn) as (Fg & Eg).
  rewrite (fge_finite r _ Fr Fg) in H. rewrite Eg in H.
  apply lt_rnd_le; [apply fmt_B2R|]. destruct (Rle_bool_spec (rnd64 (MAXR / IZR (2 * n))) (B2R r)); [discriminate|assumption].
Qed.

Lemma lhs_ok : forall n ri rj, n_ok n -> is_finite ri = true -> is_finite rj = true ->
  0 <= B2R ri -> 0 <= B2R rj -> below_guard n ri rj ->
  is_finite (ftouch_lhs n ri rj) = true /\ B2R (ftouch_lhs n ri rj) = codedR n (B2R ri) (B2R rj) /\
  IZR n * (B2R ri + B2R rj) <= MAXR /\ 0 <= codedR n (B2R ri) (B2R rj) <= MAXR.
Proof.
  intros n ri rj Hn Fi Fj Hi Hj [Gi Gj]. destruct (n_ok_IZR n Hn) as (N1 & N2 & N3 & N4).
  pose proof (below_guard_bound n ri Hn Fi Gi) as Bi. pose proof (below_guard_bound n rj Hn Fj Gj) as Bj.
  pose proof MAXR_pos as Mp. pose proof MAXR_lt_big as Mb.
  set (q := MAXR / IZR (2 * n)) in *.
  assert (Eq : IZR n * (2 * q) = MAXR) by (unfold q; rewrite N2; field; lra).
  assert (Hq : 0 <= q) by lra.
  set (a := B2R ri) in *. set (b := B2R rj) in *.
  assert (Fa : fmt a) by apply fmt_B2R. assert (Fb : fmt b) by apply fmt_B2R.
  assert (Hs : 0 <= rnd64 (a + b) <= 2 * q).
  { split; [apply rnd64_ge_fmt; [exact fmt_0|lra]|].
    destruct (Rle_or_lt a b) as [K|K].
    - apply Rle_trans with (2 * b); [|lra]. apply rnd64_le_fmt; [apply fmt_double; exact Fb|lra].
    - apply Rle_trans with (2 * a); [|lra]. apply rnd64_le_fmt; [apply fmt_double; exact Fa|lra]. }
  assert (H2q : 2 * q <= MAXR) by nra.
  destruct (fadd_ok ri rj Fi Fj) as (Fs & Es).
  { fold a b. rewrite Rabs_pos_eq by lra. lra. }
  fold a b in Es.
  destruct (f_of_Z_ok n N3) as (Fn & En).
  assert (Hp : 0 <= IZR n * rnd64 (a + b) <= MAXR) by nra.
  assert (Hc : 0 <= rnd64 (IZR n * rnd64 (a + b)) <= MAXR).
  { split; [apply rnd64_ge_fmt; [exact fmt_0|lra]|apply rnd64_le_fmt; [exact fmt_MAXR|lra]]. }
  destruct (fmul_ok (f_of_Z n) (fadd ri rj) Fn Fs) as (Fm & Em).
  { rewrite En, Es. rewrite Rabs_pos_eq by lra. lra. }
  rewrite En, Es in Em. unfold ftouch_lhs, codedR. repeat split; try assumption; try lra. nra.
Qed.

(* ---- cplx_mod on finite operands: only the last product can overflow ---- *)
Lemma two_lt_big : 2 < big.
Proof. change 2 with (bpow radix2 1). unfold big. apply bpow_lt. lia. Qed.

Lemma Bsign_fabs : forall a : b64, is_finite a = true -> Bsign (fabs a) = false.
Proof. intros [s|s| |s m e B] F; try discriminate; reflexivity. Qed.

Lemma mod_core_b64 : forall a b : b64, is_finite a = true -> is_finite b = true ->
  B2R a <> 0 -> Rabs (B2R b) <= Rabs (B2R a) ->
  let m := fmul (fabs a) (fsqrt (fadd fone (fmul (fdiv b a) (fdiv b a)))) in
  (mod_rnd (B2R a) (B2R b) < big -> is_finite m = true /\ B2R m = mod_rnd (B2R a) (B2R b)) /\
  (big <= mod_rnd (B2R a) (B2R b) -> m = B754_infinity false).
Proof.
  intros a b Fa Fb Ha Hab m.
  destruct (mod_ranges (B2R a) (B2R b) Ha Hab) as (Rd & Rdd & Rw & Rv & Rs & Rr).
  destruct (mod_pre_bounds (B2R a) (B2R b) Ha Hab) as (_ & Hge).
  pose proof two_lt_big as Hbig.
  destruct (fdiv_ok b a Fb Ha) as (Fd & Ed); [lra|].
  set (d := fdiv b a) in *.
  destruct (fmul_ok d d Fd Fd) as (Fdd & Edd).
  { rewrite Ed. rewrite Rabs_pos_eq by lra. lra. }
  rewrite Ed in Edd. set (dd := fmul d d) in *.
  destruct (fadd_ok fone dd eq_refl Fdd) as (Fs & Es).
  { rewrite B2R_fone, Edd. rewrite Rabs_pos_eq by lra. lra. }
  rewrite B2R_fone, Edd in Es. set (s := fadd fone dd) in *.
  destruct (fsqrt_ok s Fs) as (Fq & Eq); [rewrite Es; lra|].
  rewrite Es in Eq. set (q := fsqrt s) in *.
  assert (Fab : is_finite (fabs a) = true) by (unfold fabs; rewrite is_finite_Babs; exact Fa).
  assert (Eab : B2R (fabs a) = Rabs (B2R a)) by (unfold fabs; apply B2R_Babs).
  assert (Ep : B2R (fabs a) * B2R q = mod_pre (B2R a) (B2R b)).
  { rewrite Eab, Eq. unfold mod_pre. reflexivity. }
  assert (Hm0 : 0 <= mod_rnd (B2R a) (B2R b)).
  { unfold mod_rnd. apply rnd64_ge_fmt; [exact fmt_0|]. pose proof (Rabs_pos (B2R a)). lra. }
  split; intro Hc.
  - destruct (fmul_ok (fabs a) q Fab Fq) as (Fm & Em).
    + rewrite Ep. fold (mod_rnd (B2R a) (B2R b)). rewrite Rabs_pos_eq by exact Hm0. exact Hc.
    + rewrite Ep in Em. split; assumption.
  - unfold m. fold d. fold dd. fold s. fold q. rewrite (fmul_overflow (fabs a) q).
    + rewrite (Bsign_fabs a Fa). rewrite (Bsign_pos q Fq) by (rewrite Eq; lra). reflexivity.
    + rewrite Ep. fold (mod_rnd (B2R a) (B2R b)). rewrite Rabs_pos_eq by exact Hm0. exact Hc.
Qed.

(* cplx_mod_f on two finite operands *)
Lemma cplx_mod_finite_args : forall re im : b64, is_finite re = true -> is_finite im = true ->
  (cplx_modR (B2R re) (B2R im) < big ->
     is_finite (cplx_mod_f re im) = true /\ B2R (cplx_mod_f re im) = cplx_modR (B2R re) (B2R im)) /\
  (big <= cplx_modR (B2R re) (B2R im) -> cplx_mod_f re im = B754_infinity false).
Proof.
  intros re im Fre Fim. unfold cplx_mod_f, cplx_modR.
  assert (Fare : is_finite (fabs re) = true) by (unfold fabs; rewrite is_finite_Babs; exact Fre).
  assert (Faim : is_finite (fabs im) = true) by (unfold fabs; rewrite is_finite_Babs; exact Fim).
  assert (Eg : fgt (fabs re) (fabs im) = Rlt_bool (Rabs (B2R im)) (Rabs (B2R re))).
  { rewrite (fgt_finite _ _ Fare Faim). unfold fabs. rewrite 2!B2R_Babs. reflexivity. }
  rewrite Eg.
  destruct (Rlt_bool_spec (Rabs (B2R im)) (Rabs (B2R re))) as [Hlt|Hge].
  - apply (mod_core_b64 re im Fre Fim); [|lra].
    intro Z. rewrite Z, Rabs_R0 in Hlt. pose proof (Rabs_pos (B2R im)). lra.
  - rewrite (feq0_finite im Fim). destruct (Req_bool_spec (B2R im) 0) as [Hz|Hnz].
    + split; intro Hc; [split; reflexivity|]. exfalso. pose proof (bpow_gt_0 radix2 1024). unfold big in Hc. lra.
    + apply (mod_core_b64 im re Fim Fre); assumption.
Qed.

(* ---- cplx_mod when a difference has overflowed: +inf, or NaN when both have ---- *)
Lemma fsqrt_one_pos : is_finite (fsqrt fone) = true /\ 0 < B2R (fsqrt fone).
Proof.
  destruct (fsqrt_ok fone eq_refl) as (F & E); [rewrite B2R_fone; lra|]. split; [exact F|].
  rewrite E, B2R_fone, sqrt_1, (rnd64_id 1 fmt_1). lra.
Qed.

Lemma fmul_inf_pos : forall q : b64, is_finite q = true -> 0 < B2R q ->
  fmul (B754_infinity false) q = B754_infinity false.
Proof.
  intros q F H. pose proof (Bsign_pos q F H) as S.
  destruct q as [s|s| |s m e B]; try discriminate; simpl in H; try lra. simpl in S. rewrite S. reflexivity.
Qed.

Lemma tail_zero : forall s1 s2, fsqrt (fadd fone (fmul (B754_zero s1) (B754_zero s2))) = fsqrt fone.
Proof. intros s1 s2. reflexivity. Qed.

Lemma fdiv_fin_inf : forall (x : b64) s, is_finite x = true -> exists s', fdiv x (B754_infinity s) = B754_zero s'.
Proof. intros [sx|sx| |sx m e B] s F; try discriminate; eexists; reflexivity. Qed.

Lemma cplx_mod_inf_re : forall s (im : b64), is_finite im = true -> cplx_mod_f (B754_infinity s) im = B754_infinity false.
Proof.
  intros s im F. unfold cplx_mod_f.
  assert (G : fgt (fabs (B754_infinity s)) (fabs im) = true) by (destruct im; try discriminate; reflexivity).
  rewrite G. destruct (fdiv_fin_inf im s F) as (s' & E). rewrite E, tail_zero.
  destruct fsqrt_one_pos as (Fq & Hq). exact (fmul_inf_pos _ Fq Hq).
Qed.

Lemma cplx_mod_inf_im : forall (re : b64) s, is_finite re = true -> cplx_mod_f re (B754_infinity s) = B754_infinity false.
Proof.
  intros re s F. unfold cplx_mod_f.
  assert (G : fgt (fabs re) (fabs (B754_infinity s)) = false) by (destruct re; try discriminate; reflexivity).
  rewrite G. assert (Z : feq (B754_infinity s) fzero = false) by (destruct s; reflexivity). rewrite Z.
  destruct (fdiv_fin_inf re s F) as (s' & E). rewrite E, tail_zero.
  destruct fsqrt_one_pos as (Fq & Hq). exact (fmul_inf_pos _ Fq Hq).
Qed.

Lemma cplx_mod_inf_inf : forall s1 s2, cplx_mod_f (B754_infinity s1) (B754_infinity s2) = B754_nan.
Proof. intros [|] [|]; reflexivity. Qed.

(* ---- the right side cplx_mod (z_i - z_j) ---- *)
Lemma rhs_cases : forall xi yi xj yj : b64,
  is_finite xi = true -> is_finite yi = true -> is_finite xj = true -> is_finite yj = true ->
  (is_finite (ftouch_rhs xi yi xj yj) = true /\
   B2R (ftouch_rhs xi yi xj yj) = cplx_modR (rnd64 (B2R xi - B2R xj)) (rnd64 (B2R yi - B2R yj))) \/
  ftouch_rhs xi yi xj yj = B754_infinity false \/ ftouch_rhs xi yi xj yj = B754_nan.
Proof.
  intros xi yi xj yj Fxi Fyi Fxj Fyj. unfold ftouch_rhs.
  destruct (fsub_cases xi xj Fxi Fxj) as [(Fx & Ex)|(sx & Ix)]; destruct (fsub_cases yi yj Fyi Fyj) as [(Fy & Ey)|(sy & Iy)].
  - destruct (cplx_mod_finite_args _ _ Fx Fy) as (A & B). rewrite Ex, Ey in A, B.
    destruct (Rlt_or_le (cplx_modR (rnd64 (B2R xi - B2R xj)) (rnd64 (B2R yi - B2R yj))) big) as [K|K].
    + left. exact (A K).
    + right. left. exact (B K).
  - right. left. rewrite Iy. apply cplx_mod_inf_im. exact Fx.
  - right. left. rewrite Ix. apply cplx_mod_inf_re. exact Fy.
  - right. right. rewrite Ix, Iy. apply cplx_mod_inf_inf.
Qed.

Lemma rhs_finite : forall xi yi xj yj : b64,
  is_finite xi = true -> is_finite yi = true -> is_finite xj = true -> is_finite yj = true ->
  Rabs (rnd64 (B2R xi - B2R xj)) < big -> Rabs (rnd64 (B2R yi - B2R yj)) < big ->
  cplx_modR (rnd64 (B2R xi - B2R xj)) (rnd64 (B2R yi - B2R yj)) < big ->
  is_finite (ftouch_rhs xi yi xj yj) = true /\
  B2R (ftouch_rhs xi yi xj yj) = cplx_modR (rnd64 (B2R xi - B2R xj)) (rnd64 (B2R yi - B2R yj)).
Proof.
  intros xi yi xj yj Fxi Fyi Fxj Fyj Bx By Bm. unfold ftouch_rhs.
  destruct (fsub_ok xi xj Fxi Fxj Bx) as (Fx & Ex). destruct (fsub_ok yi yj Fyi Fyj By) as (Fy & Ey).
  destruct (cplx_mod_finite_args _ _ Fx Fy) as (A & _). rewrite Ex, Ey in A. exact (A Bm).
Qed.

Lemma abs_le_dist : forall a b, Rabs a <= sqrt (a * a + b * b) /\ Rabs b <= sqrt (a * a + b * b).
Proof.
  intros a b. split.
  - rewrite <- sqrt_Rsqr_abs. apply sqrt_le_1_alt. unfold Rsqr. nra.
  - rewrite <- sqrt_Rsqr_abs. apply sqrt_le_1_alt. unfold Rsqr. nra.
Qed.

Lemma exactD_distR : forall xi yi xj yj, exactD xi yi xj yj = distR (B2R xi) (B2R yi) (B2R xj) (B2R yj).
Proof. reflexivity. Qed.

(* ---- end to end ---- *)
Theorem ftouch_b64_overlap : forall n ri rj xi yi xj yj,
  n_ok n -> finite6 ri rj xi yi xj yj -> 0 <= B2R ri -> 0 <= B2R rj ->
  exactD xi yi xj yj * (1 + 8 * u64) <= exactL n ri rj ->
  ftouch_b64 n ri rj xi yi xj yj = true.
Proof.
  intros n ri rj xi yi xj yj Hn (Fi & Fj & Fxi & Fyi & Fxj & Fyj) Hi Hj Hov.
  unfold ftouch_b64. destruct (fge ri (ftouch_guard n) || fge rj (ftouch_guard n)) eqn:G; [reflexivity|].
  apply orb_false_elim in G.
  destruct (lhs_ok n ri rj Hn Fi Fj Hi Hj G) as (Fl & El & HL & Hc).
  rewrite exactD_distR in Hov. unfold exactL in Hov.
  assert (N1 : (1 <= n)%Z) by (destruct Hn; assumption).
  pose proof (ftouchR_overlap n (B2R ri) (B2R rj) (B2R xi) (B2R yi) (B2R xj) (B2R yj) N1
                (fmt_B2R _) (fmt_B2R _) (fmt_B2R _) (fmt_B2R _) (fmt_B2R _) (fmt_B2R _) Hi Hj Hov) as HR.
  pose proof MAXR_lt_big as Mb. pose proof u64_tiny as Hu.
  assert (HD : distR (B2R xi) (B2R yi) (B2R xj) (B2R yj) <= MAXR).
  { assert (0 <= distR (B2R xi) (B2R yi) (B2R xj) (B2R yj)) by apply sqrt_pos. nra. }
  destruct (abs_le_dist (B2R xi - B2R xj) (B2R yi - B2R yj)) as (Ax & Ay). fold (distR (B2R xi) (B2R yi) (B2R xj) (B2R yj)) in Ax, Ay.
  destruct (rhs_finite xi yi xj yj Fxi Fyi Fxj Fyj) as (Fr & Er).
  - apply Rle_lt_trans with MAXR; [|exact Mb]. apply rnd64_abs_le_fmt; [exact fmt_MAXR|lra].
  - apply Rle_lt_trans with MAXR; [|exact Mb]. apply rnd64_abs_le_fmt; [exact fmt_MAXR|lra].
  - lra.
  - rewrite (fge_finite _ _ Fl Fr). rewrite El, Er. apply Rle_bool_true. exact HR.
Qed.

Theorem ftouch_b64_separated : forall n ri rj xi yi xj yj,
  n_ok n -> finite6 ri rj xi yi xj yj -> 0 <= B2R ri -> 0 <= B2R rj ->
  below_guard n ri rj -> normal_distance xi yi xj yj ->
  exactL n ri rj * (1 + 8 * u64) < exactD xi yi xj yj ->
  ftouch_b64 n ri rj xi yi xj yj = false.
Proof.
  intros n ri rj xi yi xj yj Hn (Fi & Fj & Fxi & Fyi & Fxj & Fyj) Hi Hj G Hnorm Hsep.
  unfold ftouch_b64. destruct G as [G1 G2]. rewrite G1, G2. simpl orb. cbv iota.
  destruct (lhs_ok n ri rj Hn Fi Fj Hi Hj (conj G1 G2)) as (Fl & El & HL & Hc).
  rewrite exactD_distR in Hsep. unfold exactL in Hsep.
  assert (N1 : (1 <= n)%Z) by (destruct Hn; assumption).
  pose proof (ftouchR_separated n (B2R ri) (B2R rj) (B2R xi) (B2R yi) (B2R xj) (B2R yj) N1
                (fmt_B2R _) (fmt_B2R _) (fmt_B2R _) (fmt_B2R _) (fmt_B2R _) (fmt_B2R _) Hi Hj Hnorm Hsep) as HR.
  destruct (rhs_cases xi yi xj yj Fxi Fyi Fxj Fyj) as [(Fr & Er)|[Ir|Nr]].
  - rewrite (fge_finite _ _ Fl Fr). rewrite El, Er. apply Rle_bool_false. exact HR.
  - rewrite Ir. apply fge_fin_inf. exact Fl.
  - rewrite Nr. apply fge_nan.
Qed.

(* below the guard the left side is finite and equals the two-rounding expression: it cannot overflow *)
Theorem ftouch_lhs_no_overflow : forall n ri rj,
  n_ok n -> is_finite ri = true -> is_finite rj = true -> 0 <= B2R ri -> 0 <= B2R rj -> below_guard n ri rj ->
  is_finite (ftouch_lhs n ri rj) = true /\
  B2R (ftouch_lhs n ri rj) = rnd64 (IZR n * rnd64 (B2R ri + B2R rj)) /\ exactL n ri rj <= B2R DBL_MAX.
Proof.
  intros n ri rj Hn Fi Fj Hi Hj G. destruct (lhs_ok n ri rj Hn Fi Fj Hi Hj G) as (Fl & El & HL & _).
  split; [exact Fl|]. split; [exact El|exact HL].
Qed.
