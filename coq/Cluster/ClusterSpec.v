(* C07 -- the executable specification [components] (saturation, no traversal order) is correct:
   its classes are the chain-connected components inside each old cluster; hence the traversal
   model and the specification agree as sets of sets. *)
From Coq Require Import List Arith Bool Lia Permutation Relations.
From MPSV Require Import Cluster.ClusterModel Cluster.ClusterProps.
Import ListNotations.

(* ---------------------------------------------------------------- filters of one list *)
Lemma filter_len_le : forall (p p' : nat -> bool) (l : list nat),
  (forall y, In y l -> p y = true -> p' y = true) ->
  length (filter p l) <= length (filter p' l).
Proof.
  induction l as [|a l IH]; intros H; simpl; [lia|].
  assert (IH' : length (filter p l) <= length (filter p' l)).
  { apply IH. intros y Hy. apply H. right. exact Hy. }
  destruct (p a) eqn:Ea.
  - rewrite (H a (or_introl eq_refl) Ea). simpl. lia.
  - destruct (p' a); simpl; lia.
Qed.

Lemma filter_len_eq : forall (p p' : nat -> bool) (l : list nat),
  (forall y, In y l -> p y = true -> p' y = true) ->
  length (filter p l) = length (filter p' l) -> filter p l = filter p' l.
Proof.
  induction l as [|a l IH]; intros H E; simpl in *; [reflexivity|].
  assert (Hl : forall y, In y l -> p y = true -> p' y = true) by (intros y Hy; apply H; right; exact Hy).
  pose proof (filter_len_le p p' l Hl) as LE.
  destruct (p a) eqn:Ea.
  - rewrite (H a (or_introl eq_refl) Ea) in *. simpl in E. f_equal. apply IH; [exact Hl|lia].
  - destruct (p' a) eqn:Ea'; simpl in E.
    + lia.
    + apply IH; assumption.
Qed.

Lemma flen_le : forall (p : nat -> bool) (l : list nat), length (filter p l) <= length l.
Proof. induction l as [|a l IH]; simpl; [lia|]. destruct (p a); simpl; lia. Qed.

Lemma filter_full : forall (p : nat -> bool) (l : list nat),
  length (filter p l) = length l -> filter p l = l.
Proof.
  induction l as [|a l IH]; intros E; simpl in *; [reflexivity|].
  pose proof (flen_le p l) as LE.
  destruct (p a); simpl in E.
  - f_equal. apply IH. lia.
  - lia.
Qed.

Lemma iter_S_out : forall (A : Type) (f : A -> A) k x, iter (S k) f x = f (iter k f x).
Proof.
  intros A f k. induction k as [|k IH]; intro x; [reflexivity|].
  change (iter (S (S k)) f x) with (iter (S k) f (f x)). rewrite IH. reflexivity.
Qed.

Lemma NoDup_app_l : forall (a b : list nat), NoDup (a ++ b) -> NoDup a.
Proof.
  induction a as [|h a IH]; intros b H; [constructor|].
  simpl in H. inversion H; subst. constructor.
  - intro Hin. apply H2. apply in_or_app. left. exact Hin.
  - eapply IH. exact H3.
Qed.

Lemma NoDup_concat_in : forall (l : list (list nat)) cl, NoDup (concat l) -> In cl l -> NoDup cl.
Proof.
  induction l as [|c l IH]; intros cl ND H; [contradiction|]. simpl in ND.
  destruct H as [<-|H].
  - eapply NoDup_app_l. exact ND.
  - apply IH; [|exact H]. exact (proj1 (NoDup_app_inv _ _ ND)).
Qed.

(* ---------------------------------------------------------------- saturation *)
Section Saturation.
Variable T : nat -> nat -> bool.
Hypothesis Tsym : forall a b, T a b = T b a.
Variable cl : list nat.

Lemma expand_In : forall s y,
  In y (expand T cl s) <-> In y cl /\ (In y s \/ exists x, In x s /\ T x y = true).
Proof.
  intros s y. unfold expand. rewrite filter_In. split; intros [Hy H]; split; try exact Hy.
  - apply orb_true_iff in H. destruct H as [H|H].
    + left. apply mem_In. exact H.
    + right. apply existsb_exists in H. destruct H as (x & Hx & Ht). exists x. split; [exact Hx|].
      apply orb_true_iff in Ht. destruct Ht as [Ht|Ht]; [exact Ht|]. rewrite Tsym. exact Ht.
  - apply orb_true_iff. destruct H as [H|(x & Hx & Ht)].
    + left. apply mem_In. exact H.
    + right. apply existsb_exists. exists x. split; [exact Hx|]. rewrite Ht. reflexivity.
Qed.

Lemma expand_ext : forall s s', (forall y, In y s <-> In y s') -> expand T cl s = expand T cl s'.
Proof.
  intros s s' H. unfold expand. apply filter_ext_in. intros y Hy.
  assert (E1 : mem y s = mem y s').
  { destruct (mem y s) eqn:A, (mem y s') eqn:B; try reflexivity.
    - apply mem_In in A. apply H in A. apply mem_In in A. congruence.
    - apply mem_In in B. apply H in B. apply mem_In in B. congruence. }
  assert (E2 : existsb (fun x => T x y || T y x) s = existsb (fun x => T x y || T y x) s').
  { destruct (existsb (fun x => T x y || T y x) s) eqn:A, (existsb (fun x => T x y || T y x) s') eqn:B;
      try reflexivity.
    - apply existsb_exists in A. destruct A as (x & Hx & Ht).
      assert (existsb (fun x => T x y || T y x) s' = true) by (apply existsb_exists; exists x; split; [apply H; exact Hx|exact Ht]).
      congruence.
    - apply existsb_exists in B. destruct B as (x & Hx & Ht).
      assert (existsb (fun x => T x y || T y x) s = true) by (apply existsb_exists; exists x; split; [apply H; exact Hx|exact Ht]).
      congruence. }
  rewrite E1, E2. reflexivity.
Qed.

(* two successive expansions: no shrinking, and equal length means a fixpoint *)
Lemma expand_progress : forall s,
  let s1 := expand T cl s in let s2 := expand T cl s1 in
  length s1 <= length s2 /\ (length s1 = length s2 -> s2 = s1).
Proof.
  intros s s1 s2.
  assert (H : forall y, In y cl ->
    mem y s || existsb (fun x => T x y || T y x) s = true ->
    mem y s1 || existsb (fun x => T x y || T y x) s1 = true).
  { intros y Hy Hp. apply orb_true_iff. left. apply mem_In. unfold s1, expand. apply filter_In. auto. }
  split.
  - unfold s2, s1 at 1, expand. apply filter_len_le. exact H.
  - intro E. symmetry. unfold s2, s1 at 1, expand. apply filter_len_eq; [exact H|exact E].
Qed.

Variable x : nat.
Hypothesis Hx : In x cl.

Definition Sk (k : nat) : list nat := iter k (expand T cl) [x].

Lemma Sk_S : forall k, Sk (S k) = expand T cl (Sk k).
Proof. intro k. unfold Sk. apply iter_S_out. Qed.

Lemma Sk_x : forall k, In x (Sk k).
Proof.
  induction k as [|k IH]; [left; reflexivity|]. rewrite Sk_S. apply expand_In. auto.
Qed.

Lemma Sk_sound : forall k y, In y (Sk k) -> conn T cl x y.
Proof.
  induction k as [|k IH]; intros y Hy.
  - destruct Hy as [<-|[]]. apply conn_refl.
  - rewrite Sk_S in Hy. apply expand_In in Hy. destruct Hy as [Hy [H|(z & Hz & Ht)]].
    + apply IH. exact H.
    + eapply conn_trans; [apply IH; exact Hz|].
      assert (Hzc : In z cl).
      { destruct k; [destruct Hz as [<-|[]]; exact Hx|].
        rewrite Sk_S in Hz. apply expand_In in Hz. tauto. }
      apply conn_step; assumption.
Qed.

Lemma Sk_fix_or_long : forall k,
  expand T cl (Sk (S k)) = Sk (S k) \/ S k <= length (Sk (S k)).
Proof.
  induction k as [|k IH].
  - right. pose proof (Sk_x 1) as H. destruct (Sk 1); [contradiction|simpl; lia].
  - destruct IH as [F|L].
    + left. rewrite (Sk_S (S k)). rewrite F. exact F.
    + pose proof (expand_progress (Sk k)) as P. cbv zeta in P.
      rewrite <- !Sk_S in P. destruct P as [LE EQ].
      destruct (Nat.eq_dec (length (Sk (S k))) (length (Sk (S (S k))))) as [E|NE].
      * left. specialize (EQ E). rewrite EQ. rewrite <- Sk_S. exact EQ.
      * right. lia.
Qed.

Lemma comp_of_fix : expand T cl (comp_of T cl x) = comp_of T cl x.
Proof.
  unfold comp_of. fold (Sk (length cl)).
  destruct cl as [|a l] eqn:Ecl; [contradiction|]. rewrite <- Ecl in *.
  replace (length cl) with (S (length l)) by (rewrite Ecl; reflexivity).
  destruct (Sk_fix_or_long (length l)) as [F|L]; [exact F|].
  assert (Hlen : length (Sk (S (length l))) = length cl).
  { rewrite Sk_S in *. unfold expand in *.
    pose proof (flen_le (fun y => mem y (Sk (length l)) || existsb (fun x0 => T x0 y || T y x0) (Sk (length l))) cl).
    rewrite Ecl in *. simpl length in *. lia. }
  assert (Hall : Sk (S (length l)) = cl).
  { rewrite Sk_S in *. unfold expand in *. apply filter_full. exact Hlen. }
  rewrite Hall. unfold expand. 
  rewrite (filter_ext_in (fun y => mem y cl || existsb (fun x0 => T x0 y || T y x0) cl) (fun _ => true)).
  - clear. induction cl; simpl; congruence.
  - intros y Hy. apply orb_true_iff. left. apply mem_In. exact Hy.
Qed.

Lemma comp_of_spec : forall y, In y (comp_of T cl x) <-> In y cl /\ conn T cl x y.
Proof.
  intro y. split.
  - intro Hy. split.
    + rewrite <- comp_of_fix in Hy. apply expand_In in Hy. tauto.
    + eapply Sk_sound. exact Hy.
  - intros [Hy Hc]. apply (@conn_closed T cl (comp_of T cl x) x y); [|apply Sk_x|exact Hc].
    intros a b Ha Hb Ht. fold (Sk (length cl)). unfold Sk. fold (comp_of T cl x).
    rewrite <- comp_of_fix. apply expand_In. split; [exact Hb|]. right. exists a. auto.
Qed.

End Saturation.

(* ---------------------------------------------------------------- components of one cluster *)
Section Spec.
Variable T : nat -> nat -> bool.
Hypothesis Tsym : forall a b, T a b = T b a.

Lemma components_cl_spec : forall fuel cl,
  length cl <= fuel ->
  let cs := components_cl T fuel cl in
  (forall i, In i cl -> exists c, In c cs /\ In i c)
  /\ (forall c, In c cs -> incl c cl /\ forall i j, In i c -> In j c -> conn T cl i j)
  /\ (forall c a b, In c cs -> In a c -> In b cl -> T a b = true -> In b c).
Proof.
  induction fuel as [|f IH]; intros cl Hlen cs.
  { destruct cl; [|simpl in Hlen; lia]. subst cs. simpl. repeat split; intros; contradiction. }
  destruct cl as [|x rest].
  { subst cs. simpl. repeat split; intros; contradiction. }
  set (cl := x :: rest) in *.
  assert (Ecl : cl = x :: rest) by reflexivity.
  assert (Hx : In x cl) by (left; reflexivity).
  set (c0 := comp_of T cl x).
  set (R := filter (fun y => negb (mem y c0)) cl).
  assert (Ecs : cs = c0 :: components_cl T f R) by reflexivity.
  pose proof (comp_of_spec T Tsym cl x Hx) as C0.
  assert (Hxc0 : In x c0) by (apply C0; split; [exact Hx|apply conn_refl]).
  assert (HR : forall y, In y R <-> In y cl /\ ~ In y c0).
  { intro y. unfold R. rewrite filter_In. rewrite negb_true_iff. split; intros [A B]; split; auto.
    - intro Hc. apply mem_In in Hc. congruence.
    - destruct (mem y c0) eqn:E; [|reflexivity]. apply mem_In in E. contradiction. }
  assert (HRlen : length R <= f).
  { assert (length R < length cl); [|lia].
    unfold R. rewrite Ecl. simpl. 
    assert (mem x c0 = true) by (apply mem_In; exact Hxc0). rewrite H. simpl.
    pose proof (flen_le (fun y => negb (mem y c0)) rest). lia. }
  destruct (IH R HRlen) as (Hcov & Hconn & Hclosed). clear IH.
  assert (Hc0closed : forall a b, In a c0 -> In b cl -> T a b = true -> In b c0).
  { intros a b Ha Hb Ht. apply C0. split; [exact Hb|]. apply C0 in Ha.
    eapply conn_trans; [exact (proj2 Ha)|]. apply conn_step; tauto. }
  rewrite Ecs. split; [|split].
  - intros i Hi. destruct (in_dec Nat.eq_dec i c0) as [Hic|Hic].
    + exists c0. split; [left; reflexivity|exact Hic].
    + destruct (Hcov i) as (c & Hc & Hic'); [apply HR; auto|]. exists c. split; [right; exact Hc|exact Hic'].
  - intros c [<-|Hc].
    + split.
      * intros y Hy. apply C0 in Hy. tauto.
      * intros i j Hi Hj. apply C0 in Hi. apply C0 in Hj.
        eapply conn_trans; [apply (@conn_sym T Tsym); exact (proj2 Hi)|exact (proj2 Hj)].
    + destruct (Hconn c Hc) as [Hsub Hij]. split.
      * intros y Hy. apply Hsub in Hy. apply HR in Hy. tauto.
      * intros i j Hi Hj. eapply conn_mono; [|apply Hij; assumption].
        intros y Hy. apply HR in Hy. tauto.
  - intros c a b [<-|Hc] Ha Hb Ht.
    + eapply Hc0closed; eauto.
    + assert (HaR : In a R) by (apply (proj1 (Hconn c Hc)); exact Ha).
      destruct (in_dec Nat.eq_dec b c0) as [Hbc|Hbc].
      * exfalso. apply HR in HaR. apply (proj2 HaR).
        apply (Hc0closed b a Hbc (proj1 HaR)). rewrite Tsym. exact Ht.
      * eapply Hclosed; eauto. apply HR. auto.
Qed.

Theorem components_spec : forall old cl i j,
  NoDup (concat old) -> In cl old -> In i cl -> In j cl ->
  (same_class (components T old) i j <-> conn T cl i j).
Proof.
  intros old cl i j ND Hcl Hi Hj. unfold components, same_class. split.
  - intros (c & Hc & Hic & Hjc). apply in_flat_map in Hc. destruct Hc as (cl' & Hcl' & Hc).
    destruct (components_cl_spec (length cl') cl' (le_n _)) as (_ & Hconn & _).
    destruct (Hconn c Hc) as [Hsub Hij].
    assert (cl' = cl) by (exact (NoDup_concat_unique old cl' cl i ND Hcl' Hcl (Hsub _ Hic) Hi)).
    subst cl'. apply Hij; assumption.
  - intro Hc. destruct (components_cl_spec (length cl) cl (le_n _)) as (Hcov & _ & Hclosed).
    destruct (Hcov i Hi) as (c & Hcin & Hic). exists c. split.
    + apply in_flat_map. exists cl. auto.
    + split; [exact Hic|]. apply (@conn_closed T cl c i j); [|exact Hic|exact Hc].
      intros a b Ha Hb Ht. eapply Hclosed; eauto.
Qed.

Lemma components_refines : forall old c, In c (components T old) -> exists cl, In cl old /\ incl c cl.
Proof.
  intros old c Hc. unfold components in Hc. apply in_flat_map in Hc. destruct Hc as (cl & Hcl & Hc).
  exists cl. split; [exact Hcl|].
  exact (proj1 (proj1 (proj2 (components_cl_spec (length cl) cl (le_n _))) c Hc)).
Qed.

(* the traversal model and the specification: same classes *)
Theorem model_eq_spec : forall old new,
  Permutation (concat old) (seq 0 (length (concat old))) ->
  cluster_seq T false old = Some new ->
  forall i j, same_class new i j <-> same_class (components T old) i j.
Proof.
  intros old new Hold H i j.
  assert (ND : NoDup (concat old)) by (eapply Permutation_NoDup; [symmetry; exact Hold|apply seq_NoDup]).
  split; intros (c & Hc & Hic & Hjc).
  - destruct (@cluster_refines T false old new Hold H c Hc) as (cl & Hcl & Hsub).
    apply (proj2 (components_spec old cl i j ND Hcl (Hsub _ Hic) (Hsub _ Hjc))).
    apply (proj1 (@cluster_components T old new Tsym ND H cl i j Hcl (Hsub _ Hic) (Hsub _ Hjc))).
    exists c. auto.
  - destruct (components_refines old c Hc) as (cl & Hcl & Hsub).
    apply (proj2 (@cluster_components T old new Tsym ND H cl i j Hcl (Hsub _ Hic) (Hsub _ Hjc))).
    apply (proj1 (components_spec old cl i j ND Hcl (Hsub _ Hic) (Hsub _ Hjc))).
    exists c. auto.
Qed.

End Spec.
