(* C07 -- the list operations of src/libmps/common/cluster.c as functions on lists, with the hand-maintained
   counters cluster->n and clusterization->n.  Definitions only (lemmas: ClusterOpsProps.v).

   A cluster is its linked list of mps_root nodes in ->next order (cluster->first first) plus the counter n;
   a clusterization is its list of mps_cluster_item in ->next order plus the counter n.  Every node / item /
   free-standing cluster carries a HANDLE (a number the harness keeps in a table beside the C pointer); a fresh handle
   is the value of the counter [fresh].  [None] = the C code would dereference NULL or a dangling pointer (the harness
   cuts a sequence before such an operation reaches the C code).

     mps_cluster_empty                     OpNewCluster
     mps_cluster_insert_root               OpInsertRoot      (prepends, n++)
     mps_cluster_remove_root               OpRemoveRoot      (unlinks the node, n--, free)
     mps_clusterization_insert_cluster     OpInsertCluster   (prepends an item, detached = NULL, n++)
     mps_clusterization_pop_cluster        OpPop             (unlinks the item, n--; item and cluster stay allocated)
     mps_clusterization_remove_cluster     OpRemove          (pop + mps_cluster_free + free)
     mps_clusterization_detach_clusters    OpDetachAll       (`return;` is its first statement: the identity)
     body of its (disabled) loop           OpDetachStep      (mps_cluster_with_root, remove_root, insert_cluster,
                                                              new_item->detached = item: done by the harness with
                                                              the same four steps)
     mps_clusterization_reassemble_clusters OpReassemble
     mps_cluster_reset                     OpReset n         (frees the clusterization, one cluster n-1, ..., 0)
   mps_cluster_join (unused in the library, aliases the nodes of its arguments) is not modelled. *)
From Coq Require Import List Arith Bool ZArith.
Import ListNotations.

Record rnode := mkR { rh : nat; rk : nat }.                      (* handle, root index k *)
Record cluster := mkC { croots : list rnode; cn : Z }.
Record item := mkI { ih : nat; icl : cluster; idet : option nat }.  (* idet: handle of the item it was detached from *)
Record state := mkS {
  items : list item;  zn : Z;                (* s->clusterization *)
  loose : list (nat * cluster);              (* clusters not (yet) in the clusterization *)
  popped : list item;                        (* items unlinked by pop_cluster, still allocated *)
  fresh : nat }.

Definition init : state := mkS [] 0 [] [] 0.

(* ---- cluster level ---- *)
Definition ins_root (h k : nat) (c : cluster) : cluster := mkC (mkR h k :: croots c) (cn c + 1).

Fixpoint del_node (h : nat) (l : list rnode) : option (list rnode) :=
  match l with
  | [] => None
  | r :: t => if rh r =? h then Some t else option_map (cons r) (del_node h t)
  end.

(* mps_cluster_remove_root on a node of THIS cluster *)
Definition rem_root (h : nat) (c : cluster) : option cluster :=
  option_map (fun l => mkC l (cn c - 1)) (del_node h (croots c)).

(* ---- lists of items / loose clusters addressed by handle ---- *)
Fixpoint upd_item (h : nat) (f : item -> option item) (l : list item) : option (list item) :=
  match l with
  | [] => None
  | it :: t => if ih it =? h then option_map (fun it' => it' :: t) (f it)
               else option_map (cons it) (upd_item h f t)
  end.

Fixpoint take_item (h : nat) (l : list item) : option (item * list item) :=
  match l with
  | [] => None
  | it :: t => if ih it =? h then Some (it, t)
               else option_map (fun p => (fst p, it :: snd p)) (take_item h t)
  end.

Fixpoint upd_loose (h : nat) (f : cluster -> option cluster) (l : list (nat * cluster)) : option (list (nat * cluster)) :=
  match l with
  | [] => None
  | p :: t => if fst p =? h then option_map (fun c => (h, c) :: t) (f (snd p))
              else option_map (cons p) (upd_loose h f t)
  end.

Fixpoint take_loose (h : nat) (l : list (nat * cluster)) : option (cluster * list (nat * cluster)) :=
  match l with
  | [] => None
  | p :: t => if fst p =? h then Some (snd p, t)
              else option_map (fun q => (fst q, p :: snd q)) (take_loose h t)
  end.

Inductive ctarget := TItem (h : nat) | TLoose (h : nat).

Definition upd_cluster (t : ctarget) (f : cluster -> option cluster) (s : state) : option state :=
  match t with
  | TItem h =>
    option_map (fun l => mkS l (zn s) (loose s) (popped s) (fresh s))
               (upd_item h (fun it => option_map (fun c => mkI (ih it) c (idet it)) (f (icl it))) (items s))
  | TLoose h =>
    option_map (fun l => mkS (items s) (zn s) l (popped s) (fresh s)) (upd_loose h f (loose s))
  end.

Definition bump (k : nat) (s : state) : state := mkS (items s) (zn s) (loose s) (popped s) (fresh s + k).

(* ---- the operations ---- *)
Definition new_cluster (s : state) : option state :=
  Some (mkS (items s) (zn s) ((fresh s, mkC [] 0) :: loose s) (popped s) (S (fresh s))).

Definition insert_root (t : ctarget) (k : nat) (s : state) : option state :=
  option_map (bump 1) (upd_cluster t (fun c => Some (ins_root (fresh s) k c)) s).

Definition remove_root (t : ctarget) (h : nat) (s : state) : option state := upd_cluster t (rem_root h) s.

(* item with a fresh handle in front, detached = NULL, n++ *)
Definition push_item (c : cluster) (det : option nat) (s : state) : state :=
  mkS (mkI (fresh s) c det :: items s) (zn s + 1) (loose s) (popped s) (S (fresh s)).

Definition insert_cluster (h : nat) (s : state) : option state :=
  match take_loose h (loose s) with
  | None => None
  | Some (c, l) => Some (push_item c None (mkS (items s) (zn s) l (popped s) (fresh s)))
  end.

Definition pop_cluster (h : nat) (s : state) : option state :=
  match take_item h (items s) with
  | None => None
  | Some (it, l) => Some (mkS l (zn s - 1) (loose s) (it :: popped s) (fresh s))
  end.

Definition remove_cluster (h : nat) (s : state) : option state :=
  match take_item h (items s) with
  | None => None
  | Some (it, l) => Some (mkS l (zn s - 1) (loose s) (popped s) (fresh s))
  end.

Definition find_item (h : nat) (l : list item) : option item := find (fun it => ih it =? h) l.
Definition find_node (h : nat) (l : list rnode) : option rnode := find (fun r => rh r =? h) l.

(* body of the loop of mps_clusterization_detach_clusters for node [hr] of item [hi] *)
Definition detach_step (hi hr : nat) (s : state) : option state :=
  match find_item hi (items s) with
  | None => None
  | Some it =>
    match find_node hr (croots (icl it)) with
    | None => None
    | Some r =>
      let c' := mkC [mkR (fresh s) (rk r)] 1 in                        (* mps_cluster_with_root (s, k) *)
      match remove_root (TItem hi) hr (bump 1 s) with                   (* mps_cluster_remove_root *)
      | None => None
      | Some s1 => Some (push_item c' (Some hi) s1)                     (* insert_cluster; new_item->detached = item *)
      end
    end
  end.

(* one pass of the loop body of mps_clusterization_reassemble_clusters for the item with handle [h] *)
Definition reasm_visit (s : state) (h : nat) : option state :=
  match find_item h (items s) with
  | None => None
  | Some it =>
    match idet it with
    | None => Some s
    | Some d =>
      match croots (icl it) with
      | [] => None                                                      (* cluster->cluster->first->k *)
      | r :: _ =>
        match insert_root (TItem d) (rk r) s with                       (* cluster->detached->cluster *)
        | None => None
        | Some s1 => remove_cluster h s1
        end
      end
    end
  end.

Definition reassemble (s : state) : option state :=
  fold_left (fun acc h => match acc with None => None | Some st => reasm_visit st h end) (map ih (items s)) (Some s).

(* mps_cluster_reset with s->n = n *)
Definition reset_nodes (f n : nat) : list rnode := map (fun i => mkR (f + i) i) (rev (seq 0 n)).
Definition reset (n : nat) (s : state) : option state :=
  Some (mkS [mkI (fresh s + n) (mkC (reset_nodes (fresh s) n) (Z.of_nat n)) None] 1 (loose s) (popped s) (fresh s + n + 1)).

Inductive op :=
| OpNewCluster | OpInsertRoot (t : ctarget) (k : nat) | OpRemoveRoot (t : ctarget) (h : nat)
| OpInsertCluster (h : nat) | OpPop (h : nat) | OpRemove (h : nat)
| OpDetachAll | OpDetachStep (hi hr : nat) | OpReassemble | OpReset (n : nat).

Definition step (o : op) (s : state) : option state :=
  match o with
  | OpNewCluster => new_cluster s
  | OpInsertRoot t k => insert_root t k s
  | OpRemoveRoot t h => remove_root t h s
  | OpInsertCluster h => insert_cluster h s
  | OpPop h => pop_cluster h s
  | OpRemove h => remove_cluster h s
  | OpDetachAll => Some s
  | OpDetachStep hi hr => detach_step hi hr s
  | OpReassemble => reassemble s
  | OpReset n => reset n s
  end.

Fixpoint run (ops : list op) (s : state) : option state :=
  match ops with
  | [] => Some s
  | o :: t => match step o s with None => None | Some s' => run t s' end
  end.

(* ---- observations used by the statements and by the driver ---- *)
Definition all_clusters (s : state) : list cluster := map icl (items s) ++ map snd (loose s) ++ map icl (popped s).
Definition roots_of (l : list item) : list nat := concat (map (fun it => map rk (croots (icl it))) l).
Definition node_handles (s : state) : list nat := concat (map (fun c => map rh (croots c)) (all_clusters s)).
Definition item_handles (s : state) : list nat := map ih (items s) ++ map fst (loose s) ++ map ih (popped s).
