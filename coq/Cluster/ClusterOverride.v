(* C07 -- the newton-isolation override as coded (loops and breaks of cluster-analysis.c) equals the plain test
   [newton_isolated]; the whole property for one call of mps_fcluster / mps_dcluster / mps_mcluster. *)
From Coq Require Import List Arith Bool Permutation Lia.
From MPSV Require Import Cluster.ClusterModel Cluster.ClusterProps.
Import ListNotations.

Lemma iso_inner_spec : forall touchN i js,
  iso_inner touchN i js = existsb (fun j => negb (i =? j) && touchN i j) js.
Proof.
  intros touchN i js. induction js as [|j t IH]; [reflexivity|]. simpl.
  destruct (negb (i =? j) && touchN i j); [reflexivity|exact IH].
Qed.

Lemma iso_outer_fd_spec : forall touchN n is iso,
  iso_outer_fd touchN n is iso = iso && forallb (fun i => negb (iso_inner touchN i (seq 0 n))) is.
Proof.
  intros touchN n is. induction is as [|i t IH]; intros iso; simpl.
  - rewrite andb_true_r. reflexivity.
  - rewrite IH. destruct (iso_inner touchN i (seq 0 n)); simpl.
    + rewrite andb_false_r. reflexivity.
    + reflexivity.
Qed.

Lemma iso_outer_m_spec : forall touchN n is iso,
  iso_outer_m touchN n is iso = iso && forallb (fun i => negb (iso_inner touchN i (seq 0 n))) is.
Proof.
  intros touchN n is. induction is as [|i t IH]; intros iso; simpl.
  - rewrite andb_true_r. reflexivity.
  - destruct (iso_inner touchN i (seq 0 n)); simpl.
    + rewrite andb_false_r. reflexivity.
    + destruct iso; [rewrite IH; reflexivity|reflexivity].
Qed.

Lemma forallb_ext_all : forall (f g : nat -> bool) l, (forall x, f x = g x) -> forallb f l = forallb g l.
Proof. intros f g l H. induction l as [|x t IH]; [reflexivity|]. simpl. rewrite H, IH. reflexivity. Qed.

Lemma plain_test_unfold : forall touchN n,
  newton_isolated touchN n = forallb (fun i => negb (iso_inner touchN i (seq 0 n))) (seq 0 n).
Proof.
  intros touchN n. unfold newton_isolated. apply forallb_ext_all. intros i.
  rewrite iso_inner_spec. generalize (seq 0 n). intros js. induction js as [|j t IH]; [reflexivity|]. simpl.
  rewrite IH. destruct (i =? j); simpl; [reflexivity|]. destruct (touchN i j); reflexivity.
Qed.

Theorem newton_iso_fd_eq : forall touchN n, newton_iso_fd touchN n = newton_isolated touchN n.
Proof. intros. unfold newton_iso_fd. rewrite iso_outer_fd_spec, plain_test_unfold. reflexivity. Qed.

Theorem newton_iso_m_eq : forall touchN n, newton_iso_m touchN n = newton_isolated touchN n.
Proof. intros. unfold newton_iso_m. rewrite iso_outer_m_spec, plain_test_unfold. reflexivity. Qed.

(* no two distinct roots touch w.r.t. the stored radii *)
Definition all_separated (touchN : nat -> nat -> bool) (n : nat) : Prop :=
  forall i j, i < n -> j < n -> i <> j -> touchN i j = false.

Lemma perm_nodup_old : forall old : clustering,
  Permutation (concat old) (seq 0 (length (concat old))) -> NoDup (concat old).
Proof. intros old H. eapply Permutation_NoDup; [apply Permutation_sym; exact H|apply seq_NoDup]. Qed.

(* the whole property for one call of mps_fcluster / mps_dcluster *)
Theorem step_fd_full : forall touchN touch old,
  (forall a b, touch a b = touch b a) ->
  Permutation (concat old) (seq 0 (length (concat old))) ->
  exists new, cluster_step_fd touchN touch old = Some new /\
    Permutation (concat new) (concat old) /\ NoDup (concat new) /\ (forall c, In c new -> c <> []) /\
    (forall c, In c new -> exists cl, In cl old /\ incl c cl) /\
    (all_separated touchN (length (concat old)) -> forall c, In c new -> exists i, c = [i]) /\
    (~ all_separated touchN (length (concat old)) ->
       forall cl i j, In cl old -> In i cl -> In j cl ->
         ((exists c, In c new /\ In i c /\ In j c) <-> conn touch cl i j)).
Proof.
  intros touchN touch old Tsym Hold. unfold cluster_step_fd. rewrite newton_iso_fd_eq.
  set (iso := newton_isolated touchN (length (concat old))).
  destruct (cluster_seq touch iso old) as [new|] eqn:E; [|exfalso; exact (@cluster_seq_fuel_enough touch iso old E)].
  exists new. split; [reflexivity|].
  destruct (@cluster_partition touch iso old new Hold E) as (P1 & P2 & P3).
  split; [exact P1|]. split; [exact P2|]. split; [exact P3|].
  split; [exact (@cluster_refines touch iso old new Hold E)|]. split.
  - intros Hsep c Hc. assert (Hi : iso = true) by (apply newton_isolated_spec; exact Hsep).
    rewrite Hi in E. destruct (@cluster_iso_singletons touch old new E c Hc) as (i & Hi' & _). exists i. exact Hi'.
  - intros Hn cl i j Hcl Hi Hj. assert (Hi' : iso = false).
    { apply Bool.not_true_is_false. intro Ht. apply Hn. exact (proj1 (newton_isolated_spec _ _) Ht). }
    rewrite Hi' in E. exact (@cluster_components touch old new Tsym (perm_nodup_old old Hold) E cl i j Hcl Hi Hj).
Qed.

(* the whole property for one call of mps_mcluster, for every order [pick] in which the workers' hits are met *)
Theorem step_m_full : forall pick touchN touch old,
  (forall a b, touch a b = touch b a) ->
  Permutation (concat old) (seq 0 (length (concat old))) ->
  exists new, cluster_step_m pick touchN touch old = Some new /\
    Permutation (concat new) (concat old) /\ NoDup (concat new) /\ (forall c, In c new -> c <> []) /\
    (forall c, In c new -> exists cl, In cl old /\ incl c cl) /\
    (all_separated touchN (length (concat old)) -> forall c, In c new -> exists i, c = [i]) /\
    (~ all_separated touchN (length (concat old)) ->
       forall cl i j, In cl old -> In i cl -> In j cl ->
         ((exists c, In c new /\ In i c /\ In j c) <-> conn touch cl i j)).
Proof.
  intros pick touchN touch old Tsym Hold. unfold cluster_step_m. rewrite newton_iso_m_eq.
  set (iso := newton_isolated touchN (length (concat old))).
  destruct (cluster_par pick touch iso old) as [new|] eqn:E; [|exfalso; exact (@cluster_par_fuel_enough touch old pick iso E)].
  exists new. split; [reflexivity|].
  destruct (@cluster_par_partition touch old Hold pick iso new E) as (P1 & P2 & P3).
  split; [exact P1|]. split; [exact P2|]. split; [exact P3|].
  split; [exact (@cluster_par_refines touch old Tsym Hold pick iso new E)|]. split.
  - intros Hsep c Hc. assert (Hi : iso = true) by (apply newton_isolated_spec; exact Hsep).
    rewrite Hi in E. unfold cluster_par in E. inversion E; subst new.
    destruct (@singletons_in _ c Hc) as (i & Hi' & _). exists i. exact Hi'.
  - intros Hn cl i j Hcl Hi Hj. assert (Hi' : iso = false).
    { apply Bool.not_true_is_false. intro Ht. apply Hn. exact (proj1 (newton_isolated_spec _ _) Ht). }
    rewrite Hi' in E. exact (@cluster_par_components touch old Tsym Hold pick new E cl i j Hcl Hi Hj).
Qed.
