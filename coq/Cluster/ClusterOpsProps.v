(* C07 -- properties of the list operations of cluster.c (model: ClusterOps.v):
   the hand-maintained counters equal the lengths and the item handles stay distinct after EVERY operation sequence,
   the detach step keeps the multiset of roots, reassemble leaves no detached item. *)
From Coq Require Import List Arith Bool ZArith Permutation Lia.
From MPSV Require Import Cluster.ClusterOps.
Import ListNotations.

(* ---------------------------------------------------------------- counters *)
Definition cl_ok (c : cluster) : Prop := cn c = Z.of_nat (length (croots c)).

Definition wf (s : state) : Prop :=
  zn s = Z.of_nat (length (items s)) /\
  Forall (fun it => cl_ok (icl it)) (items s) /\ Forall (fun p => cl_ok (snd p)) (loose s) /\
  Forall (fun it => cl_ok (icl it)) (popped s) /\
  NoDup (map ih (items s)) /\ Forall (fun it => ih it < fresh s) (items s).

Lemma del_node_length : forall h l l', del_node h l = Some l' -> length l = S (length l').
Proof.
  intros h l. induction l as [|r t IH]; intros l' H; simpl in H; [discriminate|].
  destruct (rh r =? h); [inversion H; reflexivity|].
  destruct (del_node h t) as [t'|]; [|discriminate]. inversion H. simpl. rewrite (IH t' eq_refl). reflexivity.
Qed.

Lemma ins_root_ok : forall h k c, cl_ok c -> cl_ok (ins_root h k c).
Proof. intros h k c H. unfold cl_ok, ins_root in *. simpl. rewrite H. lia. Qed.

Lemma rem_root_ok : forall h c c', cl_ok c -> rem_root h c = Some c' -> cl_ok c'.
Proof.
  intros h c c' H E. unfold rem_root in E. destruct (del_node h (croots c)) as [l|] eqn:D; [|discriminate].
  inversion E. unfold cl_ok in *. simpl. rewrite H, (del_node_length _ _ _ D). lia.
Qed.

Definition keeps (f : item -> option item) : Prop :=
  forall it it', f it = Some it' -> ih it' = ih it /\ idet it' = idet it /\ (cl_ok (icl it) -> cl_ok (icl it')).

Lemma upd_item_spec : forall h f l l', upd_item h f l = Some l' -> keeps f ->
  length l' = length l /\ map ih l' = map ih l /\ map idet l' = map idet l /\
  (Forall (fun it => cl_ok (icl it)) l -> Forall (fun it => cl_ok (icl it)) l').
Proof.
  intros h f l. induction l as [|it t IH]; intros l' H K; simpl in H; [discriminate|].
  destruct (ih it =? h).
  - destruct (f it) as [it'|] eqn:E; [|discriminate]. inversion H. destruct (K _ _ E) as (A & B & C).
    simpl. rewrite A, B. repeat split; try reflexivity. intro F. inversion F. constructor; auto.
  - destruct (upd_item h f t) as [t'|] eqn:E; [|discriminate]. inversion H.
    destruct (IH t' eq_refl K) as (A & B & C & D). simpl. rewrite A, B, C. repeat split; try reflexivity.
    intro F. inversion F. constructor; auto.
Qed.

Lemma take_item_spec : forall h l it l', take_item h l = Some (it, l') ->
  exists l1 l2, l = l1 ++ it :: l2 /\ l' = l1 ++ l2 /\ ih it = h /\ (forall x, In x l1 -> ih x <> h).
Proof.
  intros h l. induction l as [|a t IH]; intros it l' H; simpl in H; [discriminate|].
  destruct (ih a =? h) eqn:E.
  - apply Nat.eqb_eq in E. injection H as Ha Ht. exists [], t. rewrite <- Ha, <- Ht. repeat split; auto.
  - destruct (take_item h t) as [[it0 t']|] eqn:T; [|discriminate]. inversion H; subst. simpl.
    destruct (IH _ _ eq_refl) as (l1 & l2 & A & B & C & D). exists (a :: l1), l2. subst.
    repeat split; auto. intros x [<-|Hx]; [apply Nat.eqb_neq; exact E|apply D; exact Hx].
Qed.

Lemma upd_loose_ok : forall h f l l', upd_loose h f l = Some l' ->
  (forall c c', f c = Some c' -> cl_ok c -> cl_ok c') ->
  Forall (fun p => cl_ok (snd p)) l -> Forall (fun p => cl_ok (snd p)) l'.
Proof.
  intros h f l. induction l as [|p t IH]; intros l' H K F; simpl in H; [discriminate|]. inversion F; subst.
  destruct (fst p =? h).
  - destruct (f (snd p)) as [c|] eqn:E; [|discriminate]. inversion H. constructor; [simpl; eapply K; eauto|assumption].
  - destruct (upd_loose h f t) as [t'|] eqn:E; [|discriminate]. inversion H. constructor; [assumption|eapply IH; eauto].
Qed.

Lemma take_loose_ok : forall h l c l', take_loose h l = Some (c, l') ->
  Forall (fun p => cl_ok (snd p)) l -> cl_ok c /\ Forall (fun p => cl_ok (snd p)) l'.
Proof.
  intros h l. induction l as [|p t IH]; intros c l' H F; simpl in H; [discriminate|]. inversion F; subst.
  destruct (fst p =? h).
  - inversion H; subst. split; assumption.
  - destruct (take_loose h t) as [[c0 t']|] eqn:E; [|discriminate]. inversion H; subst. simpl.
    destruct (IH _ _ eq_refl H3) as (A & B). split; [exact A|constructor; assumption].
Qed.

Lemma lift_keeps : forall f : cluster -> option cluster, (forall c c', f c = Some c' -> cl_ok c -> cl_ok c') ->
  keeps (fun it => option_map (fun c => mkI (ih it) c (idet it)) (f (icl it))).
Proof.
  intros f K it it' H. destruct (f (icl it)) as [c|] eqn:E; [|discriminate]. inversion H. simpl.
  repeat split; auto. intro Hc. eapply K; eauto.
Qed.

Lemma Forall_lt_mono : forall (l : list item) a b, a <= b -> Forall (fun it => ih it < a) l -> Forall (fun it => ih it < b) l.
Proof. intros l a b H F. eapply Forall_impl; [|exact F]. simpl. intros; lia. Qed.

Lemma Forall_map_ih : forall (P : nat -> Prop) (l l' : list item), map ih l' = map ih l ->
  Forall (fun it => P (ih it)) l -> Forall (fun it => P (ih it)) l'.
Proof.
  intros P l l' E F. rewrite <- Forall_map in *. rewrite E. exact F.
Qed.

Lemma upd_cluster_wf : forall t f s s', wf s -> upd_cluster t f s = Some s' ->
  (forall c c', f c = Some c' -> cl_ok c -> cl_ok c') -> wf s' /\ fresh s' = fresh s.
Proof.
  intros t f s s' (W1 & W2 & W3 & W4 & W5 & W6) H K. destruct t as [h|h]; simpl in H.
  - destruct (upd_item h _ (items s)) as [l|] eqn:E; [|discriminate]. inversion H; subst. clear H.
    destruct (upd_item_spec _ _ _ _ E (lift_keeps f K)) as (A & B & C & D). split; [|reflexivity].
    unfold wf. simpl. rewrite A, B. repeat split; auto. eapply (Forall_map_ih (fun x => x < fresh s)); eauto.
  - destruct (upd_loose h f (loose s)) as [l|] eqn:E; [|discriminate]. inversion H; subst. clear H. split; [|reflexivity].
    unfold wf. simpl. repeat split; auto. eapply upd_loose_ok; eauto.
Qed.

Lemma bump_wf : forall k s, wf s -> wf (bump k s).
Proof.
  intros k s (W1 & W2 & W3 & W4 & W5 & W6). unfold wf, bump. simpl. repeat split; auto.
  eapply Forall_lt_mono; [|exact W6]. lia.
Qed.

Lemma push_item_wf : forall c det s, wf s -> cl_ok c -> wf (push_item c det s).
Proof.
  intros c det s (W1 & W2 & W3 & W4 & W5 & W6) Hc. unfold wf, push_item. simpl. repeat split; auto.
  - rewrite W1. lia.
  - constructor; [|exact W5]. intro Hin. apply in_map_iff in Hin. destruct Hin as (x & Ex & Hx).
    rewrite Forall_forall in W6. specialize (W6 x Hx). lia.
  - constructor; [simpl; lia|]. eapply Forall_lt_mono; [|exact W6]. lia.
Qed.

Lemma take_item_wf : forall h s it l, wf s -> take_item h (items s) = Some (it, l) ->
  (Z.of_nat (length l) = zn s - 1)%Z /\ Forall (fun x => cl_ok (icl x)) l /\ cl_ok (icl it) /\
  NoDup (map ih l) /\ Forall (fun x => ih x < fresh s) l /\ ~ In h (map ih l).
Proof.
  intros h s it l (W1 & W2 & W3 & W4 & W5 & W6) H.
  destruct (take_item_spec _ _ _ _ H) as (l1 & l2 & A & B & C & D). rewrite A in *. subst l.
  rewrite app_length in W1. simpl in W1. rewrite app_length.
  apply Forall_app in W2. destruct W2 as (F1 & F2). inversion F2; subst.
  apply Forall_app in W6. destruct W6 as (G1 & G2). inversion G2; subst.
  rewrite map_app in W5. simpl in W5. pose proof (NoDup_remove _ _ _ W5) as (N1 & N2). rewrite <- map_app in N1, N2.
  repeat split; auto.
  - lia.
  - apply Forall_app. split; assumption.
  - apply Forall_app. split; assumption.
Qed.

Lemma insert_root_wf : forall t k s s', wf s -> insert_root t k s = Some s' -> wf s'.
Proof.
  intros t k s s' W H. unfold insert_root in H.
  destruct (upd_cluster t _ s) as [s1|] eqn:E; [|discriminate]. inversion H.
  apply bump_wf. eapply (proj1 (upd_cluster_wf _ _ _ _ W E _)).
  Unshelve. intros c c' Hc Hok. inversion Hc. apply ins_root_ok. exact Hok.
Qed.

Lemma remove_cluster_wf : forall h s s', wf s -> remove_cluster h s = Some s' -> wf s'.
Proof.
  intros h s s' W H. unfold remove_cluster in H. destruct (take_item h (items s)) as [[it l]|] eqn:E; [|discriminate].
  inversion H; subst. destruct (take_item_wf _ _ _ _ W E) as (A & B & C & D & F & _).
  destruct W as (W1 & W2 & W3 & W4 & W5 & W6). unfold wf. simpl. repeat split; auto; try lia.
Qed.

Lemma reasm_visit_wf : forall s h s', wf s -> reasm_visit s h = Some s' -> wf s'.
Proof.
  intros s h s' W H. unfold reasm_visit in H.
  destruct (find_item h (items s)) as [it|]; [|discriminate].
  destruct (idet it) as [d|]; [|inversion H; subst; exact W].
  destruct (croots (icl it)) as [|r rest]; [discriminate|].
  destruct (insert_root (TItem d) (rk r) s) as [s1|] eqn:E; [|discriminate].
  eapply remove_cluster_wf; [|exact H]. eapply insert_root_wf; eauto.
Qed.

Lemma reasm_fold_wf : forall hs s s', wf s ->
  fold_left (fun acc h => match acc with None => None | Some st => reasm_visit st h end) hs (Some s) = Some s' -> wf s'.
Proof.
  induction hs as [|h t IH]; intros s s' W H; simpl in H; [inversion H; subst; exact W|].
  destruct (reasm_visit s h) as [s1|] eqn:E.
  - eapply IH; [|exact H]. eapply reasm_visit_wf; eauto.
  - exfalso. clear -H. induction t as [|a t IHt]; simpl in H; [discriminate|auto].
Qed.

Lemma reset_nodes_length : forall f n, length (reset_nodes f n) = n.
Proof. intros. unfold reset_nodes. rewrite map_length, rev_length, seq_length. reflexivity. Qed.

Theorem step_wf : forall o s s', wf s -> step o s = Some s' -> wf s'.
Proof.
  intros o s s' W H. destruct o; simpl in H.
  - (* new cluster *) inversion H; subst. destruct W as (W1 & W2 & W3 & W4 & W5 & W6). unfold wf. simpl.
    split; [exact W1|]. split; [exact W2|]. split; [constructor; [reflexivity|exact W3]|]. split; [exact W4|].
    split; [exact W5|]. eapply Forall_lt_mono; [|exact W6]. lia.
  - eapply insert_root_wf; eauto.
  - unfold remove_root in H. eapply (proj1 (upd_cluster_wf _ _ _ _ W H _)).
    Unshelve. intros c c' Hc Hok. eapply rem_root_ok; eauto.
  - (* insert cluster *) unfold insert_cluster in H. destruct (take_loose h (loose s)) as [[c l]|] eqn:E; [|discriminate].
    inversion H; subst. destruct W as (W1 & W2 & W3 & W4 & W5 & W6). destruct (take_loose_ok _ _ _ _ E W3) as (A & B).
    apply push_item_wf; [|exact A]. unfold wf. simpl. repeat split; auto.
  - (* pop *) unfold pop_cluster in H. destruct (take_item h (items s)) as [[it l]|] eqn:E; [|discriminate].
    inversion H; subst. destruct (take_item_wf _ _ _ _ W E) as (A & B & C & D & F & _).
    destruct W as (W1 & W2 & W3 & W4 & W5 & W6). unfold wf. simpl. repeat split; auto; try lia.
  - eapply remove_cluster_wf; eauto.
  - inversion H; subst; exact W.
  - (* detach step *) unfold detach_step in H. destruct (find_item hi (items s)) as [it|]; [|discriminate].
    destruct (find_node hr (croots (icl it))) as [r|]; [|discriminate].
    destruct (remove_root (TItem hi) hr (bump 1 s)) as [s1|] eqn:E; [|discriminate]. inversion H; subst.
    apply push_item_wf; [|unfold cl_ok; reflexivity].
    unfold remove_root in E. eapply (proj1 (upd_cluster_wf _ _ _ _ (bump_wf 1 s W) E _)).
    Unshelve. intros c c' Hc Hok. eapply rem_root_ok; eauto.
  - eapply reasm_fold_wf; eauto.
  - (* reset *) inversion H; subst. destruct W as (W1 & W2 & W3 & W4 & W5 & W6). unfold wf. simpl.
    repeat split; auto.
    + constructor; [|constructor]. unfold cl_ok. simpl. rewrite reset_nodes_length. reflexivity.
    + constructor; [intros []|constructor].
    + constructor; [simpl; lia|constructor].
Qed.

Lemma wf_init : wf init.
Proof. unfold wf, init. simpl. repeat split; constructor. Qed.

(* counters = lengths and distinct item handles after every operation sequence *)
Theorem run_wf : forall ops s s', wf s -> run ops s = Some s' -> wf s'.
Proof.
  induction ops as [|o t IH]; intros s s' W H; simpl in H; [inversion H; subst; exact W|].
  destruct (step o s) as [s1|] eqn:E; [|discriminate]. eapply IH; [|exact H]. eapply step_wf; eauto.
Qed.

(* ---------------------------------------------------------------- the detach step keeps the multiset of roots *)
Lemma del_find_perm : forall h l l' r, del_node h l = Some l' -> find_node h l = Some r ->
  Permutation (map rk l) (rk r :: map rk l').
Proof.
  intros h l. induction l as [|a t IH]; intros l' r D F; simpl in D, F; [discriminate|].
  destruct (rh a =? h).
  - inversion D; inversion F; subst. apply Permutation_refl.
  - destruct (del_node h t) as [t'|] eqn:E; [|discriminate]. inversion D; subst. simpl.
    eapply Permutation_trans; [apply perm_skip; apply (IH t' r eq_refl F)|apply perm_swap].
Qed.

Lemma upd_item_roots : forall h hr l l' it r,
  NoDup (map ih l) -> find_item h l = Some it -> find_node hr (croots (icl it)) = Some r ->
  upd_item h (fun it => option_map (fun c => mkI (ih it) c (idet it)) (rem_root hr (icl it))) l = Some l' ->
  Permutation (roots_of l) (rk r :: roots_of l').
Proof.
  intros h hr l. induction l as [|a t IH]; intros l' it r N F Fn U; simpl in F, U; [discriminate|].
  unfold roots_of in *. simpl. destruct (ih a =? h) eqn:E.
  - inversion F; subst a. unfold rem_root in U. destruct (del_node hr (croots (icl it))) as [nl|] eqn:D; [|discriminate].
    simpl in U. inversion U; subst. simpl.
    eapply Permutation_trans; [apply Permutation_app_tail; apply (del_find_perm _ _ _ _ D Fn)|]. simpl. apply Permutation_refl.
  - destruct (upd_item h _ t) as [t'|] eqn:Ut; [|discriminate]. inversion U; subst. simpl. inversion N; subst.
    eapply Permutation_trans; [apply Permutation_app_head; apply (IH t' it r H2 F Fn eq_refl)|].
    apply Permutation_sym. apply Permutation_middle.
Qed.

Theorem detach_step_multiset : forall hi hr s s', wf s -> detach_step hi hr s = Some s' ->
  Permutation (roots_of (items s')) (roots_of (items s)) /\
  (Z.of_nat (length (items s')) = Z.of_nat (length (items s)) + 1)%Z.
Proof.
  intros hi hr s s' W H. unfold detach_step in H.
  destruct (find_item hi (items s)) as [it|] eqn:F; [|discriminate].
  destruct (find_node hr (croots (icl it))) as [r|] eqn:Fn; [|discriminate].
  destruct (remove_root (TItem hi) hr (bump 1 s)) as [s1|] eqn:E; [|discriminate]. inversion H; subst. clear H.
  unfold remove_root, upd_cluster in E. simpl in E.
  destruct (upd_item hi _ (items s)) as [l|] eqn:U; [|discriminate]. inversion E; subst. clear E. simpl.
  destruct W as (_ & _ & _ & _ & N & _).
  pose proof (upd_item_roots _ _ _ _ _ _ N F Fn U) as P. split.
  - unfold roots_of at 1. simpl. fold (roots_of l). apply Permutation_sym. exact P.
  - assert (K : keeps (fun it0 => option_map (fun c => mkI (ih it0) c (idet it0)) (rem_root hr (icl it0)))).
    { apply lift_keeps. intros c c' Hc Hok. eapply rem_root_ok; eauto. }
    destruct (upd_item_spec _ _ _ _ U K) as (A & _). rewrite A. lia.
Qed.

(* ---------------------------------------------------------------- reassemble leaves no detached item *)
Lemma find_item_in : forall h l it, find_item h l = Some it -> In it l /\ ih it = h.
Proof.
  intros h l it H. unfold find_item in H. apply find_some in H. destruct H as (A & B). apply Nat.eqb_eq in B. auto.
Qed.

Lemma nodup_ih_inj : forall (l : list item) a b, NoDup (map ih l) -> In a l -> In b l -> ih a = ih b -> a = b.
Proof.
  induction l as [|x t IH]; intros a b N Ha Hb E; [destruct Ha|]. simpl in N. inversion N; subst.
  destruct Ha as [<-|Ha], Hb as [<-|Hb]; auto.
  - exfalso. apply H1. rewrite E. apply in_map. exact Hb.
  - exfalso. apply H1. rewrite <- E. apply in_map. exact Ha.
Qed.

Definition sub_skel (l' l : list item) : Prop :=
  forall it', In it' l' -> exists it, In it l /\ ih it = ih it' /\ idet it = idet it'.

Lemma sub_skel_of_maps : forall l l' : list item, map ih l' = map ih l -> map idet l' = map idet l -> sub_skel l' l.
Proof.
  induction l as [|a t IH]; intros l' A B; destruct l' as [|a' t']; try discriminate; intros it' Hin; [destruct Hin|].
  simpl in A, B. inversion A. inversion B. destruct Hin as [<-|Hin].
  - exists a. split; [left; reflexivity|auto].
  - destruct (IH t' H1 H3 it' Hin) as (it & I1 & I2). exists it. split; [right; exact I1|exact I2].
Qed.

Lemma reasm_visit_spec : forall s h s', wf s -> reasm_visit s h = Some s' ->
  sub_skel (items s') (items s) /\
  ((exists it, In it (items s) /\ ih it = h /\ idet it = None /\ s' = s) \/ (forall x, In x (items s') -> ih x <> h)).
Proof.
  intros s h s' W H. unfold reasm_visit in H.
  destruct (find_item h (items s)) as [it|] eqn:F; [|discriminate]. destruct (find_item_in _ _ _ F) as (Fi & Fh).
  destruct (idet it) as [d|] eqn:Ed.
  2:{ inversion H; subst. split; [intros x Hx; exists x; auto|]. left. exists it. auto. }
  destruct (croots (icl it)) as [|r rest]; [discriminate|].
  destruct (insert_root (TItem d) (rk r) s) as [s1|] eqn:E; [|discriminate].
  assert (W1 : wf s1) by (eapply insert_root_wf; eauto).
  unfold insert_root, upd_cluster in E. destruct (upd_item d _ (items s)) as [l|] eqn:U; [|discriminate].
  simpl in E. inversion E; subst s1. clear E.
  assert (K : keeps (fun it0 => option_map (fun c => mkI (ih it0) c (idet it0)) (Some (ins_root (fresh s) (rk r) (icl it0))))).
  { apply (lift_keeps (fun c => Some (ins_root (fresh s) (rk r) c))). intros c c' Hc Hok. inversion Hc. apply ins_root_ok. exact Hok. }
  destruct (upd_item_spec _ _ _ _ U K) as (_ & A & B & _).
  unfold remove_cluster in H. simpl in H. destruct (take_item h l) as [[it0 l0]|] eqn:T; [|discriminate].
  inversion H; subst s'. clear H. simpl.
  destruct (take_item_wf h _ it0 l0 W1 T) as (_ & _ & _ & _ & _ & Nin).
  destruct (take_item_spec _ _ _ _ T) as (l1 & l2 & El & El0 & _ & _).
  split.
  - intros x Hx. apply (sub_skel_of_maps _ _ A B). rewrite El. rewrite El0 in Hx.
    apply in_app_or in Hx. apply in_or_app. destruct Hx; [left|right; right]; assumption.
  - right. intros x Hx Ex. apply Nin. rewrite <- Ex. apply in_map. exact Hx.
Qed.

Lemma reasm_fold_spec : forall hs s s', wf s ->
  fold_left (fun acc h => match acc with None => None | Some st => reasm_visit st h end) hs (Some s) = Some s' ->
  sub_skel (items s') (items s) /\ (forall x, In x (items s') -> In (ih x) hs -> idet x = None).
Proof.
  induction hs as [|h t IH]; intros s s' W H; simpl in H.
  - inversion H; subst. split; [intros x Hx; exists x; auto|intros x _ []].
  - destruct (reasm_visit s h) as [s1|] eqn:E.
    2:{ exfalso. clear -H. induction t as [|a t IHt]; simpl in H; [discriminate|auto]. }
    assert (W1 : wf s1) by (eapply reasm_visit_wf; eauto).
    destruct (IH s1 s' W1 H) as (S1 & D1). destruct (reasm_visit_spec _ _ _ W E) as (S0 & C0). split.
    + intros x Hx. destruct (S1 x Hx) as (y & Hy & Ey1 & Ey2). destruct (S0 y Hy) as (z & Hz & Ez1 & Ez2).
      exists z. split; [exact Hz|]. split; congruence.
    + intros x Hx [Eh|Ht]; [|apply D1; assumption].
      destruct (S1 x Hx) as (y & Hy & Ey1 & Ey2). destruct C0 as [(it & Hit & Eit & Dit & Es)|C0].
      * subst s1. destruct W as (_ & _ & _ & _ & N & _).
        assert (y = it) by (apply (nodup_ih_inj _ _ _ N Hy Hit); congruence). subst y. congruence.
      * exfalso. apply (C0 y Hy). congruence.
Qed.

Theorem reassemble_no_detached : forall s s', wf s -> reassemble s = Some s' ->
  wf s' /\ forall it, In it (items s') -> idet it = None.
Proof.
  intros s s' W H. unfold reassemble in H. split; [eapply reasm_fold_wf; eauto|].
  destruct (reasm_fold_spec _ _ _ W H) as (S & D). intros it Hit. apply D; [exact Hit|].
  destruct (S it Hit) as (y & Hy & Ey & _). rewrite <- Ey. apply in_map. exact Hy.
Qed.
