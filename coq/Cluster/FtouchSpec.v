(* C07 -- vocabulary of the end-to-end statements about mps_ftouchnwt on binary64 (FtouchModel.ftouch_b64), the guard
   branch and the refutation for subnormal distances.  The analysis is in FtouchReal.v / FtouchLink.v. *)
From Coq Require Import ZArith Reals Bool Lra Lia.
From Flocq Require Import Core BinarySingleNaN.
From MPSV Require Import Cluster.Touch Cluster.TouchFlocq Cluster.FtouchModel.
Open Scope R_scope.

(* exact quantities of the property: scaled sum of the radii and distance of the centres *)
Definition exactL (n : Z) (ri rj : b64) : R := IZR n * (B2R ri + B2R rj).
Definition exactD (xi yi xj yj : b64) : R :=
  sqrt ((B2R xi - B2R xj) * (B2R xi - B2R xj) + (B2R yi - B2R yj) * (B2R yi - B2R yj)).

Definition finite6 (ri rj xi yi xj yj : b64) : Prop :=
  is_finite ri = true /\ is_finite rj = true /\ is_finite xi = true /\ is_finite yi = true /\
  is_finite xj = true /\ is_finite yj = true.

(* both radii below t = DBL_MAX / (2 n): the guard branch is not taken *)
Definition below_guard (n : Z) (ri rj : b64) : Prop :=
  fge ri (ftouch_guard n) = false /\ fge rj (ftouch_guard n) = false.

(* one component of the exact difference of the centres is not subnormal *)
Definition normal_distance (xi yi xj yj : b64) : Prop :=
  bpow radix2 (-1022) <= Rabs (B2R xi - B2R xj) \/ bpow radix2 (-1022) <= Rabs (B2R yi - B2R yj).

(* the int arguments for which `2 * n` and the conversions to double are exact *)
Definition n_ok (n : Z) : Prop := (1 <= n < 2 ^ 30)%Z.

(* ---- guard branch: a radius at or above DBL_MAX / (2 n) is treated as infinite *)
Lemma ftouch_b64_guard : forall n ri rj xi yi xj yj,
  fge ri (ftouch_guard n) = true \/ fge rj (ftouch_guard n) = true ->
  ftouch_b64 n ri rj xi yi xj yj = true.
Proof.
  intros n ri rj xi yi xj yj H. unfold ftouch_b64.
  destruct H as [H|H]; rewrite H; [reflexivity|]. rewrite orb_true_r. reflexivity.
Qed.

Lemma u64_small : u64 <= / 64.
Proof.
  unfold u64. assert (H : bpow radix2 (-53 + 1) <= bpow radix2 (-5)) by (apply bpow_le; lia).
  replace (bpow radix2 (-5)) with (/ 32) in H by (simpl; lra). lra.
Qed.

(* ---- subnormal distances: the separated case can answer true *)
Definition w_tiny : b64 := @B754_finite 53 1024 false 1 (-1074) eq_refl.      (* 2^-1074 *)

Lemma ftouch_subnormal_refuted :
  exists n ri rj xi yi xj yj,
    n_ok n /\ finite6 ri rj xi yi xj yj /\ 0 <= B2R ri /\ 0 <= B2R rj /\ below_guard n ri rj /\
    exactL n ri rj * (1 + 8 * u64) < exactD xi yi xj yj /\
    ftouch_b64 n ri rj xi yi xj yj = true.
Proof.
  exists 1%Z, w_tiny, fzero, w_tiny, w_tiny, fzero, fzero.
  assert (Hq : B2R w_tiny = bpow radix2 (-1074)).
  { unfold w_tiny, B2R, F2R. simpl Fnum. simpl Fexp. ring. }
  assert (Hz : B2R fzero = 0) by reflexivity.
  pose proof (bpow_gt_0 radix2 (-1074)) as Hpos.
  split; [unfold n_ok; lia|]. split; [repeat split|]. split; [rewrite Hq; lra|]. split; [rewrite Hz; lra|].
  split; [split; vm_compute; reflexivity|]. split; [|vm_compute; reflexivity].
  unfold exactL, exactD. rewrite Hq, Hz. set (q := bpow radix2 (-1074)) in *.
  pose proof u64_small as Hu. pose proof (proj1 u64_bounds) as Hu0.
  replace ((q - 0) * (q - 0) + (q - 0) * (q - 0)) with ((q * q) * 2) by ring.
  rewrite sqrt_mult by nra. rewrite sqrt_square by lra.
  assert (Hs : 1 + 8 * u64 < sqrt 2).
  { apply Rsqr_incrst_0; [|lra|apply sqrt_pos]. rewrite Rsqr_sqrt by lra. unfold Rsqr. nra. }
  nra.
Qed.
