(* C07 -- mps_ftouchnwt: analysis over the reals of the operations AS CODED, with Flocq's binary64 rounding rnd64
   (round to nearest even on FLT_exp (-1074) 53: gradual underflow included, no upper exponent bound; the bound 2^1024
   is handled in FtouchLink.v).  Nothing is assumed about ranges: underflow of the quotient d and of d*d inside cplx_mod
   is accounted for (absolute error eta64), the product by the int n is exact or normal, sums and differences of
   binary64 numbers have a relative error in the subnormal range as well.

     modR a b  = |a| * sqrt (1 + (b/a)^2) as cplx_mod computes it for |b| <= |a|, a <> 0   (five roundings)
     codedR    = n * (ri + rj) as computed                                                  (two roundings) *)
From Coq Require Import ZArith Reals Lra Lia Psatz.
From Flocq Require Import Core Relative Plus_error.
From MPSV Require Import Cluster.Touch Cluster.TouchFlocq.
Open Scope R_scope.

Notation fmt := (generic_format radix2 fexp64).
Definition eta64 : R := / 2 * bpow radix2 (-1074).

Global Instance fexp64_valid : Valid_exp fexp64 := FLT_exp_valid (-1074) 53.
Global Instance rnd64_valid : Valid_rnd ZnearestE := valid_rnd_N _.

Lemma u64_tiny : 0 < u64 <= / 1024.
Proof.
  unfold u64. split.
  - apply Rmult_lt_0_compat; [lra|apply bpow_gt_0].
  - assert (H : bpow radix2 (-53 + 1) <= bpow radix2 (-9)) by (apply bpow_le; lia).
    replace (bpow radix2 (-9)) with (/ 512) in H by (simpl; lra). lra.
Qed.

Lemma eta64_tiny : 0 <= eta64 <= u64 / 64.
Proof.
  unfold eta64, u64. split.
  - apply Rmult_le_pos; [lra|apply bpow_ge_0].
  - assert (H : bpow radix2 (-1074) <= bpow radix2 (-58)) by (apply bpow_le; lia).
    replace (bpow radix2 (-58)) with (bpow radix2 (-53 + 1) * bpow radix2 (-6)) in H by (rewrite <- bpow_plus; reflexivity).
    replace (bpow radix2 (-6)) with (/ 64) in H by (simpl; lra). lra.
Qed.

(* ---- rounding facts ---- *)
Lemma rnd64_err : forall x, exists e h,
  Rabs e <= u64 /\ Rabs h <= eta64 /\ rnd64 x = x * (1 + e) + h.
Proof.
  intros x. destruct (error_N_FLT radix2 (-1074) 53 eq_refl (fun t => negb (Z.even t)) x) as (e & h & He & Hh & _ & E).
  exists e, h. repeat split; assumption.
Qed.

Lemma rnd64_plus : forall x y, fmt x -> fmt y ->
  exists e, Rabs e <= u64 /\ rnd64 (x + y) = (x + y) * (1 + e).
Proof.
  intros x y Fx Fy.
  destruct (FLT_plus_error_N_ex radix2 (-1074) 53 (fun t => negb (Z.even t)) x y Fx Fy) as (e & He & E).
  exists e. split; [|exact E].
  eapply Rle_trans; [exact He|]. apply (u_rod1pu_ro_le_u_ro radix2 53).
Qed.

Lemma rnd64_minus : forall x y, fmt x -> fmt y ->
  exists e, Rabs e <= u64 /\ rnd64 (x - y) = (x - y) * (1 + e).
Proof.
  intros x y Fx Fy. apply (rnd64_plus x (- y) Fx). apply generic_format_opp. exact Fy.
Qed.

Lemma fmt_rnd64 : forall x, fmt (rnd64 x).
Proof. intros x. apply generic_format_round; typeclasses eauto. Qed.

Lemma rnd64_id : forall x, fmt x -> rnd64 x = x.
Proof. intros x H. apply round_generic; [typeclasses eauto|exact H]. Qed.

Lemma fmt_bpow : forall e, (-1074 <= e)%Z -> fmt (bpow radix2 e).
Proof. intros e He. apply generic_format_FLT_bpow; [reflexivity|exact He]. Qed.

Lemma fmt_0 : fmt 0. Proof. apply generic_format_0. Qed.
Lemma fmt_1 : fmt 1. Proof. change 1 with (bpow radix2 0). apply fmt_bpow. lia. Qed.

Lemma rnd64_le : forall x y, x <= y -> rnd64 x <= rnd64 y.
Proof. intros x y H. apply round_le; [typeclasses eauto|typeclasses eauto|exact H]. Qed.

Lemma rnd64_ge_fmt : forall x y, fmt x -> x <= y -> x <= rnd64 y.
Proof. intros x y F H. apply round_ge_generic; [typeclasses eauto|typeclasses eauto|exact F|exact H]. Qed.

Lemma rnd64_le_fmt : forall x y, fmt y -> x <= y -> rnd64 x <= y.
Proof. intros x y F H. apply round_le_generic; [typeclasses eauto|typeclasses eauto|exact F|exact H]. Qed.

Lemma rnd64_abs_le_fmt : forall x y, fmt y -> Rabs x <= y -> Rabs (rnd64 x) <= y.
Proof. intros x y F H. apply abs_round_le_generic; [typeclasses eauto|typeclasses eauto|exact F|exact H]. Qed.

Lemma rnd64_normal : forall x, bpow radix2 (-1022) <= Rabs x ->
  exists e, Rabs e <= u64 /\ rnd64 x = x * (1 + e).
Proof. intros x H. apply rnd64_rel. right. exact H. Qed.

(* a binary64 number is an integer multiple of 2^-1074; the product of a small one by an integer is exact *)
Lemma rnd64_intmul : forall (n : Z) s, fmt s ->
  exists e, Rabs e <= u64 /\ rnd64 (IZR n * s) = IZR n * s * (1 + e).
Proof.
  intros n s Fs.
  destruct (Rle_or_lt (bpow radix2 (-1022)) (Rabs (IZR n * s))) as [H|H].
  - apply rnd64_normal. exact H.
  - exists 0. split; [rewrite Rabs_R0; exact (proj1 u64_bounds)|].
    rewrite Rplus_0_r, Rmult_1_r. apply rnd64_id.
    apply generic_format_FLT_FIX; [exact prec53_gt_0| |].
    + apply Rlt_le. eapply Rlt_le_trans; [exact H|]. apply bpow_le. lia.
    + apply generic_format_FIX_FLT in Fs. apply FIX_format_generic in Fs.
      destruct Fs as [f Hf He]. apply generic_format_FIX.
      exists (Float radix2 (n * Fnum f) (-1074)); [|reflexivity].
      rewrite Hf. unfold F2R. simpl Fnum. simpl Fexp. rewrite He. rewrite mult_IZR. ring.
Qed.

(* ---- algebra of the error propagation inside cplx_mod (u = unit roundoff, eta = half the smallest subnormal) ---- *)
Lemma dd_bounds : forall u eta x e1 h1 : R,
  0 < u <= / 1024 -> 0 <= eta <= u / 64 -> -1 <= x <= 1 ->
  - u <= e1 <= u -> - eta <= h1 <= eta ->
  let d := x * (1 + e1) + h1 in
  (x * x) * (1 - 2 * u) - 3 * eta <= d * d <= (x * x) * (1 + (2 + / 64) * u) + 3 * eta.
Proof.
  intros u eta x e1 h1 Hu He Hx H1 Hh d.
  set (X := x * x). assert (HX : 0 <= X <= 1) by (unfold X; nra).
  set (t := x * (1 + e1)).
  assert (Ht : - (1 + u) <= t <= 1 + u) by (unfold t; nra).
  assert (Htt : X * (1 - 2 * u) <= t * t <= X * (1 + (2 + / 64) * u)).
  { unfold t. replace (x * (1 + e1) * (x * (1 + e1))) with (X * ((1 + e1) * (1 + e1))) by (unfold X; ring).
    assert (1 - 2 * u <= (1 + e1) * (1 + e1) <= 1 + (2 + / 64) * u) by nra.
    split; apply Rmult_le_compat_l; lra. }
  assert (Hth : - ((1 + u) * eta) <= t * h1 <= (1 + u) * eta) by nra.
  assert (Hhh : 0 <= h1 * h1 <= eta * eta) by nra.
  assert (Hee : eta * eta <= eta / 2) by nra.
  assert (Hue : u * eta <= eta / 4) by nra.
  replace (d * d) with (t * t + 2 * (t * h1) + h1 * h1) by (unfold d, t; ring).
  lra.
Qed.

Lemma v_bounds : forall u eta X dd w v e2 h2 e3 : R,
  0 < u <= / 1024 -> 0 <= eta <= u / 64 -> 0 <= X <= 1 ->
  X * (1 - 2 * u) - 3 * eta <= dd <= X * (1 + (2 + / 64) * u) + 3 * eta -> 0 <= dd ->
  - u <= e2 <= u -> - eta <= h2 <= eta -> w = dd * (1 + e2) + h2 -> 0 <= w ->
  - u <= e3 <= u -> v = (1 + w) * (1 + e3) ->
  (1 + X) * ((1 - 9 / 4 * u) * (1 - 9 / 4 * u)) <= v <= (1 + X) * ((1 + 9 / 4 * u) * (1 + 9 / 4 * u)).
Proof.
  intros u eta X dd w v e2 h2 e3 Hu He HX Hdd Hdd0 H2 Hh2 Ew Hw0 H3 Ev.
  assert (Hue : 0 <= u * eta <= eta / 1024) by nra.
  assert (Huu : 0 <= u * u <= u / 1024) by nra.
  assert (HXu : 0 <= X * u <= u) by nra.
  assert (HXuu : 0 <= X * (u * u) <= u * u) by nra.
  (* w between X(1-3u) - 4 eta and X(1 + (3+1/16) u) + 5 eta *)
  assert (Hwlo : X * (1 - 3 * u) - 4 * eta <= w).
  { rewrite Ew. assert (dd * (1 - u) <= dd * (1 + e2)) by (apply Rmult_le_compat_l; lra).
    assert ((X * (1 - 2 * u) - 3 * eta) * (1 - u) <= dd * (1 - u)) by (apply Rmult_le_compat_r; lra).
    nra. }
  assert (Hwhi : w <= X * (1 + (3 + / 16) * u) + 5 * eta).
  { rewrite Ew. assert (dd * (1 + e2) <= dd * (1 + u)) by (apply Rmult_le_compat_l; lra).
    assert (dd * (1 + u) <= (X * (1 + (2 + / 64) * u) + 3 * eta) * (1 + u)) by (apply Rmult_le_compat_r; lra).
    nra. }
  assert (H1w : 1 <= 1 + w) by lra.
  assert (Hvlo : (1 + w) * (1 - u) <= v) by (rewrite Ev; apply Rmult_le_compat_l; lra).
  assert (Hvhi : v <= (1 + w) * (1 + u)) by (rewrite Ev; apply Rmult_le_compat_l; lra).
  split.
  - apply Rle_trans with ((1 + w) * (1 - u)); [|exact Hvlo].
    apply Rle_trans with ((1 + X * (1 - 3 * u) - 4 * eta) * (1 - u)); [|apply Rmult_le_compat_r; lra].
    nra.
  - apply Rle_trans with ((1 + w) * (1 + u)); [exact Hvhi|].
    apply Rle_trans with ((1 + X * (1 + (3 + / 16) * u) + 5 * eta) * (1 + u)); [apply Rmult_le_compat_r; lra|].
    nra.
Qed.

(* ---- cplx_mod as coded, for |b| <= |a|, a <> 0:  fabs (a) * sqrt (1.0 + d * d)  with  d = b / a ---- *)
Definition mod_pre (a b : R) : R :=
  let d := rnd64 (b / a) in Rabs a * rnd64 (sqrt (rnd64 (1 + rnd64 (d * d)))).
Definition mod_rnd (a b : R) : R := rnd64 (mod_pre a b).

Lemma Rabs_le_pm : forall x y, Rabs x <= y -> - y <= x <= y.
Proof. intros x y H. apply Rabs_le_inv. exact H. Qed.

(* ranges of the intermediate results (used for the absence of overflow in FtouchLink.v) *)
Lemma mod_ranges : forall a b, a <> 0 -> Rabs b <= Rabs a ->
  let d := rnd64 (b / a) in let w := rnd64 (d * d) in let v := rnd64 (1 + w) in let r := rnd64 (sqrt v) in
  Rabs d <= 1 /\ 0 <= d * d <= 1 /\ 0 <= w <= 1 /\ 1 <= v <= 2 /\ 1 <= sqrt v <= 2 /\ 1 <= r <= 2.
Proof.
  intros a b Ha Hab d w v r.
  assert (Hx : Rabs (b / a) <= 1).
  { unfold Rdiv. rewrite Rabs_mult, Rabs_inv. assert (0 < Rabs a) by (apply Rabs_pos_lt; exact Ha).
    apply Rmult_le_reg_r with (Rabs a); [assumption|]. rewrite Rmult_assoc, Rinv_l by lra. lra. }
  assert (Hd : Rabs d <= 1) by (apply rnd64_abs_le_fmt; [exact fmt_1|exact Hx]).
  assert (Hdd : 0 <= d * d <= 1) by (apply Rabs_le_pm in Hd; nra).
  assert (Hw : 0 <= w <= 1).
  { split; [apply rnd64_ge_fmt; [exact fmt_0|lra]|apply rnd64_le_fmt; [exact fmt_1|lra]]. }
  assert (F2 : fmt 2) by (change 2 with (bpow radix2 1); apply fmt_bpow; lia).
  assert (Hv : 1 <= v <= 2).
  { split; [apply rnd64_ge_fmt; [exact fmt_1|lra]|apply rnd64_le_fmt; [exact F2|lra]]. }
  assert (Hs : 1 <= sqrt v <= 2).
  { split.
    - rewrite <- sqrt_1 at 1. apply sqrt_le_1_alt. lra.
    - replace 2 with (sqrt (2 * 2)) by (apply sqrt_square; lra). apply sqrt_le_1_alt. lra. }
  repeat split; try lra.
  - apply rnd64_ge_fmt; [exact fmt_1|lra].
  - apply rnd64_le_fmt; [exact F2|lra].
Qed.

Lemma mod_pre_bounds : forall a b, a <> 0 -> Rabs b <= Rabs a ->
  let H := sqrt (a * a + b * b) in
  (1 - 9 / 4 * u64) * (1 - u64) * H <= mod_pre a b <= (1 + 9 / 4 * u64) * (1 + u64) * H
  /\ Rabs a <= mod_pre a b.
Proof.
  intros a b Ha Hab H.
  destruct (mod_ranges a b Ha Hab) as (Rd & Rdd & Rw & Rv & Rs & Rr).
  pose proof u64_tiny as Hu. pose proof eta64_tiny as He.
  set (x := b / a) in *. set (X := x * x).
  assert (Hx : -1 <= x <= 1).
  { apply Rabs_le_pm. unfold x, Rdiv. rewrite Rabs_mult, Rabs_inv. assert (0 < Rabs a) by (apply Rabs_pos_lt; exact Ha).
    apply Rmult_le_reg_r with (Rabs a); [assumption|]. rewrite Rmult_assoc, Rinv_l by lra. lra. }
  assert (HX : 0 <= X <= 1) by (unfold X; nra).
  unfold mod_pre. fold x.
  destruct (rnd64_err x) as (e1 & h1 & He1 & Hh1 & E1).
  set (d := rnd64 x) in *.
  destruct (rnd64_err (d * d)) as (e2 & h2 & He2 & Hh2 & E2).
  set (w := rnd64 (d * d)) in *.
  destruct (rnd64_normal (1 + w)) as (e3 & He3 & E3).
  { rewrite Rabs_pos_eq by lra. apply Rle_trans with 1; [|lra]. change 1 with (bpow radix2 0). apply bpow_le. lia. }
  set (v := rnd64 (1 + w)) in *.
  destruct (rnd64_normal (sqrt v)) as (e4 & He4 & E4).
  { rewrite Rabs_pos_eq by lra. apply Rle_trans with 1; [|lra]. change 1 with (bpow radix2 0). apply bpow_le. lia. }
  set (r := rnd64 (sqrt v)) in *.
  apply Rabs_le_pm in He1, Hh1, He2, Hh2, He3, He4.
  assert (Bdd := dd_bounds u64 eta64 x e1 h1 Hu He Hx He1 Hh1). cbv zeta in Bdd. rewrite <- E1 in Bdd. fold X in Bdd.
  assert (Bv := v_bounds u64 eta64 X (d * d) w v e2 h2 e3 Hu He HX Bdd (proj1 Rdd) He2 Hh2 E2 (proj1 Rw) He3 E3).
  set (lo := 1 - 9 / 4 * u64) in *. set (hi := 1 + 9 / 4 * u64) in *.
  assert (Hlo : 0 <= lo) by (unfold lo; lra). assert (Hhi : 0 <= hi) by (unfold hi; lra).
  set (S := sqrt (1 + X)).
  assert (HS : 1 <= S) by (unfold S; rewrite <- sqrt_1 at 1; apply sqrt_le_1_alt; lra).
  assert (Bs : lo * S <= sqrt v <= hi * S).
  { split.
    - replace (lo * S) with (sqrt ((1 + X) * (lo * lo))).
      + apply sqrt_le_1_alt. exact (proj1 Bv).
      + rewrite sqrt_mult by nra. rewrite sqrt_square by exact Hlo. unfold S. ring.
    - replace (hi * S) with (sqrt ((1 + X) * (hi * hi))).
      + apply sqrt_le_1_alt. exact (proj2 Bv).
      + rewrite sqrt_mult by nra. rewrite sqrt_square by exact Hhi. unfold S. ring. }
  assert (EH : H = Rabs a * S).
  { unfold H, S. replace (a * a + b * b) with ((Rabs a * Rabs a) * (1 + X)).
    - rewrite sqrt_mult by (try nra; apply Rmult_le_pos; apply Rabs_pos). rewrite sqrt_square by apply Rabs_pos. reflexivity.
    - unfold X, x. replace (Rabs a * Rabs a) with (a * a) by (rewrite <- Rabs_mult; rewrite Rabs_pos_eq; nra). field. exact Ha. }
  assert (Ha0 : 0 <= Rabs a) by apply Rabs_pos.
  assert (Br : lo * (1 - u64) * S <= r <= hi * (1 + u64) * S).
  { rewrite E4. split.
    - apply Rle_trans with (sqrt v * (1 - u64)); [|apply Rmult_le_compat_l; lra].
      replace (lo * (1 - u64) * S) with (lo * S * (1 - u64)) by ring. apply Rmult_le_compat_r; lra.
    - apply Rle_trans with (sqrt v * (1 + u64)); [apply Rmult_le_compat_l; lra|].
      replace (hi * (1 + u64) * S) with (hi * S * (1 + u64)) by ring. apply Rmult_le_compat_r; lra. }
  rewrite EH. split; [split|].
  - replace (lo * (1 - u64) * (Rabs a * S)) with (Rabs a * (lo * (1 - u64) * S)) by ring.
    apply Rmult_le_compat_l; lra.
  - replace (hi * (1 + u64) * (Rabs a * S)) with (Rabs a * (hi * (1 + u64) * S)) by ring.
    apply Rmult_le_compat_l; lra.
  - rewrite <- (Rmult_1_r (Rabs a)) at 1. apply Rmult_le_compat_l; lra.
Qed.

(* ---- the left side  n * (frad[i] + frad[j]) ---- *)
Definition codedR (n : Z) (ri rj : R) : R := rnd64 (IZR n * rnd64 (ri + rj)).

Lemma coded_bounds : forall n ri rj, (1 <= n)%Z -> fmt ri -> fmt rj -> 0 <= ri -> 0 <= rj ->
  let L := IZR n * (ri + rj) in
  (1 - u64) * (1 - u64) * L <= codedR n ri rj <= (1 + u64) * (1 + u64) * L.
Proof.
  intros n ri rj Hn Fi Fj Hi Hj L. unfold codedR.
  destruct (rnd64_plus ri rj Fi Fj) as (e1 & He1 & E1).
  destruct (rnd64_intmul n (rnd64 (ri + rj)) (fmt_rnd64 _)) as (e2 & He2 & E2).
  rewrite E2, E1. pose proof u64_tiny as Hu. apply Rabs_le_pm in He1, He2.
  assert (Hn' : 1 <= IZR n) by (apply IZR_le; exact Hn).
  assert (HL : 0 <= L) by (unfold L; apply Rmult_le_pos; lra).
  replace (IZR n * ((ri + rj) * (1 + e1)) * (1 + e2)) with (L * ((1 + e1) * (1 + e2))) by (unfold L; ring).
  assert ((1 - u64) * (1 - u64) <= (1 + e1) * (1 + e2) <= (1 + u64) * (1 + u64)) by nra.
  rewrite 2!(Rmult_comm _ L). split; apply Rmult_le_compat_l; lra.
Qed.

Lemma fmt_coded : forall n ri rj, fmt (codedR n ri rj).
Proof. intros. apply fmt_rnd64. Qed.

(* ---- overlap / separation for an ordered pair (a, b) of difference components, |b| <= |a|, a <> 0 ---- *)
Lemma poly_overlap : forall u, 0 < u <= / 1024 ->
  (1 + 9 / 4 * u) * (1 + u) * (1 + u) <= (1 + 8 * u) * ((1 - u) * (1 - u)).
Proof. intros u Hu. assert (0 <= u * u <= u / 1024) by nra. assert (0 <= u * (u * u) <= u * u) by nra. nra. Qed.

Lemma poly_separated : forall u, 0 < u <= / 1024 ->
  (1 + u) * (1 + u) <= (1 - u) * (1 - u) * (1 - u) * (1 - 9 / 4 * u) * (1 + 8 * u).
Proof.
  intros u Hu. assert (H2 : 0 <= u * u <= u / 1024) by nra.
  assert (H3 : 0 <= u * (u * u) <= u * u / 1024) by nra.
  assert (H4 : 0 <= u * (u * (u * u)) <= u * (u * u) / 1024) by nra.
  assert (H5 : 0 <= u * (u * (u * (u * u))) <= u * (u * (u * u)) / 1024) by nra.
  replace ((1 - u) * (1 - u) * (1 - u) * (1 - 9 / 4 * u) * (1 + 8 * u))
    with (1 + 11 / 4 * u - 129 / 4 * (u * u) + 281 / 4 * (u * (u * u)) - 239 / 4 * (u * (u * (u * u)))
          + 18 * (u * (u * (u * (u * u))))) by field.
  nra.
Qed.

Theorem real_overlap : forall n ri rj a b D,
  (1 <= n)%Z -> fmt ri -> fmt rj -> 0 <= ri -> 0 <= rj -> a <> 0 -> Rabs b <= Rabs a -> 0 <= D ->
  sqrt (a * a + b * b) <= (1 + u64) * D ->
  D * (1 + 8 * u64) <= IZR n * (ri + rj) ->
  mod_rnd a b <= codedR n ri rj.
Proof.
  intros n ri rj a b D Hn Fi Fj Hi Hj Ha Hab HD HH Hov.
  destruct (mod_pre_bounds a b Ha Hab) as ((_ & Hup) & _). cbv zeta in Hup.
  destruct (coded_bounds n ri rj Hn Fi Fj Hi Hj) as (Hlo & _). cbv zeta in Hlo.
  pose proof u64_tiny as Hu. pose proof (poly_overlap u64 Hu) as Hp.
  unfold mod_rnd. apply rnd64_le_fmt; [apply fmt_coded|].
  set (L := IZR n * (ri + rj)) in *. set (H := sqrt (a * a + b * b)) in *.
  assert (H0 : 0 <= H) by apply sqrt_pos.
  apply Rle_trans with ((1 + 9 / 4 * u64) * (1 + u64) * ((1 + u64) * D)).
  - eapply Rle_trans; [exact Hup|]. apply Rmult_le_compat_l; [|exact HH].
    apply Rmult_le_pos; lra.
  - apply Rle_trans with ((1 - u64) * (1 - u64) * L); [|exact Hlo].
    apply Rle_trans with ((1 - u64) * (1 - u64) * (D * (1 + 8 * u64))); [|apply Rmult_le_compat_l; [nra|exact Hov]].
    replace ((1 + 9 / 4 * u64) * (1 + u64) * ((1 + u64) * D)) with (D * ((1 + 9 / 4 * u64) * (1 + u64) * (1 + u64))) by ring.
    replace ((1 - u64) * (1 - u64) * (D * (1 + 8 * u64))) with (D * ((1 + 8 * u64) * ((1 - u64) * (1 - u64)))) by ring.
    apply Rmult_le_compat_l; [exact HD|exact Hp].
Qed.

Theorem real_separated : forall n ri rj a b D,
  (1 <= n)%Z -> fmt ri -> fmt rj -> 0 <= ri -> 0 <= rj -> a <> 0 -> Rabs b <= Rabs a -> 0 <= D ->
  (1 - u64) * D <= sqrt (a * a + b * b) ->
  bpow radix2 (-1022) <= Rabs a ->
  IZR n * (ri + rj) * (1 + 8 * u64) < D ->
  codedR n ri rj < mod_rnd a b.
Proof.
  intros n ri rj a b D Hn Fi Fj Hi Hj Ha Hab HD HH Hnorm Hsep.
  destruct (mod_pre_bounds a b Ha Hab) as ((Hlow & _) & Hge). cbv zeta in Hlow.
  destruct (coded_bounds n ri rj Hn Fi Fj Hi Hj) as (_ & Hhi). cbv zeta in Hhi.
  pose proof u64_tiny as Hu. pose proof (poly_separated u64 Hu) as Hp.
  pose proof (bpow_gt_0 radix2 (-1022)) as Hb.
  unfold mod_rnd.
  destruct (rnd64_normal (mod_pre a b)) as (e5 & He5 & E5).
  { rewrite Rabs_pos_eq by lra. lra. }
  rewrite E5. apply Rabs_le_pm in He5.
  set (L := IZR n * (ri + rj)) in *. set (H := sqrt (a * a + b * b)) in *. set (P := mod_pre a b) in *.
  assert (HL : 0 <= L) by (unfold L; apply Rmult_le_pos; [apply IZR_le; lia|lra]).
  assert (HP : 0 < P) by lra.
  set (c := (1 - u64) * (1 - u64) * (1 - u64) * (1 - 9 / 4 * u64)) in *.
  assert (Hc : 0 < c) by (unfold c; repeat apply Rmult_lt_0_compat; lra).
  apply Rle_lt_trans with (c * (L * (1 + 8 * u64))).
  - eapply Rle_trans; [exact Hhi|].
    replace (c * (L * (1 + 8 * u64))) with (L * (c * (1 + 8 * u64))) by ring.
    rewrite (Rmult_comm _ L). apply Rmult_le_compat_l; [exact HL|exact Hp].
  - apply Rlt_le_trans with (c * D); [apply Rmult_lt_compat_l; assumption|].
    apply Rle_trans with (P * (1 - u64)); [|apply Rmult_le_compat_l; lra].
    apply Rle_trans with ((1 - 9 / 4 * u64) * (1 - u64) * H * (1 - u64)); [|apply Rmult_le_compat_r; lra].
    replace (c * D) with ((1 - 9 / 4 * u64) * (1 - u64) * ((1 - u64) * D) * (1 - u64)) by (unfold c; ring).
    apply Rmult_le_compat_r; [lra|]. apply Rmult_le_compat_l; [apply Rmult_le_pos; lra|exact HH].
Qed.

(* ---- cplx_mod with its branches, on the computed difference (cplx_sub) ---- *)
Definition cplx_modR (re im : R) : R :=
  if Rlt_bool (Rabs im) (Rabs re) then mod_rnd re im
  else if Req_bool im 0 then 0 else mod_rnd im re.

Definition distR (xi yi xj yj : R) : R := sqrt ((xi - xj) * (xi - xj) + (yi - yj) * (yi - yj)).

Lemma diff_modulus : forall xi yi xj yj, fmt xi -> fmt yi -> fmt xj -> fmt yj ->
  let dx := rnd64 (xi - xj) in let dy := rnd64 (yi - yj) in
  (1 - u64) * distR xi yi xj yj <= sqrt (dx * dx + dy * dy) <= (1 + u64) * distR xi yi xj yj.
Proof.
  intros xi yi xj yj Fxi Fyi Fxj Fyj dx dy.
  destruct (rnd64_minus xi xj Fxi Fxj) as (a & Ha & Ea). destruct (rnd64_minus yi yj Fyi Fyj) as (b & Hb & Eb).
  pose proof u64_tiny as Hu.
  destruct (modulus_rel u64 (xi - xj) (yi - yj) a b) as (t & Ht & Et); [lra|exact Ha|exact Hb|].
  unfold dx, dy. rewrite Ea, Eb, Et. unfold distR. apply Rabs_le_pm in Ht.
  assert (0 <= sqrt ((xi - xj) * (xi - xj) + (yi - yj) * (yi - yj))) by apply sqrt_pos.
  rewrite 2!(Rmult_comm _ (sqrt _)). split; apply Rmult_le_compat_l; lra.
Qed.

Theorem ftouchR_overlap : forall n ri rj xi yi xj yj,
  (1 <= n)%Z -> fmt ri -> fmt rj -> fmt xi -> fmt yi -> fmt xj -> fmt yj -> 0 <= ri -> 0 <= rj ->
  distR xi yi xj yj * (1 + 8 * u64) <= IZR n * (ri + rj) ->
  cplx_modR (rnd64 (xi - xj)) (rnd64 (yi - yj)) <= codedR n ri rj.
Proof.
  intros n ri rj xi yi xj yj Hn Fi Fj Fxi Fyi Fxj Fyj Hi Hj Hov.
  destruct (diff_modulus xi yi xj yj Fxi Fyi Fxj Fyj) as (_ & HH). cbv zeta in HH.
  set (dx := rnd64 (xi - xj)) in *. set (dy := rnd64 (yi - yj)) in *.
  assert (HD : 0 <= distR xi yi xj yj) by apply sqrt_pos.
  assert (C0 : 0 <= codedR n ri rj).
  { destruct (coded_bounds n ri rj Hn Fi Fj Hi Hj) as (Hlo & _). cbv zeta in Hlo. pose proof u64_tiny.
    eapply Rle_trans; [|exact Hlo]. apply Rmult_le_pos; [nra|]. apply Rmult_le_pos; [apply IZR_le; lia|lra]. }
  unfold cplx_modR. destruct (Rlt_bool_spec (Rabs dy) (Rabs dx)) as [Hlt|Hge].
  - apply (real_overlap n ri rj dx dy (distR xi yi xj yj)); try assumption.
    + intro Z. rewrite Z, Rabs_R0 in Hlt. pose proof (Rabs_pos dy). lra.
    + lra.
  - destruct (Req_bool_spec dy 0) as [Hz|Hnz]; [exact C0|].
    apply (real_overlap n ri rj dy dx (distR xi yi xj yj)); try assumption.
    rewrite Rplus_comm. exact HH.
Qed.

Theorem ftouchR_separated : forall n ri rj xi yi xj yj,
  (1 <= n)%Z -> fmt ri -> fmt rj -> fmt xi -> fmt yi -> fmt xj -> fmt yj -> 0 <= ri -> 0 <= rj ->
  (bpow radix2 (-1022) <= Rabs (xi - xj) \/ bpow radix2 (-1022) <= Rabs (yi - yj)) ->
  IZR n * (ri + rj) * (1 + 8 * u64) < distR xi yi xj yj ->
  codedR n ri rj < cplx_modR (rnd64 (xi - xj)) (rnd64 (yi - yj)).
Proof.
  intros n ri rj xi yi xj yj Hn Fi Fj Fxi Fyi Fxj Fyj Hi Hj Hnorm Hsep.
  destruct (diff_modulus xi yi xj yj Fxi Fyi Fxj Fyj) as (HH & _). cbv zeta in HH.
  assert (Hmax : bpow radix2 (-1022) <= Rabs (rnd64 (xi - xj)) \/ bpow radix2 (-1022) <= Rabs (rnd64 (yi - yj))).
  { assert (G : forall t, bpow radix2 (-1022) <= Rabs t -> bpow radix2 (-1022) <= Rabs (rnd64 t)).
    { intros t Ht. unfold rnd64. apply abs_round_ge_generic; [typeclasses eauto|typeclasses eauto|apply fmt_bpow; lia|exact Ht]. }
    destruct Hnorm as [K|K]; [left|right]; apply G; exact K. }
  set (dx := rnd64 (xi - xj)) in *. set (dy := rnd64 (yi - yj)) in *.
  assert (HD : 0 <= distR xi yi xj yj) by apply sqrt_pos.
  pose proof (bpow_gt_0 radix2 (-1022)) as Hb.
  unfold cplx_modR. destruct (Rlt_bool_spec (Rabs dy) (Rabs dx)) as [Hlt|Hge].
  - apply (real_separated n ri rj dx dy (distR xi yi xj yj)); try assumption.
    + intro Z. rewrite Z, Rabs_R0 in Hlt. pose proof (Rabs_pos dy). lra.
    + lra.
    + destruct Hmax; lra.
  - assert (Hdy : bpow radix2 (-1022) <= Rabs dy) by (destruct Hmax; lra).
    destruct (Req_bool_spec dy 0) as [Hz|Hnz]; [rewrite Hz, Rabs_R0 in Hdy; lra|].
    apply (real_separated n ri rj dy dx (distR xi yi xj yj)); try assumption.
    rewrite Rplus_comm. exact HH.
Qed.
