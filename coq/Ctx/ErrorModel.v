(* C18: model of mps_error (system/input-output.c:620), definitions only.

     va_start (ap, format);
     s->error_state = true;
     if (s->last_error == NULL) s->last_error = mps_newv (char, buffer_size);      (buffer_size = 32)
     while ((missing = vsnprintf (s->last_error, buffer_size, format, ap)) > buffer_size)
       { buffer_size += missing + 1; s->last_error = mps_realloc (s->last_error, buffer_size); }
     va_end (ap);

   vsnprintf is abstract: it renders the format against the argument area starting at the cursor,
   stores at most size-1 characters, returns the full length, and ADVANCES the cursor (on x86-64
   System V a va_list is an array type: the callee consumes the caller's object).  What lies in the
   argument area after the arguments that were actually passed is arbitrary ([junk]).

   Variants:  Old = the code above;  Fixed = fixes/C18_mps_error.patch (va_copy per attempt, >=). *)
Require Import List String Arith Bool.
Import ListNotations.
Open Scope string_scope.

Inductive variant := Old | Fixed.

(* a format is a sequence of literal pieces and %s-like directives, each consuming one argument *)
Inductive piece := Lit (s : string) | Arg.
Definition format := list piece.

Fixpoint n_args (f : format) : nat :=
  match f with [] => 0 | Lit _ :: r => n_args r | Arg :: r => S (n_args r) end.

(* render the format reading arguments from position c of the argument area *)
Fixpoint render (f : format) (area : list string) (c : nat) : string :=
  match f with
  | [] => ""
  | Lit s :: r => s ++ render r area c
  | Arg :: r => nth c area "" ++ render r area (S c)
  end.

(* abstract vsnprintf (buf, size, fmt, ap): (stored text, full length, advanced cursor) *)
Definition vsnprintf (size : nat) (f : format) (area : list string) (c : nat) : string * nat * nat :=
  let full := render f area c in
  (substring 0 (size - 1) full, String.length full, c + n_args f).

Record ectx := mkE { error_state : bool; last_error : option string }.

(* the retry loop; [c] is the cursor of the caller's va_list *)
Fixpoint error_loop (v : variant) (fuel : nat) (size : nat) (f : format) (area : list string) (c : nat)
  : option string :=
  match fuel with
  | O => None                                   (* fuel exhausted: no claim *)
  | S k =>
      let '(stored, full_len, c') := vsnprintf size f area c in
      let again := match v with
                   | Old => Nat.ltb size full_len      (* missing_characters > buffer_size *)
                   | Fixed => Nat.leb size full_len   (* >= : the terminator needs a byte too *)
                   end in
      if again
      then error_loop v k (size + full_len + 1) f area (match v with Old => c' | Fixed => c end)
      else Some stored
  end.

Definition mps_error (v : variant) (fuel : nat) (e : ectx) (f : format) (args junk : list string) : ectx :=
  mkE true (match error_loop v fuel 32 f (args ++ junk)%list 0 with
            | Some t => Some t
            | None => e.(last_error)
            end).

(* the text the caller intended *)
Definition intended (f : format) (args : list string) : string := render f args 0.

(* ---- asynchronous solve: mps_mpsolve_async + mps_caller (common/interface.c:77,93) ---- *)
Inductive ev := EvSolveBegin | EvSolveEnd | EvCallback.

(* mps_caller: solve unless the flag is set; then the callback if there is one *)
Definition caller (err has_cb : bool) : list ev :=
  ((if err then [] else [EvSolveBegin; EvSolveEnd]) ++ (if has_cb then [EvCallback] else []))%list.

(* a private pool with one worker and one assigned task: the worker takes tasks from the queue
   until it is empty; each task is removed when taken *)
Fixpoint worker (queue : list (list ev)) : list ev :=
  match queue with [] => [] | t :: r => (t ++ worker r)%list end.

Definition mpsolve_async (err has_cb : bool) : list ev := worker [caller err has_cb].

Fixpoint count_cb (t : list ev) : nat :=
  match t with [] => 0 | EvCallback :: r => S (count_cb r) | _ :: r => count_cb r end.

(* no solver event after the callback *)
Fixpoint cb_last (t : list ev) : bool :=
  match t with
  | [] => true
  | EvCallback :: r => match r with [] => true | _ => false end
  | _ :: r => cb_last r
  end.
