(* C15: the rest of the context API that a user can interleave with solves, on top of the allocation
   bookkeeping of Ctx/ResizeModel.v (definitions only).

   The allocation part [b] is the state of ResizeModel run in its [Fixed] variant: /repo HEAD contains
   fixes/C15_resize_zero_roots, C15_parse_keeps_degree and C15_zero_roots_reset.  What is added here, branch by
   branch from /repo/src/libmps:

     common/context.c   mps_context_set_degree called DIRECTLY (it is public, include/mps/context.h:555):
                        helper secular equation freed and forgotten, resize, deg = n = n';
                        mps_context_set_output_prec / _format, mps_context_set_starting_phase,
                        mps_context_set_jacobi_iterations, _crude_approximation_mode, _avoid_multiprecision
                        (plain field writes), mps_context_get_over_max, mps_context_has_errors
     common/defaults.c  mps_set_default_values + mps_context_init: the values a new context starts with
     unisolve/main.c    mps_standard_mpsolve: :51 allocate, :60 lastphase = no_phase, :62 over_max = false, then
                        the numerical part, which may raise an error (:67, :77 "not available for this type of
                        polynomial" for the Chebyshev base) and decides lastphase / over_max
     secsolve/secular-ga.c  mps_secular_ga_mpsolve: helper, allocate, :194 lastphase = starting_phase ..., forced
                        exit before the loop (:409), mps_improve (:637) may SET over_max; nothing ever clears it
     common/interface.c mps_mpsolve / mps_caller: nothing runs when error_state is set

   Polynomial kinds: for the bookkeeping only MPS_IS_MONOMIAL_POLY matters (context.c:326).  [KMonomial] stands
   for every monomial polynomial built through the API (dense or sparse, integer / rational / floating point
   coefficients, inline parser), [KFileMonomial] for one read from .pol text; [KSecular] (secular equations) and
   [KChebyshev] (Chebyshev base) take the [else] branch (zero_roots := 0, no deflation).

   Not a valid call sequence, hence not an operation: mps_free_data followed by a new allocation.  mps_free_data
   and mps_allocate_data are MPS_PRIVATE (hidden visibility, include/mps/private/data.h); the only caller of
   mps_free_data is mps_context_free, which frees the context right after ([OFree] of ResizeModel).
   mps_context_resize has no prototype in the installed headers; it is reached through mps_context_set_degree.
   s->bmpc is never assigned anything but NULL in the whole library (context.c:146, defaults.c:114, data.c:243):
   the checked tie asserts that it stays NULL.

   The numerical part of a solve is data dependent: what it reports (final phase, whether the input precision
   was exhausted, whether it raised an error) is the [outcome] that comes with the operation.  The check takes it
   from the same solve on a FRESH context, so the model predicts what the reused context must show.

   Variants of this layer: [Old] = /repo today, [Fixed] = after fixes/C15_secular_over_max_reset.patch
   (mps_secular_ga_mpsolve clears over_max next to its other per-solve initialisations). *)
Require Import ZArith List Bool.
Require Import MPSV.Ctx.ResizeModel.
Import ListNotations.
Open Scope Z_scope.

Inductive phase := NoPhase | FloatPhase | DpePhase | MpPhase.       (* enum mps_phase *)

Record outcome := mkout {
  o_over : bool;       (* the numerical part ran out of input precision (main.c:207, improve.c:243) *)
  o_phase : phase;     (* the phase it ended in *)
  o_err : bool }.      (* it raised mps_error (standard algorithm only, see above) *)

Record wstate := mkw {
  b : state;                                      (* allocation bookkeeping, sticky flags, algorithm, goal *)
  oprec : Z; ofmt : Z; sphase : phase;            (* output_config->prec, ->format, input_config->starting_phase *)
  jac : bool; crude : bool; avoidmp : bool;       (* jacobi_iterations, crude_approximation_mode, avoid_multiprecision *)
  over : bool; lphase : phase }.                  (* over_max, lastphase: what a user reads after a solve *)

Inductive wop :=
| WNew | WFree
| WSetPoly (d z : Z) (k : pkind)
| WSetDegree (n' : Z)
| WAlgo (a : algo) | WGoal (g : goal)
| WPrec (p : Z) | WFormat (f : Z) | WStartPhase (ph : phase) | WJacobi (x : bool) | WCrude (x : bool) | WAvoidMp (x : bool)
| WSolve (oc : outcome) | WSolveAsync (oc : outcome)
| WGetRoots | WBad | WAbort | WFreePoly.

Definition set_b (w : wstate) (s : state) : wstate :=
  mkw s w.(oprec) w.(ofmt) w.(sphase) w.(jac) w.(crude) w.(avoidmp) w.(over) w.(lphase).

Definition set_res (w : wstate) (s : state) (ov : bool) (ph : phase) : wstate :=
  mkw s w.(oprec) w.(ofmt) w.(sphase) w.(jac) w.(crude) w.(avoidmp) ov ph.

(* context.c:98 (int)(0.9 * DBL_DIG * LOG2_10) = 44; defaults.c: format COMPACT = 0, starting_phase no_phase,
   jacobi / crude / avoid_multiprecision false, over_max false, lastphase no_phase *)
Definition default_w (s : state) : wstate := mkw s 44 0 NoPhase false false false false NoPhase.

Definition wempty : wstate := default_w empty_state.

Definition base (w : wstate) (o : op) : wstate * bool :=
  let r := step Fixed w.(b) o in (set_b w (fst r), snd r).

(* context.c:266 mps_context_set_degree called by the user.  The active polynomial is untouched; when its degree
   is not n' it no longer fits the context and solving it is not a valid call until the next set_input_poly. *)
Definition wset_degree (w : wstate) (n' : Z) : wstate * bool :=
  let s := w.(b) in
  let r := set_degree Fixed s n' s.(kind) in
  let s2 := fst r in
  (set_b w (mk s2.(ctx) s2.(init) s2.(n) s2.(deg) s2.(zr) s2.(alloc) s2.(live) s2.(sec) s2.(err) s2.(exitreq)
               s2.(alg) s2.(gl) (s.(have_poly) && (n' =? s.(n))) s2.(kind) s2.(cluster_clean) s2.(leaked) s2.(pools)),
   snd r).

Definition wsolve (v : variant) (w : wstate) (oc : outcome) (async : bool) : wstate * bool :=
  let s := w.(b) in
  if negb s.(have_poly) then (w, true)
  else
    let r := step Fixed s (if async then OSolveAsync else OSolve) in
    let s1 := fst r in
    if s.(err) then (set_b w s1, snd r)       (* interface.c:68, :78: nothing runs, every flag keeps its value *)
    else
      match s.(alg) with
      | AlgoU =>
          (* main.c:60,62 reset; then the numerical part decides *)
          (set_res w (with_flags s1 (s1.(err) || oc.(o_err)) s1.(exitreq)) oc.(o_over) oc.(o_phase), snd r)
      | AlgoS =>
          if s1.(err) then                    (* secular-ga.c:409 forced exit: over_max untouched *)
            (set_res w s1 w.(over) oc.(o_phase), snd r)
          else
            (set_res w s1 ((match v with Old => w.(over) | Fixed => false end) || oc.(o_over)) oc.(o_phase), snd r)
      end.

Definition wstep (v : variant) (w : wstate) (o : wop) : wstate * bool :=
  if negb w.(b).(ctx) then
    match o with
    | WNew => (default_w (fst (step Fixed w.(b) ONew)), true)
    | _ => (w, true)
    end
  else
    match o with
    | WNew => (w, true)
    | WFree => let r := step Fixed w.(b) OFree in (default_w (fst r), snd r)
    | WSetPoly d z k => base w (OSetPoly d z k)
    | WSetDegree n' => wset_degree w n'
    | WAlgo a => base w (OAlgo a)
    | WGoal g => base w (OGoal g)
    | WPrec p => (mkw w.(b) p w.(ofmt) w.(sphase) w.(jac) w.(crude) w.(avoidmp) w.(over) w.(lphase), true)
    | WFormat f => (mkw w.(b) w.(oprec) f w.(sphase) w.(jac) w.(crude) w.(avoidmp) w.(over) w.(lphase), true)
    | WStartPhase ph => (mkw w.(b) w.(oprec) w.(ofmt) ph w.(jac) w.(crude) w.(avoidmp) w.(over) w.(lphase), true)
    | WJacobi x => (mkw w.(b) w.(oprec) w.(ofmt) w.(sphase) x w.(crude) w.(avoidmp) w.(over) w.(lphase), true)
    | WCrude x => (mkw w.(b) w.(oprec) w.(ofmt) w.(sphase) w.(jac) x w.(avoidmp) w.(over) w.(lphase), true)
    | WAvoidMp x => (mkw w.(b) w.(oprec) w.(ofmt) w.(sphase) w.(jac) w.(crude) x w.(over) w.(lphase), true)
    | WSolve oc => wsolve v w oc false
    | WSolveAsync oc => wsolve v w oc true
    | WGetRoots => base w OGetRoots
    | WBad => base w OBad
    | WAbort => base w OAbort
    | WFreePoly => base w OFreePoly
    end.

Definition wrun_from (v : variant) (w : wstate) (ops : list wop) : wstate * bool :=
  fold_left (fun (acc : wstate * bool) o => let '(w1, ok) := wstep v (fst acc) o in (w1, snd acc && ok))
            ops (w, true).
Definition wrun (v : variant) (ops : list wop) : wstate * bool := wrun_from v wempty ops.

Definition wop_wf (o : wop) : Prop :=
  match o with
  | WSetPoly d z k => op_wf (OSetPoly d z k)
  | WSetDegree n' => 1 <= n'
  | _ => True
  end.

(* a secular solve that will be refused: abort pending and the input is a secular equation (secular-ga.c:409) *)
Definition forced (s : state) : bool :=
  match s.(alg), s.(kind) with AlgoS, KSecular => s.(exitreq) | _, _ => false end.

(* the settings a user chose: nothing but the matching setter (and new / free) may change them *)
Definition settings (w : wstate) := (w.(oprec), w.(ofmt), w.(sphase), w.(jac), w.(crude), w.(avoidmp), w.(b).(alg), w.(b).(gl)).
