(* C18: proofs about Ctx/ErrorModel.v *)
Require Import List String Arith Bool Lia.
Require Import MPSV.Ctx.ErrorModel.
Import ListNotations.
Open Scope string_scope.

Lemma substring_all : forall s n, String.length s <= n -> substring 0 n s = s.
Proof.
  induction s as [|a s IH]; intros n Hn; destruct n; simpl in *; try reflexivity; try lia.
  rewrite IH by lia. reflexivity.
Qed.

(* reading the passed arguments does not depend on what follows them *)
Lemma render_app : forall f args junk c, c + n_args f <= List.length args ->
  render f (args ++ junk)%list c = render f args c.
Proof.
  induction f as [|p r IH]; intros args junk c Hc; [reflexivity|].
  destruct p; simpl in *.
  - rewrite IH by lia. reflexivity.
  - rewrite IH by lia. rewrite app_nth1 by lia. reflexivity.
Qed.

Theorem error_message_faithful_fixed : forall fuel e f args junk,
  2 <= fuel -> n_args f <= List.length args ->
  (mps_error Fixed fuel e f args junk).(error_state) = true /\
  (mps_error Fixed fuel e f args junk).(last_error) = Some (intended f args).
Proof.
  intros fuel e f args junk Hfuel Hargs. split; [reflexivity|].
  unfold mps_error, intended. simpl last_error.
  rewrite <- (render_app f args junk 0) by lia.
  set (full := render f (args ++ junk)%list 0).
  destruct fuel as [|[|k]]; try lia.
  cbn [error_loop]. unfold vsnprintf. fold full.
  destruct (Nat.leb 32 (String.length full)) eqn:E1.
  - apply Nat.leb_le in E1.
    destruct (Nat.leb (32 + String.length full + 1) (String.length full)) eqn:E2.
    + apply Nat.leb_le in E2. lia.
    + rewrite substring_all by lia. reflexivity.
  - apply Nat.leb_gt in E1. rewrite substring_all by lia. reflexivity.
Qed.

(* the code as it is: a 32 character message loses its last character ... *)
Definition lit32 : format := [Lit "Degree must be a positive integ!"].
Theorem error_message_32_refuted :
  String.length (intended lit32 []) = 32 /\
  (mps_error Old 5 (mkE false None) lit32 [] []).(last_error) <> Some (intended lit32 []).
Proof. split; [reflexivity|]. vm_compute. intros X. discriminate X. Qed.

(* ... and a longer message with an argument is re-rendered from the advanced cursor *)
Definition fmt_open : format := [Lit "Error while opening file: "; Arg].
Definition long_path : string := "/nonexistent/directory/with/a/long/name.pol".
Theorem error_message_long_refuted :
  (mps_error Old 5 (mkE false None) fmt_open [long_path] ["JUNK"]).(last_error)
  = Some "Error while opening file: JUNK".
Proof. vm_compute. reflexivity. Qed.

Theorem error_message_faithful_refuted :
  exists f args junk, n_args f <= List.length args /\
    (mps_error Old 5 (mkE false None) f args junk).(last_error) <> Some (intended f args).
Proof.
  exists fmt_open, [long_path], ["JUNK"]. split; [simpl; lia|].
  rewrite error_message_long_refuted. vm_compute. intros X. discriminate X.
Qed.

(* asynchronous completion *)
Theorem async_callback_once : forall err,
  count_cb (mpsolve_async err true) = 1 /\ cb_last (mpsolve_async err true) = true /\
  (err = false -> mpsolve_async err true = [EvSolveBegin; EvSolveEnd; EvCallback]) /\
  (err = true -> mpsolve_async err true = [EvCallback]).
Proof. intros [|]; repeat split; try reflexivity; intros X; discriminate X. Qed.
