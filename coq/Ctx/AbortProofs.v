(* C18: proofs about the abort polling model (Ctx/AbortModel.v). *)
Require Import List Arith Bool Lia.
Require Import MPSV.Ctx.AbortModel.
Require MPSV.Total.SkelDefs MPSV.Total.SkelProofs.
Import ListNotations.

(* ------------------------------------------------------------------ lists of workers *)
Lemma sum_repeat f w n : sum f (repeat w n) = n * f w.
Proof. induction n; simpl; lia. Qed.

Lemma sum_upd f : forall l i p q, nth_error l i = Some p -> sum f (upd i q l) + f p = sum f l + f q.
Proof.
  induction l as [|a l IH]; intros [|i] p q H; simpl in *; try discriminate.
  - inversion H; subst. lia.
  - specialize (IH i p q H). lia.
Qed.

Lemma upd_length {A} (x : A) : forall l i, length (upd i x l) = length l.
Proof. induction l as [|a l IH]; intros [|i]; simpl; auto. Qed.

Lemma sum_le f b : (forall w, f w <= b) -> forall l, sum f l <= b * length l.
Proof. intros H l. induction l as [|a l IH]; simpl; [lia|]. specialize (H a). lia. Qed.

Lemma sum_all_done f : f WDone = 0 -> forall l, forallb wdone l = true -> sum f l = 0.
Proof.
  intros H0 l. induction l as [|a l IH]; simpl; auto. intros H. apply andb_prop in H. destruct H as [Ha Hl].
  destruct a; try discriminate. rewrite H0, IH; auto.
Qed.

Lemma forallb_repeat_done n : forallb wdone (repeat WDone n) = true.
Proof. induction n; simpl; auto. Qed.

(* ------------------------------------------------------------------ the flag stays set; improve is not entered *)
Definition live (s : state) : Prop := flag s = true /\ pc s <> DImprove.

Ltac inv_some :=
  repeat match goal with
         | H : Some _ = Some _ |- _ => inversion H; clear H; subst
         | H : None = Some _ |- _ => discriminate H
         end.

(* case analysis of one driver step: all the tests the step function performs *)
Ltac dcases H :=
  unfold dstep, poll_exit, fail in H; cbn [pc flag err jr skip ws copied] in H; cbv beta iota in H;
  repeat (match type of H with
          | context [match ?x with _ => _ end] => destruct x eqn:?
          end; cbv beta iota in H).

Lemma wstep_inv s w o s' e :
  wstep s w o = Some (s', e) ->
  exists p p', nth_error (ws s) w = Some p /\ s' = set_ws s (upd w p' (ws s)) /\
    ((p = WPoll /\ p' = (if flag s then WDone else WNext) /\ e = EvPoll 29 (flag s)) \/
     (p = WNext /\ ((p' = WDone /\ e = EvNext false) \/ (exists i, p' = WLock i /\ e = EvNext true))) \/
     (exists i, p = WLock i /\ p' = WCrit i /\ e = EvLock i /\ existsb (holds i) (ws s) = false) \/
     (exists i b, p = WCrit i /\ (p' = WDone \/ p' = WPoll) /\ e = EvCrit i b)).
Proof.
  unfold wstep. destruct (nth_error (ws s) w) as [p|] eqn:E; [|discriminate].
  intros H. exists p.
  destruct p as [| |i|i|].
  - inv_some. eexists. split; [reflexivity|]. split; [reflexivity|]. left. auto.
  - destruct o; inv_some; eexists; (split; [reflexivity|]); (split; [reflexivity|]); right; left; (split; [reflexivity|]).
    + left. auto.
    + right. eauto.
  - destruct (existsb (holds i) (ws s)) eqn:X; [discriminate|]. inv_some. eexists. split; [reflexivity|]. split; [reflexivity|].
    right; right; left. exists i. auto.
  - destruct o as [|[|[|o]]]; inv_some; eexists; (split; [reflexivity|]); (split; [reflexivity|]);
      right; right; right; exists i; eexists; (split; [reflexivity|]); (split; [|reflexivity]); auto.
  - discriminate.
Qed.

Lemma live_step c s t o s' e : live s -> step c s t o = Some (s', e) -> live s'.
Proof.
  intros [Hf Hp] H. destruct t as [| |w]; simpl in H.
  - inv_some. split; auto.
  - destruct s as [f er cp p j sk l]. simpl in *. subst f.
    destruct p; try congruence; dcases H; inv_some; simpl; split; auto; discriminate.
  - apply wstep_inv in H. destruct H as (p & p' & _ & -> & _). split; auto.
Qed.

(* ------------------------------------------------------------------ potentials along runs *)
Section Potential.
  Variable c : config.
  Variable phi : state -> nat.
  Variable cost : tid -> event -> nat.
  Hypothesis dec : forall s t o s' e, live s -> step c s t o = Some (s', e) -> phi s' + cost t e <= phi s.

  Fixpoint total (l : list (tid * nat)) (es : list event) : nat :=
    match l, es with
    | (t, _) :: l', e :: es' => cost t e + total l' es'
    | _, _ => 0
    end.

  Lemma pot_run : forall l s s' es, live s -> run c s l = Some (s', es) -> phi s' + total l es <= phi s /\ live s'.
  Proof.
    induction l as [|[t o] l IH]; intros s s' es L H; simpl in H.
    - inv_some. simpl. split; [lia|auto].
    - destruct (step c s t o) as [[s1 e]|] eqn:E; [|discriminate].
      destruct (run c s1 l) as [[s2 es2]|] eqn:R; [|discriminate]. inv_some.
      pose proof (dec _ _ _ _ _ L E). pose proof (live_step _ _ _ _ _ _ L E) as L1.
      destruct (IH _ _ _ L1 R). simpl. split; [lia|auto].
  Qed.
End Potential.

Lemma total_steps c : forall l s s' es, run c s l = Some (s', es) ->
  total (fun t (_ : event) => if solver t then 1 else 0) l es = solver_steps l.
Proof.
  induction l as [|[t o] l IH]; intros s s' es H; simpl in H; [inv_some; reflexivity|].
  destruct (step c s t o) as [[s1 e]|]; [|discriminate]. destruct (run c s1 l) as [[s2 es2]|] eqn:R; [|discriminate].
  inv_some. simpl. unfold solver_steps in *. simpl. rewrite (IH _ _ _ R). destruct (solver t); reflexivity.
Qed.

Lemma total_count c (f : event -> bool) : forall l s s' es, run c s l = Some (s', es) ->
  total (fun (_ : tid) e => if f e then 1 else 0) l es = count f es.
Proof.
  induction l as [|[t o] l IH]; intros s s' es H; simpl in H; [inv_some; reflexivity|].
  destruct (step c s t o) as [[s1 e]|]; [|discriminate]. destruct (run c s1 l) as [[s2 es2]|] eqn:R; [|discriminate].
  inv_some. simpl. unfold count in *. simpl. rewrite (IH _ _ _ R). destruct (f e); reflexivity.
Qed.

(* ------------------------------------------------------------------ the four potentials decrease *)
Ltac wsolve H :=
  apply wstep_inv in H; destruct H as (p & p' & N & -> & C); simpl;
  match goal with
  | |- context [sum ?f (upd ?w p' ?l)] => pose proof (sum_upd f l w p p' N)
  end;
  repeat match goal with
         | C : _ \/ _ |- _ => destruct C
         | C : _ /\ _ |- _ => destruct C
         | C : exists _, _ |- _ => destruct C
         end; subst; simpl in *;
  repeat match goal with H : flag _ = true |- _ => rewrite H in *; clear H end; simpl in *; try lia.

Lemma rank_dec c s t o s' e : live s -> step c s t o = Some (s', e) ->
  rank c s' + (if solver t then 1 else 0) <= rank c s.
Proof.
  intros [Hf Hp] H. destruct t as [| |w]; simpl in H.
  - inv_some. unfold rank. simpl. lia.
  - unfold rank. destruct s as [f er cp p j sk l]. simpl in *. subst f.
    destruct p; try congruence; dcases H; inv_some; simpl; rewrite ?sum_repeat; simpl; lia.
  - unfold rank. wsolve H.
Qed.

Lemma newton_dec c s t o s' e : live s -> step c s t o = Some (s', e) ->
  sum wnewton (ws s') + (if is_newton e then 1 else 0) <= sum wnewton (ws s).
Proof.
  intros [Hf Hp] H. destruct t as [| |w]; simpl in H.
  - inv_some. simpl. lia.
  - destruct s as [f er cp p j sk l]. simpl in *. subst f.
    destruct p; try congruence; dcases H; inv_some; simpl; rewrite ?sum_repeat; simpl; lia.
  - wsolve H. destruct x0; simpl; lia. destruct x0; simpl; lia.
Qed.

Lemma packets_dec c s t o s' e : live s -> step c s t o = Some (s', e) ->
  dpackets (pc s') + (if is_packet e then 1 else 0) <= dpackets (pc s).
Proof.
  intros [Hf Hp] H. destruct t as [| |w]; simpl in H.
  - inv_some. simpl. lia.
  - destruct s as [f er cp p j sk l]. simpl in *. subst f.
    destruct p; try congruence; dcases H; inv_some; simpl; lia.
  - apply wstep_inv in H. destruct H as (p & p' & N & -> & C). simpl.
    repeat match goal with
           | C : _ \/ _ |- _ => destruct C
           | C : _ /\ _ |- _ => destruct C
           | C : exists _, _ |- _ => destruct C
           end; subst; simpl; lia.
Qed.

Lemma regens_dec c s t o s' e : live s -> step c s t o = Some (s', e) ->
  dregens (pc s') + (if is_regen e then 1 else 0) <= dregens (pc s).
Proof.
  intros [Hf Hp] H. destruct t as [| |w]; simpl in H.
  - inv_some. simpl. lia.
  - destruct s as [f er cp p j sk l]. simpl in *. subst f.
    destruct p; try congruence; dcases H; inv_some; simpl; lia.
  - apply wstep_inv in H. destruct H as (p & p' & N & -> & C). simpl.
    repeat match goal with
           | C : _ \/ _ |- _ => destruct C
           | C : _ /\ _ |- _ => destruct C
           | C : exists _, _ |- _ => destruct C
           end; subst; simpl; lia.
Qed.

(* ------------------------------------------------------------------ reachable states *)
Definition waiting (p : dpc) : bool := match p with DWait1 | DWait2 => true | _ => false end.
Definition inv (c : config) (s : state) : Prop :=
  length (ws s) = nthreads c /\ (waiting (pc s) = false -> forallb wdone (ws s) = true) /\
  (err s <> ENone \/ copied s = true \/ match pc s with DRet | DPoll623 | DImprove | DUpdate => False | _ => True end).

Lemma inv_init c : inv c (init c).
Proof. unfold inv, init. simpl. rewrite repeat_length, forallb_repeat_done. auto. Qed.

Lemma nth_error_done l : forallb wdone l = true -> forall w p, nth_error l w = Some p -> p = WDone.
Proof.
  induction l as [|a l IH]; intros H [|w] p E; simpl in *; try discriminate; apply andb_prop in H; destruct H as [Ha Hl].
  - inversion E; subst. destruct p; try discriminate. reflexivity.
  - eauto.
Qed.

Lemma inv_step c s t o s' e : inv c s -> step c s t o = Some (s', e) -> inv c s'.
Proof.
  intros (HL & HW & HE) H. destruct t as [| |w]; simpl in H.
  - inv_some. unfold inv. simpl. auto.
  - destruct s as [f er cp p j sk l]. unfold inv in *. simpl in *.
    destruct p; dcases H; inv_some; simpl in *;
      rewrite ?repeat_length; (split; [auto|split; [auto; try discriminate|]]);
      try solve [right; right; exact I]; try solve [left; discriminate]; try solve [right; left; reflexivity];
      try solve [intuition congruence].
  - pose proof H as H0. apply wstep_inv in H. destruct H as (p & p' & N & -> & C). unfold inv in *. simpl.
    rewrite upd_length. split; [auto|]. split; [|exact HE].
    intros Wt. specialize (HW Wt). pose proof (nth_error_done _ HW _ _ N). subst p.
    repeat match goal with
           | C : _ \/ _ |- _ => destruct C
           | C : _ /\ _ |- _ => destruct C
           | C : exists _, _ |- _ => destruct C
           end; discriminate.
Qed.

Lemma inv_run c : forall l s s' es, inv c s -> run c s l = Some (s', es) -> inv c s'.
Proof.
  induction l as [|[t o] l IH]; intros s s' es I H; simpl in H; [inv_some; auto|].
  destruct (step c s t o) as [[s1 e]|] eqn:E; [|discriminate]. destruct (run c s1 l) as [[s2 es2]|] eqn:R; [|discriminate].
  inv_some. eapply IH; [|exact R]. eapply inv_step; eauto.
Qed.

Lemma rank_reachable c s : inv c s -> pc s <> DImprove -> rank c s <= 5 * nthreads c + 7.
Proof.
  intros (HL & HW & _) Hp. unfold rank.
  destruct (waiting (pc s)) eqn:W.
  - pose proof (sum_le wrank 4 (fun w => ltac:(destruct w; simpl; lia)) (ws s)). rewrite HL in *.
    destruct (pc s); try discriminate; simpl; lia.
  - rewrite (sum_all_done wrank eq_refl _ (HW eq_refl)). destruct (pc s); try discriminate; try congruence; simpl; lia.
Qed.

(* ------------------------------------------------------------------ the theorems *)
(* once the flag is set (before mps_improve), whatever the threads and the oracle do *)
Theorem abort_steps_bounded c l0 s es0 l s' es :
  run c (init c) l0 = Some (s, es0) ->              (* s is reachable ... *)
  flag s = true -> pc s <> DImprove ->              (* ... the abort request has been made, improve not entered *)
  run c s l = Some (s', es) ->
  solver_steps l <= 5 * nthreads c + 7 /\
  count is_newton es <= nthreads c /\
  count is_packet es <= 2 /\
  count is_regen es <= 2 /\
  flag s' = true /\ pc s' <> DImprove.
Proof.
  intros R0 Hf Hp R. pose proof (inv_run _ _ _ _ _ (inv_init c) R0) as I.
  assert (L : live s) by (split; auto).
  pose proof (pot_run c (rank c) (fun t _ => if solver t then 1 else 0) (rank_dec c) _ _ _ _ L R) as [A1 L'].
  pose proof (pot_run c (fun s => sum wnewton (ws s)) (fun _ e => if is_newton e then 1 else 0) (newton_dec c) _ _ _ _ L R) as [A2 _].
  pose proof (pot_run c (fun s => dpackets (pc s)) (fun _ e => if is_packet e then 1 else 0) (packets_dec c) _ _ _ _ L R) as [A3 _].
  pose proof (pot_run c (fun s => dregens (pc s)) (fun _ e => if is_regen e then 1 else 0) (regens_dec c) _ _ _ _ L R) as [A4 _].
  rewrite (total_steps _ _ _ _ _ R) in A1. rewrite (total_count _ _ _ _ _ _ R) in A2. rewrite (total_count _ _ _ _ _ _ R) in A3.
  rewrite (total_count _ _ _ _ _ _ R) in A4.
  pose proof (rank_reachable c s I Hp).
  pose proof (sum_le wnewton 1 (fun w => ltac:(destruct w; simpl; lia)) (ws s)) as N. destruct I as (HL & _). rewrite HL in N.
  assert (dpackets (pc s) <= 2) by (destruct (pc s); simpl; lia).
  assert (dregens (pc s) <= 2) by (destruct (pc s); simpl; lia).
  destruct L'. repeat split; auto; lia.
Qed.

(* the per-state form: the steps still to come are bounded by the rank of the state, for every state *)
Theorem abort_steps_le_rank c s l s' es :
  flag s = true -> pc s <> DImprove -> run c s l = Some (s', es) -> solver_steps l + rank c s' <= rank c s.
Proof.
  intros Hf Hp R. assert (L : live s) by (split; auto).
  pose proof (pot_run c (rank c) (fun t _ => if solver t then 1 else 0) (rank_dec c) _ _ _ _ L R) as [A1 _].
  rewrite (total_steps _ _ _ _ _ R) in A1. lia.
Qed.

(* no thread is ever stuck: while the solve has not returned, some solver thread can take a step (for every
   oracle value); a worker blocked on roots_mutex[i] waits for a worker that is inside the locked region, and
   that one can step; the driver blocked in the wait has a worker that has not finished *)
Lemma existsb_holds_nth i : forall l, existsb (holds i) l = true -> exists j, nth_error l j = Some (WCrit i).
Proof.
  induction l as [|a l IH]; simpl; [discriminate|]. intros H. apply orb_prop in H. destruct H as [H|H].
  - exists 0. destruct a; try discriminate. simpl in H. apply Nat.eqb_eq in H. subst. reflexivity.
  - destruct (IH H) as [j E]. exists (S j). exact E.
Qed.

Lemma forallb_done_false : forall l, forallb wdone l = false -> exists j p, nth_error l j = Some p /\ p <> WDone.
Proof.
  induction l as [|a l IH]; simpl; [discriminate|]. intros H. apply andb_false_iff in H. destruct H as [H|H].
  - exists 0, a. split; auto. intros ->. discriminate.
  - destruct (IH H) as (j & p & E & N). exists (S j), p. auto.
Qed.

Lemma worker_enabled_or_waits s j p : nth_error (ws s) j = Some p -> p <> WDone ->
  (forall o, wstep s j o <> None) \/ (exists i j', p = WLock i /\ nth_error (ws s) j' = Some (WCrit i) /\ forall o, wstep s j' o <> None).
Proof.
  intros E N. destruct p as [| |i|i|]; try congruence.
  - left. intros o. unfold wstep. rewrite E. discriminate.
  - left. intros o. unfold wstep. rewrite E. destruct o; discriminate.
  - destruct (existsb (holds i) (ws s)) eqn:X.
    + right. destruct (existsb_holds_nth _ _ X) as [j' E']. exists i, j'. repeat split; auto.
      intros o. unfold wstep. rewrite E'. destruct o as [|[|[|o]]]; discriminate.
    + left. intros o. unfold wstep. rewrite E, X. discriminate.
  - left. intros o. unfold wstep. rewrite E. destruct o as [|[|[|o]]]; discriminate.
Qed.

Theorem abort_no_thread_stuck c s :
  terminated s = false ->
  exists t, solver t = true /\ forall o, step c s t o <> None.
Proof.
  intros T. destruct (forallb wdone (ws s)) eqn:D.
  - exists TDriver. split; auto. intros o. simpl. unfold terminated in T.
    destruct s as [f er cp p j sk l]. simpl in *. unfold dstep, poll_exit. simpl. rewrite ?D.
    destruct p; try discriminate; simpl;
      repeat match goal with |- context [match ?x with _ => _ end] => destruct x end; discriminate.
  - destruct (forallb_done_false _ D) as (j & p & E & N).
    destruct (worker_enabled_or_waits s j p E N) as [H|(i & j' & _ & _ & H)].
    + exists (TWorker j). split; auto.
    + exists (TWorker j'). split; auto.
Qed.

(* how it ends: with the error flag set, or through the cleanup with the roots copied *)
Theorem abort_good_end c l s es : run c (init c) l = Some (s, es) -> terminated s = true -> good_end s.
Proof.
  intros R T. pose proof (inv_run _ _ _ _ _ (inv_init c) R) as (_ & _ & E). unfold good_end, terminated in *.
  destruct (pc s); try discriminate. tauto.
Qed.

(* an abort request that is made before the first read at or after the packet makes the solve end with an error or
   through the cleanup; the cap error is excluded when the request precedes the poll :465 of that iteration:
   stated as: a poll that reads true is followed by the return with "Exit forced" or by the cleanup *)
Lemma poll_true_ends c s o s' line : step c s TDriver o = Some (s', EvPoll line true) ->
  (pc s' = DRet /\ err s' = EExit) \/ pc s' = DCleanup \/ (line = 623 /\ pc s' = DRet).
Proof.
  simpl. intros H. destruct s as [f er cp p j sk l]. simpl in *.
  destruct p; dcases H; inv_some; simpl; auto.
Qed.

(* ------------------------------------------------------------------ refutations *)
(* mps_improve never reads the flag: with the flag set it goes on for as long as the numerics want *)
Definition cfg_approx (k : nat) : config :=
  {| nthreads := k; secular_input := true; jacobi := false; avoid_mp := false; crude := false; goal_approx := true |}.
Definition in_improve (k : nat) : state := mkS true ENone true DImprove false false (repeat WDone k).

Theorem improve_ignores_abort k n :
  run (cfg_approx k) (in_improve k) (repeat (TDriver, 1) n) = Some (in_improve k, repeat EvImprove n) /\
  solver_steps (repeat (TDriver, 1) n) = n /\ terminated (in_improve k) = false /\ flag (in_improve k) = true.
Proof.
  repeat split; auto.
  - induction n; simpl; auto. simpl in IHn. rewrite IHn. reflexivity.
  - unfold solver_steps. induction n; simpl; auto.
Qed.

(* the improve state is reached by a solve on which no abort was requested, and an abort made there is never seen *)
Definition path_to_improve : list (tid * nat) :=
  [(TDriver, 1); (TDriver, 1); (TDriver, 0); (TDriver, 0);
   (TWorker 0, 0); (TWorker 0, 0); (TDriver, 1); (TDriver, 0); (TDriver, 1); (TDriver, 0);
   (TDriver, 0); (TDriver, 0); (TAbort, 0)].

(* the classic driver: C03's skeleton of mps_standard_mpsolve has no read of exit_required; paired with the flag
   it never terminates under the adversary oracle although the flag is set from the start *)
Theorem classic_ignores_abort c g :
  SkelDefs.in_prec g = 0 -> SkelDefs.cgoal g = SkelDefs.Approximate -> SkelDefs.resume g = false ->
  forall k, let r := SkelDefs.run _ (classic_step c g) classic_terminal k SkelDefs.adversary 0 (true, SkelDefs.uinit) in
            fst r = true /\ classic_terminal r = false.
Proof.
  intros Hp Hg Hr k.
  assert (E : forall k t s, SkelDefs.run _ (classic_step c g) classic_terminal k SkelDefs.adversary t (true, s)
                            = (true, SkelDefs.run _ (SkelDefs.ustep c g) SkelDefs.uterminal k SkelDefs.adversary t s)).
  { induction k0 as [|k0 IH]; intros t s; simpl; auto. unfold classic_terminal at 1. simpl.
    destruct (SkelDefs.uterminal s); auto. unfold classic_step at 2. simpl. apply IH. }
  simpl. rewrite E. simpl. split; auto. unfold classic_terminal. simpl.
  apply SkelProofs.unisolve_exact_approximate_unbounded; auto.
Qed.
