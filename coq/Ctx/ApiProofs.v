(* C15: proofs about the widened context API of Ctx/ApiModel.v *)
Require Import ZArith List Bool Lia ZifyBool.
Require Import MPSV.Ctx.ResizeModel MPSV.Ctx.ResizeProofs MPSV.Ctx.ApiModel.
Import ListNotations.
Open Scope Z_scope.

Definition WInv (w : wstate) : Prop := Inv w.(b).

Lemma WInv_empty : WInv wempty.
Proof. exact Inv_empty. Qed.

(* ---------- what a solve of the base model leaves in the fields that are not memory ---------- *)

Lemma solve_prepare_rest : forall s, exists i sc cc,
  rest (fst (solve_prepare s)) =
  (ctx s, i, n s, deg s, zr s, sc, err s, exitreq s, alg s, gl s, have_poly s, kind s, cc, pools s).
Proof.
  intros s. unfold solve_prepare. destruct (init s).
  - do 3 eexists. unfold rest. cbn. reflexivity.
  - pose proof (exec_mops_rest (allocate_mops s) s) as Hr.
    destruct (exec_mops s (allocate_mops s)) as [s1 ok1]. cbn [fst] in Hr.
    unfold rest in Hr. injection Hr as Hc Hin Hn Hdg Hz Hs He Hx Ha Hg Hp Hk Hcc Hpl.
    do 3 eexists. unfold rest. cbn. rewrite Hc, Hn, Hdg, Hz, He, Hx, Ha, Hg, Hp, Hk, Hpl. reflexivity.
Qed.

Lemma solve_rest : forall s, have_poly s = true -> err s = false -> exists i sc cc,
  rest (fst (solve s)) =
  (ctx s, i, n s, deg s, zr s, sc, forced s, exitreq s,
   alg s, gl s, true, kind s, cc, pools s).
Proof.
  intros s Hp He. unfold solve. rewrite Hp, He. cbn [negb].
  destruct (solve_prepare_rest s) as (i & sc & cc & Hr).
  destruct (solve_prepare s) as [s1 ok1]. cbn [fst] in Hr.
  unfold rest in Hr. injection Hr as Hc1 Hi1 Hn1 Hdg1 Hz1 Hs1 He1 Hx1 Ha1 Hg1 Hp1 Hk1 Hcc1 Hpl1.
  assert (T : exists i' sc' cc',
             rest (fst (let '(s2, ok2) := exec_mops s1 (touch_mops s1) in (with_solve s2 true (sec s2) false, ok1 && ok2))) =
             (ctx s, i', n s, deg s, zr s, sc', false, exitreq s, alg s, gl s, true, kind s, cc', pools s)).
  { pose proof (exec_mops_rest (touch_mops s1) s1) as Hr2.
    destruct (exec_mops s1 (touch_mops s1)) as [s2 ok2]. cbn [fst] in Hr2.
    unfold rest in Hr2. injection Hr2 as Hc2 Hi2 Hn2 Hdg2 Hz2 Hs2 He2 Hx2 Ha2 Hg2 Hp2 Hk2 Hcc2 Hpl2.
    do 3 eexists. unfold rest. cbn.
    rewrite Hc2, Hn2, Hdg2, Hz2, He2, Hx2, Ha2, Hg2, Hp2, Hk2, Hpl2.
    rewrite Hc1, Hn1, Hdg1, Hz1, He1, Hx1, Ha1, Hg1, Hp1, Hk1, Hpl1, He, Hp. reflexivity. }
  unfold forced. destruct (alg s) eqn:Ea; rewrite Ha1.
  - exact T.
  - destruct (exitreq s) eqn:Ex; rewrite Hx1.
    + rewrite Hk1. destruct (kind s) eqn:Ek; try exact T.
      do 3 eexists. unfold rest. cbn. rewrite Hc1, Hn1, Hdg1, Hz1, Ha1, Hg1, Hp1, Hk1, Hpl1, Hp. reflexivity.
    + destruct (kind s); exact T.
Qed.

(* the same for the step of the base model that a wide solve runs *)
Lemma solve_step_rest : forall s (async : bool), ctx s = true -> have_poly s = true -> err s = false -> exists i sc cc,
  rest (fst (step Fixed s (if async then OSolveAsync else OSolve))) =
  (true, i, n s, deg s, zr s, sc, forced s, exitreq s,
   alg s, gl s, true, kind s, cc, pools s + (if async then 1 else 0)).
Proof.
  intros s async Hc Hp He. destruct async; unfold step; rewrite Hc; cbn [negb].
  - rewrite Hp. destruct (solve_rest (add_pool s) Hp He) as (i & sc & cc & Hr).
    do 3 eexists. rewrite Hr. unfold forced. cbn. rewrite Hc. reflexivity.
  - destruct (solve_rest s Hp He) as (i & sc & cc & Hr).
    do 3 eexists. rewrite Hr. rewrite Hc. replace (pools s + 0) with (pools s) by lia. reflexivity.
Qed.

(* ---------- every wide operation keeps the invariant of the allocation model ---------- *)

Lemma base_inv : forall w o, WInv w -> op_wf o ->
  snd (base w o) = true /\ WInv (fst (base w o)).
Proof. intros w o HI Hwf. unfold base, WInv. cbn. apply step_fixed; assumption. Qed.

Lemma wset_degree_inv : forall w n', WInv w -> 1 <= n' ->
  snd (wset_degree w n') = true /\ WInv (fst (wset_degree w n')).
Proof.
  intros w n' [HI0 _] Hn. unfold wset_degree, WInv. cbn [fst snd b set_b].
  destruct (set_degree_fixed (b w) n' (kind (b w)) HI0 Hn) as (Hok & HI2 & Hr).
  split; [exact Hok|].
  unfold poly_rest, rest in Hr. injection Hr as _ _ _ _ _ _ _ _ _ _ Hp2 _ _ _.
  apply (Inv_same_mem (fst (set_degree Fixed (b w) n' (kind (b w))))); try exact HI2; try reflexivity.
  intros _. exact Hp2.
Qed.

Lemma wsolve_inv : forall v w oc async, WInv w -> ctx (b w) = true ->
  snd (wsolve v w oc async) = true /\ WInv (fst (wsolve v w oc async)).
Proof.
  intros v w oc async HI Hc. unfold wsolve.
  destruct (have_poly (b w)) eqn:Hp; cbn [negb]; [|split; [reflexivity | exact HI]].
  assert (Hs : snd (step Fixed (b w) (if async then OSolveAsync else OSolve)) = true /\
               Inv (fst (step Fixed (b w) (if async then OSolveAsync else OSolve)))).
  { apply step_fixed; [exact HI | destruct async; exact Logic.I]. }
  destruct Hs as [Hok HI1].
  destruct (err (b w)) eqn:He; [split; [exact Hok | exact HI1]|].
  destruct (alg (b w)).
  - split; [exact Hok|]. unfold WInv. cbn [fst b set_res].
    apply (Inv_same_mem (fst (step Fixed (b w) (if async then OSolveAsync else OSolve)))); try exact HI1; try reflexivity.
    cbn. auto.
  - destruct (err (fst (step Fixed (b w) (if async then OSolveAsync else OSolve)))); (split; [exact Hok | exact HI1]).
Qed.

Lemma default_inv : forall s, Inv s -> WInv (default_w s).
Proof. intros s H. exact H. Qed.

Lemma wstep_inv : forall v w o, WInv w -> wop_wf o ->
  snd (wstep v w o) = true /\ WInv (fst (wstep v w o)).
Proof.
  intros v w o HI Hwf. unfold wstep. destruct (ctx (b w)) eqn:Hc; cbn [negb].
  2:{ destruct o; try (split; [reflexivity | exact HI]).
      split; [reflexivity|]. apply default_inv. apply step_fixed; [exact HI | exact Logic.I]. }
  destruct o; try (split; [reflexivity | exact HI]).
  - destruct (step_fixed (b w) OFree HI Logic.I) as [A B]. split; [exact A | apply default_inv; exact B].
  - apply base_inv; assumption.
  - apply wset_degree_inv; assumption.
  - apply base_inv; [assumption | exact Logic.I].
  - apply base_inv; [assumption | exact Logic.I].
  - apply wsolve_inv; assumption.
  - apply wsolve_inv; assumption.
  - apply base_inv; [assumption | exact Logic.I].
  - apply base_inv; [assumption | exact Logic.I].
  - apply base_inv; [assumption | exact Logic.I].
  - apply base_inv; [assumption | exact Logic.I].
Qed.

Lemma wrun_from_inv : forall v ops w ok, WInv w -> Forall wop_wf ops ->
  snd (fold_left (fun (acc : wstate * bool) o => let '(w1, ok1) := wstep v (fst acc) o in (w1, snd acc && ok1)) ops (w, ok)) = ok /\
  WInv (fst (fold_left (fun (acc : wstate * bool) o => let '(w1, ok1) := wstep v (fst acc) o in (w1, snd acc && ok1)) ops (w, ok))).
Proof.
  intros v. induction ops as [|o r IH]; intros w ok HI Hwf; [split; [reflexivity | exact HI]|].
  inversion Hwf as [|? ? Ho Hr]; subst. cbn [fold_left fst snd].
  destruct (wstep_inv v w o HI Ho) as [Hok HI1].
  destruct (wstep v w o) as [w1 ok1]. cbn [fst snd] in *. subst ok1.
  rewrite andb_true_r. apply IH; assumption.
Qed.

Lemma wrun_inv : forall v ops, Forall wop_wf ops -> WInv (fst (wrun v ops)).
Proof. intros v ops H. apply (wrun_from_inv v ops wempty true WInv_empty H). Qed.

Theorem wide_accesses_in_bounds : forall v ops, Forall wop_wf ops ->
  snd (wrun v ops) = true /\ (fst (wrun v ops)).(b).(leaked) = false.
Proof.
  intros v ops Hwf. unfold wrun, wrun_from.
  destruct (wrun_from_inv v ops wempty true WInv_empty Hwf) as [A B].
  split; [exact A|]. destruct B as [(Hd & _) _]. apply Hd.
Qed.

Lemma wrun_from_snoc : forall v ops w o,
  fst (wrun_from v w (ops ++ [o])) = fst (wstep v (fst (wrun_from v w ops)) o).
Proof.
  intros v ops w o. unfold wrun_from. rewrite fold_left_app. cbn [fold_left].
  destruct (wstep v _ o). reflexivity.
Qed.

Lemma wfree_state : forall v w, exists s, fst (wstep v w WFree) = set_b (fst (wstep v w WFree)) s /\
  (ctx (b w) = true -> fst (wstep v w WFree) = default_w (fst (step Fixed (b w) OFree))).
Proof.
  intros v w. exists (b (fst (wstep v w WFree))). split; [destruct (fst (wstep v w WFree)); reflexivity|].
  intros Hc. unfold wstep. rewrite Hc. reflexivity.
Qed.

(* free releases every array; no object was dropped on the way, whatever was interleaved *)
Theorem wide_release : forall v ops, Forall wop_wf ops ->
  released (fst (wrun v (ops ++ [WFree]))).(b).
Proof.
  intros v ops Hwf. unfold wrun. rewrite wrun_from_snoc.
  pose proof (wrun_inv v ops Hwf) as HI. unfold wrun in HI.
  set (w := fst (wrun_from v wempty ops)) in *. clearbody w.
  unfold wstep. destruct (ctx (b w)) eqn:Hc; cbn [negb fst].
  - cbn [default_w b].
    destruct (step_fixed (b w) OFree HI Logic.I) as [_ HI1].
    assert (Ei : init (fst (step Fixed (b w) OFree)) = false).
    { unfold step. rewrite Hc. cbn [negb]. destruct (init (b w)); [destruct (exec_mops _ _)|]; reflexivity. }
    destruct HI1 as [(Hd & _) _]. unfold shape in Hd. rewrite Ei in Hd. destruct Hd as [A _ C].
    split; [exact A | exact C].
  - destruct HI as [(Hd & _ & _ & Hcx) _]. unfold shape in Hd. rewrite (Hcx Hc) in Hd. destruct Hd as [A _ C].
    split; [exact A | exact C].
Qed.

(* ---------- the helper secular equation: when present it has the size of the current degree ---------- *)

Definition HelperOK (s : state) : Prop := forall m, s.(sec) = Some m -> m = s.(n).

Lemma helper_set_degree : forall s m k, Inv0 s -> 1 <= m -> HelperOK (fst (set_degree Fixed s m k)).
Proof.
  intros s m k HI Hm. destruct (set_degree_fixed s m k HI Hm) as (_ & _ & Hr).
  unfold poly_rest, rest in Hr. injection Hr as _ _ _ _ _ Hs _ _ _ _ _ _ _ _.
  intros x Hx. rewrite Hs in Hx. discriminate Hx.
Qed.

Lemma helper_set_poly : forall s d z k, Inv s -> op_wf (OSetPoly d z k) -> HelperOK (fst (set_poly Fixed s d z k)).
Proof.
  intros s d z k HI Hwf. destruct (set_poly_fixed s d z k HI Hwf) as (_ & _ & Hr).
  unfold poly_rest, rest in Hr. injection Hr as _ _ _ _ _ Hs _ _ _ _ _ _ _ _.
  intros x Hx. rewrite Hs in Hx. discriminate Hx.
Qed.

Lemma helper_prepare : forall s, HelperOK s -> HelperOK (fst (solve_prepare s)) /\ n (fst (solve_prepare s)) = n s.
Proof.
  intros s H. unfold solve_prepare. destruct (init s).
  - cbn. split; [|reflexivity]. intros m. cbn. destruct (alg s); [apply H|]. destruct (sec s) eqn:E.
    + intros X. injection X as <-. apply H. exact E.
    + intros X. injection X as <-. reflexivity.
  - pose proof (exec_mops_rest (allocate_mops s) s) as Hr.
    destruct (exec_mops s (allocate_mops s)) as [s1 ok1]. cbn [fst] in Hr.
    unfold rest in Hr. injection Hr as _ _ Hn _ _ _ _ _ _ _ _ _ _ _.
    cbn. split; [|exact Hn]. intros m. cbn. rewrite Hn. destruct (alg s); [apply H|]. destruct (sec s) eqn:E.
    + intros X. injection X as <-. apply H. exact E.
    + intros X. injection X as <-. reflexivity.
Qed.

Lemma helper_solve : forall s, HelperOK s -> HelperOK (fst (solve s)).
Proof.
  intros s H. unfold solve. destruct (negb (have_poly s)); [exact H|]. destruct (err s); [exact H|].
  destruct (helper_prepare s H) as [H1 Hn1].
  destruct (solve_prepare s) as [s1 ok1]. cbn [fst] in *.
  assert (T : HelperOK (fst (let '(s2, ok2) := exec_mops s1 (touch_mops s1) in (with_solve s2 true (sec s2) false, ok1 && ok2)))).
  { pose proof (exec_mops_rest (touch_mops s1) s1) as Hr2.
    destruct (exec_mops s1 (touch_mops s1)) as [s2 ok2]. cbn [fst] in Hr2.
    unfold rest in Hr2. injection Hr2 as _ _ Hn2 _ _ Hs2 _ _ _ _ _ _ _ _.
    cbn. intros m. cbn. rewrite Hs2, Hn2. apply H1. }
  destruct (alg s1); [exact T|]. destruct (exitreq s1); [|exact T]. destruct (kind s1); first [exact T | exact H1].
Qed.

Lemma helper_step : forall s o, Inv s -> op_wf o -> HelperOK s -> HelperOK (fst (step Fixed s o)).
Proof.
  intros s o HI Hwf H. unfold step. destruct (ctx s) eqn:Hc; cbn [negb].
  2:{ destruct o; try exact H. intros m X. discriminate X. }
  destruct o; try exact H.
  - apply helper_set_poly; assumption.
  - apply helper_solve; exact H.
  - destruct (have_poly s); [|exact H]. apply helper_solve. exact H.
  - destruct (init s); [|exact H].
    pose proof (exec_mops_rest [RdRange Root 0 (n s)] s) as Hr.
    destruct (exec_mops s [RdRange Root 0 (n s)]) as [s1 ok1]. cbn [fst] in *.
    unfold rest in Hr. injection Hr as _ _ Hn _ _ Hs _ _ _ _ _ _ _ _.
    intros m. rewrite Hs, Hn. apply H.
  - destruct (init s); [destruct (exec_mops s (free_data_mops s))|]; intros m X; discriminate X.
Qed.

Lemma helper_wstep : forall v w o, WInv w -> wop_wf o -> HelperOK (b w) -> HelperOK (b (fst (wstep v w o))).
Proof.
  intros v w o HI Hwf H. unfold wstep. destruct (ctx (b w)) eqn:Hc; cbn [negb].
  2:{ destruct o; try exact H. cbn [fst default_w b]. unfold step. rewrite Hc. cbn. intros m X. discriminate X. }
  destruct o; try exact H; cbn [fst base b set_b default_w].
  - apply helper_step; [exact HI | exact Logic.I | exact H].
  - apply helper_step; assumption.
  - unfold wset_degree. cbn [fst b set_b]. destruct HI as [HI0 _].
    pose proof (helper_set_degree (b w) n' (kind (b w)) HI0 Hwf) as X. intros m. cbn. apply X.
  - apply helper_step; [exact HI | exact Logic.I | exact H].
  - apply helper_step; [exact HI | exact Logic.I | exact H].
  - unfold wsolve. destruct (negb (have_poly (b w))); [exact H|].
    pose proof (helper_step (b w) OSolve HI Logic.I H) as X.
    destruct (err (b w)); [exact X|]. destruct (alg (b w)); [intros m; cbn; apply X|].
    destruct (err (fst (step Fixed (b w) OSolve))); exact X.
  - unfold wsolve. destruct (negb (have_poly (b w))); [exact H|].
    pose proof (helper_step (b w) OSolveAsync HI Logic.I H) as X.
    destruct (err (b w)); [exact X|]. destruct (alg (b w)); [intros m; cbn; apply X|].
    destruct (err (fst (step Fixed (b w) OSolveAsync))); exact X.
  - apply helper_step; [exact HI | exact Logic.I | exact H].
  - apply helper_step; [exact HI | exact Logic.I | exact H].
  - apply helper_step; [exact HI | exact Logic.I | exact H].
  - apply helper_step; [exact HI | exact Logic.I | exact H].
Qed.

Theorem wide_helper_matches_degree : forall v ops m, Forall wop_wf ops ->
  (fst (wrun v ops)).(b).(sec) = Some m -> m = (fst (wrun v ops)).(b).(n) /\ (fst (wrun v ops)).(b).(init) = true.
Proof.
  intros v ops m Hwf.
  assert (G : forall ops w, WInv w -> HelperOK (b w) -> Forall wop_wf ops -> HelperOK (b (fst (wrun_from v w ops)))).
  { intros ops0. induction ops0 as [|o r IH] using rev_ind; intros w HI H Hf; [exact H|].
    apply Forall_app in Hf. destruct Hf as [Hr Ho]. inversion Ho as [|? ? Ho1 _]; subst.
    rewrite wrun_from_snoc. apply helper_wstep; [|exact Ho1|apply IH; assumption].
    apply (wrun_from_inv v r w true HI Hr). }
  intros Hs. split.
  - apply (G ops wempty WInv_empty); [intros x X; discriminate X | exact Hwf | exact Hs].
  - pose proof (wrun_inv v ops Hwf) as [(_ & _ & Hn & _) _].
    destruct (init (b (fst (wrun v ops)))) eqn:Ei; [reflexivity|]. rewrite (Hn eq_refl) in Hs. discriminate Hs.
Qed.

(* ---------- history independence over the widened operation set ---------- *)

Lemma wstep_b_base : forall v w o bo, ctx (b w) = true ->
  (o = WAlgo (match bo with OAlgo a => a | _ => AlgoU end) /\ (exists a, bo = OAlgo a)) \/
  (o = WGoal (match bo with OGoal g => g | _ => GoalIsolate end) /\ (exists g, bo = OGoal g)) \/
  (exists d z k, o = WSetPoly d z k /\ bo = OSetPoly d z k) ->
  b (fst (wstep v w o)) = fst (step Fixed (b w) bo).
Proof.
  intros v w o bo Hc [[-> [a ->]] | [[-> [g ->]] | (d & z & k & -> & ->)]]; unfold wstep; rewrite Hc; reflexivity.
Qed.

Lemma wtail_ctx : forall v w d z k a g,
  ctx (b (fst (wstep v (fst (wstep v (fst (wstep v w (WSetPoly d z k))) (WAlgo a))) (WGoal g)))) = true -> ctx (b w) = true.
Proof.
  intros v w d z k a g H. destruct (ctx (b w)) eqn:E; [reflexivity|].
  unfold wstep in H at 3. rewrite E in H. cbn [negb fst] in H.
  unfold wstep in H at 2. rewrite E in H. cbn [negb fst] in H.
  unfold wstep in H. rewrite E in H. cbn [negb fst] in H. congruence.
Qed.

Lemma wstep_algo_goal : forall v w1 a g, ctx (b w1) = true ->
  b (fst (wstep v (fst (wstep v w1 (WAlgo a))) (WGoal g))) = with_settings (b w1) a g.
Proof.
  intros v w1 a g H. destruct w1 as [s p f sp j c am ov lp]. destruct s. cbn in H. subst. reflexivity.
Qed.

(* After ANY history over the widened operation set, [set_input_poly p; select_algorithm a; set_output_goal g]
   brings the allocation state to the configuration of a fresh context. *)
Theorem wide_history_independent : forall v h d z k a g,
  Forall wop_wf h -> op_wf (OSetPoly d z k) ->
  let w := fst (wrun v (h ++ [WSetPoly d z k; WAlgo a; WGoal g])) in
  w.(b).(ctx) = true ->
  snd (solve_prepare w.(b)) = true /\ config (fst (solve_prepare w.(b))) = fresh_config (d - z) z a g.
Proof.
  intros v h d z k a g Hh Hp w Hc. subst w.
  change (h ++ [WSetPoly d z k; WAlgo a; WGoal g]) with (h ++ [WSetPoly d z k] ++ [WAlgo a] ++ [WGoal g]) in *.
  rewrite !app_assoc in *. unfold wrun in *. rewrite !wrun_from_snoc in *.
  pose proof (wrun_inv v h Hh) as HI. unfold wrun in HI.
  set (w0 := fst (wrun_from v wempty h)) in *. clearbody w0.
  pose proof (wtail_ctx _ _ _ _ _ _ _ Hc) as Ec0.
  destruct (set_poly_fixed (b w0) d z k HI Hp) as (_ & HI1 & Hr1).
  assert (E1 : b (fst (wstep v w0 (WSetPoly d z k))) = fst (set_poly Fixed (b w0) d z k)).
  { unfold wstep. rewrite Ec0. cbn [negb base fst b set_b]. unfold step. rewrite Ec0. reflexivity. }
  set (w1 := fst (wstep v w0 (WSetPoly d z k))) in *. clearbody w1.
  unfold poly_rest, rest in Hr1. injection Hr1 as Hc1 Hi1 Hn1 Hdg1 Hz1 Hs1 He1 Hx1 Ha1 Hg1 Hp1 Hk1 Hcc1 Hpl1.
  rewrite <- E1 in *.
  assert (Ec1 : ctx (b w1) = true) by (rewrite Hc1; exact Ec0).
  assert (E2 : b (fst (wstep v (fst (wstep v w1 (WAlgo a))) (WGoal g))) = with_settings (b w1) a g).
  { apply wstep_algo_goal. exact Ec1. }
  rewrite E2 in *.
  assert (HI3 : Inv (with_settings (b w1) a g)).
  { apply (Inv_same_mem (b w1)); try exact HI1; try reflexivity; cbn; auto. }
  assert (Hwfp : 1 <= d - z) by (destruct Hp as (_ & X & _); exact X).
  destruct (prepare_fixed (with_settings (b w1) a g) HI3 Hp1 eq_refl) as (Hok & Hd & Hr).
  split; [exact Hok|].
  cbn [with_settings n deg zr alg sec err exitreq gl kind pools] in Hr, Hd. rewrite Hn1 in Hd.
  unfold rest in Hr. injection Hr as _ Hi' Hn' Hdg' Hz' Hs' _ _ Ha' Hg' _ _ Hcc' _.
  apply config_of; try assumption;
    try (rewrite Hn'; exact Hn1); try (rewrite Hdg'; exact Hdg1); try (rewrite Hz'; exact Hz1);
    try (rewrite Hs', Hs1, Hn1; destruct a; reflexivity).
Qed.

(* ---------- the flags a user reads after a solve ---------- *)

(* A solve that runs (no sticky error; for the secular algorithm: no pending abort) shows exactly what its own
   numerical part decided -- for the standard algorithm in both variants, for the secular one after the repair. *)
Theorem wide_flags_after_solve : forall v w oc (async : bool),
  w.(b).(ctx) = true -> w.(b).(have_poly) = true -> w.(b).(err) = false ->
  (w.(b).(alg) = AlgoU \/ (v = Fixed /\ forced w.(b) = false)) ->
  let w' := fst (wstep v w (if async then WSolveAsync oc else WSolve oc)) in
  w'.(over) = oc.(o_over) /\ w'.(lphase) = oc.(o_phase) /\
  w'.(b).(err) = (match w.(b).(alg) with AlgoU => oc.(o_err) | AlgoS => false end).
Proof.
  intros v w oc async Hc Hp He Hcase w'. subst w'.
  assert (E : fst (wstep v w (if async then WSolveAsync oc else WSolve oc)) = fst (wsolve v w oc async)).
  { destruct async; unfold wstep; rewrite Hc; reflexivity. }
  rewrite E. unfold wsolve. rewrite Hp, He. cbn [negb].
  destruct (solve_step_rest (b w) async Hc Hp He) as (i & sc & cc & Hr).
  unfold rest in Hr. injection Hr as _ _ _ _ _ _ He1 _ _ _ _ _ _ _.
  destruct Hcase as [Ha | [-> Hx]].
  - unfold forced in He1. rewrite Ha in *. cbn [fst set_res over lphase b with_flags err]. rewrite He1. repeat split; reflexivity.
  - destruct (alg (b w)) eqn:Ea.
    + unfold forced in He1. rewrite Ea in He1. cbn [fst set_res over lphase b with_flags err]. rewrite He1. repeat split; reflexivity.
    + rewrite Hx in He1. rewrite He1. cbn [fst set_res over lphase b orb]. rewrite He1. repeat split; reflexivity.
Qed.

(* The code as it is: under the secular algorithm over_max is history dependent.  A solve with the standard
   algorithm legitimately exhausts its input precision; the next solve (secular algorithm, numerical part reports
   "not exhausted") still shows over_max, a fresh context does not. *)
Definition witness_stale_over_max : list wop :=
  [WNew; WGoal GoalApprox; WPrec 400; WSetPoly 4 0 KMonomial; WSolve (mkout true MpPhase false);
   WAlgo AlgoS; WGoal GoalIsolate; WSetPoly 5 0 KMonomial].
Definition fresh_of_witness : list wop := [WNew; WPrec 400; WAlgo AlgoS; WGoal GoalIsolate; WSetPoly 5 0 KMonomial].

Lemma wf_witness_stale : Forall wop_wf witness_stale_over_max /\ Forall wop_wf fresh_of_witness.
Proof. split; repeat constructor; cbn; try lia; discriminate. Qed.

Theorem wide_over_max_secular_refuted :
  exists h f oc, Forall wop_wf h /\ Forall wop_wf f /\ oc.(o_over) = false /\
    settings (fst (wrun Old h)) = settings (fst (wrun Old f)) /\
    (fst (wrun Old (h ++ [WSolve oc]))).(over) = true /\ (fst (wrun Old (f ++ [WSolve oc]))).(over) = false /\
    (fst (wrun Fixed (h ++ [WSolve oc]))).(over) = false.
Proof.
  exists witness_stale_over_max, fresh_of_witness, (mkout false FloatPhase false).
  split; [exact (proj1 wf_witness_stale)|]. split; [exact (proj2 wf_witness_stale)|].
  split; [reflexivity|]. repeat split; vm_compute; reflexivity.
Qed.

(* ---------- settings are touched by their own setter only ---------- *)

Theorem wide_settings_frame : forall v w o, w.(b).(ctx) = true ->
  settings (fst (wstep v w o)) =
  match o with
  | WAlgo a => (w.(oprec), w.(ofmt), w.(sphase), w.(jac), w.(crude), w.(avoidmp), a, w.(b).(gl))
  | WGoal g => (w.(oprec), w.(ofmt), w.(sphase), w.(jac), w.(crude), w.(avoidmp), w.(b).(alg), g)
  | WPrec p => (p, w.(ofmt), w.(sphase), w.(jac), w.(crude), w.(avoidmp), w.(b).(alg), w.(b).(gl))
  | WFormat f => (w.(oprec), f, w.(sphase), w.(jac), w.(crude), w.(avoidmp), w.(b).(alg), w.(b).(gl))
  | WStartPhase ph => (w.(oprec), w.(ofmt), ph, w.(jac), w.(crude), w.(avoidmp), w.(b).(alg), w.(b).(gl))
  | WJacobi x => (w.(oprec), w.(ofmt), w.(sphase), x, w.(crude), w.(avoidmp), w.(b).(alg), w.(b).(gl))
  | WCrude x => (w.(oprec), w.(ofmt), w.(sphase), w.(jac), x, w.(avoidmp), w.(b).(alg), w.(b).(gl))
  | WAvoidMp x => (w.(oprec), w.(ofmt), w.(sphase), w.(jac), w.(crude), x, w.(b).(alg), w.(b).(gl))
  | WFree => settings wempty
  | _ => settings w
  end.
Proof.
  intros v w o Hc.
  destruct o; unfold wstep; rewrite Hc; cbn [negb]; try reflexivity.
  - (* WFree *) unfold settings. cbn. unfold step. rewrite Hc. cbn [negb].
    destruct (init (b w)); [destruct (exec_mops _ _)|]; reflexivity.
  - (* WSetPoly *) unfold settings, base. cbn [fst b set_b oprec ofmt sphase jac crude avoidmp]. unfold step. rewrite Hc. cbn [negb].
    unfold set_poly.
    assert (G : forall s1 m, alg (fst (set_degree Fixed s1 m k)) = alg s1 /\ gl (fst (set_degree Fixed s1 m k)) = gl s1).
    { intros s1 m. unfold set_degree. destruct (init s1).
      - pose proof (exec_mops_rest (resize_mops Fixed s1 m) s1) as Hr.
        destruct (exec_mops s1 (resize_mops Fixed s1 m)) as [s2 ok2]. cbn [fst] in Hr.
        unfold rest in Hr. injection Hr as _ _ _ _ _ _ _ _ Ha Hg _ _ _ _. cbn. split; assumption.
      - cbn. split; reflexivity. }
    assert (P : alg (parser_effect Fixed (b w) d k) = alg (b w) /\ gl (parser_effect Fixed (b w) d k) = gl (b w)).
    { unfold parser_effect. destruct k; try (split; reflexivity). destruct (init (b w)); split; reflexivity. }
    destruct P as [P1 P2].
    destruct k; cbn [non_monomial];
      match goal with |- context [set_degree Fixed ?s1 ?m ?kk] => destruct (G s1 m) as [G1 G2]; rewrite G1, G2 end;
      cbn [with_zr alg gl]; rewrite P1, P2; reflexivity.
  - (* WSetDegree *) unfold settings, wset_degree. cbn [fst b set_b oprec ofmt sphase jac crude avoidmp alg gl].
    unfold set_degree. destruct (init (b w)).
    + pose proof (exec_mops_rest (resize_mops Fixed (b w) n') (b w)) as Hr.
      destruct (exec_mops (b w) (resize_mops Fixed (b w) n')) as [s2 ok2]. cbn [fst] in Hr.
      unfold rest in Hr. injection Hr as _ _ _ _ _ _ _ _ Ha Hg _ _ _ _. cbn. rewrite Ha, Hg. reflexivity.
    + cbn. reflexivity.
  - (* WAlgo *) unfold settings, base. cbn. unfold step. rewrite Hc. reflexivity.
  - (* WGoal *) unfold settings, base. cbn. unfold step. rewrite Hc. reflexivity.
  - (* WSolve *) unfold settings, wsolve. destruct (have_poly (b w)) eqn:Hp; cbn [negb]; [|reflexivity].
    destruct (err (b w)) eqn:He.
    + cbn [fst b set_b oprec ofmt sphase jac crude avoidmp]. unfold step. rewrite Hc. cbn [negb]. unfold solve. rewrite Hp, He. reflexivity.
    + destruct (solve_step_rest (b w) false Hc Hp He) as (i & sc & cc & Hr). cbn [fst] in Hr.
      unfold rest in Hr. injection Hr as _ _ _ _ _ _ _ _ Ha Hg _ _ _ _.
      destruct (alg (b w)) eqn:Ea.
      * cbn. cbn in Ha, Hg. rewrite Ha, Hg. reflexivity.
      * destruct (err (fst (step Fixed (b w) OSolve))); cbn; cbn in Ha, Hg; rewrite Ha, Hg; reflexivity.
  - (* WSolveAsync *) unfold settings, wsolve. destruct (have_poly (b w)) eqn:Hp; cbn [negb]; [|reflexivity].
    destruct (err (b w)) eqn:He.
    + cbn [fst b set_b oprec ofmt sphase jac crude avoidmp]. unfold step. rewrite Hc. cbn [negb]. rewrite Hp.
      unfold solve. cbn [add_pool have_poly err]. rewrite Hp, He. reflexivity.
    + destruct (solve_step_rest (b w) true Hc Hp He) as (i & sc & cc & Hr). cbn [fst] in Hr.
      unfold rest in Hr. injection Hr as _ _ _ _ _ _ _ _ Ha Hg _ _ _ _.
      destruct (alg (b w)) eqn:Ea.
      * cbn. cbn in Ha, Hg. rewrite Ha, Hg. reflexivity.
      * destruct (err (fst (step Fixed (b w) OSolveAsync))); cbn; cbn in Ha, Hg; rewrite Ha, Hg; reflexivity.
  - (* WGetRoots *) unfold settings, base. cbn [fst b set_b oprec ofmt sphase jac crude avoidmp]. unfold step. rewrite Hc. cbn [negb].
    destruct (init (b w)); [|reflexivity].
    pose proof (exec_mops_rest [RdRange Root 0 (n (b w))] (b w)) as Hr.
    destruct (exec_mops (b w) [RdRange Root 0 (n (b w))]) as [s1 ok1]. cbn [fst] in *.
    unfold rest in Hr. injection Hr as _ _ _ _ _ _ _ _ Ha Hg _ _ _ _. rewrite Ha, Hg. reflexivity.
  - unfold settings, base. cbn. unfold step. rewrite Hc. reflexivity.
  - unfold settings, base. cbn. unfold step. rewrite Hc. reflexivity.
  - unfold settings, base. cbn. unfold step. rewrite Hc. reflexivity.
Qed.
