(* C18: abort polling of the secular solver, definitions only.

   Threads: the aborting client (mps_context_abort: s->exit_required = true), the driver
   (mps_secular_ga_mpsolve, secsolve/secular-ga.c) and k workers of one iteration packet
   (__mps_secular_ga_{f,d,m}iterate_worker, secsolve/secular-iteration.c).  EVERY read of
   s->exit_required in these two files is a program point of its own:

     secular-ga.c:78   mps_secular_ga_check_stop (called at :295, :485 and in the while condition :601)
     secular-ga.c:409  before the main loop           secular-ga.c:465  after the packet
     secular-ga.c:515  after the precision raise      secular-ga.c:535  after the regeneration in the best_approx branch
     secular-ga.c:549  before the regeneration        secular-ga.c:595  after it
     secular-ga.c:623  after the cleanup (the driver itself sets the flag at :608 when there are errors)
     secular-iteration.c:29 / :308 / :518   head of the worker loop

   The numbers are the NAMES of the program points (the source lines when the model was written); the check
   (checks/C18.py, poll_sites) matches them to the reads of the flag in the snapshot in source order and reports
   a different number of reads.  At /repo c42b0d20 the reads of secular-ga.c are at lines 78, 441, 500, 553, 576,
   593, 642 and 673, the driver's own write at 658.  The statements added since (over_max := false, 187fa8c9, and
   again := true / approximated := false for every root, f467541d) are part of the set-up before the first read
   (DStart below); best_approx set by a Jacobi-Aberth packet that stops at once (6b94c0b6) is the oracle value read at DBest (the
   packet step itself stays atomic); mps_improve leaving its loop when nothing is improvable (064029f1) is the oracle of DImprove.

   Numerics are not modelled: every data dependent decision is read from the oracle value [o] that comes
   with the step (any natural number; the step is total in it).  Atomic in the model (they contain no read
   of the flag in these two files): starting points + the preliminary Aberth packet, cluster analysis,
   a regeneration of the secular coefficients (its workers read the flag at secular-regeneration.c:165 and
   then skip their root; the outcome is an oracle value), a Jacobi/Aberth packet (jacobi_iterations),
   precision raise / phase switch / restart, the cleanup (validate + copy), mps_thread_job_queue_next and the
   locked region of a worker (one Newton step under roots_mutex[i]; aberth and gs mutexes are leaves).
   The thread pool (assign / wait) is abstracted to: the packet step makes the k workers runnable, the
   wait step is enabled when all of them have left their loop (C06's pool model and theorems).

   A step of thread t with oracle value o is [step c s t o = Some (s', e)]; None = t is not enabled
   (blocked on a root mutex, waiting for the workers, finished).  [e] is what an observer of the real
   code sees at that point (used by the correspondence check and by the counting theorems). *)
Require Import List Arith Bool.
Import ListNotations.

Record config := { nthreads : nat;        (* s->n_threads: workers per packet *)
                   secular_input : bool;  (* MPS_IS_SECULAR_EQUATION (active_poly): no preliminary part *)
                   jacobi : bool;         (* s->jacobi_iterations: packets are mps_*aberth_packet (no poll) *)
                   avoid_mp : bool;       (* s->avoid_multiprecision *)
                   crude : bool;          (* s->crude_approximation_mode *)
                   goal_approx : bool }.  (* output goal approximate: mps_improve runs after the cleanup *)

Inductive tid := TAbort | TDriver | TWorker (i : nat).

Inductive wpc :=
| WPoll               (* while (true && !s->exit_required) *)
| WNext               (* job = mps_thread_job_queue_next; EXCEP / nzeros >= n -> leave *)
| WLock (i : nat)     (* pthread_mutex_lock (&roots_mutex[i]) *)
| WCrit (i : nat)     (* holding roots_mutex[i]: recheck, Newton step + Aberth correction, unlock *)
| WDone.              (* returned (also: not started) *)

Inductive dpc :=
| DStart | DPrelim1 | DPrelim2 | DPrelimPost | DPrelimCS | DPrelimRegen | DPrelimRegen2
| DStartPts | DPoll409
| DLoop | DWait1 | DLoop2 | DWait2
| DPoll465 | DMaxPack | DCheckA | DBest | DPoll515 | DRegenB | DPoll535 | DPoll549
| DRegenC | DRegenC2 | DPoll595 | DWhile
| DCleanup | DPoll623 | DImprove | DUpdate | DRet.

Inductive errk := ENone | EExit | EMaxPack | ERegen | EOther.

Inductive event :=
| EvAbort
| EvPoll (line : nat) (v : bool)      (* a read of exit_required and the value read *)
| EvStep (p : dpc)                    (* a driver step without a read of the flag *)
| EvPacket (p : dpc)                  (* a packet of iterations begins *)
| EvRegen (p : dpc)                   (* mps_secular_ga_regenerate_coefficients is called *)
| EvJoin (p : dpc)                    (* mps_thread_pool_wait returned *)
| EvNext (go : bool)                  (* job_queue_next; go = false: EXCEP or all roots done *)
| EvLock (i : nat)
| EvCrit (i : nat) (newton : bool)    (* locked region; newton = a Newton step was performed *)
| EvError (e : errk)                  (* mps_error *)
| EvCopy                              (* cleanup without errors: validate inclusions + mps_copy_roots *)
| EvImprove.                          (* one unit of work inside mps_improve *)

Record state := mkS { flag : bool;           (* s->exit_required *)
                      err : errk;            (* error_state / which mps_error was raised *)
                      copied : bool;         (* mps_copy_roots has run *)
                      pc : dpc;
                      jr : bool;             (* just_regenerated *)
                      skip : bool;           (* skip_check_stop *)
                      ws : list wpc }.

Definition init (c : config) : state :=
  mkS false ENone false DStart false false (repeat WDone (nthreads c)).

Definition set_pc (s : state) (p : dpc) : state := mkS (flag s) (err s) (copied s) p (jr s) (skip s) (ws s).
Definition set_jr (s : state) (b : bool) : state := mkS (flag s) (err s) (copied s) (pc s) b (skip s) (ws s).
Definition set_skip (s : state) (b : bool) : state := mkS (flag s) (err s) (copied s) (pc s) (jr s) b (ws s).
Definition set_ws (s : state) (l : list wpc) : state := mkS (flag s) (err s) (copied s) (pc s) (jr s) (skip s) l.
Definition raise (s : state) (e : errk) : state :=      (* mps_error: the first message is not kept apart *)
  mkS (flag s) e (copied s) (pc s) (jr s) (skip s) (ws s).

Fixpoint upd {A} (i : nat) (x : A) (l : list A) : list A :=
  match l, i with
  | [], _ => []
  | _ :: r, 0 => x :: r
  | a :: r, S j => a :: upd j x r
  end.

Definition wdone (w : wpc) : bool := match w with WDone => true | _ => false end.
Definition holds (i : nat) (w : wpc) : bool := match w with WCrit j => Nat.eqb i j | _ => false end.

(* ---- one step of worker number w ---- *)
Definition wstep (s : state) (w : nat) (o : nat) : option (state * event) :=
  match nth_error (ws s) w with
  | None => None
  | Some p =>
      let go p' := set_ws s (upd w p' (ws s)) in
      match p with
      | WPoll => Some (go (if flag s then WDone else WNext), EvPoll 29 (flag s))
      | WNext => match o with
                 | 0 => Some (go WDone, EvNext false)
                 | S i => Some (go (WLock i), EvNext true)
                 end
      | WLock i => if existsb (holds i) (ws s) then None else Some (go (WCrit i), EvLock i)
      | WCrit i => match o with
                   | 0 => Some (go WDone, EvCrit i false)        (* recheck: EXCEP / nzeros >= n -> unlock, cleanup *)
                   | 1 => Some (go WPoll, EvCrit i false)        (* !again || approximated: nothing to do *)
                   | 2 => Some (go WDone, EvCrit i true)         (* Newton step, NOT_FLOAT/NOT_DPE: excep, break *)
                   | _ => Some (go WPoll, EvCrit i true)         (* Newton step (+ Aberth correction), unlock *)
                   end
      | WDone => None
      end
  end.

(* a poll of the driver that raises "Exit forced by the caller" and returns when the flag is set *)
Definition poll_exit (s : state) (line : nat) (next : dpc) : option (state * event) :=
  Some (if flag s then set_pc (raise s EExit) DRet else set_pc s next, EvPoll line (flag s)).

Definition fail (s : state) (e : errk) (next : dpc) : state := set_pc (raise s e) next.

(* ---- one step of the driver ---- *)
Definition dstep (c : config) (s : state) (o : nat) : option (state * event) :=
  let p := pc s in
  match p with
  | DStart =>      (* deflate, allocate, ...; polynomial input: mps_check_data may raise an error -> return *)
      if secular_input c then Some (set_pc s DStartPts, EvStep p)
      else match o with
           | 0 => Some (fail s EOther DRet, EvError EOther)
           | _ => Some (set_pc s DPrelim1, EvStep p)
           end
  | DPrelim1 =>    (* float: fstart, EXIT_ON_ERRORS, faberth packet, fp exceptions -> restart in DPE *)
      match o with
      | 0 => Some (fail s EOther DCleanup, EvError EOther)
      | 1 => Some (set_pc s DPrelim2, EvPacket p)
      | 2 => Some (fail s EOther DRet, EvError EOther)      (* "Unrecognized starting phase" *)
      | _ => Some (set_pc s DPrelimPost, EvPacket p)
      end
  | DPrelim2 =>    (* dpe: dstart, EXIT_ON_ERRORS, daberth packet *)
      match o with
      | 0 => Some (fail s EOther DCleanup, EvError EOther)
      | _ => Some (set_pc s DPrelimPost, EvPacket p)
      end
  | DPrelimPost => (* EXIT_ON_ERRORS; crude mode -> cleanup; cluster analysis *)
      match o with
      | 0 => Some (fail s EOther DCleanup, EvError EOther)
      | _ => Some (set_pc s (if crude c then DCleanup else DPrelimCS), EvStep p)
      end
  | DPrelimCS =>   (* :295 mps_secular_ga_check_stop *)
      Some (set_pc s (if flag s then DCleanup else match o with 0 => DCleanup | _ => DPrelimRegen end), EvPoll 78 (flag s))
  | DPrelimRegen => (* :328 first regeneration *)
      match o with
      | 0 => Some (set_pc s DStartPts, EvRegen p)
      | 1 => Some (set_pc s DPrelimRegen2, EvRegen p)            (* failed in float phase: dstart, try again *)
      | _ => Some (fail s ERegen DRet, EvRegen p)
      end
  | DPrelimRegen2 =>
      match o with
      | 0 => Some (set_pc (set_jr s true) DStartPts, EvRegen p)
      | _ => Some (fail s ERegen DRet, EvRegen p)
      end
  | DStartPts =>   (* secular starting points unless just_regenerated; EXIT_ON_ERRORS; again := true *)
      match o with
      | 0 => Some (fail s EOther DCleanup, EvError EOther)
      | _ => Some (set_pc s DPoll409, EvStep p)
      end
  | DPoll409 => poll_exit s 409 DLoop
  | DLoop =>       (* top of do { skip_check_stop = false; packet in the current phase *)
      let s1 := set_skip s false in
      if jacobi c then Some (set_pc s1 (match o with 0 => DLoop2 | _ => DPoll465 end), EvPacket p)
      else Some (set_pc (set_ws s1 (repeat WPoll (nthreads c))) DWait1, EvPacket p)
  | DWait1 =>      (* mps_thread_pool_wait; float packet returned -1: fall through to the DPE packet *)
      if forallb wdone (ws s) then Some (set_pc s (match o with 0 => DLoop2 | _ => DPoll465 end), EvJoin p) else None
  | DLoop2 =>
      if jacobi c then Some (set_pc s DPoll465, EvPacket p)
      else Some (set_pc (set_ws s (repeat WPoll (nthreads c))) DWait2, EvPacket p)
  | DWait2 => if forallb wdone (ws s) then Some (set_pc s DPoll465, EvJoin p) else None
  | DPoll465 => poll_exit s 465 DMaxPack
  | DMaxPack =>    (* packet > max_pack *)
      match o with
      | 0 => Some (fail s EMaxPack DRet, EvError EMaxPack)
      | _ => Some (set_pc s (if jr s then DBest else DCheckA), EvStep p)
      end
  | DCheckA =>     (* :485 if (!just_regenerated) check_stop: break, else skip_check_stop = true *)
      Some (if flag s then set_pc s DCleanup
            else match o with 0 => set_pc s DCleanup | _ => set_pc (set_skip s true) DBest end, EvPoll 78 (flag s))
  | DBest =>       (* if (s->best_approx): avoid_multiprecision -> cleanup, else switch phase / raise precision *)
      match o with
      | 0 => Some (set_pc (set_skip s false) (if avoid_mp c then DCleanup else DPoll515), EvStep p)
      | _ => Some (set_pc s DPoll549, EvStep p)
      end
  | DPoll515 => poll_exit s 515 DRegenB
  | DRegenB =>     (* restart (monomial input), regeneration; packet = 0 *)
      match o with
      | 0 => Some (set_pc (set_jr s true) DPoll535, EvRegen p)
      | _ => Some (set_pc s DPoll535, EvRegen p)
      end
  | DPoll535 => poll_exit s 535 DPoll549
  | DPoll549 => poll_exit s 549 DRegenC
  | DRegenC =>     (* :564 regeneration; on failure switch to mp or raise the precision and regenerate again *)
      match o with
      | 0 => Some (set_pc (set_jr (set_skip s false) true) DPoll595, EvRegen p)
      | 1 => Some (set_pc (set_skip s false) DPoll595, EvRegen p)
      | _ => Some (set_pc (set_skip s false) DRegenC2, EvRegen p)
      end
  | DRegenC2 => Some (set_pc s DPoll595, EvRegen p)
  | DPoll595 => poll_exit s 595 DWhile
  | DWhile =>      (* while (skip_check_stop || !mps_secular_ga_check_stop (s)) *)
      if skip s then Some (set_pc s DLoop, EvStep p)
      else Some (set_pc s (if flag s then DCleanup else match o with 0 => DCleanup | _ => DLoop end), EvPoll 78 (flag s))
  | DCleanup =>    (* errors: exit_required = true; otherwise validate the inclusions and copy the roots *)
      match err s with
      | ENone => Some (mkS (flag s) (err s) true DPoll623 (jr s) (skip s) (ws s), EvCopy)
      | _ => Some (mkS true (err s) (copied s) DPoll623 (jr s) (skip s) (ws s), EvStep p)
      end
  | DPoll623 =>
      Some (set_pc s (if flag s then DRet else if goal_approx c then DImprove else DUpdate), EvPoll 623 (flag s))
  | DImprove =>    (* mps_improve: no read of the flag; the oracle says whether more work is left *)
      match o with
      | 0 => Some (set_pc s DUpdate, EvStep p)
      | _ => Some (s, EvImprove)
      end
  | DUpdate => Some (set_pc s DRet, EvStep p)        (* mps_mupdate_inclusions *)
  | DRet => None
  end.

Definition step (c : config) (s : state) (t : tid) (o : nat) : option (state * event) :=
  match t with
  | TAbort => Some (mkS true (err s) (copied s) (pc s) (jr s) (skip s) (ws s), EvAbort)
  | TDriver => dstep c s o
  | TWorker w => wstep s w o
  end.

(* a run: a list of (thread, oracle value); every step must be enabled *)
Fixpoint run (c : config) (s : state) (l : list (tid * nat)) : option (state * list event) :=
  match l with
  | [] => Some (s, [])
  | (t, o) :: r =>
      match step c s t o with
      | None => None
      | Some (s1, e) => match run c s1 r with
                        | None => None
                        | Some (s2, es) => Some (s2, e :: es)
                        end
      end
  end.

Definition solver (t : tid) : bool := match t with TAbort => false | _ => true end.
Definition solver_steps (l : list (tid * nat)) : nat := length (filter (fun x => solver (fst x)) l).
Definition terminated (s : state) : bool := match pc s with DRet => true | _ => false end.
Definition enabled (c : config) (s : state) (t : tid) : bool := match step c s t 0 with Some _ => true | None => false end.

Definition is_newton (e : event) : bool := match e with EvCrit _ true => true | _ => false end.
Definition is_packet (e : event) : bool := match e with EvPacket _ => true | _ => false end.
Definition is_regen (e : event) : bool := match e with EvRegen _ => true | _ => false end.
Definition count (f : event -> bool) (es : list event) : nat := length (filter f es).

(* ---- potentials (upper bounds on what can still happen once the flag is set) ---- *)
Definition wrank (w : wpc) : nat :=
  match w with WPoll => 1 | WNext => 4 | WLock _ => 3 | WCrit _ => 2 | WDone => 0 end.
Definition wnewton (w : wpc) : nat :=
  match w with WNext | WLock _ | WCrit _ => 1 | _ => 0 end.
Fixpoint sum (f : wpc -> nat) (l : list wpc) : nat := match l with [] => 0 | w :: r => f w + sum f r end.

Definition drank (k : nat) (p : dpc) : nat :=
  match p with
  | DRet => 0
  | DUpdate | DPoll623 | DPoll409 | DPoll465 | DPoll515 | DPoll535 | DPoll549 | DPoll595 => 1
  | DCleanup | DRegenC2 | DWait2 => 2
  | DStartPts | DPrelimCS | DCheckA | DBest | DRegenB | DRegenC => 3
  | DMaxPack | DPrelimPost | DPrelimRegen2 => 4
  | DPrelim2 | DPrelimRegen => 5
  | DPrelim1 => 6
  | DStart => 7
  | DLoop2 => k + 3
  | DWait1 => k + 4
  | DLoop => 2 * k + 5
  | DWhile => 2 * k + 6
  | DImprove => 0
  end.
Definition rank (c : config) (s : state) : nat := drank (nthreads c) (pc s) + sum wrank (ws s).

Definition dpackets (p : dpc) : nat :=
  match p with
  | DStart | DPrelim1 | DLoop | DWhile => 2
  | DPrelim2 | DLoop2 | DWait1 => 1
  | _ => 0
  end.
Definition dregens (p : dpc) : nat :=
  match p with
  | DPrelimRegen | DRegenC => 2
  | DPrelimRegen2 | DRegenC2 | DRegenB => 1
  | _ => 0
  end.

(* the statement of the outcome: the solve has returned with the error flag set, or it went through the
   cleanup without errors (inclusions validated, roots copied) *)
Definition good_end (s : state) : Prop := err s <> ENone \/ copied s = true.

(* ---- the classic driver (unisolve): C03's skeleton, which has no read of the flag at all ---- *)
Require MPSV.Total.SkelDefs.
Definition classic_step (c : SkelDefs.caps) (g : SkelDefs.cfg) (a : SkelDefs.ans) (fs : bool * SkelDefs.ust)
  : bool * SkelDefs.ust := (fst fs, SkelDefs.ustep c g a (snd fs)).
Definition classic_terminal (fs : bool * SkelDefs.ust) : bool := SkelDefs.uterminal (snd fs).
