(* C15: proofs about the bookkeeping model of Ctx/ResizeModel.v *)
Require Import ZArith List Bool Lia ZifyBool.
Require Import MPSV.Ctx.ResizeModel.
Import ListNotations.
Open Scope Z_scope.

(* ---------- ranges ---------- *)

Lemma in_zrange : forall lo hi i, In i (zrange lo hi) <-> lo <= i < hi.
Proof.
  intros lo hi i. unfold zrange. rewrite in_map_iff. split.
  - intros [k [Hk Hin]]. apply in_seq in Hin. lia.
  - intros H. exists (Z.to_nat (i - lo)). split; [lia|]. apply in_seq. lia.
Qed.

Lemma forallb_zrange : forall f lo hi,
  forallb f (zrange lo hi) = true <-> (forall i, lo <= i < hi -> f i = true).
Proof.
  intros. rewrite forallb_forall. split; intros H i Hi; apply H; apply in_zrange; exact Hi.
Qed.

Lemma existsb_zrange_false : forall f lo hi,
  (forall i, lo <= i < hi -> f i = false) -> existsb f (zrange lo hi) = false.
Proof.
  intros f lo hi H. destruct (existsb f (zrange lo hi)) eqn:E; [|reflexivity].
  apply existsb_exists in E. destruct E as [i [Hin Hf]]. apply in_zrange in Hin.
  rewrite (H i Hin) in Hf. discriminate.
Qed.

(* ---------- Hoare-style rules for micro operations ---------- *)

(* abstract description: block sizes [sz], live object slots = prefix [0, lv a) *)
Record D (s : state) (sz lv : arr -> Z) : Prop := mkD {
  D_alloc : forall a, s.(alloc) a = sz a;
  D_live : forall a i, is_obj a = true -> s.(live) a i = in_range 0 (lv a) i;
  D_leak : s.(leaked) = false }.

Definition upd := upd_alloc.

Lemma arr_eqb_eq : forall a b, arr_eqb a b = true <-> a = b.
Proof. intros a b; split; [destruct a, b; simpl; congruence | intros ->; destruct b; reflexivity]. Qed.

Definition rest (s : state) :=
  (s.(ctx), s.(init), s.(n), s.(deg), s.(zr), s.(sec), s.(err), s.(exitreq), s.(alg), s.(gl),
   s.(have_poly), s.(kind), s.(cluster_clean), s.(pools)).

Lemma exec_mop_rest : forall m s, rest (fst (exec_mop s m)) = rest s.
Proof. intros m s; destruct m; reflexivity. Qed.

Lemma exec_mops_cons : forall s m r,
  exec_mops s (m :: r) =
  (fst (exec_mops (fst (exec_mop s m)) r), snd (exec_mop s m) && snd (exec_mops (fst (exec_mop s m)) r)).
Proof.
  intros. simpl. destruct (exec_mop s m) as [s1 ok1]. simpl.
  destruct (exec_mops s1 r) as [s2 ok2]. reflexivity.
Qed.

Lemma exec_mops_rest : forall ms s, rest (fst (exec_mops s ms)) = rest s.
Proof.
  induction ms as [|m r IH]; intros s; [reflexivity|].
  rewrite exec_mops_cons. simpl fst. rewrite IH. apply exec_mop_rest.
Qed.

Definition H (sz lv : arr -> Z) (ms : list mop) (sz' lv' : arr -> Z) : Prop :=
  forall s, D s sz lv -> snd (exec_mops s ms) = true /\ D (fst (exec_mops s ms)) sz' lv'.

Lemma H_nil : forall sz lv sz' lv',
  (forall a, sz a = sz' a) -> (forall a, is_obj a = true -> lv a = lv' a) -> H sz lv [] sz' lv'.
Proof.
  intros sz lv sz' lv' E1 E2 s [Ha Hl Hk]. simpl. split; [reflexivity|].
  constructor; intros; [rewrite Ha; apply E1 | rewrite Hl by assumption; rewrite E2 by assumption; reflexivity | assumption].
Qed.

Lemma H_cons : forall sz lv m r sz1 lv1 sz' lv',
  (forall s, D s sz lv -> snd (exec_mop s m) = true /\ D (fst (exec_mop s m)) sz1 lv1) ->
  H sz1 lv1 r sz' lv' -> H sz lv (m :: r) sz' lv'.
Proof.
  intros sz lv m r sz1 lv1 sz' lv' H1 H2 s Hd. rewrite exec_mops_cons. simpl fst; simpl snd.
  destruct (H1 s Hd) as [Hok Hd1]. destruct (H2 _ Hd1) as [Hok2 Hd2].
  rewrite Hok, Hok2. split; [reflexivity | exact Hd2].
Qed.

Lemma step_realloc : forall a k sz lv s,
  (is_obj a = true -> lv a <= k) -> D s sz lv ->
  snd (exec_mop s (Realloc a k)) = true /\ D (fst (exec_mop s (Realloc a k))) (upd sz a k) lv.
Proof.
  intros a k sz lv s Hk [Ha Hl Hlk]. split; [reflexivity|]. constructor; cbn.
  - intros b. unfold upd, upd_alloc. destruct (arr_eqb a b); [reflexivity | apply Ha].
  - intros b i Hb. rewrite (Hl b i Hb). destruct (arr_eqb a b) eqn:E; cbn.
    + apply arr_eqb_eq in E. subst b. specialize (Hk Hb). unfold in_range. lia.
    + apply andb_true_r.
  - rewrite Hlk. cbn. destruct (is_obj a) eqn:Eo; [|reflexivity]. cbn.
    apply existsb_zrange_false. intros i Hi. rewrite (Hl a i Eo). specialize (Hk eq_refl). unfold in_range. lia.
Qed.

Lemma step_free : forall a sz lv s,
  (is_obj a = true -> lv a <= 0) -> D s sz lv ->
  snd (exec_mop s (FreeArr a)) = true /\ D (fst (exec_mop s (FreeArr a))) (upd sz a 0) lv.
Proof.
  intros a sz lv s Hk [Ha Hl Hlk]. split; [reflexivity|]. constructor; cbn.
  - intros b. unfold upd, upd_alloc. destruct (arr_eqb a b); [reflexivity | apply Ha].
  - intros b i Hb. rewrite (Hl b i Hb). destruct (arr_eqb a b) eqn:E; cbn.
    + apply arr_eqb_eq in E. subst b. specialize (Hk Hb). unfold in_range. lia.
    + apply andb_true_r.
  - rewrite Hlk. cbn. destruct (is_obj a) eqn:Eo; [|reflexivity]. cbn.
    apply existsb_zrange_false. intros i Hi. rewrite (Hl a i Eo). specialize (Hk eq_refl). unfold in_range. lia.
Qed.

Lemma step_rd : forall a lo hi sz lv s,
  0 <= lo -> hi <= sz a -> (is_obj a = true -> hi <= lv a) -> D s sz lv ->
  snd (exec_mop s (RdRange a lo hi)) = true /\ D (fst (exec_mop s (RdRange a lo hi))) sz lv.
Proof.
  intros a lo hi sz lv s H0 H1 H2 Hd. split; [|exact Hd]. destruct Hd as [Ha Hl Hlk]. cbn.
  unfold range_inb. rewrite Ha. apply andb_true_iff. split; [lia|].
  destruct (is_obj a) eqn:Eo; [|reflexivity]. cbn. apply forallb_zrange. intros i Hi.
  rewrite (Hl a i Eo). specialize (H2 eq_refl). unfold in_range. lia.
Qed.

Lemma step_wr : forall a lo hi sz lv s,
  0 <= lo -> hi <= sz a -> (is_obj a = true -> hi <= lv a) -> D s sz lv ->
  snd (exec_mop s (WrRange a lo hi)) = true /\ D (fst (exec_mop s (WrRange a lo hi))) sz lv.
Proof. intros. change (WrRange a lo hi) with (WrRange a lo hi). apply (step_rd a lo hi sz lv s); assumption. Qed.

Lemma step_init : forall a lo hi sz lv s,
  is_obj a = true -> lv a = lo /\ 0 <= lo /\ lo <= hi /\ hi <= sz a -> D s sz lv ->
  snd (exec_mop s (InitRange a lo hi)) = true /\ D (fst (exec_mop s (InitRange a lo hi))) sz (upd lv a hi).
Proof.
  intros a lo hi sz lv s Eo (E & H0 & H1 & H2) [Ha Hl Hlk]. split.
  - cbn. unfold range_inb. rewrite Ha. lia.
  - constructor; cbn.
    + exact Ha.
    + intros b i Hb. rewrite (Hl b i Hb). unfold upd, upd_alloc. destruct (arr_eqb a b) eqn:Eb; cbn.
      * apply arr_eqb_eq in Eb. subst b. unfold in_range. lia.
      * apply orb_false_r.
    + rewrite Hlk. cbn. apply existsb_zrange_false. intros i Hi. rewrite (Hl a i Eo). unfold in_range. lia.
Qed.

Lemma step_clear : forall a lo hi sz lv s,
  is_obj a = true -> lv a = hi /\ 0 <= lo /\ lo <= hi /\ hi <= sz a -> D s sz lv ->
  snd (exec_mop s (ClearRange a lo hi)) = true /\ D (fst (exec_mop s (ClearRange a lo hi))) sz (upd lv a lo).
Proof.
  intros a lo hi sz lv s Eo (E & H0 & H1 & H2) [Ha Hl Hlk]. split.
  - cbn. unfold range_inb. rewrite Ha. apply andb_true_iff. split; [lia|].
    apply forallb_zrange. intros i Hi. rewrite (Hl a i Eo). unfold in_range. lia.
  - constructor; cbn.
    + exact Ha.
    + intros b i Hb. rewrite (Hl b i Hb). unfold upd, upd_alloc. destruct (arr_eqb a b) eqn:Eb; cbn.
      * apply arr_eqb_eq in Eb. subst b. unfold in_range. lia.
      * apply andb_true_r.
    + exact Hlk.
Qed.

Definition szf (m : Z) : arr -> Z := fun a => size_for a m.
Definition zero : arr -> Z := fun _ => 0.

Ltac side := cbv beta iota delta [upd upd_alloc arr_eqb is_obj size_for szf zero]; intros; try discriminate; try lia.
Ltac hstep :=
  lazymatch goal with
  | |- H _ _ (Realloc _ _ :: _) _ _ => eapply H_cons; [intros ?s ?Hd; eapply step_realloc; [ | exact Hd]; side |]
  | |- H _ _ (FreeArr _ :: _) _ _ => eapply H_cons; [intros ?s ?Hd; eapply step_free; [ | exact Hd]; side |]
  | |- H _ _ (RdRange _ _ _ :: _) _ _ => eapply H_cons; [intros ?s ?Hd; eapply step_rd; [ | | | exact Hd]; side |]
  | |- H _ _ (WrRange _ _ _ :: _) _ _ => eapply H_cons; [intros ?s ?Hd; eapply step_wr; [ | | | exact Hd]; side |]
  | |- H _ _ (InitRange _ _ _ :: _) _ _ => eapply H_cons; [intros ?s ?Hd; eapply step_init; [reflexivity | | exact Hd]; side |]
  | |- H _ _ (ClearRange _ _ _ :: _) _ _ => eapply H_cons; [intros ?s ?Hd; eapply step_clear; [reflexivity | | exact Hd]; side |]
  | |- H _ _ [] _ _ => apply H_nil; intros a; destruct a; side; reflexivity
  end.


Lemma H_expand : forall m m', 1 <= m -> m < m' -> H (szf m) (szf m) (expand_mops m 0 m') (szf m') (szf m').
Proof. intros m m' H1 H2. unfold expand_mops, szf. repeat hstep. Qed.

Lemma H_shrink : forall m m', 1 <= m' -> m' < m -> H (szf m) (szf m) (shrink_mops m 0 m') (szf m') (szf m').
Proof. intros m m' H1 H2. unfold shrink_mops, szf. repeat hstep. Qed.

Lemma H_allocate : forall s m, s.(n) = m -> s.(deg) = m -> 1 <= m ->
  H zero zero (allocate_mops s) (szf m) (szf m).
Proof. intros s m E1 E2 Hm. unfold allocate_mops. rewrite E1, E2. repeat hstep. Qed.

Lemma H_touch : forall s m, s.(n) = m -> 1 <= m -> H (szf m) (szf m) (touch_mops s) (szf m) (szf m).
Proof. intros s m E1 Hm. unfold touch_mops. rewrite E1. repeat hstep. Qed.

Lemma H_free_data : forall s m, s.(n) = m -> s.(deg) = m -> 1 <= m ->
  H (szf m) (szf m) (free_data_mops s) zero zero.
Proof. intros s m E1 E2 Hm. unfold free_data_mops. rewrite E1, E2. repeat hstep. Qed.

Lemma H_get : forall m, 1 <= m -> H (szf m) (szf m) [RdRange Root 0 m] (szf m) (szf m).
Proof. intros m Hm. repeat hstep. Qed.

(* ---------- the invariant of the repaired code ---------- *)

Definition shape (s : state) : arr -> Z := if s.(init) then szf s.(n) else zero.

(* without the clause on the active polynomial *)
Definition Inv0 (s : state) : Prop :=
  D s (shape s) (shape s) /\
  (s.(init) = true -> 1 <= s.(n) /\ s.(deg) = s.(n)) /\
  (s.(init) = false -> s.(sec) = None) /\
  (s.(ctx) = false -> s.(init) = false).

Definition Inv (s : state) : Prop :=
  Inv0 s /\ (s.(have_poly) = true -> 1 <= s.(n) /\ s.(deg) = s.(n)).

Lemma Inv_empty : Inv empty_state.
Proof.
  unfold Inv, Inv0, shape, empty_state; cbn. repeat split; try discriminate; try reflexivity.
  intros a i _. cbn. unfold in_range, zero. lia.
Qed.

(* D only looks at alloc/live/leaked *)
Lemma D_ext : forall s s' sz lv, s'.(alloc) = s.(alloc) -> s'.(live) = s.(live) -> s'.(leaked) = s.(leaked) ->
  D s sz lv -> D s' sz lv.
Proof. intros s s' sz lv E1 E2 E3 [Ha Hl Hk]. constructor; intros; rewrite ?E1, ?E2, ?E3; auto. Qed.

Lemma resize_fixed : forall s m', Inv0 s -> s.(init) = true -> 1 <= m' ->
  snd (exec_mops s (resize_mops Fixed s m')) = true /\
  D (fst (exec_mops s (resize_mops Fixed s m'))) (szf m') (szf m').
Proof.
  intros s m' (Hd & Hi & _) Ei Hm. unfold shape in Hd. rewrite Ei in Hd. destruct (Hi Ei) as [Hn _].
  unfold resize_mops. destruct (n s <? m') eqn:E1; [|destruct (m' <? n s) eqn:E2].
  - apply (H_expand (n s) m'); [lia | lia | exact Hd].
  - apply (H_shrink (n s) m'); [lia | lia | exact Hd].
  - assert (m' = n s) by lia. subst m'. split; [reflexivity | exact Hd].
Qed.

Definition poly_rest (s : state) (m z : Z) (k : pkind) :=
  (s.(ctx), s.(init), m, m, z, @None Z, s.(err), s.(exitreq), s.(alg), s.(gl), true, k, s.(cluster_clean), s.(pools)).

Lemma D_with_poly : forall s2 m z k sz lv, D s2 sz lv ->
  D (with_poly s2 m z k None (s2.(leaked) || false)) sz lv.
Proof.
  intros s2 m z k sz lv [A B C]. constructor; cbn; auto. rewrite C. reflexivity.
Qed.

Lemma set_degree_fixed : forall s1 m k, Inv0 s1 -> 1 <= m ->
  snd (set_degree Fixed s1 m k) = true /\ Inv (fst (set_degree Fixed s1 m k)) /\
  rest (fst (set_degree Fixed s1 m k)) = poly_rest s1 m s1.(zr) k.
Proof.
  intros s1 m k HI Hm. unfold set_degree. destruct (init s1) eqn:Ei.
  - destruct (resize_fixed s1 m HI Ei Hm) as [Hok Hd].
    pose proof (exec_mops_rest (resize_mops Fixed s1 m) s1) as Hr.
    destruct (exec_mops s1 (resize_mops Fixed s1 m)) as [s2 ok].
    change (fst (s2, ok)) with s2 in *. change (snd (s2, ok)) with ok in *.
    unfold rest in Hr. injection Hr as Hc Hin Hn Hdg Hz Hs He Hx Ha Hg Hp Hk Hcc Hpl.
    change (snd (with_poly s2 m (zr s1) k None (leaked s2 || false), ok)) with ok.
    change (fst (with_poly s2 m (zr s1) k None (leaked s2 || false), ok))
      with (with_poly s2 m (zr s1) k None (leaked s2 || false)).
    split; [exact Hok|]. split.
    + unfold Inv, Inv0, shape.
      change (init (with_poly s2 m (zr s1) k None (leaked s2 || false))) with (init s2).
      change (n (with_poly s2 m (zr s1) k None (leaked s2 || false))) with m.
      change (deg (with_poly s2 m (zr s1) k None (leaked s2 || false))) with m.
      change (sec (with_poly s2 m (zr s1) k None (leaked s2 || false))) with (@None Z).
      change (ctx (with_poly s2 m (zr s1) k None (leaked s2 || false))) with (ctx s2).
      rewrite Hin, Ei. split; [split; [|split; [|split]]|].
      * apply D_with_poly. exact Hd.
      * intros _. split; [exact Hm | reflexivity].
      * intros X. discriminate X.
      * intros X. destruct HI as (_ & _ & _ & Hcx). rewrite Hc in X. rewrite (Hcx X) in Ei. discriminate Ei.
      * intros _. split; [exact Hm | reflexivity].
    + unfold poly_rest, rest.
      change (pools (with_poly s2 m (zr s1) k None (leaked s2 || false))) with (pools s2).
      cbn [with_poly ctx init n deg zr sec err exitreq alg gl have_poly kind cluster_clean pools].
      rewrite Hc, Hin, He, Hx, Ha, Hg, Hcc, Hpl. reflexivity.
  - destruct HI as (Hd & _ & Hs & Hc). rewrite (Hs Ei).
    change (snd (with_poly s1 m (zr s1) k None (leaked s1 || false), true)) with true.
    change (fst (with_poly s1 m (zr s1) k None (leaked s1 || false), true))
      with (with_poly s1 m (zr s1) k None (leaked s1 || false)).
    split; [reflexivity|]. split.
    + unfold Inv, Inv0, shape in *.
      change (init (with_poly s1 m (zr s1) k None (leaked s1 || false))) with (init s1).
      change (n (with_poly s1 m (zr s1) k None (leaked s1 || false))) with m.
      change (deg (with_poly s1 m (zr s1) k None (leaked s1 || false))) with m.
      change (sec (with_poly s1 m (zr s1) k None (leaked s1 || false))) with (@None Z).
      change (ctx (with_poly s1 m (zr s1) k None (leaked s1 || false))) with (ctx s1).
      rewrite Ei in *. split; [split; [|split; [|split]]|].
      * apply D_with_poly. exact Hd.
      * intros X. discriminate X.
      * reflexivity.
      * intros _. reflexivity.
      * intros _. split; [exact Hm | reflexivity].
    + unfold poly_rest, rest.
      cbn [with_poly ctx init n deg zr sec err exitreq alg gl have_poly kind cluster_clean pools].
      reflexivity.
Qed.

Lemma Inv0_with_zr : forall s z, Inv0 s -> Inv0 (with_zr s z).
Proof.
  intros s z (A & B & C & E). split; [|split; [exact B | split; [exact C | exact E]]].
  eapply D_ext; [| | |exact A]; reflexivity.
Qed.

Lemma Inv0_parser : forall s d k, Inv0 s -> Inv0 (parser_effect Fixed s d k) /\
  rest (parser_effect Fixed s d k) =
  (ctx s, init s, n (parser_effect Fixed s d k), deg s, zr s, sec s, err s, exitreq s, alg s, gl s, have_poly s, kind s, cluster_clean s, pools s).
Proof.
  intros s d k HI. unfold parser_effect. destruct k; try (split; [exact HI | reflexivity]).
  destruct (init s) eqn:Ei; [split; [exact HI | unfold rest; rewrite Ei; reflexivity]|].
  split; [|unfold rest; cbn; rewrite Ei; reflexivity]. destruct HI as (A & B & C & E). unfold Inv0, shape in *.
  change (init (with_n s d)) with (init s). rewrite Ei in *.
  split; [|split; [|split]].
  - eapply D_ext; [| | |exact A]; reflexivity.
  - intros X. discriminate X.
  - exact C.
  - intros _. reflexivity.
Qed.

Lemma poly_rest_parser : forall s s0 m z z0 k,
  rest s0 = (ctx s, init s, n s0, deg s, zr s, sec s, err s, exitreq s, alg s, gl s, have_poly s, kind s, cluster_clean s, pools s) ->
  poly_rest (with_zr s0 z0) m z k = poly_rest s m z k.
Proof.
  intros s s0 m z z0 k Hr. unfold rest in Hr.
  injection Hr as Hc Hin Hdg Hzr Hs He Hx Ha Hg Hp Hk' Hcc Hpl.
  unfold poly_rest. cbn [with_zr ctx init err exitreq alg gl cluster_clean pools].
  rewrite Hc, Hin, He, Hx, Ha, Hg, Hcc, Hpl. reflexivity.
Qed.

Lemma set_poly_fixed : forall s d z k, Inv s -> op_wf (OSetPoly d z k) ->
  snd (set_poly Fixed s d z k) = true /\ Inv (fst (set_poly Fixed s d z k)) /\
  rest (fst (set_poly Fixed s d z k)) = poly_rest s (d - z) z k.
Proof.
  intros s d z k [HI _] (Hz & Hdz & Hk). unfold set_poly.
  destruct (Inv0_parser s d k HI) as [HI0 Hr0].
  set (s0 := parser_effect Fixed s d k) in *.
  destruct (non_monomial k) eqn:Enm.
  - assert (z = 0) by (apply Hk; reflexivity). subst z. replace (d - 0) with d in * by lia.
    destruct (set_degree_fixed (with_zr s0 0) d k (Inv0_with_zr _ _ HI0) Hdz) as (A & B & C).
    split; [exact A|]. split; [exact B|]. rewrite C. apply poly_rest_parser. exact Hr0.
  - destruct (set_degree_fixed (with_zr s0 z) (d - z) k (Inv0_with_zr _ _ HI0) Hdz) as (A & B & C).
    split; [exact A|]. split; [exact B|]. rewrite C. apply poly_rest_parser. exact Hr0.
Qed.

(* ---------- solve ---------- *)

Lemma prepare_fixed : forall s, Inv s -> s.(have_poly) = true -> s.(ctx) = true ->
  snd (solve_prepare s) = true /\
  D (fst (solve_prepare s)) (szf s.(n)) (szf s.(n)) /\
  rest (fst (solve_prepare s)) =
  (true, true, s.(n), s.(deg), s.(zr),
   match s.(alg) with AlgoS => match s.(sec) with Some x => Some x | None => Some s.(n) end | AlgoU => s.(sec) end,
   s.(err), s.(exitreq), s.(alg), s.(gl), true, s.(kind), true, s.(pools)).
Proof.
  intros s [(Hd & Hi & Hs & Hc) Hp] Ep Ec. destruct (Hp Ep) as [Hn Hdg].
  unfold solve_prepare. unfold shape in Hd. destruct (init s) eqn:Ei.
  - split; [reflexivity|]. split.
    + eapply D_ext; [| | |exact Hd]; reflexivity.
    + unfold rest. cbn. rewrite Ec, Ep. reflexivity.
  - destruct (H_allocate s (n s) eq_refl Hdg Hn s Hd) as [Hok Hd1].
    pose proof (exec_mops_rest (allocate_mops s) s) as Hr.
    destruct (exec_mops s (allocate_mops s)) as [s1 ok1].
    change (fst (s1, ok1)) with s1 in *. change (snd (s1, ok1)) with ok1 in *.
    unfold rest in Hr. injection Hr as Hc' Hin Hn' Hdg' Hz Hs' He Hx Ha Hg Hp' Hk Hcc Hpl.
    split; [exact Hok|]. split.
    + eapply D_ext; [| | |exact Hd1]; reflexivity.
    + unfold rest. cbn. rewrite Hc', Hn', Hdg', Hz, He, Hx, Ha, Hg, Hp', Hk, Hpl, Ec, Ep. reflexivity.
Qed.

Lemma Inv_build : forall s' m, D s' (szf m) (szf m) -> s'.(init) = true -> s'.(n) = m -> s'.(deg) = m -> 1 <= m ->
  s'.(ctx) = true -> Inv s'.
Proof.
  intros s' m Hd Ei En Edg Hm Ec. unfold Inv, Inv0, shape. rewrite Ei, En, Edg.
  split; [split; [exact Hd | split; [|split]]|].
  - intros _. split; [exact Hm | reflexivity].
  - intros X. discriminate X.
  - intros X. rewrite Ec in X. discriminate X.
  - intros _. split; [exact Hm | reflexivity].
Qed.

Lemma solve_fixed : forall s, Inv s -> s.(ctx) = true ->
  snd (solve s) = true /\ Inv (fst (solve s)).
Proof.
  intros s HI Ec. unfold solve. destruct (have_poly s) eqn:Ep; [|split; [reflexivity | exact HI]].
  cbn [negb]. destruct (err s) eqn:Ee; [split; [reflexivity | exact HI]|].
  destruct (prepare_fixed s HI Ep Ec) as (Hok & Hd & Hr).
  destruct HI as [_ Hp]. destruct (Hp Ep) as [Hn Hdg].
  destruct (solve_prepare s) as [s1 ok1].
  change (fst (s1, ok1)) with s1 in *. change (snd (s1, ok1)) with ok1 in *.
  unfold rest in Hr. injection Hr as Hc1 Hi1 Hn1 Hdg1 Hz1 Hs1 He1 Hx1 Ha1 Hg1 Hp1 Hk1 Hcc1 Hpl1.
  assert (Hfl : forall e x, Inv (with_flags s1 e x)).
  { intros e x. apply (Inv_build _ (n s)); try assumption.
    - eapply D_ext; [| | |exact Hd]; reflexivity.
    - cbn. rewrite Hdg1. exact Hdg. }
  assert (Htouch : snd (let '(s2, ok2) := exec_mops s1 (touch_mops s1) in (with_solve s2 true (sec s2) false, ok1 && ok2)) = true /\
                   Inv (fst (let '(s2, ok2) := exec_mops s1 (touch_mops s1) in (with_solve s2 true (sec s2) false, ok1 && ok2)))).
  { destruct (H_touch s1 (n s) Hn1 Hn s1 Hd) as [Hok2 Hd2].
    pose proof (exec_mops_rest (touch_mops s1) s1) as Hr2.
    destruct (exec_mops s1 (touch_mops s1)) as [s2 ok2].
    change (fst (s2, ok2)) with s2 in *. change (snd (s2, ok2)) with ok2 in *.
    unfold rest in Hr2. injection Hr2 as Hc2 Hi2 Hn2 Hdg2 _ _ _ _ _ _ _ _ _ _.
    split.
    - cbn. rewrite Hok, Hok2. reflexivity.
    - apply (Inv_build _ (n s)).
      + eapply D_ext; [| | |exact Hd2]; reflexivity.
      + reflexivity.
      + cbn. rewrite Hn2. exact Hn1.
      + cbn. rewrite Hdg2, Hdg1. exact Hdg.
      + exact Hn.
      + cbn. rewrite Hc2. exact Hc1. }
  destruct (alg s1); [exact Htouch|].
  destruct (exitreq s1); [|exact Htouch].
  destruct (kind s1); try exact Htouch.
  split; [exact Hok | apply Hfl].
Qed.

(* ---------- every operation preserves the invariant and performs only valid accesses ---------- *)

Lemma Inv_same_mem : forall s s', Inv s ->
  s'.(alloc) = s.(alloc) -> s'.(live) = s.(live) -> s'.(leaked) = s.(leaked) ->
  s'.(init) = s.(init) -> s'.(n) = s.(n) -> s'.(deg) = s.(deg) -> s'.(sec) = s.(sec) -> s'.(ctx) = s.(ctx) ->
  (s'.(have_poly) = true -> s.(have_poly) = true) -> Inv s'.
Proof.
  intros s s' [(Hd & Hi & Hs & Hc) Hp] Ea El Ek Ei En Edg Es Ec Ehp.
  unfold Inv, Inv0, shape in *. rewrite Ei, En, Edg, Es, Ec.
  split; [split; [|split; [exact Hi | split; [exact Hs | exact Hc]]]|].
  - eapply D_ext; [exact Ea | exact El | exact Ek | exact Hd].
  - intros X. apply Hp. apply Ehp. exact X.
Qed.

Lemma step_fixed : forall s o, Inv s -> op_wf o ->
  snd (step Fixed s o) = true /\ Inv (fst (step Fixed s o)).
Proof.
  intros s o HI Hwf. unfold step. destruct (ctx s) eqn:Ec; cbn [negb].
  2:{ destruct o; try (split; [reflexivity | exact HI]).
      split; [reflexivity|]. destruct HI as [(Hd & _) _]. destruct Hd as [A B C].
      unfold Inv, Inv0, shape. cbn. split; [split; [|split; [|split]]|]; try (intros X; discriminate X); try reflexivity.
      constructor; cbn; auto. intros a i _. unfold in_range, zero. lia. }
  destruct o.
  - split; [reflexivity | exact HI].
  - destruct (set_poly_fixed s d z k HI Hwf) as (A & B & _). split; assumption.
  - split; [reflexivity|]. apply (Inv_same_mem s); [exact HI | first [reflexivity | cbn; rewrite Ec; reflexivity] .. | cbn; auto].
  - split; [reflexivity|]. apply (Inv_same_mem s); [exact HI | first [reflexivity | cbn; rewrite Ec; reflexivity] .. | cbn; auto].
  - apply solve_fixed; assumption.
  - destruct (have_poly s) eqn:Ep; [|split; [reflexivity | exact HI]].
    apply solve_fixed; [|exact Ec]. apply (Inv_same_mem s); [exact HI | first [reflexivity | cbn; rewrite Ec; reflexivity] .. | cbn; auto].
  - destruct (init s) eqn:Ei; [|split; [reflexivity | exact HI]].
    destruct HI as [(Hd & Hi & Hs & Hc) Hp]. destruct (Hi Ei) as [Hn Hdg].
    unfold shape in Hd. rewrite Ei in Hd.
    destruct (H_get (n s) Hn s Hd) as [Hok Hd1].
    pose proof (exec_mops_rest [RdRange Root 0 (n s)] s) as Hr.
    destruct (exec_mops s [RdRange Root 0 (n s)]) as [s1 ok1].
    change (fst (s1, ok1)) with s1 in *. change (snd (s1, ok1)) with ok1 in *.
    unfold rest in Hr. injection Hr as Hc1 Hi1 Hn1 Hdg1 _ _ _ _ _ _ _ _ _ _.
    split; [exact Hok|]. apply (Inv_build _ (n s)); try assumption; congruence.
  - split; [reflexivity|]. apply (Inv_same_mem s); [exact HI | first [reflexivity | cbn; rewrite Ec; reflexivity] .. | cbn; auto].
  - split; [reflexivity|]. apply (Inv_same_mem s); [exact HI | first [reflexivity | cbn; rewrite Ec; reflexivity] .. | cbn; auto].
  - split; [reflexivity|]. apply (Inv_same_mem s); [exact HI | first [reflexivity | cbn; rewrite Ec; reflexivity] .. | cbn; intros X; discriminate X].
  - destruct (init s) eqn:Ei.
    + destruct HI as [(Hd & Hi & Hs & Hc) Hp]. destruct (Hi Ei) as [Hn Hdg].
      unfold shape in Hd. rewrite Ei in Hd.
      destruct (H_free_data s (n s) eq_refl Hdg Hn s Hd) as [Hok Hd1].
      destruct (exec_mops s (free_data_mops s)) as [s1 ok1].
      change (fst (s1, ok1)) with s1 in *. change (snd (s1, ok1)) with ok1 in *.
      split; [exact Hok|]. unfold Inv, Inv0, shape. cbn.
      split; [split; [|split; [|split]]|]; try (intros X; discriminate X); try reflexivity.
      destruct Hd1 as [A B C]. constructor; cbn; auto.
    + split; [reflexivity|]. destruct HI as [(Hd & Hi & Hs & Hc) Hp]. unfold shape in Hd. rewrite Ei in Hd.
      unfold Inv, Inv0, shape. cbn.
      split; [split; [|split; [|split]]|]; try (intros X; discriminate X); try reflexivity.
      destruct Hd as [A B C]. constructor; cbn; auto.
Qed.

Lemma run_from_fixed : forall ops s ok, Inv s -> Forall op_wf ops ->
  snd (fold_left (fun (acc : state * bool) o => let '(s1, ok1) := step Fixed (fst acc) o in (s1, snd acc && ok1)) ops (s, ok)) = ok /\
  Inv (fst (fold_left (fun (acc : state * bool) o => let '(s1, ok1) := step Fixed (fst acc) o in (s1, snd acc && ok1)) ops (s, ok))).
Proof.
  induction ops as [|o r IH]; intros s ok HI Hwf; [split; [reflexivity | exact HI]|].
  inversion Hwf as [|? ? Ho Hr]; subst. cbn [fold_left fst snd].
  destruct (step_fixed s o HI Ho) as [Hok HI1].
  destruct (step Fixed s o) as [s1 ok1]. cbn [fst snd] in *. subst ok1.
  rewrite andb_true_r. apply IH; assumption.
Qed.

Theorem accesses_in_bounds_fixed : forall ops, Forall op_wf ops ->
  snd (run Fixed ops) = true /\ (fst (run Fixed ops)).(leaked) = false.
Proof.
  intros ops Hwf. unfold run, run_from.
  destruct (run_from_fixed ops empty_state true Inv_empty Hwf) as [A B].
  split; [exact A|]. destruct B as [(Hd & _) _]. apply Hd.
Qed.

(* everything is released by free (private pools of async solves excepted, see [pools]) *)
Theorem release_fixed : forall ops, Forall op_wf ops ->
  released (fst (run Fixed (ops ++ [OFree]))).
Proof.
  intros ops Hwf.
  assert (Hwf' : Forall op_wf (ops ++ [OFree])) by (apply Forall_app; split; [exact Hwf | repeat constructor]).
  unfold run, run_from in *.
  destruct (run_from_fixed (ops ++ [OFree]) empty_state true Inv_empty Hwf') as [_ B].
  rewrite fold_left_app in *. cbn [fold_left] in *.
  set (acc := fold_left _ ops (empty_state, true)) in *.
  assert (Ei : init (fst (let '(s1, ok1) := step Fixed (fst acc) OFree in (s1, snd acc && ok1))) = false).
  { unfold step. destruct (ctx (fst acc)) eqn:Ec; cbn [negb].
    - destruct (init (fst acc)); [destruct (exec_mops _ _)|]; reflexivity.
    - destruct (run_from_fixed ops empty_state true Inv_empty Hwf) as [_ [(_ & _ & _ & Hc) _]].
      fold acc in Hc. apply Hc. exact Ec. }
  destruct B as [(Hd & _) _]. unfold shape in Hd. rewrite Ei in Hd. destruct Hd as [A _ C].
  split; [exact A | exact C].
Qed.

(* ---------- history independence ---------- *)

Lemma run_from_snoc : forall v ops s o,
  fst (run_from v s (ops ++ [o])) = fst (step v (fst (run_from v s ops)) o).
Proof.
  intros v ops s o. unfold run_from. rewrite fold_left_app. cbn [fold_left].
  destruct (step v _ o). reflexivity.
Qed.

Lemma run_Inv : forall ops, Forall op_wf ops -> Inv (fst (run Fixed ops)).
Proof. intros ops Hwf. apply (run_from_fixed ops empty_state true Inv_empty Hwf). Qed.

Lemma config_of : forall s' m z a g,
  D s' (szf m) (szf m) -> 1 <= m ->
  s'.(init) = true -> s'.(n) = m -> s'.(deg) = m -> s'.(zr) = z ->
  s'.(sec) = match a with AlgoS => Some m | AlgoU => None end ->
  s'.(alg) = a -> s'.(gl) = g -> s'.(cluster_clean) = true ->
  config s' = fresh_config m z a g.
Proof.
  intros s' m z a g [A B C] Hm Hi Hn Hdg Hz Hs Ha Hg Hcc.
  unfold config, fresh_config. rewrite Hi, Hn, Hdg, Hz, Hs, Ha, Hg, Hcc.
  cbn [map all_arrs]. rewrite !A.
  assert (L : forall b, is_obj b = true -> forallb (live s' b) (zrange 0 (szf m b)) = true).
  { intros b Hb. apply forallb_zrange. intros i Hi'. rewrite (B b i Hb). unfold in_range. lia. }
  rewrite (L Root eq_refl), (L Mfpc1 eq_refl), (L Mfppc1 eq_refl). reflexivity.
Qed.

Definition with_settings (s1 : state) (a : algo) (g : goal) : state :=
  {| ctx := true; init := init s1; n := n s1; deg := deg s1; zr := zr s1; alloc := alloc s1; live := live s1;
     sec := sec s1; err := err s1; exitreq := exitreq s1; alg := a; gl := g; have_poly := have_poly s1;
     kind := kind s1; cluster_clean := cluster_clean s1; leaked := leaked s1; pools := pools s1 |}.

Lemma step_setpoly_ctx : forall v s d z k, ctx s = true -> step v s (OSetPoly d z k) = set_poly v s d z k.
Proof. intros v s d z k E. unfold step. rewrite E. reflexivity. Qed.
Lemma step_noctx : forall v s o, ctx s = false -> o <> ONew -> step v s o = (s, true).
Proof. intros v s o E Ho. unfold step. rewrite E. cbn [negb]. destruct o; try reflexivity. congruence. Qed.

Lemma tail_state : forall v s0 d z k a g, ctx s0 = true -> ctx (fst (set_poly v s0 d z k)) = true ->
  fst (step v (fst (step v (fst (step v s0 (OSetPoly d z k))) (OAlgo a))) (OGoal g)) =
  with_settings (fst (set_poly v s0 d z k)) a g.
Proof.
  intros v s0 d z k a g E0 E1. rewrite (step_setpoly_ctx v s0 d z k E0).
  set (s1 := fst (set_poly v s0 d z k)) in *. clearbody s1.
  destruct s1; cbn in E1; subst; reflexivity.
Qed.

Lemma tail_ctx : forall v s0 d z k a g,
  ctx (fst (step v (fst (step v (fst (step v s0 (OSetPoly d z k))) (OAlgo a))) (OGoal g))) = true -> ctx s0 = true.
Proof.
  intros v s0 d z k a g Hc. destruct (ctx s0) eqn:E; [reflexivity|].
  rewrite (step_noctx v s0 (OSetPoly d z k) E) in Hc by discriminate. cbn [fst] in Hc.
  rewrite (step_noctx v s0 (OAlgo a) E) in Hc by discriminate. cbn [fst] in Hc.
  rewrite (step_noctx v s0 (OGoal g) E) in Hc by discriminate. cbn [fst] in Hc. congruence.
Qed.

Theorem history_independent_fixed : forall h d z k a g,
  Forall op_wf h -> op_wf (OSetPoly d z k) ->
  let s := fst (run Fixed (h ++ [OSetPoly d z k; OAlgo a; OGoal g])) in
  s.(ctx) = true ->
  snd (solve_prepare s) = true /\ config (fst (solve_prepare s)) = fresh_config (d - z) z a g.
Proof.
  intros h d z k a g Hh Hp s Hc. subst s.
  change (h ++ [OSetPoly d z k; OAlgo a; OGoal g]) with (h ++ [OSetPoly d z k] ++ [OAlgo a] ++ [OGoal g]) in *.
  rewrite !app_assoc in *. unfold run in *.
  rewrite !run_from_snoc in *.
  pose proof (run_Inv h Hh) as HI. unfold run in HI.
  set (s0 := fst (run_from Fixed empty_state h)) in *. clearbody s0.
  pose proof (tail_ctx _ _ _ _ _ _ _ Hc) as Ec0.
  destruct (set_poly_fixed s0 d z k HI Hp) as (_ & HI1 & Hr1).
  unfold poly_rest, rest in Hr1. injection Hr1 as Hc1 Hi1 Hn1 Hdg1 Hz1 Hs1 He1 Hx1 Ha1 Hg1 Hp1 Hk1 Hcc1 Hpl1.
  assert (Ec1 : ctx (fst (set_poly Fixed s0 d z k)) = true) by (rewrite Hc1; exact Ec0).
  rewrite (tail_state Fixed s0 d z k a g Ec0 Ec1) in *.
  set (s1 := fst (set_poly Fixed s0 d z k)) in *. clearbody s1.
  assert (HI3 : Inv (with_settings s1 a g)).
  { apply (Inv_same_mem s1); try exact HI1; try reflexivity; cbn; auto. }
  assert (Hwfp : 1 <= d - z) by (destruct Hp as (_ & X & _); exact X).
  destruct (prepare_fixed (with_settings s1 a g) HI3 Hp1 eq_refl) as (Hok & Hd & Hr).
  split; [exact Hok|].
  cbn [with_settings n deg zr alg sec err exitreq gl kind pools] in Hr, Hd. rewrite Hn1 in Hd.
  unfold rest in Hr. injection Hr as _ Hi' Hn' Hdg' Hz' Hs' _ _ Ha' Hg' _ _ Hcc' _.
  apply config_of; try assumption;
    try (rewrite Hn'; exact Hn1); try (rewrite Hdg'; exact Hdg1); try (rewrite Hz'; exact Hz1);
    try (rewrite Hs', Hs1, Hn1; destruct a; reflexivity).
Qed.

(* the two sticky flags: their effect on a solve *)
Theorem error_flag_makes_solve_noop : forall v s, s.(ctx) = true -> s.(err) = true ->
  step v s OSolve = (s, true).
Proof.
  intros v s Ec Ee. unfold step. rewrite Ec. cbn [negb]. unfold solve. rewrite Ee.
  destruct (have_poly s); reflexivity.
Qed.

Theorem exit_flag_makes_secular_solve_fail : forall s, Inv s -> s.(ctx) = true -> s.(have_poly) = true ->
  s.(err) = false -> s.(exitreq) = true -> s.(alg) = AlgoS -> s.(kind) = KSecular ->
  (fst (step Fixed s OSolve)).(err) = true.
Proof.
  intros s HI Ec Ep Ee Ex Ea Ek. unfold step. rewrite Ec. cbn [negb]. unfold solve. rewrite Ep, Ee. cbn [negb].
  destruct (prepare_fixed s HI Ep Ec) as (_ & _ & Hr).
  destruct (solve_prepare s) as [s1 ok1]. cbn [fst] in Hr.
  unfold rest in Hr. injection Hr as _ _ _ _ _ _ _ Hx Ha _ _ Hk _ _.
  rewrite Ha, Ea, Hx, Ex, Hk, Ek. reflexivity.
Qed.

(* ... and for polynomial input the aborted secular solve returns without any error (secular-ga.c:295 -> cleanup -> :623) *)
Theorem exit_flag_quiet_for_polynomial_input : forall s, Inv s -> s.(ctx) = true -> s.(have_poly) = true ->
  s.(err) = false -> s.(exitreq) = true -> s.(kind) <> KSecular ->
  (fst (step Fixed s OSolve)).(err) = false /\ (fst (step Fixed s OSolve)).(exitreq) = true.
Proof.
  intros s HI Ec Ep Ee Ex Ek. unfold step. rewrite Ec. cbn [negb]. unfold solve. rewrite Ep, Ee. cbn [negb].
  destruct (prepare_fixed s HI Ep Ec) as (_ & _ & Hr).
  destruct (solve_prepare s) as [s1 ok1]. cbn [fst] in Hr.
  unfold rest in Hr. injection Hr as _ _ _ _ _ _ He Hx Ha _ _ Hk _ _.
  assert (T : err (fst (let '(s2, ok2) := exec_mops s1 (touch_mops s1) in (with_solve s2 true (sec s2) false, ok1 && ok2))) = false /\
              exitreq (fst (let '(s2, ok2) := exec_mops s1 (touch_mops s1) in (with_solve s2 true (sec s2) false, ok1 && ok2))) = true).
  { pose proof (exec_mops_rest (touch_mops s1) s1) as Hr2.
    destruct (exec_mops s1 (touch_mops s1)) as [s2 ok2]. cbn [fst] in Hr2.
    unfold rest in Hr2. injection Hr2 as _ _ _ _ _ _ He2 Hx2 _ _ _ _ _ _. cbn. rewrite He2, Hx2, He, Hx, Ee, Ex. split; reflexivity. }
  destruct (alg s1); [exact T|]. destruct (exitreq s1); [|exact T].
  destruct (kind s1) eqn:Ek1; try exact T. exfalso. apply Ek. symmetry. exact Hk.
Qed.

(* ---------- the code as it is today: refutations (replayed on the real library by checks/C15.py) ---------- *)

(* x^2-1 solved, then x^8+x^5 given to the same context: mps_context_expand starts at root[2-5] *)
Definition witness_zero_roots : list op :=
  [ONew; OSetPoly 2 0 KMonomial; OSolve; OSetPoly 8 5 KMonomial].

(* x^2-1 solved, then a degree 8 polynomial parsed from .pol text by the same context: no resize at all *)
Definition witness_parse : list op :=
  [ONew; OSetPoly 2 0 KMonomial; OSolve; OSetPoly 8 0 KFileMonomial; OSolve].

(* degree 8 solved, then x^5+x^2...: mps_context_shrink forgets root[6], root[7] *)
Definition witness_shrink_leak : list op :=
  [ONew; OSetPoly 8 0 KMonomial; OSolve; OSetPoly 5 2 KMonomial; OSolve; OFree].

(* x^8+x^5, then a secular equation: zero_roots keeps the value 5 *)
Definition witness_sticky_zero_roots : list op :=
  [ONew; OSetPoly 8 5 KMonomial; OSetPoly 4 0 KSecular; OAlgo AlgoS; OGoal GoalIsolate].

Lemma wf_zero_roots : Forall op_wf witness_zero_roots.
Proof. repeat constructor; cbn; try lia; discriminate. Qed.
Lemma wf_parse : Forall op_wf witness_parse.
Proof. repeat constructor; cbn; try lia; discriminate. Qed.
Lemma wf_shrink_leak : Forall op_wf witness_shrink_leak.
Proof. repeat constructor; cbn; try lia; discriminate. Qed.
Lemma wf_sticky : Forall op_wf witness_sticky_zero_roots.
Proof. repeat constructor; cbn; try lia; try discriminate; reflexivity. Qed.

Theorem unfixed_refuted :
  exists ops, Forall op_wf ops /\ snd (run Old ops) = false.
Proof. exists witness_zero_roots. split; [exact wf_zero_roots | vm_compute; reflexivity]. Qed.

Theorem unfixed_parse_refuted :
  exists ops, Forall op_wf ops /\ snd (run Old ops) = false.
Proof. exists witness_parse. split; [exact wf_parse | vm_compute; reflexivity]. Qed.

Theorem unfixed_leak_refuted :
  exists ops, Forall op_wf ops /\ snd (run Old (ops ++ [OFree])) = true /\ ~ released (fst (run Old (ops ++ [OFree]))).
Proof.
  exists witness_shrink_leak. split; [exact wf_shrink_leak|]. split; [vm_compute; reflexivity|].
  intros [_ Hl]. vm_compute in Hl. discriminate Hl.
Qed.

Theorem unfixed_history_dependent :
  exists h d z k a g, Forall op_wf h /\ op_wf (OSetPoly d z k) /\
    let s := fst (run Old (h ++ [OSetPoly d z k; OAlgo a; OGoal g])) in
    s.(ctx) = true /\ config (fst (solve_prepare s)) <> fresh_config (d - z) z a g.
Proof.
  exists [ONew; OSetPoly 8 5 KMonomial], 4, 0, KSecular, AlgoS, GoalIsolate.
  split; [repeat constructor; cbn; try lia; discriminate|].
  split; [cbn; repeat split; try lia; reflexivity|].
  split; [vm_compute; reflexivity|]. vm_compute. intros X. discriminate X.
Qed.

(* every asynchronous solve leaves one private thread pool behind (no repair proposed) *)
Theorem async_pool_never_released : forall v s, s.(ctx) = true -> s.(have_poly) = true ->
  (fst (step v s OSolveAsync)).(pools) = s.(pools) + 1.
Proof.
  intros v s Ec Ep. unfold step. rewrite Ec, Ep. cbn [negb]. unfold solve. cbn [add_pool have_poly err]. rewrite Ep. cbn [negb].
  destruct (err s); [reflexivity|].
  pose proof (exec_mops_rest) as R.
  unfold solve_prepare. cbn [add_pool init alg sec n].
  destruct (init s).
  - cbn. destruct (alg s); [|destruct (exitreq s); [destruct (kind s)|]]; cbn;
      try (match goal with |- context [exec_mops ?x ?y] => pose proof (R y x) as Hr; destruct (exec_mops x y) as [s2 ok2] end;
           unfold rest in Hr; cbn in Hr; injection Hr as _ _ _ _ _ _ _ _ _ _ _ _ _ Hpl; cbn; exact Hpl); reflexivity.
  - match goal with |- context [exec_mops ?x ?y] => pose proof (R y x) as Hr0; destruct (exec_mops x y) as [s1 ok1] end.
    unfold rest in Hr0. cbn in Hr0. injection Hr0 as _ _ _ _ _ _ _ Hx Ha _ _ Hk _ Hpl0.
    cbn. rewrite Ha, Hx, Hk. destruct (alg s); [|destruct (exitreq s); [destruct (kind s)|]]; cbn;
      try (match goal with |- context [exec_mops ?x ?y] => pose proof (R y x) as Hr; destruct (exec_mops x y) as [s2 ok2] end;
           unfold rest in Hr; cbn in Hr; injection Hr as _ _ _ _ _ _ _ _ _ _ _ _ _ Hpl; cbn; rewrite Hpl; exact Hpl0); exact Hpl0.
Qed.
