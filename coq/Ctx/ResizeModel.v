(* C15: bookkeeping model of context reuse (definitions only).

   What is modelled (branch by branch) from /repo/src/libmps:
     common/context.c   mps_context_new, mps_context_set_input_poly, mps_context_set_degree,
                        mps_context_resize, mps_context_expand, mps_context_shrink,
                        mps_context_select_algorithm, mps_context_set_output_goal,
                        mps_context_get_roots_*, mps_context_abort, mps_context_free
     system/data.c      mps_allocate_data (allocate-once flag), mps_free_data, mps_raise_data
     common/parser.c    mps_parse_abstract_stream writes the parsed degree into s->n
     common/interface.c mps_mpsolve (early return on error_state), mps_mpsolve_async (private pool)
     secsolve/secular-ga.c  helper secular equation, exit_required poll before the main loop

   What is NOT modelled: the numerical work of a solve.  A solve is abstracted to "touches every
   work array on its whole n-based extent" (the extents used by mps_raise_data, mps_cluster_reset,
   mps_setup, mps_free_data); bmpc (created on demand, data dependent) is left out.

   Each operation is compiled to a list of micro operations (reallocations and index ranges that are
   read / written / initialised / cleared) with the loop bounds AS CODED; the micro operations are then
   interpreted on the allocation state, which decides whether every access hits an allocated and
   (for arrays of objects) initialised slot.

   The model has two variants:
     Old    the code as it is in /repo today
     Fixed  the code after fixes/C15_resize_zero_roots.patch (loops start from the old size),
            fixes/C15_parse_keeps_degree.patch (the parser no longer leaves its degree in s->n of a
            context whose arrays are allocated) and fixes/C15_zero_roots_reset.patch
            (zero_roots := 0 for polynomials that are not deflated). *)
Require Import ZArith List Bool.
Import ListNotations.
Open Scope Z_scope.

Inductive variant := Old | Fixed.

(* the per-degree work arrays of struct mps_context *)
Inductive arr := Root | Order | Fppc1 | Mfpc1 | Mfppc1 | Spar1 | AgainOld | Fap1 | Fap2 | Dap1 | Dpc1 | Dpc2.

Definition all_arrs : list arr :=
  [Root; Order; Fppc1; Mfpc1; Mfppc1; Spar1; AgainOld; Fap1; Fap2; Dap1; Dpc1; Dpc2].

Definition arr_eqb (a b : arr) : bool :=
  match a, b with
  | Root, Root | Order, Order | Fppc1, Fppc1 | Mfpc1, Mfpc1 | Mfppc1, Mfppc1 | Spar1, Spar1
  | AgainOld, AgainOld | Fap1, Fap1 | Fap2, Fap2 | Dap1, Dap1 | Dpc1, Dpc1 | Dpc2, Dpc2 => true
  | _, _ => false
  end.

(* arrays whose slots own heap objects (mps_approximation*, mpc_t): a slot must be initialised
   before it is used and cleared before it is dropped *)
Definition is_obj (a : arr) : bool :=
  match a with Root | Mfpc1 | Mfppc1 => true | _ => false end.

(* number of elements the code allocates for degree n (data.c, context.c) *)
Definition size_for (a : arr) (n : Z) : Z :=
  match a with
  | Root | Order | AgainOld => n
  | Spar1 => n + 2
  | _ => n + 1
  end.

Inductive algo := AlgoU | AlgoS.            (* MPS_ALGORITHM_STANDARD_MPSOLVE | MPS_ALGORITHM_SECULAR_GA *)
Inductive goal := GoalIsolate | GoalApprox | GoalCount.
(* how the polynomial reaches the context *)
Inductive pkind :=
| KMonomial       (* built with mps_monomial_poly_new: deflated by set_input_poly *)
| KSecular        (* mps_secular_equation_new: not deflated *)
| KFileMonomial   (* monomial polynomial read by mps_parse_string/mps_parse_stream from .pol text *)
| KChebyshev.     (* mps_chebyshev_poly_new: not a monomial polynomial (not deflated), not a secular equation *)

(* the [else] branch of MPS_IS_MONOMIAL_POLY in mps_context_set_input_poly (context.c:326) *)
Definition non_monomial (k : pkind) : bool :=
  match k with KSecular | KChebyshev => true | _ => false end.

Record state := mk {
  ctx : bool;                (* a context exists (between new and free) *)
  init : bool;               (* s->initialized *)
  n : Z; deg : Z; zr : Z;    (* s->n, s->deg, s->zero_roots *)
  alloc : arr -> Z;          (* elements allocated (0 = no block) *)
  live : arr -> Z -> bool;   (* initialised object slots (meaningful for is_obj arrays) *)
  sec : option Z;            (* s->secular_equation: helper owned by the context, with its degree *)
  err : bool;                (* s->error_state   (sticky) *)
  exitreq : bool;            (* s->exit_required (sticky) *)
  alg : algo;
  gl : goal;
  have_poly : bool;          (* active polynomial set and still alive *)
  kind : pkind;
  cluster_clean : bool;      (* cluster structure was reset and not yet used *)
  leaked : bool;             (* some owned object / block was dropped without being released *)
  pools : Z                  (* private thread pools created by mps_mpsolve_async and never freed *)
}.

Inductive op :=
| ONew
| OSetPoly (d z : Z) (k : pkind)    (* degree d as given, z zero roots (trailing zero coefficients) *)
| OAlgo (a : algo)
| OGoal (g : goal)
| OSolve
| OSolveAsync
| OGetRoots
| OBad                              (* a failing operation in between: mps_error *)
| OAbort
| OFreePoly
| OFree.

Inductive mop :=
| Realloc (a : arr) (sz : Z)
| FreeArr (a : arr)
| RdRange (a : arr) (lo hi : Z)
| WrRange (a : arr) (lo hi : Z)
| InitRange (a : arr) (lo hi : Z)
| ClearRange (a : arr) (lo hi : Z).

(* ---- interpretation of micro operations ---- *)

Definition zrange (lo hi : Z) : list Z := map (fun k => lo + Z.of_nat k) (seq 0 (Z.to_nat (hi - lo))).

Definition in_range (lo hi i : Z) : bool := (lo <=? i) && (i <? hi).

Definition upd_alloc (f : arr -> Z) (a : arr) (v : Z) : arr -> Z :=
  fun b => if arr_eqb a b then v else f b.

Definition set_alloc (s : state) (f : arr -> Z) : state :=
  mk s.(ctx) s.(init) s.(n) s.(deg) s.(zr) f s.(live) s.(sec) s.(err) s.(exitreq) s.(alg) s.(gl)
     s.(have_poly) s.(kind) s.(cluster_clean) s.(leaked) s.(pools).
Definition set_live (s : state) (f : arr -> Z -> bool) : state :=
  mk s.(ctx) s.(init) s.(n) s.(deg) s.(zr) s.(alloc) f s.(sec) s.(err) s.(exitreq) s.(alg) s.(gl)
     s.(have_poly) s.(kind) s.(cluster_clean) s.(leaked) s.(pools).
Definition set_leaked (s : state) (b : bool) : state :=
  mk s.(ctx) s.(init) s.(n) s.(deg) s.(zr) s.(alloc) s.(live) s.(sec) s.(err) s.(exitreq) s.(alg) s.(gl)
     s.(have_poly) s.(kind) s.(cluster_clean) b s.(pools).

(* bounds of a (non empty) range against the block *)
Definition range_inb (s : state) (a : arr) (lo hi : Z) : bool :=
  (hi <=? lo) || ((0 <=? lo) && (hi <=? s.(alloc) a)).

(* result: new state, and whether the access was valid *)
Definition exec_mop (s : state) (m : mop) : state * bool :=
  match m with
  | Realloc a sz =>
      let lost := is_obj a && existsb (s.(live) a) (zrange sz (s.(alloc) a)) in
      let s1 := set_live s (fun b i => s.(live) b i && (negb (arr_eqb a b) || (i <? sz))) in
      (set_leaked (set_alloc s1 (upd_alloc s.(alloc) a sz)) (s.(leaked) || lost), true)
  | FreeArr a =>
      let lost := is_obj a && existsb (s.(live) a) (zrange 0 (s.(alloc) a)) in
      let s1 := set_live s (fun b i => s.(live) b i && negb (arr_eqb a b)) in
      (set_leaked (set_alloc s1 (upd_alloc s.(alloc) a 0)) (s.(leaked) || lost), true)
  | RdRange a lo hi | WrRange a lo hi =>
      (s, range_inb s a lo hi && (negb (is_obj a) || forallb (s.(live) a) (zrange lo hi)))
  | InitRange a lo hi =>
      (* initialising a slot that is already live drops the old object *)
      let lost := existsb (s.(live) a) (zrange lo hi) in
      let s1 := set_live s (fun b i => s.(live) b i || (arr_eqb a b && in_range lo hi i)) in
      (set_leaked s1 (s.(leaked) || lost), range_inb s a lo hi)
  | ClearRange a lo hi =>
      (* clearing a slot that is not live is a double free *)
      let s1 := set_live s (fun b i => s.(live) b i && negb (arr_eqb a b && in_range lo hi i)) in
      (s1, range_inb s a lo hi && forallb (s.(live) a) (zrange lo hi))
  end.

Fixpoint exec_mops (s : state) (ms : list mop) : state * bool :=
  match ms with
  | [] => (s, true)
  | m :: r => let '(s1, ok1) := exec_mop s m in
              let '(s2, ok2) := exec_mops s1 r in (s2, ok1 && ok2)
  end.

(* ---- the operations, compiled to micro operations ---- *)

(* context.c:213 mps_context_expand (s, n') ; [off] is what the loops subtract from the old size *)
Definition expand_mops (nold off n' : Z) : list mop :=
  [ RdRange Mfpc1 0 1;                                   (* mpc_get_prec (s->mfpc1[0]) *)
    Realloc Root n'; InitRange Root (nold - off) n';
    Realloc Order n'; Realloc Fppc1 (n' + 1);
    Realloc Mfpc1 (n' + 1); InitRange Mfpc1 (nold + 1 - off) (n' + 1);
    Realloc Mfppc1 (n' + 1); InitRange Mfppc1 (nold + 1 - off) (n' + 1);
    Realloc Spar1 (n' + 2); Realloc AgainOld n';
    Realloc Fap1 (n' + 1); Realloc Fap2 (n' + 1);
    Realloc Dap1 (n' + 1); Realloc Dpc1 (n' + 1); Realloc Dpc2 (n' + 1);
    WrRange Root 0 n' ].                                 (* s->root[i]->wp = ... *)

(* context.c:170 mps_context_shrink (s, n') *)
Definition shrink_mops (nold off n' : Z) : list mop :=
  [ ClearRange Root n' (nold - off); Realloc Root n';
    Realloc Order n'; Realloc Fppc1 (n' + 1);
    ClearRange Mfpc1 (n' + 1) (nold - off + 1); Realloc Mfpc1 (n' + 1);
    ClearRange Mfppc1 (n' + 1) (nold - off + 1); Realloc Mfppc1 (n' + 1);
    Realloc Spar1 (n' + 2); Realloc AgainOld n';
    Realloc Fap1 (n' + 1); Realloc Fap2 (n' + 1);
    Realloc Dap1 (n' + 1); Realloc Dpc1 (n' + 1); Realloc Dpc2 (n' + 1);
    WrRange Root 0 n' ].

(* context.c:254 mps_context_resize *)
Definition resize_mops (v : variant) (s : state) (n' : Z) : list mop :=
  let off := match v with Old => s.(zr) | Fixed => 0 end in
  if s.(n) <? n' then expand_mops s.(n) off n'
  else if n' <? s.(n) then shrink_mops s.(n) off n'
  else [].

(* data.c:43 mps_allocate_data, when not yet initialised *)
Definition allocate_mops (s : state) : list mop :=
  [ Realloc Root s.(n); InitRange Root 0 s.(n);
    RdRange Root 0 s.(n);                                (* mps_cluster_reset *)
    Realloc Order s.(deg); Realloc Fppc1 (s.(deg) + 1);
    Realloc Mfpc1 (s.(deg) + 1); InitRange Mfpc1 0 (s.(deg) + 1);
    Realloc Mfppc1 (s.(deg) + 1); InitRange Mfppc1 0 (s.(deg) + 1);
    Realloc Spar1 (s.(deg) + 2); Realloc AgainOld s.(deg);
    Realloc Fap1 (s.(deg) + 1); Realloc Fap2 (s.(deg) + 1);
    Realloc Dap1 (s.(deg) + 1); Realloc Dpc1 (s.(deg) + 1); Realloc Dpc2 (s.(deg) + 1);
    WrRange Root 0 s.(n) ].

(* the extents a solve works on (mps_cluster_reset, mps_setup, mps_raise_data, solvers) *)
Definition touch_mops (s : state) : list mop :=
  [ RdRange Root 0 s.(n); WrRange Root 0 s.(n); WrRange Order 0 s.(n);
    WrRange Mfpc1 0 (s.(n) + 1); WrRange Mfppc1 0 (s.(n) + 1); WrRange Fppc1 0 (s.(n) + 1);
    WrRange Spar1 0 (s.(n) + 2); WrRange AgainOld 0 s.(n);
    WrRange Fap1 0 (s.(n) + 1); WrRange Fap2 0 (s.(n) + 1);
    WrRange Dap1 0 (s.(n) + 1); WrRange Dpc1 0 (s.(n) + 1); WrRange Dpc2 0 (s.(n) + 1) ].

(* data.c:227 mps_free_data *)
Definition free_data_mops (s : state) : list mop :=
  [ FreeArr Order;
    ClearRange Root 0 s.(n); FreeArr Root;
    ClearRange Mfpc1 0 (s.(deg) + 1); FreeArr Mfpc1; FreeArr Fppc1;
    ClearRange Mfppc1 0 (s.(deg) + 1); FreeArr Mfppc1;
    FreeArr Spar1; FreeArr AgainOld; FreeArr Fap1; FreeArr Fap2; FreeArr Dap1; FreeArr Dpc1; FreeArr Dpc2 ].

Definition empty_state : state :=
  mk false false 0 0 0 (fun _ => 0) (fun _ _ => false) None false false AlgoU GoalIsolate
     false KMonomial false false 0.

(* field updates used below *)
Definition with_poly (s : state) (n' zr' : Z) (k : pkind) (sec' : option Z) (lk : bool) : state :=
  mk s.(ctx) s.(init) n' n' zr' s.(alloc) s.(live) sec' s.(err) s.(exitreq) s.(alg) s.(gl)
     true k s.(cluster_clean) lk s.(pools).
Definition with_n (s : state) (n' : Z) : state :=
  mk s.(ctx) s.(init) n' s.(deg) s.(zr) s.(alloc) s.(live) s.(sec) s.(err) s.(exitreq) s.(alg) s.(gl)
     s.(have_poly) s.(kind) s.(cluster_clean) s.(leaked) s.(pools).
Definition with_zr (s : state) (z : Z) : state :=
  mk s.(ctx) s.(init) s.(n) s.(deg) z s.(alloc) s.(live) s.(sec) s.(err) s.(exitreq) s.(alg) s.(gl)
     s.(have_poly) s.(kind) s.(cluster_clean) s.(leaked) s.(pools).
Definition with_flags (s : state) (e x : bool) : state :=
  mk s.(ctx) s.(init) s.(n) s.(deg) s.(zr) s.(alloc) s.(live) s.(sec) e x s.(alg) s.(gl)
     s.(have_poly) s.(kind) s.(cluster_clean) s.(leaked) s.(pools).
Definition with_solve (s : state) (i : bool) (sec' : option Z) (cc : bool) : state :=
  mk s.(ctx) i s.(n) s.(deg) s.(zr) s.(alloc) s.(live) sec' s.(err) s.(exitreq) s.(alg) s.(gl)
     s.(have_poly) s.(kind) cc s.(leaked) s.(pools).

(* context.c:266 mps_context_set_degree (s, n'), followed by the bookkeeping of set_input_poly.
   The helper is freed first; then resize reads the NEW zero_roots and the OLD n. *)
Definition set_degree (v : variant) (s1 : state) (n' : Z) (k : pkind) : state * bool :=
  let '(s2, ok) :=
     if s1.(init) then exec_mops s1 (resize_mops v s1 n') else (s1, true) in
  let sec_after_first := if s1.(init) then None else s1.(sec) in
  (* context.c:291: a helper that is still present is freed only when too small; the pointer is dropped anyway *)
  let lk := match sec_after_first with
            | Some dsec => negb (dsec <? n')
            | None => false
            end in
  (with_poly s2 n' s1.(zr) k None (s2.(leaked) || lk), ok).

(* parser.c:259,305: the .pol parser stores the degree it reads in s->n *)
Definition parser_effect (v : variant) (s : state) (d : Z) (k : pkind) : state :=
  match k, v with
  | KFileMonomial, Old => with_n s d
  | KFileMonomial, Fixed => if s.(init) then s else with_n s d
  | _, _ => s
  end.

(* context.c:305 mps_context_set_input_poly.
   d = degree of the polynomial as given, z = its zero roots. *)
Definition set_poly (v : variant) (s : state) (d z : Z) (k : pkind) : state * bool :=
  let s0 := parser_effect v s d k in
  (* deflation, s->zero_roots = original_degree - p->degree (monomial polynomials only) *)
  if non_monomial k then set_degree v (with_zr s0 (match v with Old => s0.(zr) | Fixed => 0 end)) d k
  else set_degree v (with_zr s0 z) (d - z) k.

(* the part of a solve that precedes the numerical work: allocate-once, helper, cluster reset *)
Definition solve_prepare (s : state) : state * bool :=
  let sec' := match s.(alg) with
              | AlgoS => match s.(sec) with Some x => Some x | None => Some s.(n) end
              | AlgoU => s.(sec)
              end in
  let '(s1, ok1) := if s.(init) then (s, true) else exec_mops s (allocate_mops s) in
  (with_solve s1 true sec' true, ok1).

Definition solve (s : state) : state * bool :=
  if negb s.(have_poly) then (s, true)          (* not a valid call: skipped by the harness as well *)
  else if s.(err) then (s, true)                (* interface.c:68: early return *)
  else
    let '(s1, ok1) := solve_prepare s in
    match s1.(alg), s1.(exitreq), s1.(kind) with
    | AlgoS, true, KSecular =>
        (* secular-ga.c:409: "Exit forced by the caller" -- reached only when the input IS a secular equation.  For
           polynomial input (monomial, Chebyshev) mps_secular_ga_check_stop (:78, called at :295) answers true after
           the first Aberth packet, control goes to cleanup: and the function returns at :623 WITHOUT an error: the
           branch below (its accesses are a subset of the extents of a full solve). *)
        (with_flags s1 true true, ok1)
    | _, _, _ =>
        let '(s2, ok2) := exec_mops s1 (touch_mops s1) in
        (with_solve s2 true s2.(sec) false, ok1 && ok2)
    end.

Definition add_pool (s : state) : state :=
  mk s.(ctx) s.(init) s.(n) s.(deg) s.(zr) s.(alloc) s.(live) s.(sec) s.(err) s.(exitreq) s.(alg) s.(gl)
     s.(have_poly) s.(kind) s.(cluster_clean) s.(leaked) (s.(pools) + 1).

Definition step (v : variant) (s : state) (o : op) : state * bool :=
  if negb s.(ctx) then
    match o with
    | ONew => (mk true false 0 0 0 (fun _ => 0) (fun _ _ => false) None false false AlgoU GoalIsolate
                  false KMonomial false s.(leaked) s.(pools), true)
    | _ => (s, true)
    end
  else
    match o with
    | ONew => (s, true)
    | OSetPoly d z k => set_poly v s d z k
    | OAlgo a => (mk s.(ctx) s.(init) s.(n) s.(deg) s.(zr) s.(alloc) s.(live) s.(sec) s.(err) s.(exitreq) a s.(gl)
                     s.(have_poly) s.(kind) s.(cluster_clean) s.(leaked) s.(pools), true)
    | OGoal g => (mk s.(ctx) s.(init) s.(n) s.(deg) s.(zr) s.(alloc) s.(live) s.(sec) s.(err) s.(exitreq) s.(alg) g
                     s.(have_poly) s.(kind) s.(cluster_clean) s.(leaked) s.(pools), true)
    | OSolve => solve s
    | OSolveAsync => if s.(have_poly) then solve (add_pool s) else (s, true)
    | OGetRoots => if s.(init) then exec_mops s [RdRange Root 0 s.(n)] else (s, true)
    | OBad => (with_flags s true s.(exitreq), true)
    | OAbort => (with_flags s s.(err) true, true)
    | OFreePoly => (mk s.(ctx) s.(init) s.(n) s.(deg) s.(zr) s.(alloc) s.(live) s.(sec) s.(err) s.(exitreq) s.(alg) s.(gl)
                       false s.(kind) s.(cluster_clean) s.(leaked) s.(pools), true)
    | OFree =>
        let '(s1, ok) := if s.(init) then exec_mops s (free_data_mops s) else (s, true) in
        (mk false false 0 0 0 s1.(alloc) s1.(live) None false false AlgoU GoalIsolate
            false KMonomial false s1.(leaked) s1.(pools), ok)
    end.

(* run a history; the flag says whether every access so far was valid *)
Definition run_from (v : variant) (s : state) (ops : list op) : state * bool :=
  fold_left (fun (acc : state * bool) o => let '(s1, ok) := step v (fst acc) o in (s1, snd acc && ok))
            ops (s, true).
Definition run (v : variant) (ops : list op) : state * bool := run_from v empty_state ops.

(* operations the property quantifies over: degrees at least 1 after deflation *)
Definition op_wf (o : op) : Prop :=
  match o with
  | OSetPoly d z k => 0 <= z /\ 1 <= d - z /\ (non_monomial k = true -> z = 0)
  | _ => True
  end.

(* the abstract configuration a solve starts its numerical work from *)
Definition config (s : state) : (bool * Z * Z * Z) * list Z * (list bool) * option Z * (bool * algo * goal) :=
  ((s.(init), s.(n), s.(deg), s.(zr)),
   map s.(alloc) all_arrs,
   map (fun a => forallb (s.(live) a) (zrange 0 (s.(alloc) a))) [Root; Mfpc1; Mfppc1],
   s.(sec),
   (s.(cluster_clean), s.(alg), s.(gl))).

(* what [config] must be for a polynomial of deflated degree m with z zero roots *)
Definition fresh_config (m z : Z) (a : algo) (g : goal) :=
  ((true, m, m, z),
   map (fun x => size_for x m) all_arrs,
   [true; true; true],
   match a with AlgoS => Some m | AlgoU => @None Z end,
   (true, a, g)).

Definition released (s : state) : Prop :=
  (forall a, s.(alloc) a = 0) /\ s.(leaked) = false.
