(* C18: mps_mpsolve_async over the C06 pool model (Conc/PoolModel.v), no longer over a definitional pool.
   mps_mpsolve_async creates a private pool (one worker, strict_async) and hands it exactly one task whose
   body is mps_caller = [solve unless the error flag is set; callback].  For every trace of the pool model
   (every interleaving of the client and the pool's threads, including spurious wake-ups) the events of that
   body appear never or once and, as soon as the task counts as executed (or a wait on the pool returns),
   exactly once: the callback is invoked exactly once, after the solve. *)
Require Import List Arith Bool Lia.
Require Import MPSV.Conc.PoolModel MPSV.Conc.PoolAsync.
Require Import MPSV.Ctx.ErrorModel.
Import ListNotations.

Definition async_events (err has_cb : bool) (tr : list label) : list ev := interp (fun _ => caller err has_cb) tr.

Lemma count_cb_caller err : count_cb (caller err true) = 1 /\ cb_last (caller err true) = true.
Proof. destruct err; split; reflexivity. Qed.

Theorem async_callback_once_pool err tr s t :
  run init tr = Some s -> assigned s = [t] ->
  count_cb (async_events err true tr) <= 1 /\
  cb_last (async_events err true tr) = true /\
  (In t (executed s) \/ pc0 s = CRet EWaitRet ->
     async_events err true tr = caller err true /\ count_cb (async_events err true tr) = 1).
Proof.
  intros R A. unfold async_events.
  destruct (pool_async_once (fun _ : task => caller err true) tr s t R A) as (H1 & H2 & H3).
  destruct (count_cb_caller err) as [C L].
  split; [|split].
  - destruct H1 as [E|E]; rewrite E; simpl; lia.
  - destruct H1 as [E|E]; rewrite E; auto.
  - intros [I|P]; [rewrite (H2 I)|rewrite (H3 P)]; auto.
Qed.

(* without a callback (callback == NULL) nothing but the solve happens *)
Theorem async_no_callback_pool err tr s t :
  run init tr = Some s -> assigned s = [t] -> count_cb (async_events err false tr) = 0.
Proof.
  intros R A. unfold async_events.
  destruct (pool_async_once (fun _ : task => caller err false) tr s t R A) as ([E|E] & _); rewrite E; destruct err; reflexivity.
Qed.
