(* C02 - control flow, theorems that combine StopModel.v with the per-root lemmas of GoalProps.v (axiom free). *)
Require Import List Bool ZArith Lia Arith.
Require Import MPSV.Goal.GoalModel MPSV.Goal.GoalProps MPSV.Goal.StopModel MPSV.Goal.StopProps.
Import ListNotations.
Local Open Scope nat_scope.

(* a root that an array call of mps_*modify leaves APPROXIMATED_IN_CLUSTER passed this call's radius test or already had
   that status (the stale path of C02_status_monotone_refuted) *)
Theorem modify_roots_in_cluster : forall v track cls w sts i,
  clusters_wf (length sts) cls -> i < length sts ->
  nth i (modify_roots v track cls w sts) 0 = ST_APPROXIMATED_IN_CLUSTER ->
  nth i w false = true \/ nth i sts 0 = ST_APPROXIMATED_IN_CLUSTER.
Proof.
  intros v track cls w sts i WF Hi H. rewrite modify_roots_pointwise in H by assumption.
  destruct (cluster_of i cls) as [c|].
  - destruct (modify_status_in_cluster _ _ _ _ _ H) as [_ [A|[_ A]]]; [left | right]; exact A.
  - right. unfold retag in H. destruct (track && Nat.eqb (nth i sts 0) ST_CLUSTERED); [discriminate | exact H].
Qed.

Local Open Scope Z_scope.

(* one marking round: every status is unchanged, or it becomes APPROXIMATED because it was not approximated and its
   bits test succeeded *)
Lemma mark_round_pointwise : forall sts bits c sts' c' i,
  mark_round sts bits c = (sts', c') ->
  nth i sts' 0%nat = nth i sts 0%nat \/
  (nth i sts' 0%nat = ST_APPROXIMATED /\ nth i bits false = true /\ is_approximated (nth i sts 0%nat) = false).
Proof.
  induction sts as [|s t IH]; intros bits c sts' c' i H; simpl in H.
  - inversion H; subst. left; reflexivity.
  - destruct (negb (is_approximated s) && match bits with [] => false | b :: _ => b end) eqn:E.
    + destruct (mark_round t _ (c + 1)) as [t' c''] eqn:M. inversion H; subst.
      apply andb_true_iff in E. destruct E as [E1 E2]. apply negb_true_iff in E1.
      destruct i as [|i]; simpl.
      * right. split; [reflexivity|]. destruct bits; [discriminate|]. simpl. split; [exact E2 | exact E1].
      * destruct (IH _ _ _ _ i M) as [A|[A [B C]]]; [left; exact A | right].
        split; [exact A|]. split; [|exact C]. destruct bits; [destruct i; discriminate | exact B].
    + destruct (mark_round t _ c) as [t' c''] eqn:M. inversion H; subst.
      destruct i as [|i]; simpl; [left; reflexivity|].
      destruct (IH _ _ _ _ i M) as [A|[A [B C]]]; [left; exact A | right].
      split; [exact A|]. split; [|exact C]. destruct bits; [destruct i; discriminate | exact B].
Qed.

Lemma improve_loop_marks : forall rounds n pprec sts count cp done io i,
  improve_loop n pprec rounds sts count cp done = Some io ->
  nth i (io_sts io) 0%nat = nth i sts 0%nat \/
  (nth i (io_sts io) 0%nat = ST_APPROXIMATED /\ exists bits, In bits rounds /\ nth i bits false = true).
Proof.
  induction rounds as [|bits rest IH]; intros n pprec sts count cp done io i H;
    [simpl in H | rewrite improve_loop_cons in H].
  - destruct (count <? n); [discriminate|]. inversion H; subst. left; reflexivity.
  - destruct (count <? n); [|discriminate].
    destruct (mark_round sts bits count) as [sts' count'] eqn:M.
    pose proof (mark_round_pointwise _ _ _ _ _ i M) as P.
    destruct ((2 * cp >? pprec) && negb (pprec =? 0)).
    + destruct rest; [|discriminate]. inversion H; subst; simpl.
      destruct P as [P|[P [B _]]]; [left; exact P | right; split; [exact P | exists bits; split; [left; reflexivity | exact B]]].
    + destruct (IH _ _ _ _ _ _ _ i H) as [A|[A [b [Hb B]]]].
      * rewrite A. destruct P as [P|[P [B _]]]; [left; exact P | right; split; [exact P | exists bits; split; [left; reflexivity | exact B]]].
      * right. split; [exact A | exists b; split; [right; exact Hb | exact B]].
Qed.

(* status honesty of mps_improve at the level of its control flow: a root it returns approximated was approximated when it
   started, or get_approximated_bits (root) >= prec held in one of the rounds (C02_bits_imply_radius turns that into the bound) *)
Theorem improve_marks_only_tested : forall nonewton user pprec cp0 rounds rs io i,
  improve nonewton user pprec cp0 rounds rs = Some io ->
  is_approximated (nth i (io_sts io) 0%nat) = true ->
  is_approximated (nth i (map rst rs) 0%nat) = true \/ exists bits, In bits rounds /\ nth i bits false = true.
Proof.
  intros nonewton user pprec cp0 rounds rs io i H A. unfold improve in H. destruct (nonewton && negb user).
  - destruct rounds; [|discriminate]. inversion H; subst; simpl in A. left; exact A.
  - destruct (improve_loop_marks _ _ _ _ _ _ _ _ i H) as [E|[_ B]]; [left; rewrite <- E; exact A | right; exact B].
Qed.
