(* C02 - proofs about the executable predicates of GoalModel.v (stdlib Reals through Q2R). *)
Require Import QArith Qreals Reals Lra Lia Psatz List Bool ZArith.
Require Import MPSV.Goal.GoalModel.
Import ListNotations.
Open Scope R_scope.

(* ------------------------------------------------------------------ small bridges Q -> R *)
Lemma Qle_bool_R : forall x y, Qle_bool x y = true <-> Q2R x <= Q2R y.
Proof.
  intros x y; split; intro H.
  - apply Qle_Rle, Qle_bool_iff; exact H.
  - apply Qle_bool_iff, Rle_Qle; exact H.
Qed.

Lemma Qle_bool_R_false : forall x y, Qle_bool x y = false <-> Q2R y < Q2R x.
Proof.
  intros x y; split; intro H.
  - apply Rnot_le_lt; intro C. apply Qle_bool_R in C. congruence.
  - destruct (Qle_bool x y) eqn:E; [apply Qle_bool_R in E; lra | reflexivity].
Qed.

Lemma Q2R_zero : Q2R 0 = 0.
Proof. unfold Q2R; simpl; lra. Qed.

Lemma Rabs_le_both : forall x a : R, Rabs x <= a -> - a <= x <= a.
Proof. intros x a H. unfold Rabs in H. destruct (Rcase_abs x); lra. Qed.

Lemma sq_nonneg : forall u : R, 0 <= u * u.
Proof. intro u. nra. Qed.

Lemma sumsq_nonneg : forall u v : R, 0 <= u * u + v * v.
Proof. intros u v. nra. Qed.

Definition p2 (d : Z) : R := 2 ^ Z.to_nat d.

Lemma p2_pos : forall d, 0 < p2 d.
Proof. intro d; unfold p2; apply pow_lt; lra. Qed.

Lemma Q2R_pow4 : forall d, (0 <= d)%Z -> Q2R (pow4 d) = p2 d * p2 d.
Proof.
  intros d Hd. unfold pow4, Q2R, p2; simpl.
  rewrite Rinv_1, Rmult_1_r.
  rewrite <- (Z2Nat.id d Hd) at 1.
  rewrite <- pow_IZR.
  replace (IZR 4) with (2 * 2) by lra.
  apply Rpow_mult_distr.
Qed.

(* 2^-d written with Rpower is the inverse of the natural power *)
Lemma Rpower_2_neg : forall d, (0 <= d)%Z -> Rpower 2 (- IZR d) = / p2 d.
Proof.
  intros d Hd. rewrite Rpower_Ropp. f_equal. unfold p2.
  rewrite <- Rpower_pow by lra. f_equal.
  rewrite INR_IZR_INZ, Z2Nat.id by exact Hd. reflexivity.
Qed.

(* ------------------------------------------------------------------ approx_ok *)
Definition modulus (zr zi : Q) : R := sqrt (Q2R zr * Q2R zr + Q2R zi * Q2R zi).

Theorem approx_ok_spec : forall d zr zi r, (0 <= d)%Z ->
  (approx_ok d zr zi r = true <-> 0 <= Q2R r /\ Q2R r <= Rpower 2 (- IZR d) * modulus zr zi).
Proof.
  intros d zr zi r Hd. unfold approx_ok, modulus.
  rewrite !andb_true_iff, Z.leb_le, !Qle_bool_R.
  rewrite Q2R_zero, Q2R_plus, !Q2R_mult, (Q2R_pow4 d Hd), (Rpower_2_neg d Hd).
  set (m := Q2R zr * Q2R zr + Q2R zi * Q2R zi).
  assert (Hm : 0 <= m) by (unfold m; nra).
  pose proof (p2_pos d) as HP. set (P := p2 d) in *.
  set (x := Q2R r).
  split.
  - intros [[_ Hr] Hsq]. split; [exact Hr|].
    assert (Hx : 0 <= x * P) by nra.
    assert (Hle : x * P <= sqrt m).
    { rewrite <- (sqrt_square (x * P) Hx). apply sqrt_le_1_alt. nra. }
    replace x with (/ P * (x * P)) by (field; lra).
    apply Rmult_le_compat_l; [left; apply Rinv_0_lt_compat; exact HP | exact Hle].
  - intros [Hr Hle]. split; [split; [exact Hd | exact Hr]|].
    assert (Hle2 : x * P <= sqrt m).
    { replace (sqrt m) with (/ P * sqrt m * P) by (field; lra).
      apply Rmult_le_compat_r; lra. }
    assert (Hx : 0 <= x * P) by nra.
    pose proof (sqrt_sqrt m Hm) as Hs.
    pose proof (sqrt_pos m) as Hsp.
    assert ((x * P) * (x * P) <= sqrt m * sqrt m) by (apply Rmult_le_compat; lra).
    nra.
Qed.

(* ------------------------------------------------------------------ discs *)
(* the closed disc, in squared form (no square root needed when the radius is >= 0) *)
Definition in_disc (x y : R) (a : disc) : Prop :=
  (x - Q2R (cre a)) * (x - Q2R (cre a)) + (y - Q2R (cim a)) * (y - Q2R (cim a)) <= Q2R (rad a) * Q2R (rad a).

Definition discs_meet (a b : disc) : Prop := exists x y, in_disc x y a /\ in_disc x y b.

Lemma in_disc_sqrt : forall x y a, 0 <= Q2R (rad a) ->
  (in_disc x y a <-> sqrt ((x - Q2R (cre a)) * (x - Q2R (cre a)) + (y - Q2R (cim a)) * (y - Q2R (cim a))) <= Q2R (rad a)).
Proof.
  intros x y a Hr. unfold in_disc.
  set (cx := Q2R (cre a)) in *; set (cy := Q2R (cim a)) in *; set (ra := Q2R (rad a)) in *.
  set (s := (x - cx) * (x - cx) + (y - cy) * (y - cy)).
  assert (Hs : 0 <= s) by (unfold s; apply sumsq_nonneg).
  split; intro H.
  - rewrite <- (sqrt_square ra Hr). apply sqrt_le_1_alt. exact H.
  - pose proof (sqrt_sqrt s Hs). pose proof (sqrt_pos s).
    assert (sqrt s * sqrt s <= ra * ra) by (apply Rmult_le_compat; lra).
    lra.
Qed.

Lemma dist2_R : forall a b, Q2R (dist2 a b) =
  (Q2R (cre a) - Q2R (cre b)) * (Q2R (cre a) - Q2R (cre b)) + (Q2R (cim a) - Q2R (cim b)) * (Q2R (cim a) - Q2R (cim b)).
Proof. intros; unfold dist2. rewrite Q2R_plus, !Q2R_mult, !Q2R_minus. reflexivity. Qed.

Lemma dist_le_of_sq : forall u v r, 0 <= r -> u * u + v * v <= r * r -> sqrt (Rsqr u + Rsqr v) <= r.
Proof.
  intros u v r Hr H. unfold Rsqr.
  rewrite <- (sqrt_square r Hr). apply sqrt_le_1_alt. exact H.
Qed.

Theorem disjoint_sound : forall a b, disjoint a b = true ->
  0 <= Q2R (rad a) /\ 0 <= Q2R (rad b) /\ ~ discs_meet a b.
Proof.
  intros a b H. unfold disjoint in H.
  rewrite !andb_true_iff, negb_true_iff, !Qle_bool_R, Qle_bool_R_false in H.
  destruct H as [[Ha Hb] Hd]. rewrite Q2R_zero in Ha, Hb.
  rewrite dist2_R, Q2R_mult, Q2R_plus in Hd.
  split; [exact Ha | split; [exact Hb|]].
  intros [x [y [Ia Ib]]]. unfold in_disc in Ia, Ib.
  set (ax := Q2R (cre a)) in *; set (ay := Q2R (cim a)) in *.
  set (bx := Q2R (cre b)) in *; set (by_ := Q2R (cim b)) in *.
  set (ra := Q2R (rad a)) in *; set (rb := Q2R (rad b)) in *.
  pose proof (triangle ax ay bx by_ x y) as T. unfold dist_euc in T.
  assert (T1 : sqrt (Rsqr (ax - x) + Rsqr (ay - y)) <= ra) by (apply dist_le_of_sq; [exact Ha | lra]).
  assert (T2 : sqrt (Rsqr (x - bx) + Rsqr (y - by_)) <= rb) by (apply dist_le_of_sq; [exact Hb | lra]).
  set (D := Rsqr (ax - bx) + Rsqr (ay - by_)) in *.
  assert (HD : 0 <= D) by (unfold D, Rsqr; apply sumsq_nonneg).
  pose proof (sqrt_sqrt D HD) as HS. pose proof (sqrt_pos D) as HP.
  assert (sqrt D <= ra + rb) by lra.
  assert (sqrt D * sqrt D <= (ra + rb) * (ra + rb)) by (apply Rmult_le_compat; lra).
  unfold D, Rsqr in HS. unfold D, Rsqr in H0. lra.
Qed.

Theorem disjoint_complete : forall a b, 0 <= Q2R (rad a) -> 0 <= Q2R (rad b) ->
  disjoint a b = false -> discs_meet a b.
Proof.
  intros a b Ha Hb H. unfold disjoint in H.
  assert (Ea : Qle_bool 0 (rad a) = true) by (apply Qle_bool_R; rewrite Q2R_zero; exact Ha).
  assert (Eb : Qle_bool 0 (rad b) = true) by (apply Qle_bool_R; rewrite Q2R_zero; exact Hb).
  rewrite Ea, Eb in H. simpl in H. apply negb_false_iff in H. apply Qle_bool_R in H.
  rewrite dist2_R, Q2R_mult, Q2R_plus in H.
  unfold discs_meet, in_disc.
  set (ax := Q2R (cre a)) in *; set (ay := Q2R (cim a)) in *.
  set (bx := Q2R (cre b)) in *; set (by_ := Q2R (cim b)) in *.
  set (ra := Q2R (rad a)) in *; set (rb := Q2R (rad b)) in *.
  destruct (Req_dec (ra + rb) 0) as [Z | NZ].
  - assert (ra = 0) by lra. assert (rb = 0) by lra. subst.
    exists ax, ay. rewrite H0, H1 in *. split; lra.
  - assert (Hs : 0 < ra + rb) by lra.
    set (t := ra / (ra + rb)).
    assert (Ht : t * (ra + rb) = ra) by (unfold t; field; lra).
    assert (Ht' : (1 - t) * (ra + rb) = rb) by (unfold t; field; lra).
    exists (ax + t * (bx - ax)), (ay + t * (by_ - ay)).
    set (D := (ax - bx) * (ax - bx) + (ay - by_) * (ay - by_)) in *.
    split.
    + replace ((ax + t * (bx - ax) - ax) * (ax + t * (bx - ax) - ax) + (ay + t * (by_ - ay) - ay) * (ay + t * (by_ - ay) - ay))
        with ((t * t) * D) by (unfold D; ring).
      assert (E1 : ra * ra = (t * t) * ((ra + rb) * (ra + rb))).
      { transitivity ((t * (ra + rb)) * (t * (ra + rb))); [rewrite Ht; reflexivity | ring]. }
      rewrite E1.
      apply Rmult_le_compat_l; [apply sq_nonneg | exact H].
    + replace ((ax + t * (bx - ax) - bx) * (ax + t * (bx - ax) - bx) + (ay + t * (by_ - ay) - by_) * (ay + t * (by_ - ay) - by_))
        with (((1 - t) * (1 - t)) * D) by (unfold D; ring).
      assert (E2 : rb * rb = ((1 - t) * (1 - t)) * ((ra + rb) * (ra + rb))).
      { transitivity (((1 - t) * (ra + rb)) * ((1 - t) * (ra + rb))); [rewrite Ht'; reflexivity | ring]. }
      rewrite E2.
      apply Rmult_le_compat_l; [apply sq_nonneg | exact H].
Qed.

Theorem disjoint_spec : forall a b,
  disjoint a b = true <-> 0 <= Q2R (rad a) /\ 0 <= Q2R (rad b) /\ ~ discs_meet a b.
Proof.
  intros a b; split; [apply disjoint_sound|].
  intros [Ha [Hb Hn]]. destruct (disjoint a b) eqn:E; [reflexivity|].
  exfalso. apply Hn. apply disjoint_complete; assumption.
Qed.

(* ------------------------------------------------------------------ pairwise *)
Lemma all_pairwise_disjoint_spec : forall ds,
  all_pairwise_disjoint ds = true <-> ForallOrdPairs (fun a b => disjoint a b = true) ds.
Proof.
  induction ds as [|d ds IH]; simpl.
  - split; intros; [constructor | reflexivity].
  - rewrite andb_true_iff, IH, forallb_forall. split.
    + intros [H1 H2]. constructor; [apply Forall_forall; exact H1 | exact H2].
    + intro H. inversion H; subst. split; [apply Forall_forall; assumption | assumption].
Qed.

Lemma ForallOrdPairs_impl : forall (A : Type) (P Q : A -> A -> Prop) (l : list A),
  (forall a b, P a b -> Q a b) -> ForallOrdPairs P l -> ForallOrdPairs Q l.
Proof.
  intros A P Q l HPQ H. induction H; constructor.
  - eapply Forall_impl; [|eassumption]. intros; apply HPQ; assumption.
  - assumption.
Qed.

Theorem all_pairwise_disjoint_R : forall ds,
  all_pairwise_disjoint ds = true <->
  ForallOrdPairs (fun a b => 0 <= Q2R (rad a) /\ 0 <= Q2R (rad b) /\ ~ discs_meet a b) ds.
Proof.
  intro ds. rewrite all_pairwise_disjoint_spec. split; apply ForallOrdPairs_impl; intros a b; apply disjoint_spec.
Qed.

(* ------------------------------------------------------------------ isolation => disjointness *)
Lemma touch_false_R : forall nf a b, touch nf a b = false ->
  (Q2R nf * (Q2R (rad a) + Q2R (rad b))) * (Q2R nf * (Q2R (rad a) + Q2R (rad b))) < Q2R (dist2 a b).
Proof.
  intros nf a b H. unfold touch in H. apply Qle_bool_R_false in H.
  rewrite !Q2R_mult, !Q2R_plus in H. exact H.
Qed.

(* [a], [b]: centre + the radius used by cluster analysis; [ra], [rb]: the inclusion radii handed out *)
Theorem not_touching_disjoint : forall nf a b ra rb,
  (1 <= nf)%Q -> (0 <= ra)%Q -> (ra <= rad a)%Q -> (0 <= rb)%Q -> (rb <= rad b)%Q ->
  touch nf a b = false ->
  disjoint (mkDisc (cre a) (cim a) ra) (mkDisc (cre b) (cim b) rb) = true.
Proof.
  intros nf a b ra rb Hn Ha Ha' Hb Hb' HT.
  apply touch_false_R in HT.
  apply Qle_Rle in Hn, Ha, Ha', Hb, Hb'.
  replace (Q2R 1) with 1 in Hn by (unfold Q2R; simpl; lra). rewrite Q2R_zero in Ha, Hb.
  unfold disjoint; simpl.
  rewrite !andb_true_iff, negb_true_iff, !Qle_bool_R, Qle_bool_R_false, Q2R_zero.
  split; [split; assumption|].
  rewrite Q2R_mult, Q2R_plus.
  assert (E : Q2R (dist2 {| cre := cre a; cim := cim a; rad := ra |} {| cre := cre b; cim := cim b; rad := rb |}) = Q2R (dist2 a b))
    by (rewrite !dist2_R; reflexivity).
  rewrite E.
  set (A := Q2R (rad a)) in *; set (B := Q2R (rad b)) in *.
  set (x := Q2R ra) in *; set (y := Q2R rb) in *; set (n := Q2R nf) in *.
  assert (0 <= x + y <= n * (A + B)) by nra.
  assert ((x + y) * (x + y) <= (n * (A + B)) * (n * (A + B))) by (apply Rmult_le_compat; lra).
  lra.
Qed.

Definition shrink (p : disc * Q) : disc := mkDisc (cre (fst p)) (cim (fst p)) (snd p).

Theorem isolated_disjoint : forall nf (l : list (disc * Q)),
  (1 <= nf)%Q ->
  Forall (fun p => (0 <= snd p)%Q /\ (snd p <= rad (fst p))%Q) l ->
  ForallOrdPairs (fun p q => touch nf (fst p) (fst q) = false) l ->
  all_pairwise_disjoint (map shrink l) = true.
Proof.
  intros nf l Hn HF HP. induction HP as [|p l Hp HP IH]; simpl; [reflexivity|].
  inversion HF as [|? ? [Hp0 Hp1] HF']; subst.
  rewrite andb_true_iff. split; [|apply IH; exact HF'].
  apply forallb_forall. intros d Hd. apply in_map_iff in Hd. destruct Hd as [q [Eq Hq]]. subst d.
  rewrite Forall_forall in Hp, HF'. destruct (HF' q Hq) as [Hq0 Hq1].
  unfold shrink. apply not_touching_disjoint with (nf := nf); auto.
Qed.

(* ------------------------------------------------------------------ improve.c: get_approximated_bits *)
(* (int) of a double: truncation toward zero *)
Definition Rtrunc (x : R) : Z := if Rle_dec 0 x then Int_part x else (- Int_part (- x))%Z.

Lemma Rtrunc_ge_pos : forall x d, (1 <= d)%Z -> (d <= Rtrunc x)%Z -> IZR d <= x.
Proof.
  intros x d Hd H. unfold Rtrunc in H. destruct (Rle_dec 0 x) as [Hx | Hx].
  - destruct (base_Int_part x) as [B _]. apply IZR_le in H. lra.
  - exfalso. assert (Hx' : 0 < - x) by lra.
    destruct (base_Int_part (- x)) as [_ B].
    assert (IZR (Int_part (- x)) > -1) by lra.
    assert (-1 < Int_part (- x))%Z by (apply lt_IZR; lra).
    lia.
Qed.

(* get_approximated_bits returns (int)((rdpe_log(|z|) - rdpe_log(drad)) / LOG2 - 1).
   Lz, Lr : the two logarithms as computed;  v : the double value of the whole expression.
   Each is within delta of the exact value it approximates. *)
Theorem bits_imply_radius : forall (z r Lz Lr v delta : R) (d : Z),
  0 < z -> 0 < r -> 0 <= delta -> delta <= / 8 ->
  Rabs (Lz - ln z) <= delta -> Rabs (Lr - ln r) <= delta ->
  Rabs (v - ((Lz - Lr) / ln 2 - 1)) <= delta ->
  (1 <= d)%Z -> (d <= Rtrunc v)%Z ->
  r <= Rpower 2 (- IZR d) * z.
Proof.
  intros z r Lz Lr v delta d Hz Hr Hd0 Hd8 HLz HLr Hv Hd1 Hbits.
  pose proof (Rtrunc_ge_pos v d Hd1 Hbits) as Hvd.
  pose proof ln_lt_2 as L2.
  assert (L2p : 0 < ln 2) by lra.
  apply Rabs_le_both in HLz. apply Rabs_le_both in HLr. apply Rabs_le_both in Hv.
  assert (Hq : IZR d + 1 - delta <= (Lz - Lr) / ln 2) by lra.
  assert (Hq2 : (IZR d + 1 - delta) * ln 2 <= Lz - Lr).
  { apply Rmult_le_compat_r with (r := ln 2) in Hq; [|lra].
    replace ((Lz - Lr) / ln 2 * ln 2) with (Lz - Lr) in Hq by (field; lra). exact Hq. }
  assert (Hslack : 2 * delta <= (1 - delta) * ln 2) by nra.
  assert (Hln : ln r <= ln z - IZR d * ln 2) by nra.
  destruct (Rle_or_lt r (Rpower 2 (- IZR d) * z)) as [G | G]; [exact G | exfalso].
  assert (Hp : 0 < Rpower 2 (- IZR d)) by (unfold Rpower; apply exp_pos).
  assert (0 < Rpower 2 (- IZR d) * z) by (apply Rmult_lt_0_compat; assumption).
  apply ln_increasing in G; [|assumption].
  rewrite ln_mult in G by assumption.
  unfold Rpower in G. rewrite ln_exp in G. lra.
Qed.

(* ------------------------------------------------------------------ modify.c: the tests as coded *)
(* float variant, singleton cluster:  frad < cplx_mod (fvalue) * eps_out   (double arithmetic).
   M : cplx_mod as computed, P : the product as computed, u : unit roundoff slack of each operation. *)
Theorem fmodify_marks_within_bound : forall (frad M P zmod eps u : R),
  0 <= u -> 0 <= eps -> 0 <= zmod ->
  M <= zmod * (1 + u) -> P <= M * eps * (1 + u) ->
  frad < P ->
  frad <= eps * zmod * ((1 + u) * (1 + u)).
Proof.
  intros frad M P zmod eps u Hu He Hz HM HP Hf.
  assert (M * eps <= zmod * (1 + u) * eps) by (apply Rmult_le_compat_r; lra).
  assert (M * eps * (1 + u) <= zmod * (1 + u) * eps * (1 + u)) by (apply Rmult_le_compat_r; lra).
  lra.
Qed.

(* cluster branch of the f / d / m variants:  tmp = rad / |z| ; rdpe_le (tmp, eps_out).
   M : the modulus as computed (> 0), Qc : the quotient as computed. *)
Theorem cluster_marks_within_bound : forall (rad_ M Qc zmod eps u : R),
  0 <= u -> u < 1 -> 0 <= eps -> 0 <= rad_ -> 0 < M ->
  M <= zmod * (1 + u) -> (rad_ / M) * (1 - u) <= Qc ->
  Qc <= eps ->
  rad_ <= eps * zmod * ((1 + u) / (1 - u)).
Proof.
  intros rad_ M Qc zmod eps u Hu Hu1 He Hr HM HMz HQ Hle.
  assert (H1 : rad_ / M * (1 - u) <= eps) by lra.
  assert (H2 : rad_ * (1 - u) <= eps * M).
  { apply Rmult_le_compat_r with (r := M) in H1; [|lra].
    replace (rad_ / M * (1 - u) * M) with (rad_ * (1 - u)) in H1 by (field; lra). exact H1. }
  assert (H3 : eps * M <= eps * (zmod * (1 + u))) by (apply Rmult_le_compat_l; lra).
  assert (H4 : rad_ * (1 - u) <= eps * zmod * (1 + u)) by lra.
  replace (eps * zmod * ((1 + u) / (1 - u))) with ((eps * zmod * (1 + u)) / (1 - u)) by (field; lra).
  apply Rmult_le_reg_r with (r := 1 - u); [lra|].
  replace (eps * zmod * (1 + u) / (1 - u) * (1 - u)) with (eps * zmod * (1 + u)) by (field; lra).
  exact H4.
Qed.

(* which paths of modify.c end in an "approximated" status *)
Theorem modify_status_approximated : forall v track csize old within,
  modify_status v track csize old within = ST_APPROXIMATED ->
  csize = 1%nat /\ (retag track old = ST_APPROXIMATED \/ (v = VFloat /\ within = true))
  \/ (csize <> 1%nat /\ within = false /\ track = true /\ old = ST_APPROXIMATED).
Proof.
  intros v track csize old within H. unfold modify_status in H.
  destruct (Nat.eqb csize 1) eqn:Ec.
  - left. apply Nat.eqb_eq in Ec. split; [exact Ec|].
    destruct (Nat.eqb (retag track old) ST_APPROXIMATED) eqn:Eo.
    + left. apply Nat.eqb_eq in Eo. exact Eo.
    + right. destruct v; destruct within; try discriminate. split; reflexivity.
  - right. apply Nat.eqb_neq in Ec. split; [exact Ec|].
    destruct within; [discriminate|]. split; [reflexivity|].
    destruct track; [|discriminate]. split; [reflexivity|].
    unfold retag in H. simpl in H.
    destruct (Nat.eqb old ST_CLUSTERED) eqn:E1; [discriminate | exact H].
Qed.

Theorem modify_status_in_cluster : forall v track csize old within,
  modify_status v track csize old within = ST_APPROXIMATED_IN_CLUSTER ->
  csize <> 1%nat /\ (within = true \/ (track = true /\ old = ST_APPROXIMATED_IN_CLUSTER)).
Proof.
  intros v track csize old within H. unfold modify_status in H.
  destruct (Nat.eqb csize 1) eqn:Ec.
  - exfalso. destruct (Nat.eqb (retag track old) ST_APPROXIMATED); [discriminate|].
    destruct v; destruct within; discriminate.
  - apply Nat.eqb_neq in Ec. split; [exact Ec|].
    destruct within; [left; reflexivity | right].
    destruct track; [|discriminate]. split; [reflexivity|].
    unfold retag in H. simpl in H.
    destruct (Nat.eqb old ST_CLUSTERED) eqn:E1; [discriminate | exact H].
Qed.

(* with the repair the status is a function of THIS call's test *)
Theorem modify_status_fixed_in_cluster : forall v track csize old within,
  modify_status_fixed v track csize old within = ST_APPROXIMATED_IN_CLUSTER ->
  csize <> 1%nat /\ within = true.
Proof.
  intros v track csize old within H. unfold modify_status_fixed in H.
  destruct (Nat.eqb csize 1) eqn:Ec.
  - exfalso. destruct (Nat.eqb (retag track old) ST_APPROXIMATED); [discriminate|].
    destruct v; destruct within; discriminate.
  - apply Nat.eqb_neq in Ec. split; [exact Ec|].
    destruct within; [reflexivity|]. exfalso.
    destruct track.
    + unfold retag in H. simpl in H.
      destruct (Nat.eqb old ST_CLUSTERED) eqn:E1; [discriminate|].
      destruct (Nat.eqb old ST_APPROXIMATED_IN_CLUSTER) eqn:E2; [discriminate|].
      apply Nat.eqb_neq in E2. contradiction.
    + simpl in H. discriminate.
Qed.

(* the faithful model keeps a stale APPROXIMATED_IN_CLUSTER: witness = the state of the real solver on
   (x+2)(x+2-2^-52)(x-3-7i/4), classic algorithm, 53 output bits (known/replays/C02_stale_status4.json):
   after mps_mrestart enlarged the radius to 2^-51 the root -2 keeps status 4 through mps_mmodify (s, true). *)
Theorem status_stale_refuted : exists (r : root) (d : Z),
  st r = ST_APPROXIMATED_IN_CLUSTER /\ within_exact d r = false /\
  modify_status VMp true 2 (st r) (within_exact d r) = ST_APPROXIMATED_IN_CLUSTER /\
  honest d (mkRoot (modify_status VMp true 2 (st r) (within_exact d r)) (zre r) (zim r) (zrad r)) = false.
Proof.
  exists (mkRoot ST_APPROXIMATED_IN_CLUSTER (-2) 0 (1 # 2251799813685248)), 53%Z.
  repeat split; vm_compute; reflexivity.
Qed.

(* ------------------------------------------------------------------ the whole verdict *)
Definition bound_R (d : Z) (r : root) : Prop :=
  0 <= Q2R (zrad r) /\ Q2R (zrad r) <= Rpower 2 (- IZR d) * modulus (zre r) (zim r).

Definition goal_R (g : goal) (over_max exempt : bool) (d : Z) (rs : list root) : Prop :=
  over_max = false ->
  match g with
  | GIsolate => Forall (fun r => is_computed (st r) = true) rs
  | GApproximate => exempt = false -> Forall (fun r => is_approximated (st r) = true /\ bound_R d r) rs
  | GCount => True
  end.

Definition honest_R (d : Z) (rs : list root) : Prop :=
  Forall (fun r => is_approximated (st r) = true -> bound_R d r) rs.

Definition disjoint_R (rs : list root) : Prop :=
  ForallOrdPairs (fun a b => 0 <= Q2R (rad a) /\ 0 <= Q2R (rad b) /\ ~ discs_meet a b) (map disc_of (reported rs)).

Lemma forallb_Forall : forall (A : Type) (f : A -> bool) (P : A -> Prop) (l : list A),
  (forall a, f a = true <-> P a) -> (forallb f l = true <-> Forall P l).
Proof.
  intros A f P l H. rewrite forallb_forall, Forall_forall. split; intros K x Hx; apply H, K, Hx.
Qed.

Theorem run_ok_spec : forall g over_max exempt d rs, (0 <= d)%Z ->
  (run_ok g over_max exempt d rs = true <->
   goal_R g over_max exempt d rs /\ honest_R d rs /\ disjoint_R rs).
Proof.
  intros g om ex d rs Hd. unfold run_ok. rewrite !andb_true_iff.
  assert (G : goal_clause g om ex d rs = true <-> goal_R g om ex d rs).
  { unfold goal_clause, goal_R. destruct om.
    - split; [intros _ K; discriminate | reflexivity].
    - destruct g.
      + rewrite (forallb_Forall _ _ (fun r => is_computed (st r) = true)) by (intro; reflexivity).
        split; [intros K _; exact K | intro K; apply K; reflexivity].
      + destruct ex.
        * split; [intros _ _ K; discriminate | reflexivity].
        * rewrite (forallb_Forall _ _ (fun r => is_approximated (st r) = true /\ bound_R d r)).
          -- split; [intros K _ _; exact K | intro K; apply K; reflexivity].
          -- intro a. rewrite andb_true_iff. unfold bound_R. rewrite (approx_ok_spec d _ _ _ Hd). reflexivity.
      + split; [intros _ _; exact I | reflexivity]. }
  assert (Hh : honest_clause d rs = true <-> honest_R d rs).
  { unfold honest_clause, honest_R. apply forallb_Forall. intro a. unfold honest.
    destruct (is_approximated (st a)).
    - unfold bound_R. rewrite (approx_ok_spec d _ _ _ Hd). split; [intros K _; exact K | intro K; apply K; reflexivity].
    - split; [intros _ K; discriminate | reflexivity]. }
  assert (D : disjoint_clause rs = true <-> disjoint_R rs).
  { unfold disjoint_clause, disjoint_R. apply all_pairwise_disjoint_R. }
  rewrite G, Hh, D. tauto.
Qed.

(* the tables are the ones of types.h: approximated = {3,4}, computed = {2,3,4} *)
Theorem status_tables : forall s,
  (is_approximated s = true <-> s = ST_APPROXIMATED \/ s = ST_APPROXIMATED_IN_CLUSTER) /\
  (is_computed s = true <-> s = ST_ISOLATED \/ s = ST_APPROXIMATED \/ s = ST_APPROXIMATED_IN_CLUSTER).
Proof.
  intro s. unfold is_approximated, is_computed, ST_ISOLATED, ST_APPROXIMATED, ST_APPROXIMATED_IN_CLUSTER.
  do 9 (destruct s as [|s]; [simpl; split; split; intro H; try discriminate; try lia; try (destruct H as [H|[H|H]]; discriminate); try (destruct H as [H|H]; discriminate); auto|]).
  simpl. split; split; intro H; try discriminate; lia.
Qed.

Theorem goal_ok_spec : forall g sts,
  goal_ok g sts = true <->
  match g with
  | GIsolate => Forall (fun s => is_computed s = true) sts
  | GApproximate => Forall (fun s => is_approximated s = true) sts
  | GCount => True
  end.
Proof.
  intros g sts. destruct g; simpl.
  - apply forallb_Forall; intro; reflexivity.
  - apply forallb_Forall; intro; reflexivity.
  - tauto.
Qed.

(* ------------------------------------------------------------------ invariance under a common positive scaling
   (the check multiplies all numbers of one run by one power of two so that they become integers) *)
Lemma bool_eq_iff : forall a b : bool, (a = true <-> b = true) -> a = b.
Proof. intros [|] [|] H; try reflexivity; [symmetry|]; apply H; reflexivity. Qed.

Lemma scale_nonneg_R : forall S x : R, 0 < S -> (0 <= S * x <-> 0 <= x).
Proof. intros S x HS. split; intro H; nra. Qed.

Lemma scale_le_R : forall S A B : R, 0 < S -> (S * S * A <= S * S * B <-> A <= B).
Proof.
  intros S A B HS. assert (0 < S * S) by nra. split; intro H0.
  - apply Rmult_le_reg_l with (r := S * S); assumption.
  - apply Rmult_le_compat_l; lra.
Qed.

Theorem approx_ok_scale : forall (s : Q) d zr zi r, (0 < s)%Q ->
  approx_ok d (s * zr) (s * zi) (s * r) = approx_ok d zr zi r.
Proof.
  intros s d zr zi r Hs. apply Qlt_Rlt in Hs. rewrite Q2R_zero in Hs.
  unfold approx_ok. destruct (0 <=? d)%Z; [simpl | reflexivity]. f_equal.
  - apply bool_eq_iff. rewrite !Qle_bool_R, Q2R_mult, Q2R_zero. apply scale_nonneg_R; exact Hs.
  - apply bool_eq_iff. rewrite !Qle_bool_R. rewrite !Q2R_plus, !Q2R_mult.
    set (S := Q2R s) in *; set (x := Q2R r); set (a := Q2R zr); set (b := Q2R zi); set (P := Q2R (pow4 d)).
    replace (S * x * (S * x) * P) with (S * S * (x * x * P)) by ring.
    replace (S * a * (S * a) + S * b * (S * b)) with (S * S * (a * a + b * b)) by ring.
    apply scale_le_R; exact Hs.
Qed.

Definition scale_disc (s : Q) (a : disc) : disc := mkDisc (s * cre a) (s * cim a) (s * rad a).
Definition scale_root (s : Q) (r : root) : root := mkRoot (st r) (s * zre r) (s * zim r) (s * zrad r).

Theorem disjoint_scale : forall (s : Q) a b, (0 < s)%Q ->
  disjoint (scale_disc s a) (scale_disc s b) = disjoint a b.
Proof.
  intros s a b Hs. apply Qlt_Rlt in Hs. rewrite Q2R_zero in Hs.
  unfold disjoint, scale_disc; simpl. f_equal; [f_equal|].
  - apply bool_eq_iff. rewrite !Qle_bool_R, Q2R_mult, Q2R_zero. apply scale_nonneg_R; exact Hs.
  - apply bool_eq_iff. rewrite !Qle_bool_R, Q2R_mult, Q2R_zero. apply scale_nonneg_R; exact Hs.
  - f_equal. apply bool_eq_iff. rewrite !Qle_bool_R. rewrite !dist2_R; simpl.
    rewrite !Q2R_mult, !Q2R_plus, !Q2R_mult.
    set (S := Q2R s) in *.
    set (ax := Q2R (cre a)); set (ay := Q2R (cim a)); set (bx := Q2R (cre b)); set (by_ := Q2R (cim b)).
    set (ra := Q2R (rad a)); set (rb := Q2R (rad b)).
    replace ((S * ax - S * bx) * (S * ax - S * bx) + (S * ay - S * by_) * (S * ay - S * by_))
      with (S * S * ((ax - bx) * (ax - bx) + (ay - by_) * (ay - by_))) by ring.
    replace ((S * ra + S * rb) * (S * ra + S * rb)) with (S * S * ((ra + rb) * (ra + rb))) by ring.
    apply scale_le_R; exact Hs.
Qed.

Lemma forallb_disjoint_scale : forall (s : Q) d ds, (0 < s)%Q ->
  forallb (disjoint (scale_disc s d)) (map (scale_disc s) ds) = forallb (disjoint d) ds.
Proof.
  intros s d ds Hs. induction ds as [|e ds IH]; simpl; [reflexivity|].
  rewrite (disjoint_scale s d e Hs), IH. reflexivity.
Qed.

Lemma all_pairwise_disjoint_scale : forall (s : Q) ds, (0 < s)%Q ->
  all_pairwise_disjoint (map (scale_disc s) ds) = all_pairwise_disjoint ds.
Proof.
  intros s ds Hs. induction ds as [|d ds IH]; simpl; [reflexivity|].
  rewrite IH, (forallb_disjoint_scale s d ds Hs). reflexivity.
Qed.

Lemma reported_scale : forall (s : Q) rs,
  map disc_of (reported (map (scale_root s) rs)) = map (scale_disc s) (map disc_of (reported rs)).
Proof.
  intros s rs. induction rs as [|r rs IH]; simpl; [reflexivity|].
  destruct (is_computed (st r)); simpl; rewrite IH; reflexivity.
Qed.

Theorem run_ok_scale : forall (s : Q) g over_max exempt d rs, (0 < s)%Q ->
  run_ok g over_max exempt d (map (scale_root s) rs) = run_ok g over_max exempt d rs.
Proof.
  intros s g om ex d rs Hs. unfold run_ok. f_equal; [f_equal|].
  - unfold goal_clause. destruct om; [reflexivity|]. destruct g; [|destruct ex; [reflexivity|]|reflexivity].
    + induction rs as [|r rs IH]; simpl; [reflexivity | rewrite IH; reflexivity].
    + induction rs as [|r rs IH]; simpl; [reflexivity|].
      rewrite IH, (approx_ok_scale s d _ _ _ Hs). reflexivity.
  - unfold honest_clause. induction rs as [|r rs IH]; simpl; [reflexivity|].
    rewrite IH. f_equal. unfold honest; simpl. rewrite (approx_ok_scale s d _ _ _ Hs). reflexivity.
  - unfold disjoint_clause. rewrite reported_scale. apply all_pairwise_disjoint_scale; exact Hs.
Qed.
