(* C02 - the CONTROL FLOW that decides the statuses, transcribed branch by branch (definitions only).

   Anchors in /repo (the text of each definition follows the C text; what an opaque call does to values,
   radii and clusters is an EVENT PAYLOAD, consumed in the order the C code makes the calls):
     unisolve/solve.c        mps_check_stop                       -> check_stop
     secsolve/secular-ga.c   mps_secular_ga_check_stop            -> sec_check_stop
     common/modify.c         mps_fmodify / mps_dmodify / mps_mmodify (status writes)   -> modify_roots
     common/improve.c        mps_improve (loop, counters, marks)  -> improve
     system/data.c           mps_mp_set_prec                      -> set_prec
     unisolve/main.c         mps_standard_mpsolve (every exit)    -> std_run
     secsolve/secular-ga.c   mps_secular_ga_mpsolve (every exit)  -> sec_run
   Proofs are in StopProps.v. *)
Require Import List Bool ZArith.
Require Import MPSV.Goal.GoalModel.
Import ListNotations.
Local Open Scope nat_scope.

(* enum mps_root_inclusion = UNKNOWN, IN, OUT *)
Definition INC_UNKNOWN := 0.
Definition INC_IN := 1.
Definition INC_OUT := 2.

(* what the stop tests read of one mps_approximation: status, inclusion, attrs == MPS_ROOT_ATTRS_NONE *)
Record rt := mkRt { rst : nat; rinc : nat; rnone : bool }.

(* ------------------------------------------------------------------ mps_check_stop (unisolve/solve.c) *)
(* goal == MPS_OUTPUT_GOAL_COUNT: the for loop, `return computed` (= false) at the first root that fails a test *)
Fixpoint count_scan (mult props : bool) (rs : list rt) : bool :=
  match rs with
  | [] => true
  | r :: t =>
    if negb (is_approximated (rst r)) && Nat.eqb (rinc r) INC_UNKNOWN then false
    else if mult && Nat.eqb (rst r) ST_CLUSTERED && negb (Nat.eqb (rinc r) INC_OUT) then false
    else if props && rnone r && negb (Nat.eqb (rinc r) INC_OUT) && negb (is_approximated (rst r))
            && negb (Nat.eqb (rst r) ST_MULTIPLE) then false
    else count_scan mult props t
  end.

(* goal == ISOLATE || goal == APPROXIMATE *)
Fixpoint ia_scan (mult props : bool) (rs : list rt) : bool :=
  match rs with
  | [] => true
  | r :: t =>
    if (Nat.eqb (rinc r) INC_UNKNOWN || Nat.eqb (rinc r) INC_IN) && negb (is_computed (rst r)) then false
    else if Nat.eqb (rst r) ST_CLUSTERED && negb (Nat.eqb (rinc r) INC_OUT) then false
    else if mult && negb (Nat.eqb (rinc r) INC_OUT) && Nat.eqb (rst r) ST_CLUSTERED then false
    else if props && rnone r && negb (Nat.eqb (rinc r) INC_OUT) && negb (is_approximated (rst r))
            && negb (Nat.eqb (rst r) ST_MULTIPLE) then false
    else ia_scan mult props t
  end.

(* [mult] = output_config->multiplicity, [props] = output_config->root_properties != 0 *)
Definition check_stop (g : goal) (mult props : bool) (rs : list rt) : bool :=
  match g with
  | GCount => count_scan mult props rs
  | GIsolate => ia_scan mult props rs
  | GApproximate => ia_scan mult props rs
  end.

(* ------------------------------------------------------------------ mps_secular_ga_check_stop *)
Inductive phase := NoPhase | FloatPhase | DpePhase | MpPhase.

Fixpoint sec_scan (ph : phase) (sts : list nat) : bool :=
  match sts with
  | [] => true
  | s :: t =>
    match ph with
    | FloatPhase => if negb (is_computed s) then false else sec_scan ph t
    | MpPhase => if negb (is_computed s) then false else sec_scan ph t
    | DpePhase => if negb (is_computed s) then false else sec_scan ph t
    | NoPhase => sec_scan ph t                                   (* default: break *)
    end
  end.

Definition sec_check_stop (exit_required : bool) (ph : phase) (sts : list nat) : bool :=
  if exit_required then true else sec_scan ph sts.

(* ------------------------------------------------------------------ status writes of mps_{f,d,m}modify *)
Fixpoint set_nth (i : nat) (x : nat) (l : list nat) : list nat :=
  match l, i with
  | [], _ => []
  | _ :: t, O => x :: t
  | h :: t, S j => h :: set_nth j x t
  end.

Definition upd (i : nat) (f : nat -> nat) (sts : list nat) : list nat := set_nth i (f (nth i sts 0)) sts.

(* cluster->n == 1 branch: `if (status != APPROXIMATED) { status = ISOLATED; [float only:] if (frad < |z| eps_out) status = APPROXIMATED; }` *)
Definition singleton_write (v : variant) (within : bool) (old : nat) : nat :=
  if Nat.eqb old ST_APPROXIMATED then old
  else match v with
       | VFloat => if within then ST_APPROXIMATED else ST_ISOLATED
       | VDpe => ST_ISOLATED
       | VMp => ST_ISOLATED
       end.

(* the while loop over the members of a larger cluster *)
Definition member_write (track within : bool) (old : nat) : nat :=
  let s1 := if track then old else ST_CLUSTERED in
  if within then ST_APPROXIMATED_IN_CLUSTER else s1.

(* a cluster as the code walks it: the field cluster->n and the chain first, first->next, ... (root->k) *)
Record cluster := mkCl { cn : nat; cmem : list nat }.

Definition modify_cluster (v : variant) (track : bool) (w : nat -> bool) (c : cluster) (sts : list nat) : list nat :=
  match cmem c with
  | [] => sts
  | l :: _ =>
    if Nat.eqb (cn c) 1 then upd l (singleton_write v (w l)) sts
    else fold_left (fun acc k => upd k (member_write track (w k)) acc) (cmem c) sts
  end.

(* [w]: outcome of the radius test the code evaluates for root k (float singleton: frad < |z| eps_out; members of
   larger clusters: rad/|z| <= eps_out) *)
Definition modify_roots (v : variant) (track : bool) (cls : list cluster) (w : list bool) (sts : list nat) : list nat :=
  fold_left (fun acc c => modify_cluster v track (fun k => nth k w false) c acc) cls (map (retag track) sts).

(* the loop that follows every mps_*modify (s, true) call: NEW_CLUSTERED -> CLUSTERED *)
Definition reset_new (sts : list nat) : list nat :=
  map (fun s => if Nat.eqb s ST_NEW_CLUSTERED then ST_CLUSTERED else s) sts.

(* every index occurs in at most one chain, every chain has cluster->n elements, indices are < n *)
Definition clusters_wf (n : nat) (cls : list cluster) : Prop :=
  NoDup (concat (map cmem cls)) /\ Forall (fun c => cn c = length (cmem c) /\ Forall (fun k => k < n) (cmem c)) cls.

Definition clusters_wfb (n : nat) (cls : list cluster) : bool :=
  let all := concat (map cmem cls) in
  (fix nodup (l : list nat) : bool := match l with [] => true | x :: t => negb (existsb (Nat.eqb x) t) && nodup t end) all
  && forallb (fun c => Nat.eqb (cn c) (length (cmem c)) && forallb (fun k => Nat.ltb k n) (cmem c)) cls.

(* the cluster that contains root i *)
Fixpoint cluster_of (i : nat) (cls : list cluster) : option cluster :=
  match cls with
  | [] => None
  | c :: t => if existsb (Nat.eqb i) (cmem c) then Some c else cluster_of i t
  end.

(* ------------------------------------------------------------------ mps_improve (common/improve.c) *)
Local Open Scope Z_scope.

(* the for loop after mps_thread_pool_wait: `if (!IS_APPROXIMATED (status) && get_approximated_bits (root) >= prec)
   { status = APPROXIMATED; approximated_roots++; }` ; [bits] = outcomes of the bits test *)
Fixpoint mark_round (sts : list nat) (bits : list bool) (count : Z) : list nat * Z :=
  match sts with
  | [] => ([], count)
  | s :: t =>
    let b := match bits with [] => false | b :: _ => b end in
    let bt := match bits with [] => [] | _ :: bt => bt end in
    if negb (is_approximated s) && b then
      let (t', c') := mark_round t bt (count + 1) in (ST_APPROXIMATED :: t', c')
    else
      let (t', c') := mark_round t bt count in (s :: t', c')
  end.

(* the first for loop: approximated_roots counts IS_APPROXIMATED (status) || inclusion == OUT *)
Fixpoint count0 (rs : list rt) : Z :=
  match rs with
  | [] => 0
  | r :: t => (if is_approximated (rst r) || Nat.eqb (rinc r) INC_OUT then 1 else 0) + count0 t
  end.

Record imp_out := mkImp { io_sts : list nat; io_over : bool; io_rounds : nat; io_skipped : bool }.

(* `while (approximated_roots < n)`: one element of [rounds] per iteration;
   [pprec] = p->prec ; [cp] = current_precision *)
Fixpoint improve_loop (n pprec : Z) (rounds : list (list bool)) (sts : list nat) (count cp : Z) (done : nat)
  : option imp_out :=
  if count <? n then
    match rounds with
    | [] => None
    | bits :: rest =>
      let (sts', count') := mark_round sts bits count in
      let cp' := 2 * cp in
      if (cp' >? pprec) && negb (pprec =? 0) then
        match rest with                                           (* ctx->over_max = true; goto cleanup *)
        | [] => Some (mkImp sts' true (S done) false)
        | _ => None
        end
      else improve_loop n pprec rest sts' count' cp' (S done)
    end
  else match rounds with
       | [] => Some (mkImp sts false done false)
       | _ => None
       end.

(* [nonewton] = (p->mnewton == NULL), [user] = (p->density == MPS_DENSITY_USER), [cp0] = min_i root[i]->wp *)
Definition improve (nonewton user : bool) (pprec cp0 : Z) (rounds : list (list bool)) (rs : list rt) : option imp_out :=
  if nonewton && negb user then
    match rounds with
    | [] => Some (mkImp (map rst rs) false 0 true)                (* `return;` at once *)
    | _ => None
    end
  else improve_loop (Z.of_nat (length rs)) pprec rounds (map rst rs) (count0 rs) cp0 0.

(* ------------------------------------------------------------------ mps_mp_set_prec (system/data.c) *)
Definition set_prec (minprec prec : Z) : Z := (prec / minprec + 1) * minprec.

(* `s->mpwp = min_prec; while (mpwp < DBL_MANT_DIG) mpwp <<= 1; while (mpwp > 2 * DBL_MANT_DIG) mpwp >>= 1;` *)
Fixpoint shl_until (fuel : nat) (m : Z) : Z :=
  match fuel with O => m | S f => if m <? 53 then shl_until f (2 * m) else m end.
Fixpoint shr_until (fuel : nat) (m : Z) : Z :=
  match fuel with O => m | S f => if m >? 106 then shr_until f (m / 2) else m end.
Definition start_prec (minprec : Z) : Z := shr_until 64 (shl_until 64 minprec).

(* ------------------------------------------------------------------ mps_standard_mpsolve (unisolve/main.c) *)
Record scfg := mkScfg {
  c_goal : goal; c_mult : bool; c_props : bool;
  c_resume : bool;                   (* s->resume *)
  c_newton : bool;                   (* fnewton, dnewton, mnewton all != NULL *)
  c_skip_float : bool;
  c_mpwp_max : Z; c_minprec : Z;
  c_pprec : Z;                       (* active_poly->prec *)
  c_user : bool;                     (* density == MPS_DENSITY_USER *)
  c_fixed : bool                     (* the "Reached the input precision" branch of == 8 ==.  false: it records nothing (the code before /repo
                                        commit 6608fee8); true: it sets over_max (fixes/C02_silent_precision_cap.patch = 6608fee8, the code since).
                                        checks/C02.py reads off the snapshot's main.c which one replays the traces *)
}.

(* what the opaque calls return / leave behind, in call order *)
Inductive sev :=
| SvCheckData (which_d : bool) (err : bool)       (* mps_check_data: which_case == 'd' afterwards; mps_context_has_errors *)
| SvFSolve (d_after_f : bool) (rs : list rt)      (* mps_fsolve: *d_after_f and the roots it leaves *)
| SvDSolve (rs : list rt)
| SvMSolve (rs : list rt)
| SvMModify (cls : list cluster) (w : list bool) (aux : list (nat * bool))
                                                  (* the driver's own mps_mmodify (s, true): clusters, radius tests;
                                                     inclusion / attrs it leaves (mps_mupdate_inclusions, detect_properties) *)
| SvExitSub (nclusters : nat)                     (* s->clusterization->n at exit_sub *)
| SvInclusion (ok : bool)                         (* mps_inclusion *)
| SvImprove (cp0 : Z) (rounds : list (list bool)).

Inductive how := HFloatStop | HDpeStop | HApproxEarly | HLoopComputed | HOverMax | HSilent.
Inductive sexit := XErrResume | XErrNewton | XErrCheckData | XErrInclusion | XDone (h : how).

Record sout := mkSout {
  so_exit : sexit;
  so_roots : list rt;              (* what mps_copy_roots copies *)
  so_over_max : bool;
  so_computed : bool;
  so_stops : list bool;            (* results of the driver's stop tests, latest first *)
  so_seen : list rt;               (* roots read by the last stop test *)
  so_lastmod : option (list cluster * list bool);   (* operands of the driver's last mps_mmodify *)
  so_mpwp : Z;
  so_improve : option imp_out
}.

Record lstate := mkLs {
  l_computed : bool; l_over : bool; l_mpwp : Z; l_roots : list rt; l_stops : list bool; l_seen : list rt;
  l_lastmod : option (list cluster * list bool) }.

Fixpoint zip_rt (sts : list nat) (aux : list (nat * bool)) : list rt :=
  match sts, aux with
  | s :: t, (i, a) :: u => mkRt s i a :: zip_rt t u
  | _, _ => []
  end.

(* == 7 == `while (!computed && s->mpwp < s->mpwp_max)` : one SvMSolve + SvMModify per iteration *)
Fixpoint mp_loop (cfg : scfg) (evs : list sev) (st : lstate) : option (lstate * list sev) :=
  if negb (l_computed st) && (l_mpwp st <? c_mpwp_max cfg) then
    match evs with
    | SvMSolve rs :: SvMModify cls w aux :: rest =>
      let m1 := 2 * l_mpwp st in
      let m2 := if m1 >? c_mpwp_max cfg then c_mpwp_max cfg else m1 in
      let ov := if m1 >? c_mpwp_max cfg then true else l_over st in
      let m3 := set_prec (c_minprec cfg) m2 in                                    (* mps_mp_set_prec (s, s->mpwp) *)
      let c := check_stop (c_goal cfg) (c_mult cfg) (c_props cfg) rs in           (* == 7.3 == *)
      let sts' := reset_new (modify_roots VMp true cls w (map rst rs)) in         (* mps_mmodify (s, true); == 7.4 == *)
      if Nat.eqb (length aux) (length rs) then
        mp_loop cfg rest (mkLs c ov m3 (zip_rt sts' aux) (c :: l_stops st) rs (Some (cls, w)))
      else None
    | _ => None
    end
  else Some (st, evs).

(* == 10 == improve (only if computed && !over_max && goal == APPROXIMATE), == 12 ==, mps_copy_roots *)
Definition exit_improve (cfg : scfg) (h : how) (st : lstate) (rest : list sev) : option sout :=
  if l_computed st && negb (l_over st) && (match c_goal cfg with GApproximate => true | _ => false end) then
    match rest with
    | [SvImprove cp0 rounds] =>
      match improve (negb (c_newton cfg)) (c_user cfg) (c_pprec cfg) cp0 rounds (l_roots st) with
      | Some io =>
        Some (mkSout (XDone h) (zip_rt (io_sts io) (map (fun r => (rinc r, rnone r)) (l_roots st)))
                     (l_over st || io_over io) (l_computed st) (l_stops st) (l_seen st) (l_lastmod st) (l_mpwp st) (Some io))
      | None => None
      end
    | _ => None
    end
  else match rest with
       | [] => Some (mkSout (XDone h) (l_roots st) (l_over st) (l_computed st) (l_stops st) (l_seen st) (l_lastmod st) (l_mpwp st) None)
       | _ => None
       end.

(* exit_sub: == 9 == `if (computed && s->clusterization->n < s->n) if (!mps_inclusion (s)) { mps_error; return; }` *)
Definition exit_sub (cfg : scfg) (h : how) (st : lstate) (evs : list sev) : option sout :=
  match evs with
  | SvExitSub ncl :: rest =>
    if l_computed st && Nat.ltb ncl (length (l_roots st)) then
      match rest with
      | SvInclusion ok :: rest' =>
        if ok then exit_improve cfg h st rest'
        else match rest' with
             | [] => Some (mkSout XErrInclusion (l_roots st) (l_over st) (l_computed st) (l_stops st) (l_seen st) (l_lastmod st) (l_mpwp st) None)
             | _ => None
             end
      | _ => None
      end
    else exit_improve cfg h st rest
  | _ => None
  end.

Definition err_out (x : sexit) : option sout := Some (mkSout x [] false false [] [] None 0 None).

Definition is_approx_goal (g : goal) : bool := match g with GApproximate => true | _ => false end.

(* == 6 == .. == 8 == : MP phase *)
Definition mp_part (cfg : scfg) (st : lstate) (evs : list sev) : option sout :=
  if l_computed st && is_approx_goal (c_goal cfg) then                       (* after mps_mp_set_prec (s, 2 * DBL_MANT_DIG) *)
    exit_sub cfg HApproxEarly (mkLs (l_computed st) (l_over st) (set_prec (c_minprec cfg) 106) (l_roots st) (l_stops st) (l_seen st) (l_lastmod st)) evs
  else
    let st0 := mkLs (l_computed st) (l_over st) (start_prec (c_minprec cfg)) (l_roots st) (l_stops st) (l_seen st) (l_lastmod st) in
    match mp_loop cfg evs st0 with
    | None => None
    | Some (st1, rest) =>
      if l_computed st1 then exit_sub cfg HLoopComputed st1 rest
      else if l_over st1 then exit_sub cfg HOverMax st1 rest
      else (* "Reached the input precision": nothing is recorded (before 6608fee8) / over_max = true (since) *)
        if c_fixed cfg then exit_sub cfg HSilent (mkLs false true (l_mpwp st1) (l_roots st1) (l_stops st1) (l_seen st1) (l_lastmod st1)) rest
        else exit_sub cfg HSilent st1 rest
    end.

(* == 5 == : DPE phase, entered when which_case == 'd' || d_after_f *)
Definition dpe_part (cfg : scfg) (need_d : bool) (st : lstate) (evs : list sev) : option sout :=
  if need_d then
    match evs with
    | SvDSolve rs :: rest =>
      let c := check_stop (c_goal cfg) (c_mult cfg) (c_props cfg) rs in
      let st' := mkLs c (l_over st) (l_mpwp st) rs (c :: l_stops st) rs (l_lastmod st) in
      if c && negb (is_approx_goal (c_goal cfg)) then exit_sub cfg HDpeStop st' rest
      else mp_part cfg st' rest
    | _ => None
    end
  else mp_part cfg st evs.

Definition std_run (cfg : scfg) (evs : list sev) : option sout :=
  if c_resume cfg then match evs with [] => err_out XErrResume | _ => None end
  else if negb (c_newton cfg) then match evs with [] => err_out XErrNewton | _ => None end
  else match evs with
  | SvCheckData which_d err :: rest =>
    if err then match rest with [] => err_out XErrCheckData | _ => None end
    else
      let st := mkLs false false 0 [] [] [] None in
      if negb which_d then                                         (* == 4 == float phase *)
        match rest with
        | SvFSolve d_after_f rs :: rest' =>
          let c := check_stop (c_goal cfg) (c_mult cfg) (c_props cfg) rs in
          let st' := mkLs c false 0 rs [c] rs None in
          if c && negb (is_approx_goal (c_goal cfg)) then exit_sub cfg HFloatStop st' rest'
          else dpe_part cfg d_after_f st' rest'
        | _ => None
        end
      else dpe_part cfg true st rest
  | _ => None
  end.

(* ------------------------------------------------------------------ mps_secular_ga_mpsolve (secsolve/secular-ga.c) *)
Record gcfg := mkGcfg {
  g_goal : goal;
  g_secular_input : bool;            (* MPS_IS_SECULAR_EQUATION (active_poly) *)
  g_start : phase;                   (* input_config->starting_phase *)
  g_crude : bool;                    (* crude_approximation_mode *)
  g_avoid_mp : bool;                 (* avoid_multiprecision *)
  g_max_pack : Z;
  g_pprec : Z;                       (* active_poly->prec *)
  g_nonewton : bool; g_user : bool   (* for mps_improve *)
}.

(* outcomes of the opaque calls / values of the fields the driver reads, in program order *)
Inductive gev :=
| GvCheckData (which_f : bool) (err : bool)   (* mps_check_data ; mps_context_has_errors *)
| GvStart (err : bool)                        (* mps_polynomial_fstart / dstart ; EXIT_ON_ERRORS *)
| GvFpe (b : bool)                            (* mps_context_has_floating_point_exceptions, after the float packet *)
| GvErr (b : bool)                            (* an EXIT_ON_ERRORS test *)
| GvStop (exit_required : bool) (sts : list nat)   (* the fields one call of mps_secular_ga_check_stop reads *)
| GvNeedDpe (b : bool)                        (* really_need_dpe after the loop over the moduli *)
| GvRegen (ok : bool)                         (* mps_secular_ga_regenerate_coefficients *)
| GvExitReq (b : bool)                        (* a test of s->exit_required *)
| GvIter (fail best : bool)                   (* an iteration packet: roots_computed == -1 ; s->best_approx afterwards *)
| GvValidate (sts : list nat)                 (* mps_validate_inclusions (only if active_poly->prec > 0): statuses it leaves *)
| GvImprove (cp0 : Z) (rounds : list (list bool)) (rs : list rt).   (* mps_improve: roots it starts from *)

Inductive gwhy := WErrors | WCrude | WStop (exit_required : bool) (ph : phase) (sts : list nat) | WAvoidMp.
Inductive gexit :=
| GErrReturn                                   (* one of the `mps_error (...); return;` exits *)
| GCleanupErrors                               (* cleanup reached with errors: exit_required = true, nothing copied *)
| GExitAfterCopy (w : gwhy)                    (* roots copied, then `if (s->exit_required) return;` *)
| GDone (w : gwhy) (improve : option imp_out). (* the normal end *)

Record gout := mkGout { go_exit : gexit; go_phase : phase; go_final : option (list nat) (* statuses after mps_improve *);
                        go_from : list rt (* the roots mps_improve started from *) }.

(* cleanup: *)
Definition sec_cleanup (cfg : gcfg) (w : gwhy) (ph : phase) (evs : list gev) : option gout :=
  match evs with
  | GvErr true :: [] => Some (mkGout GCleanupErrors ph None [])
  | GvErr false :: rest =>
    (* nothing is called between the EXIT_ON_ERRORS test that led here and this test of the same sticky flag *)
    match w with WErrors => None | _ =>
    let after_validate (rest : list gev) : option gout :=
      match rest with
      | GvExitReq true :: [] => Some (mkGout (GExitAfterCopy w) ph None [])
      | GvExitReq false :: rest' =>
        if is_approx_goal (g_goal cfg) then
          match rest' with
          | [GvImprove cp0 rounds rs] =>
            match improve (g_nonewton cfg) (g_user cfg) (g_pprec cfg) cp0 rounds rs with
            | Some io => Some (mkGout (GDone w (Some io)) ph (Some (io_sts io)) rs)
            | None => None
            end
          | _ => None
          end
        else match rest' with [] => Some (mkGout (GDone w None) ph None []) | _ => None end
      | _ => None
      end in
    if g_pprec cfg >? 0 then
      match rest with
      | GvValidate _ :: rest' => after_validate rest'
      | _ => None
      end
    else after_validate rest
    end
  | _ => None
  end.

Definition err_return (ph : phase) (evs : list gev) : option gout :=
  match evs with [] => Some (mkGout GErrReturn ph None []) | _ => None end.

Definition is_mp (ph : phase) : bool := match ph with MpPhase => true | _ => false end.
Definition is_float (ph : phase) : bool := match ph with FloatPhase => true | _ => false end.
Definition is_dpe (ph : phase) : bool := match ph with DpePhase => true | _ => false end.

(* the `do { ... } while (skip_check_stop || !mps_secular_ga_check_stop (s))` loop; one turn per [fuel] *)
Fixpoint sec_loop (fuel : nat) (cfg : gcfg) (ph : phase) (just_regen : bool) (packet : Z) (evs : list gev) : option gout :=
  match fuel with
  | O => None
  | S fuel' =>
    (* the iteration packet(s): a failing float packet falls through to the DPE code *)
    let after_iter (best : bool) (evs : list gev) : option gout :=
      let packet := packet + 1 in
      match evs with
      | GvExitReq true :: rest => err_return ph rest
      | GvExitReq false :: rest =>
        if packet >? g_max_pack cfg then err_return ph rest
        else
          (* `if (!just_regenerated) { if (check_stop) break; else skip = true; }` *)
          let cont (skip : bool) (rest : list gev) : option gout :=
            (* `if (s->best_approx)` *)
            let tail (ph : phase) (just_regen : bool) (packet : Z) (rest : list gev) : option gout :=
              match rest with
              | GvExitReq true :: r => err_return ph r
              | GvExitReq false :: GvRegen ok :: r =>
                let finish (ph : phase) (just_regen : bool) (packet : Z) (r : list gev) : option gout :=
                  match r with
                  | GvExitReq true :: r' => err_return ph r'
                  | GvExitReq false :: GvStop ex sts :: r' =>                    (* the while condition; skip is false here *)
                    if sec_check_stop ex ph sts then sec_cleanup cfg (WStop ex ph sts) ph r'
                    else sec_loop fuel' cfg ph just_regen packet r'
                  | _ => None
                  end in
                if ok then finish ph true packet r
                else if is_mp ph then
                  match r with
                  | GvRegen _ :: r' => finish ph just_regen 0 r'               (* raise_precision + regenerate, result unused *)
                  | _ => None
                  end
                else finish MpPhase just_regen 0 r                             (* mps_secular_switch_phase (s, mp_phase) *)
              | _ => None
              end in
            if best then
              if g_avoid_mp cfg then sec_cleanup cfg WAvoidMp ph rest
              else
                let ph' := if is_mp ph then ph else MpPhase in
                match rest with
                | GvExitReq true :: r => err_return ph' r
                | GvExitReq false :: GvRegen ok :: GvExitReq ex2 :: r =>
                  if ex2 then err_return ph' r
                  else tail ph' (if ok then true else just_regen) 0 r
                | _ => None
                end
            else tail ph just_regen packet rest in
          if just_regen then cont false rest
          else match rest with
               | GvStop ex sts :: rest' =>
                 if sec_check_stop ex ph sts then sec_cleanup cfg (WStop ex ph sts) ph rest'
                 else cont true rest'
               | _ => None
               end
      | _ => None
      end in
    match evs with
    | GvIter fail best :: rest =>
      if is_float ph && fail then
        match rest with
        | GvIter _ best2 :: rest' => after_iter best2 rest'
        | _ => None
        end
      else after_iter best rest
    | _ => None
    end
  end.

(* from `EXIT_ON_ERRORS` after the starting points to the loop *)
Definition sec_main (cfg : gcfg) (ph : phase) (just_regen : bool) (evs : list gev) : option gout :=
  match evs with
  | GvErr true :: rest => sec_cleanup cfg WErrors ph rest
  | GvErr false :: GvExitReq true :: rest => err_return ph rest
  | GvErr false :: GvExitReq false :: rest => sec_loop (length rest) cfg ph just_regen 0 rest
  | _ => None
  end.

(* preliminary_aberth_packet: ... for a polynomial input; [fuel] bounds the `goto preliminary_aberth_packet` (taken at most once) *)
Fixpoint sec_prelim (fuel : nat) (cfg : gcfg) (ph : phase) (evs : list gev) : option gout :=
  match fuel with
  | O => None
  | S fuel' =>
    let after_packet (ph : phase) (evs : list gev) : option gout :=
      match evs with
      | GvErr true :: rest => sec_cleanup cfg WErrors ph rest
      | GvErr false :: rest =>
        if g_crude cfg then sec_cleanup cfg WCrude ph rest
        else match rest with
        | GvStop ex sts :: rest' =>                                          (* after mps_cluster_analysis *)
          if sec_check_stop ex ph sts then sec_cleanup cfg (WStop ex ph sts) ph rest'
          else
            let regen (ph : phase) (rest : list gev) : option gout :=
              match rest with
              | GvRegen true :: r => sec_main cfg ph false r
              | GvRegen false :: r =>
                if is_float ph then
                  match r with
                  | GvRegen true :: r' => sec_main cfg DpePhase true r'
                  | GvRegen false :: r' => err_return DpePhase r'
                  | _ => None
                  end
                else err_return ph r
              | _ => None
              end in
            if is_dpe ph then
              match rest' with
              | GvNeedDpe b :: r => regen (if b then ph else FloatPhase) r
              | _ => None
              end
            else regen ph rest'
        | _ => None
        end
      | _ => None
      end in
    match ph with
    | FloatPhase =>
      match evs with
      | GvStart true :: rest => sec_cleanup cfg WErrors ph rest
      | GvStart false :: GvFpe true :: rest => sec_prelim fuel' cfg DpePhase rest
      | GvStart false :: GvFpe false :: rest => after_packet ph rest
      | _ => None
      end
    | DpePhase =>
      match evs with
      | GvStart true :: rest => sec_cleanup cfg WErrors ph rest
      | GvStart false :: rest => after_packet ph rest
      | _ => None
      end
    | _ => err_return ph evs                                                 (* "Unrecognized starting phase" *)
    end
  end.

Definition sec_run (cfg : gcfg) (evs : list gev) : option gout :=
  if g_secular_input cfg then sec_main cfg FloatPhase false evs
  else
    match g_start cfg with
    | NoPhase =>
      match evs with
      | GvCheckData which_f err :: rest =>
        if err then err_return NoPhase rest
        else sec_prelim 3 cfg (if which_f then FloatPhase else DpePhase) rest
      | _ => None
      end
    | ph => sec_prelim 3 cfg ph evs
    end.
