(* C02 - goal contract and status honesty: the executable predicates (definitions only).

   Everything here is a pure function of EXACT values (Q): the check feeds it the values the
   solver exported (multiprecision centre, DPE radius, status word, output precision, goal,
   over_max) and reads the verdict.  Anchors in /repo:
     include/mps/types.h      enum mps_root_status, mps_table_of_approximated_roots,
                              mps_table_of_computed_roots
     common/modify.c          mps_fmodify / mps_dmodify / mps_mmodify   (status bookkeeping)
     common/touch.c           mps_[fdm]touchnwt                          (n*(ri+rj) >= |zi-zj|)
     unisolve/solve.c         mps_check_stop ; secsolve/secular-ga.c  mps_secular_ga_check_stop *)
Require Import QArith Qminmax List Bool ZArith.
Import ListNotations.
Open Scope Q_scope.

(* ---- status words: the enum of types.h, by position *)
Definition ST_NEW_CLUSTERED := 0%nat.
Definition ST_CLUSTERED := 1%nat.
Definition ST_ISOLATED := 2%nat.
Definition ST_APPROXIMATED := 3%nat.
Definition ST_APPROXIMATED_IN_CLUSTER := 4%nat.
Definition ST_NOT_FLOAT := 5%nat.
Definition ST_NOT_DPE := 6%nat.
Definition ST_MULTIPLE := 7%nat.

(* the two tables of types.h, transcribed literally *)
Definition table_of_approximated_roots : list bool := [false; false; false; true; true; false; false; false].
Definition table_of_computed_roots : list bool := [false; false; true; true; true; false; false; false].

Definition is_approximated (s : nat) : bool := nth s table_of_approximated_roots false.
Definition is_computed (s : nat) : bool := nth s table_of_computed_roots false.

(* ---- goals: enum mps_output_goal = ISOLATE, APPROXIMATE, COUNT *)
Inductive goal := GIsolate | GApproximate | GCount.

Definition goal_ok (g : goal) (sts : list nat) : bool :=
  match g with
  | GIsolate => forallb is_computed sts
  | GApproximate => forallb is_approximated sts
  | GCount => true
  end.

(* ---- the relative-radius bound  r <= 2^-d |z| , decided on squares *)
Definition pow4 (d : Z) : Q := inject_Z (4 ^ d).

Definition approx_ok (d : Z) (zre zim r : Q) : bool :=
  (0 <=? d)%Z && Qle_bool 0 r && Qle_bool (r * r * pow4 d) (zre * zre + zim * zim).

(* ---- discs *)
Record disc := mkDisc { cre : Q; cim : Q; rad : Q }.

Definition dist2 (a b : disc) : Q :=
  (cre a - cre b) * (cre a - cre b) + (cim a - cim b) * (cim a - cim b).

(* closed discs have no common point:  |c1-c2|^2 > (r1+r2)^2  (radii must be >= 0) *)
Definition disjoint (a b : disc) : bool :=
  Qle_bool 0 (rad a) && Qle_bool 0 (rad b) &&
  negb (Qle_bool (dist2 a b) ((rad a + rad b) * (rad a + rad b))).

Fixpoint all_pairwise_disjoint (ds : list disc) : bool :=
  match ds with
  | [] => true
  | d :: rest => forallb (disjoint d) rest && all_pairwise_disjoint rest
  end.

(* the touch predicate of touch.c with isolation factor nf (= 2n for Newton isolation, 1 for plain
   isolation), evaluated exactly:  nf * (Ri + Rj) >= |zi - zj| *)
Definition touch (nf : Q) (a b : disc) : bool :=
  Qle_bool (dist2 a b) ((nf * (rad a + rad b)) * (nf * (rad a + rad b))).

(* ---- one returned root *)
Record root := mkRoot { st : nat; zre : Q; zim : Q; zrad : Q }.

Definition disc_of (r : root) : disc := mkDisc (zre r) (zim r) (zrad r).

(* a root REPORTED approximated meets the bound *)
Definition honest (d : Z) (r : root) : bool :=
  if is_approximated (st r) then approx_ok d (zre r) (zim r) (zrad r) else true.

(* the roots reported isolated or approximated (status ISOLATED, APPROXIMATED, APPROXIMATED_IN_CLUSTER) *)
Definition reported (rs : list root) : list root := filter (fun r => is_computed (st r)) rs.

(* clause of the first sentence of C02; [exempt] = crude / avoid-multiprecision mode *)
Definition goal_clause (g : goal) (over_max exempt : bool) (d : Z) (rs : list root) : bool :=
  if over_max then true else
  match g with
  | GIsolate => forallb (fun r => is_computed (st r)) rs
  | GApproximate => if exempt then true
                    else forallb (fun r => is_approximated (st r) && approx_ok d (zre r) (zim r) (zrad r)) rs
  | GCount => true
  end.

Definition honest_clause (d : Z) (rs : list root) : bool := forallb (honest d) rs.
Definition disjoint_clause (rs : list root) : bool := all_pairwise_disjoint (map disc_of (reported rs)).

Definition run_ok (g : goal) (over_max exempt : bool) (d : Z) (rs : list root) : bool :=
  goal_clause g over_max exempt d rs && honest_clause d rs && disjoint_clause rs.

(* ---- status bookkeeping of modify.c for ONE root, as coded.
   [csize]  number of roots in the root's cluster;  [track] the track_new_cluster argument;
   [old] status before the call (after the NEW_CLUSTERED re-tagging loop);
   [within] the outcome of the radius test of that variant
            (f, singleton: frad < |z| * eps_out ;  clusters, f/d/m:  rad / |z| <= eps_out). *)
Inductive variant := VFloat | VDpe | VMp.

Definition retag (track : bool) (old : nat) : nat :=
  if track && Nat.eqb old ST_CLUSTERED then ST_NEW_CLUSTERED else old.

Definition modify_status (v : variant) (track : bool) (csize : nat) (old : nat) (within : bool) : nat :=
  let old := retag track old in
  if Nat.eqb csize 1 then
    if Nat.eqb old ST_APPROXIMATED then ST_APPROXIMATED
    else match v with
         | VFloat => if within then ST_APPROXIMATED else ST_ISOLATED
         | _ => ST_ISOLATED
         end
  else
    let s1 := if track then old else ST_CLUSTERED in
    if within then ST_APPROXIMATED_IN_CLUSTER else s1.

(* the same with the repair of fixes/C02_stale_approx_in_cluster.patch: a clustered root that no longer
   passes the test loses APPROXIMATED_IN_CLUSTER *)
Definition modify_status_fixed (v : variant) (track : bool) (csize : nat) (old : nat) (within : bool) : nat :=
  let old := retag track old in
  if Nat.eqb csize 1 then
    if Nat.eqb old ST_APPROXIMATED then ST_APPROXIMATED
    else match v with
         | VFloat => if within then ST_APPROXIMATED else ST_ISOLATED
         | _ => ST_ISOLATED
         end
  else
    let s1 := if track then old else ST_CLUSTERED in
    if within then ST_APPROXIMATED_IN_CLUSTER
    else if Nat.eqb s1 ST_APPROXIMATED_IN_CLUSTER then ST_CLUSTERED else s1.

(* the radius test of the cluster branch evaluated exactly (what `within` should mean) *)
Definition within_exact (d : Z) (r : root) : bool := approx_ok d (zre r) (zim r) (zrad r).
